(* C06 for the sparse vector: serialize / load round trip with exact consumption and exact size.
   Only property theorems here. Reading guide: Props/C06.v (codecs, roundtrip), Props/C02.v (builders).

   [sparse_codec sp m] (Model/SerSparse.v) is SparseVector's impl of Serialize: len, high (a BitVector with
   whatever supports it carries), low (an IntVector) are written; load reads them back, enables select and
   select_zero on high (on the select path [sp] of the loading binary), and makes the two sanity checks
   ones = low.len() and high.len() = low.len() + get_buckets(len, low.width()). Its well-formedness predicate
   [c_wf (sparse_codec sp m) v] is: the three fields are well-formed and the loader applied to them returns v itself. *)
From Coq Require Import String NArith List Bool.
Require Import SDS.Model.Mach SDS.Model.Bits SDS.Model.Raw SDS.Model.IntVec SDS.Model.BitVec SDS.Model.Ser.
Require Import SDS.Model.Sparse SDS.Model.SerComposite SDS.Model.SerSparse.
Require Import SDS.gen.Consts SDS.gen.Layout SDS.Spec.Stream SDS.Spec.BitSeq SDS.Spec.ValSeq.
Require Import SDS.Proofs.SerProof SDS.Proofs.SerTypes SDS.Proofs.SerMain.
Require Import SDS.Proofs.SparseProof SDS.Proofs.SparseBuild SDS.Proofs.SerSparse.
Import ListNotations.
Open Scope N_scope.

(* Every vector built through SparseBuilder::new + try_set + try_from (any universe below 2^64, any strictly
   increasing position list, any low width 1..63, either select path, either mode) is well-formed for the codec of
   EVERY loader (select path sp', mode m'), hence: load returns the SAME model record (len, low, and the high part
   with both select supports, so it answers every query as the original does) and leaves exactly what followed
   the serialization, and size_in_bytes = 8 * size_in_elements bytes were written.
   [m + buckets + 4096 < 2^64], [m * w + 63 < 2^64]: the bit counts of high and low are addressable. *)
Theorem C06_roundtrip_sparse : forall sp md w' n P,
  n < 2 ^ 64 -> 1 <= w' <= 63 -> increasing P = true -> all_below n P = true ->
  let w := eff_width w' n (lenN P) in
  lenN P + buckets_of n w + select_SUPERBLOCK_SIZE < 2 ^ 64 -> lenN P * w + 63 < 2 ^ 64 ->
  exists sv, sv_build_set sp md w' n P = Ok (inl sv) /\
    forall sp' m',
      c_wf (sparse_codec sp' m') sv /\
      (forall rest, c_dec (sparse_codec sp' m') (c_enc (sparse_codec sp' m') sv ++ rest) = IoOk (sv, rest)) /\
      lenN (c_enc (sparse_codec sp' m') sv) = 8 * c_size (sparse_codec sp' m') sv.
Proof.
  intros sp md w' n P Hn Hw Hi Hb w Hfit Hbits.
  destruct (sparse_set_wf sp md w' n P Hn Hw Hi Hb Hfit Hbits) as (sv & E & Wf & _). exists sv. split; [exact E|].
  intros sp' m'. split; [exact (Wf sp' m')|]. exact (ok_roundtrip _ sv (sparse_codec_ok sp' m') (Wf sp' m')).
Qed.
Print Assumptions C06_roundtrip_sparse.

(* the same for multisets (SparseBuilder::multiset, non-decreasing values, duplicates allowed) *)
Theorem C06_roundtrip_sparse_multiset : forall sp md w' n Vs,
  n < 2 ^ 64 -> 1 <= w' <= 63 -> nondecreasing Vs = true -> all_below n Vs = true ->
  let w := eff_width w' n (lenN Vs) in
  lenN Vs + buckets_of n w + select_SUPERBLOCK_SIZE < 2 ^ 64 -> lenN Vs * w + 63 < 2 ^ 64 ->
  exists sv, sv_build_multiset sp md w' n Vs = Ok (inl sv) /\
    forall sp' m',
      c_wf (sparse_codec sp' m') sv /\
      (forall rest, c_dec (sparse_codec sp' m') (c_enc (sparse_codec sp' m') sv ++ rest) = IoOk (sv, rest)) /\
      lenN (c_enc (sparse_codec sp' m') sv) = 8 * c_size (sparse_codec sp' m') sv.
Proof.
  intros sp md w' n Vs Hn Hw Hi Hb w Hfit Hbits.
  destruct (sparse_multiset_wf sp md w' n Vs Hn Hw Hi Hb Hfit Hbits) as (sv & E & Wf & _). exists sv. split; [exact E|].
  intros sp' m'. split; [exact (Wf sp' m')|]. exact (ok_roundtrip _ sv (sparse_codec_ok sp' m') (Wf sp' m')).
Qed.
Print Assumptions C06_roundtrip_sparse_multiset.

(* ... and for any value of the type that the loader maps to itself; such values can also be wrapped in Option<T>
   and concatenated with other structures (C06_option / C06_concat of Props/C06.v apply to every correct codec) *)
Theorem C06_roundtrip_sparse_wf : forall sp m v, c_wf (sparse_codec sp m) v -> roundtrip (sparse_codec sp m) v.
Proof. intros sp m v H. exact (ok_roundtrip _ v (sparse_codec_ok sp m) H). Qed.
Print Assumptions C06_roundtrip_sparse_wf.

Theorem C06_sparse_codec_ok : forall sp m, codec_ok (sparse_codec sp m).
Proof. exact sparse_codec_ok. Qed.
Print Assumptions C06_sparse_codec_ok.

(* size_in_elements = 1 (len) + high + low; the codec is the encoder / loader of Model/SerComposite.v (the subject of
   C19_high_rebuild / C19_sparse_native); the bytes written are the little-endian image of the element list
   [sv_serialize] of Model/Sparse.v (what the correspondence checks of C02 / C11 compare) *)
Theorem C06_size_sparse : forall sp m v,
  c_size (sparse_codec sp m) v = 1 + c_size (bv_codec m) (sv_high v) + c_size (iv_codec m) (sv_low v) /\
  c_enc (sparse_codec sp m) v = sparse_enc m v /\
  (forall s, c_dec (sparse_codec sp m) s = sparse_dec sp m s) /\
  (bv_ok (sv_high v) -> c_enc (sparse_codec sp m) v = flat_map le64 (sv_serialize v)).
Proof.
  intros sp m v. split; [apply sparse_size|]. split; [reflexivity|]. split; [apply sparse_codec_dec|apply sparse_enc_elems].
Qed.
Print Assumptions C06_size_sparse.

(* the tie to the source for SparseVector: field order of serialize / load / size_in_elements and the two sanity checks
   (gen/Layout.v is regenerated from src/sparse_vector.rs on every check: a field swap, even a symmetric one, or a
   changed check breaks the equality) *)
Theorem C06_layout_sparse :
  mklayout layout_SparseVector_serialize_header layout_SparseVector_serialize_body layout_SparseVector_load
           layout_SparseVector_load_checks layout_SparseVector_size_in_elements = expected_SparseVector /\
  fields_consistent expected_SparseVector ["len"; "high"; "low"]%string.
Proof. exact (conj layout_SparseVector_ok fields_SparseVector). Qed.
Print Assumptions C06_layout_sparse.

(* non-vacuity: the documentation example of SparseVector (universe 137, ones at 1, 33, 95, 123, width 5) loaded from
   its own bytes followed by other data, by a loader on the other select path and in the other mode *)
Example ex_sparse_roundtrip :
  match sv_build_set Pdep Debug 5 137 [1; 33; 95; 123] with
  | Ok (inl sv) =>
      lenN (c_enc (sparse_codec Portable Release) sv) = 8 * c_size (sparse_codec Portable Release) sv /\
      c_dec (sparse_codec Portable Release) (c_enc (sparse_codec Portable Release) sv ++ [7; 7]) = IoOk (sv, [7; 7]) /\
      c_dec (sparse_codec Portable Release) (firstn 100 (c_enc (sparse_codec Portable Release) sv)) = IoErr UnexpectedEof
  | _ => False
  end.
Proof. vm_compute. repeat split; reflexivity. Qed.
