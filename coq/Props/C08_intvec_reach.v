(* C08 -- the states the safe IntVector API can reach are states the no-out-of-bounds theorems are about.
   Only property theorems here: statement, [exact lemma], Print Assumptions, a non-vacuity Example.

   Counterpart of Props/C08_reach.v (RawVector) for IntVector.  The safe conversions
   RawVector::from(IntVector) (`source.data`, [raw_of_iv]) and BitVector::from(RawVector) hand the backing words of an
   integer vector to the unchecked set / unset-bit scans of BitVector, which trust the representation invariant
   [raw_inv] (exactly ceil(len / 64) words of 64 bits, NO bit set at or beyond len).  IntVector::push / pop / set /
   resize / pack / with_len call the `unsafe fn` RawVector::push_int / pop_int / set_int / resize; this file shows
   that EVERY finite sequence of calls of the safe IntVector API ([iop], run by [istep] of Model/Hist.v:
   with_len(..).unwrap(), From<Vec<uW>>, get, set, push, pop, resize, clear, reserve, pack, extend, count_ones) with
   ARBITRARY arguments, starting from IntVector::new(w), ends in a vector whose width is in 1..64, whose raw length is
   items * width and whose raw vector satisfies that invariant; a call either returns such a vector or panics - get /
   set at an index >= len (assertion), with_len(..).unwrap() with a width outside 1..64 - and a caught panic leaves the
   vector as it was ([isrun], Model/IntSafe.v).  In particular pop() leaves no bit of the popped item behind the new
   length.  Why that matters: C08_stale_bits_after_len_reach_oob. *)
From Coq Require Import NArith List Bool.
Require Import SDS.Model.Mach SDS.Model.Bits SDS.Model.Raw SDS.Model.IntVec SDS.Model.BitVec SDS.Model.Hist
               SDS.Model.RawSafe SDS.Model.IntSafe.
Require Import SDS.Spec.BitSeq SDS.Spec.SeqSpec SDS.Proofs.BitsProof SDS.Proofs.RawProof SDS.Proofs.IntVecProof
               SDS.Proofs.BVCommon SDS.Proofs.RankProof SDS.Proofs.OneIterProof SDS.Proofs.SelectProof
               SDS.Proofs.NoOobProof SDS.Proofs.RawReach SDS.Proofs.IntVecReach.
Import ListNotations.
Open Scope N_scope.

(* one safe call on a vector inside the invariant, EVERY argument value: a vector inside the invariant, or one of
   the two panics (no other panic, no out-of-bounds access) *)
Theorem C08_intvec_safe_api_preserves_inv : forall v o,
  1 <= iwidth v <= 64 /\ rlen (idata v) = ilen v * iwidth v /\ raw_inv (idata v) -> iop_safe o ->
  (exists v' x, istep v o = Ok (v', x) /\
                1 <= iwidth v' <= 64 /\ rlen (idata v') = ilen v' * iwidth v' /\ raw_inv (idata v')) \/
  (istep v o = Panic PAssert /\ exists i, ilen v <= i /\ (o = IGet i \/ exists x, o = ISet i x)) \/
  (istep v o = Panic PUnwrap /\ exists len w value, o = IWithLen len w value /\ ~ (1 <= w <= 64)).
Proof. exact istep_inv. Qed.
Print Assumptions C08_intvec_safe_api_preserves_inv.

(* every history of safe calls, panicking ones included (the state is kept), from IntVector::new(w) *)
Theorem C08_intvec_reachable_inv : forall w v0 ops,
  iv_new w = Some v0 -> Forall iop_safe ops ->
  let v := isrun v0 ops in
  1 <= iwidth v <= 64 /\ rlen (idata v) = ilen v * iwidth v /\ raw_inv (raw_of_iv v).
Proof. exact intvec_reachable_inv_full. Qed.
Print Assumptions C08_intvec_reachable_inv.

(* the same for a history in which every call returned, as the correspondence check replays it ([irun]) *)
Theorem C08_intvec_run_inv : forall w v0 ops v' xs,
  iv_new w = Some v0 -> Forall iop_safe ops -> irun v0 ops = Ok (v', xs) ->
  1 <= iwidth v' <= 64 /\ rlen (idata v') = ilen v' * iwidth v' /\ raw_inv (raw_of_iv v').
Proof. exact irun_inv_full. Qed.
Print Assumptions C08_intvec_run_inv.

(* pop() on a vector inside the invariant: the vector it leaves has exactly ceil(len / 64) words and reads 0 at every
   position at or beyond its new bit length *)
Theorem C08_intvec_pop_clears_tail : forall v v' x,
  1 <= iwidth v <= 64 /\ rlen (idata v) = ilen v * iwidth v /\ raw_inv (idata v) ->
  iv_pop v = Ok (v', x) ->
  rlen (idata v') = ilen v' * iwidth v' /\
  lenN (rdata (idata v')) = bits_to_words (rlen (idata v')) /\
  forall p, rlen (idata v') <= p -> bit (rdata (idata v')) p = false.
Proof. exact iv_pop_clears. Qed.
Print Assumptions C08_intvec_pop_clears_tail.

(* BitVector::from(RawVector::from(v)) of any reachable integer vector (of a bit length a usize holds) satisfies the
   hypotheses of C08_no_oob, so: for every history of safe IntVector calls, the compiled count_zeros cannot wrap and
   every later call of the BitVector query API ([bv_call], Proofs/NoOobProof.v: get, rank, select, every iterator from
   every source driven by any sequence of steps) with any argument, in both modes and on both select paths, is free
   of out-of-bounds accesses *)
Theorem C08_no_oob_intvec_reachable : forall sp m w v0 ops,
  iv_new w = Some v0 -> Forall iop_safe ops ->
  let r := raw_of_iv (isrun v0 ops) in rlen r < 2 ^ 64 ->
  bv_repr (bv_from_raw r) (abs_raw r) /\
  zero_iter_w m (bv_from_raw r) = Ok (oi_start Complement (bv_from_raw r)) /\
  forall calls : list bv_call, forallb (fun c => negb (bv_call_oob sp m (bv_from_raw r) c)) calls = true.
Proof. exact intvec_no_oob_reachable. Qed.
Print Assumptions C08_no_oob_intvec_reachable.

(* The invariant is not decorative.  The words a 13-bit vector of five all-ones items would keep if pop() dropped the
   length without clearing the popped item's bits in the last word - 52 bits of length over the word 2^64 - 1 - are
   outside the invariant; BitVector::from counts ones = 64 > len = 52; zero_iter() computes count_zeros = 52 - 64,
   which wraps without overflow checks, and its first next() scans past the only word: [OOB SITE_RAW_WORD] (with
   overflow checks: panic).  The pop() of the model (and of the code it follows) leaves 2^52 - 1 instead. *)
Theorem C08_stale_bits_after_len_reach_oob :
  let r := mkraw 52 [2 ^ 64 - 1] in
  let b := bv_from_raw r in
  ~ raw_inv r /\ bv_ones b = 64 /\ bv_len b = 52 /\
  (exists it, zero_iter_w Release b = Ok it /\ oi_next_f Complement b it = OOB SITE_RAW_WORD) /\
  zero_iter_w Debug b = Panic POverflow /\
  (exists v, iv_with_len 5 13 (2 ^ 64 - 1) = Some (Ok v) /\
             rmap (fun p => idata (fst p)) (iv_pop v) = Ok (mkraw 52 [2 ^ 52 - 1])).
Proof. exact stale_bits_reach_oob. Qed.
Print Assumptions C08_stale_bits_after_len_reach_oob.

(* non-vacuity: a history with refused calls in it (get and set past the end, with_len with width 65) ending in two
   pops; the state it leaves, and the iterators over its unset and set bits *)
Example C08_intvec_reach_example :
  let ops := [IWithLen 5 13 (2 ^ 64 - 1); IGet 7; ISet 5 1; IWithLen 3 65 0; IPush 8191; IPop; IPop] in
  Forall iop_safe ops /\
  (exists v0, iv_new 7 = Some v0 /\
     isrun v0 ops = mkiv 4 13 (mkraw 52 [2 ^ 52 - 1]) /\
     (let b := bv_from_raw (raw_of_iv (isrun v0 ops)) in
      (let* it := zero_iter_w Release b in let* (_, a) := oi_next_f Complement b it in Ok a) = Ok None /\
      (let* (_, a) := oi_next_f Identity b (oi_start Identity b) in Ok a) = Ok (Some (0, 0)))) /\
  istep (mkiv 5 13 (mkraw 65 [2 ^ 64 - 1; 1])) (IGet 7) = Panic PAssert /\
  istep (mkiv 5 13 (mkraw 65 [2 ^ 64 - 1; 1])) (IWithLen 3 65 0) = Panic PUnwrap.
Proof.
  cbv zeta. split; [repeat constructor|]. split; [|split; vm_compute; reflexivity].
  eexists. split; [vm_compute; reflexivity|]. vm_compute. repeat split.
Qed.
