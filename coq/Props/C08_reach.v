(* C08 -- the states the safe API can reach are the states the no-out-of-bounds theorems are about.
   Only property theorems here: statement, [exact lemma], Print Assumptions, a non-vacuity Example.

   The theorems of Props/C08.v assume the representation invariant ([raw_inv] for a RawVector: exactly
   ceil(len / 64) words of 64 bits, NO bit set at or beyond len; [bv_repr] for a BitVector: such a raw vector and
   ones = number of set bits).  The unchecked scans rely on it: OneIter trusts the cached counts to know how many
   set (unset) bits remain.  This file closes the other half: EVERY finite sequence of calls of the SAFE RawVector
   API ([sop], Model/RawSafe.v: with_len, resize, clear, reserve, complement, push_bit, pop_bit, set_bit, bit,
   word, count_ones; the `unsafe fn` int / set_int / push_int / pop_int are outside) with ARBITRARY arguments,
   starting from RawVector::new(), ends in a vector satisfying the invariant; a call either returns such a vector or
   panics - set_bit at an offset >= len (assertion), bit / word beyond the words (index) - and a caught panic
   leaves the vector as it was.  Before the repair 7337be0 (finding F13) set_bit checked only the WORD index, and
   this was false: C08_set_bit_old_refuted. *)
From Coq Require Import NArith List Bool.
Require Import SDS.Model.Mach SDS.Model.Bits SDS.Model.Raw SDS.Model.BitVec SDS.Model.RawSafe.
Require Import SDS.Spec.BitSeq SDS.Proofs.BitsProof SDS.Proofs.RawProof SDS.Proofs.BVCommon SDS.Proofs.RankProof
               SDS.Proofs.OneIterProof SDS.Proofs.SelectProof SDS.Proofs.NoOobProof SDS.Proofs.RawReach.
Import ListNotations.
Open Scope N_scope.

(* one safe call on a vector inside the invariant, EVERY argument value: a vector inside the invariant, or one of
   the two panics (no other panic, no out-of-bounds access) *)
Theorem C08_raw_safe_api_preserves_inv : forall r o, raw_inv r ->
  (exists r', sstep r o = Ok r' /\ raw_inv r') \/
  (sstep r o = Panic PAssert /\ exists i b, o = SSetBit i b /\ rlen r <= i) \/
  (sstep r o = Panic PIndex /\
   ((exists i, o = SBit i /\ rlen r <= i) \/ (exists i, o = SWord i /\ bits_to_words (rlen r) <= i))).
Proof. exact sstep_inv. Qed.
Print Assumptions C08_raw_safe_api_preserves_inv.

(* every history of safe calls, panicking ones included (the state is kept), from any vector inside the invariant
   and in particular from RawVector::new() *)
Theorem C08_raw_reachable_inv : forall ops,
  (forall r, raw_inv r -> raw_inv (srun r ops)) /\ raw_inv (srun raw_new ops).
Proof. intros ops. split; [apply srun_inv|apply reachable_inv]. Qed.
Print Assumptions C08_raw_reachable_inv.

(* BitVector::from of any reachable vector (of a length a usize holds) satisfies the hypotheses of C08_no_oob, so:
   for every history of safe RawVector calls, every later call of the BitVector query API ([bv_call],
   Proofs/NoOobProof.v: get, rank, select, every iterator from every source driven by any sequence of steps) with
   any argument, in both modes and on both select paths, is free of out-of-bounds accesses *)
Theorem C08_no_oob_reachable : forall sp m ops,
  let r := srun raw_new ops in rlen r < 2 ^ 64 ->
  bv_repr (bv_from_raw r) (abs_raw r) /\
  forall calls : list bv_call, forallb (fun c => negb (bv_call_oob sp m (bv_from_raw r) c)) calls = true.
Proof.
  intros sp m ops r Hl. destruct (reachable_bitvector sp m ops Hl) as (H1 & H2). split; [exact H1|].
  intros calls. apply forallb_forall. intros c _.
  rewrite (bv_call_no_oob sp m sp m (bv_from_raw r) (abs_raw r) c H1 H2). reflexivity.
Qed.
Print Assumptions C08_no_oob_reachable.

(* inside the invariant the compiled `len - count_ones` of count_zeros / zero_iter cannot wrap *)
Theorem C08_zero_iter_exact : forall m b B, bv_repr b B -> zero_iter_w m b = Ok (oi_start Complement b).
Proof. exact zero_iter_w_ok. Qed.
Print Assumptions C08_zero_iter_exact.

(* Finding F13.  With set_bit as it was before the repair ([raw_set_bit_old]: only `self.data[index]` is checked):
   RawVector::with_len(1, false); set_bit(0, true); set_bit(1, true) returns three times and leaves the word 0b11
   under length 1, outside the invariant; BitVector::from counts ones = 2 > len = 1; zero_iter() computes
   count_zeros = 1 - 2, which wraps without overflow checks, and its first next() scans past the only word:
   [OOB SITE_RAW_WORD] (with overflow checks: panic).  The repaired set_bit refuses the third call with the
   assertion and the vector stays [1] under length 1. *)
Theorem C08_set_bit_old_refuted :
  let r := srun_old raw_new [SWithLen 1 false; SSetBit 0 true; SSetBit 1 true] in
  let b := bv_from_raw r in
  r = mkraw 1 [3] /\ ~ raw_inv r /\ bv_ones b = 2 /\ bv_len b = 1 /\
  (exists it, zero_iter_w Release b = Ok it /\ oi_next_f Complement b it = OOB SITE_RAW_WORD) /\
  zero_iter_w Debug b = Panic POverflow /\
  sstep (mkraw 1 [1]) (SSetBit 1 true) = Panic PAssert /\
  srun raw_new [SWithLen 1 false; SSetBit 0 true; SSetBit 1 true] = mkraw 1 [1].
Proof. exact set_bit_old_refuted. Qed.
Print Assumptions C08_set_bit_old_refuted.

(* non-vacuity: a history with refused calls in it; the state they leave, and an iterator over its unset bits *)
Example C08_reach_example :
  let r := srun raw_new [SWithLen 70 true; SSetBit 70 false; SSetBit 127 false; SSetBit (2 ^ 64 - 1) true;
                         SSetBit 3 false; SBit 200; SPushBit false; SPopBit; SPopBit; SResize 66 false; SComplement] in
  r = mkraw 66 [8; 0] /\
  sstep (mkraw 70 [2 ^ 64 - 1; 63]) (SSetBit 70 false) = Panic PAssert /\
  (let* it := zero_iter_w Release (bv_from_raw r) in
   let* (it1, a) := oi_next_f Complement (bv_from_raw r) it in
   let* (_, b) := oi_next_f Complement (bv_from_raw r) it1 in Ok (a, b)) = Ok (Some (0, 0), Some (1, 1)).
Proof. vm_compute. repeat split. Qed.
