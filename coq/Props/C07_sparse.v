(* C07, write direction for SparseVector: what the MODEL of the crate writes for a built sparse vector is accepted by
   the reader written from SERIALIZATION.md (Spec/Format.v: p_sparse, every MUST of the section "Sparse bitvector")
   and decodes to (universe, the values). Only property theorems here. Reading guide: Props/C07.v (F = Spec/Format.v,
   the document alone), Props/C02.v (builders, eff_width), Props/C06_sparse.v (sparse_codec). *)
From Coq Require Import NArith List Bool.
Require Import SDS.Model.Mach SDS.Model.Raw SDS.Model.IntVec SDS.Model.BitVec SDS.Model.Ser SDS.Model.SerBV.
Require Import SDS.Model.Sparse SDS.Model.SerSparse SDS.gen.Consts.
Require Import SDS.Spec.BitSeq SDS.Spec.ValSeq.
Require Import SDS.Proofs.SparseProof SDS.Proofs.SparseBuild.
Require SDS.Spec.Format SDS.Proofs.FormatSparseModel.
Import ListNotations.
Open Scope N_scope.
Module F := SDS.Spec.Format.

(* For every universe n < 2^64, every strictly increasing position list P below it, every low width the f64 rule can
   give (w' in 1..63; [eff_width] is the width get_params then uses), either select path and either mode: the vector
   that SparseBuilder::new + try_set + try_from build serializes - by the codec of ANY select path / mode - to bytes that
   are the little-endian elements of [sv_serialize sv], and that element list is a valid sparse-bitvector document:
   length, then a bitvector (its support structures pass through as opaque optionals) that is the unary bucket code
   with exactly |P| set bits, exactly ceil(n / 2^w) unset bits ("a bucket for each position in 0..n but no additional
   buckets") and a final unset bit, then an integer vector of |P| items of width w; the items
   low[i] + ((high.select(i) - i) << w) are sorted and below n; its content is (n, P).
   [|P| + buckets + 4096 < 2^64], [|P| * w + 63 < 2^64]: the bit counts of high and low are addressable. *)
Theorem C07_writes_conform_sparse : forall sp md w' n P,
  n < 2 ^ 64 -> 1 <= w' <= 63 -> increasing P = true -> all_below n P = true ->
  let w := eff_width w' n (lenN P) in
  lenN P + buckets_of n w + select_SUPERBLOCK_SIZE < 2 ^ 64 -> lenN P * w + 63 < 2 ^ 64 ->
  exists sv, sv_build_set sp md w' n P = Ok (inl sv) /\
    (forall sp' m', F.elems_of_bytes (c_enc (sparse_codec sp' m') sv) = Some (sv_serialize sv)) /\
    F.doc_valid_sparse (sv_serialize sv) = true /\ F.doc_content_sparse (sv_serialize sv) = Some (n, P).
Proof. exact FormatSparseModel.sparse_conform_bytes. Qed.
Print Assumptions C07_writes_conform_sparse.

(* the same for multisets ("Note: the encoding also supports multisets / duplicate items"): non-decreasing values,
   SparseBuilder::multiset; the content is the value list with its duplicates *)
Theorem C07_writes_conform_sparse_multiset : forall sp md w' n Vs,
  n < 2 ^ 64 -> 1 <= w' <= 63 -> nondecreasing Vs = true -> all_below n Vs = true ->
  let w := eff_width w' n (lenN Vs) in
  lenN Vs + buckets_of n w + select_SUPERBLOCK_SIZE < 2 ^ 64 -> lenN Vs * w + 63 < 2 ^ 64 ->
  exists sv, sv_build_multiset sp md w' n Vs = Ok (inl sv) /\
    (forall sp' m', F.elems_of_bytes (c_enc (sparse_codec sp' m') sv) = Some (sv_serialize sv)) /\
    F.doc_valid_sparse (sv_serialize sv) = true /\ F.doc_content_sparse (sv_serialize sv) = Some (n, Vs).
Proof. exact FormatSparseModel.sparse_multiset_conform_bytes. Qed.
Print Assumptions C07_writes_conform_sparse_multiset.

(* non-vacuity: the documentation example of SparseVector, and a multiset with more values than positions *)
Example C07_sparse_model_instances :
  (match sv_build_set Pdep Debug 5 137 [1; 33; 95; 123] with
   | Ok (inl sv) => F.doc_content_sparse (sv_serialize sv) | _ => None end) = Some (137, [1; 33; 95; 123]) /\
  (match sv_build_multiset Portable Release 1 3 [0; 0; 2; 2; 2] with
   | Ok (inl sv) => F.doc_content_sparse (sv_serialize sv) | _ => None end) = Some (3, [0; 0; 2; 2; 2]).
Proof. vm_compute. split; reflexivity. Qed.
