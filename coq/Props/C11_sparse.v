(* C11, the SparseVector source side and with it the chains over the concrete models at full strength.
   Only property theorems here. Reading guide: Props/C11.v (whose [C11_sparse_side_statement] and
   [C11_chain_concrete_statement] are the two statements proved below, written out in full). *)
From Coq Require Import NArith List Bool Lia.
Require Import SDS.Model.Mach SDS.Model.Raw SDS.Model.IntVec SDS.Model.BitVec SDS.Model.SerBV.
Require Import SDS.Model.Builders SDS.Model.Convert SDS.Model.ConvertC.
Require SDS.Model.Sparse SDS.Model.RL.
Require Import SDS.Spec.BitSeq SDS.Spec.BuilderSpec.
Require Import SDS.Proofs.BVCommon SDS.Proofs.ConvertProof.
Require SDS.Proofs.ConvertSparseSide.
Require Import SDS.Props.C11.
Import ListNotations.
Open Scope N_scope.

(* Source side of the concrete SparseVector (from C02: construction, representation, one_iter; the contract of
   the embedded high bitvector is proved in Proofs/SparseHigh.v): the vector that copy_bit_vec builds from
   (|B|, ones B) exists - no failure of any kind on either select path, in either build mode, for every low
   width w the f64 rule can produce -, has len = |B|, count_ones = count B, and its one_iter(), asked for one
   item more than there are, yields exactly the ranked positions of ones B.
   [count B + ceil(|B| / 2^w) < 2^64]: the high part is addressable (SparseBuilder computes ones + buckets in
   usize); for an all-zero B the builder takes width 1 instead of w and the bound holds by itself. *)
Theorem C11_source_sparse : forall (sp : selpath) (m : mode) (w : N) (B : list bool),
  lenB B < 2 ^ 64 -> 1 <= w <= 63 -> count B + (lenB B + 2 ^ w - 1) / 2 ^ w < 2 ^ 64 ->
  exists sv, Sparse.sv_copy sp m w (lenB B) (ones B) = Ok sv /\
    Sparse.sv_len sv = lenB B /\ Sparse.sv_count_ones sv = count B /\
    sv_collect m sv (S (length (ones B))) (Sparse.sv_one_iter sv) = Ok (index_from (ones B) 0).
Proof. exact ConvertSparseSide.sparse_source_content. Qed.
Print Assumptions C11_source_sparse.

(* ... which is the premise Props/C11.v left open *)
Theorem C11_sparse_side_holds : forall (sp : selpath) (m : mode) (w : N) (B : list bool),
  lenB B < 2 ^ 64 -> 1 <= w <= 63 -> count B + (lenB B + 2 ^ w - 1) / 2 ^ w < 2 ^ 64 ->
  exists sv, Sparse.sv_copy sp m w (lenB B) (ones B) = Ok sv /\ creads m (CS sv) (lenB B) (count B) (ones B).
Proof. exact ConvertSparseSide.sparse_side_holds. Qed.
Print Assumptions C11_sparse_side_holds.

(* UNCONDITIONAL: every chain of conversions over the concrete models of the three types, of any length, from a
   concrete source of any type (SparseVector sources and targets included), on either select path, in either
   build mode, for every admissible low width whose high part fits a usize: it can be carried out, every
   result is the concrete structure of its type for B and hands (|B|, count B, ones B) to the next step, and the
   final result is what the last target's copy_bit_vec builds from (|B|, count B, ones B). *)
Theorem C11_chain_concrete_full :
  forall (sp : selpath) (m : mode) (w : N) (B : list bool) (ts : list vtype) (x : cvec),
  lenB B < 2 ^ 64 -> lenN (runs_of_bits B) < 2 ^ 56 ->
  1 <= w <= 63 -> count B + (lenB B + 2 ^ w - 1) / 2 ^ w < 2 ^ 64 ->
  C11_crepr sp m w x B ->
  (exists y, cchain sp m w ts x y) /\
  (forall y, cchain sp m w ts x y ->
     C11_crepr sp m w y B /\ creads m y (lenB B) (count B) (ones B) /\
     match rev ts with
     | [] => y = x
     | t :: _ => ccopy_to sp m w t (lenB B) (count B) (ones B) = Ok y /\ ctype_of y = t
     end).
Proof. exact (C11_chain_concrete_partial C11_sparse_side_holds). Qed.
Print Assumptions C11_chain_concrete_full.

(* non-vacuity: an 11-bit sequence through BitVector -> SparseVector -> RLVector -> SparseVector; the chain
   exists and ends in the sparse vector the builder builds, whose one_iter the model computes *)
Example C11_chain_sparse_example :
  (exists y, cchain Pdep Debug 1 [TSparse; TRL; TSparse] (CB (bv_from_raw (mkraw 11 [918]))) y) /\
  (let* sv := Sparse.sv_copy Pdep Debug 1 11 (ones c11_B) in sv_collect Debug sv 7 (Sparse.sv_one_iter sv))
    = Ok [(0, 1); (1, 2); (2, 4); (3, 7); (4, 8); (5, 9)].
Proof.
  split; [|vm_compute; reflexivity].
  assert (Hrep : C11_crepr Pdep Debug 1 (CB (bv_from_raw (mkraw 11 [918]))) c11_B).
  { cbn [C11_crepr]. apply (SDS.Proofs.RankProof.bv_from_raw_repr (mkraw 11 [918])).
    apply SDS.Proofs.RankProof.raw_wfb_ok. vm_compute. reflexivity. }
  assert (H1 : lenB c11_B < 2 ^ 64) by reflexivity.
  assert (H2 : lenN (runs_of_bits c11_B) < 2 ^ 56) by reflexivity.
  assert (H3 : 1 <= 1 <= 63) by (split; discriminate).
  assert (H4 : count c11_B + (lenB c11_B + 2 ^ 1 - 1) / 2 ^ 1 < 2 ^ 64) by reflexivity.
  exact (proj1 (C11_chain_concrete_full Pdep Debug 1 c11_B [TSparse; TRL; TSparse] _ H1 H2 H3 H4 Hrep)).
Qed.
