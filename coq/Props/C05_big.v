(* C05, part "big": the count of set bits of filled raw vectors of every length, including lengths of 2^32 bits
   and more (512 MiB of words), where the correspondence run cannot replay the vector on the list-based model.
   The model uses exact arithmetic on lengths, so no bound on the length is needed (the crate itself needs
   len + 63 < 2^64, which real memory enforces). *)
From Coq Require Import NArith List Bool.
Require Import SDS.Model.Mach SDS.Model.Raw.
Require Import SDS.Proofs.RawProof SDS.Proofs.RawBig.
Import ListNotations.
Open Scope N_scope.

(* RawVector::with_len(n, value).count_ones() is n for value = true and 0 for value = false, for EVERY n *)
Theorem C05_big_with_len_count : forall n value,
  exists r, raw_with_len n value = Ok r /\ raw_inv r /\ rlen r = n /\
            raw_count_ones r = if value then n else 0.
Proof. exact raw_with_len_count. Qed.
Print Assumptions C05_big_with_len_count.

(* growing any vector to n' bits adds exactly the new positions to the count when the fill value is true,
   and nothing when it is false *)
Theorem C05_big_resize_grow_count : forall r n' value,
  raw_inv r -> rlen r <= n' ->
  exists r', raw_resize r n' value = Ok r' /\ raw_inv r' /\ rlen r' = n' /\
             raw_count_ones r' = raw_count_ones r + (if value then n' - rlen r else 0).
Proof. exact raw_resize_grow_count. Qed.
Print Assumptions C05_big_resize_grow_count.

(* an all-ones vector of n bits grown to n' >= n bits with fill value true counts n' *)
Theorem C05_big_with_len_resize_count : forall n n',
  n <= n' ->
  exists r r', raw_with_len n true = Ok r /\ raw_resize r n' true = Ok r' /\ raw_count_ones r' = n'.
Proof. exact raw_with_len_resize_count. Qed.
Print Assumptions C05_big_with_len_resize_count.

(* non-vacuity: the model really computes these counts (130 bits: two full words and two bits of a third) *)
Example C05_big_nonvacuous :
  (match raw_with_len 130 true with Ok r => raw_count_ones r | _ => 0 end) = 130 /\
  (match raw_with_len 130 false with Ok r => raw_count_ones r | _ => 1 end) = 0 /\
  (match raw_with_len 70 true with
   | Ok r => match raw_resize r 130 true with Ok r' => raw_count_ones r' | _ => 0 end
   | _ => 0 end) = 130.
Proof. vm_compute. repeat split. Qed.
