(* C09 -- queries are total on out-of-range and extreme arguments.
   Only property theorems here: statement, [exact lemma], Print Assumptions, non-vacuity Examples.
   Subject: the plain bitvector of Model/BitVec.v (wrappers rank, rank_zero, select, select_zero, select_iter,
   select_zero_iter, predecessor, successor, OneIter::nth, Iter::nth / nth_back) and the constructors of
   Model/IntVec.v and Model/Builders.v. Arguments are arbitrary N (so in particular len, len+1, 2len, 2^63,
   2^64-2, 2^64-1); [m : mode] ranges over the builds with overflow checks on (Debug) and off (Release),
   [sp : selpath] over the PDEP and the portable in-word select.
   [bv_repr b B]: the model vector b stores the bit sequence B; [rank_ok b B]: its rank support is the one
   RankSupport::new builds (Proofs/RankProof.v). No theorem below needs a select support: beyond the count the
   wrappers return before touching it.
   The run-length vector (Model/RL.v) is covered by [C09_rl_total] at the end of this file, over run lists
   (universes up to 2^64-1 cannot be written as bit lists).
   The sparse vector (Model/Sparse.v) is covered by Props/C09_sparse.v (C09_sparse_total, ..., C09_types_agree).
   PARTIAL: the model of WaveletMatrix/WMCore is written in another package; for it the full statement is given
   as [C09_wm_total_statement] against abstract query functions (to be instantiated with that model), and the
   tie to the code is the correspondence run of Check/C09.v, whose naive-spec side decides. *)
From Coq Require Import NArith List Bool.
Require Import SDS.Model.Mach SDS.Model.Bits SDS.Model.Raw SDS.Model.IntVec SDS.Model.BitVec SDS.Model.Builders.
Require Import SDS.Spec.BitSeq SDS.Spec.BuilderSpec SDS.Proofs.BitsProof SDS.Proofs.BVCommon SDS.Proofs.RankProof.
Require Import SDS.Proofs.TotalProof.
Import ListNotations.
Open Scope N_scope.

(* ---- rank ---- *)

(* rank(i) is the number of ones among the first i bits for EVERY i (no bound at all on i), hence never a panic or
   an out-of-bounds read; for i >= len that number is count_ones *)
Theorem C09_rank_total : forall b B,
  bv_repr b B -> (exists rs, bv_rank b = Some rs /\ rank_new b = Ok rs) ->
  forall i, bv_rank_q b i = Ok (rank1 B i) /\ (bv_len b <= i -> rank1 B i = count B).
Proof. exact rank_total. Qed.
Print Assumptions C09_rank_total.

(* ... and beyond the end the answer does not even need the rank support to be enabled *)
Theorem C09_rank_beyond : forall b B i, bv_repr b B -> bv_len b <= i -> bv_rank_q b i = Ok (count B).
Proof. exact rank_beyond. Qed.
Print Assumptions C09_rank_beyond.

(* rank_zero(i) = i - rank(i) in both build modes for every i: the subtraction cannot underflow because
   rank(i) <= i; beyond the end it is i - count_ones (unspecified by the API, but never a panic) *)
Theorem C09_rank_zero_total : forall m b B,
  bv_repr b B -> (exists rs, bv_rank b = Some rs /\ rank_new b = Ok rs) ->
  forall i, bv_rank_zero m b i = Ok (i - rank1 B i) /\ (bv_len b <= i -> bv_rank_zero m b i = Ok (i - count B)).
Proof. exact rank_zero_total. Qed.
Print Assumptions C09_rank_zero_total.

(* ---- select / select_zero and their iterators ---- *)

(* for r >= count (of ones for Identity, of zeros for Complement): select is None, as the specification says, the
   iterator is the empty one, it yields nothing and its length is 0; both modes, both select paths, and
   whatever the select support is (absent, stale, foreign): it is not consulted *)
Theorem C09_select_beyond : forall sp m t b B r,
  bv_repr b B -> count (t_bits t B) <= r ->
  bv_select_t sp m t b r = Ok None /\ select1 (t_bits t B) r = None /\
  bv_select_iter_t sp m t b r = Ok (oi_empty t b) /\
  oi_next_f t b (oi_empty t b) = Ok (oi_empty t b, None) /\ oi_len (oi_empty t b) = 0.
Proof. exact select_beyond. Qed.
Print Assumptions C09_select_beyond.

(* ---- predecessor / successor ---- *)

(* successor(v) for v >= len is the empty iterator (rank support not needed);
   predecessor(v) for ANY v asks rank(min(v + 1, 2^64 - 1)) -- the addition saturates, so v = 2^64 - 1 asks
   rank(2^64 - 1) = count_ones -- and then is the empty iterator (rank 0) or select_iter(rank - 1): it adds no
   panic of its own in either mode (the select side is C01's subject);
   for len <= v < 2^64 that is select_iter(count_ones - 1), the same as predecessor(len - 1) *)
Theorem C09_pred_succ_extreme : forall sp m b B,
  bv_repr b B -> (exists rs, bv_rank b = Some rs /\ rank_new b = Ok rs) ->
  (forall v, bv_len b <= v -> bv_successor sp m b v = Ok (oi_empty Identity b)) /\
  (forall v, bv_predecessor sp m b v =
     (if rank1 B (sat_add1 v) =? 0 then Ok (oi_empty Identity b)
      else bv_select_iter_t sp m Identity b (rank1 B (sat_add1 v) - 1))) /\
  (forall v, v < 2 ^ 64 -> bv_len b <= v ->
     bv_predecessor sp m b v =
       (if count B =? 0 then Ok (oi_empty Identity b) else bv_select_iter_t sp m Identity b (count B - 1)) /\
     (0 < bv_len b -> bv_predecessor sp m b v = bv_predecessor sp m b (bv_len b - 1))).
Proof.
  intros sp m b B Hr Hok. split; [|split].
  - intros v Hv. exact (successor_beyond sp m b B v Hr Hv).
  - intros v. exact (predecessor_shape sp m b B v Hr Hok).
  - intros v Hv Hge. exact (predecessor_beyond sp m b B v Hr Hok Hv Hge).
Qed.
Print Assumptions C09_pred_succ_extreme.

(* ---- Iterator::nth of OneIter<T> (one_iter, zero_iter, select_iter, predecessor, successor all return it) ---- *)

(* with the rank components in order (next <= limit: true initially and kept by every successful step, below),
   nth(n) for ANY n >= remaining returns None, leaves the iterator exhausted (next = limit), a further next() is
   None and the length is 0 -- in both modes and both select paths, without reading the data *)
Theorem C09_nth_beyond : forall sp m t b it n,
  fst (oi_next it) <= fst (oi_limit it) -> fst (oi_limit it) - fst (oi_next it) <= n ->
  oi_nth sp m t b it n = Ok (mkoi (oi_limit it) (oi_limit it), None) /\
  oi_next_f t b (mkoi (oi_limit it) (oi_limit it)) = Ok (mkoi (oi_limit it) (oi_limit it), None) /\
  oi_len (mkoi (oi_limit it) (oi_limit it)) = 0.
Proof. exact nth_beyond. Qed.
Print Assumptions C09_nth_beyond.

Theorem C09_nth_invariant : forall sp m t b it,
  fst (oi_next (oi_start t b)) <= fst (oi_limit (oi_start t b)) /\
  fst (oi_next (oi_empty t b)) <= fst (oi_limit (oi_empty t b)) /\
  (forall it' x, fst (oi_next it) <= fst (oi_limit it) -> oi_next_f t b it = Ok (it', x) ->
     fst (oi_next it') <= fst (oi_limit it')) /\
  (forall n it' x, fst (oi_next it) <= fst (oi_limit it) -> oi_nth sp m t b it n = Ok (it', x) ->
     fst (oi_next it') <= fst (oi_limit it')).
Proof.
  intros sp m t b it. split; [|split; [|split]].
  - cbn. apply N.le_0_l.
  - cbn. apply N.le_refl.
  - intros it' x. exact (oi_next_f_inv t b it it' x).
  - intros n it' x. exact (oi_nth_inv sp m t b it n it' x).
Qed.
Print Assumptions C09_nth_invariant.

(* the guard as it was before the repair of finding F1 (`self.next.0 + n >= self.limit.0`, evaluated with the
   build's addition): on the 200-bit vector with ones at 3, 70, 71, 150, 199, after one next(), nth(2^64 - 1)
   panics with overflow checks on and reads outside the buffer (the hook's OOB, SIGSEGV without hooks) with
   overflow checks off; the repaired guard returns None in all four builds *)
Theorem C09_nth_old_refuted :
  oi_next_f Identity f1_bv (oi_start Identity f1_bv) = Ok (f1_it, Some (0, 3)) /\
  oi_nth_old Pdep Debug Identity f1_bv f1_it (2 ^ 64 - 1) = Panic POverflow /\
  oi_nth_old Portable Debug Identity f1_bv f1_it (2 ^ 64 - 1) = Panic POverflow /\
  oi_nth_old Pdep Release Identity f1_bv f1_it (2 ^ 64 - 1) = OOB SITE_RAW_WORD /\
  oi_nth_old Portable Release Identity f1_bv f1_it (2 ^ 64 - 1) = OOB SITE_RAW_WORD /\
  (forall sp m, oi_nth sp m Identity f1_bv f1_it (2 ^ 64 - 1) = Ok (mkoi (5, 200) (5, 200), None)).
Proof. split; [exact f1_it_is_after_next|exact nth_old_refuted]. Qed.
Print Assumptions C09_nth_old_refuted.

(* ---- Iterator::nth / DoubleEndedIterator::nth_back of the bit iterator, every n ---- *)

(* n >= remaining: None, exhausted, without reading a bit; otherwise exactly next() / next_back() at distance n *)
Theorem C09_bit_iter_nth_total : forall b it n, bi_next it <= bi_limit it ->
  bi_nth b it n =
    (if bi_limit it - bi_next it <=? n then Ok (mkbi (bi_limit it) (bi_limit it), None)
     else bi_next_f b (mkbi (bi_next it + n) (bi_limit it))) /\
  bi_nth_back b it n =
    (if bi_limit it - bi_next it <=? n then Ok (mkbi (bi_next it) (bi_next it), None)
     else bi_next_back b (mkbi (bi_next it) (bi_limit it - n))).
Proof. exact bi_nth_total. Qed.
Print Assumptions C09_bit_iter_nth_total.

Theorem C09_bit_iter_exhausted : forall b p,
  bi_next_f b (mkbi p p) = Ok (mkbi p p, None) /\ bi_next_back b (mkbi p p) = Ok (mkbi p p, None) /\
  bi_len (mkbi p p) = 0.
Proof. exact bi_exhausted. Qed.
Print Assumptions C09_bit_iter_exhausted.

(* ---- constructors ---- *)

(* IntVector::new / with_len / with_capacity return Err exactly for width 0 or width > 64 (any length, value,
   capacity: the width is checked first) *)
Theorem C09_constructors : forall w,
  (iv_new w = None <-> (w = 0 \/ 64 < w)) /\
  (forall len value, iv_with_len len w value = None <-> (w = 0 \/ 64 < w)) /\
  (forall capacity, iv_with_capacity capacity w = None <-> (w = 0 \/ 64 < w)).
Proof. exact constructors_reject. Qed.
Print Assumptions C09_constructors.

(* SparseBuilder::new(universe, ones) is Err exactly for ones > universe; RLBuilder::new().try_set(start, len)
   never panics in either mode and is Err exactly when start + len > usize::MAX *)
Theorem C09_builders_reject :
  (forall universe ones, sb_make (NewS universe ones) = None <-> universe < ones) /\
  (forall m start len, start < 2 ^ 64 -> len < 2 ^ 64 ->
     exists b', rl_try_set m rl_init start len =
                Ok (b', if 2 ^ 64 - 1 <? start + len then Rejected else Accepted)).
Proof. exact builders_reject. Qed.
Print Assumptions C09_builders_reject.

(* ---- the full statements for the types whose models live in other packages (PARTIAL: stated, not proved here) ---- *)

(* a bitvector type T with queries q_* (in a build mode) that stores bit sequences through [repr] *)
Definition C09_bitvector_type_total_statement
  (T : Type) (repr : T -> list bool -> Prop)
  (q_len q_count_ones : T -> N)
  (q_rank : mode -> T -> N -> res N)
  (q_select q_select_zero : mode -> T -> N -> res (option N))
  (* first item and length of select_iter / select_zero_iter / predecessor / successor *)
  (q_select_iter q_select_zero_iter q_pred q_succ : mode -> T -> N -> res (option (N * N) * N))
  (* one_iter after k next(): nth(n), the following next(), the remaining length *)
  (q_one_nth q_zero_nth : mode -> T -> N -> N -> res (option (N * N) * option (N * N) * N)) : Prop :=
  forall m v B, repr v B ->
    q_len v = lenB B /\ q_count_ones v = count B /\
    (forall i, i < 2 ^ 64 -> q_rank m v i = Ok (rank1 B i)) /\
    (forall i, i < 2 ^ 64 -> lenB B <= i -> q_rank m v i = Ok (count B)) /\
    (forall r, r < 2 ^ 64 -> q_select m v r = Ok (select1 B r) /\ q_select_zero m v r = Ok (select0 B r)) /\
    (forall r, r < 2 ^ 64 -> count B <= r -> q_select m v r = Ok None /\ q_select_iter m v r = Ok (None, 0)) /\
    (forall r, r < 2 ^ 64 -> lenB B - count B <= r -> q_select_zero m v r = Ok None /\ q_select_zero_iter m v r = Ok (None, 0)) /\
    (forall x, x < 2 ^ 64 -> exists l, q_succ m v x = Ok (succ1 B x, l)) /\
    (forall x, x < 2 ^ 64 -> lenB B <= x -> q_succ m v x = Ok (None, 0)) /\
    (forall x, x < 2 ^ 64 -> exists l, q_pred m v x = Ok (pred1 B x, l)) /\
    (forall x, x < 2 ^ 64 -> lenB B <= x -> 0 < lenB B -> q_pred m v x = q_pred m v (lenB B - 1)) /\
    (forall k n, n < 2 ^ 64 -> count B - k <= n -> q_one_nth m v k n = Ok (None, None, 0)) /\
    (forall k n, n < 2 ^ 64 -> lenB B - count B - k <= n -> q_zero_nth m v k n = Ok (None, None, 0)).

(* the run-length vector's reading of this statement is proved: C09_rl_total below; the sparse vector's reading:
   C09_sparse_total / C09_sparse_multiset_total / C09_sparse_nth_beyond in Props/C09_sparse.v; that the three types
   agree (equal answers on the same sequence, all three instances at once): C09_types_agree in Props/C09_sparse.v *)

(* occurrences of a value in a list: the naive reading of the wavelet-matrix queries *)
Fixpoint occ_before (l : list N) (i v : N) : N :=
  match l with
  | [] => 0
  | x :: t => if i =? 0 then 0 else (if x =? v then 1 else 0) + occ_before t (i - 1) v
  end.
Fixpoint occ_positions (l : list N) (v pos : N) : list N :=
  match l with
  | [] => []
  | x :: t => if x =? v then pos :: occ_positions t v (pos + 1) else occ_positions t v (pos + 1)
  end.

(* the wavelet matrix / WMCore reading is proved: C09_wm_total in Props/C09_wm.v *)

(* ---- non-vacuity ---- *)

(* the 700-bit vector of C01 (a full 512-bit rank block, a partial last word) with its rank support enabled
   meets the hypotheses; its answers at the extremes, computed by the model *)
Definition c09_ex_raw : raw := mkraw 700
  [0xFFFFFFFFFFFFFFFF; 0; 0xAAAAAAAAAAAAAAAA; 0x8000000000000001;
   0x0123456789ABCDEF; 0xF0F0F0F0F0F0F0F0; 0x00000000FFFFFFFF; 0x8000000000000000;
   0xDEADBEEFCAFEF00D; 0x5555555555555555; 0x0FFFFFFFFFFFFFFF].

Example C09_example_hypotheses :
  exists b, bv_enable_rank (bv_from_raw c09_ex_raw) = Ok b /\
    bv_repr b (bits_of 700 (rdata c09_ex_raw)) /\ (exists rs, bv_rank b = Some rs /\ rank_new b = Ok rs).
Proof.
  assert (Hr : bv_repr (bv_from_raw c09_ex_raw) (bits_of 700 (rdata c09_ex_raw))).
  { apply (bv_from_raw_repr c09_ex_raw), raw_wfb_ok. vm_compute. reflexivity. }
  destruct (bv_enable_rank_ok _ _ Hr) as (b' & He & Hr' & Hok & _); [intros H; exfalso; apply H; reflexivity|].
  exists b'. split; [exact He|]. split; [exact Hr'|exact Hok].
Qed.

Example C09_example_answers :
  match bv_enable_all Pdep Debug (bv_from_raw c09_ex_raw), bv_enable_all Portable Release (bv_from_raw c09_ex_raw) with
  | Ok b, Ok b' =>
      bv_count_ones b = 329 /\
      bv_rank_q b 699 = Ok 328 /\ bv_rank_q b 700 = Ok 329 /\ bv_rank_q b 701 = Ok 329 /\
      bv_rank_q b (2 ^ 63) = Ok 329 /\ bv_rank_q b (2 ^ 64 - 1) = Ok 329 /\
      bv_select_t Pdep Debug Identity b 328 = Ok (Some 699) /\ bv_select_t Pdep Debug Identity b 329 = Ok None /\
      bv_select_t Pdep Debug Identity b (2 ^ 64 - 1) = Ok None /\
      bv_select_t Portable Release Complement b' 371 = Ok None /\
      (let* it := bv_predecessor Pdep Debug b (2 ^ 64 - 1) in oi_next_f Identity b it) =
        (let* it := bv_predecessor Pdep Debug b 699 in oi_next_f Identity b it) /\
      rmap snd (let* it := bv_predecessor Portable Release b' (2 ^ 64 - 1) in oi_next_f Identity b' it) = Ok (Some (328, 699)) /\
      rmap snd (let* it := bv_successor Pdep Debug b 700 in oi_next_f Identity b it) = Ok None /\
      rmap snd (oi_nth Pdep Debug Identity b (mkoi (1, 1) (329, 700)) (2 ^ 64 - 1)) = Ok None /\
      rmap snd (oi_nth Pdep Debug Identity b (mkoi (1, 1) (329, 700)) 328) = Ok None /\
      rmap snd (oi_nth Pdep Debug Identity b (mkoi (1, 1) (329, 700)) 327) = Ok (Some (328, 699))
  | _, _ => False
  end.
Proof. vm_compute. repeat split. Qed.

(* ================================================================ the run-length vector *)

(* Names of Model/RL.v (oi_empty, oi_next, ... of rl_vector.rs) shadow those of Model/BitVec.v from here on. *)
Require Import SDS.Model.RL SDS.Spec.Runs SDS.Proofs.RLTotal.

(* The RL reading of C09_bitvector_type_total_statement, over run lists instead of bit lists (a universe of
   2^64-1 positions cannot be a bit list): for every list R of runs of set bits (sorted, non-overlapping,
   lengths >= 1), every length L with end(R) <= L <= 2^64-1, overflow checks on or off, the vector that
   RLBuilder + RLVector::from construct answers
     - rank / rank_zero / select / select_zero / predecessor().next() / successor().next() with the value of the
       run-list specification for EVERY argument below 2^64 (so never a panic and never exhausted fuel);
     - rank(i) = count_ones for i >= len (rank_zero(i) = i - count_ones: unspecified by the API, never a panic);
     - select(r) = None for r >= count_ones, and select_iter(r) is the empty iterator;
     - select_zero(r) = None for r >= count_zeros, and select_zero_iter(r) is the empty iterator;
     - successor(v) is the empty iterator for v >= len;
     - predecessor(v) = predecessor(len - 1) for v >= len > 0 (the same iterator state, not only the same first item);
     - the empty iterators return None, stay unchanged, and report length 0;
   and the specification agrees in each of these cases ([runs_select .. = None] etc.), so the answers are the
   documented ones. [lenN R < 2^56] is the address-space bound of C03. *)
Theorem C09_rl_total : forall (m : mode) (R : list (N * N)) (L : N),
  runs_sorted 0 R -> runs_end R <= L -> L <= 2 ^ 64 - 1 -> lenN R < 2 ^ 56 ->
  exists v,
    rl_build m (map (fun r => BTrySet (fst r) (snd r)) R ++ [BSetLen L]) = Ok (v, map (fun _ => true) R ++ [true]) /\
    rl_len v = L /\ rl_ones v = runs_ones (maximal R) /\ rl_count_zeros v = L - runs_ones (maximal R) /\
    (forall i, i < 2 ^ 64 ->
       rl_rank m v i = Ok (runs_rank (maximal R) i) /\ rl_rank_zero m v i = Ok (i - runs_rank (maximal R) i)) /\
    (forall r, r < 2 ^ 64 ->
       rl_select m v r = Ok (runs_select (maximal R) r) /\
       rl_select_zero m v r = Ok (runs_select_zero (maximal R) L r)) /\
    (forall x, x < 2 ^ 64 ->
       oi_first m v (rl_predecessor m v x) = Ok (runs_pred (maximal R) x) /\
       oi_first m v (rl_successor m v x) = Ok (runs_succ (maximal R) x)) /\
    (forall i, i < 2 ^ 64 -> L <= i ->
       rl_rank m v i = Ok (rl_ones v) /\ rl_rank_zero m v i = Ok (i - rl_ones v) /\
       runs_rank (maximal R) i = runs_ones (maximal R)) /\
    (forall r, r < 2 ^ 64 -> rl_ones v <= r ->
       rl_select m v r = Ok None /\ runs_select (maximal R) r = None /\ rl_select_iter m v r = Ok (oi_empty v)) /\
    (forall r, r < 2 ^ 64 -> rl_count_zeros v <= r ->
       rl_select_zero m v r = Ok None /\ runs_select_zero (maximal R) L r = None /\
       rl_select_zero_iter m v r = Ok (zi_empty v)) /\
    (forall x, x < 2 ^ 64 -> L <= x ->
       rl_successor m v x = Ok (oi_empty v) /\ runs_succ (maximal R) x = None) /\
    (forall x, x < 2 ^ 64 -> L <= x -> 0 < L ->
       rl_predecessor m v x = rl_predecessor m v (L - 1) /\ runs_pred (maximal R) x = runs_pred (maximal R) (L - 1)) /\
    oi_next m v (oi_empty v) = Ok (oi_empty v, None) /\ oi_size_hint v (oi_empty v) = 0 /\
    zi_next m v (zi_empty v) = Ok (zi_empty v, None) /\ zi_size_hint v (zi_empty v) = 0.
Proof. exact rl_total. Qed.
Print Assumptions C09_rl_total.

(* the wrappers decide on len / count_ones / count_zeros alone: the same answers for ANY vector value, whatever
   its sample indexes and encoding hold (they are not consulted) *)
Theorem C09_rl_wrappers_beyond : forall (m : mode) (v : rlvec),
  (forall r, rl_ones v <= r -> rl_select m v r = Ok None /\ rl_select_iter m v r = Ok (oi_empty v)) /\
  (forall r, rl_count_zeros v <= r -> rl_select_zero m v r = Ok None /\ rl_select_zero_iter m v r = Ok (zi_empty v)) /\
  (forall x, rl_len v <= x -> rl_successor m v x = Ok (oi_empty v)) /\
  (forall x, rl_len v <= x -> rl_predecessor m v x = rl_predecessor m v (rl_len v - 1)).
Proof.
  intros m v. split; [exact (select_beyond m v)|]. split; [exact (select_zero_beyond m v)|].
  split; [exact (successor_beyond m v)|exact (predecessor_beyond m v)].
Qed.
Print Assumptions C09_rl_wrappers_beyond.

(* Iterator::nth (the std default: advance_by(n) + next over the crate's next) on one_iter() / zero_iter() / iter()
   after ANY history cs of next / nth / len calls: with n at least the number of items left (in particular every
   n >= count, up to 2^64-1), nth(n) = None, the following next() = None and len() = 0 - the
   q_one_nth / q_zero_nth clauses of C09_bitvector_type_total_statement, for every history instead of "k x next".
   [ones_all F 0] / [zeros_all F L 0] / [bits_all F L 0] (Spec/RunsIter.v) are the complete reference sequences,
   [dq_run] the deque specification of C10; [lenA (fst (dq_run l cs))] is the number of items left after cs. *)
Require Import SDS.Spec.Deque SDS.Spec.RunsIter SDS.Model.RLIters SDS.Proofs.RLDeque.
Theorem C09_rl_nth_beyond : forall (m : mode) (R : list (N * N)) (L : N),
  runs_sorted 0 R -> runs_end R <= L -> L <= 2 ^ 64 - 1 -> lenN R < 2 ^ 56 ->
  exists v,
    rl_build m (map (fun r => BTrySet (fst r) (snd r)) R ++ [BSetLen L]) = Ok (v, map (fun _ => true) R ++ [true]) /\
    (forall cs n, Forall call_fwd cs -> lenA (fst (dq_run (ones_all (maximal R) 0) cs)) <= n ->
       exists s s', rl_one_iter v = Ok s /\
         it_run (rl_oi_step m v) s (cs ++ [Nth n; Next; Len]) =
           Ok (s', snd (dq_run (ones_all (maximal R) 0) cs) ++ [Item None; Item None; Count 0])) /\
    (forall cs n, Forall call_fwd cs -> lenA (fst (dq_run (zeros_all (maximal R) L 0) cs)) <= n ->
       exists s s', rl_zero_iter m v = Ok s /\
         it_run (rl_zi_step m v) s (cs ++ [Nth n; Next; Len]) =
           Ok (s', snd (dq_run (zeros_all (maximal R) L 0) cs) ++ [Item None; Item None; Count 0])) /\
    (forall cs n, Forall call_fwd cs -> lenA (fst (dq_run (bits_all (maximal R) L 0) cs)) <= n ->
       exists s s', rl_iter v = Ok s /\
         it_run (rl_bi_step m v) s (cs ++ [Nth n; Next; Len]) =
           Ok (s', snd (dq_run (bits_all (maximal R) L 0) cs) ++ [Item None; Item None; Count 0])).
Proof. exact rl_nth_beyond. Qed.
Print Assumptions C09_rl_nth_beyond.

(* non-vacuity: universe 2^64-1 with ones at 3, 4, 2^63 and 2^64-3, 2^64-2; the answers at the extremes *)
Example C09_rl_example :
  (let* (v, _) := rl_build Release [BTrySet 3 2; BTrySet (2 ^ 63) 1; BTrySet (2 ^ 64 - 3) 2; BSetLen (2 ^ 64 - 1)] in
   let* a := rl_rank Release v (2 ^ 64 - 1) in
   let* b := rl_select Release v 5 in
   let* c := rl_select_zero Release v (2 ^ 64 - 6) in
   let* d := rl_select_zero Release v (2 ^ 64 - 7) in
   let* e := oi_first Release v (rl_predecessor Release v (2 ^ 64 - 1)) in
   let* f := oi_first Release v (rl_successor Release v (2 ^ 64 - 1)) in
   Ok (rl_len v, rl_ones v, a, b, c, d, e, f))
  = Ok (2 ^ 64 - 1, 5, 5, None, None, Some (2 ^ 64 - 4), Some (4, 2 ^ 64 - 2), None).
Proof. vm_compute. reflexivity. Qed.
