(* Machine layer shared by every model: results with explicit failure values,
   usize arithmetic in the two build modes, checked/unchecked indexing. No proofs here. *)
From Coq Require Import NArith List Bool.
Import ListNotations.
Open Scope N_scope.

(* why a call did not return normally *)
Inductive pkind :=
| POverflow   (* arithmetic overflow with overflow checks on *)
| PIndex      (* bounds-checked indexing / slicing out of range *)
| PUnwrap     (* unwrap()/expect() on None/Err *)
| PAssert     (* assert!/assert_eq! *)
| PDoc        (* a panic the API documents (e.g. set() on an invalid position) *)
| PFuel.      (* a loop of the model ran out of fuel: never a legitimate outcome *)

Inductive res (A : Type) :=
| Ok (a : A)
| Panic (k : pkind)
| OOB (site : N).   (* an unchecked access outside its buffer: undefined behaviour in the code *)
Arguments Ok {A} a.
Arguments Panic {A} k.
Arguments OOB {A} site.

Definition bind {A B} (r : res A) (f : A -> res B) : res B :=
  match r with Ok a => f a | Panic k => Panic k | OOB s => OOB s end.
Definition rmap {A B} (f : A -> B) (r : res A) : res B := bind r (fun a => Ok (f a)).

Notation "'let*' x := e 'in' k" := (bind e (fun x => k)) (at level 200, x pattern, e at level 100, k at level 200).

Definition is_ok {A} (r : res A) : bool := match r with Ok _ => true | _ => false end.
Definition is_oob {A} (r : res A) : bool := match r with OOB _ => true | _ => false end.
Definition is_panic {A} (r : res A) : bool := match r with Panic _ => true | _ => false end.

(* build configuration: overflow checks on (dev/test profile) or off (release) *)
Inductive mode := Debug | Release.

Definition W : N := 2 ^ 64.
Definition MAXU : N := 2 ^ 64 - 1.
Definition wrap (x : N) : N := x mod 2 ^ 64.

Definition uadd (m : mode) (a b : N) : res N :=
  if a + b <? 2 ^ 64 then Ok (a + b)
  else match m with Debug => Panic POverflow | Release => Ok ((a + b) mod 2 ^ 64) end.
Definition usub (m : mode) (a b : N) : res N :=
  if b <=? a then Ok (a - b)
  else match m with Debug => Panic POverflow | Release => Ok (2 ^ 64 - (b - a)) end.
Definition umul (m : mode) (a b : N) : res N :=
  if a * b <? 2 ^ 64 then Ok (a * b)
  else match m with Debug => Panic POverflow | Release => Ok ((a * b) mod 2 ^ 64) end.
(* division by zero panics in every mode *)
Definition udiv (m : mode) (a b : N) : res N :=
  if b =? 0 then Panic POverflow else Ok (a / b).
(* `x << k` on usize: the shift amount must be < 64 (checked in Debug, masked in Release); bits shifted out are lost *)
Definition ushl (m : mode) (a k : N) : res N :=
  if k <? 64 then Ok ((N.shiftl a k) mod 2 ^ 64)
  else match m with Debug => Panic POverflow | Release => Ok ((N.shiftl a (k mod 64)) mod 2 ^ 64) end.
Definition ushr (m : mode) (a k : N) : res N :=
  if k <? 64 then Ok (N.shiftr a k)
  else match m with Debug => Panic POverflow | Release => Ok (N.shiftr a (k mod 64)) end.

(* 64-bit complement *)
Definition wnot (x : N) : N := N.lxor x (N.ones 64).

(* list access by N index; never walks further than the list *)
Fixpoint nthN {A} (l : list A) (i : N) : option A :=
  match l with
  | [] => None
  | x :: t => if i =? 0 then Some x else nthN t (i - 1)
  end.

Fixpoint setN {A} (l : list A) (i : N) (v : A) : list A :=
  match l with
  | [] => []
  | x :: t => if i =? 0 then v :: t else x :: setN t (i - 1) v
  end.

Definition lenN {A} (l : list A) : N := N.of_nat (length l).

(* bounds-checked read: `v[i]` *)
Definition idx {A} (l : list A) (i : N) : res A :=
  match nthN l i with Some x => Ok x | None => Panic PIndex end.
(* unchecked read: `*v.get_unchecked(i)`; [site] identifies the accessor *)
Definition idx_unchecked {A} (site : N) (l : list A) (i : N) : res A :=
  match nthN l i with Some x => Ok x | None => OOB site end.
(* bounds-checked write: `v[i] = x` *)
Definition upd {A} (l : list A) (i : N) (v : A) : res (list A) :=
  if i <? lenN l then Ok (setN l i v) else Panic PIndex.

Fixpoint repeatN {A} (x : A) (n : nat) : list A :=
  match n with O => [] | S k => x :: repeatN x k end.

(* site identifiers for unchecked accesses (mirrored by the harness's VERIF-OOB hook messages) *)
Definition SITE_LOW_SET : N := 1.
Definition SITE_HIGH_SET : N := 2.
Definition SITE_PS_OVERFLOW : N := 3.
Definition SITE_SELECT_IN_BYTE : N := 4.
Definition SITE_RAW_WORD : N := 5.
Definition SITE_RANK_SAMPLE : N := 6.
Definition SITE_MAP_WORD : N := 7.
