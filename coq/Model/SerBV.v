(* Element-level (u64) serialization of the plain bitvector and its supports, as written by
   Serialize::serialize (header then body). Encoders only; loaders are in Model/Ser.v. *)
From Coq Require Import NArith List Bool.
Require Import SDS.Model.Mach SDS.Model.Raw SDS.Model.IntVec SDS.Model.BitVec.
Import ListNotations.
Open Scope N_scope.

Definition rs_serialize (rs : rank_support) : list N :=
  lenN (rs_samples rs) :: flat_map (fun p => [fst p; snd p]) (rs_samples rs).
Definition ss_serialize (s : select_support) : list N :=
  iv_serialize (ss_samples s) ++ iv_serialize (ss_long s) ++ iv_serialize (ss_short s).

(* Option<V>: size in elements (0 when absent), then the value *)
Definition opt_serialize {A} (f : A -> list N) (o : option A) : list N :=
  match o with None => [0] | Some x => let e := f x in lenN e :: e end.

Definition bv_serialize (b : bitvec) : list N :=
  bv_ones b :: raw_serialize (bv_data b)
  ++ opt_serialize rs_serialize (bv_rank b)
  ++ opt_serialize ss_serialize (bv_select b)
  ++ opt_serialize ss_serialize (bv_select_zero b).
