(* The iterators of sparse_vector.rs as step functions over the calls of Spec/Deque.v.
     OneIter  (one_iter, select_iter, predecessor, successor): next, next_back, size_hint are the crate's
              (Model/Sparse.v: it_next_f, it_next_back, it_len); double-ended, ExactSizeIterator
     Iter     (iter): next, next_back, size_hint are the crate's (sbi_next_f, sbi_next_back, sbi_len)
     ZeroIter (zero_iter, select_zero_iter): next and size_hint are the crate's (zi_next_f; zi_len below);
              forward only
   Everything else is inherited from std: nth is advance_by(n) + next, nth_back is advance_back_by(n) + next_back
   (Model/Iters.v std_nth over the crate's next / next_back). No proofs here. *)
From Coq Require Import NArith List Bool.
Require Import SDS.Model.Mach SDS.Model.Bits SDS.Model.Raw SDS.Model.IntVec SDS.Model.BitVec.
Require Import SDS.Model.Iters SDS.Spec.Deque SDS.Spec.IterRefs.
Require Import SDS.Model.Sparse.     (* after Iters: it_*, zi_*, sbi_* are the names of Model/Sparse.v *)
Import ListNotations.
Open Scope N_scope.

(* ZeroIter::size_hint: limit.0 - next.0 *)
Definition zi_len (m : mode) (z : zero_iter) : res N := usub m (fst (zi_limit z)) (fst (zi_next z)).

(* the number of calls of next the default nth can make: items left + 1 (a modelling bound, not a value of the
   program: exact N subtraction) *)
Definition sp_fuel (limit next : N) : nat := S (N.to_nat (limit - next)).

Definition sp_oi_step (m : mode) (sv : sparse) (it : sv_iter) (c : call) : res (sv_iter * out (N * N)) :=
  match c with
  | Next => let* (it', o) := it_next_f m sv it in Ok (it', Item o)
  | NextBack => let* (it', o) := it_next_back m sv it in Ok (it', Item o)
  | Nth k =>
      let* (it', o) := std_nth (it_next_f m sv) (sp_fuel (snd (it_limit it)) (snd (it_next it))) it k in Ok (it', Item o)
  | NthBack k =>
      let* (it', o) := std_nth (it_next_back m sv) (sp_fuel (snd (it_limit it)) (snd (it_next it))) it k in Ok (it', Item o)
  | Len => let* n := it_len m it in Ok (it, Count n)
  end.

Definition sp_bi_step (m : mode) (sv : sparse) (s : sbit_iter) (c : call) : res (sbit_iter * out bool) :=
  match c with
  | Next => let* (s', o) := sbi_next_f m sv s in Ok (s', Item o)
  | NextBack => let* (s', o) := sbi_next_back m sv s in Ok (s', Item o)
  | Nth k => let* (s', o) := std_nth (sbi_next_f m sv) (sp_fuel (sbi_limit s) (sbi_next s)) s k in Ok (s', Item o)
  | NthBack k => let* (s', o) := std_nth (sbi_next_back m sv) (sp_fuel (sbi_limit s) (sbi_next s)) s k in Ok (s', Item o)
  | Len => let* n := sbi_len m s in Ok (s, Count n)
  end.

Definition sp_zi_step (m : mode) (sv : sparse) (z : zero_iter) (c : call) : res (zero_iter * out (N * N)) :=
  match c with
  | Next => let* (z', o) := zi_next_f m sv z in Ok (z', Item o)
  | Nth k => let* (z', o) := std_nth (zi_next_f m sv) (sp_fuel (fst (zi_limit z)) (fst (zi_next z))) z k in Ok (z', Item o)
  | Len => let* n := zi_len m z in Ok (z, Count n)
  | NextBack | NthBack _ => Panic PDoc          (* not implemented by the type: never called *)
  end.

(* the ways a SparseVector hands out a OneIter / a ZeroIter *)
Definition sp_oi_entry (sp : selpath) (m : mode) (sv : sparse) (e : entry) : option (res sv_iter) :=
  match e with
  | EOne => Some (Ok (sv_one_iter sv))
  | ESelect r => Some (sv_select_iter sp m sv r)
  | EPred x => Some (sv_predecessor sp m sv x)
  | ESucc x => Some (sv_successor sp m sv x)
  | _ => None
  end.
Definition sp_zi_entry (sp : selpath) (m : mode) (sv : sparse) (e : entry) : option (res zero_iter) :=
  match e with
  | EZero => Some (sv_zero_iter m sv)
  | ESelectZero r => Some (sv_select_zero_iter sp m sv r)
  | _ => None
  end.
