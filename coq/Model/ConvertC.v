(* Chains of conversions over the CONCRETE models of the three types (Model/BitVec.v, Model/Sparse.v, Model/RL.v).
   Definitions only; no proofs here. Sparse and RL are referred to by qualified names (the two files share
   field names). *)
From Coq Require Import NArith List Bool.
Require Import SDS.Model.Mach SDS.Model.Raw SDS.Model.BitVec SDS.Model.Convert SDS.Spec.BitSeq.
Require SDS.Model.Sparse SDS.Model.RL.
Import ListNotations.
Open Scope N_scope.

Inductive cvec :=
| CB (b : bitvec)
| CS (sv : Sparse.sparse)
| CR (v : RL.rlvec).

Definition ctype_of (x : cvec) : vtype := match x with CB _ => TBit | CS _ => TSparse | CR _ => TRL end.

(* the first n items of the sparse vector's one_iter() *)
Fixpoint sv_collect (m : mode) (sv : Sparse.sparse) (n : nat) (it : Sparse.sv_iter) : res (list (N * N)) :=
  match n with
  | O => Ok []
  | S k => let* (it', x) := Sparse.it_next_f m sv it in
           match x with None => Ok [] | Some p => let* t := sv_collect m sv k it' in Ok (p :: t) end
  end.

(* what `copy_bit_vec(&source)` reads: len(), count_ones(), and one_iter() run to its end yields the ranked
   positions ps (asking for one item more than |ps| returns exactly |ps| items). Stated as a relation so that no
   count of set bits is ever converted to a unary number. *)
Definition creads (m : mode) (x : cvec) (n o : N) (ps : list N) : Prop :=
  match x with
  | CB b => bv_len b = n /\ bv_count_ones b = o /\ bv_one_positions b = Ok ps
  | CS sv => Sparse.sv_len sv = n /\ Sparse.sv_count_ones sv = o /\
             sv_collect m sv (S (length ps)) (Sparse.sv_one_iter sv) = Ok (index_from ps 0)
  | CR v => RL.rl_len v = n /\ RL.rl_ones v = o /\
            (let* s := RL.rl_one_iter v in RL.oi_take (S (length ps)) m v s) = Ok (index_from ps 0)
  end.

(* `$target::copy_bit_vec` on what was read; sp = select path of the build, w = low width chosen for the
   sparse vector *)
Definition ccopy_to (sp : selpath) (m : mode) (w : N) (t : vtype) (n o : N) (ps : list N) : res cvec :=
  match t with
  | TBit => rmap CB (bv_copy n ps)
  | TSparse => rmap CS (Sparse.sv_copy sp m w n ps)
  | TRL => rmap CR (RL.rl_copy_bit_vec m ps n)
  end.

Definition cconverts (sp : selpath) (m : mode) (w : N) (t : vtype) (x y : cvec) : Prop :=
  exists n o ps, creads m x n o ps /\ ccopy_to sp m w t n o ps = Ok y.

Inductive cchain (sp : selpath) (m : mode) (w : N) : list vtype -> cvec -> cvec -> Prop :=
| ccc_nil x : cchain sp m w [] x x
| ccc_cons t ts x y z : cconverts sp m w t x y -> cchain sp m w ts y z -> cchain sp m w (t :: ts) x z.
