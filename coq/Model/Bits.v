(* Model of src/bits.rs. Follows the Rust control flow; tables, constants and the
   one-expression helpers come from the regenerated gen/ files. No proofs here. *)
From Coq Require Import NArith List Bool.
Require Import SDS.Model.Mach SDS.gen.Tables SDS.gen.Consts SDS.gen.Funs.
Import ListNotations.
Open Scope N_scope.

(* ---- intrinsics (their mathematical reading is in the trusted base) ---- *)

Fixpoint pop_pos (p : positive) : N :=
  match p with xH => 1 | xO q => pop_pos q | xI q => 1 + pop_pos q end.
(* u64::count_ones *)
Definition popcount (w : N) : N := match w with 0 => 0 | Npos p => pop_pos p end.

(* u64::leading_zeros, for w < 2^64 *)
Definition leading_zeros (w : N) : N := 64 - N.size w.

Fixpoint ctz_pos (p : positive) : N :=
  match p with xO q => 1 + ctz_pos q | _ => 0 end.
(* u64::trailing_zeros *)
Definition trailing_zeros (w : N) : N := match w with 0 => 64 | Npos p => ctz_pos p end.

(* u64::reverse_bits *)
Fixpoint rev_bits_aux (fuel : nat) (w acc : N) : N :=
  match fuel with
  | O => acc
  | S k => rev_bits_aux k (N.div2 w) (2 * acc + (if N.odd w then 1 else 0))
  end.
Definition reverse_bits (w : N) : N := rev_bits_aux 64 w 0.

(* _pdep_u64(src, mask): deposit the low bits of src at the set positions of mask *)
Fixpoint pdep_pos (src : N) (mask : positive) : N :=
  match mask with
  | xH => if N.odd src then 1 else 0
  | xO q => 2 * pdep_pos src q
  | xI q => (if N.odd src then 1 else 0) + 2 * pdep_pos (N.div2 src) q
  end.
Definition pdep (src mask : N) : N := match mask with 0 => 0 | Npos p => pdep_pos src p end.

(* ---- masks ---- *)

Definition low_set (n : N) : res N := idx LOW_SET n.
Definition low_set_unchecked (n : N) : res N := idx_unchecked SITE_LOW_SET LOW_SET n.
Definition high_set (n : N) : res N := idx HIGH_SET n.
Definition high_set_unchecked (n : N) : res N := idx_unchecked SITE_HIGH_SET HIGH_SET n.

(* ---- helpers ---- *)

(* WORD_BITS - ((n | 1).leading_zeros() as usize) *)
Definition bit_len (n : N) : N := bits_WORD_BITS - leading_zeros (N.lor n 1).

(* n.reverse_bits() >> (WORD_BITS - bits) *)
Definition reverse_low (m : mode) (n bits : N) : res N :=
  let* sh := usub m bits_WORD_BITS bits in
  ushr m (reverse_bits n) sh.

Definition filler_value (b : bool) : N := if b then N.ones 64 else 0.

(* (bit_offset >> INDEX_SHIFT, bit_offset & OFFSET_MASK) *)
Definition split_offset (bo : N) : N * N :=
  (N.shiftr bo bits_INDEX_SHIFT, N.land bo bits_OFFSET_MASK).

(* the helpers translated from the source by tools/gen.py, specialised for internal use
   where the argument is known not to overflow (bound lemmas in Proofs/) *)
Definition bits_to_words (n : N) : N := (n + (bits_WORD_BITS - 1)) / bits_WORD_BITS.
Definition bytes_to_words (n : N) : N := (n + (bits_WORD_BYTES - 1)) / bits_WORD_BYTES.
Definition words_to_bits (n : N) : N := n * bits_WORD_BITS.
Definition bit_offset (index offset : N) : N := N.shiftl index bits_INDEX_SHIFT + offset.

(* ---- select in a word ---- *)

(* BMI2 path: _pdep_u64(1u64 << rank, n).trailing_zeros() *)
Definition select_pdep (m : mode) (n rank : N) : res N :=
  let* one := ushl m 1 rank in
  Ok (trailing_zeros (pdep one n)).

(* portable path (borrowed from SDSL); the literals are used positionally *)
Definition lit (k : nat) : N := nth k select_portable_literals 0.
Definition select_portable (m : mode) (n rank : N) : res N :=
  let c := n - N.land (N.shiftr n 1) (lit 0) in
  let c := N.land c (lit 1) + N.land (N.shiftr c 2) (lit 2) in
  let c := N.land (c + N.shiftr c 4) (lit 3) in
  let c := wrap (c * lit 4) in
  let* r1 := uadd m rank 1 in
  let* ps := idx_unchecked SITE_PS_OVERFLOW PS_OVERFLOW r1 in
  let* s := uadd m c ps in
  let mask := N.land s (lit 5) in
  let offset := N.shiftl (N.shiftr (trailing_zeros mask) 3) 3 in
  let* sh := ushr m (wrap (N.shiftl c 8)) offset in
  let* rel := usub m rank (N.land sh (lit 6)) in
  let* sh2 := ushr m n offset in
  let* i1 := ushl m rel 8 in
  let* i := uadd m i1 (N.land sh2 (lit 7)) in
  let* t := idx_unchecked SITE_SELECT_IN_BYTE SELECT_IN_BYTE i in
  uadd m offset t.

(* ---- read / write of a [width]-bit integer at a bit offset of a word array ---- *)

Definition write_int (a : list N) (bo value width : N) : res (list N) :=
  let* ls := low_set width in
  let value := N.land value ls in
  let '(index, offset) := split_offset bo in
  if offset + width <=? bits_WORD_BITS then
    let* hs := high_set_unchecked (bits_WORD_BITS - width - offset) in
    let* lo := low_set_unchecked offset in
    let* w0 := idx a index in
    let w1 := N.land w0 (N.lor hs lo) in
    upd a index (N.lor w1 (wrap (N.shiftl value offset)))
  else
    let* lo := low_set_unchecked offset in
    let* w0 := idx a index in
    let* a1 := upd a index (N.lor (N.land w0 lo) (wrap (N.shiftl value offset))) in
    let* hs := high_set (2 * bits_WORD_BITS - width - offset) in
    let* w1 := idx a1 (index + 1) in
    upd a1 (index + 1) (N.lor (N.land w1 hs) (N.shiftr value (bits_WORD_BITS - offset))).

Definition read_int (a : list N) (bo width : N) : res N :=
  let '(index, offset) := split_offset bo in
  let* w0 := idx a index in
  let first := N.shiftr w0 offset in
  if offset + width <=? bits_WORD_BITS then
    let* ls := low_set_unchecked width in
    Ok (N.land first ls)
  else
    let* w1 := idx a (index + 1) in
    let* ls := low_set_unchecked (N.land (offset + width) bits_OFFSET_MASK) in
    Ok (N.lor first (wrap (N.shiftl (N.land w1 ls) (bits_WORD_BITS - offset)))).
