(* Model of src/int_vector.rs: IntVector = (len, width, RawVector). Follows the Rust control flow. *)
From Coq Require Import NArith List Bool.
Require Import SDS.Model.Mach SDS.Model.Bits SDS.Model.Raw SDS.gen.Consts.
Import ListNotations.
Open Scope N_scope.

Record intvec := mkiv { ilen : N; iwidth : N; idata : raw }.

(* constructors return None for the Err("Integer width must be 1 to 64 bits") result *)
Definition width_ok (width : N) : bool := negb ((width =? 0) || (bits_WORD_BITS <? width)).

Definition iv_new (width : N) : option intvec :=
  if width_ok width then Some (mkiv 0 width raw_new) else None.

Fixpoint push_n (r : raw) (n : nat) (value width : N) : res raw :=
  match n with
  | O => Ok r
  | S k => let* r' := raw_push_int r value width in push_n r' k value width
  end.

Definition iv_with_len (len width value : N) : option (res intvec) :=
  if width_ok width then
    Some (let* d := push_n raw_new (N.to_nat len) value width in Ok (mkiv len width d))
  else None.

Definition iv_with_capacity (capacity width : N) : option intvec :=
  if width_ok width then Some (mkiv 0 width raw_new) else None.

Definition iv_default : intvec := mkiv 0 bits_WORD_BITS raw_new.

Definition iv_size_by_params (capacity width : N) : N := 2 + raw_size_by_params (capacity * width).

Definition iv_get (v : intvec) (index : N) : res N :=
  if index <? ilen v then raw_int (idata v) (index * iwidth v) (iwidth v) else Panic PAssert.

Definition iv_get_or (v : intvec) (index value : N) : res N :=
  if ilen v <=? index then Ok value else iv_get v index.

Definition iv_set (v : intvec) (index value : N) : res intvec :=
  if index <? ilen v then
    let* d := raw_set_int (idata v) (index * iwidth v) value (iwidth v) in
    Ok (mkiv (ilen v) (iwidth v) d)
  else Panic PAssert.

Definition iv_push (v : intvec) (value : N) : res intvec :=
  let* d := raw_push_int (idata v) value (iwidth v) in
  Ok (mkiv (ilen v + 1) (iwidth v) d).

Definition iv_pop (v : intvec) : res (intvec * option N) :=
  let len' := if 0 <? ilen v then ilen v - 1 else ilen v in
  let* (d, r) := raw_pop_int (idata v) (iwidth v) in
  Ok (mkiv len' (iwidth v) d, r).

Fixpoint iv_push_all (v : intvec) (xs : list N) : res intvec :=
  match xs with
  | [] => Ok v
  | x :: t => let* v' := iv_push v x in iv_push_all v' t
  end.
Definition iv_extend := iv_push_all.

Definition iv_resize (v : intvec) (new_len value : N) : res intvec :=
  if ilen v <? new_len then
    iv_push_all v (repeatN value (N.to_nat (new_len - ilen v)))
  else if new_len <? ilen v then
    let* d := raw_resize (idata v) (new_len * iwidth v) false in
    Ok (mkiv new_len (iwidth v) d)
  else Ok v.

Definition iv_clear (v : intvec) : intvec := mkiv 0 (iwidth v) raw_new.

(* reserve() only changes the capacity, which is not part of the modelled state *)
Definition iv_reserve (v : intvec) (additional : N) : intvec := v.

Fixpoint iv_items_aux (v : intvec) (i : N) (n : nat) : res (list N) :=
  match n with
  | O => Ok []
  | S k => let* x := iv_get v i in let* t := iv_items_aux v (i + 1) k in Ok (x :: t)
  end.
(* the items, as iter() yields them *)
Definition iv_items (v : intvec) : res (list N) := iv_items_aux v 0 (N.to_nat (ilen v)).

Definition list_max (l : list N) : N := fold_right N.max 0 l.

Definition iv_pack (v : intvec) : res intvec :=
  if ilen v =? 0 then Ok v
  else
    let* items := iv_items v in
    let new_width := bit_len (list_max items) in
    if new_width =? iwidth v then Ok v
    else
      let* v' := iv_push_all (mkiv 0 new_width raw_new) items in
      Ok v'.

(* From<Vec<T>> / FromIterator at the declared width of the source type *)
Definition iv_from (width : N) (xs : list N) : res intvec := iv_push_all (mkiv 0 width raw_new) xs.

Definition iv_eqb (a b : intvec) : bool :=
  (ilen a =? ilen b) && (iwidth a =? iwidth b) && raw_eqb (idata a) (idata b).

Definition iv_serialize (v : intvec) : list N := ilen v :: iwidth v :: raw_serialize (idata v).
Definition iv_size_in_elements (v : intvec) : N := 2 + raw_size_in_elements (idata v).
