(* serialize.rs::temp_file_name, the part after the counter has been read:
     let mut buf = env::temp_dir();
     buf.push(format!("{}_{}_{}", name_part, process::id(), count));
   The format pieces come from gen/TempName.v (regenerated from the source on every run).
   A name is a list of characters. `Display` of an unsigned integer is its decimal rendering without sign,
   padding or leading zeros ([dec]). No proofs here. *)
From Coq Require Import NArith List Bool String Ascii.
Require Import SDS.gen.TempName.
Import ListNotations.
Open Scope N_scope.

Definition digit (d : N) : ascii := ascii_of_N (48 + d).

(* decimal digits, least significant first; fuel = number of binary digits, which bounds the decimal ones *)
Fixpoint digits_le (fuel : nat) (n : N) : list N :=
  match fuel with
  | O => []
  | S f => n mod 10 :: (if n / 10 =? 0 then [] else digits_le f (n / 10))
  end.

Definition dec (n : N) : list ascii :=
  map digit (rev (digits_le (S (N.to_nat (N.log2 n))) n)).

(* one `{}` or literal piece of the format string; an argument the translator does not know is not rendered *)
Definition piece (p : name_piece) (part : list ascii) (pid count : N) : option (list ascii) :=
  match p with
  | PName => Some part
  | PPid => Some (dec pid)
  | PCount => Some (dec count)
  | PLit s => Some (list_ascii_of_string s)
  | POther => None
  end.

Fixpoint render (fmt : list name_piece) (part : list ascii) (pid count : N) : option (list ascii) :=
  match fmt with
  | [] => Some []
  | p :: rest =>
      match piece p part pid count, render rest part pid count with
      | Some a, Some b => Some (a ++ b)
      | _, _ => None
      end
  end.

(* the file name built by format! *)
Definition temp_name (part : list ascii) (pid count : N) : option (list ascii) :=
  render temp_name_format part pid count.

Definition slash : ascii := ascii_of_N 47.

(* PathBuf::push on Unix: an absolute component replaces the buffer; otherwise a separator is added
   unless the buffer is empty or already ends with one, then the component is appended *)
Definition push (dir name : list ascii) : list ascii :=
  match name with
  | c :: _ => if Ascii.eqb c slash then name
              else dir ++ (if Ascii.eqb (last dir slash) slash then [] else [slash]) ++ name
  | [] => dir ++ (if Ascii.eqb (last dir slash) slash then [] else [slash])
  end.

(* the path returned by temp_file_name when env::temp_dir() = dir, process::id() = pid and the
   counter operation returned count *)
Definition temp_path (dir part : list ascii) (pid count : N) : option (list ascii) :=
  match temp_name part pid count with
  | Some nm => Some (push dir nm)
  | None => None
  end.
