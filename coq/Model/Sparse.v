(* Model of src/sparse_vector.rs: Elias-Fano SparseVector, SparseBuilder and the iterators OneIter,
   ZeroIter, Iter. Follows the Rust control flow branch by branch. The f64 parameter rule of
   get_params is an oracle argument [w] (the harness passes the width the crate chose).
   Every +, -, <<, >> of the Rust that is not trivially bounded is the mode-dependent checked
   operation, so "the result is Ok" includes "no overflow panic in a debug build".
   Exact N arithmetic is used only where a preceding test bounds the value (noted at the site).
   No proofs here. *)
From Coq Require Import NArith List Bool.
Require Import SDS.Model.Mach SDS.Model.Bits SDS.Model.Raw SDS.Model.IntVec SDS.Model.BitVec SDS.Model.SerBV.
Require Import SDS.gen.Consts.
Import ListNotations.
Open Scope N_scope.

(* ---------------------------------------------------------------- loops with data-derived fuel *)

(* A `while` loop is a step function on its state: continue with a new state or leave with a result.
   [run_loop blocks f s] runs at most 64 * blocks steps (64 per unit of structural fuel, so the fuel
   can be the number of WORDS of a bitvector while the loop walks over its BITS), and returns
   Panic PFuel when the fuel is exhausted. *)
Inductive step (S R : Type) := Continue (s : S) | Done (r : R).
Arguments Continue {S R} s.
Arguments Done {S R} r.

Fixpoint run_steps {S R} (k : nat) (f : S -> res (step S R)) (s : S) : res (step S R) :=
  match k with
  | O => Ok (Continue s)
  | S k' => let* x := f s in
            match x with Continue s' => run_steps k' f s' | Done r => Ok (Done r) end
  end.

Fixpoint run_loop {S R} (blocks : nat) (f : S -> res (step S R)) (s : S) : res R :=
  match blocks with
  | O => Panic PFuel
  | S b => let* x := run_steps 64 f s in
           match x with Continue s' => run_loop b f s' | Done r => Ok r end
  end.

(* ---------------------------------------------------------------- structures *)

Record sparse := mksv { sv_len : N; sv_high : bitvec; sv_low : intvec }.

(* SparseBuilder: data.len, data.low, high, len, next, increment (data.high is a placeholder there) *)
Record builder := mkb {
  b_universe : N; b_low : intvec; b_high : raw; b_len : N; b_next : N; b_inc : N }.

(* OneIter: next = (high, low), limit = (high, low) *)
Record sv_iter := mkit { it_next : N * N; it_limit : N * N }.
(* ZeroIter *)
Record zero_iter := mkzi { zi_iter : sv_iter; zi_one_pos : N; zi_next : N * N; zi_limit : N * N }.
(* Iter *)
Record sbit_iter := mksbi {
  sbi_parent : sv_iter; sbi_next : N; sbi_next_set : option N; sbi_limit : N; sbi_last_set : option N }.

(* error results (Err(&'static str)) of the builder API *)
Definition ERR_ONES_GT_UNIVERSE : N := 1.
Definition ERR_FULL : N := 2.
Definition ERR_ORDER : N := 3.
Definition ERR_UNIVERSE : N := 4.
Definition ERR_NOT_FULL : N := 5.

(* get_buckets(universe, low_width) *)
Definition get_buckets (universe low_width : N) : res N :=
  let buckets := if low_width <? bits_WORD_BITS then N.shiftr universe low_width else 0 in
  let* ls := low_set low_width in
  (* buckets <= universe / 2 when low_width >= 1, and <= 1 when low_width = 64: += 1 cannot overflow;
     for low_width = 0 (never chosen) universe & 0 = 0 *)
  Ok (if N.land universe ls =? 0 then buckets else buckets + 1).


(* get_params: [w] stands for (universe * ln 2 / ones).log2().max(1.0).round() as usize *)
Definition get_params (m : mode) (w universe ones : N) : res (N * N) :=
  let low_width := if (0 <? ones) && (ones <=? universe) then w else 1 in
  let* buckets := get_buckets universe low_width in
  let* high_len := uadd m ones buckets in
  Ok (low_width, high_len).

Definition unwrap_iv (o : option (res intvec)) : res intvec :=
  match o with Some r => r | None => Panic PUnwrap end.

(* SparseBuilder::new: inr = Err *)
Definition sb_new (m : mode) (w universe ones : N) : res (builder + N) :=
  if universe <? ones then Ok (inr ERR_ONES_GT_UNIVERSE)
  else
    let* (width, high_len) := get_params m w universe ones in
    let* low := unwrap_iv (iv_with_len ones width 0) in
    let* high := raw_with_len high_len false in
    Ok (inl (mkb universe low high 0 0 1)).

(* SparseBuilder::multiset *)
Definition sb_multiset (m : mode) (w universe ones : N) : res builder :=
  let* (width, high_len) := get_params m w universe ones in
  let* low := unwrap_iv (iv_with_len ones width 0) in
  let* high := raw_with_len high_len false in
  Ok (mkb universe low high 0 0 0).

(* SparseVector::split with the given low width: (index >> width, index & low_set_unchecked(width)) *)
Definition split_w (m : mode) (width index : N) : res (N * N) :=
  let* h := ushr m index width in
  let* ls := low_set_unchecked width in
  Ok (h, N.land index ls).

(* SparseBuilder::set_unchecked *)
Definition sb_set_unchecked (m : mode) (b : builder) (index : N) : res builder :=
  let* (ph, pl) := split_w m (iwidth (b_low b)) index in
  let* hpos := uadd m ph (b_len b) in
  let* high := raw_set_bit (b_high b) hpos true in
  let* low := iv_set (b_low b) (b_len b) pl in
  let* len' := uadd m (b_len b) 1 in
  let* next := uadd m index (b_inc b) in
  Ok (mkb (b_universe b) low high len' next (b_inc b)).

(* SparseBuilder::try_set: inr = Err, the builder is then unchanged *)
Definition sb_try_set (m : mode) (b : builder) (index : N) : res (builder + N) :=
  if b_len b =? ilen (b_low b) then Ok (inr ERR_FULL)
  else if index <? b_next b then Ok (inr ERR_ORDER)
  else if b_universe b <=? index then Ok (inr ERR_UNIVERSE)
  else let* b' := sb_set_unchecked m b index in Ok (inl b').

Fixpoint sb_try_set_all (m : mode) (b : builder) (xs : list N) : res (builder + N) :=
  match xs with
  | [] => Ok (inl b)
  | x :: t => let* r := sb_try_set m b x in
              match r with inl b' => sb_try_set_all m b' t | inr e => Ok (inr e) end
  end.

Fixpoint sb_set_unchecked_all (m : mode) (b : builder) (xs : list N) : res builder :=
  match xs with
  | [] => Ok b
  | x :: t => let* b' := sb_set_unchecked m b x in sb_set_unchecked_all m b' t
  end.

(* TryFrom<SparseBuilder> for SparseVector *)
Definition sv_try_from (sp : selpath) (m : mode) (b : builder) : res (sparse + N) :=
  if negb (b_len b =? ilen (b_low b)) then Ok (inr ERR_NOT_FULL)
  else
    let h0 := bv_from_raw (b_high b) in
    let* h1 := bv_enable_select_t sp m Identity h0 in
    let* h2 := bv_enable_select_t sp m Complement h1 in
    Ok (inl (mksv (b_universe b) h2 (b_low b))).

Definition unwrap_sum {A} (r : res (A + N)) : res A :=
  let* x := r in match x with inl a => Ok a | inr _ => Panic PUnwrap end.

(* SparseBuilder::new(n, |ps|), try_set for every element, try_from: the documented route for sets *)
Definition sv_build_set (sp : selpath) (m : mode) (w n : N) (ps : list N) : res (sparse + N) :=
  let* r := sb_new m w n (lenN ps) in
  match r with
  | inr e => Ok (inr e)
  | inl b => let* r' := sb_try_set_all m b ps in
             match r' with inr e => Ok (inr e) | inl b' => sv_try_from sp m b' end
  end.

(* SparseBuilder::multiset(n, |vs|), try_set for every element, try_from *)
Definition sv_build_multiset (sp : selpath) (m : mode) (w n : N) (vs : list N) : res (sparse + N) :=
  let* b := sb_multiset m w n (lenN vs) in
  let* r' := sb_try_set_all m b vs in
  match r' with inr e => Ok (inr e) | inl b' => sv_try_from sp m b' end.

(* SparseVector::copy_bit_vec for a source of length [len] whose one_iter yields [ps] *)
Definition sv_copy (sp : selpath) (m : mode) (w len : N) (ps : list N) : res sparse :=
  let* b := unwrap_sum (sb_new m w len (lenN ps)) in
  let* b' := sb_set_unchecked_all m b ps in
  unwrap_sum (sv_try_from sp m b').

(* SparseVector::try_from_iter over a double-ended exact-size iterator yielding [xs] *)
Definition sv_try_from_iter (sp : selpath) (m : mode) (w : N) (xs : list N) : res (sparse + N) :=
  let ones := lenN xs in
  let* universe := match rev xs with [] => Ok 0 | last :: _ => uadd m last 1 end in
  let* b := sb_multiset m w universe ones in
  let* r := sb_try_set_all m b (removelast xs) in
  match r with
  | inr e => Ok (inr e)
  | inl b1 =>
      let* r2 := if 0 <? universe then sb_try_set m b1 (universe - 1) else Ok (inl b1) in
      match r2 with inr e => Ok (inr e) | inl b2 => sv_try_from sp m b2 end
  end.

(* ---------------------------------------------------------------- basic accessors *)

Definition sv_count_ones (sv : sparse) : N := ilen (sv_low sv).
(* the overriding count_zeros: saturates *)
Definition sv_count_zeros (sv : sparse) : N :=
  if sv_len sv <=? sv_count_ones sv then 0 else sv_len sv - sv_count_ones sv.
Definition sv_width (sv : sparse) : N := iwidth (sv_low sv).
Definition sv_is_empty (sv : sparse) : bool := sv_len sv =? 0.

(* structural fuel of the bit-level scans over high: its number of words + 1 *)
Definition sv_fuel (sv : sparse) : nat := S (length (rdata (bv_data (sv_high sv)))).

Definition sv_split (m : mode) (sv : sparse) (index : N) : res (N * N) := split_w m (sv_width sv) index.

(* combine(pos) = (pos.low, ((pos.high - pos.low) << width) + low.get(pos.low)) *)
Definition sv_combine (m : mode) (sv : sparse) (pos : N * N) : res (N * N) :=
  let* d := usub m (fst pos) (snd pos) in
  let* sh := ushl m d (sv_width sv) in
  let* lo := iv_get (sv_low sv) (snd pos) in
  let* v := uadd m sh lo in
  Ok (snd pos, v).

(* pos(rank) = (high.select(rank).unwrap(), rank) *)
Definition sv_pos (sp : selpath) (m : mode) (sv : sparse) (rank : N) : res (N * N) :=
  let* o := bv_select_t sp m Identity (sv_high sv) rank in
  let* h := opt_unwrap o in
  Ok (h, rank).

Definition sv_lower_bound (sp : selpath) (m : mode) (sv : sparse) (high_part : N) : res (N * N) :=
  if high_part =? 0 then Ok (0, 0)
  else
    (* high_part - 1: high_part <> 0 *)
    let* o := bv_select_t sp m Complement (sv_high sv) (high_part - 1) in
    let* z := opt_unwrap o in
    let* ho := uadd m z 1 in
    let* lo := usub m ho high_part in
    Ok (ho, lo).

Definition sv_upper_bound (sp : selpath) (m : mode) (sv : sparse) (high_part : N) : res (N * N) :=
  let* o := bv_select_t sp m Complement (sv_high sv) high_part in
  let* ho := opt_unwrap o in
  let* lo := usub m ho high_part in
  Ok (ho, lo).

(* ---------------------------------------------------------------- OneIter *)

Definition it_full_limit (sv : sparse) : N * N := (bv_len (sv_high sv), ilen (sv_low sv)).
Definition it_empty (sv : sparse) : sv_iter := mkit (it_full_limit sv) (it_full_limit sv).
Definition sv_one_iter (sv : sparse) : sv_iter := mkit (0, 0) (it_full_limit sv).

(* while !high.get(h) { h += 1 } *)
Definition fwd_step (m : mode) (sv : sparse) (h : N) : res (step N N) :=
  let* b := bv_get (sv_high sv) h in
  if b then Ok (Done h) else let* h' := uadd m h 1 in Ok (Continue h').
(* while !high.get(h) { h -= 1 } *)
Definition bwd_step (m : mode) (sv : sparse) (h : N) : res (step N N) :=
  let* b := bv_get (sv_high sv) h in
  if b then Ok (Done h) else let* h' := usub m h 1 in Ok (Continue h').

Definition it_next_f (m : mode) (sv : sparse) (it : sv_iter) : res (sv_iter * option (N * N)) :=
  if snd (it_limit it) <=? snd (it_next it) then Ok (it, None)
  else
    let* h := run_loop (sv_fuel sv) (fwd_step m sv) (fst (it_next it)) in
    let* r := sv_combine m sv (h, snd (it_next it)) in
    let* h' := uadd m h 1 in
    let* l' := uadd m (snd (it_next it)) 1 in
    Ok (mkit (h', l') (it_limit it), Some r).

Definition it_next_back (m : mode) (sv : sparse) (it : sv_iter) : res (sv_iter * option (N * N)) :=
  if snd (it_limit it) <=? snd (it_next it) then Ok (it, None)
  else
    let* h0 := usub m (fst (it_limit it)) 1 in
    let* l0 := usub m (snd (it_limit it)) 1 in
    let* h := run_loop (sv_fuel sv) (bwd_step m sv) h0 in
    let* r := sv_combine m sv (h, l0) in
    Ok (mkit (it_next it) (h, l0), Some r).

(* size_hint: limit.low - next.low *)
Definition it_len (m : mode) (it : sv_iter) : res N := usub m (snd (it_limit it)) (snd (it_next it)).

(* ---------------------------------------------------------------- BitVec: get *)

Definition get_step (m : mode) (sv : sparse) (parts_low : N) (pos : N * N) : res (step (N * N) bool) :=
  if fst pos <? bv_len (sv_high sv) then
    let* b := bv_get (sv_high sv) (fst pos) in
    if b then
      let* low := iv_get (sv_low sv) (snd pos) in
      if parts_low <=? low then Ok (Done (low =? parts_low))
      else
        let* h := uadd m (fst pos) 1 in
        let* l := uadd m (snd pos) 1 in
        Ok (Continue (h, l))
    else Ok (Done false)
  else Ok (Done false).

Definition sv_get (sp : selpath) (m : mode) (sv : sparse) (index : N) : res bool :=
  let* (ph, pl) := sv_split m sv index in
  let* pos := sv_lower_bound sp m sv ph in
  run_loop (sv_fuel sv) (get_step m sv pl) pos.

(* ---------------------------------------------------------------- Rank *)

(* while high.get(pos.high) && low.get(pos.low) >= parts.low { if pos.low == 0 { return 0 } ... } pos.low + 1 *)
Definition rank_step (m : mode) (sv : sparse) (parts_low : N) (pos : N * N) : res (step (N * N) N) :=
  let* b := bv_get (sv_high sv) (fst pos) in
  if b then
    let* low := iv_get (sv_low sv) (snd pos) in
    if parts_low <=? low then
      if snd pos =? 0 then Ok (Done 0)
      else
        let* h := usub m (fst pos) 1 in
        (* pos.low - 1: pos.low <> 0 *)
        Ok (Continue (h, snd pos - 1))
    else let* r := uadd m (snd pos) 1 in Ok (Done r)
  else let* r := uadd m (snd pos) 1 in Ok (Done r).

Definition sv_rank (sp : selpath) (m : mode) (sv : sparse) (index : N) : res N :=
  if sv_len sv <=? index then Ok (sv_count_ones sv)
  else
    let* (ph, pl) := sv_split m sv index in
    let* pos := sv_upper_bound sp m sv ph in
    if snd pos =? 0 then Ok 0
    else
      let* h := usub m (fst pos) 1 in
      run_loop (sv_fuel sv) (rank_step m sv pl) (h, snd pos - 1).

(* Rank::rank_zero default: index - self.rank(index) *)
Definition sv_rank_zero (sp : selpath) (m : mode) (sv : sparse) (index : N) : res N :=
  let* r := sv_rank sp m sv index in usub m index r.

(* ---------------------------------------------------------------- Select *)

Definition sv_select (sp : selpath) (m : mode) (sv : sparse) (rank : N) : res (option N) :=
  if sv_count_ones sv <=? rank then Ok None
  else
    let* p := sv_pos sp m sv rank in
    let* r := sv_combine m sv p in
    Ok (Some (snd r)).

Definition sv_select_iter (sp : selpath) (m : mode) (sv : sparse) (rank : N) : res sv_iter :=
  if sv_count_ones sv <=? rank then Ok (it_empty sv)
  else let* p := sv_pos sp m sv rank in Ok (mkit p (it_full_limit sv)).

(* ---------------------------------------------------------------- SelectZero *)

(* the binary search of find_zero_run: while high - low > BINARY_SEARCH_THRESHOLD *)
Fixpoint fzr_search (sp : selpath) (m : mode) (sv : sparse) (fuel : nat) (rank low high : N) (result : N * sv_iter)
  : res (N * sv_iter) :=
  match fuel with
  | O => Panic PFuel
  | S k =>
      let* d := usub m high low in
      if sparse_BINARY_SEARCH_THRESHOLD <? d then
        (* low + (high - low) / 2 <= high *)
        let mid := low + d / 2 in
        let* it := sv_select_iter sp m sv mid in
        let* (it', x) := it_next_f m sv it in
        let* (_, mid_pos) := opt_unwrap x in
        let* diff := usub m mid_pos mid in
        if diff <=? rank then
          let* mid1 := uadd m mid 1 in
          fzr_search sp m sv k rank mid1 high (mid1, it')
        else fzr_search sp m sv k rank low mid result
      else Ok result
  end.

(* while let Some((mid, mid_pos)) = iter.next() { if mid_pos - mid <= rank { result = (mid + 1, iter.clone()) } else { break } } *)
Definition fzr_scan_step (m : mode) (sv : sparse) (rank : N) (st : sv_iter * (N * sv_iter))
  : res (step (sv_iter * (N * sv_iter)) (N * sv_iter)) :=
  let* (it', x) := it_next_f m sv (fst st) in
  match x with
  | None => Ok (Done (snd st))
  | Some (mid, mid_pos) =>
      let* diff := usub m mid_pos mid in
      if diff <=? rank then
        let* mid1 := uadd m mid 1 in
        Ok (Continue (it', (mid1, it')))
      else Ok (Done (snd st))
  end.

Definition sv_find_zero_run (sp : selpath) (m : mode) (sv : sparse) (rank : N) : res (N * sv_iter) :=
  let* result := fzr_search sp m sv 64 rank 0 (sv_count_ones sv) (0, sv_one_iter sv) in
  run_loop (sv_fuel sv) (fzr_scan_step m sv rank) (snd result, result).

Definition sv_select_zero (sp : selpath) (m : mode) (sv : sparse) (rank : N) : res (option N) :=
  if sv_count_zeros sv <=? rank then Ok None
  else
    let* (run_rank, _) := sv_find_zero_run sp m sv rank in
    let* r := uadd m run_rank rank in
    Ok (Some r).

Definition zi_empty (sv : sparse) : zero_iter := mkzi (it_empty sv) 0 (0, 0) (0, 0).

Definition one_pos_of (x : option (N * N)) (dflt : N) : N :=
  match x with Some (_, pos) => pos | None => dflt end.

Definition sv_zero_iter (m : mode) (sv : sparse) : res zero_iter :=
  let* (it, x) := it_next_f m sv (sv_one_iter sv) in
  Ok (mkzi it (one_pos_of x (sv_len sv)) (0, 0) (sv_count_zeros sv, sv_len sv)).

Definition sv_select_zero_iter (sp : selpath) (m : mode) (sv : sparse) (rank : N) : res zero_iter :=
  if sv_count_zeros sv <=? rank then Ok (zi_empty sv)
  else
    let* (run_rank, it0) := sv_find_zero_run sp m sv rank in
    let* (it, x) := it_next_f m sv it0 in
    let* r := uadd m run_rank rank in
    Ok (mkzi it (one_pos_of x (sv_len sv)) (rank, r) (sv_count_zeros sv, sv_len sv)).

(* next_run: while next.1 >= one_pos { next.1 = one_pos + 1; one_pos = iter.next() position or limit.1 } *)
Definition zi_run_step (m : mode) (sv : sparse) (z : zero_iter) : res (step zero_iter zero_iter) :=
  if zi_one_pos z <=? snd (zi_next z) then
    let* n1 := uadd m (zi_one_pos z) 1 in
    let* (it', x) := it_next_f m sv (zi_iter z) in
    Ok (Continue (mkzi it' (one_pos_of x (snd (zi_limit z))) (fst (zi_next z), n1) (zi_limit z)))
  else Ok (Done z).

Definition zi_next_f (m : mode) (sv : sparse) (z : zero_iter) : res (zero_iter * option (N * N)) :=
  if fst (zi_limit z) <=? fst (zi_next z) then Ok (z, None)
  else
    let* z1 := run_loop (sv_fuel sv) (zi_run_step m sv) z in
    let result := zi_next z1 in
    let* a := uadd m (fst result) 1 in
    let* b := uadd m (snd result) 1 in
    Ok (mkzi (zi_iter z1) (zi_one_pos z1) (a, b) (zi_limit z1), Some result).

(* ---------------------------------------------------------------- PredSucc *)

(* while high.get(pos.high) && low.get(pos.low) > parts.low { if pos.low == 0 { return empty } ... }:
   Done None = the early return of the empty iterator, Done (Some pos) = the loop ended at pos *)
Definition pred_step (m : mode) (sv : sparse) (parts_low : N) (pos : N * N) : res (step (N * N) (option (N * N))) :=
  let* b := bv_get (sv_high sv) (fst pos) in
  if b then
    let* low := iv_get (sv_low sv) (snd pos) in
    if parts_low <? low then
      if snd pos =? 0 then Ok (Done None)
      else
        let* h := usub m (fst pos) 1 in
        Ok (Continue (h, snd pos - 1))
    else Ok (Done (Some pos))
  else Ok (Done (Some pos)).

Definition sv_predecessor (sp : selpath) (m : mode) (sv : sparse) (value : N) : res sv_iter :=
  if sv_is_empty sv then Ok (it_empty sv)
  else
    (* self.len() - 1: len <> 0 *)
    let* (ph, pl) := sv_split m sv (N.min value (sv_len sv - 1)) in
    let* pos := sv_upper_bound sp m sv ph in
    if snd pos =? 0 then Ok (it_empty sv)
    else
      let* h := usub m (fst pos) 1 in
      let* r := run_loop (sv_fuel sv) (pred_step m sv pl) (h, snd pos - 1) in
      match r with
      | None => Ok (it_empty sv)
      | Some pos1 =>
          let* h1 := run_loop (sv_fuel sv) (bwd_step m sv) (fst pos1) in
          Ok (mkit (h1, snd pos1) (it_full_limit sv))
      end.

(* first loop of successor: Done (inl pos) = return the iterator at pos, Done (inr pos) = fell out of the loop *)
Definition succ_step1 (m : mode) (sv : sparse) (parts_low : N) (pos : N * N) : res (step (N * N) ((N * N) + (N * N))) :=
  if fst pos <? bv_len (sv_high sv) then
    let* b := bv_get (sv_high sv) (fst pos) in
    if b then
      let* low := iv_get (sv_low sv) (snd pos) in
      if parts_low <=? low then Ok (Done (inl pos))
      else
        let* h := uadd m (fst pos) 1 in
        let* l := uadd m (snd pos) 1 in
        Ok (Continue (h, l))
    else Ok (Done (inr pos))
  else Ok (Done (inr pos)).

(* second loop: while pos.high < high.len() { if high.get(pos.high) { return } pos.high += 1 } *)
Definition succ_step2 (m : mode) (sv : sparse) (h : N) : res (step N (option N)) :=
  if h <? bv_len (sv_high sv) then
    let* b := bv_get (sv_high sv) h in
    if b then Ok (Done (Some h)) else let* h' := uadd m h 1 in Ok (Continue h')
  else Ok (Done None).

Definition sv_successor (sp : selpath) (m : mode) (sv : sparse) (value : N) : res sv_iter :=
  if sv_len sv <=? value then Ok (it_empty sv)
  else
    let* (ph, pl) := sv_split m sv value in
    let* pos := sv_lower_bound sp m sv ph in
    let* r := run_loop (sv_fuel sv) (succ_step1 m sv pl) pos in
    match r with
    | inl pos1 => Ok (mkit pos1 (it_full_limit sv))
    | inr pos1 =>
        let* r2 := run_loop (sv_fuel sv) (succ_step2 m sv) (fst pos1) in
        match r2 with
        | Some h => Ok (mkit (h, snd pos1) (it_full_limit sv))
        | None => Ok (it_empty sv)
        end
    end.

(* ---------------------------------------------------------------- the bit iterator *)

Definition sv_iter_new (m : mode) (sv : sparse) : res sbit_iter :=
  let* (it1, x) := it_next_f m sv (sv_one_iter sv) in
  let next_set := match x with Some (_, index) => Some index | None => None end in
  let* (it2, y) := it_next_back m sv it1 in
  let last_set := match y with Some (_, index) => Some index | None => next_set end in
  Ok (mksbi it2 0 next_set (sv_len sv) last_set).

(* for (_, index) in parent.by_ref() { if index > next { found; break } } *)
Definition skip_fwd_step (m : mode) (sv : sparse) (nxt : N) (it : sv_iter) : res (step sv_iter (sv_iter * option N)) :=
  let* (it', x) := it_next_f m sv it in
  match x with
  | None => Ok (Done (it', None))
  | Some (_, index) => if nxt <? index then Ok (Done (it', Some index)) else Ok (Continue it')
  end.

(* while let Some((_, index)) = parent.next_back() { if index < limit { found; break } } *)
Definition skip_bwd_step (m : mode) (sv : sparse) (lim : N) (it : sv_iter) : res (step sv_iter (sv_iter * option N)) :=
  let* (it', x) := it_next_back m sv it in
  match x with
  | None => Ok (Done (it', None))
  | Some (_, index) => if index <? lim then Ok (Done (it', Some index)) else Ok (Continue it')
  end.

Definition sbi_next_f (m : mode) (sv : sparse) (s : sbit_iter) : res (sbit_iter * option bool) :=
  if sbi_limit s <=? sbi_next s then Ok (s, None)
  else
    (* self.next += 1: next < limit *)
    match sbi_next_set s with
    | Some value =>
        if value =? sbi_next s then
          let* (it', found) := run_loop (sv_fuel sv) (skip_fwd_step m sv (sbi_next s)) (sbi_parent s) in
          let next_set := match found with Some i => Some i | None => sbi_last_set s end in
          Ok (mksbi it' (sbi_next s + 1) next_set (sbi_limit s) (sbi_last_set s), Some true)
        else Ok (mksbi (sbi_parent s) (sbi_next s + 1) (sbi_next_set s) (sbi_limit s) (sbi_last_set s), Some false)
    | None => Ok (mksbi (sbi_parent s) (sbi_next s + 1) None (sbi_limit s) (sbi_last_set s), Some false)
    end.

Definition sbi_next_back (m : mode) (sv : sparse) (s : sbit_iter) : res (sbit_iter * option bool) :=
  if sbi_limit s <=? sbi_next s then Ok (s, None)
  else
    (* self.limit -= 1: next < limit *)
    let lim := sbi_limit s - 1 in
    match sbi_last_set s with
    | Some value =>
        if value =? lim then
          let* (it', found) := run_loop (sv_fuel sv) (skip_bwd_step m sv lim) (sbi_parent s) in
          let last_set := match found with Some i => Some i | None => sbi_next_set s end in
          Ok (mksbi it' (sbi_next s) (sbi_next_set s) lim last_set, Some true)
        else Ok (mksbi (sbi_parent s) (sbi_next s) (sbi_next_set s) lim (sbi_last_set s), Some false)
    | None => Ok (mksbi (sbi_parent s) (sbi_next s) (sbi_next_set s) lim None, Some false)
    end.

Definition sbi_len (m : mode) (s : sbit_iter) : res N := usub m (sbi_limit s) (sbi_next s).

(* ---------------------------------------------------------------- is_multiset *)

(* let mut prev = self.len(); for (_, value) in self.one_iter() { if value == prev { return true } prev = value } false *)
Definition multi_step (m : mode) (sv : sparse) (st : sv_iter * N) : res (step (sv_iter * N) bool) :=
  let* (it', x) := it_next_f m sv (fst st) in
  match x with
  | None => Ok (Done false)
  | Some (_, value) => if value =? snd st then Ok (Done true) else Ok (Continue (it', value))
  end.

Definition sv_is_multiset (m : mode) (sv : sparse) : res bool :=
  run_loop (sv_fuel sv) (multi_step m sv) (sv_one_iter sv, sv_len sv).


(* ---------------------------------------------------------------- driving the iterators (what a caller observes) *)

(* `.next()` on a freshly returned iterator *)
Definition it_first (m : mode) (sv : sparse) (it : res sv_iter) : res (option (N * N)) :=
  let* i := it in let* (_, x) := it_next_f m sv i in Ok x.

(* `.take(k).collect()` *)
Fixpoint it_take (m : mode) (sv : sparse) (k : nat) (it : sv_iter) : res (list (N * N)) :=
  match k with
  | O => Ok []
  | S k' => let* (it', x) := it_next_f m sv it in
            match x with
            | None => Ok []
            | Some p => let* t := it_take m sv k' it' in Ok (p :: t)
            end
  end.
Fixpoint zi_take (m : mode) (sv : sparse) (k : nat) (z : zero_iter) : res (list (N * N)) :=
  match k with
  | O => Ok []
  | S k' => let* (z', x) := zi_next_f m sv z in
            match x with
            | None => Ok []
            | Some p => let* t := zi_take m sv k' z' in Ok (p :: t)
            end
  end.
(* a sequence of calls: false = next(), true = next_back() *)
Fixpoint it_drive (m : mode) (sv : sparse) (pat : list bool) (it : sv_iter) : res (list (option (N * N))) :=
  match pat with
  | [] => Ok []
  | b :: t => let* (it', x) := (if b then it_next_back m sv it else it_next_f m sv it) in
              let* r := it_drive m sv t it' in Ok (x :: r)
  end.
Fixpoint sbi_drive (m : mode) (sv : sparse) (pat : list bool) (s : sbit_iter) : res (list (option bool)) :=
  match pat with
  | [] => Ok []
  | b :: t => let* (s', x) := (if b then sbi_next_back m sv s else sbi_next_f m sv s) in
              let* r := sbi_drive m sv t s' in Ok (x :: r)
  end.

(* ---------------------------------------------------------------- Serialize *)

Definition sv_serialize (sv : sparse) : list N :=
  sv_len sv :: bv_serialize (sv_high sv) ++ iv_serialize (sv_low sv).
