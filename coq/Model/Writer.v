(* Model of the buffered file writers: src/raw_vector.rs `RawVectorWriter` and src/int_vector.rs
   `IntVectorWriter`. Follows the Rust control flow. No proofs here.

   The file is a list of 64-bit elements (every write of the writers is a whole number of elements: the
   header is a Vec<u64>, `serialize_body` of the buffer writes its words) together with the write position
   of the open handle. `seek(Start(0))` followed by a write overwrites in place. The content stays on
   the "disk" after the handle is gone (`file = None`). I/O always succeeds here (failures: property C14).

   Internal counters (`len`, positions) are exact N: they are bounded by the size of the file written. The
   caller-supplied buffer size goes through the mode-dependent arithmetic. *)
From Coq Require Import NArith List Bool.
Require Import SDS.Model.Mach SDS.Model.Bits SDS.Model.Raw SDS.Model.IntVec SDS.gen.Consts SDS.gen.Funs.
Import ListNotations.
Open Scope N_scope.

(* ---- the file ---- *)

(* write_all(ws) at element position [pos]: overwrites, extends at the end (a gap would be zero-filled) *)
Definition file_write (disk : list N) (pos : N) (ws : list N) : list N * N :=
  let p := N.to_nat pos in
  (firstn p disk ++ repeatN 0 (p - length disk) ++ ws ++ skipn (p + length ws) disk, pos + lenN ws).

(* ---- RawVectorWriter ---- *)

Record writer := mkw {
  wlen : N;               (* len: total bits pushed *)
  wbuf_len : N;           (* buf_len: flush threshold in bits *)
  wbuf : raw;             (* buf *)
  wpos : option N;        (* file: Some pos = open handle at element position pos; None = closed *)
  wdisk : list N          (* content of the file named `filename` *)
}.

Definition w_is_open (w : writer) : bool := match wpos w with Some _ => true | None => false end.

(* write_header: seek to 0, push (len, bits_to_words(len)) to the caller's header, write it.
   Returns the writer and the header as the caller sees it afterwards (it is a &mut Vec). *)
Definition w_write_header (w : writer) (header : list N) : writer * list N :=
  match wpos w with
  | Some _ =>
      let header' := header ++ [wlen w; bits_to_words (wlen w)] in
      let '(d, p) := file_write (wdisk w) 0 header' in
      (mkw (wlen w) (wbuf_len w) (wbuf w) (Some p) d, header')
  | None => (w, header)
  end.

(* OpenOptions create+write+truncate: an empty file, handle at 0 *)
Definition w_create (buf_len : N) (header : list N) : writer :=
  fst (w_write_header (mkw 0 buf_len (raw_with_capacity (buf_len + bits_WORD_BITS)) (Some 0) []) header).

(* RawVectorWriter::new *)
Definition w_new (header : list N) : writer := w_create writer_DEFAULT_BUFFER_SIZE header.

(* RawVectorWriter::with_buf_len: buf_len := max(round_up_to_word_bits(buf_len), WORD_BITS);
   the buffer is allocated with capacity buf_len + WORD_BITS *)
Definition w_with_buf_len (m : mode) (header : list N) (buf_len : N) : res writer :=
  let* r := f_round_up_to_word_bits m buf_len in
  let bl := N.max r bits_WORD_BITS in
  let* _cap := uadd m bl bits_WORD_BITS in
  Ok (w_create bl header).

(* flush(mode): safe = FlushMode::Safe, otherwise FlushMode::Final *)
Definition w_flush (safe : bool) (w : writer) : res writer :=
  match wpos w with
  | None => Ok w
  | Some pos =>
      let* (ov, buf1) :=
        if safe && (wbuf_len w <? rlen (wbuf w)) then
          let n := rlen (wbuf w) - wbuf_len w in
          let* v := raw_int (wbuf w) (wbuf_len w) n in
          let* b := raw_resize (wbuf w) (wbuf_len w) false in
          Ok ((v, n), b)
        else Ok ((0, 0), wbuf w) in
      (* buf.serialize_body(f): the words of the buffer *)
      let '(d, p) := file_write (wdisk w) pos (rdata buf1) in
      let buf2 := raw_clear buf1 in
      let* buf3 := if safe && (0 <? snd ov) then raw_push_int buf2 (fst ov) (snd ov) else Ok buf2 in
      Ok (mkw (wlen w) (wbuf_len w) buf3 (Some p) d)
  end.

(* close_with_header *)
Definition w_close_with_header (w : writer) (header : list N) : res writer :=
  if w_is_open w then
    let* w1 := w_flush false w in
    let '(w2, _) := w_write_header w1 header in
    Ok (mkw (wlen w2) (wbuf_len w2) (wbuf w2) None (wdisk w2))
  else Ok w.

(* close *)
Definition w_close (w : writer) : res writer := w_close_with_header w [].

(* Drop: `let _ = self.close();` *)
Definition w_drop (w : writer) : res writer := w_close w.

(* PushRaw::push_bit *)
Definition w_push_bit (w : writer) (value : bool) : res writer :=
  let* b := raw_push_bit (wbuf w) value in
  let w1 := mkw (wlen w + 1) (wbuf_len w) b (wpos w) (wdisk w) in
  if wbuf_len w1 <=? rlen (wbuf w1) then w_flush true w1 else Ok w1.

(* PushRaw::push_int *)
Definition w_push_int (w : writer) (value width : N) : res writer :=
  if width =? 0 then Ok w
  else
    let* b := raw_push_int (wbuf w) value width in
    let w1 := mkw (wlen w + width) (wbuf_len w) b (wpos w) (wdisk w) in
    if wbuf_len w1 <=? rlen (wbuf w1) then w_flush true w1 else Ok w1.

(* a push of either kind; the same operation applies to a RawVector in memory *)
Inductive wop := PBit (b : bool) | PInt (v width : N).

Definition w_step (w : writer) (o : wop) : res writer :=
  match o with PBit b => w_push_bit w b | PInt v width => w_push_int w v width end.
Fixpoint w_run (w : writer) (ops : list wop) : res writer :=
  match ops with [] => Ok w | o :: t => let* w' := w_step w o in w_run w' t end.

Definition mem_step (r : raw) (o : wop) : res raw :=
  match o with PBit b => raw_push_bit r b | PInt v width => raw_push_int r v width end.
Fixpoint mem_run (r : raw) (ops : list wop) : res raw :=
  match ops with [] => Ok r | o :: t => let* r' := mem_step r o in mem_run r' t end.

Definition op_bits (o : wop) : N := match o with PBit _ => 1 | PInt _ width => width end.
Definition ops_bits (ops : list wop) : N := fold_right (fun o acc => op_bits o + acc) 0 ops.

(* ---- IntVectorWriter ---- *)

Record iwriter := mkiw { iwlen : N; iwwidth : N; iww : writer }.

(* None = Err("Integer width must be 1 to 64 bits"); the header placeholder is vec![0, 0] *)
Definition iw_new (width : N) : option iwriter :=
  if (width =? 0) || (bits_WORD_BITS <? width) then None
  else Some (mkiw 0 width (w_new [0; 0])).

Definition iw_with_buf_len (m : mode) (width buf_len : N) : option (res iwriter) :=
  if (width =? 0) || (bits_WORD_BITS <? width) then None
  else Some (let* bits := umul m buf_len width in
             let* w := w_with_buf_len m [0; 0] bits in
             Ok (mkiw 0 width w)).

(* close: header = vec![len, width] *)
Definition iw_close (iw : iwriter) : res iwriter :=
  let* w := w_close_with_header (iww iw) [iwlen iw; iwwidth iw] in
  Ok (mkiw (iwlen iw) (iwwidth iw) w).

(* Push::push *)
Definition iw_push (iw : iwriter) (value : N) : res iwriter :=
  let* w := w_push_int (iww iw) value (iwwidth iw) in
  Ok (mkiw (iwlen iw + 1) (iwwidth iw) w).

(* Extend::extend: for value in iter { self.push(value) } *)
Fixpoint iw_extend (iw : iwriter) (xs : list N) : res iwriter :=
  match xs with [] => Ok iw | x :: t => let* iw' := iw_push iw x in iw_extend iw' t end.

(* Drop for IntVectorWriter: `let _ = self.close();`, after which the field `writer` is dropped too,
   which runs RawVectorWriter's own Drop (a close with an empty parent header) *)
Definition iw_drop (iw : iwriter) : res iwriter :=
  let* iw1 := iw_close iw in
  let* w := w_drop (iww iw1) in
  Ok (mkiw (iwlen iw1) (iwwidth iw1) w).
