(* SparseVector's impl of Serialize as a codec of the framework of Model/Ser.v (the way RLVector's is, rl_codec):
   header: len; body: high (a BitVector with whatever supports it carries), low (an IntVector). load reads the three
   fields, ENABLES select and select_zero on high (the data may come from a writer that cannot build them), and then
   makes the two sanity checks - the statements of SparseVector::load in the order of the Rust; it is the same
   function as [sparse_dec] of Model/SerComposite.v (Proofs/SerSparse.v: sparse_codec_dec), packaged with
   conv_codec so that the generic theorems (round trip, size, truncation, Option<T>, streams) apply.
   [sp] = the bits::select the loading binary uses while it builds the select supports. No proofs here. *)
From Coq Require Import String NArith List Bool.
Require Import SDS.Model.Mach SDS.Model.Bits SDS.Model.Raw SDS.Model.IntVec SDS.Model.BitVec SDS.Model.Ser.
Require Import SDS.Model.Sparse.
Require Import SDS.Spec.Stream.
Import ListNotations.
Open Scope N_scope.

(* SparseVector::load after the three fields are read *)
Definition sparse_from (sp : selpath) (m : mode) (p : N * (bitvec * intvec)) : io sparse :=
  let '(len, (high, low)) := p in
  let+ h1 := io_of_res (bv_enable_select_t sp m Identity high) in
  let+ h2 := io_of_res (bv_enable_select_t sp m Complement h1) in
  if negb (ilen low =? bv_count_ones h2) then IoErr InvalidData
  else
    let+ buckets := io_of_res (get_buckets len (iwidth low)) in
    let+ total := io_of_res (uadd m (ilen low) buckets) in
    if negb (bv_len h2 =? total) then IoErr InvalidData
    else IoOk (mksv len h2 low).

(* well-formed = the three fields are, and the loader applied to them returns this very record (supports included):
   true of every vector the builders produce (Proofs/SerSparse.v) *)
Definition sparse_codec (sp : selpath) (m : mode) : codec sparse :=
  conv_codec (seq_codec usize_codec (seq_codec (bv_codec m) (iv_codec m)))
             (fun v => (sv_len v, (sv_high v, sv_low v))) (sparse_from sp m).

Definition expected_SparseVector : layout := mklayout
  ["len:serialize"]%string ["high:serialize"; "low:serialize"]%string
  ["len=usize"; "high=BitVector"; "low=IntVector"]%string
  ["low.len() != high.count_ones()"; "high.len() != low.len() + SparseBuilder::get_buckets(len, low.width())"]%string
  ["len"; "high"; "low"]%string.
