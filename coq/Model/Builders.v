(* Models of the two incremental builders as state machines (property C16). No proofs here.

   RLBuilder (rl_vector.rs:310-508): fields len, ones, tail, run; the block encoding (samples, data) is
   abstracted to the list of runs that a decoder reads back: [flush] encodes the pair
   (run.0 - tail, run.1 - 1), which RunIter decodes as (tail + gap, code + 1); that decoded pair is what is
   appended to [bruns]. Every addition/subtraction of the Rust code is kept, in the build-mode dependent
   arithmetic of Model/Mach.v (the arguments of try_set/set_len are caller supplied).

   SparseBuilder (sparse_vector.rs:349-563): fields len, next, increment and the parameters universe /
   capacity; the Elias-Fano arrays (high, low) are abstracted to the list of positions written so far.
   A call returns the new state AND its result: a builder that panicked inside set()/extend() is still
   owned by the caller, so the state after a panic is part of the model. *)
From Coq Require Import NArith List Bool.
Require Import SDS.Model.Mach SDS.Spec.BuilderSpec.   (* BuilderSpec: only the call alphabets rlop / sctor / sop *)
Import ListNotations.
Open Scope N_scope.

(* Result<(), _> of a try_ call *)
Inductive outcome := Accepted | Rejected.

(* ------------------------------------------------------------------ RLBuilder *)

Record rlb := mkRL { blen : N; bones : N; btail : N; brun : N * N; bruns : list (N * N) }.

(* RLBuilder::default() *)
Definition rl_init : rlb := mkRL 0 0 0 (0, 0) [].

(* fn flush: `if self.run.1 <= 0 { return; }`, encode(run.0 - tail), encode(run.1 - 1),
   tail = run.0 + run.1, run = (len, 0) *)
Definition rl_flush (m : mode) (b : rlb) : res rlb :=
  if snd (brun b) <=? 0 then Ok b
  else
    let* gap := usub m (fst (brun b)) (btail b) in
    let* code := usub m (snd (brun b)) 1 in
    let* t := uadd m (fst (brun b)) (snd (brun b)) in
    Ok (mkRL (blen b) (bones b) t (blen b, 0) (bruns b ++ [(btail b + gap, code + 1)])).

(* unsafe fn set_run_unchecked *)
Definition rl_set_run (m : mode) (b : rlb) (start len : N) : res rlb :=
  if len <=? 0 then Ok b
  else if start =? blen b then
    let* n' := uadd m (blen b) len in
    let* o' := uadd m (bones b) len in
    let* r1 := uadd m (snd (brun b)) len in
    Ok (mkRL n' o' (btail b) (fst (brun b), r1) (bruns b))
  else
    let* b' := rl_flush m b in
    let* n' := uadd m start len in
    let* o' := uadd m (bones b') len in
    Ok (mkRL n' o' (btail b') (start, len) (bruns b')).

(* fn try_set: the two checks exactly as written, then set_run_unchecked *)
Definition rl_try_set (m : mode) (b : rlb) (start len : N) : res (rlb * outcome) :=
  if start <? blen b then Ok (b, Rejected)
  else
    let* room := usub m MAXU len in
    if room <? start then Ok (b, Rejected)
    else let* b' := rl_set_run m b start len in Ok (b', Accepted).

(* fn set_len, current code: the active run is reset to (len, 0) *)
Definition rl_set_len (m : mode) (b : rlb) (len : N) : res rlb :=
  if blen b <? len then
    let* b' := rl_flush m b in Ok (mkRL len (bones b') (btail b') (len, 0) (bruns b'))
  else Ok b.

(* fn set_len before the repair (finding F5): the active run was left alone. Kept only so that
   C16_rl_set_len_old_refuted can say what the theorems exclude. *)
Definition rl_set_len_old (m : mode) (b : rlb) (len : N) : res rlb :=
  if blen b <? len then
    let* b' := rl_flush m b in Ok (mkRL len (bones b') (btail b') (brun b') (bruns b'))
  else Ok b.

Definition rl_step_with (sl : mode -> rlb -> N -> res rlb) (m : mode) (b : rlb) (o : rlop) : res (rlb * outcome) :=
  match o with
  | TrySet s l => rl_try_set m b s l
  | SetLen n => let* b' := sl m b n in Ok (b', Accepted)
  end.
Definition rl_step := rl_step_with rl_set_len.

(* From<RLBuilder> for RLVector: flush, then (runs, len, ones) of the vector *)
Definition rl_finish (m : mode) (b : rlb) : res (list (N * N) * N * N) :=
  let* b' := rl_flush m b in Ok (bruns b', blen b', bones b').

(* len(), count_ones(), count_zeros() = len - ones, is_empty(), and the runs of RLVector::from(self.clone()) *)
Definition rl_obs (m : mode) (b : rlb) : res rl_obs_t :=
  let* z := usub m (blen b) (bones b) in
  let* f := rl_finish m b in
  Ok (blen b, bones b, z, blen b =? 0, fst (fst f)).

Fixpoint rl_run_with sl (m : mode) (b : rlb) (ops : list rlop) : res rlb :=
  match ops with
  | [] => Ok b
  | o :: t => let* (b', _) := rl_step_with sl m b o in rl_run_with sl m b' t
  end.
Definition rl_run := rl_run_with rl_set_len.

(* outcome and observables after every call *)
Fixpoint rl_trace (m : mode) (b : rlb) (ops : list rlop) : res (list (outcome * rl_obs_t)) :=
  match ops with
  | [] => Ok []
  | o :: t =>
    let* (b', out) := rl_step m b o in
    let* ob := rl_obs m b' in
    let* rest := rl_trace m b' t in
    Ok ((out, ob) :: rest)
  end.

(* ------------------------------------------------------------------ SparseBuilder *)

Record spb := mkSB { suniv : N; scap : N; sincr : N; slen : N; snext : N; spos : list N }.

(* SparseBuilder::new / ::multiset; None = Err("Number of set bits is greater than universe size").
   The allocation of the arrays is not modelled. *)
Definition sb_make (c : sctor) : option spb :=
  match c with
  | NewS universe ones => if universe <? ones then None else Some (mkSB universe ones 1 0 0 [])
  | MultisetS universe ones => Some (mkSB universe ones 0 0 0 [])
  end.

Definition sb_is_full (b : spb) : bool := slen b =? scap b.
Definition sb_is_multiset (b : spb) : bool := sincr b =? 0.

(* unsafe fn set_unchecked: write the position, `self.len += 1; self.next = index + self.increment;`
   (a panic in the second statement would leave the first one applied) *)
Definition sb_set_unchecked (m : mode) (b : spb) (index : N) : spb * res unit :=
  match uadd m (slen b) 1 with
  | Ok n' =>
    let b1 := mkSB (suniv b) (scap b) (sincr b) n' (snext b) (spos b ++ [index]) in
    match uadd m index (sincr b) with
    | Ok nx => (mkSB (suniv b) (scap b) (sincr b) n' nx (spos b ++ [index]), Ok tt)
    | Panic k => (b1, Panic k)
    | OOB s => (b1, OOB s)
    end
  | Panic k => (b, Panic k)
  | OOB s => (b, OOB s)
  end.

(* fn try_set: three checks, then set_unchecked *)
Definition sb_try_set (m : mode) (b : spb) (index : N) : spb * res outcome :=
  if sb_is_full b then (b, Ok Rejected)
  else if index <? snext b then (b, Ok Rejected)
  else if suniv b <=? index then (b, Ok Rejected)
  else let r := sb_set_unchecked m b index in (fst r, rmap (fun _ => Accepted) (snd r)).

(* fn set: try_set(index).unwrap() *)
Definition sb_set (m : mode) (b : spb) (index : N) : spb * res outcome :=
  let r := sb_try_set m b index in
  match snd r with
  | Ok Rejected => (fst r, Panic PUnwrap)
  | _ => r
  end.

(* Extend<usize>: `for index in iter { self.set(index); }` *)
Fixpoint sb_extend (m : mode) (b : spb) (l : list N) : spb * res outcome :=
  match l with
  | [] => (b, Ok Accepted)
  | i :: t =>
    let r := sb_set m b i in
    match snd r with
    | Ok _ => sb_extend m (fst r) t
    | _ => r
    end
  end.

Definition sb_step (m : mode) (b : spb) (o : sop) : spb * res outcome :=
  match o with
  | TrySetS i => sb_try_set m b i
  | SetS i => sb_set m b i
  | ExtendS l => sb_extend m b l
  end.

(* len(), capacity(), universe(), next_index(), is_full(), is_empty(), is_multiset() *)
Definition sb_obs (b : spb) : sp_obs_t :=
  (slen b, scap b, suniv b, snext b, sb_is_full b, slen b =? 0, sb_is_multiset b).

Fixpoint sb_run (m : mode) (b : spb) (ops : list sop) : spb :=
  match ops with [] => b | o :: t => sb_run m (fst (sb_step m b o)) t end.

Fixpoint sb_trace (m : mode) (b : spb) (ops : list sop) : list (res outcome * sp_obs_t) :=
  match ops with
  | [] => []
  | o :: t => let r := sb_step m b o in (snd r, sb_obs (fst r)) :: sb_trace m (fst r) t
  end.

(* TryFrom<SparseBuilder> for SparseVector: Err unless full; (len, count_ones, set positions) of the vector *)
Definition sb_finish (b : spb) : option (N * N * list N) :=
  if sb_is_full b then Some (suniv b, scap b, spos b) else None.
