(* Operation histories of RawVector / IntVector run through the models of Model/Raw.v and Model/IntVec.v.
   The operation and output types are those of the specification (Spec/SeqSpec.v). No proofs here. *)
From Coq Require Import NArith List Bool.
Require Import SDS.Model.Mach SDS.Model.Bits SDS.Model.Raw SDS.Model.IntVec SDS.Spec.SeqSpec.
Import ListNotations.
Open Scope N_scope.

Definition rstep (r : raw) (o : rop) : res (raw * out) :=
  match o with
  | RWithLen len value => let* r' := raw_with_len len value in Ok (r', ONone)
  | RResize n value => let* r' := raw_resize r n value in Ok (r', ONone)
  | RClear => Ok (raw_clear r, ONone)
  | RReserve a => Ok (raw_reserve r a, ONone)
  | RComplement => let* r' := raw_complement r in Ok (r', ONone)
  | RBit i => let* b := raw_bit r i in Ok (r, OBool b)
  | RInt off w => let* v := raw_int r off w in Ok (r, ONat v)
  | RSetBit i b => let* r' := raw_set_bit r i b in Ok (r', ONone)
  | RSetInt off v w => let* r' := raw_set_int r off v w in Ok (r', ONone)
  | RPushBit b => let* r' := raw_push_bit r b in Ok (r', ONone)
  | RPushInt v w => let* r' := raw_push_int r v w in Ok (r', ONone)
  | RPopBit => let* (r', o) := raw_pop_bit r in Ok (r', OOptBool o)
  | RPopInt w => let* (r', o) := raw_pop_int r w in Ok (r', OOptNat o)
  | RCountOnes => Ok (r, ONat (raw_count_ones r))
  end.

Fixpoint rrun (r : raw) (ops : list rop) : res (raw * list out) :=
  match ops with
  | [] => Ok (r, [])
  | o :: t =>
      let* (r1, x) := rstep r o in
      let* (r2, xs) := rrun r1 t in
      Ok (r2, x :: xs)
  end.

Definition istep (v : intvec) (o : iop) : res (intvec * out) :=
  match o with
  | IWithLen len w value =>
      match iv_with_len len w value with
      | Some r => let* v' := r in Ok (v', ONone)
      | None => Panic PUnwrap
      end
  | IFrom w xs => let* v' := iv_from w xs in Ok (v', ONone)
  | IGet i => let* x := iv_get v i in Ok (v, ONat x)
  | ISet i x => let* v' := iv_set v i x in Ok (v', ONone)
  | IPush x => let* v' := iv_push v x in Ok (v', ONone)
  | IPop => let* (v', o) := iv_pop v in Ok (v', OOptNat o)
  | IResize n x => let* v' := iv_resize v n x in Ok (v', ONone)
  | IClear => Ok (iv_clear v, ONone)
  | IReserve a => Ok (iv_reserve v a, ONone)
  | IPack => let* v' := iv_pack v in Ok (v', ONone)
  | IExtend xs => let* v' := iv_extend v xs in Ok (v', ONone)
  | ICountOnes => Ok (v, ONat (raw_count_ones (idata v)))
  end.

Fixpoint irun (v : intvec) (ops : list iop) : res (intvec * list out) :=
  match ops with
  | [] => Ok (v, [])
  | o :: t =>
      let* (v1, x) := istep v o in
      let* (v2, xs) := irun v1 t in
      Ok (v2, x :: xs)
  end.
