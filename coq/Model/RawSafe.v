(* The SAFE part of the RawVector API as a state machine (src/raw_vector.rs: with_len, resize, clear, reserve,
   complement, push_bit, pop_bit, set_bit, bit, word, count_ones; NOT the `unsafe fn` int / set_int / push_int /
   pop_int), run on arbitrary arguments.  A call that panics is caught by the caller and leaves the vector as it was:
   the only panicking calls are set_bit (the assertion is its first statement) and the read-only bit / word.
   Also: count_zeros / zero_iter as compiled (`self.len() - self.count_ones()` is a usize subtraction), used only
   to replay finding F13 on a vector that does NOT satisfy the invariant.  No proofs here. *)
From Coq Require Import NArith List Bool.
Require Import SDS.Model.Mach SDS.Model.Bits SDS.Model.Raw SDS.Model.BitVec.
Import ListNotations.
Open Scope N_scope.

Inductive sop :=
| SWithLen (len : N) (value : bool)
| SResize (n : N) (value : bool)
| SClear
| SReserve (additional : N)
| SComplement
| SPushBit (b : bool)
| SPopBit
| SSetBit (i : N) (b : bool)
| SBit (i : N)
| SWord (i : N)
| SCountOnes.

(* the state after the call (results are dropped) *)
Definition sstep (r : raw) (o : sop) : res raw :=
  match o with
  | SWithLen len value => raw_with_len len value
  | SResize n value => raw_resize r n value
  | SClear => Ok (raw_clear r)
  | SReserve a => Ok (raw_reserve r a)
  | SComplement => raw_complement r
  | SPushBit b => raw_push_bit r b
  | SPopBit => let* (r', _) := raw_pop_bit r in Ok r'
  | SSetBit i b => raw_set_bit r i b
  | SBit i => let* _ := raw_bit r i in Ok r
  | SWord i => let* _ := raw_word r i in Ok r
  | SCountOnes => Ok r
  end.

(* a history of calls; a call that does not return leaves the state unchanged *)
Fixpoint srun (r : raw) (ops : list sop) : raw :=
  match ops with
  | [] => r
  | o :: t => match sstep r o with Ok r' => srun r' t | _ => srun r t end
  end.

(* the same machine with set_bit as it was before the repair 7337be0 *)
Definition sstep_old (r : raw) (o : sop) : res raw :=
  match o with SSetBit i b => raw_set_bit_old r i b | _ => sstep r o end.
Fixpoint srun_old (r : raw) (ops : list sop) : raw :=
  match ops with
  | [] => r
  | o :: t => match sstep_old r o with Ok r' => srun_old r' t | _ => srun_old r t end
  end.

(* BitVector::zero_iter(): OneIter { next: (0, 0), limit: (self.count_zeros(), self.len()) } with
   count_zeros() = self.len() - self.count_ones() in the build's arithmetic *)
Definition zero_iter_w (m : mode) (b : bitvec) : res one_iter :=
  let* z := usub m (bv_len b) (bv_ones b) in Ok (mkoi (0, 0) (z, bv_len b)).
