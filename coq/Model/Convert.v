(* Conversions between the three bitvector types (src/support.rs): every `From<$source> for $target` is
   `$target::copy_bit_vec(&source)`, and every copy_bit_vec replays `source.len()` and the items of
   `source.one_iter()` into the target's builder. Definitions only; no proofs here.

   The targets' copy_bit_vec on (len, positions):
     BitVector     bv_copy             (Model/BitVec.v: zeros + set_bit per position)
     SparseVector  sv_copy             (Model/Sparse.v: SparseBuilder::new(len, |positions|) + set_unchecked + try_from)
     RLVector      rl_copy_bit_vec     (Model/RL.v: RLBuilder::new + set_bit_unchecked + set_len + from)
   and, over the abstract builder state machines of Model/Builders.v (block encoding / Elias-Fano arrays
   abstracted to the run list / the position list), the two definitions below. *)
From Coq Require Import NArith List Bool.
Require Import SDS.Model.Mach SDS.Model.Builders SDS.Spec.BuilderSpec SDS.Spec.BitSeq.
Import ListNotations.
Open Scope N_scope.

(* ---- RLVector::copy_bit_vec over the abstract RLBuilder ---- *)

(* `for (_, index) in source.one_iter() { builder.set_bit_unchecked(index) }`:
   set_bit_unchecked(index) = set_run_unchecked(index, 1), no checks *)
Fixpoint rl_set_bits (m : mode) (b : rlb) (ps : list N) : res rlb :=
  match ps with
  | [] => Ok b
  | p :: t => let* b' := rl_set_run m b p 1 in rl_set_bits m b' t
  end.

(* RLBuilder::new(); the loop; set_len(source.len()); RLVector::from: (runs, len, ones) of the vector *)
Definition rl_copy_abs (m : mode) (ps : list N) (len : N) : res (list (N * N) * N * N) :=
  let* b := rl_set_bits m rl_init ps in
  let* b' := rl_set_len m b len in
  rl_finish m b'.

(* ---- SparseVector::copy_bit_vec over the abstract SparseBuilder ---- *)

(* `for (_, index) in source.one_iter() { builder.set_unchecked(index) }` *)
Fixpoint sb_set_all_unchecked (m : mode) (b : spb) (ps : list N) : spb * res unit :=
  match ps with
  | [] => (b, Ok tt)
  | p :: t =>
    let r := sb_set_unchecked m b p in
    match snd r with
    | Ok _ => sb_set_all_unchecked m (fst r) t
    | _ => r
    end
  end.

(* SparseBuilder::new(source.len(), source.count_ones()).unwrap(); the loop; try_from(builder).unwrap():
   (len, count_ones, positions) of the vector *)
Definition sp_copy_abs (m : mode) (ps : list N) (len ones : N) : res (N * N * list N) :=
  match sb_make (NewS len ones) with
  | None => Panic PUnwrap
  | Some b0 =>
    let r := sb_set_all_unchecked m b0 ps in
    match snd r with
    | Ok _ => match sb_finish (fst r) with Some v => Ok v | None => Panic PUnwrap end
    | Panic k => Panic k
    | OOB s => OOB s
    end
  end.

(* ---- chains of conversions at the level of what every conversion reads and every target stores ---- *)

(* the three types *)
Inductive vtype := TBit | TSparse | TRL.

(* What one conversion step does with the (len, one_iter positions) it reads from its source: it builds the
   target from them, and the target's own (len, one_iter positions) are what the next step reads.
   [repr T len ps] is the content (length, set positions) of the structure of type T built by copy_bit_vec from
   (len, ps), as established by the per-target theorems: for every target it is (len, ps) again. A chain is a
   list of target types. *)
Definition content : Type := (N * list N)%type.
Definition content_of (B : list bool) : content := (lenB B, ones B).

(* the maximal runs of a bit sequence, starting to count positions at [pos] *)
Fixpoint runs_of_bits_from (B : list bool) (pos : N) : list (N * N) :=
  match B with
  | [] => []
  | false :: t => runs_of_bits_from t (pos + 1)
  | true :: t =>
    match runs_of_bits_from t (pos + 1) with
    | (s, l) :: rest => if s =? pos + 1 then (pos, l + 1) :: rest else (pos, 1) :: (s, l) :: rest
    | [] => [(pos, 1)]
    end
  end.
Definition runs_of_bits (B : list bool) : list (N * N) := runs_of_bits_from B 0.

(* builder calls that present a bit sequence *)
(* bit at a time, then set_len: what copy_bit_vec does, through the checked call *)
Definition ops_bits (B : list bool) : list rlop := map (fun p => TrySet p 1) (ones B) ++ [SetLen (lenB B)].
(* one call per maximal run, then set_len *)
Definition ops_runs (B : list bool) : list rlop :=
  map (fun r => TrySet (fst r) (snd r)) (runs_of_bits B) ++ [SetLen (lenB B)].
