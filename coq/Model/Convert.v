(* Conversions between the three bitvector types (src/support.rs): every `From<$source> for $target` is
   `$target::copy_bit_vec(&source)`, and every copy_bit_vec replays `source.len()` and the items of
   `source.one_iter()` into the target's builder. Definitions only; no proofs here.

   The targets' copy_bit_vec on (len, positions):
     BitVector     bv_copy             (Model/BitVec.v: zeros + set_bit per position)
     SparseVector  sv_copy             (Model/Sparse.v: SparseBuilder::new(len, |positions|) + set_unchecked + try_from)
     RLVector      rl_copy_bit_vec     (Model/RL.v: RLBuilder::new + set_bit_unchecked + set_len + from)
   and, over the abstract builder state machines of Model/Builders.v (block encoding / Elias-Fano arrays
   abstracted to the run list / the position list), the two definitions below. *)
From Coq Require Import NArith List Bool.
Require Import SDS.Model.Mach SDS.Model.Raw SDS.Model.BitVec SDS.Model.Builders SDS.Spec.BuilderSpec SDS.Spec.BitSeq.
Import ListNotations.
Open Scope N_scope.

(* ---- what a conversion reads from a BitVector source ---- *)

(* `source.one_iter()` collected: the positions (second components) of all items. The number of items is
   count_ones(), a number of set bits actually stored, so it is a legitimate nat fuel. *)
Definition bv_one_positions (b : bitvec) : res (list N) :=
  let* l := oi_collect Identity b (S (N.to_nat (bv_count_ones b))) (oi_start Identity b) in
  Ok (map snd l).

(* ---- RLVector::copy_bit_vec over the abstract RLBuilder ---- *)

(* `for (_, index) in source.one_iter() { builder.set_bit_unchecked(index) }`:
   set_bit_unchecked(index) = set_run_unchecked(index, 1), no checks *)
Fixpoint rl_set_bits (m : mode) (b : rlb) (ps : list N) : res rlb :=
  match ps with
  | [] => Ok b
  | p :: t => let* b' := rl_set_run m b p 1 in rl_set_bits m b' t
  end.

(* RLBuilder::new(); the loop; set_len(source.len()); RLVector::from: (runs, len, ones) of the vector *)
Definition rl_copy_abs (m : mode) (ps : list N) (len : N) : res (list (N * N) * N * N) :=
  let* b := rl_set_bits m rl_init ps in
  let* b' := rl_set_len m b len in
  rl_finish m b'.

(* ---- SparseVector::copy_bit_vec over the abstract SparseBuilder ---- *)

(* `for (_, index) in source.one_iter() { builder.set_unchecked(index) }` *)
Fixpoint sb_set_all_unchecked (m : mode) (b : spb) (ps : list N) : spb * res unit :=
  match ps with
  | [] => (b, Ok tt)
  | p :: t =>
    let r := sb_set_unchecked m b p in
    match snd r with
    | Ok _ => sb_set_all_unchecked m (fst r) t
    | _ => r
    end
  end.

(* SparseBuilder::new(source.len(), source.count_ones()).unwrap(); the loop; try_from(builder).unwrap():
   (len, count_ones, positions) of the vector *)
Definition sp_copy_abs (m : mode) (ps : list N) (len ones : N) : res (N * N * list N) :=
  match sb_make (NewS len ones) with
  | None => Panic PUnwrap
  | Some b0 =>
    let r := sb_set_all_unchecked m b0 ps in
    match snd r with
    | Ok _ => match sb_finish (fst r) with Some v => Ok v | None => Panic PUnwrap end
    | Panic k => Panic k
    | OOB s => OOB s
    end
  end.

(* the maximal runs of a bit sequence, starting to count positions at [pos] *)
Fixpoint runs_of_bits_from (B : list bool) (pos : N) : list (N * N) :=
  match B with
  | [] => []
  | false :: t => runs_of_bits_from t (pos + 1)
  | true :: t =>
    match runs_of_bits_from t (pos + 1) with
    | (s, l) :: rest => if s =? pos + 1 then (pos, l + 1) :: rest else (pos, 1) :: (s, l) :: rest
    | [] => [(pos, 1)]
    end
  end.
Definition runs_of_bits (B : list bool) : list (N * N) := runs_of_bits_from B 0.

(* builder calls that present a bit sequence *)
(* bit at a time, then set_len: what copy_bit_vec does, through the checked call *)
Definition ops_bits (B : list bool) : list rlop := map (fun p => TrySet p 1) (ones B) ++ [SetLen (lenB B)].
(* one call per maximal run, then set_len *)
Definition ops_runs (B : list bool) : list rlop :=
  map (fun r => TrySet (fst r) (snd r)) (runs_of_bits B) ++ [SetLen (lenB B)].

(* ---- chains of conversions ---- *)

(* the three types; the run-length and sparse vectors at the abstraction level of Model/Builders.v:
   (runs, len, ones) and (len, ones, positions) *)
Inductive vtype := TBit | TSparse | TRL.
Inductive vec :=
| VB (b : bitvec)
| VS (v : N * N * list N)
| VR (v : list (N * N) * N * N).

Definition type_of (x : vec) : vtype := match x with VB _ => TBit | VS _ => TSparse | VR _ => TRL end.

(* what `copy_bit_vec(&source)` reads from its source: len(), count_ones() and the positions of one_iter().
   BitVector: the model's iterator. Sparse (abstract): the stored positions. Run-length (abstract): the
   increasing list of the positions covered by the runs; it is given by its specification (the iterator of the
   concrete RLVector is the subject of C03), and never materialised from a run length. *)
Definition reads (x : vec) (n o : N) (ps : list N) : Prop :=
  match x with
  | VB b => bv_len b = n /\ bv_count_ones b = o /\ bv_one_positions b = Ok ps
  | VS v => v = (n, o, ps)
  | VR v => snd (fst v) = n /\ snd v = o /\ chain N.lt ps /\
            forall p, existsb (N.eqb p) ps = in_runs (fst (fst v)) p
  end.

(* `$target::copy_bit_vec` on what was read *)
Definition copy_to (m : mode) (t : vtype) (n o : N) (ps : list N) : res vec :=
  match t with
  | TBit => rmap VB (bv_copy n ps)
  | TSparse => rmap VS (sp_copy_abs m ps n o)
  | TRL => rmap VR (rl_copy_abs m ps n)
  end.

(* one conversion `$target::from(source)` = `$target::copy_bit_vec(&source)` *)
Definition converts (m : mode) (t : vtype) (x y : vec) : Prop :=
  exists n o ps, reads x n o ps /\ copy_to m t n o ps = Ok y.

(* x converted to ts[0], the result to ts[1], ... *)
Inductive chain_conv (m : mode) : list vtype -> vec -> vec -> Prop :=
| cc_nil x : chain_conv m [] x x
| cc_cons t ts x y z : converts m t x y -> chain_conv m ts y z -> chain_conv m (t :: ts) x z.
