(* Model of the SAFE public entry points of the plain bitvector's helper objects that a caller can reach
   directly, with ANY arguments and with a parent bitvector different from the one a support was built for:
     src/bit_vector.rs                  Transformation::{bit, word} of Identity and Complement
     src/bit_vector/rank_support.rs     RankSupport::rank            (bounds-checked indexing)
     src/bit_vector/select_support.rs   SelectSupport::<T>::select   (IntVector::get + the scan over T::word)
   Follows the Rust control flow; a bounds-checked access that misses is Panic PIndex, IntVector::get's assertion is
   Panic PAssert, an unchecked access that misses is OOB. Arithmetic on values read from a support (which need not
   belong to the parent) is uadd in the build's mode. No proofs here.
   (count_ones / one_iter of a transformation, `blocks`, `superblocks`, `long_superblocks`, `short_superblocks`
   and the two builders are already in Model/BitVec.v: t_count_ones, oi_start, rs_blocks, ss_*superblocks,
   rank_new, select_new.) *)
From Coq Require Import NArith List Bool.
Require Import SDS.Model.Mach SDS.Model.Bits SDS.Model.Raw SDS.Model.IntVec SDS.Model.BitVec SDS.gen.Consts.
Import ListNotations.
Open Scope N_scope.

(* Identity::bit = parent.get(index); Complement::bit = !parent.get(index) *)
Definition t_bit (t : transf) (b : bitvec) (index : N) : res bool :=
  match t with
  | Identity => bv_get b index
  | Complement => let* x := bv_get b index in Ok (negb x)
  end.

(* Identity::word = parent.data.word(index)  (`self.data[index]`)
   Complement::word:
     let (last_index, offset) = bits::split_offset(parent.len());
     if index >= last_index { (!parent.data.word(index)) & unsafe { bits::low_set_unchecked(offset) } }
     else { unsafe { !parent.data.word_unchecked(index) } } *)
Definition t_word (t : transf) (b : bitvec) (index : N) : res N :=
  match t with
  | Identity => raw_word (bv_data b) index
  | Complement =>
      let '(last_index, offset) := split_offset (bv_len b) in
      if last_index <=? index then
        let* w := raw_word (bv_data b) index in
        let* ls := low_set_unchecked offset in Ok (N.land (wnot w) ls)
      else
        let* w := raw_word_unchecked (bv_data b) index in Ok (wnot w)
  end.

(* NOT the code: Complement::word with the test narrowed to `index >= last_index && offset > 0`. Kept only to show
   that the theorems about [t_word] are about this very branch (Props/C08_objects.v, C08_obj_word_narrowed_refuted). *)
Definition t_word_mut (t : transf) (b : bitvec) (index : N) : res N :=
  match t with
  | Identity => raw_word (bv_data b) index
  | Complement =>
      let '(last_index, offset) := split_offset (bv_len b) in
      if (last_index <=? index) && (0 <? offset) then
        let* w := raw_word (bv_data b) index in
        let* ls := low_set_unchecked offset in Ok (N.land (wnot w) ls)
      else
        let* w := raw_word_unchecked (bv_data b) index in Ok (wnot w)
  end.

(* RankSupport::rank(&self, parent, index):
     let block = index / BLOCK_SIZE; let (word, offset) = bits::split_offset(index);
     let (block_start, relative_ranks) = self.samples[block];
     let relative = (word + WORDS_PER_BLOCK - 1) & WORD_MASK;       (word < 2^58: cannot overflow)
     let word_start = (relative_ranks >> (relative * 9)) as usize & RELATIVE_RANK_MASK;   (shift <= 63)
     let within_word = (parent.data.word(word) & low_set_unchecked(offset)).count_ones() as usize;
     block_start as usize + word_start + within_word *)
Definition rank_checked (m : mode) (rs : rank_support) (b : bitvec) (index : N) : res N :=
  let block := index / rank_BLOCK_SIZE in
  let '(word, offset) := split_offset index in
  let* (block_start, rel) := idx (rs_samples rs) block in
  let relative := N.land (word + rank_WORDS_PER_BLOCK - 1) rank_WORD_MASK in
  let word_start := N.land (N.shiftr rel (relative * rank_RELATIVE_RANK_BITS)) rank_RELATIVE_RANK_MASK in
  let* w := raw_word (bv_data b) word in
  let* ls := low_set_unchecked offset in
  let* s := uadd m block_start word_start in
  uadd m s (popcount (N.land w ls)).

(* loop { ones = value.count_ones(); if ones > rr { result = bit_offset(word, select(value, rr)); break }
          rr -= ones; word += 1; value = T::word(parent, word) }
   `word` is below the number of words whenever T::word returned, so `word += 1` and bit_offset cannot overflow *)
Fixpoint select_scan_checked (sp : selpath) (m : mode) (t : transf) (b : bitvec) (fuel : nat) (word value rr : N)
  : res N :=
  match fuel with
  | O => Panic PFuel
  | S k =>
      let ones := popcount value in
      if rr <? ones then
        let* off := word_select sp m value rr in Ok (bit_offset word off)
      else
        let* v' := t_word t b (word + 1) in
        select_scan_checked sp m t b k (word + 1) v' (rr - ones)
  end.

(* SelectSupport::<T>::select(&self, parent, rank). `2 * superblock (+ 1)` <= 2^53 and `ptr + offset`
   (ptr = a u64 / 2, offset < 4096) cannot overflow; `result += ..get(..) as usize` can when the support holds
   values that do not belong to this parent: uadd *)
Definition select_checked (sp : selpath) (m : mode) (t : transf) (s : select_support) (b : bitvec) (rank : N) : res N :=
  let superblock := rank / select_SUPERBLOCK_SIZE in
  let offset := N.land rank select_SUPERBLOCK_MASK in
  let* result := iv_get (ss_samples s) (2 * superblock) in
  if offset =? 0 then Ok result
  else
    let* p := iv_get (ss_samples s) (2 * superblock + 1) in
    let ptr := p / 2 in
    if N.land p 1 =? 0 then
      let* d := iv_get (ss_long s) (ptr + offset) in uadd m result d
    else
      let block := offset / select_BLOCK_SIZE in
      let rr := N.land offset select_BLOCK_MASK in
      let* d := iv_get (ss_short s) (ptr + block) in
      let* result := uadd m result d in
      if 0 <? rr then
        let '(word, word_offset) := split_offset result in
        let* w0 := t_word t b word in
        let* ls := low_set_unchecked word_offset in
        select_scan_checked sp m t b (scan_fuel b) word (N.land w0 (wnot ls)) rr
      else Ok result.

(* the same query through the narrowed Complement::word (for the refutation example only) *)
Fixpoint select_scan_mut (sp : selpath) (m : mode) (t : transf) (b : bitvec) (fuel : nat) (word value rr : N)
  : res N :=
  match fuel with
  | O => Panic PFuel
  | S k =>
      let ones := popcount value in
      if rr <? ones then
        let* off := word_select sp m value rr in Ok (bit_offset word off)
      else
        let* v' := t_word_mut t b (word + 1) in
        select_scan_mut sp m t b k (word + 1) v' (rr - ones)
  end.

Definition select_checked_mut (sp : selpath) (m : mode) (t : transf) (s : select_support) (b : bitvec) (rank : N) : res N :=
  let superblock := rank / select_SUPERBLOCK_SIZE in
  let offset := N.land rank select_SUPERBLOCK_MASK in
  let* result := iv_get (ss_samples s) (2 * superblock) in
  if offset =? 0 then Ok result
  else
    let* p := iv_get (ss_samples s) (2 * superblock + 1) in
    let ptr := p / 2 in
    if N.land p 1 =? 0 then
      let* d := iv_get (ss_long s) (ptr + offset) in uadd m result d
    else
      let block := offset / select_BLOCK_SIZE in
      let rr := N.land offset select_BLOCK_MASK in
      let* d := iv_get (ss_short s) (ptr + block) in
      let* result := uadd m result d in
      if 0 <? rr then
        let '(word, word_offset) := split_offset result in
        let* w0 := t_word_mut t b word in
        let* ls := low_set_unchecked word_offset in
        select_scan_mut sp m t b (scan_fuel b) word (N.land w0 (wnot ls)) rr
      else Ok result.
