(* The safe IntVector API as a state machine: the operations [iop] of Spec/SeqSpec.v run by [istep] (Model/Hist.v)
   - with_len(..).unwrap(), From<Vec<uW>>, get, set, push, pop, resize, clear, reserve, pack, extend, count_ones of
   the raw vector - on arbitrary arguments.  A call that panics is caught by the caller and leaves the vector as it
   was (get / set assert the index before anything is touched; with_len(..).unwrap() builds a new vector or panics).
   No proofs here. *)
From Coq Require Import NArith List Bool.
Require Import SDS.Model.Mach SDS.Model.Bits SDS.Model.Raw SDS.Model.IntVec SDS.Spec.SeqSpec SDS.Model.Hist.
Import ListNotations.
Open Scope N_scope.

(* From<Vec<u8 / u16 / u32 / u64 / usize>> exists for the element widths 8, 16, 32 and 64 only; [IFrom] carries the
   width as a number, and only widths a vector can have are calls of the safe API *)
Definition iop_safe (o : iop) : Prop :=
  match o with
  | IFrom w _ => 1 <= w <= 64
  | _ => True
  end.

(* a history of calls; a call that does not return leaves the state unchanged *)
Fixpoint isrun (v : intvec) (ops : list iop) : intvec :=
  match ops with
  | [] => v
  | o :: t => match istep v o with Ok (v', _) => isrun v' t | _ => isrun v t end
  end.

(* From<IntVector> for RawVector: `source.data` *)
Definition raw_of_iv (v : intvec) : raw := idata v.
