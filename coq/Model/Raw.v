(* Model of src/raw_vector.rs: RawVector over a list of 64-bit words. Follows the Rust control flow.
   Lengths are bounded by real memory here, so N.to_nat on word counts is harmless. No proofs. *)
From Coq Require Import NArith List Bool.
Require Import SDS.Model.Mach SDS.Model.Bits SDS.gen.Consts.
Import ListNotations.
Open Scope N_scope.

Record raw := mkraw { rlen : N; rdata : list N }.

Definition raw_new : raw := mkraw 0 [].

(* Vec::resize(n, x) *)
Definition vec_resize (l : list N) (n : N) (x : N) : list N :=
  firstn (N.to_nat n) l ++ repeatN x (N.to_nat n - length l).

Definition sum_pop (ws : list N) : N := fold_right (fun w acc => popcount w + acc) 0 ws.
Definition raw_count_ones (r : raw) : N := sum_pop (rdata r).

(* set the unused bits of the last word *)
Definition set_unused_bits (r : raw) (value : bool) : res raw :=
  let '(index, width) := split_offset (rlen r) in
  if 0 <? width then
    let* ls := low_set width in
    let* w := idx (rdata r) index in
    let w' := if value then N.lor w (wnot ls) else N.land w ls in
    let* d := upd (rdata r) index w' in
    Ok (mkraw (rlen r) d)
  else Ok r.

Definition raw_with_len (len : N) (value : bool) : res raw :=
  set_unused_bits (mkraw len (repeatN (filler_value value) (N.to_nat (bits_to_words len)))) false.

Definition raw_with_capacity (capacity : N) : raw := raw_new.

Definition raw_complement (r : raw) : res raw :=
  set_unused_bits (mkraw (rlen r) (map wnot (rdata r))) false.

Definition raw_resize (r : raw) (new_len : N) (value : bool) : res raw :=
  let* r1 := if rlen r <? new_len then set_unused_bits r value else Ok r in
  let d := vec_resize (rdata r1) (bits_to_words new_len) (filler_value value) in
  set_unused_bits (mkraw new_len d) false.

Definition raw_clear (r : raw) : raw := raw_new.

(* reserve() only changes the capacity of the Vec, which is not part of the modelled state *)
Definition raw_reserve (r : raw) (additional : N) : raw := r.

(* AccessRaw *)
Definition raw_bit (r : raw) (bo : N) : res bool :=
  let '(index, offset) := split_offset bo in
  let* w := idx (rdata r) index in
  Ok (N.land (N.shiftr w offset) 1 =? 1).

Definition raw_int (r : raw) (bo width : N) : res N :=
  if width =? 0 then Ok 0 else read_int (rdata r) bo width.

Definition raw_word (r : raw) (i : N) : res N := idx (rdata r) i.
Definition raw_word_unchecked (r : raw) (i : N) : res N := idx_unchecked SITE_RAW_WORD (rdata r) i.

(* the body of set_bit: only the word index is bounds-checked (`self.data[index]`) *)
Definition raw_set_bit_body (r : raw) (bo : N) (value : bool) : res raw :=
  let '(index, offset) := split_offset bo in
  let* w := idx (rdata r) index in
  let w1 := N.land w (wnot (N.shiftl 1 offset)) in
  let w2 := N.lor w1 (N.shiftl (if value then 1 else 0) offset) in
  let* d := upd (rdata r) index w2 in
  Ok (mkraw (rlen r) d).

(* `assert!(bit_offset < self.len(), ..)` first (repair 7337be0, finding F13): an offset in the unused part of the
   last word is refused instead of leaving a set bit beyond len *)
Definition raw_set_bit (r : raw) (bo : N) (value : bool) : res raw :=
  if bo <? rlen r then raw_set_bit_body r bo value else Panic PAssert.

(* set_bit as it was before the repair; kept only for C08_set_bit_old_refuted *)
Definition raw_set_bit_old (r : raw) (bo : N) (value : bool) : res raw := raw_set_bit_body r bo value.

Definition raw_set_int (r : raw) (bo value width : N) : res raw :=
  if width =? 0 then Ok r
  else let* d := write_int (rdata r) bo value width in Ok (mkraw (rlen r) d).

(* PushRaw *)
Definition raw_push_bit (r : raw) (value : bool) : res raw :=
  let '(index, offset) := split_offset (rlen r) in
  let d0 := if index =? lenN (rdata r) then rdata r ++ [0] else rdata r in
  let* w := idx d0 index in
  let* d := upd d0 index (N.lor w (N.shiftl (if value then 1 else 0) offset)) in
  Ok (mkraw (rlen r + 1) d).

Definition raw_push_int (r : raw) (value width : N) : res raw :=
  if width =? 0 then Ok r
  else
    let d0 := if words_to_bits (lenN (rdata r)) <? rlen r + width then rdata r ++ [0] else rdata r in
    let* d := write_int d0 (rlen r) value width in
    Ok (mkraw (rlen r + width) d).

(* PopRaw *)
Definition raw_pop_bit (r : raw) : res (raw * option bool) :=
  if rlen r =? 0 then Ok (r, None)
  else
    let* b := raw_bit r (rlen r - 1) in
    let len' := rlen r - 1 in
    let* r' := set_unused_bits (mkraw len' (vec_resize (rdata r) (bits_to_words len') 0)) false in
    Ok (r', Some b).

Definition raw_pop_int (r : raw) (width : N) : res (raw * option N) :=
  if width <=? rlen r then
    if width =? 0 then Ok (r, Some 0)
    else
      let* v := raw_int r (rlen r - width) width in
      let len' := rlen r - width in
      let* r' := set_unused_bits (mkraw len' (vec_resize (rdata r) (bits_to_words len') 0)) false in
      Ok (r', Some v)
  else Ok (r, None).

(* derived PartialEq on (len, data) *)
Definition raw_eqb (a b : raw) : bool :=
  (rlen a =? rlen b) &&
  (fix eq (l1 l2 : list N) : bool :=
     match l1, l2 with
     | [], [] => true
     | x :: t, y :: u => (x =? y) && eq t u
     | _, _ => false
     end) (rdata a) (rdata b).

(* Serialize: elements written = [len; |data|] ++ data *)
Definition raw_serialize (r : raw) : list N := rlen r :: lenN (rdata r) :: rdata r.
Definition raw_size_in_elements (r : raw) : N := 2 + lenN (rdata r).
Definition raw_size_by_params (capacity : N) : N := 2 + bits_to_words capacity.
