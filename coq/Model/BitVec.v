(* Model of src/bit_vector.rs, src/bit_vector/rank_support.rs, src/bit_vector/select_support.rs:
   plain bitvector with rank9-style rank support and two-level select support, the word-scanning
   set-bit iterator OneIter<T> and the bit iterator. Follows the Rust control flow; unchecked accesses
   return OOB when they miss; loops carry fuel derived from the data length. No proofs here. *)
From Coq Require Import NArith List Bool.
Require Import SDS.Model.Mach SDS.Model.Bits SDS.Model.Raw SDS.Model.IntVec SDS.gen.Consts.
Import ListNotations.
Open Scope N_scope.

(* which implementation of bits::select the build uses *)
Inductive selpath := Pdep | Portable.
Definition word_select (sp : selpath) (m : mode) (n r : N) : res N :=
  match sp with Pdep => select_pdep m n r | Portable => select_portable m n r end.

Record rank_support := mkrs { rs_samples : list (N * N) }.
Record select_support := mkss { ss_samples : intvec; ss_long : intvec; ss_short : intvec }.

Record bitvec := mkbv {
  bv_ones : N;
  bv_data : raw;
  bv_rank : option rank_support;
  bv_select : option select_support;
  bv_select_zero : option select_support
}.

Definition bv_len (b : bitvec) : N := rlen (bv_data b).
Definition bv_count_ones (b : bitvec) : N := bv_ones b.
(* BitVec::count_zeros default: len - count_ones (cannot underflow for a well-formed vector) *)
Definition bv_count_zeros (b : bitvec) : N := bv_len b - bv_ones b.
Definition bv_get (b : bitvec) (i : N) : res bool := raw_bit (bv_data b) i.

(* From<RawVector> *)
Definition bv_from_raw (r : raw) : bitvec := mkbv (raw_count_ones r) r None None None.

(* FromIterator<bool> *)
Fixpoint push_bits (r : raw) (bs : list bool) : res raw :=
  match bs with
  | [] => Ok r
  | b :: t => let* r' := raw_push_bit r b in push_bits r' t
  end.
Definition bv_from_bits (bs : list bool) : res bitvec :=
  let* r := push_bits raw_new bs in Ok (bv_from_raw r).

(* copy_bit_vec: zeros, then set_bit for every position yielded by the source's one_iter *)
Fixpoint set_positions (r : raw) (ps : list N) : res raw :=
  match ps with
  | [] => Ok r
  | p :: t => let* r' := raw_set_bit r p true in set_positions r' t
  end.
Definition bv_copy (len : N) (positions : list N) : res bitvec :=
  let* r0 := raw_with_len len false in
  let* r := set_positions r0 positions in
  Ok (bv_from_raw r).

(* ---------------------------------------------------------------- rank support *)

(* inner loop of RankSupport::new over the words of one block *)
Fixpoint rank_words (data : list N) (base : N) (n : nat) (j bo rel : N) : res (N * N) :=
  match n with
  | O => Ok (bo, rel)
  | S k =>
      let* w := idx data (base + j) in
      let bo' := bo + popcount w in
      rank_words data base k (j + 1) bo' (N.lor rel (wrap (N.shiftl bo' (j * rank_RELATIVE_RANK_BITS))))
  end.

Fixpoint rank_blocks (data : list N) (words : N) (n : nat) (block ones : N) : res (list (N * N)) :=
  match n with
  | O => Ok []
  | S k =>
      let bw := N.min rank_WORDS_PER_BLOCK (words - block * rank_WORDS_PER_BLOCK) in
      let* (bo, rel) := rank_words data (block * rank_WORDS_PER_BLOCK) (N.to_nat bw) 0 0 0 in
      let* ls := low_set ((rank_WORDS_PER_BLOCK - 1) * rank_RELATIVE_RANK_BITS) in
      let* rest := rank_blocks data words k (block + 1) (ones + bo) in
      Ok ((ones, N.land rel ls) :: rest)
  end.

Definition rank_new (b : bitvec) : res rank_support :=
  let len := bv_len b in
  let words := bits_to_words len in
  let blocks := (len + rank_BLOCK_SIZE - 1) / rank_BLOCK_SIZE in
  let* s := rank_blocks (rdata (bv_data b)) words (N.to_nat blocks) 0 0 in
  Ok (mkrs s).

Definition rs_blocks (rs : rank_support) : N := lenN (rs_samples rs).

Definition rank_unchecked (rs : rank_support) (b : bitvec) (index : N) : res N :=
  let block := index / rank_BLOCK_SIZE in
  let '(word, offset) := split_offset index in
  let* (block_start, rel) := idx_unchecked SITE_RANK_SAMPLE (rs_samples rs) block in
  let relative := N.land (N.land word rank_WORD_MASK + rank_WORDS_PER_BLOCK - 1) rank_WORD_MASK in
  let word_start := N.land (N.shiftr rel (relative * rank_RELATIVE_RANK_BITS)) rank_RELATIVE_RANK_MASK in
  let* w := raw_word_unchecked (bv_data b) word in
  let* ls := low_set_unchecked offset in
  Ok (block_start + word_start + popcount (N.land w ls)).

Definition bv_enable_rank (b : bitvec) : res bitvec :=
  match bv_rank b with
  | Some _ => Ok b
  | None => let* rs := rank_new b in
            Ok (mkbv (bv_ones b) (bv_data b) (Some rs) (bv_select b) (bv_select_zero b))
  end.

Definition bv_rank_q (b : bitvec) (index : N) : res N :=
  if bv_len b <=? index then Ok (bv_count_ones b)
  else match bv_rank b with
       | None => Panic PUnwrap
       | Some rs => rank_unchecked rs b index
       end.

(* Rank::rank_zero default: index - rank(index) *)
Definition bv_rank_zero (m : mode) (b : bitvec) (index : N) : res N :=
  let* r := bv_rank_q b index in usub m index r.

(* ---------------------------------------------------------------- transformations *)

Inductive transf := Identity | Complement.

Definition t_count_ones (t : transf) (b : bitvec) : N :=
  match t with Identity => bv_count_ones b | Complement => bv_count_zeros b end.

Definition t_word_unchecked (t : transf) (b : bitvec) (index : N) : res N :=
  match t with
  | Identity => raw_word_unchecked (bv_data b) index
  | Complement =>
      let '(last_index, offset) := split_offset (bv_len b) in
      let* w := raw_word_unchecked (bv_data b) index in
      if last_index <=? index then
        let* ls := low_set_unchecked offset in Ok (N.land (wnot w) ls)
      else Ok (wnot w)
  end.

(* ---------------------------------------------------------------- OneIter<T> *)

Record one_iter := mkoi { oi_next : N * N; oi_limit : N * N }.

Definition oi_start (t : transf) (b : bitvec) : one_iter :=
  mkoi (0, 0) (t_count_ones t b, bv_len b).
Definition oi_empty (t : transf) (b : bitvec) : one_iter :=
  mkoi (t_count_ones t b, bv_len b) (t_count_ones t b, bv_len b).

Definition scan_fuel (b : bitvec) : nat := S (S (length (rdata (bv_data b)))).

(* while word == 0 { index += 1; word = word_unchecked(index) } *)
Fixpoint scan_fwd (t : transf) (b : bitvec) (fuel : nat) (index word : N) : res (N * N) :=
  match fuel with
  | O => Panic PFuel
  | S k => if word =? 0 then
             let* w := t_word_unchecked t b (index + 1) in scan_fwd t b k (index + 1) w
           else Ok (index, word)
  end.

(* while word == 0 { index -= 1; word = word_unchecked(index) } *)
Fixpoint scan_bwd (m : mode) (t : transf) (b : bitvec) (fuel : nat) (index word : N) : res (N * N) :=
  match fuel with
  | O => Panic PFuel
  | S k => if word =? 0 then
             let* i' := usub m index 1 in
             let* w := t_word_unchecked t b i' in scan_bwd m t b k i' w
           else Ok (index, word)
  end.

(* while ones <= relative_rank { index += 1; word = ..; relative_rank -= ones; ones = word.count_ones() } *)
Fixpoint scan_rank (t : transf) (b : bitvec) (fuel : nat) (index word rr : N) : res (N * N * N) :=
  match fuel with
  | O => Panic PFuel
  | S k => let ones := popcount word in
           if ones <=? rr then
             let* w := t_word_unchecked t b (index + 1) in scan_rank t b k (index + 1) w (rr - ones)
           else Ok (index, word, rr)
  end.

Definition oi_next_f (t : transf) (b : bitvec) (it : one_iter) : res (one_iter * option (N * N)) :=
  if fst (oi_limit it) <=? fst (oi_next it) then Ok (it, None)
  else
    let '(index, offset) := split_offset (snd (oi_next it)) in
    let* w0 := t_word_unchecked t b index in
    let* ls := low_set_unchecked offset in
    let* (index', word) := scan_fwd t b (scan_fuel b) index (N.land w0 (wnot ls)) in
    let result := (fst (oi_next it), bit_offset index' (trailing_zeros word)) in
    Ok (mkoi (fst result + 1, snd result + 1) (oi_limit it), Some result).

Definition oi_nth (sp : selpath) (m : mode) (t : transf) (b : bitvec) (it : one_iter) (n : N)
  : res (one_iter * option (N * N)) :=
  let* remaining := usub m (fst (oi_limit it)) (fst (oi_next it)) in
  if remaining <=? n then Ok (mkoi (oi_limit it) (oi_limit it), None)
  else
    let '(index, offset) := split_offset (snd (oi_next it)) in
    let* w0 := t_word_unchecked t b index in
    let* ls := low_set_unchecked offset in
    let* (index', word, rr) := scan_rank t b (scan_fuel b) index (N.land w0 (wnot ls)) n in
    let* off := word_select sp m word rr in
    let result := (fst (oi_next it) + n, bit_offset index' off) in
    Ok (mkoi (fst result + 1, snd result + 1) (oi_limit it), Some result).

Definition oi_next_back (m : mode) (t : transf) (b : bitvec) (it : one_iter) : res (one_iter * option (N * N)) :=
  if fst (oi_limit it) <=? fst (oi_next it) then Ok (it, None)
  else
    let* l0 := usub m (fst (oi_limit it)) 1 in
    let* l1 := usub m (snd (oi_limit it)) 1 in
    let '(index, offset) := split_offset l1 in
    let* w0 := t_word_unchecked t b index in
    let* ls := low_set_unchecked (offset + 1) in
    let* (index', word) := scan_bwd m t b (scan_fuel b) index (N.land w0 ls) in
    let off := bits_WORD_BITS - 1 - leading_zeros word in
    let lim := (l0, bit_offset index' off) in
    Ok (mkoi (oi_next it) lim, Some lim).

Definition oi_len (it : one_iter) : N := fst (oi_limit it) - fst (oi_next it).

(* collect everything the iterator yields going forward (fuel bounds the number of items) *)
Fixpoint oi_collect (t : transf) (b : bitvec) (fuel : nat) (it : one_iter) : res (list (N * N)) :=
  match fuel with
  | O => Ok []
  | S k => let* (it', r) := oi_next_f t b it in
           match r with
           | None => Ok []
           | Some x => let* rest := oi_collect t b k it' in Ok (x :: rest)
           end
  end.

(* ---------------------------------------------------------------- select support *)

Definition opt_unwrap {A} (o : option A) : res A := match o with Some x => Ok x | None => Panic PUnwrap end.

(* for _ in 0..values { long.push(value.unwrap().1 - start.1); value = iter.next(); } *)
Fixpoint fill_long (t : transf) (b : bitvec) (n : nat) (start1 : N) (long : intvec)
         (it : one_iter) (value : option (N * N)) : res (intvec * one_iter * option (N * N)) :=
  match n with
  | O => Ok (long, it, value)
  | S k =>
      let* v := opt_unwrap value in
      let* long' := iv_push long (snd v - start1) in
      let* (it', value') := oi_next_f t b it in
      fill_long t b k start1 long' it' value'
  end.

(* for _ in 0..blocks { short.push(value.unwrap().1 - start.1); value = iter.nth(BLOCK_SIZE - 1); } *)
Fixpoint fill_short (sp : selpath) (m : mode) (t : transf) (b : bitvec) (n : nat) (start1 : N) (short : intvec)
         (it : one_iter) (value : option (N * N)) : res (intvec * one_iter * option (N * N)) :=
  match n with
  | O => Ok (short, it, value)
  | S k =>
      let* v := opt_unwrap value in
      let* short' := iv_push short (snd v - start1) in
      let* (it', value') := oi_nth sp m t b it (select_BLOCK_SIZE - 1) in
      fill_short sp m t b k start1 short' it' value'
  end.

Record ss_build := mkssb {
  sb_samples : intvec; sb_long : intvec; sb_short : intvec;
  sb_sample_iter : one_iter; sb_sample : option (N * N);
  sb_iter : one_iter; sb_value : option (N * N)
}.

Fixpoint ss_loop (sp : selpath) (m : mode) (t : transf) (b : bitvec) (fuel : nat) (log4 : N) (st : ss_build)
  : res ss_build :=
  match fuel with
  | O => Panic PFuel
  | S k =>
      match sb_sample st with
      | None => Ok st
      | Some start =>
          let* (sit', next_sample) := oi_nth sp m t b (sb_sample_iter st) (select_SUPERBLOCK_SIZE - 1) in
          let limit := match next_sample with Some v => v | None => (t_count_ones t b, bv_len b) end in
          let* samples1 := iv_push (sb_samples st) (snd start) in
          if log4 <=? snd limit - snd start then
            let* samples2 := iv_push samples1 (2 * ilen (sb_long st)) in
            let values := fst limit - fst start in
            let* (long', it', value') := fill_long t b (N.to_nat values) (snd start) (sb_long st) (sb_iter st) (sb_value st) in
            ss_loop sp m t b k log4 (mkssb samples2 long' (sb_short st) sit' next_sample it' value')
          else
            let* samples2 := iv_push samples1 (2 * ilen (sb_short st) + 1) in
            let blocks := (fst limit - fst start + select_BLOCK_SIZE - 1) / select_BLOCK_SIZE in
            let* (short', it', value') := fill_short sp m t b (N.to_nat blocks) (snd start) (sb_short st) (sb_iter st) (sb_value st) in
            ss_loop sp m t b k log4 (mkssb samples2 (sb_long st) short' sit' next_sample it' value')
      end
  end.

Definition select_new (sp : selpath) (m : mode) (t : transf) (b : bitvec) : res select_support :=
  let l := bit_len (bv_len b) in
  let log4 := (l * l) * (l * l) in
  let* (sit, sample) := oi_next_f t b (oi_start t b) in
  let* (it, value) := oi_next_f t b (oi_start t b) in
  let fuel := S (S (N.to_nat (t_count_ones t b / select_SUPERBLOCK_SIZE))) in
  let* st := ss_loop sp m t b fuel log4 (mkssb iv_default iv_default iv_default sit sample it value) in
  let* s := iv_pack (sb_samples st) in
  let* l' := iv_pack (sb_long st) in
  let* sh := iv_pack (sb_short st) in
  Ok (mkss s l' sh).

Definition ss_superblocks (s : select_support) : N := ilen (ss_samples s) / 2.
Definition ss_long_superblocks (s : select_support) : N :=
  (ilen (ss_long s) + select_SUPERBLOCK_SIZE - 1) / select_SUPERBLOCK_SIZE.
Definition ss_short_superblocks (s : select_support) : N :=
  (ilen (ss_short s) + select_BLOCKS_IN_SUPERBLOCK - 1) / select_BLOCKS_IN_SUPERBLOCK.

(* loop { ones = value.count_ones(); if ones > rr { select; break }; rr -= ones; word += 1; value = word_unchecked(word) } *)
Fixpoint select_scan (sp : selpath) (m : mode) (t : transf) (b : bitvec) (fuel : nat) (word value rr : N) : res N :=
  match fuel with
  | O => Panic PFuel
  | S k =>
      let ones := popcount value in
      if rr <? ones then
        let* off := word_select sp m value rr in Ok (bit_offset word off)
      else
        let* v' := t_word_unchecked t b (word + 1) in
        select_scan sp m t b k (word + 1) v' (rr - ones)
  end.

Definition select_unchecked (sp : selpath) (m : mode) (t : transf) (s : select_support) (b : bitvec) (rank : N) : res N :=
  let superblock := rank / select_SUPERBLOCK_SIZE in
  let offset := N.land rank select_SUPERBLOCK_MASK in
  let* result := iv_get (ss_samples s) (2 * superblock) in
  if offset =? 0 then Ok result
  else
    let* p := iv_get (ss_samples s) (2 * superblock + 1) in
    let ptr := p / 2 in
    if N.land p 1 =? 0 then
      let* d := iv_get (ss_long s) (ptr + offset) in Ok (result + d)
    else
      let block := offset / select_BLOCK_SIZE in
      let rr := N.land offset select_BLOCK_MASK in
      let* d := iv_get (ss_short s) (ptr + block) in
      let result := result + d in
      if 0 <? rr then
        let '(word, word_offset) := split_offset result in
        let* w0 := t_word_unchecked t b word in
        let* ls := low_set_unchecked word_offset in
        select_scan sp m t b (scan_fuel b) word (N.land w0 (wnot ls)) rr
      else Ok result.

Definition t_support (t : transf) (b : bitvec) : option select_support :=
  match t with Identity => bv_select b | Complement => bv_select_zero b end.

Definition bv_enable_select_t (sp : selpath) (m : mode) (t : transf) (b : bitvec) : res bitvec :=
  match t_support t b with
  | Some _ => Ok b
  | None =>
      let* s := select_new sp m t b in
      Ok (match t with
          | Identity => mkbv (bv_ones b) (bv_data b) (bv_rank b) (Some s) (bv_select_zero b)
          | Complement => mkbv (bv_ones b) (bv_data b) (bv_rank b) (bv_select b) (Some s)
          end)
  end.

(* Select::select / SelectZero::select_zero *)
Definition bv_select_t (sp : selpath) (m : mode) (t : transf) (b : bitvec) (rank : N) : res (option N) :=
  if t_count_ones t b <=? rank then Ok None
  else
    let* s := opt_unwrap (t_support t b) in
    let* v := select_unchecked sp m t s b rank in Ok (Some v).

(* select_iter / select_zero_iter *)
Definition bv_select_iter_t (sp : selpath) (m : mode) (t : transf) (b : bitvec) (rank : N) : res one_iter :=
  if t_count_ones t b <=? rank then Ok (oi_empty t b)
  else
    let* s := opt_unwrap (t_support t b) in
    let* v := select_unchecked sp m t s b rank in
    Ok (mkoi (rank, v) (t_count_ones t b, bv_len b)).

(* PredSucc *)
Definition sat_add1 (v : N) : N := if v + 1 <? 2 ^ 64 then v + 1 else 2 ^ 64 - 1.

Definition bv_predecessor (sp : selpath) (m : mode) (b : bitvec) (value : N) : res one_iter :=
  let* rank := bv_rank_q b (sat_add1 value) in
  if rank =? 0 then Ok (oi_empty Identity b)
  else bv_select_iter_t sp m Identity b (rank - 1).

Definition bv_successor (sp : selpath) (m : mode) (b : bitvec) (value : N) : res one_iter :=
  let* rank := bv_rank_q b value in
  if bv_count_ones b <=? rank then Ok (oi_empty Identity b)
  else bv_select_iter_t sp m Identity b rank.

Definition bv_enable_all (sp : selpath) (m : mode) (b : bitvec) : res bitvec :=
  let* b1 := bv_enable_rank b in
  let* b2 := bv_enable_select_t sp m Identity b1 in
  bv_enable_select_t sp m Complement b2.

(* ---------------------------------------------------------------- the bit iterator (bit_vector::Iter) *)

Record bit_iter := mkbi { bi_next : N; bi_limit : N }.
Definition bi_start (b : bitvec) : bit_iter := mkbi 0 (bv_len b).

Definition bi_next_f (b : bitvec) (it : bit_iter) : res (bit_iter * option bool) :=
  if bi_limit it <=? bi_next it then Ok (it, None)
  else let* v := bv_get b (bi_next it) in Ok (mkbi (bi_next it + 1) (bi_limit it), Some v).
Definition bi_nth (b : bitvec) (it : bit_iter) (n : N) : res (bit_iter * option bool) :=
  bi_next_f b (mkbi (bi_next it + N.min n (bi_limit it - bi_next it)) (bi_limit it)).
Definition bi_next_back (b : bitvec) (it : bit_iter) : res (bit_iter * option bool) :=
  if bi_limit it <=? bi_next it then Ok (it, None)
  else let* v := bv_get b (bi_limit it - 1) in Ok (mkbi (bi_next it) (bi_limit it - 1), Some v).
Definition bi_nth_back (b : bitvec) (it : bit_iter) (n : N) : res (bit_iter * option bool) :=
  bi_next_back b (mkbi (bi_next it) (bi_limit it - N.min n (bi_limit it - bi_next it))).
Definition bi_len (it : bit_iter) : N := bi_limit it - bi_next it.
