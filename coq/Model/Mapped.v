(* Model of the memory-mapped views: src/serialize.rs (MappedSlice<T>, MappedBytes, MappedStr,
   MappedOption<T>), src/raw_vector.rs (RawVectorMapper), src/int_vector.rs (IntVectorMapper).
   The mapped file is a [list N] of 8-byte elements; offsets and lengths are in elements.
   Every `new` follows the Rust checks in their order and in the arithmetic the Rust uses, through the
   mode-dependent uadd/usub/umul/udiv (Debug: overflow panics, Release: wraps): the caller's offset enters
   `offset + 1`, `offset + 2`, `map.len() - offset - 1`; the length element READ FROM THE FILE is only compared
   (`len > (map.len() - offset - 1) / T::elements()`, `len > words_to_bytes(map.len() - offset - 1)`). A view is (file, offset, declared
   length): what `slice::from_raw_parts(ptr, len)` builds without looking at the mapping; reading through a
   view whose declared extent is not backed by the file is [OOB SITE_MAP_WORD]. No proofs here. *)
From Coq Require Import NArith List Bool.
Require Import SDS.Model.Mach SDS.Model.Bits SDS.Model.Raw SDS.Model.IntVec SDS.gen.Consts SDS.gen.Funs.
Import ListNotations.
Open Scope N_scope.

(* ---- io::Result<View> with the two other ways a call can end ---- *)

Inductive ekind := UnexpectedEof | InvalidData.

Inductive vres (A : Type) :=
| VOk (v : A)
| VErr (k : ekind)
| VPanic (k : pkind)
| VOOB (site : N).     (* `new` itself read outside the mapping (only MappedStr can: UTF-8 scan of an unbacked slice) *)
Arguments VOk {A} v. Arguments VErr {A} k. Arguments VPanic {A} k. Arguments VOOB {A} site.

Definition vbind {A B} (r : vres A) (f : A -> vres B) : vres B :=
  match r with VOk a => f a | VErr k => VErr k | VPanic k => VPanic k | VOOB s => VOOB s end.
Definition vlift {A} (r : res A) : vres A :=
  match r with Ok a => VOk a | Panic k => VPanic k | OOB s => VOOB s end.
Definition vmap {A B} (f : A -> B) (r : vres A) : vres B := vbind r (fun a => VOk (f a)).

Notation "'let+' x := e 'in' k" := (vbind e (fun x => k)) (at level 200, x pattern, e at level 100, k at level 200).

(* ---- MemoryMap::new on the file content: mmap(2) refuses a zero-length mapping (EINVAL) ---- *)
Definition mm_new (file : list N) : option (list N) := if lenN file =? 0 then None else Some file.

(* ---- raw memory of the mapping ---- *)

Fixpoint dropN {A} (l : list A) (n : N) : list A :=
  match l with
  | [] => []
  | x :: t => if n =? 0 then l else dropN t (n - 1)
  end.
(* exactly n items, or None when the list is shorter *)
Fixpoint takeN {A} (l : list A) (n : N) : option (list A) :=
  match l with
  | [] => if n =? 0 then Some [] else None
  | x :: t => if n =? 0 then Some [] else match takeN t (n - 1) with Some r => Some (x :: r) | None => None end
  end.
(* the [count] elements starting at element [pos] of the mapping *)
Definition mem_read (file : list N) (pos count : N) : res (list N) :=
  match takeN (dropN file pos) count with Some l => Ok l | None => OOB SITE_MAP_WORD end.

(* the 8 bytes of an element in memory order (little-endian target) *)
Fixpoint le_bytes_n (n : nat) (w : N) : list N :=
  match n with O => [] | S k => w mod 256 :: le_bytes_n k (w / 256) end.
Definition le_bytes (w : N) : list N := le_bytes_n 8 w.

Fixpoint pair_up (l : list N) : list (N * N) :=
  match l with a :: b :: t => (a, b) :: pair_up t | _ => [] end.

(* ---- str::from_utf8: well-formed byte sequences of the Unicode standard (table 3-7) ---- *)

Definition inr (lo hi b : N) : bool := (lo <=? b) && (b <=? hi).
Definition cont (b : N) : bool := inr 128 191 b.

Fixpoint mp_utf8_valid (l : list N) : bool :=
  match l with
  | [] => true
  | b0 :: t0 =>
      if b0 <? 128 then mp_utf8_valid t0
      else if inr 194 223 b0 then
        match t0 with b1 :: t1 => cont b1 && mp_utf8_valid t1 | _ => false end
      else if inr 224 239 b0 then
        match t0 with
        | b1 :: b2 :: t2 =>
            (if b0 =? 224 then inr 160 191 b1 else if b0 =? 237 then inr 128 159 b1 else cont b1)
            && cont b2 && mp_utf8_valid t2
        | _ => false
        end
      else if inr 240 244 b0 then
        match t0 with
        | b1 :: b2 :: b3 :: t3 =>
            (if b0 =? 240 then inr 144 191 b1 else if b0 =? 244 then inr 128 143 b1 else cont b1)
            && cont b2 && cont b3 && mp_utf8_valid t3
        | _ => false
        end
      else false
  end.

(* ---- MappedSlice<T>, T::elements() = elems (1 for u64/usize, 2 for (u64, u64)) ---- *)

Record mslice := mkms { ms_file : list N; ms_off : N; ms_len : N }.

Definition ms_new (m : mode) (elems : N) (file : list N) (offset : N) : vres mslice :=
  if lenN file <=? offset then VErr UnexpectedEof else
  let+ len := vlift (idx file offset) in
  (* len > (map.len() - offset - 1) / T::elements() : the length is compared, never multiplied *)
  let+ a := vlift (usub m (lenN file) offset) in
  let+ b := vlift (usub m a 1) in
  let+ q := vlift (udiv m b elems) in
  if q <? len then VErr UnexpectedEof else
  (* &slice[offset + 1 ..] *)
  let+ s1 := vlift (uadd m offset 1) in
  if lenN file <? s1 then VPanic PIndex else
  VOk (mkms file offset len).

(* the check before the repair 5f925c7 (`offset + 1 + len * T::elements() > map.len()`);
   kept only for C13_len_overflow_old_refuted *)
Definition ms_new_old (m : mode) (elems : N) (file : list N) (offset : N) : vres mslice :=
  if lenN file <=? offset then VErr UnexpectedEof else
  let+ len := vlift (idx file offset) in
  let+ o1 := vlift (uadd m offset 1) in
  let+ sz := vlift (umul m len elems) in
  let+ e := vlift (uadd m o1 sz) in
  if lenN file <? e then VErr UnexpectedEof else
  let+ s1 := vlift (uadd m offset 1) in
  if lenN file <? s1 then VPanic PIndex else
  VOk (mkms file offset len).

Definition ms_map_offset (v : mslice) : N := ms_off v.
(* self.len() * T::elements() + 1 *)
Definition ms_map_len (m : mode) (elems : N) (v : mslice) : res N :=
  let* a := umul m (ms_len v) elems in uadd m a 1.

(* the elements the borrowed slice covers *)
Definition ms_words (elems : N) (v : mslice) : res (list N) :=
  mem_read (ms_file v) (ms_off v + 1) (ms_len v * elems).
Definition ms_items1 (v : mslice) : res (list N) := ms_words 1 v.
Definition ms_items2 (v : mslice) : res (list (N * N)) := rmap pair_up (ms_words 2 v).
(* Index: bounds-checked against the slice's own length, then a plain memory read *)
Definition ms_get1 (v : mslice) (i : N) : res N :=
  if i <? ms_len v then let* d := ms_items1 v in idx_unchecked SITE_MAP_WORD d i else Panic PIndex.
Definition ms_get2 (v : mslice) (i : N) : res (N * N) :=
  if i <? ms_len v then let* d := ms_items2 v in idx_unchecked SITE_MAP_WORD d i else Panic PIndex.

(* ---- MappedBytes / MappedStr: length in BYTES, then the bytes, zero-padded to whole elements ---- *)

Record mbytes := mkmb { mb_file : list N; mb_off : N; mb_len : N }.

Definition mb_new (m : mode) (file : list N) (offset : N) : vres mbytes :=
  if lenN file <=? offset then VErr UnexpectedEof else
  let+ len := vlift (idx file offset) in
  (* len > bits::words_to_bytes(map.len() - offset - 1) *)
  let+ a := vlift (usub m (lenN file) offset) in
  let+ b := vlift (usub m a 1) in
  let+ w := vlift (f_words_to_bytes m b) in
  if w <? len then VErr UnexpectedEof else
  let+ s1 := vlift (uadd m offset 1) in
  if lenN file <? s1 then VPanic PIndex else
  VOk (mkmb file offset len).

(* the check before the repair 5f925c7 (`offset + 1 + bits::bytes_to_words(len) > map.len()`);
   kept only for C13_len_overflow_old_refuted *)
Definition mb_new_old (m : mode) (file : list N) (offset : N) : vres mbytes :=
  if lenN file <=? offset then VErr UnexpectedEof else
  let+ len := vlift (idx file offset) in
  let+ o1 := vlift (uadd m offset 1) in
  let+ w := vlift (f_bytes_to_words m len) in
  let+ e := vlift (uadd m o1 w) in
  if lenN file <? e then VErr UnexpectedEof else
  let+ s1 := vlift (uadd m offset 1) in
  if lenN file <? s1 then VPanic PIndex else
  VOk (mkmb file offset len).

(* the first mb_len bytes of the memory that starts at element offset + 1 *)
Definition mb_bytes (v : mbytes) : res (list N) :=
  let* ws := mem_read (mb_file v) (mb_off v + 1) (bytes_to_words (mb_len v)) in
  match takeN (flat_map le_bytes ws) (mb_len v) with Some b => Ok b | None => OOB SITE_MAP_WORD end.
Definition mb_get (v : mbytes) (i : N) : res N :=
  if i <? mb_len v then let* d := mb_bytes v in idx_unchecked SITE_MAP_WORD d i else Panic PIndex.

Definition mb_map_offset (v : mbytes) : N := mb_off v.
(* bits::bytes_to_words(self.len()) + 1 *)
Definition mb_map_len (m : mode) (v : mbytes) : res N :=
  let* w := f_bytes_to_words m (mb_len v) in uadd m w 1.

(* MappedStr: the checks of MappedBytes, then str::from_utf8 over the bytes *)
Definition mstr_new (m : mode) (file : list N) (offset : N) : vres mbytes :=
  let+ v := mb_new m file offset in
  let+ b := vlift (mb_bytes v) in
  if mp_utf8_valid b then VOk v else VErr InvalidData.

(* ---- MappedOption<T>, generic in the nested view's `new` ---- *)

Record mopt (V : Type) := mkmo { mo_data : option V; mo_off : N; mo_dlen : N }.
Arguments mkmo {V} _ _ _. Arguments mo_data {V} _. Arguments mo_off {V} _. Arguments mo_dlen {V} _.

Definition mo_new {V} (new_t : N -> vres V) (m : mode) (file : list N) (offset : N) : vres (mopt V) :=
  if lenN file <=? offset then VErr UnexpectedEof else
  let+ dl := vlift (idx file offset) in
  if 0 <? dl then
    let+ o1 := vlift (uadd m offset 1) in
    let+ v := new_t o1 in
    VOk (mkmo (Some v) offset dl)
  else VOk (mkmo None offset dl).

Definition mo_map_offset {V} (v : mopt V) : N := mo_off v.
(* self.data_len + 1 *)
Definition mo_map_len {V} (m : mode) (v : mopt V) : res N := uadd m (mo_dlen v) 1.

(* ---- RawVectorMapper: bit length, then a MappedSlice<u64> of the words ---- *)

Record rmapper := mkrm { rm_len : N; rm_data : mslice }.

Definition rm_new (m : mode) (file : list N) (offset : N) : vres rmapper :=
  if lenN file <=? offset then VErr UnexpectedEof else
  let+ len := vlift (idx file offset) in
  let+ o1 := vlift (uadd m offset 1) in
  let+ data := ms_new m 1 file o1 in
  VOk (mkrm len data).

(* self.data.map_offset() - 1 ; self.data.map_len() + 1 *)
Definition rm_map_offset (m : mode) (v : rmapper) : res N := usub m (ms_map_offset (rm_data v)) 1.
Definition rm_map_len (m : mode) (v : rmapper) : res N :=
  let* l := ms_map_len m 1 (rm_data v) in uadd m l 1.

(* AccessRaw *)
Definition rm_bit (v : rmapper) (bo : N) : res bool :=
  let '(index, offset) := split_offset bo in
  let* w := ms_get1 (rm_data v) index in
  Ok (N.land (N.shiftr w offset) 1 =? 1).
Definition rm_word (v : rmapper) (i : N) : res N := ms_get1 (rm_data v) i.
(* bits::read_int(&self.data, ..): every access goes through MappedSlice's bounds-checked Index *)
Definition rm_int (v : rmapper) (bo width : N) : res N :=
  if width =? 0 then Ok 0
  else match ms_items1 (rm_data v) with
       | Ok d => read_int d bo width
       | _ => (* a slice the mapping does not back: the index check still comes first *)
           if fst (split_offset bo) <? ms_len (rm_data v) then OOB SITE_MAP_WORD else Panic PIndex
       end.
(* sum of count_ones over the words: at most 64 * |file|, exact for files below 2^58 elements *)
Definition rm_count_ones (v : rmapper) : res N :=
  let* d := ms_items1 (rm_data v) in Ok (sum_pop d).

(* ---- IntVectorMapper: len, width, then a RawVectorMapper ---- *)

Record imapper := mkim { im_len : N; im_width : N; im_data : rmapper }.

(* the code as it is now: `offset >= map.len() || offset + 1 >= map.len()`, then
   `if width == 0 || width > bits::WORD_BITS { return Err(InvalidData) }` (repair ed19660, finding F14) before
   the raw mapper is created *)
Definition im_new (m : mode) (file : list N) (offset : N) : vres imapper :=
  if lenN file <=? offset then VErr UnexpectedEof else
  let+ o1 := vlift (uadd m offset 1) in
  if lenN file <=? o1 then VErr UnexpectedEof else
  let+ len := vlift (idx file offset) in
  let+ o1' := vlift (uadd m offset 1) in
  let+ width := vlift (idx file o1') in
  if (width =? 0) || (bits_WORD_BITS <? width) then VErr InvalidData else
  let+ o2 := vlift (uadd m offset 2) in
  let+ data := rm_new m file o2 in
  VOk (mkim len width data).

(* `new` before the repair ed19660: the width element is not looked at; kept only for
   C08_mapped_get_wide_old_refuted *)
Definition im_new_nowidth (m : mode) (file : list N) (offset : N) : vres imapper :=
  if lenN file <=? offset then VErr UnexpectedEof else
  let+ o1 := vlift (uadd m offset 1) in
  if lenN file <=? o1 then VErr UnexpectedEof else
  let+ len := vlift (idx file offset) in
  let+ o1' := vlift (uadd m offset 1) in
  let+ width := vlift (idx file o1') in
  let+ o2 := vlift (uadd m offset 2) in
  let+ data := rm_new m file o2 in
  VOk (mkim len width data).

(* the check before the repair (`offset + 1 >= map.len()` alone); kept only for C13_intvec_old_refuted *)
Definition im_new_old (m : mode) (file : list N) (offset : N) : vres imapper :=
  let+ o1 := vlift (uadd m offset 1) in
  if lenN file <=? o1 then VErr UnexpectedEof else
  let+ len := vlift (idx file offset) in
  let+ o1' := vlift (uadd m offset 1) in
  let+ width := vlift (idx file o1') in
  let+ o2 := vlift (uadd m offset 2) in
  let+ data := rm_new m file o2 in
  VOk (mkim len width data).

Definition im_map_offset (m : mode) (v : imapper) : res N :=
  let* o := rm_map_offset m (im_data v) in usub m o 2.
Definition im_map_len (m : mode) (v : imapper) : res N :=
  let* l := rm_map_len m (im_data v) in uadd m l 2.

(* Access::get: assert!(index < self.len()); self.data.int(index * self.width(), self.width()) *)
Definition im_get (m : mode) (v : imapper) (i : N) : res N :=
  if i <? im_len v then
    let* bo := umul m i (im_width v) in rm_int (im_data v) bo (im_width v)
  else Panic PAssert.

(* ---- all view types under one roof (used by the property statements and the correspondence) ---- *)

Inductive vtype := TyVec | TyPairs | TyBytes | TyStr | TyRaw | TyInt | TyOpt (t : vtype).

Inductive view :=
| VwVec (s : mslice)
| VwPairs (s : mslice)
| VwBytes (b : mbytes)
| VwStr (b : mbytes)
| VwRaw (r : rmapper)
| VwInt (i : imapper)
| VwOpt (o : mopt view).

Fixpoint view_new (m : mode) (t : vtype) (file : list N) (offset : N) : vres view :=
  match t with
  | TyVec => vmap VwVec (ms_new m 1 file offset)
  | TyPairs => vmap VwPairs (ms_new m 2 file offset)
  | TyBytes => vmap VwBytes (mb_new m file offset)
  | TyStr => vmap VwStr (mstr_new m file offset)
  | TyRaw => vmap VwRaw (rm_new m file offset)
  | TyInt => vmap VwInt (im_new m file offset)
  | TyOpt t' => vmap VwOpt (mo_new (view_new m t' file) m file offset)
  end.

Definition view_map_offset (m : mode) (v : view) : res N :=
  match v with
  | VwVec s | VwPairs s => Ok (ms_map_offset s)
  | VwBytes b | VwStr b => Ok (mb_map_offset b)
  | VwRaw r => rm_map_offset m r
  | VwInt i => im_map_offset m i
  | VwOpt o => Ok (mo_map_offset o)
  end.

Definition view_map_len (m : mode) (v : view) : res N :=
  match v with
  | VwVec s => ms_map_len m 1 s
  | VwPairs s => ms_map_len m 2 s
  | VwBytes b | VwStr b => mb_map_len m b
  | VwRaw r => rm_map_len m r
  | VwInt i => im_map_len m i
  | VwOpt o => mo_map_len m o
  end.

(* ---- element-level encoders of the viewable structures (Serialize::serialize) ---- *)

(* Vec<u64> / Vec<usize>: length, items *)
Definition enc_vec (xs : list N) : list N := lenN xs :: xs.
(* Vec<(u64, u64)>: length in pairs, then both components of every pair *)
Definition enc_pairs (ps : list (N * N)) : list N := lenN ps :: flat_map (fun p => [fst p; snd p]) ps.
(* value of up to 8 bytes in memory order *)
Definition le_word (bs : list N) : N := fold_right (fun b acc => b + 256 * acc) 0 bs.
(* bytes packed 8 per element, the last element zero-padded *)
Fixpoint pack_bytes (bs : list N) : list N :=
  match bs with
  | [] => []
  | b0 :: b1 :: b2 :: b3 :: b4 :: b5 :: b6 :: b7 :: t => le_word [b0; b1; b2; b3; b4; b5; b6; b7] :: pack_bytes t
  | rest => [le_word rest]
  end.
(* Vec<u8> / String: length in bytes, then the packed bytes *)
Definition enc_bytes (bs : list N) : list N := lenN bs :: pack_bytes bs.

(* typed values a file is made of *)
Inductive tval :=
| TVec (xs : list N)
| TPairs (ps : list (N * N))
| TBytes (bs : list N)
| TStr (bs : list N)
| TRaw (r : raw)
| TInt (v : intvec)
| TNone (t : vtype)
| TSome (x : tval).

Fixpoint ty_of (v : tval) : vtype :=
  match v with
  | TVec _ => TyVec | TPairs _ => TyPairs | TBytes _ => TyBytes | TStr _ => TyStr
  | TRaw _ => TyRaw | TInt _ => TyInt
  | TNone t => TyOpt t
  | TSome x => TyOpt (ty_of x)
  end.

(* Option<V>: size of the value in elements (0 when absent), then the value *)
Fixpoint enc (v : tval) : list N :=
  match v with
  | TVec xs => enc_vec xs
  | TPairs ps => enc_pairs ps
  | TBytes bs | TStr bs => enc_bytes bs
  | TRaw r => raw_serialize r
  | TInt v => iv_serialize v
  | TNone _ => [0]
  | TSome x => lenN (enc x) :: enc x
  end.
