(* The iterators of wavelet_matrix.rs as step functions over the calls of Spec/Deque.v.
     ValueIter   (value_iter, select_iter, predecessor, successor): implements next only (Model/WM.v vi_next);
                 size_hint is the std default (0, None), so no length is advertised; nth is the std default
                 advance_by(n) + next (Model/Iters.v std_nth); not double-ended.
     IntoIter    (into_iter): next over Access::get, exact size_hint; nth is the std default (Model/Iters.v
                 into_step).
     AccessIter  (iter(), ops.rs): the generic cursor of Model/Iters.v over WaveletMatrix::get.
   No proofs here. *)
From Coq Require Import NArith List Bool.
Require Import SDS.Model.Mach SDS.Model.Bits SDS.Model.BitVec SDS.Model.Iters SDS.Model.WM SDS.Spec.Deque SDS.Spec.IterRefs.
Require SDS.Model.RLIters.   (* qualified: only the generic forward-iterator step [fwd_step] is used *)
Import ListNotations.
Open Scope N_scope.

(* at most len items are left, so the default nth makes at most len + 1 calls of next *)
Definition wm_vi_step (sp : selpath) (m : mode) (w : wmatrix) : viter -> call -> res (viter * out (N * N)) :=
  RLIters.fwd_step (vi_next sp m w) (fun _ => vi_fuel w) None.

(* the ways a WaveletMatrix hands out a ValueIter *)
Definition wm_vi_entry (m : mode) (w : wmatrix) (e : entry) : option (res viter) :=
  match e with
  | EValue x => Some (Ok (wm_value_iter x))
  | EValueSelect r x => Some (Ok (wm_select_iter r x))
  | EValuePred i x => Some (wm_predecessor m w i x)
  | EValueSucc i x => Some (wm_successor m w i x)
  | _ => None
  end.

(* IntoIter { parent, index }: the state is the index *)
Definition wm_into_step (m : mode) (w : wmatrix) : N -> call -> res (N * out N) :=
  into_step (wm_get m w) (wm_len w).

(* AccessIter { parent, next, limit } from iter() *)
Definition wm_ai_start (w : wmatrix) : cursor := cur_start (wm_len w).
Definition wm_ai_step (m : mode) (w : wmatrix) : cursor -> call -> res (cursor * out N) :=
  cur_step (wm_get m w).
