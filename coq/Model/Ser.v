(* Byte-level model of src/serialize.rs (trait Serialize and its blanket impls, skip_option, absent_option)
   and of the `impl Serialize` blocks of raw_vector.rs, int_vector.rs, bit_vector.rs, rank_support.rs,
   select_support.rs, rl_vector.rs. A codec packs what the three methods of the trait compute:
     c_enc  = the bytes `serialize` writes (header then body),
     c_dec  = `load` on the remaining bytes of a reader; returns the value and the unread rest,
     c_size = `size_in_elements`,
     c_wf   = the values the theorems talk about (what the constructors of the crate can produce).
   Loaders follow the Rust statement by statement: every read is a read_exact, every sanity check is an
   `IoErr InvalidData`, arithmetic on values that come from the file is mode dependent (gen/Funs.v, uadd/umul),
   allocation of a length read from the file panics with "capacity overflow" beyond isize::MAX.
   Composite types are built with seq_codec / dseq_codec / conv_codec / rep_codec / option_codec (or by hand
   when checks are interleaved with reads, as in BitVector::load). No proofs here (Proofs/SerProof.v).

   Every per-type codec is followed by the field lists gen/Layout.v must show (Proofs/SerLayout.v proves the
   equalities by reflexivity: a field swap in the Rust, even a symmetric one, breaks them). *)
From Coq Require Import String NArith List Bool.
Require Import SDS.Model.Mach SDS.Model.Bits SDS.Model.Raw SDS.Model.IntVec SDS.Model.BitVec.
Require Import SDS.gen.Consts SDS.gen.Funs SDS.Spec.Stream.
Require SDS.Model.RL.    (* qualified (RL.rlvec ...): Model/RL.v reuses some record names of Model/BitVec.v *)
Import ListNotations.
Open Scope N_scope.

Record codec (A : Type) := mkcodec {
  c_enc : A -> list byte;
  c_dec : list byte -> io (A * list byte);
  c_size : A -> N;
  c_wf : A -> Prop
}.
Arguments mkcodec {A}. Arguments c_enc {A}. Arguments c_dec {A}. Arguments c_size {A}. Arguments c_wf {A}.

(* same codec, nicer well-formedness predicate (must imply the original one) *)
Definition with_wf {A} (c : codec A) (P : A -> Prop) : codec A := mkcodec (c_enc c) (c_dec c) (c_size c) P.

(* isize::MAX: Vec::with_capacity / vec![0; n] panic with "capacity overflow" beyond it *)
Definition ISIZE_MAX : N := 2 ^ 63 - 1.

(* ------------------------------------------------------------------ Serializable: u64, usize, (u64, u64) *)

(* usize::load / u64::load: read_exact of 8 bytes, little endian *)
Definition dec_elem (s : list byte) : io (N * list byte) :=
  let+ (b, r) := read_exact bits_WORD_BYTES s in IoOk (le_val b, r).

Definition u64_codec : codec N := mkcodec le64 dec_elem (fun _ => 1) (fun x => x < 2 ^ 64).
Definition usize_codec : codec N := u64_codec.

(* (u64, u64): one read_exact of 16 bytes; field 0 first *)
Definition pair_codec : codec (N * N) :=
  mkcodec (fun p => le64 (fst p) ++ le64 (snd p))
          (fun s => let+ (b, r) := read_exact (2 * bits_WORD_BYTES) s in
                    IoOk ((le_val (firstn 8 b), le_val (skipn 8 b)), r))
          (fun _ => 2)
          (fun p => fst p < 2 ^ 64 /\ snd p < 2 ^ 64).

(* ------------------------------------------------------------------ Vec<V: Serializable> *)

(* the buffer of n items, reinterpreted item by item *)
Fixpoint dec_items {A} (c : codec A) (n : nat) (s : list byte) : io (list A * list byte) :=
  match n with
  | O => IoOk ([], s)
  | S k => let+ (x, r) := c_dec c s in
           let+ (xs, r') := dec_items c k r in
           IoOk (x :: xs, r')
  end.

(* k = V::elements(); header: the length; body: the items. load: Vec::with_capacity(size), then ONE read_exact
   of size * size_of::<V>() bytes *)
Definition vec_codec {A} (k : N) (c : codec A) : codec (list A) :=
  mkcodec (fun l => le64 (lenN l) ++ flat_map (c_enc c) l)
          (fun s => let+ (n, r) := dec_elem s in
                    if ISIZE_MAX <? n * (k * bits_WORD_BYTES) then IoPanic POverflow
                    else if n * (k * bits_WORD_BYTES) <=? lenN r then dec_items c (N.to_nat n) r
                    else IoErr UnexpectedEof)
          (fun l => 1 + lenN l * k)
          (fun l => Forall (c_wf c) l /\ lenN l * (k * bits_WORD_BYTES) <= ISIZE_MAX).

Definition vec_u64_codec : codec (list N) := vec_codec 1 u64_codec.
Definition vec_pair_codec : codec (list (N * N)) := vec_codec 2 pair_codec.

(* ------------------------------------------------------------------ Vec<u8>, String *)

Definition padding (m : mode) (n : N) : io N :=
  let+ padded := io_of_res (f_round_up_to_word_bytes m n) in IoOk (padded - n).

(* exact version for the encoder (lengths of in-memory vectors are far below 2^64) *)
Definition pad_len (n : N) : N := bytes_to_words n * bits_WORD_BYTES - n.

Definition bytes_codec (m : mode) : codec (list byte) :=
  mkcodec (fun l => le64 (lenN l) ++ l ++ repeatN 0 (N.to_nat (pad_len (lenN l))))
          (fun s => let+ (n, r) := dec_elem s in
                    if ISIZE_MAX <? n then IoPanic POverflow       (* vec![0; size] *)
                    else
                      let+ (v, r1) := read_exact n r in
                      let+ p := padding m n in
                      if 0 <? p then let+ (_, r2) := read_exact p r1 in IoOk (v, r2)   (* padding is not inspected *)
                      else IoOk (v, r1))
          (fun l => 1 + bytes_to_words (lenN l))
          (fun l => bytes_ok l /\ lenN l <= ISIZE_MAX).

(* String::load = Vec<u8>::load then from_utf8, failure mapped to InvalidData *)
Definition string_codec (m : mode) : codec (list byte) :=
  mkcodec (c_enc (bytes_codec m))
          (fun s => let+ (v, r) := c_dec (bytes_codec m) s in
                    if utf8_valid v then IoOk (v, r) else IoErr InvalidData)
          (c_size (bytes_codec m))
          (fun l => c_wf (bytes_codec m) l /\ utf8_valid l = true).

(* ------------------------------------------------------------------ Option<V: Serialize> *)

(* header: size of the body in elements (0 = absent); body: the value. load does NOT compare the size with
   what it read (see the comment in serialize.rs). Well-formed: the value's size is non-zero (the trait asks for
   that) and its size in bytes fits in usize *)
Definition option_codec {A} (c : codec A) : codec (option A) :=
  mkcodec (fun o => match o with None => le64 0 | Some x => le64 (c_size c x) ++ c_enc c x end)
          (fun s => let+ (n, r) := dec_elem s in
                    if n =? 0 then IoOk (None, r)
                    else let+ (x, r') := c_dec c r in IoOk (Some x, r'))
          (fun o => match o with None => 1 | Some x => 1 + c_size c x end)
          (fun o => match o with None => True | Some x => c_wf c x /\ 0 < c_size c x < 2 ^ 61 end).

(* serialize::absent_option / absent_option_size *)
Definition absent_option_enc : list byte := c_enc usize_codec 0.
Definition absent_option_size : N := 1.

(* serialize::skip_option: the size element, then io::copy of size * 8 bytes through take() into a sink;
   since the fix it reports a stream that ends inside the optional structure *)
Definition skip_option (m : mode) (s : list byte) : io (unit * list byte) :=
  let+ (n, r) := dec_elem s in
  if 0 <? n then
    let+ expected := io_of_res (umul m n bits_WORD_BYTES) in
    let skipped := N.min expected (lenN r) in
    if negb (skipped =? expected) then IoErr UnexpectedEof
    else IoOk (tt, skipn (N.to_nat skipped) r)
  else IoOk (tt, r).

(* ------------------------------------------------------------------ combinators for structs *)

(* two fields in order *)
Definition seq_codec {A B} (ca : codec A) (cb : codec B) : codec (A * B) :=
  mkcodec (fun p => c_enc ca (fst p) ++ c_enc cb (snd p))
          (fun s => let+ (a, r) := c_dec ca s in
                    let+ (b, r') := c_dec cb r in
                    IoOk ((a, b), r'))
          (fun p => c_size ca (fst p) + c_size cb (snd p))
          (fun p => c_wf ca (fst p) /\ c_wf cb (snd p)).

(* the second field's format depends on the first (WMCore: width, then that many levels) *)
Definition dseq_codec {A B} (ca : codec A) (cb : A -> codec B) : codec (A * B) :=
  mkcodec (fun p => c_enc ca (fst p) ++ c_enc (cb (fst p)) (snd p))
          (fun s => let+ (a, r) := c_dec ca s in
                    let+ (b, r') := c_dec (cb a) r in
                    IoOk ((a, b), r'))
          (fun p => c_size ca (fst p) + c_size (cb (fst p)) (snd p))
          (fun p => c_wf ca (fst p) /\ c_wf (cb (fst p)) (snd p)).

(* exactly n values back to back, no length prefix *)
Definition rep_codec {A} (n : nat) (c : codec A) : codec (list A) :=
  mkcodec (fun l => flat_map (c_enc c) l)
          (dec_items c n)
          (fun l => fold_right (fun x acc => c_size c x + acc) 0 l)
          (fun l => length l = n /\ Forall (c_wf c) l).

(* a struct: the tuple of its fields, then the loader's sanity checks ([from] returns IoErr InvalidData
   when one fails) and the construction of the record *)
Definition conv_codec {A B} (c : codec A) (to : B -> A) (from : A -> io B) : codec B :=
  mkcodec (fun b => c_enc c (to b))
          (fun s => let+ (a, r) := c_dec c s in
                    let+ b := from a in
                    IoOk (b, r))
          (fun b => c_size c (to b))
          (fun b => c_wf c (to b) /\ from (to b) = IoOk b).

(* ------------------------------------------------------------------ RawVector *)

Definition raw_from (m : mode) (p : N * list N) : io raw :=
  let '(len, data) := p in
  let+ words := io_of_res (f_bits_to_words m len) in
  if negb (words =? lenN data) then IoErr InvalidData else IoOk (mkraw len data).

(* what RawVector's own operations maintain, as far as serialization cares *)
Definition raw_ok (r : raw) : Prop :=
  rlen r + 63 < 2 ^ 64 /\ lenN (rdata r) = bits_to_words (rlen r) /\ Forall (fun w => w < 2 ^ 64) (rdata r).

Definition raw_codec (m : mode) : codec raw :=
  with_wf (conv_codec (seq_codec usize_codec vec_u64_codec) (fun r => (rlen r, rdata r)) (raw_from m)) raw_ok.

Record layout := mklayout {
  l_header : list string; l_body : list string; l_load : list string; l_checks : list string; l_size : list string }.

Definition expected_RawVector : layout := mklayout
  ["len:serialize"; "data:serialize_header"]%string ["data:serialize_body"]%string
  ["len=usize"; "data=(Vec(u64)asSerialize)"]%string
  ["bits::bits_to_words(len) != data.len()"]%string
  ["len"; "data"]%string.

(* ------------------------------------------------------------------ IntVector *)

Definition iv_from_fields (m : mode) (p : N * (N * raw)) : io intvec :=
  let '(len, (width, data)) := p in
  let+ bits := io_of_res (umul m len width) in
  if negb (bits =? rlen data) then IoErr InvalidData else IoOk (mkiv len width data).

Definition iv_ok (v : intvec) : Prop :=
  ilen v < 2 ^ 64 /\ iwidth v < 2 ^ 64 /\ ilen v * iwidth v = rlen (idata v) /\ raw_ok (idata v).

Definition iv_codec (m : mode) : codec intvec :=
  with_wf (conv_codec (seq_codec usize_codec (seq_codec usize_codec (raw_codec m)))
                      (fun v => (ilen v, (iwidth v, idata v))) (iv_from_fields m)) iv_ok.

Definition expected_IntVector : layout := mklayout
  ["len:serialize"; "width:serialize"; "data:serialize_header"]%string ["data:serialize_body"]%string
  ["len=usize"; "width=usize"; "data=RawVector"]%string
  ["len * width != data.len()"]%string
  ["len"; "width"; "data"]%string.

(* ------------------------------------------------------------------ RankSupport *)

Definition rs_ok (r : rank_support) : Prop := c_wf vec_pair_codec (rs_samples r).

Definition rs_codec : codec rank_support :=
  with_wf (conv_codec vec_pair_codec rs_samples (fun s => IoOk (mkrs s))) rs_ok.

Definition expected_RankSupport : layout := mklayout
  ["samples:serialize_header"]%string ["samples:serialize_body"]%string
  ["samples=Vec.((u64,u64))"]%string []%string ["samples"]%string.

(* ------------------------------------------------------------------ SelectSupport<T> *)

(* result.superblocks() != result.long_superblocks() + result.short_superblocks(), in usize arithmetic *)
Definition ss_from (m : mode) (p : intvec * (intvec * intvec)) : io select_support :=
  let '(samples, (long, short)) := p in
  let+ l1 := io_of_res (uadd m (ilen long) select_SUPERBLOCK_SIZE) in
  let+ l2 := io_of_res (usub m l1 1) in
  let+ s1 := io_of_res (uadd m (ilen short) select_BLOCKS_IN_SUPERBLOCK) in
  let+ s2 := io_of_res (usub m s1 1) in
  let+ total := io_of_res (uadd m (l2 / select_SUPERBLOCK_SIZE) (s2 / select_BLOCKS_IN_SUPERBLOCK)) in
  if negb (ilen samples / 2 =? total) then IoErr InvalidData else IoOk (mkss samples long short).

Definition ss_ok (s : select_support) : Prop :=
  iv_ok (ss_samples s) /\ iv_ok (ss_long s) /\ iv_ok (ss_short s) /\
  ilen (ss_long s) + select_SUPERBLOCK_SIZE < 2 ^ 64 /\ ilen (ss_short s) + select_BLOCKS_IN_SUPERBLOCK < 2 ^ 64 /\
  ss_superblocks s = ss_long_superblocks s + ss_short_superblocks s.

Definition ss_codec (m : mode) : codec select_support :=
  with_wf (conv_codec (seq_codec (iv_codec m) (seq_codec (iv_codec m) (iv_codec m)))
                      (fun s => (ss_samples s, (ss_long s, ss_short s))) (ss_from m)) ss_ok.

Definition expected_SelectSupport : layout := mklayout
  []%string ["samples:serialize"; "long:serialize"; "short:serialize"]%string
  ["samples=IntVector"; "long=IntVector"; "short=IntVector"]%string
  ["result.superblocks() != result.long_superblocks() + result.short_superblocks()"]%string
  ["samples"; "long"; "short"]%string.

(* ------------------------------------------------------------------ BitVector *)

Definition bv_enc (m : mode) (b : bitvec) : list byte :=
  le64 (bv_ones b)
  ++ c_enc (raw_codec m) (bv_data b)
  ++ c_enc (option_codec rs_codec) (bv_rank b)
  ++ c_enc (option_codec (ss_codec m)) (bv_select b)
  ++ c_enc (option_codec (ss_codec m)) (bv_select_zero b).

(* `if let Some(value) = x.as_ref() { if count(value) != div_round_up(n, unit) { return Err(InvalidData) } }` *)
Definition check_blocks {A} (m : mode) (o : option A) (count : A -> N) (n unit_size : N) : io unit :=
  match o with
  | None => IoOk tt
  | Some v => let+ expected := io_of_res (f_div_round_up m n unit_size) in
              if negb (count v =? expected) then IoErr InvalidData else IoOk tt
  end.

(* BitVector::load: the checks are interleaved with the reads *)
Definition bv_dec (m : mode) (s : list byte) : io (bitvec * list byte) :=
  let+ (ones, r1) := dec_elem s in
  let+ (data, r2) := c_dec (raw_codec m) r1 in
  if rlen data <? ones then IoErr InvalidData
  else
    let+ (rank, r3) := c_dec (option_codec rs_codec) r2 in
    let+ _ := check_blocks m rank rs_blocks (rlen data) rank_BLOCK_SIZE in
    let+ (sel, r4) := c_dec (option_codec (ss_codec m)) r3 in
    let+ _ := check_blocks m sel ss_superblocks ones select_SUPERBLOCK_SIZE in
    let+ (sel0, r5) := c_dec (option_codec (ss_codec m)) r4 in
    let+ _ := check_blocks m sel0 ss_superblocks (rlen data - ones) select_SUPERBLOCK_SIZE in
    IoOk (mkbv ones data rank sel sel0, r5).

Definition ceil_div (n d : N) : N := (n + d - 1) / d.

(* a plain bitvector with any subset of its supports, each with the block count the loader insists on *)
Definition bv_ok (b : bitvec) : Prop :=
  bv_ones b <= rlen (bv_data b) /\ rlen (bv_data b) + select_SUPERBLOCK_SIZE < 2 ^ 64 /\ raw_ok (bv_data b) /\
  match bv_rank b with None => True
  | Some v => rs_ok v /\ rs_blocks v = ceil_div (rlen (bv_data b)) rank_BLOCK_SIZE end /\
  match bv_select b with None => True
  | Some v => ss_ok v /\ ss_superblocks v = ceil_div (bv_ones b) select_SUPERBLOCK_SIZE end /\
  match bv_select_zero b with None => True
  | Some v => ss_ok v /\ ss_superblocks v = ceil_div (rlen (bv_data b) - bv_ones b) select_SUPERBLOCK_SIZE end.

Definition bv_codec (m : mode) : codec bitvec :=
  mkcodec (bv_enc m) (bv_dec m)
          (fun b => 1 + c_size (raw_codec m) (bv_data b) + c_size (option_codec rs_codec) (bv_rank b)
                    + c_size (option_codec (ss_codec m)) (bv_select b)
                    + c_size (option_codec (ss_codec m)) (bv_select_zero b))
          bv_ok.

Definition expected_BitVector : layout := mklayout
  ["ones:serialize"]%string ["data:serialize"; "rank:serialize"; "select:serialize"; "select_zero:serialize"]%string
  ["ones=usize"; "data=RawVector"; "rank=Option.(RankSupport)"; "select=Option.(SelectSupport(Identity))";
   "select_zero=Option.(SelectSupport(Complement))"]%string
  ["ones > data.len()";
   "value.blocks() != bits::div_round_up(data.len(), RankSupport::BLOCK_SIZE)";
   "value.superblocks() != bits::div_round_up(ones, SelectSupport::<Identity>::SUPERBLOCK_SIZE)";
   "value.superblocks() != bits::div_round_up(data.len() - ones, SelectSupport::<Complement>::SUPERBLOCK_SIZE)"]%string
  ["ones"; "data"; "rank"; "select"; "select_zero"]%string.

(* ------------------------------------------------------------------ RLVector *)

(* `(0..sample_blocks).map(|block| f(block))`: the items SampleIndex::new consumes. The closures read
   samples.get(2 * block [+ 1]) with block < samples.len() / 2 <= 2^63, so the index arithmetic is exact and the
   reads never miss; they are evaluated here before SampleIndex::new instead of lazily inside it, which can only
   change WHICH panic a malformed file produces (an assert of SampleIndex::new or the u64 subtraction), never
   whether it produces one. [n] = number of blocks: bounded by the samples really held in memory. *)
Fixpoint rl_col (f : N -> res N) (n : nat) (block : N) : res (list N) :=
  match n with
  | O => Ok []
  | S k => let* x := f block in let* t := rl_col f k (block + 1) in Ok (x :: t)
  end.

(* RLVector::load after the four fields are read: the sanity check, then the three sample indexes are REBUILT
   from the samples (they are not part of the file) *)
Definition rl_from_fields (m : mode) (p : N * (N * (intvec * intvec))) : io RL.rlvec :=
  let '(len, (ones, (samples, data))) := p in
  let sample_blocks := ilen samples / 2 in
  let+ data_blocks := io_of_res (f_div_round_up m (ilen data) rl_BLOCK_SIZE) in
  if negb (sample_blocks =? data_blocks) then IoErr InvalidData
  else
    let n := N.to_nat sample_blocks in
    let+ tails := io_of_res (rl_col (fun b => iv_get samples (2 * b + 1)) n 0) in
    let+ rank_index := io_of_res (RL.si_new m tails len) in
    let+ firsts := io_of_res (rl_col (fun b => iv_get samples (2 * b)) n 0) in
    let+ select_index := io_of_res (RL.si_new m firsts ones) in
    let+ zeros := io_of_res (usub m len ones) in
    let+ gaps := io_of_res (rl_col (fun b => let* t := iv_get samples (2 * b + 1) in
                                             let* o := iv_get samples (2 * b) in usub m t o) n 0) in
    let+ select_zero_index := io_of_res (RL.si_new m gaps zeros) in
    IoOk (RL.mkrl len ones rank_index select_index select_zero_index samples data).

(* well-formed = the four fields are, and the loader rebuilds exactly this record: true of every vector that
   RLVector::from builds (Proofs/SerRL.v), because From computes the indexes by the same SampleIndex::new from the
   same sample values *)
Definition rl_codec (m : mode) : codec RL.rlvec :=
  conv_codec (seq_codec usize_codec (seq_codec usize_codec (seq_codec (iv_codec m) (iv_codec m))))
             (fun v => (RL.rl_len v, (RL.rl_ones v, (RL.rl_samples v, RL.rl_data v)))) (rl_from_fields m).

Definition expected_RLVector : layout := mklayout
  ["len:serialize"; "ones:serialize"]%string ["samples:serialize"; "data:serialize"]%string
  ["len=usize"; "ones=usize"; "samples=IntVector"; "data=IntVector"]%string
  ["sample_blocks != data_blocks"]%string
  ["len"; "ones"; "samples"; "data"]%string.

(* the blanket impls of serialize.rs *)
Definition expected_V : layout := mklayout []%string ["write_all:buf"]%string ["read_exact:buf"]%string []%string []%string.
Definition expected_Vec_V : layout := mklayout
  ["size:serialize"]%string ["write_all:buf"]%string ["size=usize"; "read_exact:buf"]%string []%string ["1"]%string.
Definition expected_Vec_u8 : layout := mklayout
  ["size:serialize"]%string ["write_all:self.as_slice("; "write_all:&padding[0..padded_len-self.len("]%string
  ["size=usize"; "read_exact:value.as_mut_slice("; "read_exact:&mutpadding[0..padded_len-value.len("]%string []%string ["1"]%string.
Definition expected_String : layout := mklayout
  ["size:serialize"]%string ["write_all:self.as_bytes("; "write_all:&padding[0..padded_len-self.len("]%string
  ["bytes=Vec.(u8)"]%string []%string ["1"]%string.
Definition expected_Option_V : layout := mklayout
  ["size:serialize"]%string ["value:serialize"]%string ["size=usize"; "value=V"]%string []%string ["value"]%string.

(* ------------------------------------------------------------------ supports present in a bitvector *)

(* bit 0 = rank, bit 1 = select, bit 2 = select_zero *)
Definition bv_supports (b : bitvec) : N :=
  (match bv_rank b with Some _ => 1 | None => 0 end)
  + (match bv_select b with Some _ => 2 | None => 0 end)
  + (match bv_select_zero b with Some _ => 4 | None => 0 end).

(* keep only the supports named by the subset *)
Definition bv_restrict (s : N) (b : bitvec) : bitvec :=
  mkbv (bv_ones b) (bv_data b)
       (if N.testbit s 0 then bv_rank b else None)
       (if N.testbit s 1 then bv_select b else None)
       (if N.testbit s 2 then bv_select_zero b else None).

(* one enable_* call: 0 = enable_rank, 1 = enable_select, 2 = enable_select_zero *)
Definition bv_enable_op (sp : selpath) (m : mode) (op : N) (b : bitvec) : res bitvec :=
  if op =? 0 then bv_enable_rank b
  else if op =? 1 then bv_enable_select_t sp m Identity b
  else bv_enable_select_t sp m Complement b.

Fixpoint bv_enable_ops (sp : selpath) (m : mode) (ops : list N) (b : bitvec) : res bitvec :=
  match ops with
  | [] => Ok b
  | op :: t => let* b' := bv_enable_op sp m op b in bv_enable_ops sp m t b'
  end.

(* ------------------------------------------------------------------ a closed universe of the types above *)

Inductive ty :=
| TU64 | TUsize | TPair | TVecU64 | TVecPair | TBytes | TString
| TOpt (t : ty)
| TRaw | TIntVec | TRank | TSelect | TBitVec | TRL.

Fixpoint interp (t : ty) : Type :=
  match t with
  | TU64 | TUsize => N
  | TPair => (N * N)%type
  | TVecU64 => list N
  | TVecPair => list (N * N)
  | TBytes | TString => list byte
  | TOpt t' => option (interp t')
  | TRaw => raw
  | TIntVec => intvec
  | TRank => rank_support
  | TSelect => select_support
  | TBitVec => bitvec
  | TRL => RL.rlvec
  end.

Fixpoint codec_of (m : mode) (t : ty) : codec (interp t) :=
  match t return codec (interp t) with
  | TU64 => u64_codec
  | TUsize => usize_codec
  | TPair => pair_codec
  | TVecU64 => vec_u64_codec
  | TVecPair => vec_pair_codec
  | TBytes => bytes_codec m
  | TString => string_codec m
  | TOpt t' => option_codec (codec_of m t')
  | TRaw => raw_codec m
  | TIntVec => iv_codec m
  | TRank => rs_codec
  | TSelect => ss_codec m
  | TBitVec => bv_codec m
  | TRL => rl_codec m
  end.

(* typed values written back to back in one stream *)
Inductive tval := TV (A : Type) (c : codec A) (x : A).

Fixpoint enc_all (l : list tval) : list byte :=
  match l with [] => [] | TV _ c x :: t => c_enc c x ++ enc_all t end.

(* the reader knows the types (the codecs); the values of [shape] are not looked at *)
Fixpoint dec_all (shape : list tval) (s : list byte) : io (list tval * list byte) :=
  match shape with
  | [] => IoOk ([], s)
  | TV A c _ :: t => let+ (x, r) := c_dec c s in
                     let+ (xs, r') := dec_all t r in
                     IoOk (TV A c x :: xs, r')
  end.
