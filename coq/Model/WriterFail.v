(* Model of the buffered file writers (src/raw_vector.rs `RawVectorWriter`, src/int_vector.rs
   `IntVectorWriter`) over a file whose writes can FAIL (property C14, last clause). No proofs here.

   State, file and the succeeding operations are those of Model/Writer.v (reused, not changed). New here:

   * the sink behind the file handle.  [Limit L]: the file may not grow beyond L bytes (RLIMIT_FSIZE with
     SIGXFSZ ignored, a full disk quota): std's `write_all` loops over write(2); the first call writes the
     bytes that still fit below the limit (a short write), the next call fails with EFBIG and `write_all`
     returns that error. So a `write_all` of k elements at element position p succeeds iff 8*(p+k) <= L, and
     when it fails the elements that fit entirely HAVE been written and the handle has moved behind them.
     (If L is not a multiple of 8, the first L mod 8 bytes of one more element reach the file too; the file is
     observed as whole elements, that tail is not represented.)  [Full]: every write(2) fails with ENOSPC and
     writes nothing (/dev/full).  A `write_all` of an empty slice performs no write(2) at all and succeeds on
     both. The limit is persistent: it is a parameter, not a state. `seek` never fails.

   * the outcome of an operation: [WOk w] returned normally / Ok(()); [WErr e w] returned Err(e) and left the
     writer in state w; [WPanic k w] panicked (k = PUnwrap: `self.flush(FlushMode::Safe).unwrap()` in
     push_bit / push_int, the panic the API documents) leaving state w behind (visible after catch_unwind and to
     Drop during unwinding). The outer [res] is for the buffer operations of Model/Raw.v (never anything but Ok
     for widths <= 64: proved).

   Error handling followed line by line:
     flush:             `self.buf.serialize_body(f)?;` returns BEFORE `self.buf.clear()` and before the overflow is
                        pushed back: after a failed Safe flush the buffer still holds the (already truncated to
                        buf_len) data, the carried bits are lost, `len` still counts them;
     write_header:      `f.seek(..)?; header.push(..); header.push(..); header.serialize_body(f)?`;
     close_with_header: `self.flush(Final)?; self.write_header(header)?; self.file = None` - an error leaves
                        the file open;
     new/with_buf_len:  `result.write_header(header)?` - on error the half-made writer `result` is dropped,
                        which runs Drop, i.e. close() with an empty parent header, errors ignored;
     Drop:              `let _ = self.close();`. *)
From Coq Require Import NArith List Bool.
Require Import SDS.Model.Mach SDS.Model.Bits SDS.Model.Raw SDS.Model.IntVec SDS.Model.Writer SDS.gen.Consts SDS.gen.Funs.
Import ListNotations.
Open Scope N_scope.

(* ---- the sink ---- *)

Inductive fsink := Limit (L : N) | Full.
Inductive werr := EFBIG | ENOSPC.

Definition fs_err (s : fsink) : werr := match s with Limit _ => EFBIG | Full => ENOSPC end.

(* does write_all of k elements at element position pos succeed *)
Definition fs_fits (s : fsink) (pos k : N) : bool :=
  (k =? 0) || match s with Limit L => 8 * (pos + k) <=? L | Full => false end.

(* whole elements that can still be written at pos *)
Definition fs_room (s : fsink) (pos : N) : N := match s with Limit L => L / 8 - pos | Full => 0 end.

(* write_all(ws) at element position pos: ((file, new position), succeeded) *)
Definition fwrite (s : fsink) (disk : list N) (pos : N) (ws : list N) : (list N * N) * bool :=
  if fs_fits s pos (lenN ws) then (file_write disk pos ws, true)
  else
    let part := firstn (N.to_nat (N.min (fs_room s pos) (lenN ws))) ws in
    (match part with [] => (disk, pos) | _ :: _ => file_write disk pos part end, false).

(* ---- outcomes ---- *)

Inductive wout (A : Type) :=
| WOk (a : A)
| WErr (e : werr) (a : A)
| WPanic (k : pkind) (a : A).
Arguments WOk {A} a.
Arguments WErr {A} e a.
Arguments WPanic {A} k a.

(* the state an outcome leaves behind *)
Definition wout_state {A} (o : wout A) : A := match o with WOk a => a | WErr _ a => a | WPanic _ a => a end.
Definition wout_map {A B} (fok ffail : A -> B) (o : wout A) : wout B :=
  match o with WOk a => WOk (fok a) | WErr e a => WErr e (ffail a) | WPanic k a => WPanic k (ffail a) end.

(* ---- RawVectorWriter ---- *)

Definition wf_write_header (s : fsink) (w : writer) (header : list N) : wout writer :=
  match wpos w with
  | Some _ =>
      let header' := header ++ [wlen w; bits_to_words (wlen w)] in
      let '((d, p), ok) := fwrite s (wdisk w) 0 header' in
      let w' := mkw (wlen w) (wbuf_len w) (wbuf w) (Some p) d in
      if ok then WOk w' else WErr (fs_err s) w'
  | None => WOk w
  end.

(* the part of `flush` before the write: the overflow of a Safe flush is cut off the buffer *)
Definition flush_prefix (safe : bool) (w : writer) : res ((N * N) * raw) :=
  if safe && (wbuf_len w <? rlen (wbuf w)) then
    let n := rlen (wbuf w) - wbuf_len w in
    let* v := raw_int (wbuf w) (wbuf_len w) n in
    let* b := raw_resize (wbuf w) (wbuf_len w) false in
    Ok ((v, n), b)
  else Ok ((0, 0), wbuf w).

Definition wf_flush (s : fsink) (safe : bool) (w : writer) : res (wout writer) :=
  match wpos w with
  | None => Ok (WOk w)
  | Some pos =>
      let* (ov, buf1) := flush_prefix safe w in
      let '((d, p), ok) := fwrite s (wdisk w) pos (rdata buf1) in
      if ok then
        let buf2 := raw_clear buf1 in
        let* buf3 := if safe && (0 <? snd ov) then raw_push_int buf2 (fst ov) (snd ov) else Ok buf2 in
        Ok (WOk (mkw (wlen w) (wbuf_len w) buf3 (Some p) d))
      else
        (* `?` returns here: buffer not cleared, overflow not pushed back *)
        Ok (WErr (fs_err s) (mkw (wlen w) (wbuf_len w) buf1 (Some p) d))
  end.

Definition wf_close_with_header (s : fsink) (w : writer) (header : list N) : res (wout writer) :=
  if w_is_open w then
    let* r := wf_flush s false w in
    match r with
    | WOk w1 =>
        match wf_write_header s w1 header with
        | WOk w2 => Ok (WOk (mkw (wlen w2) (wbuf_len w2) (wbuf w2) None (wdisk w2)))
        | other => Ok other
        end
    | other => Ok other
    end
  else Ok (WOk w).

Definition wf_close (s : fsink) (w : writer) : res (wout writer) := wf_close_with_header s w [].

(* Drop: `let _ = self.close();` - whatever close returned is discarded, the state stays *)
Definition wf_drop (s : fsink) (w : writer) : res writer :=
  let* r := wf_close s w in Ok (wout_state r).

(* creation: OpenOptions create+write+truncate gives an empty file with the handle at 0 (opening never
   fails here: the limit concerns writes). If the header cannot be written, the constructor returns the error
   and the half-made writer is dropped. *)
Definition wf_create (s : fsink) (buf_len : N) (header : list N) : res (wout writer) :=
  match wf_write_header s (mkw 0 buf_len (raw_with_capacity (buf_len + bits_WORD_BITS)) (Some 0) []) header with
  | WOk w => Ok (WOk w)
  | WErr e w => let* w' := wf_drop s w in Ok (WErr e w')
  | WPanic k w => Ok (WPanic k w)
  end.

Definition wf_new (s : fsink) (header : list N) : res (wout writer) := wf_create s writer_DEFAULT_BUFFER_SIZE header.

Definition wf_with_buf_len (m : mode) (s : fsink) (header : list N) (buf_len : N) : res (wout writer) :=
  let* r := f_round_up_to_word_bits m buf_len in
  let bl := N.max r bits_WORD_BITS in
  let* _cap := uadd m bl bits_WORD_BITS in
  wf_create s bl header.

(* `self.flush(FlushMode::Safe).unwrap()` *)
Definition unwrap_flush (r : wout writer) : wout writer :=
  match r with WErr _ w => WPanic PUnwrap w | other => other end.

Definition wf_push_bit (s : fsink) (w : writer) (value : bool) : res (wout writer) :=
  let* b := raw_push_bit (wbuf w) value in
  let w1 := mkw (wlen w + 1) (wbuf_len w) b (wpos w) (wdisk w) in
  if wbuf_len w1 <=? rlen (wbuf w1) then let* r := wf_flush s true w1 in Ok (unwrap_flush r) else Ok (WOk w1).

Definition wf_push_int (s : fsink) (w : writer) (value width : N) : res (wout writer) :=
  if width =? 0 then Ok (WOk w)
  else
    let* b := raw_push_int (wbuf w) value width in
    let w1 := mkw (wlen w + width) (wbuf_len w) b (wpos w) (wdisk w) in
    if wbuf_len w1 <=? rlen (wbuf w1) then let* r := wf_flush s true w1 in Ok (unwrap_flush r) else Ok (WOk w1).

Definition wf_step (s : fsink) (w : writer) (o : wop) : res (wout writer) :=
  match o with PBit b => wf_push_bit s w b | PInt v width => wf_push_int s w v width end.

(* the pushes one after the other until one does not return normally; the number counts the pushes that
   returned normally before (so it is the index of the push that panicked), starting from i *)
Fixpoint wf_run (s : fsink) (w : writer) (ops : list wop) (i : N) : res (N * wout writer) :=
  match ops with
  | [] => Ok (i, WOk w)
  | o :: t =>
      let* r := wf_step s w o in
      match r with WOk w' => wf_run s w' t (i + 1) | other => Ok (i, other) end
  end.

(* ---- IntVectorWriter ---- *)

(* None = Err("Integer width must be 1 to 64 bits"). When the inner constructor fails, its half-made
   RawVectorWriter has already been dropped inside it; the state is reported in an iwriter for uniformity. *)
Definition wf_iw_new (s : fsink) (width : N) : option (res (wout iwriter)) :=
  if (width =? 0) || (bits_WORD_BITS <? width) then None
  else Some (let* r := wf_new s [0; 0] in Ok (wout_map (mkiw 0 width) (mkiw 0 width) r)).

Definition wf_iw_with_buf_len (m : mode) (s : fsink) (width buf_len : N) : option (res (wout iwriter)) :=
  if (width =? 0) || (bits_WORD_BITS <? width) then None
  else Some (let* bits := umul m buf_len width in
             let* r := wf_with_buf_len m s [0; 0] bits in
             Ok (wout_map (mkiw 0 width) (mkiw 0 width) r)).

Definition wf_iw_close (s : fsink) (iw : iwriter) : res (wout iwriter) :=
  let* r := wf_close_with_header s (iww iw) [iwlen iw; iwwidth iw] in
  Ok (wout_map (mkiw (iwlen iw) (iwwidth iw)) (mkiw (iwlen iw) (iwwidth iw)) r).

(* `unsafe { self.writer.push_int(value, self.width()); } self.len += 1;` - a panic skips the increment *)
Definition wf_iw_push (s : fsink) (iw : iwriter) (value : N) : res (wout iwriter) :=
  let* r := wf_push_int s (iww iw) value (iwwidth iw) in
  Ok (wout_map (mkiw (iwlen iw + 1) (iwwidth iw)) (mkiw (iwlen iw) (iwwidth iw)) r).

Fixpoint wf_iw_extend (s : fsink) (iw : iwriter) (xs : list N) (i : N) : res (N * wout iwriter) :=
  match xs with
  | [] => Ok (i, WOk iw)
  | x :: t =>
      let* r := wf_iw_push s iw x in
      match r with WOk iw' => wf_iw_extend s iw' t (i + 1) | other => Ok (i, other) end
  end.

(* Drop for IntVectorWriter: `let _ = self.close();`, then the field `writer` is dropped, which runs
   RawVectorWriter's own Drop: close() with an EMPTY parent header if the file is still open *)
Definition wf_iw_drop (s : fsink) (iw : iwriter) : res iwriter :=
  let* r := wf_iw_close s iw in
  let iw1 := wout_state r in
  let* w := wf_drop s (iww iw1) in
  Ok (mkiw (iwlen iw1) (iwwidth iw1) w).
