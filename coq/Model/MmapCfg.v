(* The two details of serialize.rs::MemoryMap that Model/Mmap.v is parametrised by, as they are in the
   CURRENT source. Hand-maintained until the translator extracts them (then this file moves to gen/):

     cur_cmp    <-  MemoryMap::new:   `if ptr == libc::MAP_FAILED {`            => CmpMapFailed
                                      (`if ptr.is_null() {` / `ptr == ptr::null_mut()` => CmpNull)
     cur_unmap  <-  Drop for MemoryMap: second argument of `libc::munmap(self.ptr.cast::<libc::c_void>(), <arg>)`:
                                      `bits::words_to_bytes(self.len)`            => UnmapBytes
                                      (`self.len`                                 => UnmapElements)            *)
Inductive cmp_kind := CmpNull | CmpMapFailed.
Inductive unmap_kind := UnmapElements | UnmapBytes.

Definition cur_cmp : cmp_kind := CmpMapFailed.
Definition cur_unmap : unmap_kind := UnmapBytes.
