(* serialize.rs::MemoryMap over Spec/AddrSpace.v: new, as_ref / as_mut_slice element access, Drop.
   Follows the code; the one-expression helpers of bits.rs are the generated ones (gen/Funs.v), in the build's
   arithmetic mode. Parametrised by what the mmap result is compared with and by the length passed to munmap
   (Model/MmapCfg.v says which the current source uses). No proofs here. *)
From Coq Require Import NArith List Bool.
Require Import SDS.Model.Mach SDS.gen.Funs SDS.Spec.AddrSpace SDS.gen.MmapCfg.
Import ListNotations.
Open Scope N_scope.

Inductive mapping_mode := ReadOnly | Mutable.

(* the three io::Error exits of MemoryMap::new *)
Inductive map_err :=
| ErrOpen      (* open()/metadata() failed: missing file, no permission for the requested mode *)
| ErrSize      (* "File size must be a multiple of 8 bytes" *)
| ErrMmap.     (* "Memory mapping failed" *)

Record memmap := mkM { mm_mode : mapping_mode; mm_ptr : N; mm_len : N }.

Inductive outcome := Mapped (mp : memmap) | Failed (e : map_err).

(* MemoryMap::new(filename, mode); [fsize] = None when the file cannot be opened, else metadata.len().
   The mapping mode selects the open flags and the protection; it does not influence the control flow. *)
Definition map_new (cmp : cmp_kind) (m : mode) (mm : mapping_mode) (fsize : option N) (a : aspace)
  : res (aspace * outcome) :=
  match fsize with
  | None => Ok (a, Failed ErrOpen)
  | Some len =>
      let* r := f_round_up_to_word_bytes m len in          (* len != bits::round_up_to_word_bytes(len) *)
      if negb (len =? r) then Ok (a, Failed ErrSize)
      else
        let pa := mmap a len in                              (* libc::mmap(null, len, prot, MAP_SHARED, fd, 0) *)
        let ptr := fst pa in
        let failed := match cmp with
                      | CmpNull => ptr =? 0
                      | CmpMapFailed => ptr =? MAP_FAILED
                      end in
        if failed then Ok (snd pa, Failed ErrMmap)
        else
          let* l := f_bytes_to_words m len in                (* len: bits::bytes_to_words(len) *)
          Ok (snd pa, Mapped (mkM mm ptr l))
  end.

(* Drop: let _ = libc::munmap(ptr, <length>); the result is ignored *)
Definition map_drop (um : unmap_kind) (m : mode) (mp : memmap) (a : aspace) : res aspace :=
  let* n := match um with
            | UnmapBytes => f_words_to_bytes m (mm_len mp)
            | UnmapElements => Ok (mm_len mp)
            end in
  Ok (snd (munmap a (mm_ptr mp) n)).

(* as_ref()[i]: slice::from_raw_parts(ptr, len), bounds-checked against len, then a load at ptr + 8 i *)
Definition map_get (a : aspace) (file : list N) (mp : memmap) (i : N) : res N :=
  if i <? mm_len mp then read_elem a file (mm_ptr mp + 8 * i) else Panic PIndex.

(* as_mut_slice()[i] = v: returns the new content of the file *)
Definition map_set (a : aspace) (file : list N) (mp : memmap) (i v : N) : res (list N) :=
  if i <? mm_len mp then write_elem a file (mm_ptr mp + 8 * i) v else Panic PIndex.

(* map and drop one file after another; the address space is threaded through *)
Fixpoint cycles (cmp : cmp_kind) (um : unmap_kind) (m : mode) (files : list (mapping_mode * option N)) (a : aspace)
  : res aspace :=
  match files with
  | [] => Ok a
  | (mm, fsize) :: rest =>
      let* ao := map_new cmp m mm fsize a in
      match snd ao with
      | Failed _ => cycles cmp um m rest (fst ao)
      | Mapped mp => let* a2 := map_drop um m mp (fst ao) in cycles cmp um m rest a2
      end
  end.
