(* The `impl Serialize` blocks of wm_core.rs and wavelet_matrix.rs packed as codecs (Model/Ser.v):
     c_enc  = wmcore_enc / wm_enc, c_dec = wmcore_dec / wm_dec of Model/SerComposite.v (the faithful loaders: width
              check, levels read one by one with the common-length check interleaved, init_support; len, core,
              data.len() check, first),
     c_size = size_in_elements (1 for the width + the levels; len + core + first),
     c_wf   = the structures the theorems talk about: the fields are well-formed for their own codecs, the widths
              and lengths are the ones the loader insists on, and the loader's init_support applied to the levels
              returns the levels themselves (as for RLVector: "the loader rebuilds exactly this record"). Every
              core / matrix built by From<Vec<T>> meets it (Proofs/SerWM.v).
   [sp] = the bits::select the LOADING binary uses while it rebuilds the select supports. No proofs here. *)
From Coq Require Import String NArith List Bool.
Require Import SDS.Model.Mach SDS.Model.Bits SDS.Model.Raw SDS.Model.IntVec SDS.Model.BitVec SDS.Model.Ser.
Require Import SDS.Model.WM SDS.Model.SerComposite.
Require Import SDS.gen.Consts SDS.Spec.Stream.
Import ListNotations.
Open Scope N_scope.

(* ------------------------------------------------------------------ WMCore *)

(* for bv in self.levels.iter() { result += bv.size_in_elements(); } *)
Definition levels_size (m : mode) (ls : list bitvec) : N :=
  fold_right (fun b acc => c_size (bv_codec m) b + acc) 0 ls.

(* let mut result = 1; // Width. *)
Definition wmcore_size (m : mode) (c : wmcore) : N := 1 + levels_size m (wc_levels c).

Definition wmcore_ok (sp : selpath) (m : mode) (c : wmcore) : Prop :=
  1 <= wc_width c <= bits_WORD_BITS /\
  Forall bv_ok (wc_levels c) /\
  (exists len, Forall (fun b => bv_len b = len) (wc_levels c)) /\
  init_support sp m (wc_levels c) = Ok (wc_levels c).

Definition wmcore_codec (sp : selpath) (m : mode) : codec wmcore :=
  mkcodec (wmcore_enc m) (wmcore_dec sp m) (wmcore_size m) (wmcore_ok sp m).

Definition expected_WMCore : layout := mklayout
  []%string ["width:serialize"; "bv:serialize"]%string
  ["width=usize"; "bv=BitVector"]%string
  ["width == 0 || width > bits::WORD_BITS"; "bv.len() != len"]%string
  ["1"; "bv"]%string.

(* ------------------------------------------------------------------ WaveletMatrix *)

Definition wm_size (m : mode) (w : wmatrix) : N :=
  1 + wmcore_size m (wm_data w) + c_size (iv_codec m) (wm_first w).

Definition wm_ok (sp : selpath) (m : mode) (w : wmatrix) : Prop :=
  wm_len w < 2 ^ 64 /\ wmcore_ok sp m (wm_data w) /\ wc_len (wm_data w) = Ok (wm_len w) /\ iv_ok (wm_first w).

Definition wm_codec (sp : selpath) (m : mode) : codec wmatrix :=
  mkcodec (wm_enc m) (wm_dec sp m) (wm_size m) (wm_ok sp m).

Definition expected_WaveletMatrix : layout := mklayout
  ["len:serialize"]%string ["data:serialize"; "first:serialize"]%string
  ["len=usize"; "data=WMCore"; "first=IntVector"]%string
  ["data.len() != len"]%string
  ["len"; "data"; "first"]%string.
