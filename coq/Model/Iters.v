(* Models of the iterators of the crate as step functions over the calls of Spec/Deque.v:
     ops.rs          AccessIter (IntVector, IntVectorMapper, WaveletMatrix: anything with Access::get)
     int_vector.rs / wavelet_matrix.rs   IntoIter
     bit_vector.rs   Iter (the functions bi_* of Model/BitVec.v), OneIter<T> (the functions oi_* there)
   and of the std default methods the crate inherits (Iterator::nth, DoubleEndedIterator::nth_back).
   Follows the Rust control flow. No proofs here. *)
From Coq Require Import NArith List Bool.
Require Import SDS.Model.Mach SDS.Model.Bits SDS.Model.Raw SDS.Model.IntVec SDS.Model.BitVec SDS.Spec.Deque SDS.Spec.IterRefs.
Import ListNotations.
Open Scope N_scope.

(* ---------------------------------------------------------------- std defaults *)

(* core::iter::Iterator::advance_by (and advance_back_by with next_back for [next]):
     for _ in 0..n { if self.next().is_none() { return Err(..) } }  Ok(())
   The loop makes at most (items left + 1) calls of next; [fuel] bounds them and running out of it
   is the failure Panic PFuel. Returns whether all n steps were made. *)
Fixpoint std_advance {St A} (next : St -> res (St * option A)) (fuel : nat) (s : St) (n : N) : res (St * bool) :=
  if n =? 0 then Ok (s, true)
  else match fuel with
       | O => Panic PFuel
       | S f =>
           let* (s', o) := next s in
           match o with
           | None => Ok (s', false)
           | Some _ => std_advance next f s' (n - 1)
           end
       end.

(* Iterator::nth / DoubleEndedIterator::nth_back:  self.advance_by(n).ok()?; self.next() *)
Definition std_nth {St A} (next : St -> res (St * option A)) (fuel : nat) (s : St) (n : N) : res (St * option A) :=
  let* (s', all) := std_advance next fuel s n in
  if all then next s' else Ok (s', None).

(* ---------------------------------------------------------------- AccessIter (ops.rs:267-330) *)

(* (next, limit): the first index not used yet, the first index not to use. The arithmetic is exact:
   next <= limit <= parent.len() holds in every reachable state (cur_step_refines in Proofs/IterProof.v
   proves it is kept), so `limit - next`, `next += min(n, limit - next)` and `limit -= ...` neither
   underflow nor overflow. *)
Record cursor := mkcur { c_next : N; c_limit : N }.

Section Cursor.
Context {A : Type}.
Variable get : N -> res A.   (* parent.get(index) *)

Definition cur_start (len : N) : cursor := mkcur 0 len.

Definition cur_next (it : cursor) : res (cursor * option A) :=
  if c_limit it <=? c_next it then Ok (it, None)
  else let* x := get (c_next it) in Ok (mkcur (c_next it + 1) (c_limit it), Some x).

Definition cur_nth (it : cursor) (n : N) : res (cursor * option A) :=
  cur_next (mkcur (c_next it + N.min n (c_limit it - c_next it)) (c_limit it)).

Definition cur_next_back (it : cursor) : res (cursor * option A) :=
  if c_limit it <=? c_next it then Ok (it, None)
  else let* x := get (c_limit it - 1) in Ok (mkcur (c_next it) (c_limit it - 1), Some x).

Definition cur_nth_back (it : cursor) (n : N) : res (cursor * option A) :=
  cur_next_back (mkcur (c_next it) (c_limit it - N.min n (c_limit it - c_next it))).

(* size_hint: (remaining, Some(remaining)) *)
Definition cur_len (it : cursor) : N := c_limit it - c_next it.

Definition cur_step (it : cursor) (c : call) : res (cursor * out A) :=
  match c with
  | Next => let* (it', o) := cur_next it in Ok (it', Item o)
  | Nth k => let* (it', o) := cur_nth it k in Ok (it', Item o)
  | NextBack => let* (it', o) := cur_next_back it in Ok (it', Item o)
  | NthBack k => let* (it', o) := cur_nth_back it k in Ok (it', Item o)
  | Len => Ok (it, Count (cur_len it))
  end.

(* ---------------------------------------------------------------- IntoIter (int_vector.rs:360-400, wavelet_matrix.rs:338-378) *)

(* the iterator owns its parent; the state is the index. nth is the std default. No next_back. *)
Definition into_next (len : N) (index : N) : res (N * option A) :=
  if len <=? index then Ok (index, None)
  else let* x := get index in Ok (index + 1, Some x).

Definition into_len (len : N) (index : N) : N := len - index.

Definition into_step (len : N) (index : N) (c : call) : res (N * out A) :=
  match c with
  | Next => let* (i', o) := into_next len index in Ok (i', Item o)
  | Nth k => let* (i', o) := std_nth (into_next len) (S (N.to_nat (into_len len index))) index k in Ok (i', Item o)
  | Len => Ok (index, Count (into_len len index))
  | NextBack | NthBack _ => Panic PDoc   (* not implemented by the type: never called *)
  end.

End Cursor.

(* AccessIter over an IntVector, and IntVector::into_iter *)
Definition ai_start (v : intvec) : cursor := cur_start (ilen v).
Definition ai_step (v : intvec) : cursor -> call -> res (cursor * out N) := cur_step (iv_get v).
Definition ivinto_step (v : intvec) : N -> call -> res (N * out N) := into_step (iv_get v) (ilen v).

(* ---------------------------------------------------------------- bit_vector::Iter *)

Definition bi_step (b : bitvec) (it : bit_iter) (c : call) : res (bit_iter * out bool) :=
  match c with
  | Next => let* (it', o) := bi_next_f b it in Ok (it', Item o)
  | Nth k => let* (it', o) := bi_nth b it k in Ok (it', Item o)
  | NextBack => let* (it', o) := bi_next_back b it in Ok (it', Item o)
  | NthBack k => let* (it', o) := bi_nth_back b it k in Ok (it', Item o)
  | Len => Ok (it, Count (bi_len it))
  end.

(* ---------------------------------------------------------------- bit_vector::OneIter<T> *)

(* next, nth, next_back and size_hint are the crate's; nth_back is the std default over next_back *)
Definition oi_step (sp : selpath) (m : mode) (t : transf) (b : bitvec) (it : one_iter) (c : call)
  : res (one_iter * out (N * N)) :=
  match c with
  | Next => let* (it', o) := oi_next_f t b it in Ok (it', Item o)
  | Nth k => let* (it', o) := oi_nth sp m t b it k in Ok (it', Item o)
  | NextBack => let* (it', o) := oi_next_back m t b it in Ok (it', Item o)
  | NthBack k =>
      let* (it', o) := std_nth (oi_next_back m t b) (S (N.to_nat (oi_len it))) it k in Ok (it', Item o)
  | Len => Ok (it, Count (oi_len it))
  end.

(* the ways a BitVector hands out a OneIter<T>: which transformation, which initial state *)
Definition oi_entry (sp : selpath) (m : mode) (b : bitvec) (e : entry) : option (transf * res one_iter) :=
  match e with
  | EOne => Some (Identity, Ok (oi_start Identity b))
  | EZero => Some (Complement, Ok (oi_start Complement b))
  | ESelect r => Some (Identity, bv_select_iter_t sp m Identity b r)
  | ESelectZero r => Some (Complement, bv_select_iter_t sp m Complement b r)
  | EPred v => Some (Identity, bv_predecessor sp m b v)
  | ESucc v => Some (Identity, bv_successor sp m b v)
  | _ => None
  end.
