(* IntVectorMapper::get / RawVectorMapper::int as compiled, for a width the library did not write.
   src/int_vector.rs:620  `assert!(index < self.len()); unsafe { self.data.int(index * self.width(), self.width()) }`
   src/raw_vector.rs:968  `if width == 0 { return 0; } bits::read_int(&self.data, bit_offset, width)`
   src/bits.rs:663        `let (index, offset) = split_offset(bit_offset); let first = array[index] >> offset;
                           if offset + width <= WORD_BITS { first & low_set_unchecked(width) }
                           else { first | ((array[index + 1] & low_set_unchecked((offset + width) & OFFSET_MASK))
                                           << (WORD_BITS - offset)) }`
   Model/Bits.v's [read_int] computes `offset + width` and the final shift exactly; that is the code's behaviour
   inside the documented precondition width <= 64 of the unsafe fn (offset < 64, so nothing can wrap, and the else
   branch has offset >= 1).  IntVectorMapper::new takes `width` from the file without looking at it, so the SAFE
   `get` can reach read_int with any 64-bit width.  Here the two operations are the machine's: [uadd m] (Debug:
   overflow panics, Release: wraps mod 2^64) and [ushl m] (Debug: a shift by 64 panics, Release: the amount is
   masked).  `array[i]` on the mapped word slice is MappedSlice's bounds-checked Index.  No proofs here. *)
From Coq Require Import NArith List Bool.
Require Import SDS.Model.Mach SDS.Model.Bits SDS.Model.Mapped SDS.gen.Consts.
Import ListNotations.
Open Scope N_scope.

Definition read_int_w (m : mode) (a : list N) (bo width : N) : res N :=
  let '(index, offset) := split_offset bo in
  let* w0 := idx a index in
  let first := N.shiftr w0 offset in
  let* ow := uadd m offset width in
  if ow <=? bits_WORD_BITS then
    let* ls := low_set_unchecked width in
    Ok (N.land first ls)
  else
    (* index <= 2^58: `index + 1` is exact *)
    let* w1 := idx a (index + 1) in
    let* ls := low_set_unchecked (N.land ow bits_OFFSET_MASK) in
    let* hi := ushl m (N.land w1 ls) (bits_WORD_BITS - offset) in
    Ok (N.lor first hi).

Definition rm_int_w (m : mode) (v : rmapper) (bo width : N) : res N :=
  if width =? 0 then Ok 0
  else match ms_items1 (rm_data v) with
       | Ok d => read_int_w m d bo width
       | _ => (* a slice the mapping does not back: the index check still comes first *)
           if fst (split_offset bo) <? ms_len (rm_data v) then OOB SITE_MAP_WORD else Panic PIndex
       end.

Definition im_get_w (m : mode) (v : imapper) (i : N) : res N :=
  if i <? im_len v then
    let* bo := umul m i (im_width v) in rm_int_w m (im_data v) bo (im_width v)
  else Panic PAssert.
