(* Byte-level model of the loaders of the two structures that EMBED plain bitvectors and enable the support
   structures they need AFTER loading (the data may come from a writer that does not know how to build them):
     WMCore::load        (src/wavelet_matrix/wm_core.rs): width, checked; width levels of one common length;
                         init_support = enable_rank / enable_select / enable_select_zero on every level;
     WaveletMatrix::load (src/wavelet_matrix.rs): len, the core (its length checked against len), first;
     SparseVector::load  (src/sparse_vector.rs): len, high, low; enable_select and enable_select_zero on high;
                         then the two sanity checks.
   Same conventions as Model/Ser.v (statement by statement; every sanity check is IoErr InvalidData; a panic of
   the machine layer stays a panic). No proofs here (Proofs/SerComposite.v). *)
From Coq Require Import NArith List Bool.
Require Import SDS.Model.Mach SDS.Model.Bits SDS.Model.Raw SDS.Model.IntVec SDS.Model.BitVec SDS.Model.Ser.
Require Import SDS.Model.WM SDS.Model.Sparse.
Require Import SDS.gen.Consts SDS.Spec.Stream.
Import ListNotations.
Open Scope N_scope.

(* ------------------------------------------------------------------ WMCore *)

(* serialize_body: width, then the levels back to back (no header) *)
Definition wmcore_enc (m : mode) (c : wmcore) : list byte :=
  le64 (wc_width c) ++ flat_map (c_enc (bv_codec m)) (wc_levels c).

(* for _ in 0..width { bv = BitVector::load; match len { Some(len) => if bv.len() != len { InvalidData },
   None => len = Some(bv.len()) }; levels.push(bv) } *)
Fixpoint wm_levels_dec (m : mode) (n : nat) (len : option N) (s : list byte) : io (list bitvec * list byte) :=
  match n with
  | O => IoOk ([], s)
  | S k =>
      let+ (bv, r) := c_dec (bv_codec m) s in
      match len with
      | Some l => if negb (bv_len bv =? l) then IoErr InvalidData
                  else let+ (t, r') := wm_levels_dec m k len r in IoOk (bv :: t, r')
      | None => let+ (t, r') := wm_levels_dec m k (Some (bv_len bv)) r in IoOk (bv :: t, r')
      end
  end.

(* WMCore::load; sp = the bits::select the loading binary uses while it builds the select supports *)
Definition wmcore_dec (sp : selpath) (m : mode) (s : list byte) : io (wmcore * list byte) :=
  let+ (width, r) := dec_elem s in
  if (width =? 0) || (bits_WORD_BITS <? width) then IoErr InvalidData
  else
    let+ (ls, r') := wm_levels_dec m (N.to_nat width) None r in
    let+ ls' := io_of_res (init_support sp m ls) in
    IoOk (mkcore ls', r').

(* ------------------------------------------------------------------ WaveletMatrix *)

(* header: len; body: data (the core), first *)
Definition wm_enc (m : mode) (w : wmatrix) : list byte :=
  le64 (wm_len w) ++ wmcore_enc m (wm_data w) ++ c_enc (iv_codec m) (wm_first w).

(* WaveletMatrix::load; data.len() is levels[0].len() *)
Definition wm_dec (sp : selpath) (m : mode) (s : list byte) : io (wmatrix * list byte) :=
  let+ (len, r1) := dec_elem s in
  let+ (data, r2) := wmcore_dec sp m r1 in
  let+ dl := io_of_res (wc_len data) in
  if negb (dl =? len) then IoErr InvalidData
  else
    let+ (first, r3) := c_dec (iv_codec m) r2 in
    IoOk (mkwm len data first, r3).

(* ------------------------------------------------------------------ SparseVector *)

(* header: len; body: high, low *)
Definition sparse_enc (m : mode) (v : sparse) : list byte :=
  le64 (sv_len v) ++ c_enc (bv_codec m) (sv_high v) ++ c_enc (iv_codec m) (sv_low v).

Definition sparse_dec (sp : selpath) (m : mode) (s : list byte) : io (sparse * list byte) :=
  let+ (len, r1) := dec_elem s in
  let+ (high, r2) := c_dec (bv_codec m) r1 in
  let+ (low, r3) := c_dec (iv_codec m) r2 in
  let+ h1 := io_of_res (bv_enable_select_t sp m Identity high) in
  let+ h2 := io_of_res (bv_enable_select_t sp m Complement h1) in
  if negb (ilen low =? bv_count_ones h2) then IoErr InvalidData
  else
    let+ buckets := io_of_res (get_buckets len (iwidth low)) in
    let+ total := io_of_res (uadd m (ilen low) buckets) in
    if negb (bv_len h2 =? total) then IoErr InvalidData
    else IoOk (mksv len h2 low, r3).
