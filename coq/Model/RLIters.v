(* The iterators of rl_vector.rs as step functions over the calls of Spec/Deque.v. RunIter, Iter, OneIter and
   ZeroIter implement next (Model/RL.v: ri_next, bi_next, oi_next, zi_next); Iter / OneIter / ZeroIter also
   size_hint (exact: they are ExactSizeIterator). Everything else is inherited from std: nth is
   advance_by(n) + next (Model/Iters.v std_nth). None of them is double-ended. No proofs here. *)
From Coq Require Import NArith List Bool.
Require Import SDS.Model.Mach SDS.Model.Iters SDS.Spec.Deque SDS.Spec.IterRefs.
Require Import SDS.Model.RL.       (* after Iters: the names of Model/RL.v shadow those of Model/BitVec.v *)
Import ListNotations.
Open Scope N_scope.

(* a forward-only iterator: [fuel s] bounds the calls of next that the default nth makes (items left + 1);
   [hint] is the exact size_hint when the type advertises one *)
Definition fwd_step {St A} (next : St -> res (St * option A)) (fuel : St -> nat) (hint : option (St -> N))
    (s : St) (c : call) : res (St * out A) :=
  match c with
  | Next => let* (s', o) := next s in Ok (s', Item o)
  | Nth k => let* (s', o) := std_nth next (fuel s) s k in Ok (s', Item o)
  | Len => match hint with Some h => Ok (s, Count (h s)) | None => Panic PDoc end   (* no exact size: never asked *)
  | NextBack | NthBack _ => Panic PDoc                                             (* not implemented by the type *)
  end.

(* RunIter: size_hint is the std default (0, None); at most one run per two code units is left *)
Definition rl_ri_step (m : mode) (v : rlvec) : runiter -> call -> res (runiter * out (N * N)) :=
  fwd_step (ri_next m v) (fun _ => rl_fuel v) None.

Definition of_hint (n : N) : nat := S (N.to_nat n).

Definition rl_bi_step (m : mode) (v : rlvec) : bititer -> call -> res (bititer * out bool) :=
  fwd_step (bi_next m v) (fun s => of_hint (bi_size_hint v s)) (Some (bi_size_hint v)).
Definition rl_oi_step (m : mode) (v : rlvec) : oneiter -> call -> res (oneiter * out (N * N)) :=
  fwd_step (oi_next m v) (fun s => of_hint (oi_size_hint v s)) (Some (oi_size_hint v)).
Definition rl_zi_step (m : mode) (v : rlvec) : zeroiter -> call -> res (zeroiter * out (N * N)) :=
  fwd_step (zi_next m v) (fun s => of_hint (zi_size_hint v s)) (Some (zi_size_hint v)).

(* the ways an RLVector hands out a OneIter / a ZeroIter *)
Definition rl_oi_entry (m : mode) (v : rlvec) (e : entry) : option (res oneiter) :=
  match e with
  | EOne => Some (rl_one_iter v)
  | ESelect r => Some (rl_select_iter m v r)
  | EPred x => Some (rl_predecessor m v x)
  | ESucc x => Some (rl_successor m v x)
  | _ => None
  end.
Definition rl_zi_entry (m : mode) (v : rlvec) (e : entry) : option (res zeroiter) :=
  match e with
  | EZero => Some (rl_zero_iter m v)
  | ESelectZero r => Some (rl_select_zero_iter m v r)
  | _ => None
  end.
