(* Model of src/rl_vector.rs and src/rl_vector/index.rs: RLBuilder, SampleIndex, RLVector, RunIter and the
   derived iterators. Follows the Rust control flow. No proofs here.

   Numbers: positions / lengths / ranks are N (they reach 2^64-1) and are NEVER converted to nat.
   nat is used only for: the constant fuels 22 (code units of one value) and 64 (binary search), the number of
   code units of [data] (+1) as fuel of the run scans, and the number of samples of a SampleIndex
   (all bounded by real memory).

   Arithmetic:
   * mode-dependent checked ops (uadd/usub/umul/udiv m, f_div_round_up m) wherever a caller-supplied value
     enters arithmetic (builder calls, query arguments), in the whole of RLBuilder, SampleIndex and decode
     (exception: the counts of code units / blocks in flush, which [data] really holds, are exact);
   * exact N in RunIter / the query loops for values derived from the samples and decoded runs:
     every such value is a position or a rank of the vector, bounded by len <= 2^64-1 (the position invariant
     of RunIter in Proofs/RLProof.v); subtractions there are between two such values whose order is given by
     the same invariant (rank <= offset, run start <= run end, ...). *)
From Coq Require Import NArith List Bool.
Require Import SDS.Model.Mach SDS.Model.Bits SDS.Model.Raw SDS.Model.IntVec SDS.gen.Consts SDS.gen.Funs.
Import ListNotations.
Open Scope N_scope.

(* Result<_, _>::unwrap() of the IntVector constructors *)
Definition unwrap_opt {A} (o : option A) : res A := match o with Some a => Ok a | None => Panic PUnwrap end.

(* ------------------------------------------------------------------------------------------------ *)
(* SampleIndex (src/rl_vector/index.rs)                                                               *)

Record sindex := mksi { si_num_values : N; si_divisor : N; si_samples : intvec }.

(* fn parameters(values, universe) -> (samples, divisor) *)
Definition si_parameters (m : mode) (values universe : N) : res (N * N) :=
  let* num_samples := f_div_round_up m values index_RATIO in
  let* q := udiv m universe num_samples in            (* `/` and `%` by zero panic *)
  let* divisor := uadd m q (if universe mod num_samples =? 0 then 0 else 1) in
  let* q2 := udiv m universe divisor in
  let* num_samples := uadd m q2 (if universe mod divisor =? 0 then 0 else 1) in
  Ok (num_samples, divisor).

(* the inner `while next.is_some()` loop: [rest] is what the iterator still holds, its head is `next` *)
Fixpoint si_inner (threshold offset prev : N) (rest : list N) : res (N * N * list N) :=
  match rest with
  | [] => Ok (offset, prev, [])
  | value :: t =>
      if threshold <? value then Ok (offset, prev, rest)
      else if prev <=? value then si_inner threshold (offset + 1) value t   (* offset < number of values *)
      else Panic PAssert
  end.

(* `for sample in 1..samples.len()`; [count] = remaining iterations *)
Fixpoint si_outer (m : mode) (count : nat) (sample divisor : N) (samples : intvec) (offset prev : N) (rest : list N)
  : res (intvec * N) :=
  match count with
  | O => Ok (samples, prev)
  | S k =>
      let* threshold := umul m sample divisor in
      let* (offset', prev', rest') := si_inner threshold offset prev rest in
      let* samples' := iv_set samples sample offset' in
      si_outer m k (sample + 1) divisor samples' offset' prev' rest'
  end.

(* SampleIndex::new(iter, universe); [values] = the items of the ExactSizeIterator *)
Definition si_new (m : mode) (values : list N) (universe : N) : res sindex :=
  let len := lenN values in
  if (len =? 0) || (universe =? 0) then
    let* s := unwrap_opt (iv_with_len 1 1 0) in
    let* s := s in
    Ok (mksi 0 MAXU s)
  else
    let* (num_samples, divisor) := si_parameters m len universe in
    let width := bit_len (len - 1) in
    let* s := unwrap_opt (iv_with_len num_samples width 0) in
    let* samples := s in
    match values with
    | [] => Panic PUnwrap                      (* iter.next().unwrap() *)
    | prev :: rest =>
        if negb (prev =? 0) then Panic PAssert   (* assert_eq!(prev, 0) *)
        else
          let* (samples', prev') := si_outer m (N.to_nat (ilen samples) - 1) 1 divisor samples 0 prev rest in
          if prev' <? universe then Ok (mksi len divisor samples')
          else Panic PAssert
    end.

(* fn range(&self, value) -> start..limit *)
Definition si_range (m : mode) (si : sindex) (value : N) : res (N * N) :=
  let* offset := udiv m value (si_divisor si) in
  let* start := iv_get_or (si_samples si) offset (si_num_values si) in
  let* o1 := uadd m offset 1 in
  let* limit := iv_get_or (si_samples si) o1 (si_num_values si) in
  let limit := if limit <? si_num_values si then limit + 1 else limit in
  Ok (start, limit).

(* ------------------------------------------------------------------------------------------------ *)
(* RLBuilder                                                                                          *)

Record rlbuilder := mkrlb {
  b_len : N; b_ones : N; b_tail : N; b_run : N * N;
  b_samples : list (N * N);      (* Vec<(ones, bits)>, in push order *)
  b_data : intvec }.

Definition rlb_new : res rlbuilder :=
  let* d := unwrap_opt (iv_new rl_CODE_SIZE) in
  Ok (mkrlb 0 0 0 (0, 0) [] d).

Definition rlb_blocks (b : rlbuilder) : N := lenN (b_samples b).
(* self.len() - self.count_ones(): ones <= len *)
Definition rlb_count_zeros (b : rlbuilder) : N := b_len b - b_ones b.

(* fn code_len(value) = div_round_up(bit_len(value), CODE_SHIFT) *)
Definition rl_code_len (m : mode) (value : N) : res N := f_div_round_up m (bit_len value) rl_CODE_SHIFT.

(* fn encode: `while value > CODE_MASK`; a 64-bit value takes at most 22 iterations *)
Fixpoint rl_encode_loop (fuel : nat) (data : intvec) (value : N) : res intvec :=
  match fuel with
  | O => Panic PFuel
  | S k =>
      if rl_CODE_MASK <? value then
        let* d := iv_push data (N.lor (N.land value rl_CODE_MASK) rl_CODE_FLAG) in
        rl_encode_loop k d (N.shiftr value rl_CODE_SHIFT)
      else iv_push data value
  end.
Definition rl_encode (data : intvec) (value : N) : res intvec := rl_encode_loop 22 data value.

(* fn flush *)
Definition rlb_flush (m : mode) (b : rlbuilder) : res rlbuilder :=
  if snd (b_run b) <=? 0 then Ok b
  else
    let* gap := usub m (fst (b_run b)) (b_tail b) in
    let* len1 := usub m (snd (b_run b)) 1 in
    let* c1 := rl_code_len m gap in
    let* c2 := rl_code_len m len1 in
    (* counts of code units / blocks: [data] really holds that many units, so they are bounded by real
       memory and exact *)
    let units_needed := c1 + c2 in
    let have := ilen (b_data b) + units_needed in
    let room := rlb_blocks b * rl_BLOCK_SIZE in
    let* (samples, data) :=
      if room <? have then
        let* d := iv_resize (b_data b) room 0 in
        let* o := usub m (b_ones b) (snd (b_run b)) in
        Ok (b_samples b ++ [(o, b_tail b)], d)
      else Ok (b_samples b, b_data b) in
    let* d1 := rl_encode data gap in
    let* d2 := rl_encode d1 len1 in
    let* tail := uadd m (fst (b_run b)) (snd (b_run b)) in
    Ok (mkrlb (b_len b) (b_ones b) tail (b_len b, 0) samples d2).

(* unsafe fn set_run_unchecked *)
Definition rlb_set_run_unchecked (m : mode) (b : rlbuilder) (start len : N) : res rlbuilder :=
  if len <=? 0 then Ok b
  else if start =? b_len b then
    let* l := uadd m (b_len b) len in
    let* o := uadd m (b_ones b) len in
    let* r := uadd m (snd (b_run b)) len in
    Ok (mkrlb l o (b_tail b) (fst (b_run b), r) (b_samples b) (b_data b))
  else
    let* b1 := rlb_flush m b in
    let* l := uadd m start len in
    let* o := uadd m (b_ones b1) len in
    Ok (mkrlb l o (b_tail b1) (start, len) (b_samples b1) (b_data b1)).

(* fn try_set -> Result<(), String>: the boolean says Ok(()) / Err(_) *)
Definition rlb_try_set (m : mode) (b : rlbuilder) (start len : N) : res (rlbuilder * bool) :=
  if start <? b_len b then Ok (b, false)
  else
    let* d := usub m MAXU len in
    if d <? start then Ok (b, false)
    else let* b' := rlb_set_run_unchecked m b start len in Ok (b', true).

(* unsafe fn set_bit_unchecked *)
Definition rlb_set_bit_unchecked (m : mode) (b : rlbuilder) (index : N) : res rlbuilder :=
  rlb_set_run_unchecked m b index 1.

(* fn set_len *)
Definition rlb_set_len (m : mode) (b : rlbuilder) (len : N) : res rlbuilder :=
  if b_len b <? len then
    let* b1 := rlb_flush m b in
    Ok (mkrlb len (b_ones b1) (b_tail b1) (len, 0) (b_samples b1) (b_data b1))
  else Ok b.

(* ------------------------------------------------------------------------------------------------ *)
(* RLVector                                                                                           *)

Record rlvec := mkrl {
  rl_len : N; rl_ones : N;
  rl_rank_index : sindex; rl_select_index : sindex; rl_select_zero_index : sindex;
  rl_samples : intvec; rl_data : intvec }.

Fixpoint push_samples (v : intvec) (l : list (N * N)) : res intvec :=
  match l with
  | [] => Ok v
  | (ones, bits) :: t =>
      let* v1 := iv_push v ones in
      let* v2 := iv_push v1 bits in
      push_samples v2 t
  end.

(* impl From<RLBuilder> for RLVector *)
Definition rl_from (m : mode) (b0 : rlbuilder) : res rlvec :=
  let* b := rlb_flush m b0 in
  let* rank_index := si_new m (map snd (b_samples b)) (b_len b) in
  let* select_index := si_new m (map fst (b_samples b)) (b_ones b) in
  (* `bits - ones` per sample: ones <= bits *)
  let* select_zero_index := si_new m (map (fun s => snd s - fst s) (b_samples b)) (rlb_count_zeros b) in
  let max_value := snd (last (b_samples b) (0, 0)) in
  let* s0 := unwrap_opt (iv_with_capacity (2 * rlb_blocks b) (bit_len max_value)) in
  let* samples := push_samples s0 (b_samples b) in
  Ok (mkrl (b_len b) (b_ones b) rank_index select_index select_zero_index samples (b_data b)).

Definition rl_count_zeros (v : rlvec) : N := rl_len v - rl_ones v.     (* ones <= len *)
Definition rl_blocks (v : rlvec) : N := ilen (rl_samples v) / 2.

(* fn ones_after(block); block + 1 <= number of blocks + 1 *)
Definition rl_ones_after (v : rlvec) (block : N) : res N :=
  if block + 1 <? rl_blocks v then iv_get (rl_samples v) (2 * (block + 1)) else Ok (rl_ones v).

(* fn decode(offset) -> (value, new offset): at most 22 code units for a 64-bit value *)
Fixpoint rl_decode_loop (fuel : nat) (m : mode) (data : intvec) (value offset shift : N) : res (N * N) :=
  match fuel with
  | O => Panic PFuel
  | S k =>
      let* code := iv_get data offset in
      let offset := offset + 1 in                       (* offset < data.len() here *)
      let* sh := ushl m (N.land code rl_CODE_MASK) shift in
      let* value := uadd m value sh in
      let shift := shift + rl_CODE_SHIFT in
      if N.land code rl_CODE_FLAG =? 0 then Ok (value, offset)
      else rl_decode_loop k m data value offset shift
  end.
Definition rl_decode (m : mode) (v : rlvec) (offset : N) : res (N * N) :=
  rl_decode_loop 22 m (rl_data v) 0 offset 0.

(* fn block_for(low, high, value, f): `high - low` halves, 64 iterations suffice *)
Fixpoint rl_block_for (fuel : nat) (m : mode) (low high value : N) (f : N -> res N) : res N :=
  match fuel with
  | O => Panic PFuel
  | S k =>
      let* d := usub m high low in
      if 1 <? d then
        let mid := low + d / 2 in
        let* candidate := f mid in
        if candidate <=? value then rl_block_for k m mid high value f
        else rl_block_for k m low mid value f
      else Ok low
  end.

(* RunIter: offset in the encoding, pos = (rank, index), limit *)
Record runiter := mkri { ri_offset : N; ri_pos : N * N; ri_limit : N }.
Definition ri_off (it : runiter) : N := snd (ri_pos it).        (* fn offset() *)
Definition ri_rank (it : runiter) : N := fst (ri_pos it).       (* fn rank() *)
Definition ri_rank_zero (it : runiter) : N := ri_off it - ri_rank it.   (* rank <= offset *)

Definition ri_empty (v : rlvec) : runiter := mkri (ilen (rl_data v)) (rl_ones v, rl_len v) (rl_ones v).
(* offset() - (rank() - rank): rank <= rank() and rank() - rank <= offset() *)
Definition ri_offset_for (it : runiter) (rank : N) : N := ri_off it - (ri_rank it - rank).
(* rank() - (offset() - index) *)
Definition ri_rank_at (it : runiter) (index : N) : N := ri_rank it - (ri_off it - index).

Definition rl_run_iter (v : rlvec) : res runiter :=
  let* l := rl_ones_after v 0 in Ok (mkri 0 (0, 0) l).

Definition rl_iter_for_block (v : rlvec) (block : N) : res runiter :=
  let* pos := if ilen (rl_samples v) =? 0 then Ok (0, 0)
              else let* a := iv_get (rl_samples v) (2 * block) in
                   let* b := iv_get (rl_samples v) (2 * block + 1) in Ok (a, b) in
  let* l := rl_ones_after v block in
  Ok (mkri (block * rl_BLOCK_SIZE) pos l).

Definition rl_iter_for_bit (m : mode) (v : rlvec) (index : N) : res runiter :=
  if rl_len v <=? index then Ok (ri_empty v)
  else
    let* (s, e) := si_range m (rl_rank_index v) index in
    let* block := rl_block_for 64 m s e index (fun i => iv_get (rl_samples v) (2 * i + 1)) in
    rl_iter_for_block v block.

Definition rl_iter_for_one (m : mode) (v : rlvec) (rank : N) : res runiter :=
  if rl_ones v <=? rank then Ok (ri_empty v)
  else
    let* (s, e) := si_range m (rl_select_index v) rank in
    let* block := rl_block_for 64 m s e rank (fun i => iv_get (rl_samples v) (2 * i)) in
    rl_iter_for_block v block.

Definition rl_iter_for_zero (m : mode) (v : rlvec) (rank : N) : res runiter :=
  if rl_count_zeros v <=? rank then Ok (ri_empty v)
  else
    let* (s, e) := si_range m (rl_select_zero_index v) rank in
    let* block := rl_block_for 64 m s e rank
                    (fun i => let* b := iv_get (rl_samples v) (2 * i + 1) in
                              let* a := iv_get (rl_samples v) (2 * i) in
                              usub m b a) in
    rl_iter_for_block v block.

(* fn advance_if(advance): the closure is a boolean function of the next run.
   Returns the new iterator state and the value returned to the caller. *)
Definition ri_advance_if (m : mode) (v : rlvec) (it : runiter) (advance : option (N * N) -> bool)
  : res (runiter * option (N * N)) :=
  if ilen (rl_data v) <=? ri_offset it then Ok (it, None)
  else
    (* Some (offset, limit) to go on, None = return None with the iterator given *)
    let* sw :=
      if ri_limit it <=? ri_rank it then
        let* block := f_div_round_up m (ri_offset it) rl_BLOCK_SIZE in
        let offset := block * rl_BLOCK_SIZE in
        if rl_blocks v <=? block then
          Ok (inr (if advance None then mkri offset (ri_pos it) (ri_limit it) else it))
        else
          let* limit := rl_ones_after v block in Ok (inl (offset, limit))
      else Ok (inl (ri_offset it, ri_limit it)) in
    match sw with
    | inr it' => Ok (it', None)
    | inl (offset, limit) =>
        let* (gap, offset1) := rl_decode m v offset in
        let start := ri_off it + gap in
        let* (len, offset2) := rl_decode m v offset1 in
        let result := Some (start, len + 1) in
        if advance result then
          Ok (mkri offset2 (ri_rank it + (len + 1), start + len + 1) limit, result)
        else Ok (it, result)
    end.

Definition ri_next (m : mode) (v : rlvec) (it : runiter) : res (runiter * option (N * N)) :=
  ri_advance_if m v it (fun _ => true).

(* fuel of every scan over runs: each successful next() consumes at least two code units *)
Definition rl_fuel (v : rlvec) : nat := S (N.to_nat (ilen (rl_data v))).

(* run_iter().collect(), with (offset(), rank()) after each item *)
Fixpoint rl_runs_loop (fuel : nat) (m : mode) (v : rlvec) (it : runiter) : res (list (N * N * (N * N))) :=
  match fuel with
  | O => Panic PFuel
  | S k =>
      let* (it', r) := ri_next m v it in
      match r with
      | None => Ok []
      | Some run => let* t := rl_runs_loop k m v it' in Ok ((run, (ri_off it', ri_rank it')) :: t)
      end
  end.
Definition rl_runs (m : mode) (v : rlvec) : res (list (N * N * (N * N))) :=
  let* it := rl_run_iter v in rl_runs_loop (rl_fuel v) m v it.

(* ---- BitVec ---- *)

Fixpoint rl_get_loop (fuel : nat) (m : mode) (v : rlvec) (it : runiter) (index : N) : res bool :=
  match fuel with
  | O => Panic PFuel
  | S k =>
      let* (it', r) := ri_next m v it in
      match r with
      | None => Ok false
      | Some (start, _) =>
          if index <? start then Ok false
          else if index <? ri_off it' then Ok true
          else rl_get_loop k m v it' index
      end
  end.
Definition rl_get (m : mode) (v : rlvec) (index : N) : res bool :=
  let* it := rl_iter_for_bit m v index in rl_get_loop (rl_fuel v) m v it index.

(* Iter *)
Record bititer := mkbi { bi_iter : runiter; bi_run : option (N * N); bi_pos : N }.
Definition rl_iter (v : rlvec) : res bititer :=
  let* it := rl_run_iter v in Ok (mkbi it (Some (0, 0)) 0).
Definition bi_next (m : mode) (v : rlvec) (s : bititer) : res (bititer * option bool) :=
  let* s1 :=
    match bi_run s with
    | Some (start, len) =>
        if start + len <=? bi_pos s then          (* start + len = end of a run <= len *)
          let* (it', r) := ri_next m v (bi_iter s) in Ok (mkbi it' r (bi_pos s))
        else Ok s
    | None => Ok s
    end in
  match bi_run s1 with
  | Some (start, _) =>
      let pos := bi_pos s1 + 1 in                 (* pos < end of the run *)
      Ok (mkbi (bi_iter s1) (bi_run s1) pos, Some (start <? pos))
  | None =>
      if rl_len v <=? bi_pos s1 then Ok (s1, None)
      else Ok (mkbi (bi_iter s1) (bi_run s1) (bi_pos s1 + 1), Some false)
  end.
Definition bi_size_hint (v : rlvec) (s : bititer) : N := rl_len v - bi_pos s.

(* ---- Rank ---- *)

Fixpoint rl_rank_loop (fuel : nat) (m : mode) (v : rlvec) (it : runiter) (index : N) : res N :=
  match fuel with
  | O => Panic PFuel
  | S k =>
      let* (it', r) := ri_next m v it in
      match r with
      | None => Ok (ri_rank it')
      | Some (start, len) =>
          if index <=? start then Ok (ri_rank it' - len)
          else if index <=? ri_off it' then Ok (ri_rank_at it' index)
          else rl_rank_loop k m v it' index
      end
  end.
Definition rl_rank (m : mode) (v : rlvec) (index : N) : res N :=
  let* it := rl_iter_for_bit m v index in rl_rank_loop (rl_fuel v) m v it index.
(* ops.rs default: index - self.rank(index) *)
Definition rl_rank_zero (m : mode) (v : rlvec) (index : N) : res N :=
  let* r := rl_rank m v index in usub m index r.

(* ---- OneIter ---- *)
Record oneiter := mkoi { oi_iter : runiter; oi_got_none : bool; oi_rank : N }.
Definition oi_empty (v : rlvec) : oneiter := mkoi (ri_empty v) true (rl_ones v).
Definition oi_next (m : mode) (v : rlvec) (s : oneiter) : res (oneiter * option (N * N)) :=
  let* s1 :=
    if negb (oi_got_none s) && (ri_rank (oi_iter s) <=? oi_rank s) then
      let* (it', r) := ri_next m v (oi_iter s) in
      Ok (mkoi it' (match r with None => true | Some _ => false end) (oi_rank s))
    else Ok s in
  if oi_got_none s1 then Ok (s1, None)
  else Ok (mkoi (oi_iter s1) (oi_got_none s1) (oi_rank s1 + 1),
           Some (oi_rank s1, ri_offset_for (oi_iter s1) (oi_rank s1))).
Definition oi_size_hint (v : rlvec) (s : oneiter) : N := rl_ones v - oi_rank s.
(* `.next()` on a freshly returned OneIter (what predecessor(v).next() / successor(v).next() evaluate to) *)
Definition oi_first (m : mode) (v : rlvec) (it : res oneiter) : res (option (N * N)) :=
  let* s := it in let* (_, r) := oi_next m v s in Ok r.

(* ---- ZeroIter ---- *)
Record zeroiter := mkzi { zi_iter : runiter; zi_got_none : bool; zi_pos : N * N }.
Definition zi_next (m : mode) (v : rlvec) (s : zeroiter) : res (zeroiter * option (N * N)) :=
  let* s1 :=
    if negb (zi_got_none s) && (ri_rank_zero (zi_iter s) <=? fst (zi_pos s)) then
      let pos1 := ri_off (zi_iter s) in
      let* (it', r) := ri_next m v (zi_iter s) in
      Ok (mkzi it' (match r with None => true | Some _ => false end) (fst (zi_pos s), pos1))
    else Ok s in
  if rl_count_zeros v <=? fst (zi_pos s1) then Ok (s1, None)
  else Ok (mkzi (zi_iter s1) (zi_got_none s1) (fst (zi_pos s1) + 1, snd (zi_pos s1) + 1), Some (zi_pos s1)).
Definition zi_size_hint (v : rlvec) (s : zeroiter) : N := rl_count_zeros v - fst (zi_pos s).

(* ---- Select ---- *)

Definition rl_one_iter (v : rlvec) : res oneiter :=
  let* it := rl_run_iter v in Ok (mkoi it false 0).

(* `while iter.rank() <= rank { iter.next(); }` / `<` for select_iter *)
Fixpoint rl_skip_loop (fuel : nat) (m : mode) (v : rlvec) (it : runiter) (rank : N) (strict : bool) : res runiter :=
  match fuel with
  | O => Panic PFuel
  | S k =>
      if (if strict then ri_rank it <? rank else ri_rank it <=? rank) then
        let* (it', _) := ri_next m v it in rl_skip_loop k m v it' rank strict
      else Ok it
  end.

Definition rl_select (m : mode) (v : rlvec) (rank : N) : res (option N) :=
  if rl_ones v <=? rank then Ok None
  else
    let* it := rl_iter_for_one m v rank in
    let* it' := rl_skip_loop (rl_fuel v) m v it rank false in
    Ok (Some (ri_offset_for it' rank)).

Definition rl_select_iter (m : mode) (v : rlvec) (rank : N) : res oneiter :=
  if rl_ones v <=? rank then Ok (oi_empty v)
  else
    let* it := rl_iter_for_one m v rank in
    let* it' := rl_skip_loop (rl_fuel v) m v it rank true in
    Ok (mkoi it' false rank).

(* ---- SelectZero ---- *)

Definition rl_zero_iter (m : mode) (v : rlvec) : res zeroiter :=
  let* it := rl_run_iter v in
  let* (it', r) := ri_next m v it in
  Ok (mkzi it' (match r with None => true | Some _ => false end) (0, 0)).

(* the common loop of select_zero / select_zero_iter: returns (iterator, got_none, ones) *)
Fixpoint rl_sz_loop (fuel : nat) (m : mode) (v : rlvec) (it : runiter) (ones rank : N) : res (runiter * bool * N) :=
  match fuel with
  | O => Panic PFuel
  | S k =>
      let* (it', r) := ri_next m v it in
      match r with
      | Some _ =>
          if rank <? ri_rank_zero it' then Ok (it', false, ones)
          else rl_sz_loop k m v it' (ri_rank it') rank
      | None => Ok (it', true, ones)
      end
  end.

Definition rl_select_zero (m : mode) (v : rlvec) (rank : N) : res (option N) :=
  if rl_count_zeros v <=? rank then Ok None
  else
    let* it := rl_iter_for_zero m v rank in
    let* (_, _, ones) := rl_sz_loop (rl_fuel v) m v it (ri_rank it) rank in
    let* p := uadd m rank ones in
    Ok (Some p).

Definition rl_select_zero_iter (m : mode) (v : rlvec) (rank : N) : res zeroiter :=
  if rl_count_zeros v <=? rank then Ok (mkzi (ri_empty v) true (rl_count_zeros v, rl_len v))
  else
    let* it := rl_iter_for_zero m v rank in
    let* (it', got_none, ones) := rl_sz_loop (rl_fuel v) m v it (ri_rank it) rank in
    let* p := uadd m rank ones in
    Ok (mkzi it' got_none (rank, p)).

(* ---- PredSucc ---- *)

(* `while iterate { iter.advance_if(|next| ...) }`: the closure sets iterate := next is a run starting <= value *)
Definition pred_adv (value : N) (next : option (N * N)) : bool :=
  match next with None => false | Some (start, _) => start <=? value end.
Fixpoint rl_pred_loop (fuel : nat) (m : mode) (v : rlvec) (it : runiter) (value : N) : res runiter :=
  match fuel with
  | O => Panic PFuel
  | S k =>
      let* (it', r) := ri_advance_if m v it (pred_adv value) in
      if pred_adv value r then rl_pred_loop k m v it' value else Ok it'
  end.

Definition rl_predecessor (m : mode) (v : rlvec) (value : N) : res oneiter :=
  if rl_len v =? 0 then Ok (oi_empty v)
  else
    let value := N.min value (rl_len v - 1) in
    let* it := rl_iter_for_bit m v value in
    let* it' := rl_pred_loop (rl_fuel v) m v it value in
    if ri_rank it' =? 0 then Ok (oi_empty v)
    else
      let rank := if value <? ri_off it' then ri_rank_at it' value else ri_rank it' - 1 in
      Ok (mkoi it' false rank).

Fixpoint rl_succ_loop (fuel : nat) (m : mode) (v : rlvec) (it : runiter) (value : N) : res (option (runiter * N)) :=
  match fuel with
  | O => Panic PFuel
  | S k =>
      let* (it', r) := ri_next m v it in
      match r with
      | None => Ok None
      | Some (start, len) =>
          if value <? start then Ok (Some (it', ri_rank it' - len))
          else if value <? ri_off it' then Ok (Some (it', ri_rank_at it' value))
          else rl_succ_loop k m v it' value
      end
  end.

Definition rl_successor (m : mode) (v : rlvec) (value : N) : res oneiter :=
  if rl_len v <=? value then Ok (oi_empty v)
  else
    let* it := rl_iter_for_bit m v value in
    let* r := rl_succ_loop (rl_fuel v) m v it value in
    match r with
    | None => Ok (oi_empty v)
    | Some (it', rank) => Ok (mkoi it' false rank)
    end.

(* ---- construction from a history of builder calls ---- *)

Inductive bop := BTrySet (start len : N) | BSetLen (len : N) | BSetBit (index : N).

(* runs the calls; the booleans are the Ok/Err results of the try_set calls (true for the other calls) *)
Fixpoint rlb_run (m : mode) (b : rlbuilder) (ops : list bop) : res (rlbuilder * list bool) :=
  match ops with
  | [] => Ok (b, [])
  | o :: t =>
      let* (b', ok) :=
        match o with
        | BTrySet s l => rlb_try_set m b s l
        | BSetLen l => let* b' := rlb_set_len m b l in Ok (b', true)
        | BSetBit i => let* b' := rlb_set_bit_unchecked m b i in Ok (b', true)
        end in
      let* (b'', oks) := rlb_run m b' t in
      Ok (b'', ok :: oks)
  end.

Definition rl_build (m : mode) (ops : list bop) : res (rlvec * list bool) :=
  let* b0 := rlb_new in
  let* (b, oks) := rlb_run m b0 ops in
  let* v := rl_from m b in
  Ok (v, oks).

(* RLVector::copy_bit_vec: set_bit_unchecked per set position, then set_len *)
Definition rl_copy_bit_vec (m : mode) (positions : list N) (len : N) : res rlvec :=
  let* (v, _) := rl_build m (map BSetBit positions ++ [BSetLen len]) in Ok v.

(* Serialize: elements written *)
Definition rl_serialize (v : rlvec) : list N :=
  [rl_len v; rl_ones v] ++ iv_serialize (rl_samples v) ++ iv_serialize (rl_data v).

(* ---- prefixes of the iterators, for observation ---- *)
Fixpoint oi_take (n : nat) (m : mode) (v : rlvec) (s : oneiter) : res (list (N * N)) :=
  match n with
  | O => Ok []
  | S k => let* (s', r) := oi_next m v s in
           match r with None => Ok [] | Some x => let* t := oi_take k m v s' in Ok (x :: t) end
  end.
Fixpoint zi_take (n : nat) (m : mode) (v : rlvec) (s : zeroiter) : res (list (N * N)) :=
  match n with
  | O => Ok []
  | S k => let* (s', r) := zi_next m v s in
           match r with None => Ok [] | Some x => let* t := zi_take k m v s' in Ok (x :: t) end
  end.
Fixpoint bi_take (n : nat) (m : mode) (v : rlvec) (s : bititer) : res (list bool) :=
  match n with
  | O => Ok []
  | S k => let* (s', r) := bi_next m v s in
           match r with None => Ok [] | Some x => let* t := bi_take k m v s' in Ok (x :: t) end
  end.
