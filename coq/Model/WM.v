(* Model of src/wavelet_matrix/wm_core.rs (WMCore), src/wavelet_matrix.rs (WaveletMatrix, ValueIter,
   IntoIter) and the default methods of ops.rs used by them (VectorIndex::predecessor/successor,
   AccessIter). Follows the Rust control flow over the models of BitVector (Model/BitVec.v) and
   IntVector (Model/IntVec.v). One model serves the five `From<Vec<T>>` impls: the macros differ only in
   the item type, items are N below 2^(bits of T) and `bit_value: T = 1 << (width-1-level)` always fits
   because width = bit_len(max item).
   Exact N arithmetic (no overflow possible, stated per site):
     bit_value         width <= 64 (a bit_len), level < width, so the shift is < 64;
     value += bit_value  sum of distinct powers of two below 2^width;
     count_zeros + rank(index)  both parts count disjoint positions of one level, sum <= len < 2^64;
     ValueIter rank += 1 / IntoIter index += 1  guarded by `< len`.
   Mode-dependent arithmetic where a caller-supplied value enters: rank_zero (index - rank), the
   subtractions of `start(value)` in rank / inverse_select, `max_value + 1` in start_offsets.
   The only proof in this file is the totality of the comparison required by the standard library's
   merge sort functor (used for `sort_unstable_by_key`; keys are distinct there, so any sort). *)
From Coq Require Import NArith List Bool Orders Sorting.Mergesort.
Require Import SDS.Model.Mach SDS.Model.Bits SDS.Model.Raw SDS.Model.IntVec SDS.Model.BitVec SDS.Model.SerBV.
Import ListNotations.
Open Scope N_scope.

Record wmcore := mkcore { wc_levels : list bitvec }.
Record wmatrix := mkwm { wm_len : N; wm_data : wmcore; wm_first : intvec }.

(* ---------------------------------------------------------------- WMCore queries *)

(* self.levels[0].len() *)
Definition wc_len (c : wmcore) : res N := let* b := idx (wc_levels c) 0 in Ok (bv_len b).
(* self.levels.len() *)
Definition wc_width (c : wmcore) : N := lenN (wc_levels c).

(* 1 << (self.width() - 1 - level) *)
Definition bit_value (width level : N) : N := N.shiftl 1 (width - 1 - level).
(* value & bit_value != 0 *)
Definition has_bit (value bitv : N) : bool := negb (N.land value bitv =? 0).

(* count_zeros() + rank(index) *)
Definition map_down_one (b : bitvec) (index : N) : res N :=
  let* r := bv_rank_q b index in Ok (bv_count_zeros b + r).
(* rank_zero(index) *)
Definition map_down_zero (m : mode) (b : bitvec) (index : N) : res N := bv_rank_zero m b index.
(* select(index.checked_sub(count_zeros())?) *)
Definition map_up_one (sp : selpath) (m : mode) (b : bitvec) (index : N) : res (option N) :=
  if index <? bv_count_zeros b then Ok None
  else bv_select_t sp m Identity b (index - bv_count_zeros b).
(* select_zero(index) *)
Definition map_up_zero (sp : selpath) (m : mode) (b : bitvec) (index : N) : res (option N) :=
  bv_select_t sp m Complement b index.

(* for level in 0..width { if levels[level].get(index) {..} else {..} }: [ls] are the levels from [level] on *)
Fixpoint map_down_loop (m : mode) (width : N) (ls : list bitvec) (level index value : N) : res (N * N) :=
  match ls with
  | [] => Ok (index, value)
  | b :: t =>
      let* bit := bv_get b index in
      if bit then
        let* i' := map_down_one b index in
        map_down_loop m width t (level + 1) i' (value + bit_value width level)
      else
        let* i' := map_down_zero m b index in
        map_down_loop m width t (level + 1) i' value
  end.

Definition wc_map_down (m : mode) (c : wmcore) (index : N) : res (option (N * N)) :=
  let* len := wc_len c in
  if len <=? index then Ok None
  else let* r := map_down_loop m (wc_width c) (wc_levels c) 0 index 0 in Ok (Some r).

Fixpoint map_down_with_loop (m : mode) (width : N) (ls : list bitvec) (level index value : N) : res N :=
  match ls with
  | [] => Ok index
  | b :: t =>
      let* i' := if has_bit value (bit_value width level) then map_down_one b index
                 else map_down_zero m b index in
      map_down_with_loop m width t (level + 1) i' value
  end.

Definition wc_map_down_with (m : mode) (c : wmcore) (index value : N) : res N :=
  let* len := wc_len c in
  map_down_with_loop m (wc_width c) (wc_levels c) 0 (N.min index len) value.

Fixpoint map_down_two_loop (m : mode) (width : N) (ls : list bitvec) (level first second value : N) : res (N * N) :=
  match ls with
  | [] => Ok (first, second)
  | b :: t =>
      if has_bit value (bit_value width level) then
        let* f' := map_down_one b first in
        let* s' := map_down_one b second in
        map_down_two_loop m width t (level + 1) f' s' value
      else
        let* f' := map_down_zero m b first in
        let* s' := map_down_zero m b second in
        map_down_two_loop m width t (level + 1) f' s' value
  end.

Definition wc_map_down_with_two (m : mode) (c : wmcore) (first second value : N) : res (N * N) :=
  let* len := wc_len c in
  map_down_two_loop m (wc_width c) (wc_levels c) 0 (N.min first len) (N.min second len) value.

(* for level in (0..width).rev(): [rls] are the levels below [above] in reverse order; `?` returns None *)
Fixpoint map_up_loop (sp : selpath) (m : mode) (width : N) (rls : list bitvec) (above index value : N)
  : res (option N) :=
  match rls with
  | [] => Ok (Some index)
  | b :: t =>
      let level := above - 1 in
      let* o := if has_bit value (bit_value width level) then map_up_one sp m b index
                else map_up_zero sp m b index in
      match o with
      | None => Ok None
      | Some i' => map_up_loop sp m width t level i' value
      end
  end.

Definition wc_map_up_with (sp : selpath) (m : mode) (c : wmcore) (index value : N) : res (option N) :=
  map_up_loop sp m (wc_width c) (rev (wc_levels c)) (wc_width c) index value.

(* ---------------------------------------------------------------- WMCore construction *)

(* the loop body of From<Vec<T>>: the bit column of the current source, then the stable partition *)
Fixpoint core_levels (fuel : nat) (width level : N) (source : list N) : res (list bitvec) :=
  match fuel with
  | O => Ok []
  | S k =>
      let bitv := bit_value width level in
      let column := map (fun v => has_bit v bitv) source in
      let zeros := filter (fun v => negb (has_bit v bitv)) source in
      let ones := filter (fun v => has_bit v bitv) source in
      let* bv := bv_from_bits column in
      let* rest := core_levels k width (level + 1) (zeros ++ ones) in
      Ok (bv :: rest)
  end.

(* the ideal content of the levels (what the bitvectors built above must store): the bit column of every
   level. Used to state the proofs; not part of the executable path *)
Fixpoint level_columns (fuel : nat) (width level : N) (source : list N) : list (list bool) :=
  match fuel with
  | O => []
  | S k =>
      let bitv := bit_value width level in
      map (fun v => has_bit v bitv) source
      :: level_columns k width (level + 1)
           (filter (fun v => negb (has_bit v bitv)) source ++ filter (fun v => has_bit v bitv) source)
  end.
Definition wm_columns (V : list N) : list (list bool) :=
  let width := bit_len (list_max V) in level_columns (N.to_nat width) width 0 V.

(* init_support: enable_rank, enable_select, enable_select_zero (enable_pred_succ then finds both enabled) *)
Fixpoint init_support (sp : selpath) (m : mode) (ls : list bitvec) : res (list bitvec) :=
  match ls with
  | [] => Ok []
  | b :: t => let* b' := bv_enable_all sp m b in
              let* t' := init_support sp m t in Ok (b' :: t')
  end.

Definition wm_core_from (sp : selpath) (m : mode) (V : list N) : res wmcore :=
  let max_value := list_max V in
  let width := bit_len max_value in
  let* ls := core_levels (N.to_nat width) width 0 V in
  let* ls' := init_support sp m ls in
  Ok (mkcore ls').

(* ---------------------------------------------------------------- start_offsets *)

(* sort_unstable_by_key on (value, count) pairs: merge sort on (key, pair) *)
Module KeyOrder <: TotalLeBool.
  Definition t := (N * (N * N))%type.
  Definition leb (x y : t) : bool := fst x <=? fst y.
  Theorem leb_total : forall x y, leb x y = true \/ leb y x = true.
  Proof.
    intros x y. unfold leb. destruct (N.leb_spec (fst x) (fst y)) as [H|H]; [left; reflexivity|right].
    apply N.leb_le. apply N.lt_le_incl. exact H.
  Qed.
End KeyOrder.
Module KeySort := Sort KeyOrder.

Definition sort_by_key (key : N * N -> N) (l : list (N * N)) : list (N * N) :=
  map snd (KeySort.sort (map (fun p => (key p, p)) l)).

Fixpoint seq_from (i : N) (n : nat) : list N :=
  match n with O => [] | S k => i :: seq_from (i + 1) k end.

(* counts[value as usize].1 += 1 *)
Fixpoint inc_count (cs : list (N * N)) (i : N) : res (list (N * N)) :=
  match cs with
  | [] => Panic PIndex
  | (v, c) :: t => if i =? 0 then Ok ((v, c + 1) :: t)
                   else let* t' := inc_count t (i - 1) in Ok ((v, c) :: t')
  end.
Fixpoint count_values (cs : list (N * N)) (V : list N) : res (list (N * N)) :=
  match V with
  | [] => Ok cs
  | x :: t => let* cs' := inc_count cs x in count_values cs' t
  end.

(* replace occurrence counts with the prefix sum in the sorted order; `len` for absent values *)
Fixpoint prefix_pass (len : N) (cs : list (N * N)) (cum : N) : list (N * N) :=
  match cs with
  | [] => []
  | (v, c) :: t => if c =? 0 then (v, len) :: prefix_pass len t cum
                   else (v, cum) :: prefix_pass len t (cum + c)
  end.

(* the offsets, by value 0..=max_value. `(max_value + 1) as usize` is the capacity request; an alphabet
   whose table cannot be allocated is outside the model (the process aborts), so max_value is a real
   table size here and N.to_nat is harmless *)
Definition first_offsets (m : mode) (V : list N) (len max_value : N) : res (list N) :=
  let* cap := uadd m max_value 1 in
  let counts0 := map (fun i => (i, 0)) (seq_from 0 (N.to_nat (max_value + 1))) in
  let* counts := count_values counts0 V in
  let sorted := sort_by_key (fun p => reverse_bits (fst p)) counts in
  let sums := prefix_pass len sorted 0 in
  let back := sort_by_key fst sums in
  Ok (map snd back).

(* collect into an IntVector (FromIterator<usize>: width 64), then pack *)
Definition start_offsets (m : mode) (V : list N) (len max_value : N) : res intvec :=
  let* offs := first_offsets m V len max_value in
  let* iv := iv_from 64 offs in
  iv_pack iv.

(* ---------------------------------------------------------------- WaveletMatrix *)

Definition wm_from (sp : selpath) (m : mode) (V : list N) : res wmatrix :=
  let len := lenN V in
  let max_value := list_max V in
  let* first := start_offsets m V len max_value in
  let* data := wm_core_from sp m V in
  Ok (mkwm len data first).

Definition wm_width (w : wmatrix) : N := wc_width (wm_data w).

(* self.first.get(value as usize) as usize *)
Definition wm_start (w : wmatrix) (value : N) : res N := iv_get (wm_first w) value.

(* (value as usize) < self.first.len() && self.start(value) < self.len() *)
Definition wm_contains (w : wmatrix) (value : N) : res bool :=
  if value <? ilen (wm_first w) then
    let* s := wm_start w value in Ok (s <? wm_len w)
  else Ok false.

Definition wm_rank (m : mode) (w : wmatrix) (index value : N) : res N :=
  let* c := wm_contains w value in
  if negb c then Ok 0
  else
    let* d := wc_map_down_with m (wm_data w) index value in
    let* s := wm_start w value in
    usub m d s.

Definition wm_inverse_select (m : mode) (w : wmatrix) (index : N) : res (option (N * N)) :=
  let* o := wc_map_down m (wm_data w) index in
  match o with
  | None => Ok None
  | Some (i, v) => let* s := wm_start w v in
                   let* r := usub m i s in Ok (Some (r, v))
  end.

(* self.inverse_select(index).unwrap().1 *)
Definition wm_get (m : mode) (w : wmatrix) (index : N) : res N :=
  let* o := wm_inverse_select m w index in
  match o with None => Panic PUnwrap | Some (_, v) => Ok v end.

Definition wm_select (sp : selpath) (m : mode) (w : wmatrix) (rank value : N) : res (option N) :=
  let* c := wm_contains w value in
  if negb c then Ok None
  else
    let* s := wm_start w value in
    (* checked_add *)
    if s + rank <? 2 ^ 64 then wc_map_up_with sp m (wm_data w) (s + rank) value
    else Ok None.

(* ValueIter { value, rank } *)
Record viter := mkvi { vi_value : N; vi_rank : N }.
Definition wm_value_iter (value : N) : viter := mkvi value 0.
Definition wm_select_iter (rank value : N) : viter := mkvi value rank.
Definition wm_value_of (it : viter) : N := vi_value it.

Definition vi_next (sp : selpath) (m : mode) (w : wmatrix) (it : viter) : res (viter * option (N * N)) :=
  if wm_len w <=? vi_rank it then Ok (it, None)
  else
    let* o := wm_select sp m w (vi_rank it) (vi_value it) in
    match o with
    | Some index => Ok (mkvi (vi_value it) (vi_rank it + 1), Some (vi_rank it, index))
    | None => Ok (mkvi (vi_value it) (wm_len w), None)
    end.

(* everything the iterator yields until its first None *)
Fixpoint vi_collect (sp : selpath) (m : mode) (w : wmatrix) (fuel : nat) (it : viter) : res (list (N * N)) :=
  match fuel with
  | O => Panic PFuel
  | S k => let* (it', r) := vi_next sp m w it in
           match r with
           | None => Ok []
           | Some x => let* rest := vi_collect sp m w k it' in Ok (x :: rest)
           end
  end.
(* at most len items, then one None *)
Definition vi_fuel (w : wmatrix) : nat := S (N.to_nat (wm_len w)).
Definition vi_items (sp : selpath) (m : mode) (w : wmatrix) (it : viter) : res (list (N * N)) :=
  vi_collect sp m w (vi_fuel w) it.

(* ops.rs defaults *)
Definition wm_predecessor (m : mode) (w : wmatrix) (index value : N) : res viter :=
  let* rank := wm_rank m w (sat_add1 index) value in
  Ok (wm_select_iter (if 0 <? rank then rank - 1 else wm_len w) value).
Definition wm_successor (m : mode) (w : wmatrix) (index value : N) : res viter :=
  let* rank := wm_rank m w index value in
  Ok (wm_select_iter rank value).

(* IntoIter { parent, index } / AccessIter { parent, next, limit = len } going forward *)
Fixpoint wm_iter_collect (m : mode) (w : wmatrix) (fuel : nat) (index : N) : res (list N) :=
  match fuel with
  | O => Panic PFuel
  | S k => if wm_len w <=? index then Ok []
           else let* x := wm_get m w index in
                let* rest := wm_iter_collect m w k (index + 1) in Ok (x :: rest)
  end.
Definition wm_into_iter (m : mode) (w : wmatrix) : res (list N) :=
  wm_iter_collect m w (S (N.to_nat (wm_len w))) 0.

(* ---------------------------------------------------------------- serialization (elements) *)

Definition wc_serialize (c : wmcore) : list N :=
  wc_width c :: flat_map bv_serialize (wc_levels c).
Definition wm_serialize (w : wmatrix) : list N :=
  wm_len w :: wc_serialize (wm_data w) ++ iv_serialize (wm_first w).
