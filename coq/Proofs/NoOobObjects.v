(* The safe entry points of the bitvector's helper objects (Model/BitVecObj.v): Transformation::{bit, word},
   RankSupport::rank, SelectSupport::select. Called with ANY argument and ANY parent - also one the support was
   not built for - they return a value or panic (index / assertion / overflow), never leave a buffer and never
   exhaust the fuel of the model's loop; with the matching parent and an argument in range they return the exact
   answer (via the C01 results about rank_unchecked / select_unchecked). *)
From Coq Require Import NArith List Lia ZArith Bool.
Require Import SDS.Model.Mach SDS.Model.Bits SDS.Model.Raw SDS.Model.IntVec SDS.Model.BitVec SDS.Model.BitVecObj
               SDS.gen.Consts.
Require Import SDS.Spec.BitSeq SDS.Proofs.BitsProof SDS.Proofs.BVCommon SDS.Proofs.RankProof SDS.Proofs.OneIterProof
               SDS.Proofs.SelectProof SDS.Proofs.NoOobProof.
Import ListNotations.
Open Scope N_scope.
Require Import ZifyBool ZifyN ZifyNat.
Ltac Zify.zify_post_hook ::= Z.div_mod_to_equations.
Arguments N.add : simpl never.
Arguments N.sub : simpl never.
Arguments N.mul : simpl never.
Arguments N.div : simpl never.
Arguments N.modulo : simpl never.
Arguments N.pow : simpl never.
Arguments N.land : simpl never.
Arguments N.shiftr : simpl never.
Arguments N.shiftl : simpl never.
Arguments N.leb : simpl never.
Arguments N.ltb : simpl never.
Arguments N.eqb : simpl never.

(* ================================================================ outcomes *)

(* a value, or one of the three defined panics of these entry points *)
Definition dfn {A} (r : res A) : Prop :=
  (exists v, r = Ok v) \/ r = Panic PIndex \/ r = Panic PAssert \/ r = Panic POverflow.

Lemma dfn_ok {A} (a : A) : dfn (Ok a). Proof. left. eauto. Qed.
Lemma dfn_bind {A B} (r : res A) (f : A -> res B) :
  dfn r -> (forall a, r = Ok a -> dfn (f a)) -> dfn (bind r f).
Proof.
  intros [[a ->]|[ -> |[ -> | -> ]]] H; cbn [bind]; [apply H; reflexivity| | |]; right; auto.
Qed.
Lemma dfn_ok_or {A} (r : res A) : ok_or PIndex r -> dfn r.
Proof. intros [[a ->]| ->]; [apply dfn_ok|right; auto]. Qed.
Lemma dfn_uadd m a b : dfn (uadd m a b).
Proof. unfold uadd. destruct (_ <? _); [apply dfn_ok|destruct m; [right; auto|apply dfn_ok]]. Qed.
Lemma dfn_iv_get v i : iwidth v <= 64 -> dfn (iv_get v i).
Proof.
  intros Hw. destruct (iv_get_class v i Hw) as [H1 H2].
  destruct (N.lt_ge_cases i (ilen v)) as [Hi|Hi]; [apply dfn_ok_or, H1, Hi|rewrite H2 by exact Hi; right; auto].
Qed.
Lemma dfn_safe {A} (r : res A) : dfn r -> is_oob r = false.
Proof. intros [[a ->]|[ -> |[ -> | -> ]]]; reflexivity. Qed.
Lemma dfn_not_fuel {A} (r : res A) : dfn r -> r <> Panic PFuel.
Proof. intros [[a ->]|[ -> |[ -> | -> ]]]; discriminate. Qed.

(* ================================================================ Transformation::bit *)

Lemma t_bit_class t b i : ok_or PIndex (t_bit t b i).
Proof.
  destruct t; cbn [t_bit]; [apply ok_or_raw_bit|].
  apply ok_or_bind; [apply ok_or_raw_bit|]. intros a _. apply ok_or_ok.
Qed.

Lemma getb_t_bits t B i x : getb B i = Some x ->
  getb (t_bits t B) i = Some (match t with Identity => x | Complement => negb x end).
Proof. intros H. destruct t; cbn [t_bits]; [exact H|]. rewrite getb_map, H. reflexivity. Qed.

(* inside the sequence: the bit of the transformed sequence; in the unused part of the last word: the padding
   (false, resp. its complement); beyond the words: the index panic *)
Theorem t_bit_spec t b B i : bv_repr b B ->
  (i < lenB B -> exists x, t_bit t b i = Ok x /\ getb (t_bits t B) i = Some x) /\
  (lenB B <= i -> i < 64 * nwords B ->
     t_bit t b i = Ok (match t with Identity => false | Complement => true end)) /\
  (64 * nwords B <= i -> t_bit t b i = Panic PIndex).
Proof.
  intros Hrep. destruct (repr_facts b B Hrep) as (HL & Hlt & Hnw & Hwf & Hbit & _).
  split; [|split].
  - intros Hi. rewrite HL in Hi. destruct (bv_get_correct b B i Hrep Hi) as (x & E & G).
    destruct t; cbn [t_bit]; rewrite E; cbn [bind]; eexists; (split; [reflexivity|]).
    + exact G.
    + exact (getb_t_bits Complement B i x G).
  - intros Hge Hin.
    assert (E : bv_get b i = Ok false).
    { unfold bv_get, raw_bit. rewrite split_offset_spec.
      rewrite idx_getw by (rewrite Hnw; lia). cbn [bind]. f_equal.
      rewrite land1_testbit, N.shiftr_spec', N.add_0_l.
      change (N.testbit (getw (rdata (bv_data b)) (i / 64)) (i mod 64)) with (bit (rdata (bv_data b)) i).
      rewrite <- Hbit. unfold bitB. rewrite getb_None by exact Hge. reflexivity. }
    destruct t; cbn [t_bit]; rewrite E; reflexivity.
  - intros Hge.
    assert (E : bv_get b i = Panic PIndex).
    { unfold bv_get, raw_bit. rewrite split_offset_spec. unfold idx.
      assert (N : nthN (rdata (bv_data b)) (i / 64) = None) by (apply nthN_None_ge; rewrite Hnw; lia).
      rewrite N. reflexivity. }
    destruct t; cbn [t_bit]; rewrite E; reflexivity.
Qed.

(* ================================================================ Transformation::word *)

(* wherever the unchecked reader is inside the buffer the safe one returns the same word *)
Lemma t_word_of_unchecked t b k w : t_word_unchecked t b k = Ok w -> t_word t b k = Ok w.
Proof.
  destruct t; cbn [t_word_unchecked t_word].
  - unfold raw_word_unchecked, raw_word, idx_unchecked, idx.
    destruct (nthN (rdata (bv_data b)) k); [auto|discriminate].
  - rewrite split_offset_spec. unfold raw_word_unchecked, raw_word, idx_unchecked, idx.
    destruct (nthN (rdata (bv_data b)) k) as [w0|]; cbn [bind]; [|discriminate].
    destruct (bv_len b / 64 <=? k); auto.
Qed.

Lemma t_word_beyond t b B k : bv_repr b B -> nwords B <= k -> t_word t b k = Panic PIndex.
Proof.
  intros Hrep Hk. destruct (repr_facts b B Hrep) as (HL & _ & Hnw & _).
  assert (N : nthN (rdata (bv_data b)) k = None) by (apply nthN_None_ge; rewrite Hnw; exact Hk).
  destruct t; cbn [t_word].
  - unfold raw_word, idx. rewrite N. reflexivity.
  - rewrite split_offset_spec. unfold nwords in Hk. rewrite HL in Hk.
    replace (bv_len b / 64 <=? k) with true by lia.
    unfold raw_word, idx. rewrite N. reflexivity.
Qed.

Theorem t_word_spec t b B k : bv_repr b B ->
  (k < nwords B -> exists w, t_word t b k = Ok w /\ t_word_unchecked t b k = Ok w /\ wseg (t_bits t B) k 0 64 w) /\
  (nwords B <= k -> t_word t b k = Panic PIndex).
Proof.
  intros Hrep. split.
  - intros Hk. destruct (t_word_view t b B k Hrep Hk) as (w & E & Hseg). exists w.
    split; [apply t_word_of_unchecked, E|]. split; [exact E|exact Hseg].
  - apply t_word_beyond, Hrep.
Qed.

Lemma t_word_class t b B k : bv_repr b B -> ok_or PIndex (t_word t b k).
Proof.
  intros Hrep. destruct (t_word_spec t b B k Hrep) as [H1 H2].
  destruct (N.lt_ge_cases k (nwords B)) as [Hk|Hk].
  - destruct (H1 Hk) as (w & E & _). left. eauto.
  - right. apply H2, Hk.
Qed.

(* the statement of Props/C08_objects.v, bit-level *)
Theorem t_word_full t b B k : bv_repr b B ->
  (k < (lenB B + 63) / 64 ->
     exists w, t_word t b k = Ok w /\ w < 2 ^ 64 /\
               (forall j, j < 64 -> N.testbit w j = bitB (t_bits t B) (64 * k + j))) /\
  ((lenB B + 63) / 64 <= k -> t_word t b k = Panic PIndex).
Proof.
  intros Hrep. destruct (t_word_spec t b B k Hrep) as [H1 H2]. split; [|exact H2].
  intros Hk. destruct (H1 Hk) as (w & E & _ & Hlt & Hseg). exists w. split; [exact E|]. split; [exact Hlt|].
  intros j Hj. rewrite (Hseg j Hj). replace (0 <=? j) with true by lia. replace (j <? 64) with true by lia. reflexivity.
Qed.

(* the narrowed test reads the word behind a one-word vector of 64 bits through the unchecked accessor *)
Definition obj_bv64 : bitvec := bv_from_raw (mkraw 64 [6148914691236517205]).
Lemma obj_bv64_repr : bv_repr obj_bv64 (bits_of 64 [6148914691236517205]).
Proof. apply bv_from_raw_repr, raw_wfb_ok. vm_compute. reflexivity. Qed.

Theorem t_word_mut_refuted :
  exists b B, bv_repr b B /\ bv_len b = 64 /\
    t_word_mut Complement b 1 = OOB SITE_RAW_WORD /\ t_word Complement b 1 = Panic PIndex.
Proof.
  exists obj_bv64, (bits_of 64 [6148914691236517205]). split; [exact obj_bv64_repr|].
  split; [reflexivity|]. split; vm_compute; reflexivity.
Qed.

(* ================================================================ RankSupport::rank *)

(* any support, any parent (no hypothesis at all), any index, both modes *)
Theorem rank_checked_class m rs b i : dfn (rank_checked m rs b i).
Proof.
  unfold rank_checked. rewrite split_offset_spec.
  apply dfn_bind; [apply dfn_ok_or, ok_or_idx|]. intros [bs rel] _.
  apply dfn_bind; [apply dfn_ok_or, ok_or_raw_word|]. intros w _.
  rewrite low_set_unchecked_ok by lia. cbn [bind].
  apply dfn_bind; [apply dfn_uadd|]. intros s _. apply dfn_uadd.
Qed.

(* an index whose block the support does not have, or whose word the parent does not have: the index panic *)
Lemma rank_checked_beyond m rs b i :
  lenN (rs_samples rs) <= i / 512 \/ lenN (rdata (bv_data b)) <= i / 64 -> rank_checked m rs b i = Panic PIndex.
Proof.
  intros H. unfold rank_checked. rewrite split_offset_spec. change rank_BLOCK_SIZE with 512.
  unfold idx at 1. destruct (nthN (rs_samples rs) (i / 512)) as [[bs rel]|] eqn:E1; cbn [bind]; [|reflexivity].
  destruct H as [H|H]; [apply nthN_Some_lt in E1; lia|].
  unfold raw_word, idx. assert (N : nthN (rdata (bv_data b)) (i / 64) = None) by (apply nthN_None_ge; exact H).
  rewrite N. reflexivity.
Qed.

(* the safe query computes what the unchecked one computes wherever that one is defined *)
Lemma rank_checked_of_unchecked m rs b i v :
  rank_unchecked rs b i = Ok v -> v < 2 ^ 64 -> rank_checked m rs b i = Ok v.
Proof.
  unfold rank_unchecked, rank_checked. rewrite split_offset_spec.
  change rank_WORD_MASK with 7. change rank_WORDS_PER_BLOCK with 8.
  unfold idx_unchecked, idx. destruct (nthN (rs_samples rs) (i / rank_BLOCK_SIZE)) as [[bs rel]|]; cbn [bind]; [|discriminate].
  unfold raw_word_unchecked, raw_word, idx_unchecked, idx.
  destruct (nthN (rdata (bv_data b)) (i / 64)) as [w|]; cbn [bind]; [|discriminate].
  rewrite low_set_unchecked_ok by lia. cbn [bind].
  replace (N.land (i / 64 + 8 - 1) 7) with (N.land (N.land (i / 64) 7 + 8 - 1) 7) by (rewrite !land7; lia).
  intros E Hv. injection E as E. unfold uadd.
  replace (_ <? 2 ^ 64) with true by lia. cbn [bind].
  replace (_ <? 2 ^ 64) with true by lia. f_equal. exact E.
Qed.

Theorem rank_checked_exact m b B rs i :
  bv_repr b B -> rank_new b = Ok rs -> i < bv_len b -> rank_checked m rs b i = Ok (rank1 B i).
Proof.
  intros Hrep Hnew Hi. apply rank_checked_of_unchecked; [exact (rank_unchecked_correct b B rs i Hrep Hnew Hi)|].
  destruct (repr_facts b B Hrep) as (_ & Hlt & _). pose proof (rank1_le_index B i). lia.
Qed.

(* ================================================================ SelectSupport::select *)

(* what every constructor and `load` of IntVector guarantee; nothing is assumed about lengths or contents *)
Definition ss_widths_ok (s : select_support) : Prop :=
  iwidth (ss_samples s) <= 64 /\ iwidth (ss_long s) <= 64 /\ iwidth (ss_short s) <= 64.

Lemma ss_valid_widths t B s : ss_valid t B s -> ss_widths_ok s.
Proof.
  intros (sv & lv & shv & (Hw1 & _) & (Hw2 & _) & (Hw3 & _) & _). unfold ss_widths_ok. lia.
Qed.

(* a support built by SelectSupport::new from ANY bitvector, for either transformation, on either path *)
Lemma select_new_widths sp m t a A s : bv_repr a A -> select_new sp m t a = Ok s -> ss_widths_ok s.
Proof.
  intros Hrep E. destruct (select_new_spec sp m t a A Hrep) as (s' & E' & V & _).
  assert (s' = s) by congruence. subst s'. exact (ss_valid_widths t A s V).
Qed.

(* the scan: every round either finishes or moves to the next word, and T::word refuses the first word behind
   the buffer; the fuel (number of words + 2) is never used up *)
Lemma select_scan_checked_class sp m t b B : bv_repr b B -> forall fuel word value rr,
  value < 2 ^ 64 -> word < nwords B -> nwords B < word + N.of_nat fuel ->
  dfn (select_scan_checked sp m t b fuel word value rr).
Proof.
  intros Hrep. induction fuel as [|fuel IH]; intros word value rr Hv Hw Hf; [lia|].
  cbn [select_scan_checked]. destruct (N.ltb_spec rr (popcount value)) as [Hr|Hr].
  - destruct (word_select_ok sp m value rr Hv Hr) as (p & E & _). rewrite E. cbn [bind]. apply dfn_ok.
  - destruct (t_word_spec t b B (word + 1) Hrep) as [H1 H2].
    destruct (N.lt_ge_cases (word + 1) (nwords B)) as [Hk|Hk].
    + destruct (H1 Hk) as (w & E & _ & Hlt & _). rewrite E. cbn [bind]. apply IH; [exact Hlt|exact Hk|lia].
    + rewrite (H2 Hk). cbn [bind]. right. auto.
Qed.

(* ANY support whose three integer vectors have a width the mask table covers, ANY parent, ANY rank, both
   transformations, both modes, both select paths *)
Theorem select_checked_class sp m t s b B r : bv_repr b B -> ss_widths_ok s ->
  dfn (select_checked sp m t s b r).
Proof.
  intros Hrep (W1 & W2 & W3). unfold select_checked.
  apply dfn_bind; [apply dfn_iv_get, W1|]. intros result _.
  destruct (_ =? 0); [apply dfn_ok|].
  apply dfn_bind; [apply dfn_iv_get, W1|]. intros p _.
  destruct (N.land p 1 =? 0).
  - apply dfn_bind; [apply dfn_iv_get, W2|]. intros d _. apply dfn_uadd.
  - apply dfn_bind; [apply dfn_iv_get, W3|]. intros d _.
    apply dfn_bind; [apply dfn_uadd|]. intros res _.
    destruct (0 <? _); [|apply dfn_ok].
    rewrite split_offset_spec.
    destruct (t_word_spec t b B (res / 64) Hrep) as [H1 H2].
    destruct (N.lt_ge_cases (res / 64) (nwords B)) as [Hk|Hk].
    + destruct (H1 Hk) as (w & E & _ & Hseg). rewrite E. cbn [bind].
      rewrite low_set_unchecked_ok by lia. cbn [bind].
      pose proof (wseg_mask_low _ _ _ _ _ (res mod 64) Hseg ltac:(lia)) as [Hlt _].
      apply (select_scan_checked_class sp m t b B Hrep); [exact Hlt|exact Hk|].
      rewrite (scan_fuel_spec b B Hrep). lia.
    + rewrite (H2 Hk). cbn [bind]. right. auto.
Qed.

Corollary select_checked_any_builder sp0 m0 t0 a A sp m t s b B r :
  bv_repr a A -> select_new sp0 m0 t0 a = Ok s -> bv_repr b B -> dfn (select_checked sp m t s b r).
Proof.
  intros Ha En Hb. apply (select_checked_class sp m t s b B r Hb). exact (select_new_widths sp0 m0 t0 a A s Ha En).
Qed.

(* the checked scan follows the unchecked one wherever that one returns *)
Lemma select_scan_checked_of_unchecked sp m t b : forall fuel word value rr p,
  select_scan sp m t b fuel word value rr = Ok p -> select_scan_checked sp m t b fuel word value rr = Ok p.
Proof.
  induction fuel as [|fuel IH]; intros word value rr p; cbn [select_scan select_scan_checked]; [discriminate|].
  destruct (rr <? popcount value); [auto|].
  destruct (t_word_unchecked t b (word + 1)) as [w| |] eqn:E; cbn [bind]; try discriminate.
  rewrite (t_word_of_unchecked t b (word + 1) w E). cbn [bind]. apply IH.
Qed.

Lemma uadd_exact m a c : a + c < 2 ^ 64 -> uadd m a c = Ok (a + c).
Proof. intros H. unfold uadd. replace (a + c <? 2 ^ 64) with true by lia. reflexivity. Qed.

Lemma select_checked_of_unchecked sp m t s b B r p : bv_repr b B ->
  select_unchecked sp m t s b r = Ok p -> p < 2 ^ 64 -> select_checked sp m t s b r = Ok p.
Proof.
  intros Hrep. destruct (repr_facts b B Hrep) as (HL & Hlt & Hnw & _).
  unfold select_unchecked, select_checked.
  destruct (iv_get (ss_samples s) (2 * (r / select_SUPERBLOCK_SIZE))) as [result| |]; cbn [bind]; try discriminate.
  destruct (_ =? 0); [auto|].
  destruct (iv_get (ss_samples s) (2 * (r / select_SUPERBLOCK_SIZE) + 1)) as [q| |]; cbn [bind]; try discriminate.
  destruct (N.land q 1 =? 0).
  - destruct (iv_get (ss_long s) _) as [d| |]; cbn [bind]; try discriminate.
    intros E Hp. injection E as E. rewrite uadd_exact by lia. f_equal. exact E.
  - destruct (iv_get (ss_short s) _) as [d| |]; cbn [bind]; try discriminate.
    destruct (0 <? _).
    + rewrite !split_offset_spec.
      destruct (t_word_unchecked t b ((result + d) / 64)) as [w0| |] eqn:E0; cbn [bind]; try discriminate.
      assert (Hidx : (result + d) / 64 < nwords B).
      { destruct (N.lt_ge_cases ((result + d) / 64) (nwords B)) as [H|H]; [exact H|].
        rewrite (t_word_oob t b B _ Hrep H) in E0. discriminate. }
      assert (Hsum : result + d < 2 ^ 64) by (unfold nwords in Hidx; rewrite HL in Hidx; lia).
      rewrite uadd_exact by exact Hsum. cbn [bind]. rewrite split_offset_spec.
      rewrite (t_word_of_unchecked t b _ w0 E0). cbn [bind].
      destruct (low_set_unchecked _) as [ls| |]; cbn [bind]; try discriminate.
      intros E _. apply select_scan_checked_of_unchecked, E.
    + intros E Hp. injection E as E. rewrite uadd_exact by lia. cbn [bind]. f_equal. exact E.
Qed.

(* the matching parent (a support describing the set bits of t(B)), a rank below the count: the position *)
Theorem select_checked_exact sp m t s b B r : bv_repr b B -> ss_valid t B s ->
  r < count (t_bits t B) ->
  exists p, select_checked sp m t s b r = Ok p /\ nth_opt (ones (t_bits t B)) r = Some p.
Proof.
  intros Hrep V Hr. destruct (select_unchecked_spec sp m t s b B r Hrep V Hr) as (p & E & Hp).
  exists p. split; [|exact Hp]. apply (select_checked_of_unchecked sp m t s b B r p Hrep E).
  destruct (repr_facts b B Hrep) as (HL & Hlt & _).
  pose proof (ones_lt_len _ _ _ Hp) as Hpl. rewrite t_bits_len in Hpl. lia.
Qed.

(* the narrowed Complement::word under the same query: a 128-bit vector (every third bit set, 85 zeros), the
   select-zero support built from it, rank 85 = the first invalid rank: the scan leaves the buffer *)
Definition obj_bv128 : bitvec := bv_from_raw (mkraw 128 [10540996613548315209; 5270498306774157604]).
Lemma obj_bv128_repr : bv_repr obj_bv128 (bits_of 128 [10540996613548315209; 5270498306774157604]).
Proof. apply bv_from_raw_repr, raw_wfb_ok. vm_compute. reflexivity. Qed.

Theorem select_mut_refuted :
  exists b B s, bv_repr b B /\ bv_count_zeros b = 85 /\ select_new Pdep Release Complement b = Ok s /\
    (forall sp m, select_checked_mut sp m Complement s b 85 = OOB SITE_RAW_WORD) /\
    (forall sp m, select_checked sp m Complement s b 85 = Panic PIndex).
Proof.
  destruct (select_new Pdep Release Complement obj_bv128) as [s| |] eqn:E; [|vm_compute in E; discriminate..].
  exists obj_bv128, (bits_of 128 [10540996613548315209; 5270498306774157604]), s.
  split; [exact obj_bv128_repr|]. split; [vm_compute; reflexivity|]. split; [exact E|].
  vm_compute in E. injection E as <-.
  split; intros [] []; vm_compute; reflexivity.
Qed.
