(* C07, READ direction for String: String::load = Vec<u8>::load + from_utf8. The byte-range table of the loader model
   (Spec/Stream.utf8_valid, Unicode table 3-7) accepts exactly what the document's "using the UTF-8 encoding" means
   (Spec/Utf8.sp_utf8: decodes to scalar values in shortest form), via the equivalent table of Model/Mapped.v whose
   agreement with sp_utf8 is Proofs/Utf8Proof.utf8_agree. *)
From Coq Require Import NArith List Lia ZArith Bool.
Require Import ZifyBool ZifyN ZifyNat.
Require SDS.Model.Mapped.
Require Import SDS.Model.Mach SDS.Model.Ser SDS.Spec.Stream SDS.Spec.Utf8 SDS.Proofs.Utf8Proof SDS.Proofs.FormatRead.
Require SDS.Spec.Format.
Import ListNotations.
Open Scope N_scope.
Arguments N.add : simpl never. Arguments N.sub : simpl never. Arguments N.mul : simpl never.
Arguments N.eqb : simpl never. Arguments N.ltb : simpl never. Arguments N.leb : simpl never.
Module F := SDS.Spec.Format.

Lemma utf8_valid_cons b0 t0 : utf8_valid (b0 :: t0) =
      if b0 <=? 127 then utf8_valid t0
      else match t0 with
      | [] => false
      | b1 :: t1 =>
          if in_rng 194 223 b0 then Stream.cont b1 && utf8_valid t1
          else match t1 with
          | [] => false
          | b2 :: t2 =>
              if b0 =? 224 then in_rng 160 191 b1 && Stream.cont b2 && utf8_valid t2
              else if in_rng 225 236 b0 || in_rng 238 239 b0 then Stream.cont b1 && Stream.cont b2 && utf8_valid t2
              else if b0 =? 237 then in_rng 128 159 b1 && Stream.cont b2 && utf8_valid t2
              else match t2 with
              | [] => false
              | b3 :: t3 =>
                  if b0 =? 240 then in_rng 144 191 b1 && Stream.cont b2 && Stream.cont b3 && utf8_valid t3
                  else if in_rng 241 243 b0 then Stream.cont b1 && Stream.cont b2 && Stream.cont b3 && utf8_valid t3
                  else if b0 =? 244 then in_rng 128 143 b1 && Stream.cont b2 && Stream.cont b3 && utf8_valid t3
                  else false
              end
          end
      end.
Proof. reflexivity. Qed.

Lemma mp_utf8_valid_cons b0 t0 : Mapped.mp_utf8_valid (b0 :: t0) =
      if b0 <? 128 then Mapped.mp_utf8_valid t0
      else if Mapped.inr 194 223 b0 then
        match t0 with b1 :: t1 => Mapped.cont b1 && Mapped.mp_utf8_valid t1 | _ => false end
      else if Mapped.inr 224 239 b0 then
        match t0 with
        | b1 :: b2 :: t2 =>
            (if b0 =? 224 then Mapped.inr 160 191 b1 else if b0 =? 237 then Mapped.inr 128 159 b1 else Mapped.cont b1)
            && Mapped.cont b2 && Mapped.mp_utf8_valid t2
        | _ => false
        end
      else if Mapped.inr 240 244 b0 then
        match t0 with
        | b1 :: b2 :: b3 :: t3 =>
            (if b0 =? 240 then Mapped.inr 144 191 b1 else if b0 =? 244 then Mapped.inr 128 143 b1 else Mapped.cont b1)
            && Mapped.cont b2 && Mapped.cont b3 && Mapped.mp_utf8_valid t3
        | _ => false
        end
      else false.
Proof. reflexivity. Qed.

Lemma utf8_valid_mp_n n : forall l, (length l <= n)%nat -> utf8_valid l = Mapped.mp_utf8_valid l.
Proof.
  induction n as [|n IH]; intros l Hl; destruct l as [|b0 t0]; try reflexivity; cbn [length] in Hl; [lia|].
  rewrite utf8_valid_cons, mp_utf8_valid_cons. unfold Stream.cont, in_rng, Mapped.cont, Mapped.inr.
  destruct t0 as [|b1 [|b2 [|b3 t3]]]; cbn [length] in Hl;
    rewrite ?(IH []), ?(IH [b1]), ?(IH [b1; b2]), ?(IH [b2]), ?(IH (b1 :: b2 :: b3 :: t3)), ?(IH (b2 :: b3 :: t3)), ?(IH (b3 :: t3)), ?(IH t3)
      by (cbn [length]; lia);
    split_ifs; try reflexivity; try lia.
Qed.

Theorem utf8_valid_sp l : utf8_valid l = sp_utf8 l.
Proof. rewrite (utf8_valid_mp_n (length l) l (le_n _)). apply utf8_agree. Qed.

(* String::load on the document's bytes *)
Theorem read_string m bs rest : F.lenN bs < 2 ^ 63 -> Forall (fun b => b < 256) bs ->
  c_dec (string_codec m) (flat_map le64 (F.doc_encode_string bs) ++ rest) =
  if sp_utf8 bs then IoOk (bs, rest) else IoErr InvalidData.
Proof.
  intros Hl Hb. cbn [string_codec c_dec]. unfold F.doc_encode_string.
  rewrite (read_bytes m bs rest Hl Hb). cbn [iobind]. rewrite utf8_valid_sp. reflexivity.
Qed.
