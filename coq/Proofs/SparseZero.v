(* Unset-bit side of the sparse vector for sets: the executable select_zero of the specification, the
   ZeroIter (zero_iter, select_zero_iter), and is_multiset. *)
From Coq Require Import NArith List Lia ZArith Bool.
Require Import SDS.Model.Mach SDS.Model.Bits SDS.Model.Raw SDS.Model.IntVec SDS.Model.BitVec SDS.Model.Sparse.
Require Import SDS.Spec.BitSeq SDS.Spec.ValSeq SDS.Proofs.BitsProof SDS.Proofs.BVCommon SDS.Proofs.SparseSeq.
Require Import SDS.Proofs.SparseProof.
Import ListNotations.
Open Scope N_scope.
Require Import ZifyBool ZifyN ZifyNat.
Ltac Zify.zify_post_hook ::= Z.div_mod_to_equations.
Arguments N.add : simpl never. Arguments N.sub : simpl never. Arguments N.mul : simpl never.
Arguments N.eqb : simpl never. Arguments N.ltb : simpl never. Arguments N.leb : simpl never.
Arguments N.pow : simpl never. Arguments N.div : simpl never. Arguments N.modulo : simpl never.

(* ---------------------------------------------------------------- the executable select_zero of the spec *)

Lemma sorted_lt_tail x t : sorted_lt (x :: t) -> sorted_lt t.
Proof.
  intros H i j Hij Hj. specialize (H (i + 1) (j + 1)). rewrite !nthd_cons, lenN_cons in H.
  replace (i + 1 =? 0) with false in H by lia. replace (j + 1 =? 0) with false in H by lia.
  replace (i + 1 - 1) with i in H by lia. replace (j + 1 - 1) with j in H by lia. apply H; lia.
Qed.

Lemma sorted_lt_head x t i : sorted_lt (x :: t) -> i < lenN t -> x + 1 + i <= nthd t i.
Proof.
  intros Hs Hi. pose proof (sorted_lt_gap (x :: t) 0 (i + 1) Hs ltac:(lia) ltac:(rewrite lenN_cons; lia)) as Hg.
  rewrite !nthd_cons in Hg. replace (0 =? 0) with true in Hg by lia. replace (i + 1 =? 0) with false in Hg by lia.
  replace (i + 1 - 1) with i in Hg by lia. lia.
Qed.

(* number of values below z in a strictly increasing list whose values are all >= v *)
Lemma vs_rank_shift_bound l v z : sorted_lt l -> (forall i, i < lenN l -> v <= nthd l i) -> v <= z -> vs_rank l z <= z - v.
Proof.
  intros Hs Hv Hvz. destruct (N.eq_dec (vs_rank l z) 0) as [->|Hne]; [lia|].
  pose proof (vs_rank_le_len l z).
  pose proof (vs_rank_lt l z (vs_rank l z - 1) (sorted_lt_le _ Hs) ltac:(lia)).
  pose proof (sorted_lt_gap l 0 (vs_rank l z - 1) Hs ltac:(lia) ltac:(lia)). pose proof (Hv 0 ltac:(lia)). lia.
Qed.

Lemma vs_select_zero_from_some l : forall base n r z,
  sorted_lt l -> (forall i, i < lenN l -> base <= nthd l i) ->
  base <= z -> z < n -> vs_get l z = false -> vs_rank l z + r = z - base ->
  vs_select_zero_from l base n r = Some z.
Proof.
  induction l as [|v t IH]; intros base n r z Hs Hb Hbz Hzn Hg Hr.
  - cbn [vs_select_zero_from vs_rank] in *. replace (base + r <? n) with true by lia. f_equal. lia.
  - cbn [vs_select_zero_from]. unfold vs_get in Hg. cbn [existsb] in Hg. apply orb_false_iff in Hg. destruct Hg as [Hzv Hgt].
    apply N.eqb_neq in Hzv. cbn [vs_rank] in Hr.
    pose proof (Hb 0 ltac:(rewrite lenN_cons; lia)) as Hv. rewrite nthd_cons in Hv. replace (0 =? 0) with true in Hv by lia.
    assert (Htb : forall i, i < lenN t -> v + 1 <= nthd t i) by (intros i Hi; pose proof (sorted_lt_head v t i Hs Hi); lia).
    destruct (N.lt_ge_cases z v) as [Hlt|Hge].
    + (* z lies before v: nothing is below z *)
      replace (v <? z) with false in Hr by lia.
      assert (Hz0 : vs_rank t z = 0) by (apply (vs_rank_zero_of_ge v t z (sorted_lt_le _ Hs)); lia).
      rewrite Hz0 in Hr. replace (r <? v - base) with true by lia. f_equal. lia.
    + replace (v <? z) with true in Hr by lia.
      pose proof (vs_rank_shift_bound t (v + 1) z (sorted_lt_tail _ _ Hs) Htb ltac:(lia)) as Hbound.
      replace (r <? v - base) with false by lia.
      apply IH; [apply (sorted_lt_tail _ _ Hs)|exact Htb|lia|exact Hzn|exact Hgt|lia].
Qed.

Lemma vs_select_zero_from_none l : forall base n r,
  sorted_lt l -> (forall i, i < lenN l -> base <= nthd l i) -> bounded n l -> base <= n ->
  n - base - lenN l <= r -> vs_select_zero_from l base n r = None.
Proof.
  induction l as [|v t IH]; intros base n r Hs Hb Hbn Hbase Hr.
  - cbn [vs_select_zero_from]. change (lenN (@nil N)) with 0 in Hr. replace (base + r <? n) with false by lia. reflexivity.
  - cbn [vs_select_zero_from]. rewrite lenN_cons in Hr.
    pose proof (Hb 0 ltac:(rewrite lenN_cons; lia)) as Hv. rewrite nthd_cons in Hv. replace (0 =? 0) with true in Hv by lia.
    pose proof (Hbn 0 ltac:(rewrite lenN_cons; lia)) as Hvn. rewrite nthd_cons in Hvn. replace (0 =? 0) with true in Hvn by lia.
    assert (Htb : forall i, i < lenN t -> v + 1 <= nthd t i) by (intros i Hi; pose proof (sorted_lt_head v t i Hs Hi); lia).
    assert (Htn : bounded n t).
    { intros i Hi. specialize (Hbn (i + 1) ltac:(rewrite lenN_cons; lia)). rewrite nthd_cons in Hbn.
      replace (i + 1 =? 0) with false in Hbn by lia. replace (i + 1 - 1) with i in Hbn by lia. exact Hbn. }
    (* the values of t fit between v + 1 and n *)
    assert (Hfit : v + 1 + lenN t <= n).
    { destruct (N.eq_dec (lenN t) 0) as [->|Hne]; [lia|].
      pose proof (sorted_lt_head v t (lenN t - 1) Hs ltac:(lia)). pose proof (Htn (lenN t - 1) ltac:(lia)). lia. }
    replace (r <? v - base) with false by lia.
    apply IH; [apply (sorted_lt_tail _ _ Hs)|exact Htb|exact Htn|lia|lia].
Qed.

(* the model's select_zero equals the executable select_zero of the specification *)
Section SelZeroExec.
Variables (sp : selpath) (md : mode) (sv : sparse) (n w : N) (P : list N) (H : list bool).
Hypothesis Hok : sv_ok sp md sv n w P H.
Hypothesis Hstrict : sorted_lt P.

Lemma q_select_zero_exec r : sv_select_zero sp md sv r = Ok (vs_select_zero P n r).
Proof.
  assert (Hb : bounded n P) by apply Hok.
  destruct (q_select_zero_ok sp md sv n w P H Hok Hstrict r) as [Hnone Hsome]. unfold vs_select_zero.
  destruct (N.lt_ge_cases r (n - lenN P)) as [Hr|Hr].
  - destruct (Hsome Hr) as [z [Hs [Hzn [Hg Hrk]]]]. rewrite Hs.
    rewrite (vs_select_zero_from_some P 0 n r z Hstrict) by (try assumption; try lia; intros; lia). reflexivity.
  - rewrite (Hnone Hr). rewrite (vs_select_zero_from_none P 0 n r Hstrict) by (try assumption; try lia; intros; lia). reflexivity.
Qed.
End SelZeroExec.

Section ZeroIter.
Variables (sp : selpath) (md : mode) (sv : sparse) (n w : N) (P : list N) (H : list bool).
Hypothesis Hok : sv_ok sp md sv n w P H.
Hypothesis Hstrict : sorted_lt P.

Local Notation m := (lenN P).
Local Notation V := (nthd P).
Local Notation itr := (it_repr w P H).

Let Hsorted : sorted_le P. Proof. apply Hok. Qed.
Let Hbound : bounded n P. Proof. apply Hok. Qed.
Let Hlen : sv_len sv = n. Proof. apply Hok. Qed.
Let Hn : n < 2 ^ 64. Proof. apply Hok. Qed.

Lemma z_m_le_n : m <= n. Proof. apply sorted_lt_len_le; assumption. Qed.

(* position of the one with index j, or the end of the universe *)
Definition one_at (j : N) : N := if j <? m then V j else n.

Lemma one_at_step j : j < m -> V j + 1 <= one_at (j + 1).
Proof.
  intros Hj. unfold one_at. destruct (N.ltb_spec (j + 1) m) as [Hlt|Hge].
  - specialize (Hstrict j (j + 1) ltac:(lia) Hlt). lia.
  - pose proof (Hbound j Hj). lia.
Qed.

(* the zero iterator stands before the unset position z of rank r; j ones lie before z *)
Definition zi_inv (zi : zero_iter) (r z j : N) : Prop :=
  zi_next zi = (r, z) /\ zi_limit zi = (n - m, n) /\ j <= m /\
  zi_one_pos zi = one_at j /\ itr (zi_iter zi) (N.min (j + 1) m) m /\
  (j = 0 \/ V (j - 1) < z) /\ z <= one_at j /\ r + j = z.

(* next_run: skip the ones at z, z+1, ... *)
Lemma zi_run_ok zi r z j : zi_inv zi r z j -> r < n - m ->
  exists zi' z' j', run_loop (sv_fuel sv) (zi_run_step md sv) zi = Ok zi' /\ zi_inv zi' r z' j' /\ z' < one_at j'.
Proof.
  intros Hinv Hr.
  destruct (run_loop_inv (zi_run_step md sv)
              (fun s d => exists z1 j1, zi_inv s r z1 j1 /\ d = m - j1)
              (fun s => exists z1 j1, zi_inv s r z1 j1 /\ z1 < one_at j1))
           with (blocks := sv_fuel sv) (s := zi) (k := m - j) as [zr [Hrun Hp]].
  - intros s d [z1 [j1 [[Hnx [Hlim [Hjm [Hop [Hit [Hprev [Hz Hrz]]]]]]] Hd]]].
    unfold zi_run_step. rewrite Hop, Hnx. cbn [fst snd].
    destruct (N.leb_spec (one_at j1) z1) as [Hle|Hgt].
    + (* z1 is the position of the one with index j1 *)
      assert (Hj1 : j1 < m).
      { destruct (N.lt_ge_cases j1 m) as [|Hc]; [assumption|]. unfold one_at in Hle. replace (j1 <? m) with false in Hle by lia.
        pose proof z_m_le_n. lia. }
      assert (Hzeq : z1 = V j1) by (unfold one_at in *; replace (j1 <? m) with true in * by lia; lia).
      pose proof (Hbound j1 Hj1) as Hvn.
      rewrite uadd_ok by (unfold one_at; replace (j1 <? m) with true by lia; lia). cbn [bind].
      replace (N.min (j1 + 1) m) with (j1 + 1) in Hit by lia.
      right. destruct (N.lt_ge_cases (j1 + 1) m) as [Hlt|Hge].
      * destruct (q_it_next sp md sv n w P H Hok _ (j1 + 1) m Hit Hlt) as [it' [Hn1 Hit']]. rewrite Hn1. cbn [bind one_pos_of].
        eexists. exists (m - (j1 + 1)). split; [reflexivity|]. split; [|lia].
        exists (one_at j1 + 1), (j1 + 1). split; [|reflexivity].
        unfold zi_inv. cbn [zi_next zi_limit zi_one_pos zi_iter fst snd]. rewrite Hlim. cbn [snd].
        split; [reflexivity|]. split; [reflexivity|]. split; [lia|].
        split; [unfold one_at; replace (j1 + 1 <? m) with true by lia; reflexivity|].
        split; [replace (N.min (j1 + 1 + 1) m) with (j1 + 1 + 1) by lia; exact Hit'|].
        unfold one_at at 1 2. replace (j1 <? m) with true by lia. replace (j1 + 1 - 1) with j1 by lia.
        split; [right; lia|]. split; [apply one_at_step; exact Hj1|lia].
      * rewrite (q_it_next_none sp md sv n w P H Hok _ (j1 + 1) m Hit Hge). cbn [bind one_pos_of].
        eexists. exists (m - (j1 + 1)). split; [reflexivity|]. split; [|lia].
        exists (one_at j1 + 1), (j1 + 1). split; [|reflexivity].
        unfold zi_inv. cbn [zi_next zi_limit zi_one_pos zi_iter fst snd]. rewrite Hlim. cbn [snd].
        split; [reflexivity|]. split; [reflexivity|]. split; [lia|].
        split; [unfold one_at; replace (j1 + 1 <? m) with false by lia; reflexivity|].
        split; [replace (N.min (j1 + 1 + 1) m) with m by lia; replace (j1 + 1) with m in Hit by lia; exact Hit|].
        unfold one_at at 1 2. replace (j1 <? m) with true by lia. replace (j1 + 1 - 1) with j1 by lia.
        split; [right; lia|]. split; [apply one_at_step; exact Hj1|lia].
    + left. exists s. split; [reflexivity|]. exists z1, j1. split; [|exact Hgt].
      exact (conj Hnx (conj Hlim (conj Hjm (conj Hop (conj Hit (conj Hprev (conj Hz Hrz))))))).
  - exists z, j. split; [exact Hinv|reflexivity].
  - pose proof (q_fuel sp md sv n w P H Hok). lia.
  - destruct Hp as [z1 [j1 [Hi1 Hlt1]]]. exists zr, z1, j1. split; [exact Hrun|split; assumption].
Qed.

(* the position the iterator stands before, once the ones are skipped, is the unset position of rank r *)
Lemma zi_position r z j : j <= m -> (j = 0 \/ V (j - 1) < z) -> z < one_at j -> r + j = z ->
  z < n /\ vs_get P z = false /\ vs_rank P z + r = z.
Proof.
  intros Hjm Hprev Hz Hrz.
  assert (HR : vs_rank P z = j).
  { apply vs_rank_char; [exact Hsorted|exact Hjm| |].
    - intros i Hi. destruct Hprev as [->|Hp]; [lia|]. pose proof (Hsorted i (j - 1) ltac:(lia) ltac:(lia)). lia.
    - intros i Hi1 Hi2. unfold one_at in Hz. replace (j <? m) with true in Hz by lia.
      pose proof (Hsorted j i Hi1 Hi2). lia. }
  assert (Hzn : z < n).
  { unfold one_at in Hz. destruct (N.ltb_spec j m) as [Hlt|Hge]; [pose proof (Hbound j Hlt); lia|lia]. }
  split; [exact Hzn|]. split; [|lia].
  rewrite (vs_get_sorted P z Hsorted), HR. destruct (N.ltb_spec j m) as [Hlt|]; [|reflexivity].
  unfold one_at in Hz. replace (j <? m) with true in Hz by lia. apply N.eqb_neq. lia.
Qed.

Lemma zi_next_ok zi r z j : zi_inv zi r z j -> r < n - m ->
  exists zi' z' j', zi_next_f md sv zi = Ok (zi', Some (r, z')) /\
    (z' < n /\ vs_get P z' = false /\ vs_rank P z' + r = z') /\ zi_inv zi' (r + 1) (z' + 1) j'.
Proof.
  intros Hinv Hr. assert (Hlim : zi_limit zi = (n - m, n)) by apply Hinv. assert (Hnx : zi_next zi = (r, z)) by apply Hinv.
  unfold zi_next_f. rewrite Hlim, Hnx. cbn [fst snd]. replace (n - m <=? r) with false by lia.
  destruct (zi_run_ok zi r z j Hinv Hr) as [zi' [z' [j' [Hrun [[Hnx' [Hlim' [Hjm [Hop [Hit [Hprev [Hz Hrz]]]]]]] Hlt]]]]].
  rewrite Hrun. cbn [bind]. rewrite Hnx'. cbn [fst snd].
  destruct (zi_position r z' j' Hjm Hprev Hlt Hrz) as [Hzn [Hg Hrk]].
  rewrite uadd_ok by lia. cbn [bind]. rewrite uadd_ok by lia. cbn [bind].
  eexists. exists z', j'. split; [reflexivity|]. split; [exact (conj Hzn (conj Hg Hrk))|].
  unfold zi_inv. cbn [zi_next zi_limit zi_one_pos zi_iter]. split; [reflexivity|]. split; [exact Hlim'|]. split; [exact Hjm|].
  split; [exact Hop|]. split; [exact Hit|]. split; [destruct Hprev; [left; assumption|right; lia]|]. split; [lia|lia].
Qed.

Lemma zi_next_none zi r z j : zi_inv zi r z j -> n - m <= r -> zi_next_f md sv zi = Ok (zi, None).
Proof.
  intros Hinv Hr. assert (Hlim : zi_limit zi = (n - m, n)) by apply Hinv. assert (Hnx : zi_next zi = (r, z)) by apply Hinv.
  unfold zi_next_f. rewrite Hlim, Hnx. cbn [fst snd]. replace (n - m <=? r) with true by lia. reflexivity.
Qed.

(* constructors *)
Lemma zi_zero_iter_ok : exists zi, sv_zero_iter md sv = Ok zi /\ zi_inv zi 0 0 0.
Proof.
  unfold sv_zero_iter. pose proof (q_one_iter sp md sv n w P H Hok) as Hit0.
  rewrite (q_count_zeros sp md sv n w P H Hok Hstrict), Hlen.
  destruct (N.eq_dec m 0) as [Hm0|Hm0].
  - rewrite (q_it_next_none sp md sv n w P H Hok _ 0 m Hit0 ltac:(lia)). cbn [bind one_pos_of].
    eexists. split; [reflexivity|]. unfold zi_inv. cbn [zi_next zi_limit zi_one_pos zi_iter].
    split; [reflexivity|]. split; [reflexivity|]. split; [lia|].
    split; [unfold one_at; replace (0 <? m) with false by lia; reflexivity|].
    split; [replace (N.min (0 + 1) m) with 0 by lia; exact Hit0|].
    split; [left; reflexivity|]. split; [lia|lia].
  - destruct (q_it_next sp md sv n w P H Hok _ 0 m Hit0 ltac:(lia)) as [it1 [Hn1 Hit1]]. rewrite Hn1. cbn [bind one_pos_of].
    eexists. split; [reflexivity|]. unfold zi_inv. cbn [zi_next zi_limit zi_one_pos zi_iter].
    split; [reflexivity|]. split; [reflexivity|]. split; [lia|].
    split; [unfold one_at; replace (0 <? m) with true by lia; reflexivity|].
    split; [replace (N.min (0 + 1) m) with (0 + 1) by lia; exact Hit1|].
    split; [left; reflexivity|]. split; [lia|lia].
Qed.

Lemma zi_select_zero_iter_ok rank : rank < n - m ->
  exists zi z j, sv_select_zero_iter sp md sv rank = Ok zi /\ zi_inv zi rank z j.
Proof.
  intros Hr. unfold sv_select_zero_iter. rewrite (q_count_zeros sp md sv n w P H Hok Hstrict), Hlen.
  replace (n - m <=? rank) with false by lia.
  destruct (q_find_zero_run sp md sv n w P H Hok Hstrict rank) as [K [itK [Hf [HKm [HitK [Hpre Hnext]]]]]].
  rewrite Hf. cbn [bind]. pose proof z_m_le_n as Hmn.
  destruct (N.lt_ge_cases K m) as [HKlt|HKge].
  - destruct (q_it_next sp md sv n w P H Hok _ K m HitK HKlt) as [it1 [Hn1 Hit1]]. rewrite Hn1. cbn [bind one_pos_of].
    rewrite uadd_ok by lia. cbn [bind]. eexists. exists (K + rank), K. split; [reflexivity|].
    unfold zi_inv. cbn [zi_next zi_limit zi_one_pos zi_iter].
    split; [reflexivity|]. split; [reflexivity|]. split; [lia|].
    split; [unfold one_at; replace (K <? m) with true by lia; reflexivity|].
    split; [replace (N.min (K + 1) m) with (K + 1) by lia; exact Hit1|].
    split; [destruct (N.eq_dec K 0) as [->|]; [left; reflexivity|right; pose proof (Hpre (K - 1) ltac:(lia)); lia]|].
    split; [unfold one_at; replace (K <? m) with true by lia; specialize (Hnext HKlt); lia|lia].
  - rewrite (q_it_next_none sp md sv n w P H Hok _ K m HitK HKge). cbn [bind one_pos_of].
    rewrite uadd_ok by lia. cbn [bind]. eexists. exists (K + rank), K. split; [reflexivity|].
    unfold zi_inv. cbn [zi_next zi_limit zi_one_pos zi_iter].
    split; [reflexivity|]. split; [reflexivity|]. split; [lia|].
    split; [unfold one_at; replace (K <? m) with false by lia; reflexivity|].
    split; [replace (N.min (K + 1) m) with m by lia; replace K with m in HitK by lia; exact HitK|].
    split; [destruct (N.eq_dec K 0) as [->|]; [left; reflexivity|right; pose proof (Hpre (K - 1) ltac:(lia)); lia]|].
    split; [unfold one_at; replace (K <? m) with false by lia; lia|lia].
Qed.

(* what the iterator yields: the unset positions with their ranks, from rank r on *)
Lemma zi_take_ok k : forall zi r z j, zi_inv zi r z j -> zi_take md sv k zi = Ok (vs_zeros_from P n r k).
Proof.
  induction k as [|k IH]; intros zi r z j Hinv; [reflexivity|].
  cbn [zi_take vs_zeros_from]. destruct (N.lt_ge_cases r (n - m)) as [Hr|Hr].
  - destruct (zi_next_ok zi r z j Hinv Hr) as [zi' [z' [j' [Hnx [[Hzn [Hg Hrk]] Hinv']]]]].
    rewrite Hnx. cbn [bind]. unfold vs_select_zero.
    rewrite (vs_select_zero_from_some P 0 n r z' Hstrict) by (try assumption; try lia; intros; lia).
    rewrite (IH zi' (r + 1) (z' + 1) j' Hinv'). reflexivity.
  - rewrite (zi_next_none zi r z j Hinv Hr). cbn [bind]. unfold vs_select_zero.
    rewrite (vs_select_zero_from_none P 0 n r Hstrict) by (try assumption; try lia; intros; lia). reflexivity.
Qed.

Lemma zi_empty_take k : zi_take md sv k (zi_empty sv) = Ok [].
Proof. destruct k; [reflexivity|]. reflexivity. Qed.

End ZeroIter.

(* ---------------------------------------------------------------- is_multiset *)

Lemma has_dup_false_iff l : has_dup l = false <-> (forall i, 0 < i -> i < lenN l -> nthd l i <> nthd l (i - 1)).
Proof.
  induction l as [|a t IH]; [split; [intros _ i Hi1 Hi2; change (lenN (@nil N)) with 0 in Hi2; lia|reflexivity]|].
  destruct t as [|b u].
  - split; [intros _ i Hi1 Hi2; rewrite lenN_cons in Hi2; change (lenN (@nil N)) with 0 in Hi2; lia|reflexivity].
  - change (has_dup (a :: b :: u)) with ((a =? b) || has_dup (b :: u)). rewrite orb_false_iff, IH. split.
    + intros [Hab Ht] i Hi1 Hi2. rewrite lenN_cons in Hi2.
      rewrite (nthd_cons a (b :: u) i), (nthd_cons a (b :: u) (i - 1)).
      replace (i =? 0) with false by lia. destruct (N.eqb_spec (i - 1) 0) as [E|E].
      * rewrite E, nthd_cons. replace (0 =? 0) with true by lia. apply N.eqb_neq in Hab. lia.
      * specialize (Ht (i - 1) ltac:(lia) ltac:(lia)). exact Ht.
    + intros Hall. split.
      * specialize (Hall 1 ltac:(lia) ltac:(rewrite !lenN_cons; lia)).
        rewrite (nthd_cons a (b :: u) 1), (nthd_cons a (b :: u) (1 - 1)) in Hall.
        replace (1 =? 0) with false in Hall by lia. replace (1 - 1) with 0 in Hall by lia. rewrite nthd_cons in Hall.
        replace (0 =? 0) with true in Hall by lia. apply N.eqb_neq. lia.
      * intros i Hi1 Hi2. specialize (Hall (i + 1) ltac:(lia) ltac:(rewrite lenN_cons; lia)).
        rewrite (nthd_cons a (b :: u) (i + 1)), (nthd_cons a (b :: u) (i + 1 - 1)) in Hall.
        replace (i + 1 =? 0) with false in Hall by lia.
        replace (i + 1 - 1) with i in Hall by lia. replace (i =? 0) with false in Hall by lia. exact Hall.
Qed.

Section Multi.
Variables (sp : selpath) (md : mode) (sv : sparse) (n w : N) (Vs : list N) (H : list bool).
Hypothesis Hok : sv_ok sp md sv n w Vs H.
Local Notation m := (lenN Vs).
Local Notation V := (nthd Vs).
Local Notation itr := (it_repr w Vs H).
Let Hbound : bounded n Vs. Proof. apply Hok. Qed.
Let Hlen : sv_len sv = n. Proof. apply Hok. Qed.

Lemma q_is_multiset : sv_is_multiset md sv = Ok (has_dup Vs).
Proof.
  unfold sv_is_multiset. rewrite Hlen.
  destruct (run_loop_inv (multi_step md sv)
              (fun s d => exists c, itr (fst s) c m /\ c <= m /\ snd s = (if c =? 0 then n else V (c - 1)) /\
                                    (forall i, 0 < i -> i < c -> V i <> V (i - 1)) /\ d = m - c)
              (fun r => r = has_dup Vs))
           with (blocks := sv_fuel sv) (s := (sv_one_iter sv, n)) (k := m - 0) as [r [Hr Hp]].
  - intros [it prev] d [c [Hit [Hcm [Hprev [Hnod Hd]]]]]. cbn [fst snd] in *. unfold multi_step. cbn [fst snd].
    destruct (N.lt_ge_cases c m) as [Hlt|Hge].
    + destruct (q_it_next sp md sv n w Vs H Hok it c m Hit Hlt) as [it' [Hnx Hit']]. rewrite Hnx. cbn [bind].
      destruct (N.eqb_spec (V c) prev) as [Heq|Hne].
      * left. exists true. split; [reflexivity|]. symmetry.
        destruct (has_dup Vs) eqn:E; [reflexivity|]. exfalso.
        destruct (N.eqb_spec c 0) as [Hc0|Hc0]; [pose proof (Hbound c Hlt); lia|].
        pose proof (proj1 (has_dup_false_iff Vs) E) as E'. apply (E' c ltac:(lia) Hlt). lia.
      * right. exists (it', V c), (m - (c + 1)). split; [reflexivity|]. split; [|lia].
        exists (c + 1). cbn [fst snd]. split; [exact Hit'|]. split; [lia|].
        split; [replace (c + 1 =? 0) with false by lia; replace (c + 1 - 1) with c by lia; reflexivity|].
        split; [|reflexivity]. intros i Hi1 Hi2. destruct (N.eq_dec i c) as [->|]; [|apply Hnod; lia].
        destruct (N.eqb_spec c 0) as [Hc0|Hc0]; [lia|]. lia.
    + rewrite (q_it_next_none sp md sv n w Vs H Hok it c m Hit Hge). cbn [bind]. left. exists false. split; [reflexivity|].
      symmetry. apply (proj2 (has_dup_false_iff Vs)). intros i Hi1 Hi2. apply Hnod; lia.
  - exists 0. cbn [fst snd]. split; [apply (q_one_iter sp md sv n w Vs H Hok)|]. split; [lia|]. split; [reflexivity|].
    split; [intros; lia|reflexivity].
  - pose proof (q_fuel sp md sv n w Vs H Hok). lia.
  - rewrite Hr, Hp. reflexivity.
Qed.
End Multi.
