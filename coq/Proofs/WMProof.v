(* Proofs about Model/WM.v. The embedded level bitvectors enter only through the interface
   [bv_queries_ok] of Proofs/BVCommon.v (one hypothesis per level), the offset IntVector only through
   [first_ok]. First the core (WMCore): the model loops compute the list-level position maps of
   Proofs/WMLevels.v; then the WaveletMatrix queries against Spec/Seq.v. *)
From Coq Require Import NArith List Lia ZArith Bool Permutation Sorted.
Require Import SDS.Model.Mach SDS.Model.Bits SDS.Model.Raw SDS.Model.IntVec SDS.Model.BitVec SDS.Model.WM.
Require Import SDS.Spec.BitSeq SDS.Spec.Seq.
Require Import SDS.Proofs.BitsProof SDS.Proofs.BVCommon SDS.Proofs.WMSeq SDS.Proofs.WMLevels SDS.Proofs.WMSpec SDS.Proofs.WMOffsets.
Import ListNotations.
Open Scope N_scope.
Require Import ZifyBool ZifyN ZifyNat.
Ltac Zify.zify_post_hook ::= Z.div_mod_to_equations.
Arguments N.add : simpl never. Arguments N.sub : simpl never. Arguments N.mul : simpl never.
Arguments N.eqb : simpl never. Arguments N.ltb : simpl never. Arguments N.leb : simpl never.
Arguments N.pow : simpl never. Arguments N.shiftl : simpl never. Arguments N.shiftr : simpl never.
Arguments N.land : simpl never. Arguments N.lor : simpl never. Arguments N.div : simpl never.
Arguments N.modulo : simpl never. Arguments N.ones : simpl never. Arguments N.testbit : simpl never.
Arguments N.min : simpl never.
Local Opaque reverse_bits revkey.

(* ---------------------------------------------------------------- one level through its interface *)

Lemma bits_of_words_length ws : length (bits_of_words ws) = (64 * length ws)%nat.
Proof.
  unfold bits_of_words. induction ws as [|w t IH]; [reflexivity|]. cbn [flat_map]. rewrite app_length, wbits_length, IH.
  cbn [length]. lia.
Qed.

Lemma bv_repr_len b B : bv_repr b B -> bv_len b = lenB B /\ lenB B < 2 ^ 64 /\ bv_ones b = count B.
Proof.
  intros (Hwf & HB & Hones). destruct Hwf as (Hlen & _ & _ & Hlt). unfold bv_len in *.
  assert (HL : lenB B = rlen (bv_data b)).
  { rewrite HB. unfold lenB, bits_of. rewrite firstn_length, bits_of_words_length. unfold lenN in Hlen. lia. }
  rewrite HL. repeat split; [exact Hlt|exact Hones].
Qed.

Lemma step_down_lt64 B c idx : lenB B < 2 ^ 64 -> idx < 2 ^ 64 -> step_down B c idx < 2 ^ 64.
Proof.
  intros HB Hi. unfold step_down. pose proof (rank1_le B idx). pose proof (count_le_length B). unfold lenB in *.
  destruct c; lia.
Qed.

Section OneLevel.
Variables (sp : selpath) (m : mode) (b : bitvec) (B : list bool).
Hypothesis Hok : bv_queries_ok sp m b B.

Lemma lvl_len : bv_len b = lenB B /\ lenB B < 2 ^ 64.
Proof. destruct Hok as (Hr & _). apply bv_repr_len in Hr. tauto. Qed.

Lemma lvl_zeros : bv_count_zeros b = lenB B - count B.
Proof. destruct Hok as (Hr & _). apply bv_repr_len in Hr. destruct Hr as (H1 & _ & H2). unfold bv_count_zeros. rewrite H1, H2. reflexivity. Qed.

Lemma lvl_down_one idx : idx < 2 ^ 64 -> map_down_one b idx = Ok (step_down B true idx).
Proof.
  intros Hi. destruct Hok as (_ & _ & Hrank & _). unfold map_down_one. rewrite (Hrank idx Hi). cbn [bind].
  rewrite lvl_zeros. reflexivity.
Qed.

Lemma lvl_down_zero idx : idx < 2 ^ 64 -> map_down_zero m b idx = Ok (step_down B false idx).
Proof.
  intros Hi. destruct Hok as (_ & _ & Hrank & _). unfold map_down_zero, bv_rank_zero. rewrite (Hrank idx Hi). cbn [bind].
  unfold usub. pose proof (rank1_le_index B idx). replace (rank1 B idx <=? idx) with true by lia. reflexivity.
Qed.

Lemma lvl_up_one idx : idx < 2 ^ 64 -> map_up_one sp m b idx = Ok (step_up B true idx).
Proof.
  intros Hi. destruct Hok as (_ & _ & _ & Hsel & _). unfold map_up_one, step_up. rewrite lvl_zeros.
  destruct (idx <? lenB B - count B); [reflexivity|]. apply Hsel. lia.
Qed.

Lemma lvl_up_zero idx : idx < 2 ^ 64 -> map_up_zero sp m b idx = Ok (step_up B false idx).
Proof. intros Hi. destruct Hok as (_ & _ & _ & _ & Hsel). unfold map_up_zero, step_up. apply Hsel. exact Hi. Qed.

Lemma lvl_get idx c : getb B idx = Some c -> bv_get b idx = Ok c.
Proof.
  intros Hc. destruct Hok as (_ & Hget & _). pose proof (getb_Some_lt _ _ _ Hc) as Hlt.
  destruct (Hget idx) as (x & H1 & H2); [destruct lvl_len as [-> _]; exact Hlt|]. congruence.
Qed.
End OneLevel.

(* ---------------------------------------------------------------- position maps over a list of columns *)

Fixpoint cdown (k : nat) (cols : list (list bool)) (v idx : N) : N :=
  match k, cols with
  | S j, B :: t => cdown j t v (step_down B (N.testbit v (N.of_nat j)) idx)
  | _, _ => idx
  end.
Fixpoint cup (k : nat) (cols : list (list bool)) (v idx : N) : option N :=
  match k, cols with
  | S j, B :: t => match cup j t v idx with
                   | None => None
                   | Some mid => step_up B (N.testbit v (N.of_nat j)) mid
                   end
  | _, _ => Some idx
  end.
Fixpoint cmd (k : nat) (cols : list (list bool)) (idx value : N) : option (N * N) :=
  match k, cols with
  | S j, B :: t => match getb B idx with
                   | None => None
                   | Some c => cmd j t (step_down B c idx) (if c then value + 2 ^ N.of_nat j else value)
                   end
  | _, _ => Some (idx, value)
  end.

Lemma downk_cdown {A} (val : A -> N) k L v idx : downk val k L v idx = cdown k (colsk val k L) v idx.
Proof. revert L idx. induction k as [|j IH]; intros L idx; [reflexivity|]. cbn [downk colsk cdown]. apply IH. Qed.
Lemma upk_cup {A} (val : A -> N) k L v idx : upk val k L v idx = cup k (colsk val k L) v idx.
Proof. revert L idx. induction k as [|j IH]; intros L idx; [reflexivity|]. cbn [upk colsk cup]. rewrite IH. reflexivity. Qed.
Lemma mdk_cmd {A} (val : A -> N) k L idx value : mdk val k L idx value = cmd k (colsk val k L) idx value.
Proof.
  revert L idx value. induction k as [|j IH]; intros L idx value; [reflexivity|]. cbn [mdk colsk cmd].
  destruct (getb (map (fbit val j) L) idx); [apply IH|reflexivity].
Qed.

Lemma colsk_length {A} (val : A -> N) k L : length (colsk val k L) = k.
Proof. revert L. induction k as [|j IH]; intros L; cbn [colsk length]; [reflexivity|rewrite IH; reflexivity]. Qed.

Lemma colsk_lens {A} (val : A -> N) k L : Forall (fun B => lenB B = N.of_nat (length L)) (colsk val k L).
Proof.
  revert L. induction k as [|j IH]; intros L; cbn [colsk]; constructor.
  - apply lenB_map.
  - rewrite <- (part_length (fbit val j) L). apply IH.
Qed.

Lemma filter_map_comm {A B} (g : A -> B) (P : B -> bool) l : filter P (map g l) = map g (filter (fun x => P (g x)) l).
Proof. induction l as [|x t IH]; [reflexivity|]. cbn [map filter]. destruct (P (g x)); cbn [map]; rewrite IH; reflexivity. Qed.

Lemma colsk_map_val {A} (val : A -> N) k L : colsk val k L = colsk (fun x => x) k (map val L).
Proof.
  revert L. induction k as [|j IH]; intros L; [reflexivity|]. cbn [colsk]. f_equal.
  - rewrite map_map. reflexivity.
  - rewrite IH. f_equal. unfold part. rewrite map_app, !filter_map_comm. reflexivity.
Qed.

(* ---------------------------------------------------------------- the bit tests of the code *)

Lemma has_bit_testbit v t : has_bit v (N.shiftl 1 t) = N.testbit v t.
Proof.
  unfold has_bit. rewrite N.shiftl_1_l.
  destruct (N.testbit v t) eqn:E.
  - apply negb_true_iff. apply N.eqb_neq. intros H0.
    assert (N.testbit (N.land v (2 ^ t)) t = false) by (rewrite H0; apply N.bits_0).
    rewrite N.land_spec, E, N.pow2_bits_true in H. discriminate.
  - apply negb_false_iff. apply N.eqb_eq. apply N.bits_inj. intros k. rewrite N.land_spec, N.bits_0.
    destruct (N.eq_dec k t) as [->|Hn]; [rewrite E; reflexivity|]. rewrite N.pow2_bits_false by congruence. apply andb_false_r.
Qed.

Lemma has_bit_level v width level j : width = level + N.of_nat (S j) ->
  has_bit v (bit_value width level) = N.testbit v (N.of_nat j).
Proof. intros H. unfold bit_value. rewrite has_bit_testbit. f_equal. lia. Qed.

Lemma bit_value_level width level j : width = level + N.of_nat (S j) -> bit_value width level = 2 ^ N.of_nat j.
Proof. intros H. unfold bit_value. rewrite N.shiftl_1_l. f_equal. lia. Qed.

Lemma level_columns_colsk fuel width level src :
  width = level + N.of_nat fuel -> level_columns fuel width level src = colsk (fun x => x) fuel src.
Proof.
  revert level src. induction fuel as [|j IH]; intros level src Hw; [reflexivity|]. cbn [level_columns colsk].
  assert (E : forall v, has_bit v (bit_value width level) = fbit (fun x => x) j v) by (intros v; apply has_bit_level; exact Hw).
  f_equal.
  - apply map_ext. exact E.
  - rewrite IH by lia. f_equal. unfold part. f_equal; apply filter_ext; intros v; rewrite E; reflexivity.
Qed.

(* ---------------------------------------------------------------- the model loops *)

Lemma Forall2_len {A B} (R : A -> B -> Prop) l1 l2 : Forall2 R l1 l2 -> length l1 = length l2.
Proof. intros H. induction H; cbn [length]; congruence. Qed.

Section Loops.
Variables (sp : selpath) (m : mode) (width : N).

Lemma loop_down_with k ls cols level idx v :
  Forall2 (bv_queries_ok sp m) ls cols -> length cols = k -> width = level + N.of_nat k -> idx < 2 ^ 64 ->
  map_down_with_loop m width ls level idx v = Ok (cdown k cols v idx).
Proof.
  intros HF. revert k level idx. induction HF as [|b B ls cols Hb HF IH]; intros k level idx Hk Hw Hi.
  - cbn [length] in Hk. subst k. reflexivity.
  - cbn [length] in Hk. destruct k as [|j]; [discriminate|]. injection Hk as Hk. cbn [map_down_with_loop cdown].
    rewrite (has_bit_level v width level j Hw).
    assert (Hs : (if N.testbit v (N.of_nat j) then map_down_one b idx else map_down_zero m b idx)
                 = Ok (step_down B (N.testbit v (N.of_nat j)) idx)).
    { destruct (N.testbit v (N.of_nat j)); [apply (lvl_down_one sp m b B Hb idx Hi)|apply (lvl_down_zero sp m b B Hb idx Hi)]. }
    rewrite Hs. cbn [bind]. apply IH; [exact Hk|lia|].
    apply step_down_lt64; [apply (lvl_len sp m b B Hb)|exact Hi].
Qed.

Lemma loop_down_two k ls cols level i1 i2 v :
  Forall2 (bv_queries_ok sp m) ls cols -> length cols = k -> width = level + N.of_nat k -> i1 < 2 ^ 64 -> i2 < 2 ^ 64 ->
  map_down_two_loop m width ls level i1 i2 v = Ok (cdown k cols v i1, cdown k cols v i2).
Proof.
  intros HF. revert k level i1 i2. induction HF as [|b B ls cols Hb HF IH]; intros k level i1 i2 Hk Hw H1 H2.
  - cbn [length] in Hk. subst k. reflexivity.
  - cbn [length] in Hk. destruct k as [|j]; [discriminate|]. injection Hk as Hk. cbn [map_down_two_loop cdown].
    rewrite (has_bit_level v width level j Hw). pose proof (lvl_len sp m b B Hb) as [_ HL].
    destruct (N.testbit v (N.of_nat j)).
    + rewrite (lvl_down_one sp m b B Hb i1 H1), (lvl_down_one sp m b B Hb i2 H2). cbn [bind].
      apply IH; [exact Hk|lia|apply step_down_lt64; assumption|apply step_down_lt64; assumption].
    + rewrite (lvl_down_zero sp m b B Hb i1 H1), (lvl_down_zero sp m b B Hb i2 H2). cbn [bind].
      apply IH; [exact Hk|lia|apply step_down_lt64; assumption|apply step_down_lt64; assumption].
Qed.

Lemma loop_down k ls cols level idx value r :
  Forall2 (bv_queries_ok sp m) ls cols -> length cols = k -> width = level + N.of_nat k -> idx < 2 ^ 64 ->
  cmd k cols idx value = Some r ->
  map_down_loop m width ls level idx value = Ok r.
Proof.
  intros HF. revert k level idx value. induction HF as [|b B ls cols Hb HF IH]; intros k level idx value Hk Hw Hi Hc.
  - cbn [length] in Hk. subst k. cbn [cmd] in Hc. injection Hc as <-. reflexivity.
  - cbn [length] in Hk. destruct k as [|j]; [discriminate|]. injection Hk as Hk. cbn [map_down_loop]. cbn [cmd] in Hc.
    destruct (getb B idx) as [c|] eqn:Ec; [|discriminate].
    rewrite (lvl_get sp m b B Hb idx c Ec). cbn [bind]. pose proof (lvl_len sp m b B Hb) as [_ HL].
    rewrite (bit_value_level width level j Hw). destruct c.
    + rewrite (lvl_down_one sp m b B Hb idx Hi). cbn [bind].
      apply (IH j); [exact Hk|lia|apply step_down_lt64; assumption|exact Hc].
    + rewrite (lvl_down_zero sp m b B Hb idx Hi). cbn [bind].
      apply (IH j); [exact Hk|lia|apply step_down_lt64; assumption|exact Hc].
Qed.

Lemma map_up_loop_app l1 l2 above idx v :
  map_up_loop sp m width (l1 ++ l2) above idx v =
  let* o := map_up_loop sp m width l1 above idx v in
  match o with
  | None => Ok None
  | Some i => map_up_loop sp m width l2 (above - N.of_nat (length l1)) i v
  end.
Proof.
  revert above idx. induction l1 as [|b t IH]; intros above idx.
  - cbn [app map_up_loop bind length]. f_equal. lia.
  - cbn [app map_up_loop length].
    destruct (if has_bit v (bit_value width (above - 1)) then map_up_one sp m b idx else map_up_zero sp m b idx) as [[i|]|k|s];
      cbn [bind]; try reflexivity.
    rewrite IH. replace (above - 1 - N.of_nat (length t)) with (above - N.of_nat (S (length t))) by lia. reflexivity.
Qed.

Lemma cup_lt64 k cols v idx i :
  Forall (fun B => lenB B < 2 ^ 64) cols -> idx < 2 ^ 64 -> cup k cols v idx = Some i -> i < 2 ^ 64.
Proof.
  revert cols idx i. induction k as [|j IH]; intros cols idx i HF Hi H; [cbn [cup] in H; injection H as <-; exact Hi|].
  destruct cols as [|B t]; [cbn [cup] in H; injection H as <-; exact Hi|]. cbn [cup] in H.
  destruct (cup j t v idx) as [mid|] eqn:E; [|discriminate].
  inversion HF as [|? ? HB Ht]; subst. unfold step_up in H.
  assert (Hg : exists c, getb B i = Some c).
  { destruct (N.testbit v (N.of_nat j)).
    - destruct (mid <? lenB B - count B); [discriminate|]. apply select1_sound in H. destruct H as [H _]. eauto.
    - apply select0_sound in H. destruct H as [H _]. eauto. }
  destruct Hg as [c Hc]. apply getb_Some_lt in Hc. lia.
Qed.

Lemma loop_up k ls cols level idx v :
  Forall2 (bv_queries_ok sp m) ls cols -> length cols = k -> width = level + N.of_nat k -> idx < 2 ^ 64 ->
  map_up_loop sp m width (rev ls) width idx v = Ok (cup k cols v idx).
Proof.
  intros HF. revert k level. induction HF as [|b B ls cols Hb HF IH]; intros k level Hk Hw Hi.
  - cbn [length] in Hk. subst k. reflexivity.
  - cbn [length] in Hk. destruct k as [|j]; [discriminate|]. injection Hk as Hk. cbn [rev cup].
    rewrite map_up_loop_app, (IH j (level + 1)) by (try exact Hk; try exact Hi; lia). cbn [bind].
    destruct (cup j cols v idx) as [mid|] eqn:E; [|reflexivity].
    assert (Hmid : mid < 2 ^ 64).
    { eapply cup_lt64; [|exact Hi|exact E]. clear - HF. induction HF as [|b' B' l c Hb' _ IH']; constructor; [|exact IH'].
      apply (lvl_len sp m b' B' Hb'). }
    rewrite rev_length. assert (Hlen : length ls = j) by (rewrite (Forall2_len _ _ _ HF); exact Hk).
    cbn [map_up_loop]. replace (width - N.of_nat (length ls) - 1) with level by lia.
    rewrite (has_bit_level v width level j Hw).
    destruct (N.testbit v (N.of_nat j)).
    + rewrite (lvl_up_one sp m b B Hb mid Hmid). cbn [bind]. destruct (step_up B true mid); reflexivity.
    + rewrite (lvl_up_zero sp m b B Hb mid Hmid). cbn [bind]. destruct (step_up B false mid); reflexivity.
Qed.
End Loops.
