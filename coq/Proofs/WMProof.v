(* Proofs about Model/WM.v. The embedded level bitvectors enter only through the interface
   [bv_queries_ok] of Proofs/BVCommon.v (one hypothesis per level), the offset IntVector only through
   [first_ok]. First the core (WMCore): the model loops compute the list-level position maps of
   Proofs/WMLevels.v; then the WaveletMatrix queries against Spec/Seq.v. *)
From Coq Require Import NArith List Lia ZArith Bool Permutation Sorted.
Require Import SDS.Model.Mach SDS.Model.Bits SDS.Model.Raw SDS.Model.IntVec SDS.Model.BitVec SDS.Model.WM.
Require Import SDS.Spec.BitSeq SDS.Spec.Seq.
Require Import SDS.Proofs.BitsProof SDS.Proofs.BVCommon SDS.Proofs.WMSeq SDS.Proofs.WMLevels SDS.Proofs.WMSpec SDS.Proofs.WMOffsets.
Import ListNotations.
Open Scope N_scope.
Require Import ZifyBool ZifyN ZifyNat.
Ltac Zify.zify_post_hook ::= Z.div_mod_to_equations.
Arguments N.add : simpl never. Arguments N.sub : simpl never. Arguments N.mul : simpl never.
Arguments N.eqb : simpl never. Arguments N.ltb : simpl never. Arguments N.leb : simpl never.
Arguments N.pow : simpl never. Arguments N.shiftl : simpl never. Arguments N.shiftr : simpl never.
Arguments N.land : simpl never. Arguments N.lor : simpl never. Arguments N.div : simpl never.
Arguments N.modulo : simpl never. Arguments N.ones : simpl never. Arguments N.testbit : simpl never.
Arguments N.min : simpl never.
Local Opaque reverse_bits revkey.

(* ---------------------------------------------------------------- one level through its interface *)

Lemma bits_of_words_length ws : length (bits_of_words ws) = (64 * length ws)%nat.
Proof.
  unfold bits_of_words. induction ws as [|w t IH]; [reflexivity|]. cbn [flat_map]. rewrite app_length, wbits_length, IH.
  cbn [length]. lia.
Qed.

Lemma bv_repr_len b B : bv_repr b B -> bv_len b = lenB B /\ lenB B < 2 ^ 64 /\ bv_ones b = count B.
Proof.
  intros (Hwf & HB & Hones). destruct Hwf as (Hlen & _ & _ & Hlt). unfold bv_len in *.
  assert (HL : lenB B = rlen (bv_data b)).
  { rewrite HB. unfold lenB, bits_of. rewrite firstn_length, bits_of_words_length. unfold lenN in Hlen. lia. }
  rewrite HL. repeat split; [exact Hlt|exact Hones].
Qed.

Lemma step_down_lt64 B c idx : lenB B < 2 ^ 64 -> idx < 2 ^ 64 -> step_down B c idx < 2 ^ 64.
Proof.
  intros HB Hi. unfold step_down. pose proof (rank1_le B idx). pose proof (count_le_length B). unfold lenB in *.
  destruct c; lia.
Qed.

Section OneLevel.
Variables (sp : selpath) (m : mode) (b : bitvec) (B : list bool).
Hypothesis Hok : bv_queries_ok sp m b B.

Lemma lvl_len : bv_len b = lenB B /\ lenB B < 2 ^ 64.
Proof. destruct Hok as (Hr & _). apply bv_repr_len in Hr. tauto. Qed.

Lemma lvl_zeros : bv_count_zeros b = lenB B - count B.
Proof. destruct Hok as (Hr & _). apply bv_repr_len in Hr. destruct Hr as (H1 & _ & H2). unfold bv_count_zeros. rewrite H1, H2. reflexivity. Qed.

Lemma lvl_down_one idx : idx < 2 ^ 64 -> map_down_one b idx = Ok (step_down B true idx).
Proof.
  intros Hi. destruct Hok as (_ & _ & Hrank & _). unfold map_down_one. rewrite (Hrank idx Hi). cbn [bind].
  rewrite lvl_zeros. reflexivity.
Qed.

Lemma lvl_down_zero idx : idx < 2 ^ 64 -> map_down_zero m b idx = Ok (step_down B false idx).
Proof.
  intros Hi. destruct Hok as (_ & _ & Hrank & _). unfold map_down_zero, bv_rank_zero. rewrite (Hrank idx Hi). cbn [bind].
  unfold usub. pose proof (rank1_le_index B idx). replace (rank1 B idx <=? idx) with true by lia. reflexivity.
Qed.

Lemma lvl_up_one idx : idx < 2 ^ 64 -> map_up_one sp m b idx = Ok (step_up B true idx).
Proof.
  intros Hi. destruct Hok as (_ & _ & _ & Hsel & _). unfold map_up_one, step_up. rewrite lvl_zeros.
  destruct (idx <? lenB B - count B); [reflexivity|]. apply Hsel. lia.
Qed.

Lemma lvl_up_zero idx : idx < 2 ^ 64 -> map_up_zero sp m b idx = Ok (step_up B false idx).
Proof. intros Hi. destruct Hok as (_ & _ & _ & _ & Hsel). unfold map_up_zero, step_up. apply Hsel. exact Hi. Qed.

Lemma lvl_get idx c : getb B idx = Some c -> bv_get b idx = Ok c.
Proof.
  intros Hc. destruct Hok as (_ & Hget & _). pose proof (getb_Some_lt _ _ _ Hc) as Hlt.
  destruct (Hget idx) as (x & H1 & H2); [destruct lvl_len as [-> _]; exact Hlt|]. congruence.
Qed.
End OneLevel.

(* ---------------------------------------------------------------- position maps over a list of columns *)

Fixpoint cdown (k : nat) (cols : list (list bool)) (v idx : N) : N :=
  match k, cols with
  | S j, B :: t => cdown j t v (step_down B (N.testbit v (N.of_nat j)) idx)
  | _, _ => idx
  end.
Fixpoint cup (k : nat) (cols : list (list bool)) (v idx : N) : option N :=
  match k, cols with
  | S j, B :: t => match cup j t v idx with
                   | None => None
                   | Some mid => step_up B (N.testbit v (N.of_nat j)) mid
                   end
  | _, _ => Some idx
  end.
Fixpoint cmd (k : nat) (cols : list (list bool)) (idx value : N) : option (N * N) :=
  match k, cols with
  | S j, B :: t => match getb B idx with
                   | None => None
                   | Some c => cmd j t (step_down B c idx) (if c then value + 2 ^ N.of_nat j else value)
                   end
  | _, _ => Some (idx, value)
  end.

Lemma downk_cdown {A} (val : A -> N) k L v idx : downk val k L v idx = cdown k (colsk val k L) v idx.
Proof. revert L idx. induction k as [|j IH]; intros L idx; [reflexivity|]. cbn [downk colsk cdown]. apply IH. Qed.
Lemma upk_cup {A} (val : A -> N) k L v idx : upk val k L v idx = cup k (colsk val k L) v idx.
Proof. revert L idx. induction k as [|j IH]; intros L idx; [reflexivity|]. cbn [upk colsk cup]. rewrite IH. reflexivity. Qed.
Lemma mdk_cmd {A} (val : A -> N) k L idx value : mdk val k L idx value = cmd k (colsk val k L) idx value.
Proof.
  revert L idx value. induction k as [|j IH]; intros L idx value; [reflexivity|]. cbn [mdk colsk cmd].
  destruct (getb (map (fbit val j) L) idx); [apply IH|reflexivity].
Qed.

Lemma colsk_length {A} (val : A -> N) k L : length (colsk val k L) = k.
Proof. revert L. induction k as [|j IH]; intros L; cbn [colsk length]; [reflexivity|rewrite IH; reflexivity]. Qed.

Lemma colsk_lens {A} (val : A -> N) k L : Forall (fun B => lenB B = N.of_nat (length L)) (colsk val k L).
Proof.
  revert L. induction k as [|j IH]; intros L; cbn [colsk]; constructor.
  - apply lenB_map.
  - rewrite <- (part_length (fbit val j) L). apply IH.
Qed.

Lemma filter_map_comm {A B} (g : A -> B) (P : B -> bool) l : filter P (map g l) = map g (filter (fun x => P (g x)) l).
Proof. induction l as [|x t IH]; [reflexivity|]. cbn [map filter]. destruct (P (g x)); cbn [map]; rewrite IH; reflexivity. Qed.

Lemma colsk_map_val {A} (val : A -> N) k L : colsk val k L = colsk (fun x => x) k (map val L).
Proof.
  revert L. induction k as [|j IH]; intros L; [reflexivity|]. cbn [colsk]. f_equal.
  - rewrite map_map. reflexivity.
  - rewrite IH. f_equal. unfold part. rewrite map_app, !filter_map_comm. reflexivity.
Qed.

(* ---------------------------------------------------------------- the bit tests of the code *)

Lemma has_bit_testbit v t : has_bit v (N.shiftl 1 t) = N.testbit v t.
Proof.
  unfold has_bit. rewrite N.shiftl_1_l.
  destruct (N.testbit v t) eqn:E.
  - apply negb_true_iff. apply N.eqb_neq. intros H0.
    assert (N.testbit (N.land v (2 ^ t)) t = false) by (rewrite H0; apply N.bits_0).
    rewrite N.land_spec, E, N.pow2_bits_true in H. discriminate.
  - apply negb_false_iff. apply N.eqb_eq. apply N.bits_inj. intros k. rewrite N.land_spec, N.bits_0.
    destruct (N.eq_dec k t) as [->|Hn]; [rewrite E; reflexivity|]. rewrite N.pow2_bits_false by congruence. apply andb_false_r.
Qed.

Lemma has_bit_level v width level j : width = level + N.of_nat (S j) ->
  has_bit v (bit_value width level) = N.testbit v (N.of_nat j).
Proof. intros H. unfold bit_value. rewrite has_bit_testbit. f_equal. lia. Qed.

Lemma bit_value_level width level j : width = level + N.of_nat (S j) -> bit_value width level = 2 ^ N.of_nat j.
Proof. intros H. unfold bit_value. rewrite N.shiftl_1_l. f_equal. lia. Qed.

Lemma level_columns_colsk fuel width level src :
  width = level + N.of_nat fuel -> level_columns fuel width level src = colsk (fun x => x) fuel src.
Proof.
  revert level src. induction fuel as [|j IH]; intros level src Hw; [reflexivity|]. cbn [level_columns colsk].
  assert (E : forall v, has_bit v (bit_value width level) = fbit (fun x => x) j v) by (intros v; apply has_bit_level; exact Hw).
  f_equal.
  - apply map_ext. exact E.
  - rewrite IH by lia. f_equal. unfold part. f_equal; apply filter_ext; intros v; rewrite E; reflexivity.
Qed.

(* ---------------------------------------------------------------- the model loops *)

Lemma Forall2_len {A B} (R : A -> B -> Prop) l1 l2 : Forall2 R l1 l2 -> length l1 = length l2.
Proof. intros H. induction H; cbn [length]; congruence. Qed.

Section Loops.
Variables (sp : selpath) (m : mode) (width : N).

Lemma loop_down_with k ls cols level idx v :
  Forall2 (bv_queries_ok sp m) ls cols -> length cols = k -> width = level + N.of_nat k -> idx < 2 ^ 64 ->
  map_down_with_loop m width ls level idx v = Ok (cdown k cols v idx).
Proof.
  intros HF. revert k level idx. induction HF as [|b B ls cols Hb HF IH]; intros k level idx Hk Hw Hi.
  - cbn [length] in Hk. subst k. reflexivity.
  - cbn [length] in Hk. destruct k as [|j]; [discriminate|]. injection Hk as Hk. cbn [map_down_with_loop cdown].
    rewrite (has_bit_level v width level j Hw).
    assert (Hs : (if N.testbit v (N.of_nat j) then map_down_one b idx else map_down_zero m b idx)
                 = Ok (step_down B (N.testbit v (N.of_nat j)) idx)).
    { destruct (N.testbit v (N.of_nat j)); [apply (lvl_down_one sp m b B Hb idx Hi)|apply (lvl_down_zero sp m b B Hb idx Hi)]. }
    rewrite Hs. cbn [bind]. apply IH; [exact Hk|lia|].
    apply step_down_lt64; [apply (lvl_len sp m b B Hb)|exact Hi].
Qed.

Lemma loop_down_two k ls cols level i1 i2 v :
  Forall2 (bv_queries_ok sp m) ls cols -> length cols = k -> width = level + N.of_nat k -> i1 < 2 ^ 64 -> i2 < 2 ^ 64 ->
  map_down_two_loop m width ls level i1 i2 v = Ok (cdown k cols v i1, cdown k cols v i2).
Proof.
  intros HF. revert k level i1 i2. induction HF as [|b B ls cols Hb HF IH]; intros k level i1 i2 Hk Hw H1 H2.
  - cbn [length] in Hk. subst k. reflexivity.
  - cbn [length] in Hk. destruct k as [|j]; [discriminate|]. injection Hk as Hk. cbn [map_down_two_loop cdown].
    rewrite (has_bit_level v width level j Hw). pose proof (lvl_len sp m b B Hb) as [_ HL].
    destruct (N.testbit v (N.of_nat j)).
    + rewrite (lvl_down_one sp m b B Hb i1 H1), (lvl_down_one sp m b B Hb i2 H2). cbn [bind].
      apply IH; [exact Hk|lia|apply step_down_lt64; assumption|apply step_down_lt64; assumption].
    + rewrite (lvl_down_zero sp m b B Hb i1 H1), (lvl_down_zero sp m b B Hb i2 H2). cbn [bind].
      apply IH; [exact Hk|lia|apply step_down_lt64; assumption|apply step_down_lt64; assumption].
Qed.

Lemma loop_down k ls cols level idx value r :
  Forall2 (bv_queries_ok sp m) ls cols -> length cols = k -> width = level + N.of_nat k -> idx < 2 ^ 64 ->
  cmd k cols idx value = Some r ->
  map_down_loop m width ls level idx value = Ok r.
Proof.
  intros HF. revert k level idx value. induction HF as [|b B ls cols Hb HF IH]; intros k level idx value Hk Hw Hi Hc.
  - cbn [length] in Hk. subst k. cbn [cmd] in Hc. injection Hc as <-. reflexivity.
  - cbn [length] in Hk. destruct k as [|j]; [discriminate|]. injection Hk as Hk. cbn [map_down_loop]. cbn [cmd] in Hc.
    destruct (getb B idx) as [c|] eqn:Ec; [|discriminate].
    rewrite (lvl_get sp m b B Hb idx c Ec). cbn [bind]. pose proof (lvl_len sp m b B Hb) as [_ HL].
    rewrite (bit_value_level width level j Hw). destruct c.
    + rewrite (lvl_down_one sp m b B Hb idx Hi). cbn [bind].
      apply (IH j); [exact Hk|lia|apply step_down_lt64; assumption|exact Hc].
    + rewrite (lvl_down_zero sp m b B Hb idx Hi). cbn [bind].
      apply (IH j); [exact Hk|lia|apply step_down_lt64; assumption|exact Hc].
Qed.

Lemma map_up_loop_app l1 l2 above idx v :
  map_up_loop sp m width (l1 ++ l2) above idx v =
  let* o := map_up_loop sp m width l1 above idx v in
  match o with
  | None => Ok None
  | Some i => map_up_loop sp m width l2 (above - N.of_nat (length l1)) i v
  end.
Proof.
  revert above idx. induction l1 as [|b t IH]; intros above idx.
  - cbn [app map_up_loop bind length]. f_equal. lia.
  - cbn [app map_up_loop length].
    destruct (if has_bit v (bit_value width (above - 1)) then map_up_one sp m b idx else map_up_zero sp m b idx) as [[i|]|k|s];
      cbn [bind]; try reflexivity.
    rewrite IH. replace (above - 1 - N.of_nat (length t)) with (above - N.of_nat (S (length t))) by lia. reflexivity.
Qed.

Lemma cup_lt64 k cols v idx i :
  Forall (fun B => lenB B < 2 ^ 64) cols -> idx < 2 ^ 64 -> cup k cols v idx = Some i -> i < 2 ^ 64.
Proof.
  revert cols idx i. induction k as [|j IH]; intros cols idx i HF Hi H; [cbn [cup] in H; injection H as <-; exact Hi|].
  destruct cols as [|B t]; [cbn [cup] in H; injection H as <-; exact Hi|]. cbn [cup] in H.
  destruct (cup j t v idx) as [mid|] eqn:E; [|discriminate].
  inversion HF as [|? ? HB Ht]; subst. unfold step_up in H.
  assert (Hg : exists c, getb B i = Some c).
  { destruct (N.testbit v (N.of_nat j)).
    - destruct (mid <? lenB B - count B); [discriminate|]. apply select1_sound in H. destruct H as [H _]. eauto.
    - apply select0_sound in H. destruct H as [H _]. eauto. }
  destruct Hg as [c Hc]. apply getb_Some_lt in Hc. lia.
Qed.

Lemma loop_up k ls cols level idx v :
  Forall2 (bv_queries_ok sp m) ls cols -> length cols = k -> width = level + N.of_nat k -> idx < 2 ^ 64 ->
  map_up_loop sp m width (rev ls) width idx v = Ok (cup k cols v idx).
Proof.
  intros HF. revert k level. induction HF as [|b B ls cols Hb HF IH]; intros k level Hk Hw Hi.
  - cbn [length] in Hk. subst k. reflexivity.
  - cbn [length] in Hk. destruct k as [|j]; [discriminate|]. injection Hk as Hk. cbn [rev cup].
    rewrite map_up_loop_app, (IH j (level + 1)) by (try exact Hk; try exact Hi; lia). cbn [bind].
    destruct (cup j cols v idx) as [mid|] eqn:E; [|reflexivity].
    assert (Hmid : mid < 2 ^ 64).
    { eapply cup_lt64; [|exact Hi|exact E]. clear - HF. induction HF as [|b' B' l c Hb' _ IH']; constructor; [|exact IH'].
      apply (lvl_len sp m b' B' Hb'). }
    rewrite rev_length. assert (Hlen : length ls = j) by (rewrite (Forall2_len _ _ _ HF); exact Hk).
    cbn [map_up_loop]. replace (width - N.of_nat (length ls) - 1) with level by lia.
    rewrite (has_bit_level v width level j Hw).
    destruct (N.testbit v (N.of_nat j)).
    + rewrite (lvl_up_one sp m b B Hb mid Hmid). cbn [bind]. destruct (step_up B true mid); reflexivity.
    + rewrite (lvl_up_zero sp m b B Hb mid Hmid). cbn [bind]. destruct (step_up B false mid); reflexivity.
Qed.
End Loops.

(* ---------------------------------------------------------------- width facts *)

Lemma list_max_lt V b : 0 < b -> Forall (fun x => x < b) V -> list_max V < b.
Proof.
  intros Hb H. induction H as [|x t Hx Ht IH]; unfold list_max in *; cbn [fold_right]; [exact Hb|lia].
Qed.

Lemma bit_len_range n : n < 2 ^ 64 -> 1 <= bit_len n <= 64 /\ n < 2 ^ bit_len n.
Proof.
  intros Hn. destruct (N.eq_dec n 0) as [->|Hz]; [change (bit_len 0) with 1; split; [lia|reflexivity]|].
  pose proof (bit_len_bounds n ltac:(lia)) as [_ H2]. rewrite bit_len_spec by exact Hn.
  rewrite bit_len_spec in H2 by exact Hn. replace (n =? 0) with false in * by lia.
  assert (N.log2 n < 64) by (apply N.log2_lt_pow2; lia). lia.
Qed.

Lemma width_v_bit_len V : Forall (fun x => x < 2 ^ 64) V -> width_v V = bit_len (list_max V).
Proof.
  intros HV. assert (Hm : list_max V < 2 ^ 64) by (apply list_max_lt; [lia|exact HV]).
  unfold width_v. change (max_v V) with (list_max V). rewrite bit_len_spec by exact Hm.
  destruct (N.eqb_spec (list_max V) 0) as [->|Hz]; [reflexivity|]. rewrite N.size_log2 by exact Hz. lia.
Qed.

Lemma index_from_fst_nodup {A} (l : list A) s : NoDup (map fst (index_from l s)).
Proof.
  revert s. induction l as [|x t IH]; intros s; cbn [index_from map fst]; constructor; [|apply IH].
  intros Hin. apply in_map_iff in Hin. destruct Hin as ([p y] & E & Hy). cbn [fst] in E. subst p.
  apply index_from_in in Hy. lia.
Qed.

(* ---------------------------------------------------------------- WMCore *)

Section Core.
Variables (sp : selpath) (m : mode) (V : list N) (levels : list bitvec).
Hypothesis HV : Forall (fun x => x < 2 ^ 64) V.
Hypothesis Hn : lenN V < 2 ^ 64.
Hypothesis Hlv : Forall2 (bv_queries_ok sp m) levels (wm_columns V).

Let width := bit_len (list_max V).
Let w := N.to_nat width.
Let L0 := index_from V 0.
Let core := mkcore levels.

Lemma core_width_range : 1 <= width <= 64 /\ N.of_nat w = width /\ (1 <= w <= 64)%nat.
Proof.
  assert (Hm : list_max V < 2 ^ 64) by (apply list_max_lt; [lia|exact HV]).
  pose proof (bit_len_range _ Hm) as [H _]. unfold w, width. lia.
Qed.

Lemma core_values_small : Forall (fun x => x < 2 ^ N.of_nat w) V.
Proof.
  destruct core_width_range as (_ & -> & _).
  assert (Hm : list_max V < 2 ^ 64) by (apply list_max_lt; [lia|exact HV]).
  pose proof (bit_len_range _ Hm) as [_ H]. rewrite Forall_forall. intros x Hx. apply list_max_ge in Hx. fold width in H. lia.
Qed.

Lemma core_columns : wm_columns V = colsk snd w L0.
Proof.
  unfold wm_columns. fold width w. rewrite level_columns_colsk by (destruct core_width_range; lia).
  rewrite (colsk_map_val snd). unfold L0. rewrite index_from_snd. reflexivity.
Qed.

Lemma core_levels_ok : Forall2 (bv_queries_ok sp m) levels (colsk snd w L0).
Proof. rewrite <- core_columns. exact Hlv. Qed.

Lemma core_width : wc_width core = width.
Proof.
  unfold wc_width, core, lenN. cbn [wc_levels]. rewrite (Forall2_len _ _ _ core_levels_ok), colsk_length.
  destruct core_width_range; lia.
Qed.

Lemma L0_length : N.of_nat (length L0) = lenN V.
Proof. unfold L0, lenN. rewrite index_from_length. reflexivity. Qed.

Lemma core_len : wc_len core = Ok (lenN V).
Proof.
  pose proof core_levels_ok as H. destruct core_width_range as (_ & _ & Hw). destruct w as [|j] eqn:Ew; [lia|].
  cbn [colsk] in H. inversion H as [|b B ls cols Hb Hrest E1 E2]; subst.
  unfold wc_len, core. cbn [wc_levels]. unfold idx. cbn [nthN]. change (0 =? 0) with true. cbn [bind].
  f_equal. destruct (lvl_len sp m b _ Hb) as [-> _]. rewrite lenB_map. apply L0_length.
Qed.

Lemma L0_nth i x : nth_opt V i = Some x -> nth_opt L0 i = Some (i, x).
Proof. intros H. unfold L0. rewrite index_from_nth, H. cbn [option_map]. f_equal. Qed.

Lemma L0_nth_inv i a : nth_opt L0 i = Some a -> a = (i, snd a) /\ nth_opt V i = Some (snd a).
Proof.
  unfold L0. rewrite index_from_nth. destruct (nth_opt V i) as [x|]; cbn [option_map]; [|discriminate].
  intros H. injection H as <-. cbn [snd]. split; [f_equal|reflexivity].
Qed.

(* the model functions evaluate to the list-level maps *)
Lemma eval_down_with i v : i < 2 ^ 64 ->
  wc_map_down_with m core i v = Ok (downk snd w L0 v (N.min i (lenN V))).
Proof.
  intros Hi. unfold wc_map_down_with. rewrite core_len. cbn [bind]. rewrite core_width, downk_cdown.
  apply (loop_down_with sp m width w levels); [exact core_levels_ok|apply colsk_length|destruct core_width_range; lia|lia].
Qed.

Lemma eval_down_two i1 i2 v : i1 < 2 ^ 64 -> i2 < 2 ^ 64 ->
  wc_map_down_with_two m core i1 i2 v =
  Ok (downk snd w L0 v (N.min i1 (lenN V)), downk snd w L0 v (N.min i2 (lenN V))).
Proof.
  intros H1 H2. unfold wc_map_down_with_two. rewrite core_len. cbn [bind]. rewrite core_width, !downk_cdown.
  apply (loop_down_two sp m width w levels); [exact core_levels_ok|apply colsk_length|destruct core_width_range; lia|lia|lia].
Qed.

Lemma eval_up j v : j < 2 ^ 64 -> wc_map_up_with sp m core j v = Ok (upk snd w L0 v j).
Proof.
  intros Hj. unfold wc_map_up_with. rewrite core_width, upk_cup. unfold core. cbn [wc_levels].
  apply (loop_up sp m width w levels (colsk snd w L0) 0); [exact core_levels_ok|apply colsk_length|destruct core_width_range; lia|exact Hj].
Qed.

Lemma eval_down i : i < 2 ^ 64 ->
  wc_map_down m core i =
  Ok (match nth_opt V i with Some x => Some (downk snd w L0 x i, x) | None => None end).
Proof.
  intros Hi. unfold wc_map_down. rewrite core_len. cbn [bind].
  destruct (nth_opt V i) as [x|] eqn:Ex.
  - pose proof (nth_opt_Some_lt _ _ _ Ex) as Hlt. unfold lenN. replace (N.of_nat (length V) <=? i) with false by lia.
    rewrite core_width. unfold core. cbn [wc_levels].
    rewrite (loop_down sp m width w levels (colsk snd w L0) 0 i 0 (downk snd w L0 x i, x));
      [reflexivity|exact core_levels_ok|apply colsk_length|destruct core_width_range; lia|exact Hi|].
    rewrite <- mdk_cmd, (mdk_spec snd w L0 i 0 (i, x) (L0_nth i x Ex)). cbn [snd]. f_equal. f_equal.
    pose proof core_values_small as Hs. rewrite Forall_forall in Hs. rewrite N.mod_small; [lia|].
    apply Hs. eapply nth_opt_in. exact Ex.
  - apply nth_opt_None in Ex. unfold lenN. replace (N.of_nat (length V) <=? i) with true by lia. reflexivity.
Qed.

(* ---- the list-level maps against the specification *)

Lemma reordered_levels : reordered V = sortk snd w L0.
Proof. apply reordered_sortk; [destruct core_width_range; lia|exact core_values_small]. Qed.

Lemma mod_width v : v mod 2 ^ N.of_nat w < 2 ^ N.of_nat w.
Proof. apply N.mod_upper_bound. apply N.pow_nonzero. discriminate. Qed.

Lemma downk_spec v i : i <= lenN V -> downk snd w L0 v i = map_down_with_v V i (v mod 2 ^ width).
Proof.
  intros Hi. destruct core_width_range as (_ & Hww & Hw64). rewrite <- Hww.
  rewrite downk_count by (rewrite L0_length; exact Hi). unfold map_down_with_v. f_equal.
  - rewrite less_v_cnt. unfold L0. rewrite <- (index_from_snd V 0) at 2. rewrite cnt_map.
    apply cnt_ext_in. intros [p x] Hx. cbn [snd]. apply index_from_in in Hx. destruct Hx as [_ Hx].
    pose proof core_values_small as Hs. rewrite Forall_forall in Hs. specialize (Hs x (nth_opt_in _ _ _ Hx)).
    rewrite (revkey_lt_small w) by (try lia; try exact Hs; apply mod_width). rewrite krev_mod. reflexivity.
  - rewrite rank_v_cnt.
    replace (firstn (N.to_nat i) V) with (map snd (firstn (N.to_nat i) L0))
      by (rewrite <- firstn_map; unfold L0; rewrite index_from_snd; reflexivity).
    rewrite cnt_map.
    apply cnt_ext_in. intros [p x] Hx. cbn [snd].
    assert (Hin : In (p, x) L0) by (rewrite <- (firstn_skipn (N.to_nat i) L0); apply in_or_app; left; exact Hx).
    apply index_from_in in Hin. destruct Hin as [_ Hin].
    pose proof core_values_small as Hs. rewrite Forall_forall in Hs. specialize (Hs x (nth_opt_in _ _ _ Hin)).
    rewrite (N.mod_small x) by exact Hs. reflexivity.
Qed.

Lemma L0_fst_nodup : NoDup (map fst L0).
Proof. apply index_from_fst_nodup. Qed.

Lemma reordered_fst_nodup : NoDup (map fst (reordered V)).
Proof.
  eapply Permutation_NoDup; [apply Permutation_map; apply Permutation_sym; apply reordered_perm|]. exact L0_fst_nodup.
Qed.

Lemma find_pos_nth (l : list (N * N)) j e s :
  NoDup (map fst l) -> nth_opt l j = Some e -> find_pos l (fst e) s = Some (s + j).
Proof.
  revert j s. induction l as [|y t IH]; intros j s HN He; [discriminate|]. cbn [nth_opt] in He. cbn [find_pos].
  cbn [map] in HN. inversion HN as [|? ? Hny HNt]; subst.
  destruct (N.eqb_spec j 0) as [->|Hj].
  - injection He as ->. rewrite N.eqb_refl. f_equal. lia.
  - destruct (N.eqb_spec (fst y) (fst e)) as [E|_].
    + exfalso. apply Hny. rewrite E. apply in_map. eapply nth_opt_in. exact He.
    + rewrite (IH (j - 1) (s + 1) HNt He). f_equal. lia.
Qed.

Lemma nodup_nth_inj {A} (l : list A) i j e : NoDup l -> nth_opt l i = Some e -> nth_opt l j = Some e -> i = j.
Proof.
  intros HN Hi Hj. pose proof (nth_opt_Some_lt _ _ _ Hi). rewrite nth_opt_nth_error in Hi, Hj.
  assert (N.to_nat i = N.to_nat j); [|lia]. apply (NoDup_nth_error l); [exact HN|lia|congruence].
Qed.

Lemma reordered_nodup : NoDup (reordered V).
Proof. eapply NoDup_map_inv. exact reordered_fst_nodup. Qed.

(* map down: the position in the reordered vector *)
Lemma down_spec i x : nth_opt V i = Some x -> map_down_v V i = Some (downk snd w L0 x i, x).
Proof.
  intros Hx. unfold map_down_v. rewrite Hx.
  pose proof (downk_nth snd w L0 i (i, x) (L0_nth i x Hx)) as Hn'. cbn [snd] in Hn'. rewrite <- reordered_levels in Hn'.
  pose proof (find_pos_nth (reordered V) _ (i, x) 0 reordered_fst_nodup Hn') as Hf. cbn [fst] in Hf. rewrite Hf.
  reflexivity.
Qed.

(* map up: the original position of a reordered item, provided it carries the value *)
Lemma up_spec j v : upk snd w L0 v j = map_up_v V j (v mod 2 ^ width).
Proof.
  destruct core_width_range as (_ & Hww & Hw64). rewrite <- Hww.
  pose proof core_values_small as Hs. rewrite Forall_forall in Hs.
  unfold map_up_v. destruct (upk snd w L0 v j) as [i|] eqn:Eu.
  - apply upk_sound in Eu; [|lia]. destruct Eu as (a & Ha & Hm & Hd).
    apply L0_nth_inv in Ha. destruct Ha as [Ea Hv]. destruct a as [p x]. cbn [snd] in *. injection Ea as ->.
    assert (Hx : x < 2 ^ N.of_nat w) by (apply Hs; eapply nth_opt_in; exact Hv).
    rewrite N.mod_small in Hm by exact Hx.
    pose proof (downk_nth snd w L0 i (i, x) (L0_nth i x Hv)) as Hn'. cbn [snd] in Hn'.
    rewrite (downk_mod snd w L0 x v i) in Hn' by (rewrite N.mod_small by exact Hx; exact Hm).
    rewrite Hd, <- reordered_levels in Hn'. rewrite Hn'. rewrite <- Hm, N.eqb_refl. reflexivity.
  - destruct (nth_opt (reordered V) j) as [[p x]|] eqn:Er; [|reflexivity].
    destruct (N.eqb_spec x (v mod 2 ^ N.of_nat w)) as [Hxv|]; [|reflexivity]. exfalso.
    assert (Hin : In (p, x) L0).
    { eapply Permutation_in; [apply reordered_perm|]. eapply nth_opt_in. exact Er. }
    apply index_from_in in Hin. destruct Hin as [_ Hp]. replace (p - 0) with p in Hp by lia.
    assert (Hx : x < 2 ^ N.of_nat w) by (apply Hs; eapply nth_opt_in; exact Hp).
    assert (Hm : snd (p, x) mod 2 ^ N.of_nat w = v mod 2 ^ N.of_nat w) by (cbn [snd]; rewrite N.mod_small by exact Hx; exact Hxv).
    pose proof (upk_complete snd w L0 v p (p, x) (L0_nth p x Hp) Hm) as Hc.
    pose proof (downk_nth snd w L0 p (p, x) (L0_nth p x Hp)) as Hn'. cbn [snd] in Hn'.
    rewrite (downk_mod snd w L0 x v p) in Hn' by (rewrite N.mod_small by exact Hx; exact Hxv).
    rewrite <- reordered_levels in Hn'.
    assert (j = downk snd w L0 v p) by (eapply nodup_nth_inj; [exact reordered_nodup|exact Er|exact Hn']).
    subst j. congruence.
Qed.

(* pure corollaries used by the matrix-level proofs *)
Lemma map_down_v_pos i x : nth_opt V i = Some x -> map_down_v V i = Some (less_v V x + rank_v V i x, x).
Proof.
  intros Hx. rewrite (down_spec i x Hx). pose proof (nth_opt_Some_lt _ _ _ Hx) as Hlt.
  rewrite downk_spec by (unfold lenN; lia). unfold map_down_with_v.
  destruct core_width_range as (_ & Hww & _). pose proof core_values_small as Hs. rewrite Forall_forall in Hs.
  rewrite <- Hww, N.mod_small by (apply Hs; eapply nth_opt_in; exact Hx). reflexivity.
Qed.

Lemma map_up_v_select r v : v < 2 ^ width -> map_up_v V (less_v V v + r) v = select_v V r v.
Proof.
  intros Hv. destruct core_width_range as (_ & Hww & _).
  assert (Hvm : v mod 2 ^ width = v) by (apply N.mod_small; exact Hv).
  rewrite <- Hvm at 2. rewrite <- up_spec.
  destruct (upk snd w L0 v (less_v V v + r)) as [p|] eqn:Eu.
  - apply upk_sound in Eu; [|destruct core_width_range; lia]. destruct Eu as (a & Ha & Hm & Hd).
    apply L0_nth_inv in Ha. destruct Ha as [Ea Hp]. destruct a as [q x]. cbn [snd] in *. injection Ea as ->.
    pose proof core_values_small as Hs. rewrite Forall_forall in Hs.
    rewrite Hww, N.mod_small in Hm by (rewrite <- Hww; apply Hs; eapply nth_opt_in; exact Hp). rewrite Hvm in Hm. subst x.
    pose proof (nth_opt_Some_lt _ _ _ Hp) as Hlt.
    rewrite downk_spec in Hd by (unfold lenN; lia). rewrite Hvm in Hd. unfold map_down_with_v in Hd.
    assert (rank_v V p v = r) by lia. subst r. symmetry. apply select_v_complete. exact Hp.
  - destruct (select_v V r v) as [p|] eqn:Es; [|reflexivity]. exfalso.
    apply select_v_sound in Es. destruct Es as [Hp Hr]. pose proof (nth_opt_Some_lt _ _ _ Hp) as Hlt.
    assert (Hm : snd (p, v) mod 2 ^ N.of_nat w = v mod 2 ^ N.of_nat w) by reflexivity.
    pose proof (upk_complete snd w L0 v p (p, v) (L0_nth p v Hp) Hm) as Hc.
    rewrite downk_spec in Hc by (unfold lenN; lia). rewrite Hvm in Hc. unfold map_down_with_v in Hc. rewrite Hr in Hc. congruence.
Qed.

(* ---- the core theorems *)

Theorem core_len_width : wc_len core = Ok (lenS V) /\ wc_width core = width_v V.
Proof. split; [exact core_len|]. rewrite core_width. symmetry. apply width_v_bit_len. exact HV. Qed.

Theorem core_map_down i : i < 2 ^ 64 -> wc_map_down m core i = Ok (map_down_v V i).
Proof.
  intros Hi. rewrite (eval_down i Hi). f_equal. destruct (nth_opt V i) as [x|] eqn:Ex.
  - symmetry. apply down_spec. exact Ex.
  - unfold map_down_v. rewrite Ex. reflexivity.
Qed.

Theorem core_map_down_with i v : i < 2 ^ 64 ->
  wc_map_down_with m core i v = Ok (map_down_with_v V i (v mod 2 ^ width_v V)).
Proof.
  intros Hi. rewrite (eval_down_with i v Hi). f_equal. rewrite downk_spec by lia.
  rewrite (width_v_bit_len V HV). fold width. unfold map_down_with_v. f_equal.
  change (lenN V) with (lenS V). apply rank_v_min.
Qed.

Theorem core_map_down_two i1 i2 v : i1 < 2 ^ 64 -> i2 < 2 ^ 64 ->
  wc_map_down_with_two m core i1 i2 v =
  Ok (map_down_with_v V i1 (v mod 2 ^ width_v V), map_down_with_v V i2 (v mod 2 ^ width_v V)).
Proof.
  intros H1 H2. rewrite (eval_down_two i1 i2 v H1 H2). rewrite !downk_spec by lia.
  rewrite (width_v_bit_len V HV). fold width. unfold map_down_with_v. change (lenN V) with (lenS V). rewrite !rank_v_min. reflexivity.
Qed.

Theorem core_map_up_with j v : j < 2 ^ 64 ->
  wc_map_up_with sp m core j v = Ok (map_up_v V j (v mod 2 ^ width_v V)).
Proof. intros Hj. rewrite (eval_up j v Hj), up_spec, (width_v_bit_len V HV). reflexivity. Qed.

(* mapping up inverts mapping down *)
Theorem core_round_trip i x : nth_opt V i = Some x ->
  exists j, wc_map_down m core i = Ok (Some (j, x)) /\ wc_map_down_with m core i x = Ok j /\
            wc_map_up_with sp m core j x = Ok (Some i) /\ j < lenS V.
Proof.
  intros Hx. pose proof (nth_opt_Some_lt _ _ _ Hx) as Hlt. unfold lenN in Hn.
  exists (downk snd w L0 x i).
  assert (Hj : downk snd w L0 x i < lenS V).
  { pose proof (downk_nth snd w L0 i (i, x) (L0_nth i x Hx)) as Hn'. cbn [snd] in Hn'.
    apply nth_opt_Some_lt in Hn'. rewrite sortk_length in Hn'. unfold L0 in Hn'. rewrite index_from_length in Hn'. exact Hn'. }
  split; [rewrite eval_down by lia; rewrite Hx; reflexivity|]. split.
  - rewrite eval_down_with by lia. unfold lenN. rewrite N.min_l by lia. reflexivity.
  - split; [|exact Hj]. rewrite eval_up by (unfold lenS in Hj; lia). f_equal.
    apply (upk_complete snd w L0 x i (i, x)); [apply L0_nth; exact Hx|reflexivity].
Qed.

End Core.

(* ---------------------------------------------------------------- occurrence lists *)

Lemma skipN_0 {A} (l : list A) : skipN l 0 = l.
Proof. destruct l; reflexivity. Qed.

Lemma skipN_index_from {A} (l : list A) s r :
  skipN (index_from l s) r =
  match nth_opt l r with Some p => (s + r, p) :: skipN (index_from l s) (r + 1) | None => [] end.
Proof.
  revert s r. induction l as [|x t IH]; intros s r; [reflexivity|]. cbn [index_from skipN nth_opt].
  destruct (N.eqb_spec r 0) as [->|Hr].
  - replace (0 + 1 =? 0) with false by lia. replace (0 + 1 - 1) with 0 by lia. rewrite skipN_0. f_equal. f_equal. lia.
  - rewrite IH. replace (r + 1 =? 0) with false by lia. replace (r + 1 - 1) with (r - 1 + 1) by lia.
    destruct (nth_opt t (r - 1)); [f_equal; f_equal; lia|reflexivity].
Qed.

Lemma ones_from_bounds B pos : StronglySorted N.lt (ones_from B pos) /\ Forall (fun p => pos <= p) (ones_from B pos).
Proof.
  revert pos. induction B as [|b t IH]; intros pos; cbn [ones_from]; [split; constructor|].
  destruct (IH (pos + 1)) as [H1 H2]. rewrite Forall_forall in H2. destruct b.
  - split; constructor; try exact H1; try lia; rewrite Forall_forall; intros p Hp; specialize (H2 p Hp); lia.
  - split; [exact H1|]. rewrite Forall_forall. intros p Hp. specialize (H2 p Hp). lia.
Qed.

Lemma ones_from_cnt B pos k : cnt (fun p => p <? pos + k) (ones_from B pos) = rank1 B k.
Proof.
  revert pos k. induction B as [|b t IH]; intros pos k; cbn [ones_from rank1]; [reflexivity|].
  destruct (N.eqb_spec k 0) as [->|Hk].
  - apply cnt_false. intros p Hp. pose proof (ones_from_bounds (b :: t) pos) as [_ Hb]. rewrite Forall_forall in Hb.
    specialize (Hb p Hp). lia.
  - specialize (IH (pos + 1) (k - 1)). replace (pos + 1 + (k - 1)) with (pos + k) in IH by lia.
    destruct b; cbn [b2n]; [rewrite cnt_cons, IH; replace (pos <? pos + k) with true by lia; reflexivity|rewrite IH; lia].
Qed.

Lemma occ_sorted V v : StronglySorted N.lt (occ V v).
Proof. unfold occ. rewrite occ_from_ones. apply ones_from_bounds. Qed.

Lemma occ_cnt V v k : cnt (fun p => p <? k) (occ V v) = rank_v V k v.
Proof. unfold occ. rewrite occ_from_ones, rank_v_rank1. apply (ones_from_cnt (ind v V) 0 k). Qed.

Lemma nth_opt_occ V v r : nth_opt (occ V v) r = select_v V r v.
Proof. reflexivity. Qed.

Lemma drop_below_sorted O s i :
  StronglySorted N.lt O -> drop_below (index_from O s) i = skipN (index_from O s) (cnt (fun p => p <? i) O).
Proof.
  revert s. induction O as [|p t IH]; intros s HS; [reflexivity|]. cbn [index_from drop_below]. rewrite cnt_cons.
  apply StronglySorted_inv in HS. destruct HS as [Ht Hp]. destruct (N.ltb_spec p i) as [Hlt|Hge].
  - rewrite IH by exact Ht. cbn [skipN]. replace (1 + cnt (fun p0 => p0 <? i) t =? 0) with false by lia.
    f_equal. lia.
  - rewrite cnt_false; [cbn [skipN]; reflexivity|]. intros q Hq. rewrite Forall_forall in Hp. specialize (Hp q Hq). lia.
Qed.

Lemma pred_suffix_sorted O s i best :
  StronglySorted N.lt O ->
  pred_suffix_aux (index_from O s) i best =
  if cnt (fun p => p <=? i) O =? 0 then best else skipN (index_from O s) (cnt (fun p => p <=? i) O - 1).
Proof.
  revert s best. induction O as [|p t IH]; intros s best HS; [reflexivity|]. cbn [index_from pred_suffix_aux]. rewrite cnt_cons.
  apply StronglySorted_inv in HS. destruct HS as [Ht Hp]. destruct (N.leb_spec p i) as [Hle|Hgt].
  - rewrite IH by exact Ht. replace (1 + cnt (fun p0 => p0 <=? i) t =? 0) with false by lia.
    destruct (N.eqb_spec (cnt (fun p0 => p0 <=? i) t) 0) as [E|E].
    + rewrite E. replace (1 + 0 - 1) with 0 by lia. cbn [skipN]. reflexivity.
    + cbn [skipN]. replace (1 + cnt (fun p0 => p0 <=? i) t - 1 =? 0) with false by lia. f_equal. lia.
  - rewrite cnt_false; [reflexivity|]. intros q Hq. rewrite Forall_forall in Hp. specialize (Hp q Hq). lia.
Qed.

Lemma skipn_nth {A} (l : list A) k x : nth_error l k = Some x -> skipn k l = x :: skipn (S k) l.
Proof.
  revert k. induction l as [|y t IH]; intros k H; [destruct k; discriminate|].
  destruct k as [|k]; [cbn in H; injection H as ->; reflexivity|]. cbn [nth_error] in H. cbn [skipn]. apply IH. exact H.
Qed.

(* ---------------------------------------------------------------- WaveletMatrix *)

(* the IntVector `first` returns the offsets that were pushed into it *)
Definition first_ok (first : intvec) (F : list N) : Prop :=
  ilen first = lenN F /\ forall v x, nthN F v = Some x -> iv_get first v = Ok x.

Section WMat.
Variables (sp : selpath) (m : mode) (V : list N) (levels : list bitvec) (first : intvec) (F : list N).
Hypothesis HV : Forall (fun x => x < 2 ^ 64) V.
Hypothesis Hn : lenN V < 2 ^ 64.
Hypothesis Hmax : list_max V + 1 < 2 ^ 64.
Hypothesis Hlv : Forall2 (bv_queries_ok sp m) levels (wm_columns V).
Hypothesis HF : first_offsets m V (lenN V) (list_max V) = Ok F.
Hypothesis Hfirst : first_ok first F.

Let wm := mkwm (lenN V) (mkcore levels) first.
Let core := mkcore levels.

Lemma F_spec : lenN F = list_max V + 1 /\
  forall v, v <= list_max V -> nthN F v = Some (if contains_v V v then less_v V v else lenN V).
Proof.
  destruct (first_offsets_ok m V HV Hmax) as (F' & H1 & H2 & H3). rewrite HF in H1. injection H1 as ->. tauto.
Qed.

Lemma start_ok v : v <= list_max V -> wm_start wm v = Ok (if contains_v V v then less_v V v else lenN V).
Proof. intros Hv. unfold wm_start, wm. cbn [wm_first]. apply Hfirst. apply F_spec. exact Hv. Qed.

Lemma absent_above v : list_max V < v -> contains_v V v = false.
Proof.
  intros Hv. destruct (contains_v V v) eqn:E; [|reflexivity]. apply contains_v_in in E. apply list_max_ge in E. lia.
Qed.

Lemma contains_ok v : wm_contains wm v = Ok (contains_v V v).
Proof.
  unfold wm_contains. change (ilen (wm_first wm)) with (ilen first). destruct Hfirst as [-> _]. destruct F_spec as [-> _].
  destruct (N.ltb_spec v (list_max V + 1)) as [Hv|Hv].
  - rewrite start_ok by lia. cbn [bind]. f_equal. change (wm_len wm) with (lenN V).
    destruct (contains_v V v) eqn:E.
    + apply contains_v_in in E. apply less_v_lt in E. unfold lenS, lenN in *. lia.
    + lia.
  - rewrite absent_above by lia. reflexivity.
Qed.

Lemma value_small v : v <= list_max V -> v < 2 ^ bit_len (list_max V).
Proof.
  intros Hv. assert (Hm : list_max V < 2 ^ 64) by lia. pose proof (bit_len_range _ Hm) as [_ H]. lia.
Qed.

Lemma present_le v : contains_v V v = true -> v <= list_max V.
Proof. intros H. apply contains_v_in in H. apply list_max_ge. exact H. Qed.

Theorem wm_rank_ok i v : i < 2 ^ 64 -> wm_rank m wm i v = Ok (rank_v V i v).
Proof.
  intros Hi. unfold wm_rank. rewrite contains_ok. cbn [bind]. destruct (contains_v V v) eqn:Ec; cbn [negb].
  - change (wm_data wm) with core. unfold core. rewrite (core_map_down_with sp m V levels HV Hn Hlv i v Hi). cbn [bind].
    rewrite start_ok by (apply present_le; exact Ec). rewrite Ec. cbn [bind].
    rewrite (width_v_bit_len V HV), N.mod_small by (apply value_small, present_le; exact Ec).
    unfold map_down_with_v, usub. replace (less_v V v <=? less_v V v + rank_v V i v) with true by lia. f_equal. lia.
  - rewrite rank_v_absent by exact Ec. reflexivity.
Qed.

Theorem wm_inverse_select_ok i : i < 2 ^ 64 -> wm_inverse_select m wm i = Ok (inverse_select_v V i).
Proof.
  intros Hi. unfold wm_inverse_select. change (wm_data wm) with core. unfold core.
  rewrite (core_map_down sp m V levels HV Hn Hlv i Hi). cbn [bind]. unfold inverse_select_v.
  destruct (nth_opt V i) as [x|] eqn:Ex.
  - rewrite (map_down_v_pos V HV Hn i x Ex).
    assert (Hc : contains_v V x = true) by (apply contains_v_in; eapply nth_opt_in; exact Ex).
    rewrite start_ok by (apply present_le; exact Hc). rewrite Hc. cbn [bind]. unfold usub.
    replace (less_v V x <=? less_v V x + rank_v V i x) with true by lia. cbn [bind]. f_equal. f_equal. f_equal. lia.
  - unfold map_down_v. rewrite Ex. reflexivity.
Qed.

Theorem wm_get_ok i : i < 2 ^ 64 ->
  wm_get m wm i = match get_v V i with Some x => Ok x | None => Panic PUnwrap end.
Proof.
  intros Hi. unfold wm_get. rewrite (wm_inverse_select_ok i Hi). cbn [bind]. unfold inverse_select_v, get_v.
  destruct (nth_opt V i); reflexivity.
Qed.

Theorem wm_select_ok r v : r < 2 ^ 64 -> wm_select sp m wm r v = Ok (select_v V r v).
Proof.
  intros Hr. unfold wm_select. rewrite contains_ok. cbn [bind]. destruct (contains_v V v) eqn:Ec; cbn [negb].
  - rewrite start_ok by (apply present_le; exact Ec). rewrite Ec. cbn [bind].
    assert (Hs : less_v V v < lenS V) by (apply less_v_lt, contains_v_in; exact Ec).
    destruct (N.ltb_spec (less_v V v + r) (2 ^ 64)) as [Hlt|Hge].
    + change (wm_data wm) with core. unfold core. rewrite (core_map_up_with sp m V levels HV Hn Hlv _ v Hlt). f_equal.
      rewrite (width_v_bit_len V HV), N.mod_small by (apply value_small, present_le; exact Ec).
      apply (map_up_v_select V HV Hn). apply value_small, present_le. exact Ec.
    + f_equal. destruct (select_v V r v) as [p|] eqn:Es; [|reflexivity]. exfalso.
      apply select_v_sound in Es. destruct Es as [_ Es]. pose proof (less_rank_le V p v). unfold lenS, lenN in *. lia.
  - rewrite select_v_absent by exact Ec. reflexivity.
Qed.

Lemma select_iter_unfold r v :
  select_iter_v V r v = match select_v V r v with Some p => (r, p) :: select_iter_v V (r + 1) v | None => [] end.
Proof.
  unfold select_iter_v, value_iter_v. rewrite skipN_index_from, nth_opt_occ.
  destruct (select_v V r v); [f_equal; f_equal; lia|reflexivity].
Qed.

Lemma select_v_beyond r v : lenS V <= r -> select_v V r v = None.
Proof.
  intros Hr. destruct (select_v V r v) as [p|] eqn:Es; [|reflexivity]. exfalso.
  apply select_v_sound in Es. destruct Es as [Hp Es]. apply nth_opt_Some_lt in Hp. pose proof (rank_v_le V p v). unfold lenS in Hr. lia.
Qed.

Lemma vi_collect_ok fuel r v :
  r < 2 ^ 64 -> lenN V - r < N.of_nat fuel ->
  vi_collect sp m wm fuel (mkvi v r) = Ok (select_iter_v V r v).
Proof.
  revert r. induction fuel as [|k IH]; intros r Hr Hf; [lia|]. cbn [vi_collect]. unfold vi_next. cbn [vi_rank vi_value].
  change (wm_len wm) with (lenN V). rewrite select_iter_unfold.
  destruct (N.leb_spec (lenN V) r) as [Hge|Hlt].
  - cbn [bind]. rewrite select_v_beyond by exact Hge. reflexivity.
  - rewrite (wm_select_ok r v Hr). cbn [bind]. destruct (select_v V r v) as [p|]; cbn [bind]; [|reflexivity].
    rewrite IH by lia. reflexivity.
Qed.

(* value_iter / select_iter: everything the iterator yields *)
Theorem wm_iter_items_ok r v : r < 2 ^ 64 -> vi_items sp m wm (wm_select_iter r v) = Ok (select_iter_v V r v).
Proof.
  intros Hr. unfold vi_items, wm_select_iter. apply vi_collect_ok; [exact Hr|]. unfold vi_fuel. change (wm_len wm) with (lenN V). lia.
Qed.

Theorem wm_value_iter_ok v : vi_items sp m wm (wm_value_iter v) = Ok (value_iter_v V v).
Proof.
  change (wm_value_iter v) with (wm_select_iter 0 v). rewrite wm_iter_items_ok by lia.
  unfold select_iter_v. rewrite skipN_0. reflexivity.
Qed.

Lemma rank_v_sat i v : i < 2 ^ 64 -> rank_v V (sat_add1 i) v = rank_v V (i + 1) v.
Proof.
  intros Hi. unfold sat_add1. destruct (N.ltb_spec (i + 1) (2 ^ 64)); [reflexivity|].
  rewrite <- (rank_v_min V (2 ^ 64 - 1)), <- (rank_v_min V (i + 1)). unfold lenS, lenN in *. rewrite !N.min_r by lia. reflexivity.
Qed.

Theorem wm_predecessor_ok i v : i < 2 ^ 64 ->
  (let* it := wm_predecessor m wm i v in vi_items sp m wm it) = Ok (pred_v V i v).
Proof.
  intros Hi. unfold wm_predecessor. rewrite wm_rank_ok by (unfold sat_add1; destruct (i + 1 <? 2 ^ 64) eqn:E; lia).
  cbn [bind]. rewrite rank_v_sat by exact Hi. change (wm_len wm) with (lenN V).
  unfold pred_v, value_iter_v. rewrite (pred_suffix_sorted _ 0 i [] (occ_sorted V v)).
  rewrite (cnt_ext (fun p => p <=? i) (fun p => p <? i + 1)) by (intros p; lia). rewrite occ_cnt.
  pose proof (rank_v_le V (i + 1) v) as Hle.
  assert (Hrn : rank_v V (i + 1) v <= lenN V).
  { rewrite <- rank_v_min. etransitivity; [apply rank_v_le|]. unfold lenS, lenN. lia. }
  destruct (N.ltb_spec 0 (rank_v V (i + 1) v)) as [Hpos|Hz].
  - replace (rank_v V (i + 1) v =? 0) with false by lia. rewrite wm_iter_items_ok by lia. reflexivity.
  - replace (rank_v V (i + 1) v =? 0) with true by lia. rewrite wm_iter_items_ok by exact Hn. f_equal.
    rewrite select_iter_unfold, select_v_beyond by (unfold lenS, lenN; lia). reflexivity.
Qed.

Theorem wm_successor_ok i v : i < 2 ^ 64 ->
  (let* it := wm_successor m wm i v in vi_items sp m wm it) = Ok (succ_v V i v).
Proof.
  intros Hi. unfold wm_successor. rewrite wm_rank_ok by exact Hi. cbn [bind].
  pose proof (rank_v_le V i v). rewrite wm_iter_items_ok by lia. f_equal.
  unfold succ_v, select_iter_v, value_iter_v. rewrite (drop_below_sorted _ 0 i (occ_sorted V v)), occ_cnt. reflexivity.
Qed.

Lemma iter_collect_ok fuel i :
  lenN V - i < N.of_nat fuel -> i <= lenN V -> wm_iter_collect m wm fuel i = Ok (skipn (N.to_nat i) V).
Proof.
  revert i. induction fuel as [|k IH]; intros i Hf Hi; [lia|]. cbn [wm_iter_collect]. change (wm_len wm) with (lenN V).
  destruct (N.leb_spec (lenN V) i) as [Hge|Hlt].
  - rewrite skipn_all2 by (unfold lenN in *; lia). reflexivity.
  - rewrite wm_get_ok by lia. unfold get_v. destruct (nth_opt_lt_Some V i Hlt) as [x Hx]. rewrite Hx. cbn [bind].
    rewrite IH by lia. cbn [bind]. f_equal. rewrite nth_opt_nth_error in Hx. rewrite (skipn_nth _ _ _ Hx).
    replace (N.to_nat (i + 1)) with (S (N.to_nat i)) by lia. reflexivity.
Qed.

Theorem wm_into_iter_ok : wm_into_iter m wm = Ok V.
Proof. unfold wm_into_iter. rewrite iter_collect_ok; [reflexivity|change (wm_len wm) with (lenN V); lia|lia]. Qed.

Theorem wm_len_width_ok : wm_len wm = lenS V /\ wm_width wm = width_v V /\ wm_width wm = bit_len (list_max V).
Proof.
  split; [reflexivity|]. pose proof (core_len_width sp m V levels HV Hn Hlv) as [_ H]. unfold wm_width. change (wm_data wm) with core.
  split; [exact H|]. rewrite <- (width_v_bit_len V HV). exact H.
Qed.

End WMat.

(* ---------------------------------------------------------------- construction *)

Lemma core_levels_shape fuel width level src ls :
  core_levels fuel width level src = Ok ls ->
  Forall2 (fun c r => bv_from_bits c = Ok r) (level_columns fuel width level src) ls.
Proof.
  revert level src ls. induction fuel as [|k IH]; intros level src ls H; cbn [core_levels level_columns] in *.
  - injection H as <-. constructor.
  - destruct (bv_from_bits (map (fun v => has_bit v (bit_value width level)) src)) as [bv| |] eqn:Eb; cbn [bind] in H; try discriminate.
    match type of H with context [core_levels k width (level + 1) ?s] => destruct (core_levels k width (level + 1) s) as [rest| |] eqn:Er end;
      cbn [bind] in H; try discriminate.
    injection H as <-. constructor; [exact Eb|]. apply IH. exact Er.
Qed.

Lemma init_support_shape sp m ls ls' :
  init_support sp m ls = Ok ls' -> Forall2 (fun r b => bv_enable_all sp m r = Ok b) ls ls'.
Proof.
  revert ls'. induction ls as [|b t IH]; intros ls' H; cbn [init_support] in H.
  - injection H as <-. constructor.
  - destruct (bv_enable_all sp m b) as [b'| |] eqn:Eb; cbn [bind] in H; try discriminate.
    destruct (init_support sp m t) as [t'| |] eqn:Et; cbn [bind] in H; try discriminate.
    injection H as <-. constructor; [exact Eb|]. apply IH. reflexivity.
Qed.

(* what From<Vec<T>> returns: length, levels built from the ideal columns, offsets stored and packed *)
Theorem wm_from_shape sp m V wm :
  wm_from sp m V = Ok wm ->
  exists raws levels F iv,
    Forall2 (fun c r => bv_from_bits c = Ok r) (wm_columns V) raws /\
    Forall2 (fun r b => bv_enable_all sp m r = Ok b) raws levels /\
    first_offsets m V (lenN V) (list_max V) = Ok F /\ iv_from 64 F = Ok iv /\ iv_pack iv = Ok (wm_first wm) /\
    wm = mkwm (lenN V) (mkcore levels) (wm_first wm).
Proof.
  unfold wm_from, start_offsets, wm_core_from. intros H.
  destruct (first_offsets m V (lenN V) (list_max V)) as [F| |] eqn:EF; cbn [bind] in H; try discriminate.
  destruct (iv_from 64 F) as [iv| |] eqn:Eiv; cbn [bind] in H; try discriminate.
  destruct (iv_pack iv) as [first| |] eqn:Ep; cbn [bind] in H; try discriminate.
  destruct (core_levels (N.to_nat (bit_len (list_max V))) (bit_len (list_max V)) 0 V) as [raws| |] eqn:Ec; cbn [bind] in H; try discriminate.
  destruct (init_support sp m raws) as [levels| |] eqn:Ei; cbn [bind] in H; try discriminate.
  injection H as <-. cbn [wm_first]. exists raws, levels, F, iv.
  split; [apply core_levels_shape; exact Ec|]. split; [apply init_support_shape; exact Ei|]. repeat split; assumption.
Qed.

Lemma Forall2_compose {A B C} (R1 : A -> B -> Prop) (R2 : B -> C -> Prop) (R : C -> A -> Prop) la lb lc :
  Forall2 R1 la lb -> Forall2 R2 lb lc -> (forall a b c, In a la -> R1 a b -> R2 b c -> R c a) -> Forall2 R lc la.
Proof.
  intros H1. revert lc. induction H1 as [|a b la lb Hab H1 IH]; intros lc H2 Hc.
  - inversion H2. constructor.
  - inversion H2 as [|? c ? lc' Hbc H2']; subst. constructor.
    + eapply Hc; [left; reflexivity|exact Hab|exact Hbc].
    + apply IH; [exact H2'|]. intros a' b' c' Ha'. apply Hc. right. exact Ha'.
Qed.

Lemma wm_columns_lens V : Forall (fun x => x < 2 ^ 64) V -> Forall (fun B => lenB B = lenN V) (wm_columns V).
Proof.
  intros HV. unfold wm_columns. rewrite level_columns_colsk.
  - apply (colsk_lens (fun x => x)).
  - assert (Hm : list_max V < 2 ^ 64) by (apply list_max_lt; [lia|exact HV]). pose proof (bit_len_range _ Hm). lia.
Qed.

Lemma offsets_bounded m V F :
  Forall (fun x => x < 2 ^ 64) V -> lenN V < 2 ^ 64 -> list_max V + 1 < 2 ^ 64 ->
  first_offsets m V (lenN V) (list_max V) = Ok F ->
  lenN F = list_max V + 1 /\ Forall (fun x => x <= lenN V) F.
Proof.
  intros HV Hn Hmax HF. destruct (first_offsets_ok m V HV Hmax) as (F' & H1 & H2 & H3). rewrite HF in H1. injection H1 as <-.
  split; [exact H2|]. rewrite Forall_forall. intros x Hx. apply In_nth_error in Hx. destruct Hx as [k Hk].
  assert (Hlt : (k < length F)%nat) by (apply nth_error_Some; congruence).
  specialize (H3 (N.of_nat k)). rewrite nthN_nth_error, Nat2N.id, Hk in H3. unfold lenN in H2.
  specialize (H3 ltac:(lia)). injection H3 as ->. destruct (contains_v V (N.of_nat k)) eqn:E; [|lia].
  apply contains_v_in, less_v_lt in E. unfold lenS, lenN in *. lia.
Qed.

(* ---------------------------------------------------------------- summary statements *)

Theorem core_mapping sp m V levels :
  Forall (fun x => x < 2 ^ 64) V -> lenN V < 2 ^ 64 ->
  Forall2 (bv_queries_ok sp m) levels (wm_columns V) ->
  let core := mkcore levels in
  wc_len core = Ok (lenS V) /\ wc_width core = width_v V /\
  (forall i, i < 2 ^ 64 -> wc_map_down m core i = Ok (map_down_v V i)) /\
  (forall i v, i < 2 ^ 64 -> wc_map_down_with m core i v = Ok (map_down_with_v V i (v mod 2 ^ width_v V))) /\
  (forall i1 i2 v, i1 < 2 ^ 64 -> i2 < 2 ^ 64 ->
     wc_map_down_with_two m core i1 i2 v =
     Ok (map_down_with_v V i1 (v mod 2 ^ width_v V), map_down_with_v V i2 (v mod 2 ^ width_v V))) /\
  (forall j v, j < 2 ^ 64 -> wc_map_up_with sp m core j v = Ok (map_up_v V j (v mod 2 ^ width_v V))) /\
  (forall i x, nth_opt V i = Some x ->
     exists j, j < lenS V /\ wc_map_down m core i = Ok (Some (j, x)) /\
               wc_map_down_with m core i x = Ok j /\ wc_map_up_with sp m core j x = Ok (Some i)).
Proof.
  intros HV Hn Hlv core. pose proof (core_len_width sp m V levels HV Hn Hlv) as [H1 H2].
  split; [exact H1|]. split; [exact H2|].
  split; [intros i Hi; apply (core_map_down sp m V levels HV Hn Hlv i Hi)|].
  split; [intros i v Hi; apply (core_map_down_with sp m V levels HV Hn Hlv i v Hi)|].
  split; [intros i1 i2 v Hi1 Hi2; apply (core_map_down_two sp m V levels HV Hn Hlv i1 i2 v Hi1 Hi2)|].
  split; [intros j v Hj; apply (core_map_up_with sp m V levels HV Hn Hlv j v Hj)|].
  intros i x Hx. destruct (core_round_trip sp m V levels HV Hn Hlv i x Hx) as (j & Ha & Hb & Hc & Hd).
  exists j. tauto.
Qed.

Theorem reordered_is_stable_sort V :
  Permutation (reordered V) (index_from V 0) /\
  StronglySorted (fun a b => revkey (snd a) < revkey (snd b) \/ (revkey (snd a) = revkey (snd b) /\ fst a < fst b))
                 (reordered V).
Proof. split; [apply reordered_perm|apply reordered_sorted]. Qed.

Theorem wm_exact sp m V levels first F :
  Forall (fun x => x < 2 ^ 64) V -> lenN V < 2 ^ 64 -> list_max V + 1 < 2 ^ 64 ->
  Forall2 (bv_queries_ok sp m) levels (wm_columns V) ->
  first_offsets m V (lenN V) (list_max V) = Ok F -> first_ok first F ->
  let wm := mkwm (lenN V) (mkcore levels) first in
  wm_len wm = lenS V /\ wm_width wm = width_v V /\ wm_width wm = bit_len (list_max V) /\
  (forall i, i < 2 ^ 64 -> wm_get m wm i = match get_v V i with Some x => Ok x | None => Panic PUnwrap end) /\
  (forall i v, i < 2 ^ 64 -> wm_rank m wm i v = Ok (rank_v V i v)) /\
  (forall r v, r < 2 ^ 64 -> wm_select sp m wm r v = Ok (select_v V r v)) /\
  (forall i, i < 2 ^ 64 -> wm_inverse_select m wm i = Ok (inverse_select_v V i)) /\
  (forall v, wm_contains wm v = Ok (contains_v V v)) /\
  (forall v, vi_items sp m wm (wm_value_iter v) = Ok (value_iter_v V v) /\ wm_value_of (wm_value_iter v) = v) /\
  (forall r v, r < 2 ^ 64 -> vi_items sp m wm (wm_select_iter r v) = Ok (select_iter_v V r v)) /\
  (forall i v, i < 2 ^ 64 -> (let* it := wm_predecessor m wm i v in vi_items sp m wm it) = Ok (pred_v V i v)) /\
  (forall i v, i < 2 ^ 64 -> (let* it := wm_successor m wm i v in vi_items sp m wm it) = Ok (succ_v V i v)) /\
  wm_into_iter m wm = Ok V.
Proof.
  intros HV Hn Hmax Hlv HF Hfirst wm. subst wm.
  pose proof (wm_len_width_ok sp m V levels first HV Hn Hlv) as (H1 & H2 & H3).
  split; [exact H1|]. split; [exact H2|]. split; [exact H3|].
  split; [intros i Hi; eapply wm_get_ok; eassumption|].
  split; [intros i v Hi; eapply wm_rank_ok; eassumption|].
  split; [intros r v Hr; eapply wm_select_ok; eassumption|].
  split; [intros i Hi; eapply wm_inverse_select_ok; eassumption|].
  split; [intros v; eapply contains_ok; eassumption|].
  split; [intros v; split; [eapply wm_value_iter_ok; eassumption|reflexivity]|].
  split; [intros r v Hr; eapply wm_iter_items_ok; eassumption|].
  split; [intros i v Hi; eapply wm_predecessor_ok; eassumption|].
  split; [intros i v Hi; eapply wm_successor_ok; eassumption|].
  eapply wm_into_iter_ok; eassumption.
Qed.

(* values that do not occur (inside the alphabet or not) have no occurrences *)
Theorem absent_values V v :
  ~ In v V ->
  contains_v V v = false /\ (forall i, rank_v V i v = 0) /\ (forall r, select_v V r v = None) /\
  value_iter_v V v = [] /\ (forall r, select_iter_v V r v = []) /\ (forall i, pred_v V i v = []) /\ (forall i, succ_v V i v = []).
Proof.
  intros Hv. assert (Hc : contains_v V v = false).
  { destruct (contains_v V v) eqn:E; [|reflexivity]. apply contains_v_in in E. contradiction. }
  assert (Hocc : occ V v = []).
  { destruct (occ V v) as [|p t] eqn:E; [reflexivity|]. exfalso.
    assert (Hs : select_v V 0 v = Some p) by (unfold select_v; rewrite E; reflexivity).
    rewrite select_v_absent in Hs by exact Hc. discriminate. }
  split; [exact Hc|]. split; [intros i; apply rank_v_absent; exact Hc|]. split; [intros r; apply select_v_absent; exact Hc|].
  unfold value_iter_v, select_iter_v, pred_v, succ_v, value_iter_v. rewrite Hocc. cbn [index_from skipN pred_suffix_aux drop_below].
  repeat split; reflexivity.
Qed.

(* From<Vec<T>> establishes the hypotheses of wm_exact, given the interfaces of the embedded structures *)
Theorem wm_from_establishes sp m V wm :
  Forall (fun x => x < 2 ^ 64) V -> lenN V < 2 ^ 64 -> list_max V + 1 < 2 ^ 64 ->
  (forall col r b, lenB col = lenN V -> bv_from_bits col = Ok r -> bv_enable_all sp m r = Ok b -> bv_queries_ok sp m b col) ->
  (forall F iv first, Forall (fun x => x <= lenN V) F -> lenN F = list_max V + 1 ->
     iv_from 64 F = Ok iv -> iv_pack iv = Ok first -> first_ok first F) ->
  wm_from sp m V = Ok wm ->
  exists levels first F,
    wm = mkwm (lenN V) (mkcore levels) first /\
    Forall2 (bv_queries_ok sp m) levels (wm_columns V) /\
    first_offsets m V (lenN V) (list_max V) = Ok F /\ first_ok first F.
Proof.
  intros HV Hn Hmax HBV HIV H. apply wm_from_shape in H. destruct H as (raws & levels & F & iv & H1 & H2 & H3 & H4 & H5 & H6).
  exists levels, (wm_first wm), F. split; [exact H6|]. split; [|split; [exact H3|]].
  - eapply Forall2_compose; [exact H1|exact H2|]. intros col r b Hin Hr Hb. apply (HBV col r b); [|exact Hr|exact Hb].
    pose proof (wm_columns_lens V HV) as HL. rewrite Forall_forall in HL. exact (HL col Hin).
  - destruct (offsets_bounded m V F HV Hn Hmax H3) as [HF1 HF2]. apply (HIV F iv (wm_first wm)); assumption.
Qed.

(* ---------------------------------------------------------------- construction never fails *)

Lemma core_levels_total fuel width level src :
  (forall c, In c (level_columns fuel width level src) -> exists r, bv_from_bits c = Ok r) ->
  exists ls, core_levels fuel width level src = Ok ls.
Proof.
  revert level src. induction fuel as [|k IH]; intros level src H; cbn [core_levels level_columns] in *; [eauto|].
  destruct (H _ (or_introl eq_refl)) as [r Hr]. rewrite Hr. cbn [bind].
  destruct (IH (level + 1) _ (fun c Hc => H c (or_intror Hc))) as [rest Hrest]. rewrite Hrest. cbn [bind]. eauto.
Qed.

Lemma init_support_total sp m ls :
  (forall r, In r ls -> exists b, bv_enable_all sp m r = Ok b) -> exists ls', init_support sp m ls = Ok ls'.
Proof.
  induction ls as [|r t IH]; intros H; cbn [init_support]; [eauto|].
  destruct (H r (or_introl eq_refl)) as [b Hb]. rewrite Hb. cbn [bind].
  destruct (IH (fun r' Hr' => H r' (or_intror Hr'))) as [t' Ht']. rewrite Ht'. cbn [bind]. eauto.
Qed.

Lemma Forall2_in_r {A B} (R : A -> B -> Prop) la lb b : Forall2 R la lb -> In b lb -> exists a, In a la /\ R a b.
Proof.
  intros H. induction H as [|x y la lb Hxy H IH]; intros Hb; [destruct Hb|].
  destruct Hb as [<-|Hb]; [exists x; split; [left; reflexivity|exact Hxy]|].
  destruct (IH Hb) as (a & Ha & HR). exists a. split; [right; exact Ha|exact HR].
Qed.

(* From<Vec<T>> returns, and what it returns meets the hypotheses of wm_exact, given that the embedded
   structures can be built and meet their interfaces *)
Theorem wm_from_total sp m V :
  Forall (fun x => x < 2 ^ 64) V -> lenN V < 2 ^ 64 -> list_max V + 1 < 2 ^ 64 ->
  (forall col, lenB col = lenN V ->
     exists r b, bv_from_bits col = Ok r /\ bv_enable_all sp m r = Ok b /\ bv_queries_ok sp m b col) ->
  (forall F, Forall (fun x => x <= lenN V) F -> lenN F = list_max V + 1 ->
     exists iv first, iv_from 64 F = Ok iv /\ iv_pack iv = Ok first /\ first_ok first F) ->
  exists levels first F,
    wm_from sp m V = Ok (mkwm (lenN V) (mkcore levels) first) /\
    Forall2 (bv_queries_ok sp m) levels (wm_columns V) /\
    first_offsets m V (lenN V) (list_max V) = Ok F /\ first_ok first F.
Proof.
  intros HV Hn Hmax HBVe HIVe.
  assert (HBV : forall col r b, lenB col = lenN V -> bv_from_bits col = Ok r -> bv_enable_all sp m r = Ok b -> bv_queries_ok sp m b col).
  { intros col r b Hl Hr Hb. destruct (HBVe col Hl) as (r' & b' & H1 & H2 & H3). congruence. }
  assert (HIV : forall F iv first, Forall (fun x => x <= lenN V) F -> lenN F = list_max V + 1 ->
                 iv_from 64 F = Ok iv -> iv_pack iv = Ok first -> first_ok first F).
  { intros F iv first H1 H2 H3 H4. destruct (HIVe F H1 H2) as (iv' & first' & E1 & E2 & E3). congruence. }
  assert (Hex : exists wm, wm_from sp m V = Ok wm).
  { destruct (first_offsets_ok m V HV Hmax) as (F & HF & HF2 & _).
    destruct (offsets_bounded m V F HV Hn Hmax HF) as [HFl HFb].
    destruct (HIVe F HFb HFl) as (iv & first & E1 & E2 & _).
    pose proof (wm_columns_lens V HV) as HL. rewrite Forall_forall in HL.
    destruct (core_levels_total (N.to_nat (bit_len (list_max V))) (bit_len (list_max V)) 0 V) as [raws Hraws].
    { intros c Hc. destruct (HBVe c) as (r & _ & Hr & _); [fold (wm_columns V) in Hc; exact (HL c Hc)|]. eauto. }
    destruct (init_support_total sp m raws) as [levels Hlevels].
    { intros r Hr. apply core_levels_shape in Hraws. destruct (Forall2_in_r _ _ _ _ Hraws Hr) as (c & Hc & Hcr).
      destruct (HBVe c) as (r' & b & H1 & H2 & _); [fold (wm_columns V) in Hc; exact (HL c Hc)|].
      exists b. congruence. }
    unfold wm_from, start_offsets, wm_core_from. rewrite HF. cbn [bind]. rewrite E1. cbn [bind]. rewrite E2. cbn [bind].
    rewrite Hraws. cbn [bind]. rewrite Hlevels. cbn [bind]. eauto. }
  destruct Hex as [wm Hwm]. destruct (wm_from_establishes sp m V wm HV Hn Hmax HBV HIV Hwm) as (levels & first & F & -> & H2 & H3 & H4).
  exists levels, first, F. tauto.
Qed.
