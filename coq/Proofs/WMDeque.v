(* C10 for the wavelet matrix: ValueIter (from value_iter / select_iter / predecessor / successor), IntoIter and
   AccessIter refine the deque specification over their reference sequences (Spec/IterRefs.v vector_ref) for
   every finite sequence of admissible calls: every call returns Ok, next pops the head, the inherited nth(k)
   skips k items and pops (or empties the iterator), an exhausted iterator stays exhausted, the owning iterator
   and the access iterator report the exact number of items left.
   Built on the query theorems of Proofs/WMProof.v (C04) through Proofs/WMClosed.v, the generic forward-iterator
   refinement of Proofs/RLDeque.v (fwd_step_refines_nolen), and the cursor / IntoIter refinements of
   Proofs/IterProof.v. *)
From Coq Require Import NArith List Lia ZArith Bool.
Require Import SDS.Model.Mach SDS.Model.Bits SDS.Model.Raw SDS.Model.IntVec SDS.Model.BitVec SDS.Model.Iters
               SDS.Model.WM SDS.Model.WMIters.
Require Import SDS.Spec.BitSeq SDS.Spec.Deque SDS.Spec.IterRefs SDS.Spec.Seq.   (* Seq last: [occ] is Spec/Seq.v's *)
Require Import SDS.Proofs.BitsProof SDS.Proofs.BVCommon SDS.Proofs.IterProof SDS.Proofs.WMSeq SDS.Proofs.WMSpec
               SDS.Proofs.WMOffsets SDS.Proofs.WMProof SDS.Proofs.WMClosed SDS.Proofs.WMTotal.
Require SDS.Model.RLIters SDS.Proofs.RLDeque.
Import ListNotations.
Open Scope N_scope.
Require Import ZifyBool ZifyN ZifyNat.
Ltac Zify.zify_post_hook ::= Z.div_mod_to_equations.
Arguments N.add : simpl never. Arguments N.sub : simpl never. Arguments N.mul : simpl never.
Arguments N.eqb : simpl never. Arguments N.ltb : simpl never. Arguments N.leb : simpl never.
Arguments N.pow : simpl never. Arguments N.min : simpl never. Arguments N.max : simpl never.

(* ---------------------------------------------------------------- the reference sequences *)

Lemma pos_of_occ_from xs x p : pos_of xs x p = occ_from xs x p.
Proof. revert p. induction xs as [|y t IH]; intros p; cbn [pos_of occ_from]; [reflexivity|]. rewrite IH. reflexivity. Qed.

Lemma ref_occ V x : IterRefs.occ V x = value_iter_v V x.
Proof. unfold IterRefs.occ, value_iter_v, occ. rewrite pos_of_occ_from. reflexivity. Qed.

Lemma value_iter_select V x : value_iter_v V x = select_iter_v V 0 x.
Proof. unfold select_iter_v. rewrite skipN_0. reflexivity. Qed.

(* admissible entry arguments: ranks and indexes are machine words (any value) *)
Definition vi_entry_fits (e : entry) : Prop :=
  match e with
  | EValue _ => True
  | EValueSelect r _ => r < 2 ^ 64
  | EValuePred i _ | EValueSucc i _ => i < 2 ^ 64
  | _ => False
  end.

Lemma select_iter_v_length V r x : N.of_nat (length (select_iter_v V r x)) <= lenS V.
Proof.
  unfold select_iter_v, value_iter_v. rewrite IterProof.skipN_skipn, skipn_length, WMSpec.index_from_length.
  pose proof (count_v_le V x) as H. unfold count_v, lenN in H. lia.
Qed.

Lemma select_some_lt V r x p : select_v V r x = Some p -> r < count_v V x.
Proof.
  intros H. destruct (N.ltb_spec r (count_v V x)) as [Hlt|Hge]; [exact Hlt|].
  rewrite spec_select_beyond in H by exact Hge. discriminate.
Qed.

Theorem wm_ref_facts V x :
  vector_ref V (EValue x) = Some (value_iter_v V x) /\
  (forall r, vector_ref V (EValueSelect r x) = Some (select_iter_v V r x)) /\
  (forall i, vector_ref V (EValuePred i x) = Some (pred_v V i x)) /\
  (forall i, vector_ref V (EValueSucc i x) = Some (succ_v V i x)) /\
  vector_ref V EIter = Some (map enc_item V) /\ vector_ref V EInto = Some (map enc_item V) /\
  (* the k-th item is (k, select(k, x)); there are exactly as many as occurrences *)
  (forall k, nth_opt (value_iter_v V x) k = match select_v V k x with Some p => Some (k, p) | None => None end) /\
  lenA (value_iter_v V x) = count_v V x /\
  (forall r, hd_error (select_iter_v V r x) = match select_v V r x with Some p => Some (r, p) | None => None end) /\
  (forall r, select_iter_v V r x =
             match select_v V r x with Some p => (r, p) :: select_iter_v V (r + 1) x | None => [] end).
Proof.
  cbn [vector_ref]. rewrite ref_occ. split; [reflexivity|]. split; [reflexivity|]. split; [reflexivity|].
  split; [reflexivity|]. split; [reflexivity|]. split; [reflexivity|]. split.
  { intros k. unfold value_iter_v. rewrite WMSpec.index_from_nth, nth_opt_occ. destruct (select_v V k x); cbn [option_map]; [|reflexivity].
    rewrite N.add_0_l. reflexivity. }
  split.
  { unfold value_iter_v, lenA, count_v, lenN. rewrite WMSpec.index_from_length. reflexivity. }
  split; [intros r; apply select_iter_v_hd|intros r; apply select_iter_v_unfold].
Qed.

(* ---------------------------------------------------------------- ValueIter on a matrix meeting the interfaces *)

Section VI.
Variables (sp : selpath) (m : mode) (V : list N) (levels : list bitvec) (first : intvec) (F : list N).
Hypothesis HV : Forall (fun x => x < 2 ^ 64) V.
Hypothesis Hn : lenN V < 2 ^ 64.
Hypothesis Hmax : list_max V + 1 < 2 ^ 64.
Hypothesis Hlv : Forall2 (bv_queries_ok sp m) levels (wm_columns V).
Hypothesis HF : first_offsets m V (lenN V) (list_max V) = Ok F.
Hypothesis Hfirst : first_ok first F.

Let wm := mkwm (lenN V) (mkcore levels) first.

(* the state (value x, rank r) stands for the occurrences of x from rank r on *)
Definition vi_rep (x : N) (it : viter) (l : list (N * N)) : Prop :=
  exists r, it = mkvi x r /\ r < 2 ^ 64 /\ l = select_iter_v V r x.

Lemma vi_rep_next x s l : vi_rep x s l ->
  exists s', vi_next sp m wm s = Ok (s', hd_error l) /\ vi_rep x s' (tl l).
Proof.
  intros (r & -> & Hr & ->). unfold wm.
  rewrite (vi_next_ok sp m V levels first F HV Hn Hmax Hlv HF Hfirst r x Hr). rewrite select_iter_v_unfold.
  destruct (select_v V r x) as [p|] eqn:Es; cbn [hd_error tl].
  - eexists. split; [reflexivity|]. exists (r + 1). split; [reflexivity|]. split; [|reflexivity].
    apply select_some_lt in Es. pose proof (count_v_le V x). unfold lenS, lenN in *. lia.
  - eexists. split; [reflexivity|]. exists (if lenN V <=? r then r else lenN V). split; [reflexivity|].
    split; [destruct (lenN V <=? r); lia|]. symmetry. apply spec_select_iter_beyond.
    pose proof (count_v_le V x). unfold lenS, lenN in *. destruct (N.leb_spec (N.of_nat (length V)) r); lia.
Qed.

Lemma vi_rep_fuel x s l : vi_rep x s l -> (length l < vi_fuel wm)%nat.
Proof.
  intros (r & _ & _ & ->). unfold vi_fuel. change (wm_len wm) with (lenN V).
  pose proof (select_iter_v_length V r x). unfold lenS, lenN in *. lia.
Qed.

Theorem vi_step_refines x :
  step_refines_rel (wm_vi_step sp m wm) (vi_rep x) (fun c => call_fwd c /\ c <> Len).
Proof.
  unfold wm_vi_step. apply (RLDeque.fwd_step_refines_nolen (vi_next sp m wm) (fun _ => vi_fuel wm) (vi_rep x)).
  - intros s l H. apply vi_rep_next. exact H.
  - intros s l H. apply (vi_rep_fuel x s l H).
Qed.

(* every entry point returns a state that stands for its reference sequence *)
Lemma vi_entry_rep e l : vector_ref V e = Some l -> vi_entry_fits e ->
  exists x start s, wm_vi_entry m wm e = Some start /\ start = Ok s /\ vi_rep x s l.
Proof.
  intros Hl Hfit. destruct e; cbn [vi_entry_fits] in Hfit; try contradiction; cbn [vector_ref] in Hl; injection Hl as <-;
    rewrite ref_occ; cbn [wm_vi_entry].
  - exists x. eexists. eexists. split; [reflexivity|]. split; [reflexivity|]. exists 0. split; [reflexivity|].
    split; [lia|apply value_iter_select].
  - exists x. eexists. eexists. split; [reflexivity|]. split; [reflexivity|]. exists r. split; [reflexivity|].
    split; [exact Hfit|reflexivity].
  - exists x. unfold wm_predecessor, wm.
    rewrite (wm_rank_ok sp m V levels first F HV Hn Hmax Hlv HF Hfirst) by (unfold sat_add1; destruct (i + 1 <? 2 ^ 64) eqn:E; lia).
    cbn [bind]. rewrite (rank_v_sat V Hn Hmax) by exact Hfit. fold wm. change (wm_len wm) with (lenN V).
    eexists. eexists. split; [reflexivity|]. split; [reflexivity|]. unfold wm_select_iter.
    eexists. split; [reflexivity|]. fold (pred_v V i x). rewrite pred_v_select.
    pose proof (rank_v_le_count V (i + 1) x) as H1. pose proof (count_v_le V x) as H2. unfold lenS, lenN in *.
    destruct (N.ltb_spec 0 (rank_v V (i + 1) x)) as [Hpos|Hz].
    + replace (rank_v V (i + 1) x =? 0) with false by lia. split; [lia|reflexivity].
    + replace (rank_v V (i + 1) x =? 0) with true by lia. split; [lia|]. symmetry. apply spec_select_iter_beyond.
      unfold lenN. lia.
  - exists x. unfold wm_successor, wm.
    rewrite (wm_rank_ok sp m V levels first F HV Hn Hmax Hlv HF Hfirst) by exact Hfit. cbn [bind].
    eexists. eexists. split; [reflexivity|]. split; [reflexivity|]. unfold wm_select_iter.
    eexists. split; [reflexivity|]. fold (succ_v V i x). rewrite succ_v_select. split; [|reflexivity].
    pose proof (rank_v_le_count V i x) as H1. pose proof (count_v_le V x) as H2. unfold lenS, lenN in *. lia.
Qed.

Theorem vi_entries_run e l cs : vector_ref V e = Some l -> vi_entry_fits e ->
  Forall (fun c => call_fwd c /\ c <> Len) cs ->
  exists start s s', wm_vi_entry m wm e = Some start /\ start = Ok s /\
    it_run (wm_vi_step sp m wm) s cs = Ok (s', snd (dq_run l cs)).
Proof.
  intros Hl Hfit Hcs. destruct (vi_entry_rep e l Hl Hfit) as (x & start & s & E1 & E2 & Hrep).
  destruct (lifting_rel (wm_vi_step sp m wm) (vi_rep x) _ (vi_step_refines x) cs s l Hrep Hcs) as (s' & E & _).
  exists start, s, s'. auto.
Qed.

(* ---- get agrees with the list: what IntoIter and AccessIter need ---- *)

Lemma wm_get_list i : i < lenA V -> exists x, wm_get m wm i = Ok x /\ nth_error V (N.to_nat i) = Some x.
Proof.
  intros Hi. unfold lenA in Hi. unfold wm.
  rewrite (wm_get_ok sp m V levels first F HV Hn Hmax Hlv HF Hfirst i) by (unfold lenN in Hn; lia).
  unfold get_v. rewrite WMSeq.nth_opt_nth_error. destruct (nth_error V (N.to_nat i)) as [x|] eqn:E; [eauto|].
  apply nth_error_None in E. lia.
Qed.

End VI.

(* ---------------------------------------------------------------- assembled over From<Vec<T>> *)

Theorem wm_iters_deque sp m V :
  Forall (fun x => x < 2 ^ 64) V -> lenN V < 2 ^ 64 -> list_max V + 1 < 2 ^ 64 ->
  exists wm, wm_from sp m V = Ok wm /\ wm_len wm = lenA V /\
  forall sp' m',
    (* ValueIter *)
    (forall e l cs, vector_ref V e = Some l -> vi_entry_fits e -> Forall (fun c => call_fwd c /\ c <> Len) cs ->
       exists start s s', wm_vi_entry m' wm e = Some start /\ start = Ok s /\
         it_run (wm_vi_step sp' m' wm) s cs = Ok (s', snd (dq_run l cs))) /\
    (* IntoIter *)
    (forall cs, Forall call_fwd cs ->
       exists i', it_run (wm_into_step m' wm) 0 cs = Ok (i', snd (dq_run V cs)) /\
                  into_inv V i' /\ into_abs V i' = fst (dq_run V cs)) /\
    (* AccessIter *)
    (forall cs, exists it', it_run (wm_ai_step m' wm) (wm_ai_start wm) cs = Ok (it', snd (dq_run V cs)) /\
                  cur_inv V it' /\ cur_abs V it' = fst (dq_run V cs)) /\
    (* get agrees with the list *)
    (forall i, i < lenA V -> exists x, wm_get m' wm i = Ok x /\ nth_error V (N.to_nat i) = Some x).
Proof.
  intros HV Hn Hmax. destruct (wm_from_closed sp m V HV Hn Hmax) as (levels & first & F & Hw & _ & Hq & HF & Hok & _).
  exists (mkwm (lenN V) (mkcore levels) first). split; [exact Hw|]. split; [reflexivity|]. intros sp' m'.
  pose proof (wm_get_list sp' m' V levels first F HV Hn Hmax (Hq sp' m') (HF m') Hok) as Hget.
  split; [intros e l cs; apply (vi_entries_run sp' m' V levels first F HV Hn Hmax (Hq sp' m') (HF m') Hok)|].
  split; [|split; [|exact Hget]].
  - intros cs Hcs. unfold wm_into_step. change (wm_len (mkwm (lenN V) (mkcore levels) first)) with (lenA V).
    exact (into_run_refines _ V Hget cs Hcs).
  - intros cs. unfold wm_ai_step, wm_ai_start. change (wm_len (mkwm (lenN V) (mkcore levels) first)) with (lenA V).
    exact (cur_run_refines _ V Hget cs).
Qed.
