(* C08 for the wavelet matrix and its core: corollaries of the exactness theorems of C04 ([wm_exact],
   [core_mapping], [wm_from_total]).  Those state `= Ok (reference answer)` for every argument; here only "returns"
   is kept.  The interface hypotheses of the embedded structures are discharged: every level is
   BitVector::from(bits) + enable_rank/select/select_zero (Proofs/BVFull.v [bv_from_bits_ok], [bv_enable_all_ok]),
   the offset table is IntVector::from(Vec<u64>) + pack (Proofs/IntVecProof.v). *)
From Coq Require Import NArith List Lia ZArith Bool.
Require Import SDS.Model.Mach SDS.Model.Bits SDS.Model.Raw SDS.Model.IntVec SDS.Model.BitVec SDS.Model.WM.
Require Import SDS.Spec.BitSeq SDS.Spec.Seq SDS.Spec.SeqSpec.
Require Import SDS.Proofs.BitsProof SDS.Proofs.BVCommon SDS.Proofs.BVFull SDS.Proofs.IntVecProof.
Require Import SDS.Proofs.WMSeq SDS.Proofs.WMOffsets SDS.Proofs.WMProof.
Import ListNotations.
Open Scope N_scope.
Require Import ZifyBool ZifyN ZifyNat.
Ltac Zify.zify_post_hook ::= Z.div_mod_to_equations.
Arguments N.add : simpl never. Arguments N.sub : simpl never. Arguments N.mul : simpl never.
Arguments N.eqb : simpl never. Arguments N.ltb : simpl never. Arguments N.leb : simpl never.
Arguments N.pow : simpl never. Arguments N.div : simpl never. Arguments N.modulo : simpl never.

(* ---- the two interfaces of wm_from_total hold ---- *)

Lemma level_interface sp m (col : list bool) : lenB col < 2 ^ 64 ->
  exists r b, bv_from_bits col = Ok r /\ bv_enable_all sp m r = Ok b /\ bv_queries_ok sp m b col.
Proof.
  intros Hl. destruct (bv_from_bits_ok col Hl) as (r & E & Hr & N1 & N2 & N3).
  destruct (bv_enable_all_ok sp m r col Hr N1 N2 N3) as (b & Eb & _ & _ & _ & _ & Hq & _).
  exists r, b. split; [exact E|]. split; [exact Eb|exact Hq].
Qed.

Lemma first_interface (F : list N) (bound : N) : bound < 2 ^ 64 -> Forall (fun x => x <= bound) F ->
  exists iv first, iv_from 64 F = Ok iv /\ iv_pack iv = Ok first /\ first_ok first F.
Proof.
  intros Hb HF.
  assert (Hfit : fits 64 F).
  { unfold fits. rewrite Forall_forall in *. intros x Hx. specialize (HF x Hx). lia. }
  destruct (iv_from_ok 64 F ltac:(lia)) as (iv & E & Hinv & Ha).
  rewrite (map_trunc_fits 64 F Hfit) in Ha. injection Ha as _ Ha.
  destruct (iv_pack_ok iv Hinv) as (first & Ep & Hinv' & Ha' & _).
  exists iv, first. split; [exact E|]. split; [exact Ep|].
  destruct (iv_repr first Hinv') as (_ & Hlen & _). rewrite Ha', Ha in Hlen.
  split; [symmetry; exact Hlen|].
  intros v x Hx. rewrite nthN_nth_error in Hx.
  assert (Hv : v < ilen first).
  { rewrite <- Hlen. unfold lenL. pose proof (proj1 (nth_error_Some F (N.to_nat v)) ltac:(congruence)). lia. }
  rewrite (iv_get_ok first v Hinv' Hv), Ha', Ha. unfold nthn. f_equal. apply nth_error_nth. exact Hx.
Qed.

(* ---- every query returns ---- *)

Definition wm_returns (sp : selpath) (m : mode) (wm : wmatrix) : Prop :=
  (forall i, i < 2 ^ 64 -> (exists x, wm_get m wm i = Ok x) \/ wm_get m wm i = Panic PUnwrap) /\
  (forall i v, i < 2 ^ 64 -> exists x, wm_rank m wm i v = Ok x) /\
  (forall r v, r < 2 ^ 64 -> exists x, wm_select sp m wm r v = Ok x) /\
  (forall i, i < 2 ^ 64 -> exists x, wm_inverse_select m wm i = Ok x) /\
  (forall v, exists x, wm_contains wm v = Ok x) /\
  (forall v, exists x, vi_items sp m wm (wm_value_iter v) = Ok x) /\
  (forall r v, r < 2 ^ 64 -> exists x, vi_items sp m wm (wm_select_iter r v) = Ok x) /\
  (forall i v, i < 2 ^ 64 -> exists x, (let* it := wm_predecessor m wm i v in vi_items sp m wm it) = Ok x) /\
  (forall i v, i < 2 ^ 64 -> exists x, (let* it := wm_successor m wm i v in vi_items sp m wm it) = Ok x) /\
  (exists x, wm_into_iter m wm = Ok x).

Definition core_returns (sp : selpath) (m : mode) (core : wmcore) : Prop :=
  (exists x, wc_len core = Ok x) /\
  (forall i, i < 2 ^ 64 -> exists x, wc_map_down m core i = Ok x) /\
  (forall i v, i < 2 ^ 64 -> exists x, wc_map_down_with m core i v = Ok x) /\
  (forall i1 i2 v, i1 < 2 ^ 64 -> i2 < 2 ^ 64 -> exists x, wc_map_down_with_two m core i1 i2 v = Ok x) /\
  (forall j v, j < 2 ^ 64 -> exists x, wc_map_up_with sp m core j v = Ok x).

(* any matrix whose levels and offset table meet their interfaces (e.g. a loaded one) *)
Theorem wm_repr_returns sp m V levels first F :
  Forall (fun x => x < 2 ^ 64) V -> lenN V < 2 ^ 64 -> list_max V + 1 < 2 ^ 64 ->
  Forall2 (bv_queries_ok sp m) levels (wm_columns V) ->
  first_offsets m V (lenN V) (list_max V) = Ok F -> first_ok first F ->
  wm_returns sp m (mkwm (lenN V) (mkcore levels) first) /\ core_returns sp m (mkcore levels).
Proof.
  intros HV Hn Hmax Hlv HF Hfirst. split.
  - destruct (wm_exact sp m V levels first F HV Hn Hmax Hlv HF Hfirst)
      as (_ & _ & _ & Hget & Hrank & Hsel & Hinv & Hcont & Hvi & Hsi & Hp & Hs & Hit).
    unfold wm_returns.
    split. { intros i Hi. rewrite (Hget i Hi). destruct (get_v V i); [left; eauto|right; reflexivity]. }
    split; [intros i v Hi; eexists; apply (Hrank i v Hi)|].
    split; [intros r v Hr; eexists; apply (Hsel r v Hr)|].
    split; [intros i Hi; eexists; apply (Hinv i Hi)|].
    split; [intros v; eexists; apply Hcont|].
    split; [intros v; eexists; apply (proj1 (Hvi v))|].
    split; [intros r v Hr; eexists; apply (Hsi r v Hr)|].
    split; [intros i v Hi; eexists; apply (Hp i v Hi)|].
    split; [intros i v Hi; eexists; apply (Hs i v Hi)|].
    eexists; apply Hit.
  - destruct (core_mapping sp m V levels HV Hn Hlv) as (Hl & _ & Hd & Hdw & Hd2 & Hup & _).
    unfold core_returns.
    split; [eexists; apply Hl|].
    split; [intros i Hi; eexists; apply (Hd i Hi)|].
    split; [intros i v Hi; eexists; apply (Hdw i v Hi)|].
    split; [intros i1 i2 v H1 H2; eexists; apply (Hd2 i1 i2 v H1 H2)|].
    intros j v Hj; eexists; apply (Hup j v Hj).
Qed.

(* From<Vec<T>> returns, and every query on what it returns returns *)
Theorem wm_built_returns sp m V :
  Forall (fun x => x < 2 ^ 64) V -> lenN V < 2 ^ 64 -> list_max V + 1 < 2 ^ 64 ->
  exists wm, wm_from sp m V = Ok wm /\ wm_returns sp m wm /\ core_returns sp m (wm_data wm).
Proof.
  intros HV Hn Hmax.
  destruct (wm_from_total sp m V HV Hn Hmax) as (levels & first & F & E & Hlv & HF & Hfirst).
  - intros col Hl. apply level_interface. rewrite Hl. exact Hn.
  - intros F HF _. exact (first_interface F (lenN V) Hn HF).
  - exists (mkwm (lenN V) (mkcore levels) first). split; [exact E|].
    exact (wm_repr_returns sp m V levels first F HV Hn Hmax Hlv HF Hfirst).
Qed.
