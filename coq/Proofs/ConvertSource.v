(* C11, source side for the concrete run-length vector: the RLVector that copy_bit_vec builds from (|B|, ones B)
   exists (no failure of any kind), has len = |B|, count_ones = count B, and its one_iter() yields exactly the
   ranked positions ones B. Obtained from C03 (Proofs/RLProof.v: rl_exact, rl_iterators, stated for the builder
   route "one try_set per run, then set_len") through C11_canonical_rl (copy_bit_vec = every presentation). *)
From Coq Require Import NArith List Lia ZArith Bool.
Require Import SDS.Model.Mach SDS.Model.IntVec SDS.Model.RL SDS.Model.Builders SDS.Model.Convert.
Require Import SDS.Spec.BitSeq SDS.Spec.BuilderSpec.
Require SDS.Spec.Runs.
Require Import SDS.Proofs.BVCommon SDS.Proofs.BuildersProof SDS.Proofs.ConvertProof SDS.Proofs.ConvertRL.
Require SDS.Proofs.RLProof.
Import ListNotations.
Open Scope N_scope.
Require Import ZifyBool ZifyN ZifyNat.
Ltac Zify.zify_post_hook ::= Z.div_mod_to_equations.
Arguments N.add : simpl never. Arguments N.sub : simpl never. Arguments N.mul : simpl never.
Arguments N.eqb : simpl never. Arguments N.ltb : simpl never. Arguments N.leb : simpl never.
Arguments N.pow : simpl never.

(* ---- separated run lists in the vocabulary of Spec/Runs.v ---- *)

Lemma maximal_from_separated t : forall cur, chain gap (cur :: t) -> Runs.maximal_from cur t = cur :: t.
Proof.
  induction t as [|[s l] t IH]; intros cur Hc; [reflexivity|].
  apply chain_cons_inv in Hc. destruct Hc as [Hc Hg]. unfold gap in Hg. cbn [fst snd] in Hg.
  cbn [Runs.maximal_from]. replace (fst cur + snd cur =? s) with false by lia. f_equal. apply IH. exact Hc.
Qed.

Lemma maximal_separated R : chain gap R -> Runs.maximal R = R.
Proof. destruct R as [|r t]; [reflexivity|]. intros H. cbn [Runs.maximal]. apply maximal_from_separated. exact H. Qed.

Lemma sorted_of_separated R : forall from, chain gap R -> Forall (fun r => 0 < snd r) R ->
  match R with [] => True | r :: _ => from <= fst r end -> Runs.runs_sorted from R.
Proof.
  induction R as [|[s l] t IH]; intros from Hc Hp Hf; [exact I|].
  apply chain_cons_inv in Hc. destruct Hc as [Hc Hg]. apply Forall_tail in Hp. destruct Hp as [Hl Hp].
  cbn [fst snd] in *. cbn [Runs.runs_sorted]. split; [exact Hf|]. split; [lia|]. apply IH; [exact Hc|exact Hp|].
  destruct t as [|q t']; [exact I|]. unfold gap in Hg. cbn [fst snd] in Hg. lia.
Qed.

Lemma Forall_last {A} (P : A -> Prop) (l : list A) d : Forall P l -> l <> [] -> P (last l d).
Proof.
  induction l as [|a t IH]; intros H Hn; [congruence|]. apply Forall_tail in H. destruct H as [Ha Ht].
  destruct t as [|b t']; [exact Ha|]. change (P (last (b :: t') d)). apply IH; [exact Ht|discriminate].
Qed.

Lemma runs_end_within R hi : Forall (fun r => fst r + snd r <= hi) R -> Runs.runs_end R <= hi.
Proof.
  intros H. destruct R as [|r t]; [cbn; lia|]. unfold Runs.runs_end, Runs.run_end.
  apply (Forall_last (fun r => fst r + snd r <= hi)); [exact H|discriminate].
Qed.

Lemma runs_ones_sum R : Runs.runs_ones R = run_sum R.
Proof. induction R as [|r t IH]; [reflexivity|]. cbn [Runs.runs_ones run_sum]. rewrite IH. reflexivity. Qed.

(* ---- select on the maximal runs of B = select on B ---- *)

Lemma runs_select_bits B : forall pos r,
  Runs.runs_select (runs_of_bits_from B pos) r = nth_opt (ones_from B pos) r.
Proof.
  induction B as [|b t IH]; intros pos r; [reflexivity|].
  cbn [runs_of_bits_from ones_from]. destruct b; [|apply IH].
  cbn [nth_opt]. pose proof (IH (pos + 1)) as IH'.
  destruct (runs_of_bits_from t (pos + 1)) as [|[s l] rest].
  - cbn [Runs.runs_select]. destruct (N.eqb_spec r 0) as [E|E].
    + subst r. replace (0 <? 1) with true by lia. f_equal. lia.
    + replace (r <? 1) with false by lia. rewrite <- IH'. reflexivity.
  - destruct (N.eqb_spec s (pos + 1)) as [Es|Es].
    + subst s. cbn [Runs.runs_select]. destruct (N.eqb_spec r 0) as [E|E].
      * subst r. replace (0 <? l + 1) with true by lia. f_equal. lia.
      * rewrite <- IH'. cbn [Runs.runs_select]. replace (r - 1 <? l) with (r <? l + 1) by lia.
        destruct (r <? l + 1); [f_equal; lia|]. f_equal. lia.
    + cbn [Runs.runs_select]. destruct (N.eqb_spec r 0) as [E|E].
      * subst r. replace (0 <? 1) with true by lia. f_equal. lia.
      * replace (r <? 1) with false by lia. rewrite <- IH'. reflexivity.
Qed.

Lemma ones_from_rank_list R l : forall (n : nat) i, (length l < n)%nat ->
  (forall k, Runs.runs_select R (i + k) = nth_opt l k) ->
  Runs.ones_from_rank n R i = index_from l i.
Proof.
  induction l as [|x t IH]; intros n i Hn Hs.
  - destruct n as [|k]; [cbn in Hn; lia|]. cbn [Runs.ones_from_rank index_from].
    specialize (Hs 0). rewrite N.add_0_r in Hs. rewrite Hs. reflexivity.
  - destruct n as [|k]; [cbn in Hn; lia|]. cbn [Runs.ones_from_rank index_from].
    pose proof (Hs 0) as H0. rewrite N.add_0_r in H0. rewrite H0. cbn [nth_opt]. replace (0 =? 0) with true by lia.
    f_equal. apply IH; [cbn [length] in Hn; lia|]. intros k'. specialize (Hs (k' + 1)).
    cbn [nth_opt] in Hs. replace (k' + 1 =? 0) with false in Hs by lia. replace (k' + 1 - 1) with k' in Hs by lia.
    rewrite <- Hs. f_equal. lia.
Qed.

(* ---- the theorem ---- *)

Lemma cop_ops_runs B :
  map cop (ops_runs B) = map (fun r => BTrySet (fst r) (snd r)) (runs_of_bits B) ++ [BSetLen (lenB B)].
Proof. unfold ops_runs. rewrite map_app, map_map. reflexivity. Qed.

(* [lenN (runs_of_bits B) < 2^56]: the bound of C03 on the number of runs (what an address space can hold) *)
Theorem rl_source_content : forall (m : mode) (B : list bool),
  lenB B < 2 ^ 64 -> lenN (runs_of_bits B) < 2 ^ 56 ->
  exists v, rl_copy_bit_vec m (ones B) (lenB B) = Ok v /\
    rl_len v = lenB B /\ rl_ones v = count B /\
    (let* s := rl_one_iter v in oi_take (S (length (ones B))) m v s) = Ok (index_from (ones B) 0).
Proof.
  intros m B Hlen Hruns. assert (HB : lenB B <= MAXW) by (unfold MAXW; lia).
  destruct (runs_of_bits_ok B) as (R1 & R2 & R3).
  assert (Hsorted : Runs.runs_sorted 0 (runs_of_bits B)).
  { apply sorted_of_separated; [exact R1|exact R2|]. destruct (runs_of_bits B); [exact I|lia]. }
  assert (Hend : Runs.runs_end (runs_of_bits B) <= lenB B) by (apply runs_end_within, runs_within).
  assert (HL : lenB B <= 2 ^ 64 - 1) by lia.
  destruct (RLProof.rl_exact m (runs_of_bits B) (lenB B) Hsorted Hend HL Hruns) as (v & Hb & Hl & Ho & _).
  destruct (RLProof.rl_iterators m (runs_of_bits B) (lenB B) (S (length (ones B))) Hsorted Hend HL Hruns)
    as (v' & Hb' & _ & _ & Hoi & _).
  assert (v' = v) by congruence. subst v'.
  (* copy_bit_vec builds the same vector *)
  destruct (pres_runs (runs_of_bits B) (lenB B) HB 0 R1 R2 (runs_within B)) as (P1 & P2 & P3).
  { destruct (runs_of_bits B); lia. }
  destruct (pres_accepted _ rl_spec_init P1) as (A1 & A2 & A3).
  assert (Hcopy : rmap fst (rl_build m (map cop (ops_runs B))) = rl_copy_bit_vec m (ones B) (lenB B)).
  { apply rl_copy_bit_vec_canonical.
    - apply A3. cbn. unfold MAXW. lia.
    - intros p. fold (ops_runs B) in A1. rewrite A1. unfold ops_runs. rewrite P2. apply R3.
    - fold (ops_runs B) in A2. rewrite A2. exact P3. }
  rewrite cop_ops_runs in Hcopy. change (rl_build m (RLProof.rl_ops (runs_of_bits B) (lenB B))) with
    (rl_build m (map (fun r => BTrySet (fst r) (snd r)) (runs_of_bits B) ++ [BSetLen (lenB B)])) in Hb.
  rewrite Hb in Hcopy. cbn [rmap bind fst] in Hcopy.
  exists v. split; [symmetry; exact Hcopy|]. split; [exact Hl|].
  rewrite (maximal_separated _ R1) in Ho, Hoi.
  split.
  - rewrite Ho, runs_ones_sum.
    destruct (rl_copy_abs_repr m B HB) as (rs & E & _ & _ & _ & Hs). rewrite (rl_copy_abs_runs m B HB) in E.
    injection E as <-. exact Hs.
  - rewrite Hoi. f_equal. apply ones_from_rank_list; [lia|].
    intros k. rewrite N.add_0_l. unfold runs_of_bits, ones. apply runs_select_bits.
Qed.
