(* C06 / C14 for the run-length vector: every vector that RLBuilder + RLVector::from construct is well-formed for
   [rl_codec] (Model/Ser.v), i.e. RLVector::load applied to its serialization reads the four fields back, passes the
   sanity check and REBUILDS the three sample indexes to exactly the ones the vector holds - because From computes
   them by the same SampleIndex::new from the same sample values that `samples` stores. Hence (codec_ok) round trip
   with exact consumption, exact size, and an error on every strict prefix. *)
From Coq Require Import String NArith List Lia ZArith Bool.
Require Import SDS.Model.Mach SDS.Model.Bits SDS.Model.Raw SDS.Model.IntVec SDS.Model.Ser.
Require Import SDS.gen.Consts SDS.gen.Funs SDS.Spec.Stream.
Require Import SDS.Proofs.BitsProof SDS.Proofs.RawProof SDS.Proofs.IntVecProof SDS.Proofs.SerProof SDS.Proofs.SerTypes
               SDS.Proofs.SerMain.
Require Import SDS.Model.RL SDS.Spec.Runs.
Require Import SDS.Proofs.RLIntVec SDS.Proofs.RLVarint SDS.Proofs.RLIndex SDS.Proofs.RLRep SDS.Proofs.RunsLemmas
               SDS.Proofs.RLBuild SDS.Proofs.RLIter SDS.Proofs.RLQuery SDS.Proofs.RLProof.
Import ListNotations.
Open Scope list_scope.
Open Scope N_scope.
Require Import ZifyBool ZifyN ZifyNat.
Ltac Zify.zify_post_hook ::= Z.div_mod_to_equations.
Arguments N.add : simpl never. Arguments N.sub : simpl never. Arguments N.mul : simpl never.
Arguments N.div : simpl never. Arguments N.modulo : simpl never. Arguments N.pow : simpl never.
Arguments N.leb : simpl never. Arguments N.ltb : simpl never. Arguments N.eqb : simpl never.
Arguments N.min : simpl never.

(* ================================================================ 1. the indexes a built vector holds *)

(* the three sample indexes are SampleIndex::new of the three columns of the samples *)
Definition rl_idx (m : mode) (v : rlvec) (BS : list (list run)) (L : N) : Prop :=
  si_new m (map ab_tail (annot 0 0 BS)) L = Ok (rl_rank_index v) /\
  si_new m (map ab_ones (annot 0 0 BS)) (rones (concat BS)) = Ok (rl_select_index v) /\
  si_new m (map (fun x => ab_tail x - ab_ones x) (annot 0 0 BS)) (L - rones (concat BS)) = Ok (rl_select_zero_index v).

Ltac inv_bind H :=
  match type of H with
  | bind ?e _ = Ok _ => let E := fresh "E" in destruct e eqn:E; cbn [bind] in H; [|discriminate H|discriminate H]
  end.

(* what From computes on a flushed builder, read off the definition *)
Lemma rl_from_inv m b v : snd (b_run b) = 0 -> rl_from m b = Ok v ->
  si_new m (map snd (b_samples b)) (b_len b) = Ok (rl_rank_index v) /\
  si_new m (map fst (b_samples b)) (b_ones b) = Ok (rl_select_index v) /\
  si_new m (map (fun s => snd s - fst s) (b_samples b)) (b_len b - b_ones b) = Ok (rl_select_zero_index v).
Proof.
  intros H0 H. unfold rl_from in H. rewrite (flush_noop m b H0) in H. cbn [bind] in H.
  inv_bind H. inv_bind H. unfold rlb_count_zeros in H. inv_bind H. inv_bind H. inv_bind H.
  inversion H; subst. cbn [rl_rank_index rl_select_index rl_select_zero_index]. auto.
Qed.

Lemma rl_from_flushed_idx m b BS L :
  SInv b BS -> snd (b_run b) = 0 -> b_ones b = rones (concat BS) -> b_len b = L ->
  b_tail b <= L -> L < 2 ^ 64 -> lenN (concat BS) < 2 ^ 56 ->
  exists v, rl_from m b = Ok v /\ rl_ok v BS L /\ rl_idx m v BS L.
Proof.
  intros HS Hr0 Hones HlenL HtL HL Hcnt.
  destruct (rl_from_flushed m b BS L HS Hr0 Hones HlenL HtL HL Hcnt) as (v & Hv & Hok).
  exists v. split; [exact Hv|]. split; [exact Hok|].
  destruct (rl_from_inv m b v Hr0 Hv) as (H1 & H2 & H3).
  destruct HS as (_ & _ & _ & _ & Hsam & _).
  rewrite Hsam in H1, H2, H3. unfold pair_samples in H1, H2, H3. rewrite !map_map in H1, H2, H3.
  cbn [fst snd] in H1, H2, H3. rewrite HlenL in H1, H3. rewrite Hones in H2, H3.
  split; [exact H1|]. split; [exact H2|exact H3].
Qed.

Lemma rl_from_spec_idx m b BS L :
  SInv b BS -> PInv b BS -> b_len b = L ->
  lenN (concat BS ++ (if snd (b_run b) =? 0 then [] else [b_run b])) < 2 ^ 56 ->
  exists v BS', rl_from m b = Ok v /\ rl_ok v BS' L /\ rl_idx m v BS' L /\
    concat BS' = concat BS ++ (if snd (b_run b) =? 0 then [] else [b_run b]).
Proof.
  intros HS HP HL Hcnt. pose proof HP as (Hones & Hrun & Hlen & Htr & Hgap).
  destruct (N.eqb_spec (snd (b_run b)) 0) as [Hz|Hnz].
  - rewrite app_nil_r in Hcnt. destruct (rl_from_flushed_idx m b BS L HS Hz) as (v & Hv & Hok & Hidx); try lia.
    exists v, BS. rewrite app_nil_r. auto.
  - destruct (flush_spec m b BS HS HP Hnz) as (b1 & BS1 & Hf & HS1 & Hc & Hl1 & Ho1 & Hr1).
    rewrite (rl_from_after_flush m b b1 Hf) by (rewrite Hr1; reflexivity).
    pose proof HS1 as (_ & _ & _ & Htail1 & _).
    destruct (rl_from_flushed_idx m b1 BS1 L HS1) as (v & Hv & Hok & Hidx); try lia.
    + rewrite Hr1. reflexivity.
    + rewrite Ho1, Hones, Hc, rones_app. cbn [rones]. lia.
    + rewrite Htail1, Hc, runs_end_from_app. cbn [runs_end_from]. lia.
    + rewrite Hc. exact Hcnt.
    + exists v, BS1. auto.
Qed.

Theorem rl_build_idx m R L :
  runs_srt 0 R -> runs_end_from 0 R <= L -> L < 2 ^ 64 -> lenN R < 2 ^ 56 ->
  exists v BS, rl_build m (build_ops R L) = Ok (v, all_true R ++ [true]) /\ rl_ok v BS L /\ rl_idx m v BS L /\
               concat BS = maximal R.
Proof.
  intros Hsrt Hend HL Hcnt. unfold rl_build, rlb_new, build_ops.
  destruct (iv_rep_new 4 ltac:(lia)) as (Hnew & _). change rl_CODE_SIZE with 4. rewrite Hnew.
  cbn [unwrap_opt bind]. rewrite rlb_run_app.
  set (b0 := mkrlb 0 0 0 (0, 0) [] (mkiv 0 4 raw_new)).
  assert (Hmid : exists b1 BS1, rlb_run m b0 (try_ops R) = Ok (b1, all_true R) /\ SInv b1 BS1 /\ PInv b1 BS1 /\
            b_len b1 = runs_end_from 0 R /\
            concat BS1 ++ (if snd (b_run b1) =? 0 then [] else [b_run b1]) = maximal R).
  { destruct R as [|[s l] rest].
    - exists b0, []. cbn [try_ops map rlb_run all_true]. split; [reflexivity|].
      split; [apply SInv_init|]. split; [apply PInv_init|]. split; reflexivity.
    - cbn [runs_srt fst snd] in Hsrt. destruct Hsrt as (Hs & Hl & Hsrt). cbn [runs_end_from fst snd] in Hend.
      pose proof (runs_srt_end _ _ Hsrt) as Hge.
      destruct (try_set_spec m b0 [] s l SInv_init PInv_init) as (b1 & BS1 & Ht & HS1 & HP1 & Hp1 & Hl1 & Hcase);
        [cbn [b_len b0]; lia|lia|lia|].
      cbn [b_run b0 snd] in Hcase. change (0 =? 0) with true in Hcase. cbn iota in Hcase.
      destruct Hcase as [-> Hr1].
      rewrite <- Hl1 in Hsrt.
      destruct (build_runs m rest b1 [] HS1 HP1 Hp1 Hsrt) as (b2 & BS2 & Hr & HS2 & HP2 & Hp2 & Hc2 & Hl2); [rewrite Hl1; lia|].
      exists b2, BS2. cbn [try_ops map rlb_run fst snd]. rewrite Ht. cbn [bind].
      fold (try_ops rest). rewrite Hr. cbn [bind].
      split; [reflexivity|]. split; [assumption|]. split; [assumption|].
      split; [rewrite Hl2, Hl1; reflexivity|].
      replace (snd (b_run b2) =? 0) with false by lia. rewrite Hc2, Hr1. reflexivity. }
  destruct Hmid as (b1 & BS1 & Hrun1 & HS1 & HP1 & Hl1 & Hc1). rewrite Hrun1. cbn [bind].
  destruct (set_len_spec m b1 BS1 L HS1 HP1 ltac:(lia) HL) as (b2 & BS2 & Hsl & HS2 & HP2 & Hl2 & Hc2).
  cbn [rlb_run]. rewrite Hsl. cbn [bind].
  assert (Hmax : lenN (maximal R) <= lenN R).
  { destruct R as [|r rest]; [cbn [maximal]; lia|]. cbn [maximal]. rewrite lenN_cons. apply maximal_from_len. }
  destruct (rl_from_spec_idx m b2 BS2 L HS2 HP2 Hl2) as (v & BS3 & Hv & Hok & Hidx & Hc3).
  { rewrite Hc2, Hc1. lia. }
  rewrite Hv. cbn [bind]. exists v, BS3. split; [reflexivity|]. split; [assumption|]. split; [assumption|].
  rewrite Hc3, Hc2, Hc1. reflexivity.
Qed.

(* ================================================================ 2. the two IntVectors keep the IntVector invariant *)

(* (exact word count, bits beyond the length clear: Proofs/IntVecProof.v iv_inv) through every builder call *)

Lemma encode_loop_inv : forall fuel d u d', iv_inv d -> rl_encode_loop fuel d u = Ok d' -> iv_inv d'.
Proof.
  induction fuel as [|k IH]; intros d u d' Hi H; cbn [rl_encode_loop] in H; [discriminate|].
  destruct (rl_CODE_MASK <? u).
  - destruct (iv_push_ok d (N.lor (N.land u rl_CODE_MASK) rl_CODE_FLAG) Hi) as (d1 & E & Hi1 & _).
    rewrite E in H. cbn [bind] in H. exact (IH _ _ _ Hi1 H).
  - destruct (iv_push_ok d u Hi) as (d1 & E & Hi1 & _). rewrite E in H. inversion H; subst. exact Hi1.
Qed.

Lemma flush_inv m b b' : iv_inv (b_data b) -> rlb_flush m b = Ok b' -> iv_inv (b_data b').
Proof.
  intros Hi H. unfold rlb_flush in H. destruct (snd (b_run b) <=? 0); [inversion H; subst; exact Hi|].
  inv_bind H. inv_bind H. inv_bind H. inv_bind H. inv_bind H. destruct a3 as [samples data].
  assert (Hd : iv_inv data).
  { destruct (rlb_blocks b * rl_BLOCK_SIZE <? ilen (b_data b) + (a1 + a2)).
    - destruct (iv_resize_ok (b_data b) (rlb_blocks b * rl_BLOCK_SIZE) 0 Hi) as (d & Ed & Hid & _).
      rewrite Ed in E3. cbn [bind] in E3. inv_bind E3. inversion E3; subst. exact Hid.
    - inversion E3; subst. exact Hi. }
  inv_bind H. pose proof (encode_loop_inv _ _ _ _ Hd E4) as Hd1.
  inv_bind H. pose proof (encode_loop_inv _ _ _ _ Hd1 E5) as Hd2.
  inv_bind H. inversion H; subst. cbn [b_data]. exact Hd2.
Qed.

Lemma set_run_inv m b s l b' : iv_inv (b_data b) -> rlb_set_run_unchecked m b s l = Ok b' -> iv_inv (b_data b').
Proof.
  intros Hi H. unfold rlb_set_run_unchecked in H. destruct (l <=? 0); [inversion H; subst; exact Hi|].
  destruct (s =? b_len b).
  - inv_bind H. inv_bind H. inv_bind H. inversion H; subst. exact Hi.
  - inv_bind H. pose proof (flush_inv m b a Hi E) as Hi1. inv_bind H. inv_bind H. inversion H; subst. exact Hi1.
Qed.

Lemma try_set_inv m b s l b' ok : iv_inv (b_data b) -> rlb_try_set m b s l = Ok (b', ok) -> iv_inv (b_data b').
Proof.
  intros Hi H. unfold rlb_try_set in H. destruct (s <? b_len b); [inversion H; subst; exact Hi|].
  inv_bind H. destruct (a <? s); [inversion H; subst; exact Hi|].
  inv_bind H. inversion H; subst. exact (set_run_inv m b s l _ Hi E0).
Qed.

Lemma set_len_inv m b l b' : iv_inv (b_data b) -> rlb_set_len m b l = Ok b' -> iv_inv (b_data b').
Proof.
  intros Hi H. unfold rlb_set_len in H. destruct (b_len b <? l); [|inversion H; subst; exact Hi].
  inv_bind H. inversion H; subst. cbn [b_data]. exact (flush_inv m b a Hi E).
Qed.

Lemma run_inv m : forall ops b b' oks, iv_inv (b_data b) -> rlb_run m b ops = Ok (b', oks) -> iv_inv (b_data b').
Proof.
  induction ops as [|o t IH]; intros b b' oks Hi H; cbn [rlb_run] in H; [inversion H; subst; exact Hi|].
  inv_bind H. destruct a as [b1 ok1]. inv_bind H. destruct a as [b2 oks2]. inversion H; subst.
  apply (IH b1 b' oks2); [|exact E0].
  destruct o as [s l|l|i].
  - exact (try_set_inv m b s l b1 ok1 Hi E).
  - inv_bind E. inversion E; subst. exact (set_len_inv m b l _ Hi E1).
  - inv_bind E. inversion E; subst. exact (set_run_inv m b i 1 _ Hi E1).
Qed.

Lemma push_samples_inv : forall l v v', iv_inv v -> push_samples v l = Ok v' -> iv_inv v'.
Proof.
  induction l as [|[o t] l IH]; intros v v' Hi H; cbn [push_samples] in H; [inversion H; subst; exact Hi|].
  destruct (iv_push_ok v o Hi) as (v1 & E1 & Hi1 & _). rewrite E1 in H. cbn [bind] in H.
  destruct (iv_push_ok v1 t Hi1) as (v2 & E2 & Hi2 & _). rewrite E2 in H. cbn [bind] in H.
  exact (IH v2 v' Hi2 H).
Qed.

Theorem rl_build_inv m ops v oks : rl_build m ops = Ok (v, oks) -> iv_inv (rl_samples v) /\ iv_inv (rl_data v).
Proof.
  intros H. unfold rl_build in H. inv_bind H. inv_bind H. destruct a0 as [b oks']. inv_bind H. inversion H; subst.
  assert (Hi0 : iv_inv (b_data a)).
  { unfold rlb_new in E. change rl_CODE_SIZE with 4 in E. cbn in E. inversion E; subst. cbn [b_data].
    apply (iv_empty_ok 4). lia. }
  pose proof (run_inv m ops a b oks Hi0 E0) as Hib.
  unfold rl_from in E1. inv_bind E1. pose proof (flush_inv m b a0 Hib E2) as Hia.
  inv_bind E1. inv_bind E1. inv_bind E1. inv_bind E1. inv_bind E1. inversion E1; subst.
  cbn [rl_samples rl_data]. split; [|exact Hia].
  apply (push_samples_inv _ _ _) with (2 := E7).
  unfold iv_with_capacity in E6. destruct (width_ok (bit_len (snd (last (b_samples a0) (0, 0))))) eqn:Ew; [|discriminate].
  cbn [unwrap_opt] in E6. inversion E6; subst. apply iv_empty_ok.
  unfold width_ok in Ew. change bits_WORD_BITS with 64 in Ew. lia.
Qed.

(* ================================================================ 3. a built vector is well-formed for rl_codec *)

Lemma iv_inv_ok v : iv_inv v -> ilen v < 2 ^ 64 -> ilen v * iwidth v + 63 < 2 ^ 64 -> iv_ok v.
Proof.
  intros (Hw & Hl & Hlen & Hwf & _) Hn Hb. unfold iv_ok, raw_ok.
  split; [exact Hn|]. split; [lia|]. split; [lia|]. split; [lia|]. split; [exact Hlen|exact Hwf].
Qed.

(* the columns the loader reads back from the packed samples *)
Lemma rl_col_spec {X} (f : N -> res N) (g : X -> N) : forall (l : list X) start,
  (forall k x, nthN l k = Some x -> f (start + k) = Ok (g x)) ->
  rl_col f (length l) start = Ok (map g l).
Proof.
  induction l as [|a t IH]; intros start Hf; [reflexivity|]. cbn [length rl_col map].
  pose proof (Hf 0 a eq_refl) as H0. rewrite N.add_0_r in H0. rewrite H0. cbn [bind].
  rewrite (IH (start + 1)); [reflexivity|].
  intros k x Hk. replace (start + 1 + k) with (start + (k + 1)) by lia. apply Hf.
  cbn [nthN]. replace (k + 1 =? 0) with false by lia. replace (k + 1 - 1) with k by lia. exact Hk.
Qed.

Section Wf.
  Variable m : mode.
  Variable v : rlvec.
  Variable BS : list (list run).
  Variable L : N.
  Hypothesis Hok : rl_ok v BS L.
  Hypothesis Hidx : rl_idx m v BS L.

  Let AB := annot 0 0 BS.

  (* one sample pair per block of `data`: the check of the loader *)
  Lemma data_blocks : (ilen (rl_data v) + 64 - 1) / 64 = lenN BS.
  Proof.
    rewrite (data_ilen v BS L Hok).
    destruct (RLQuery2.list_last_case BS) as [->|(Bpre & bl & E)].
    - unfold data_of. cbn [annot map layout]. reflexivity.
    - rewrite (data_len_last v BS L Hok Bpre bl E).
      assert (E' : BS = Bpre ++ bl :: []) by exact E.
      destruct (units_at v BS L Hok Bpre bl [] E') as (_ & _ & _ & _ & Hle).
      pose proof (enc_runs_len_lower (runs_end_from 0 (concat Bpre)) bl) as Hlo.
      assert (Hne : bl <> []).
      { pose proof (ok_nonempty _ _ _ Hok) as Hall. rewrite E in Hall. apply Forall_app in Hall.
        destruct Hall as [_ Hall]. inversion Hall; subst. assumption. }
      assert (1 <= lenN bl) by (destruct bl; [congruence|rewrite lenN_cons; lia]).
      rewrite E, lenN_app. change (lenN [bl]) with 1. lia.
  Qed.

  Lemma col_tails : rl_col (fun b => iv_get (rl_samples v) (2 * b + 1)) (N.to_nat (lenN BS)) 0 = Ok (map ab_tail AB).
  Proof.
    replace (N.to_nat (lenN BS)) with (length AB) by (unfold AB, lenN; rewrite annot_length; lia).
    apply rl_col_spec. intros k x Hk. rewrite N.add_0_l. exact (proj2 (sample_get v BS L Hok k x Hk)).
  Qed.
  Lemma col_ones : rl_col (fun b => iv_get (rl_samples v) (2 * b)) (N.to_nat (lenN BS)) 0 = Ok (map ab_ones AB).
  Proof.
    replace (N.to_nat (lenN BS)) with (length AB) by (unfold AB, lenN; rewrite annot_length; lia).
    apply rl_col_spec. intros k x Hk. rewrite N.add_0_l. exact (proj1 (sample_get v BS L Hok k x Hk)).
  Qed.
  Lemma col_gaps :
    rl_col (fun b => let* t := iv_get (rl_samples v) (2 * b + 1) in
                     let* o := iv_get (rl_samples v) (2 * b) in usub m t o) (N.to_nat (lenN BS)) 0
    = Ok (map (fun x => ab_tail x - ab_ones x) AB).
  Proof.
    replace (N.to_nat (lenN BS)) with (length AB) by (unfold AB, lenN; rewrite annot_length; lia).
    apply rl_col_spec. intros k x Hk. rewrite N.add_0_l.
    destruct (sample_get v BS L Hok k x Hk) as [H1 H2]. rewrite H2, H1. cbn [bind].
    apply usub_ok. exact (AB_ones_le_tail v BS L Hok k x Hk).
  Qed.

  (* RLVector::load rebuilds the record *)
  Lemma loader_rebuilds : lenN (data_of BS) + 64 < 2 ^ 64 ->
    rl_from_fields m (rl_len v, (rl_ones v, (rl_samples v, rl_data v))) = IoOk v.
  Proof.
    intros Hdl. unfold rl_from_fields. change rl_BLOCK_SIZE with 64.
    destruct (div_round_up_spec m (ilen (rl_data v)) 64) as (E & _); [lia|rewrite (data_ilen v BS L Hok); exact Hdl|].
    rewrite E. cbn [io_of_res iobind]. rewrite data_blocks.
    pose proof (blocks_len v BS L Hok) as Hb. unfold rl_blocks in Hb. rewrite Hb, N.eqb_refl. cbn [negb].
    destruct Hidx as (I1 & I2 & I3). fold AB in I1, I2, I3.
    rewrite col_tails. cbn [io_of_res iobind]. rewrite (len_L v BS L Hok), I1. cbn [io_of_res iobind].
    rewrite col_ones. cbn [io_of_res iobind]. rewrite (ones_F v BS L Hok), I2. cbn [io_of_res iobind].
    rewrite usub_ok by exact (ones_le_L v BS L Hok). cbn [io_of_res iobind].
    rewrite col_gaps. cbn [io_of_res iobind]. rewrite I3. cbn [io_of_res iobind].
    rewrite <- (len_L v BS L Hok), <- (ones_F v BS L Hok). destruct v; reflexivity.
  Qed.
End Wf.

(* ================================================================ 4. assembled over the builder *)

(* [lenN R < 2^55]: the code units of `data` (at most 64 per block, one block per run at most) times their width of
   4 bits must be a bit count below 2^64, as for every RawVector; 2^55 runs are beyond any address space *)
Theorem rl_built_wf m R L :
  runs_sorted 0 R -> runs_end R <= L -> L <= 2 ^ 64 - 1 -> lenN R < 2 ^ 55 ->
  exists v, rl_build m (rl_ops R L) = Ok (v, map (fun _ => true) R ++ [true]) /\ c_wf (rl_codec m) v.
Proof.
  intros Hs He HL Hn. apply runs_srt_sorted in Hs. rewrite runs_end_spec in He.
  assert (H56 : lenN R < 2 ^ 56) by (assert (2 ^ 55 < 2 ^ 56) by reflexivity; lia).
  destruct (rl_build_idx m R L Hs He ltac:(lia) H56) as (v & BS & Hb & Hok & Hidx & HF).
  exists v. split; [exact Hb|].
  destruct (rl_build_inv m _ v _ Hb) as [Hsi Hdi].
  (* sizes *)
  assert (Hnb : lenN BS < 2 ^ 55).
  { pose proof (lenN_blocks_le BS (ok_nonempty _ _ _ Hok)) as H1. rewrite HF in H1.
    assert (lenN (maximal R) <= lenN R).
    { destruct R as [|r rest]; [cbn [maximal]; lia|]. cbn [maximal]. rewrite lenN_cons. apply maximal_from_len. }
    lia. }
  pose proof (layout_len_le _ (units_ok v BS L Hok)) as Hdl. rewrite lenN_map, annot_lenN in Hdl.
  fold (data_of BS) in Hdl.
  assert (P55 : 2 ^ 55 * 128 + 63 < 2 ^ 64) by reflexivity.
  assert (P55' : 64 * 2 ^ 55 * 4 + 63 < 2 ^ 64) by reflexivity.
  destruct (ok_samples _ _ _ Hok) as (w & Hrep). pose proof Hrep as (Hw1 & Hw2 & Hw3 & _).
  rewrite lenN_flat_samples, annot_lenN in Hw3.
  pose proof (ok_data _ _ _ Hok) as (Hd1 & _ & Hd3 & _).
  split.
  - cbn [c_wf seq_codec fst snd usize_codec u64_codec iv_codec with_wf].
    split; [rewrite (len_L v BS L Hok); exact (ok_L _ _ _ Hok)|].
    split; [pose proof (ones_le_L v BS L Hok); rewrite (ones_F v BS L Hok); pose proof (ok_L _ _ _ Hok); lia|].
    split; apply iv_inv_ok; try assumption; nia.
  - apply (loader_rebuilds m v BS L Hok Hidx). lia.
Qed.

Theorem rl_serialization m R L :
  runs_sorted 0 R -> runs_end R <= L -> L <= 2 ^ 64 - 1 -> lenN R < 2 ^ 55 ->
  exists v, rl_build m (rl_ops R L) = Ok (v, map (fun _ => true) R ++ [true]) /\
    roundtrip (rl_codec m) v /\ truncation_safe (rl_codec m) v /\
    c_enc (rl_codec m) v = flat_map le64 (rl_serialize v).
Proof.
  intros Hs He HL Hn. destruct (rl_built_wf m R L Hs He HL Hn) as (v & Hb & Hwf).
  exists v. split; [exact Hb|].
  split; [exact (ok_roundtrip _ v (rl_codec_ok m) Hwf)|].
  split; [exact (ok_truncation _ v (rl_codec_ok m) Hwf)|apply rl_enc_elems].
Qed.
