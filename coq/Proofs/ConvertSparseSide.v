(* C11, source side for the concrete sparse vector: the SparseVector that copy_bit_vec builds from (|B|, ones B)
   exists (no failure of any kind, every select path, both build modes, every admissible low width), has
   len = |B|, count_ones = count B, and its one_iter() yields exactly the ranked positions ones B.
   From C02 (Proofs/SparseBuild.v: the builder reaches a well-formed vector; Proofs/SparseProof.v: the iterator
   over a well-formed vector; Proofs/SparseHigh.v: the contract of the high part) through C11_canonical_sparse
   (copy_bit_vec = the builder's checked route). *)
From Coq Require Import NArith List Lia ZArith Bool.
Require Import SDS.Model.Mach SDS.Model.Bits SDS.Model.Raw SDS.Model.IntVec SDS.Model.BitVec SDS.Model.Sparse.
Require Import SDS.Model.Convert SDS.Model.ConvertC.
Require Import SDS.Spec.BitSeq SDS.Spec.ValSeq SDS.Proofs.BitsProof SDS.Proofs.BVCommon SDS.Proofs.SparseSeq.
Require Import SDS.Proofs.SparseProof SDS.Proofs.SparseBuild SDS.Proofs.SparseHigh SDS.Proofs.ConvertSparse.
Require SDS.Proofs.ConvertProof SDS.Proofs.ConvertChainC.
Import ListNotations.
Open Scope N_scope.
Require Import ZifyBool ZifyN ZifyNat.
Ltac Zify.zify_post_hook ::= Z.div_mod_to_equations.
Arguments N.add : simpl never. Arguments N.sub : simpl never. Arguments N.mul : simpl never.
Arguments N.eqb : simpl never. Arguments N.ltb : simpl never. Arguments N.leb : simpl never.
Arguments N.pow : simpl never. Arguments N.div : simpl never. Arguments N.modulo : simpl never.

(* ---- the positions of a bit sequence are an admissible input of the set builder ---- *)

Lemma incr_below_increasing ps : forall cur hi, incr_below cur hi ps -> increasing ps = true /\ all_below hi ps = true.
Proof.
  induction ps as [|p t IH]; intros cur hi H; [split; reflexivity|].
  cbn [incr_below] in H. destruct H as [H1 H2]. destruct (IH _ _ H2) as [I1 I2].
  pose proof (incr_below_count _ _ _ H2) as Hc. split.
  - destruct t as [|q t']; [reflexivity|]. cbn [incr_below] in H2. destruct H2 as [H3 _].
    change (increasing (p :: q :: t')) with ((p <? q) && increasing (q :: t')). rewrite I1.
    replace (p <? q) with true by lia. reflexivity.
  - unfold all_below in *. cbn [forallb]. rewrite I2. replace (p <? hi) with true by lia. reflexivity.
Qed.

Lemma ones_admissible B : increasing (ones B) = true /\ all_below (lenB B) (ones B) = true.
Proof.
  pose proof (ones_from_incr B 0) as H. rewrite N.add_0_l in H. exact (incr_below_increasing _ _ _ H).
Qed.

Lemma ones_lenN B : lenN (ones B) = count B.
Proof. exact (ConvertProof.ones_from_len B 0). Qed.

(* ---- one_iter run to its end over a well-formed vector ---- *)

Lemma sv_collect_ok sp md sv n w Vs H : sv_ok sp md sv n w Vs H ->
  forall (d : nat) it j, it_repr w Vs H it j (lenN Vs) -> (N.to_nat (lenN Vs - j) < d)%nat ->
  sv_collect md sv d it = Ok (seg Vs j (lenN Vs)).
Proof.
  intros Hok. induction d as [|d IH]; intros it j Hit Hd; [lia|].
  cbn [sv_collect]. destruct (N.lt_ge_cases j (lenN Vs)) as [Hj|Hj].
  - destruct (q_it_next sp md sv n w Vs H Hok it j _ Hit Hj) as [it' [E Hit']]. rewrite E. cbn [bind].
    rewrite (IH it' (j + 1) Hit') by lia. cbn [bind]. rewrite (seg_cons Vs j _ Hj). reflexivity.
  - rewrite (q_it_next_none sp md sv n w Vs H Hok it j _ Hit Hj). cbn [bind].
    rewrite seg_nil by exact Hj. reflexivity.
Qed.

(* ---- the theorem ---- *)

(* the side condition: the high part (count B ones and ceil(|B| / 2^w) bucket ends) is addressable. For an
   all-zero B the builder uses width 1 whatever w is, and (|B| + 1) / 2 always fits. *)
Lemma fit_eff_width w B : lenB B < 2 ^ 64 -> 1 <= w <= 63 ->
  count B + (lenB B + 2 ^ w - 1) / 2 ^ w < 2 ^ 64 ->
  lenN (ones B) + buckets_of (lenB B) (eff_width w (lenB B) (lenN (ones B))) < 2 ^ 64.
Proof.
  intros Hlen Hw Hfit. rewrite ones_lenN. unfold eff_width, buckets_of.
  destruct ((0 <? count B) && (count B <=? lenB B)) eqn:E; [exact Hfit|].
  assert (Hc : count B <= lenB B).
  { destruct (ones_admissible B) as [Hi Hb].
    pose proof (sorted_lt_len_le (ones B) (lenB B) (increasing_sorted _ Hi) (all_below_bounded _ _ Hb)) as Hle.
    rewrite ones_lenN in Hle. exact Hle. }
  assert (Hz : count B = 0) by lia. rewrite Hz. change (2 ^ 1) with 2. lia.
Qed.

Theorem sparse_source_content : forall (sp : selpath) (m : mode) (w : N) (B : list bool),
  lenB B < 2 ^ 64 -> 1 <= w <= 63 -> count B + (lenB B + 2 ^ w - 1) / 2 ^ w < 2 ^ 64 ->
  exists sv, sv_copy sp m w (lenB B) (ones B) = Ok sv /\
    sv_len sv = lenB B /\ sv_count_ones sv = count B /\
    sv_collect m sv (S (length (ones B))) (sv_one_iter sv) = Ok (index_from (ones B) 0).
Proof.
  intros sp m w B Hlen Hw Hfit. destruct (ones_admissible B) as [Hi Hb].
  destruct (build_set_ok_closed sp m w (lenB B) (ones B) Hlen Hw Hi Hb (fit_eff_width w B Hlen Hw Hfit))
    as [sv [H [Hbuild Hok]]].
  exists sv. split; [rewrite (sv_copy_is_build_bits sp m w B Hlen), Hbuild; reflexivity|].
  split; [apply Hok|]. split; [rewrite (q_ones sp m sv _ _ _ H Hok); apply ones_lenN|].
  rewrite (sv_collect_ok sp m sv _ _ _ H Hok _ _ 0 (q_one_iter sp m sv _ _ _ H Hok)) by (unfold lenN; lia).
  rewrite <- vs_ranked_seg. reflexivity.
Qed.

(* in the vocabulary of the concrete chains (Proofs/ConvertChainC.v) *)
Theorem sparse_side_holds : forall (sp : selpath) (m : mode) (w : N) (B : list bool),
  lenB B < 2 ^ 64 -> 1 <= w <= 63 -> count B + (lenB B + 2 ^ w - 1) / 2 ^ w < 2 ^ 64 ->
  exists sv, sv_copy sp m w (lenB B) (ones B) = Ok sv /\ creads m (CS sv) (lenB B) (count B) (ones B).
Proof.
  intros sp m w B Hlen Hw Hfit. destruct (sparse_source_content sp m w B Hlen Hw Hfit) as (sv & E & H1 & H2 & H3).
  exists sv. split; [exact E|]. cbn [creads]. auto.
Qed.
