(* The IntVector model as a plain sequence, as far as the run-length vector needs it: an intvec of width w
   that "represents" a list l of values below 2^w; new / push / get / get_or / set / with_len / resize (growth)
   act on l as on a list. Built on the bit-level lemmas of Proofs/BitsProof.v. *)
From Coq Require Import NArith List Lia ZArith Bool.
Require Import SDS.Model.Mach SDS.Model.Bits SDS.Model.Raw SDS.Model.IntVec SDS.gen.Consts.
Require Import SDS.Proofs.BitsProof.
Import ListNotations.
Open Scope N_scope.
Require Import ZifyBool ZifyN ZifyNat.
Ltac Zify.zify_post_hook ::= Z.div_mod_to_equations.
Arguments N.add : simpl never. Arguments N.sub : simpl never. Arguments N.mul : simpl never.
Arguments N.eqb : simpl never. Arguments N.ltb : simpl never. Arguments N.leb : simpl never.
Arguments N.pow : simpl never. Arguments N.shiftl : simpl never. Arguments N.shiftr : simpl never.
Arguments N.land : simpl never. Arguments N.lor : simpl never. Arguments N.div : simpl never.
Arguments N.modulo : simpl never. Arguments N.ones : simpl never. Arguments N.testbit : simpl never.

(* ---- lists indexed by N ---- *)

Lemma lenN_app {A} (l1 l2 : list A) : lenN (l1 ++ l2) = lenN l1 + lenN l2.
Proof. unfold lenN. rewrite app_length. lia. Qed.
Lemma lenN_cons {A} (x : A) l : lenN (x :: l) = 1 + lenN l.
Proof. unfold lenN. cbn [length]. lia. Qed.
Lemma lenN_nil {A} : lenN (@nil A) = 0. Proof. reflexivity. Qed.

Lemma nthN_app_l {A} (l1 l2 : list A) i : i < lenN l1 -> nthN (l1 ++ l2) i = nthN l1 i.
Proof.
  revert i. induction l1 as [|x t IH]; intros i Hi; [rewrite lenN_nil in Hi; lia|].
  rewrite lenN_cons in Hi. cbn [app nthN]. destruct (N.eqb_spec i 0); [reflexivity|]. apply IH. lia.
Qed.
Lemma nthN_app_r {A} (l1 l2 : list A) i : lenN l1 <= i -> nthN (l1 ++ l2) i = nthN l2 (i - lenN l1).
Proof.
  revert i. induction l1 as [|x t IH]; intros i Hi.
  - rewrite lenN_nil. cbn [app]. f_equal. lia.
  - rewrite lenN_cons in *. cbn [app nthN]. destruct (N.eqb_spec i 0); [lia|].
    rewrite IH by lia. f_equal. lia.
Qed.
Lemma nthN_In {A} (l : list A) i x : nthN l i = Some x -> In x l.
Proof. rewrite nthN_nth_error. apply nth_error_In. Qed.

Lemma lenN_repeatN {A} (x : A) n : lenN (repeatN x n) = N.of_nat n.
Proof. unfold lenN. induction n as [|n IH]; cbn [repeatN length]; [reflexivity|]. lia. Qed.
Lemma nthN_repeatN {A} (x : A) n i y : nthN (repeatN x n) i = Some y -> y = x.
Proof.
  revert i. induction n as [|n IH]; intros i H; cbn [repeatN nthN] in H; [discriminate|].
  destruct (i =? 0); [congruence|eauto].
Qed.
Lemma repeatN_snoc {A} (x : A) n : repeatN x (S n) = repeatN x n ++ [x].
Proof. induction n as [|n IH]; [reflexivity|]. cbn [repeatN app] in *. rewrite <- IH. reflexivity. Qed.
Lemma lenN_setN' {A} (l : list A) i v : lenN (setN l i v) = lenN l.
Proof. apply lenN_setN. Qed.
Lemma nthN_setN_any {A} (l : list A) i j v :
  nthN (setN l i v) j = if (j =? i) && (i <? lenN l) then Some v else nthN l j.
Proof.
  destruct (N.eqb_spec j i) as [->|Hne]; cbn [andb].
  - destruct (N.ltb_spec i (lenN l)) as [Hi|Hi]; [apply nthN_setN_eq; assumption|].
    assert (E : nthN l i = None) by (apply nthN_None_ge; assumption).
    rewrite E. apply nthN_None_ge. rewrite lenN_setN. assumption.
  - apply nthN_setN_neq. congruence.
Qed.

(* ---- raw vectors holding w-bit fields ---- *)

Definition raw_rep (r : raw) (w : N) (l : list N) : Prop :=
  rlen r = lenN l * w /\
  wf (rdata r) /\
  rlen r <= 64 * lenN (rdata r) /\
  Forall (fun x => x < 2 ^ w) l /\
  (forall i x, nthN l i = Some x -> forall k, k < w -> bit (rdata r) (i * w + k) = N.testbit x k).

Definition iv_rep (v : intvec) (w : N) (l : list N) : Prop :=
  iwidth v = w /\ 1 <= w <= 64 /\ ilen v = lenN l /\ raw_rep (idata v) w l.

Lemma raw_rep_new w : raw_rep raw_new w [].
Proof.
  unfold raw_rep, raw_new. cbn [rlen rdata].
  split; [reflexivity|]. split; [constructor|]. split; [unfold lenN; cbn [length]; lia|]. split; [constructor|].
  intros i x H. cbn [nthN] in H. discriminate.
Qed.

Lemma getw_app_zero a i : getw (a ++ [0]) i = getw a i.
Proof.
  unfold getw. destruct (N.ltb_spec i (lenN a)) as [Hi|Hi].
  - rewrite nthN_app_l by assumption. reflexivity.
  - rewrite nthN_app_r by assumption.
    assert (E : nthN a i = None) by (apply nthN_None_ge; assumption). rewrite E.
    cbn [nthN]. destruct (i - lenN a =? 0); reflexivity.
Qed.
Lemma bit_app_zero a p : bit (a ++ [0]) p = bit a p.
Proof. unfold bit. rewrite getw_app_zero. reflexivity. Qed.

Lemma wf_app_zero a : wf a -> wf (a ++ [0]).
Proof. intros H. unfold wf. apply Forall_app. split; [exact H|]. constructor; [reflexivity|constructor]. Qed.

Lemma mul_succ_le i n w : i < n -> i * w + w <= n * w.
Proof. intros H. assert (E : (i + 1) * w <= n * w) by (apply N.mul_le_mono_r; lia). lia. Qed.

Lemma raw_push_int_rep r w l x :
  1 <= w <= 64 -> raw_rep r w l ->
  exists r', raw_push_int r x w = Ok r' /\ raw_rep r' w (l ++ [x mod 2 ^ w]).
Proof.
  intros Hw (Hlen & Hwf & Hcap & Hall & Hbits).
  unfold raw_push_int. replace (w =? 0) with false by lia.
  unfold words_to_bits. change bits_WORD_BITS with 64.
  set (d0 := if lenN (rdata r) * 64 <? rlen r + w then rdata r ++ [0] else rdata r).
  assert (Hwf0 : wf d0) by (subst d0; destruct (_ <? _); [apply wf_app_zero|]; assumption).
  assert (Hcap0 : rlen r + w <= 64 * lenN d0).
  { subst d0. destruct (N.ltb_spec (lenN (rdata r) * 64) (rlen r + w)); [rewrite lenN_app; change (lenN [0]) with 1|]; lia. }
  assert (Hbit0 : forall p, bit d0 p = bit (rdata r) p).
  { intros p. subst d0. destruct (_ <? _); [apply bit_app_zero|reflexivity]. }
  assert (Hidx : (rlen r + w - 1) / 64 < lenN d0) by lia.
  destruct (write_int_bits d0 (rlen r) x w Hwf0 Hw Hidx) as (a' & Hwr & Hwf' & Hl' & Hb').
  rewrite Hwr. cbn [bind]. eexists. split; [reflexivity|].
  unfold raw_rep. cbn [rlen rdata]. rewrite lenN_app. change (lenN [x mod 2 ^ w]) with 1.
  split; [lia|]. split; [assumption|].
  split; [unfold lenN in *; rewrite Hl'; lia|].
  split.
  { apply Forall_app. split; [assumption|]. constructor; [|constructor]. apply N.mod_lt. apply N.pow_nonzero. lia. }
  intros i y Hy k Hk. rewrite Hb'.
  destruct (N.ltb_spec i (lenN l)) as [Hi|Hi].
  - rewrite nthN_app_l in Hy by assumption.
    pose proof (mul_succ_le i (lenN l) w Hi) as Hm.
    replace ((rlen r <=? i * w + k) && (i * w + k <? rlen r + w)) with false by lia.
    rewrite Hbit0. apply Hbits; assumption.
  - rewrite nthN_app_r in Hy by assumption. cbn [nthN] in Hy.
    destruct (N.eqb_spec (i - lenN l) 0) as [E|E]; [|destruct (i - lenN l - 1 =? 0); discriminate].
    assert (i = lenN l) by lia. subst i. injection Hy as <-.
    replace ((rlen r <=? lenN l * w + k) && (lenN l * w + k <? rlen r + w)) with true by lia.
    rewrite N.mod_pow2_bits_low by lia. f_equal. lia.
Qed.

Lemma iv_rep_new w : 1 <= w <= 64 -> iv_new w = Some (mkiv 0 w raw_new) /\ iv_rep (mkiv 0 w raw_new) w [].
Proof.
  intros Hw. unfold iv_new, width_ok. change bits_WORD_BITS with 64.
  replace (w =? 0) with false by lia. replace (64 <? w) with false by lia. cbn [orb negb].
  split; [reflexivity|]. unfold iv_rep. cbn [iwidth ilen idata].
  split; [reflexivity|]. split; [lia|]. split; [reflexivity|]. apply raw_rep_new.
Qed.
Lemma iv_with_capacity_rep c w : 1 <= w <= 64 ->
  iv_with_capacity c w = Some (mkiv 0 w raw_new) /\ iv_rep (mkiv 0 w raw_new) w [].
Proof. exact (iv_rep_new w). Qed.

Lemma iv_push_rep v w l x :
  iv_rep v w l -> exists v', iv_push v x = Ok v' /\ iv_rep v' w (l ++ [x mod 2 ^ w]).
Proof.
  intros (Hwd & Hw & Hlen & Hraw). unfold iv_push. rewrite Hwd.
  destruct (raw_push_int_rep _ _ _ x Hw Hraw) as (r' & Hp & Hr'). rewrite Hp. cbn [bind].
  eexists. split; [reflexivity|]. unfold iv_rep. cbn [iwidth ilen idata].
  rewrite lenN_app. change (lenN [x mod 2 ^ w]) with 1.
  split; [reflexivity|]. split; [lia|]. split; [lia|]. assumption.
Qed.

(* pushing a value that fits *)
Lemma iv_push_rep_small v w l x :
  iv_rep v w l -> x < 2 ^ w -> exists v', iv_push v x = Ok v' /\ iv_rep v' w (l ++ [x]).
Proof.
  intros Hr Hx. destruct (iv_push_rep v w l x Hr) as (v' & Hp & Hr').
  rewrite N.mod_small in Hr' by assumption. eauto.
Qed.

Lemma iv_rep_ilen v w l : iv_rep v w l -> ilen v = lenN l.
Proof. intros (_ & _ & H & _). exact H. Qed.
Lemma iv_rep_width v w l : iv_rep v w l -> iwidth v = w.
Proof. intros (H & _). exact H. Qed.
Lemma iv_rep_bound v w l i x : iv_rep v w l -> nthN l i = Some x -> x < 2 ^ w.
Proof.
  intros (_ & _ & _ & (_ & _ & _ & Hall & _)) Hn. apply nthN_In in Hn.
  rewrite Forall_forall in Hall. auto.
Qed.

Lemma iv_get_rep v w l i x : iv_rep v w l -> nthN l i = Some x -> iv_get v i = Ok x.
Proof.
  intros (Hwd & Hw & Hlen & (Hrl & Hwf & Hcap & Hall & Hbits)) Hn.
  pose proof (nthN_Some_lt _ _ _ Hn) as Hi.
  unfold iv_get. rewrite Hlen. replace (i <? lenN l) with true by lia.
  unfold raw_int. rewrite Hwd. replace (w =? 0) with false by lia.
  pose proof (mul_succ_le i (lenN l) w Hi) as Hm.
  assert (Hidx : (i * w + w - 1) / 64 < lenN (rdata (idata v))) by lia.
  destruct (read_int_bits (rdata (idata v)) (i * w) w 0 Hwf Hw Hidx) as (r & Hr & _ & _).
  rewrite Hr. f_equal. apply N.bits_inj. intros k.
  destruct (read_int_bits (rdata (idata v)) (i * w) w k Hwf Hw Hidx) as (r' & Hr' & _ & Hb).
  assert (r' = r) by congruence. subst r'. rewrite Hb.
  assert (Hx : x < 2 ^ w).
  { apply nthN_In in Hn. rewrite Forall_forall in Hall. auto. }
  destruct (N.ltb_spec k w) as [Hk|Hk]; cbn [andb].
  - apply Hbits; assumption.
  - symmetry. destruct (N.eqb_spec x 0) as [->|Hx0]; [apply N.bits_0|].
    apply N.bits_above_log2. apply N.log2_lt_pow2; [lia|].
    eapply N.lt_le_trans; [exact Hx|]. apply N.pow_le_mono_r; lia.
Qed.

Lemma iv_get_or_rep v w l i d :
  iv_rep v w l -> iv_get_or v i d = Ok (match nthN l i with Some x => x | None => d end).
Proof.
  intros Hr. unfold iv_get_or. rewrite (iv_rep_ilen _ _ _ Hr).
  destruct (N.leb_spec (lenN l) i) as [Hi|Hi].
  - assert (E : nthN l i = None) by (apply nthN_None_ge; assumption). rewrite E. reflexivity.
  - destruct (nthN_lt_Some l i Hi) as [x Hx]. rewrite Hx. eapply iv_get_rep; eauto.
Qed.

Lemma iv_get_oob v w l i : iv_rep v w l -> lenN l <= i -> iv_get v i = Panic PAssert.
Proof. intros Hr Hi. unfold iv_get. rewrite (iv_rep_ilen _ _ _ Hr). replace (i <? lenN l) with false by lia. reflexivity. Qed.

Lemma iv_set_rep v w l i x :
  iv_rep v w l -> i < lenN l ->
  exists v', iv_set v i x = Ok v' /\ iv_rep v' w (setN l i (x mod 2 ^ w)).
Proof.
  intros (Hwd & Hw & Hlen & (Hrl & Hwf & Hcap & Hall & Hbits)) Hi.
  unfold iv_set. rewrite Hlen. replace (i <? lenN l) with true by lia.
  unfold raw_set_int. rewrite Hwd. replace (w =? 0) with false by lia.
  pose proof (mul_succ_le i (lenN l) w Hi) as Hm.
  assert (Hidx : (i * w + w - 1) / 64 < lenN (rdata (idata v))) by lia.
  destruct (write_int_bits (rdata (idata v)) (i * w) x w Hwf Hw Hidx) as (a' & Hwr & Hwf' & Hl' & Hb').
  rewrite Hwr. cbn [bind]. eexists. split; [reflexivity|].
  unfold iv_rep, raw_rep. cbn [iwidth ilen idata rlen rdata]. rewrite lenN_setN.
  split; [reflexivity|]. split; [assumption|]. split; [reflexivity|].
  split; [assumption|]. split; [assumption|].
  split; [unfold lenN in *; rewrite Hl'; assumption|].
  split.
  { rewrite Forall_forall in *. intros y Hy. apply In_nth_error in Hy. destruct Hy as [n Hn].
    rewrite <- (Nat2N.id n), <- nthN_nth_error, nthN_setN_any in Hn.
    destruct ((N.of_nat n =? i) && (i <? lenN l)).
    - injection Hn as <-. apply N.mod_lt. apply N.pow_nonzero. lia.
    - apply Hall. eapply nthN_In; eauto. }
  intros j y Hy k Hk. rewrite Hb'. rewrite nthN_setN_any in Hy.
  destruct (N.eqb_spec j i) as [->|Hne]; cbn [andb] in Hy.
  - replace (i <? lenN l) with true in Hy by lia. injection Hy as <-.
    replace ((i * w <=? i * w + k) && (i * w + k <? i * w + w)) with true by lia.
    rewrite N.mod_pow2_bits_low by lia. f_equal. lia.
  - pose proof (nthN_Some_lt _ _ _ Hy) as Hj.
    assert (Hout : (i * w <=? j * w + k) && (j * w + k <? i * w + w) = false).
    { destruct (N.lt_ge_cases j i) as [Hlt|Hge].
      - pose proof (mul_succ_le j i w Hlt). lia.
      - assert (i < j) by lia. pose proof (mul_succ_le i j w H). lia. }
    rewrite Hout. apply Hbits; assumption.
Qed.

Lemma iv_set_rep_small v w l i x :
  iv_rep v w l -> i < lenN l -> x < 2 ^ w ->
  exists v', iv_set v i x = Ok v' /\ iv_rep v' w (setN l i x).
Proof.
  intros Hr Hi Hx. destruct (iv_set_rep v w l i x Hr Hi) as (v' & Hs & Hr').
  rewrite N.mod_small in Hr' by assumption. eauto.
Qed.

Lemma iv_push_all_zeros v w l n :
  iv_rep v w l -> exists v', iv_push_all v (repeatN 0 n) = Ok v' /\ iv_rep v' w (l ++ repeatN 0 n).
Proof.
  revert v l. induction n as [|n IH]; intros v l Hr; cbn [repeatN iv_push_all].
  - exists v. rewrite app_nil_r. auto.
  - destruct (iv_push_rep_small v w l 0 Hr) as (v1 & Hp & Hr1).
    { destruct Hr as (_ & Hw & _). apply N.neq_0_lt_0. apply N.pow_nonzero. lia. }
    rewrite Hp. cbn [bind]. destruct (IH v1 _ Hr1) as (v' & Hpa & Hr').
    exists v'. split; [assumption|]. rewrite <- app_assoc in Hr'. exact Hr'.
Qed.

(* resize(new_len, 0) when it does not shrink *)
Lemma iv_resize_grow v w l n :
  iv_rep v w l -> lenN l <= n ->
  exists v', iv_resize v n 0 = Ok v' /\ iv_rep v' w (l ++ repeatN 0 (N.to_nat (n - lenN l))).
Proof.
  intros Hr Hn. unfold iv_resize. rewrite (iv_rep_ilen _ _ _ Hr).
  destruct (N.ltb_spec (lenN l) n) as [Hlt|Hge].
  - apply iv_push_all_zeros. assumption.
  - replace (n <? lenN l) with false by lia. exists v. split; [reflexivity|].
    replace (n - lenN l) with 0 by lia. cbn [N.to_nat repeatN]. rewrite app_nil_r. assumption.
Qed.

Lemma push_n_zeros r w l n :
  1 <= w <= 64 -> raw_rep r w l ->
  exists r', push_n r n 0 w = Ok r' /\ raw_rep r' w (l ++ repeatN 0 n).
Proof.
  intros Hw. revert r l. induction n as [|n IH]; intros r l Hr; cbn [push_n repeatN].
  - exists r. rewrite app_nil_r. auto.
  - destruct (raw_push_int_rep r w l 0 Hw Hr) as (r1 & Hp & Hr1). rewrite Hp. cbn [bind].
    rewrite N.mod_0_l in Hr1 by (apply N.pow_nonzero; lia).
    destruct (IH r1 _ Hr1) as (r' & Hpn & Hr'). exists r'. split; [assumption|].
    rewrite <- app_assoc in Hr'. exact Hr'.
Qed.

Lemma iv_with_len_zeros n w :
  1 <= w <= 64 ->
  exists v, iv_with_len n w 0 = Some (Ok v) /\ iv_rep v w (repeatN 0 (N.to_nat n)).
Proof.
  intros Hw. unfold iv_with_len, width_ok. change bits_WORD_BITS with 64.
  replace (w =? 0) with false by lia. replace (64 <? w) with false by lia. cbn [orb negb].
  destruct (push_n_zeros raw_new w [] (N.to_nat n) Hw (raw_rep_new w)) as (r' & Hp & Hr').
  rewrite Hp. cbn [bind]. eexists. split; [reflexivity|].
  unfold iv_rep. cbn [iwidth ilen idata]. cbn [app] in Hr'.
  rewrite lenN_repeatN. split; [reflexivity|]. split; [lia|]. split; [lia|]. assumption.
Qed.
