(* C10 for the sparse vector: OneIter (from one_iter / select_iter / predecessor / successor), the bit iterator Iter
   and ZeroIter (from zero_iter / select_zero_iter) refine the deque specification of Spec/Deque.v over their
   reference sequences for every finite sequence of next / next_back / nth(k) / nth_back(k) / len calls (ZeroIter:
   the forward calls): every call returns Ok, next / next_back pop one end, the inherited nth / nth_back skip k
   items and pop (or empty the iterator), size_hint is the exact number of items left, and an exhausted iterator
   stays exhausted.
   Built on the one-step lemmas of the C02 cone - Proofs/SparseProof.v (q_it_next, q_it_back over [it_repr]),
   Proofs/SparseIter.v (sbi_next_ok, sbi_back_ok over [sbi_inv]), Proofs/SparseZero.v (zi_next_ok over [zi_inv]) -
   and the generic std_nth_ok / lifting_rel of IterProof.v / Spec/Deque.v. Everything is stated for a vector
   satisfying the representation invariant [sv_ok] (what the builders produce: Proofs/SparseHigh.v). *)
From Coq Require Import NArith List Lia ZArith Bool.
Require Import SDS.Model.Mach SDS.Model.Bits SDS.Model.Raw SDS.Model.IntVec SDS.Model.BitVec SDS.Model.Iters.
Require Import SDS.Spec.BitSeq SDS.Spec.ValSeq SDS.Spec.Deque SDS.Spec.IterRefs.
Require Import SDS.Model.Sparse SDS.Model.SparseIters.
Require Import SDS.Proofs.BitsProof SDS.Proofs.BVCommon SDS.Proofs.IterProof.
Require Import SDS.Proofs.SparseSeq SDS.Proofs.SparseProof SDS.Proofs.SparseIter SDS.Proofs.SparseZero.
Import ListNotations.
Open Scope N_scope.
Require Import ZifyBool ZifyN ZifyNat.
Ltac Zify.zify_post_hook ::= Z.div_mod_to_equations.
Arguments N.add : simpl never. Arguments N.sub : simpl never. Arguments N.mul : simpl never.
Arguments N.eqb : simpl never. Arguments N.ltb : simpl never. Arguments N.leb : simpl never.
Arguments N.pow : simpl never. Arguments N.min : simpl never. Arguments N.div : simpl never.
Arguments N.modulo : simpl never.

(* ================================================================ 1. iterators whose nth / nth_back are the std defaults *)

Section DE.
Context {St A : Type}.
Variables (nx nb : St -> res (St * option A)) (ln : St -> res N) (fuel : St -> nat).
Variable rep : St -> list A -> Prop.

(* double-ended *)
Definition de_step (s : St) (c : call) : res (St * out A) :=
  match c with
  | Next => let* (s', o) := nx s in Ok (s', Item o)
  | NextBack => let* (s', o) := nb s in Ok (s', Item o)
  | Nth k => let* (s', o) := std_nth nx (fuel s) s k in Ok (s', Item o)
  | NthBack k => let* (s', o) := std_nth nb (fuel s) s k in Ok (s', Item o)
  | Len => let* n := ln s in Ok (s, Count n)
  end.
(* forward only *)
Definition fw_step (s : St) (c : call) : res (St * out A) :=
  match c with
  | Next => let* (s', o) := nx s in Ok (s', Item o)
  | Nth k => let* (s', o) := std_nth nx (fuel s) s k in Ok (s', Item o)
  | Len => let* n := ln s in Ok (s, Count n)
  | NextBack | NthBack _ => Panic PDoc
  end.

Hypothesis Hnx : forall s l, rep s l -> exists s', nx s = Ok (s', hd_error l) /\ rep s' (tl l).
Hypothesis Hln : forall s l, rep s l -> ln s = Ok (lenA l).
Hypothesis Hfuel : forall s l, rep s l -> (length l < fuel s)%nat.

Theorem fw_step_refines : step_refines_rel fw_step rep call_fwd.
Proof.
  intros s l c Hr Hc. destruct c as [| |k|k|]; cbn [call_fwd] in Hc; try contradiction; cbn [fw_step dq_step].
  - destruct (Hnx s l Hr) as (s' & E & Hr'). rewrite E. cbn [bind]. rewrite dq_front_0. cbn [fst snd]. eauto.
  - destruct (std_nth_ok nx rep Hnx (fuel s) s l k Hr (Hfuel s l Hr)) as (s' & E & Hr').
    rewrite E. cbn [bind]. destruct (dq_front l k) as [l' o]. cbn [fst snd] in *. eauto.
  - rewrite (Hln s l Hr). cbn [bind]. eauto.
Qed.

Hypothesis Hnb : forall s l, rep s (rev l) -> exists s', nb s = Ok (s', hd_error l) /\ rep s' (rev (tl l)).

Theorem de_step_refines : step_refines_rel de_step rep (fun _ => True).
Proof.
  intros s l c Hr _. destruct c as [| |k|k|]; cbn [de_step dq_step].
  - destruct (Hnx s l Hr) as (s' & E & Hr'). rewrite E. cbn [bind]. rewrite dq_front_0. cbn [fst snd]. eauto.
  - destruct (Hnb s (rev l)) as (s' & E & Hr'); [rewrite rev_involutive; exact Hr|].
    rewrite E. cbn [bind]. rewrite dq_front_0. cbn [fst snd]. eauto.
  - destruct (std_nth_ok nx rep Hnx (fuel s) s l k Hr (Hfuel s l Hr)) as (s' & E & Hr').
    rewrite E. cbn [bind]. destruct (dq_front l k) as [l' o]. cbn [fst snd] in *. eauto.
  - destruct (std_nth_ok nb (fun s0 l0 => rep s0 (rev l0)) Hnb (fuel s) s (rev l) k) as (s' & E & Hr').
    + rewrite rev_involutive. exact Hr.
    + rewrite rev_length. exact (Hfuel s l Hr).
    + rewrite E. cbn [bind]. destruct (dq_front (rev l) k) as [l' o]. cbn [fst snd] in *. eauto.
  - rewrite (Hln s l Hr). cbn [bind]. eauto.
Qed.
End DE.

(* ================================================================ 2. lengths of the reference segments *)

Lemma rangeN_length j d : length (rangeN j d) = d.
Proof. revert j. induction d as [|d IH]; intros j; [reflexivity|]. cbn [rangeN length]. rewrite IH. reflexivity. Qed.

Lemma seg_length l j k : length (seg l j k) = N.to_nat (k - j).
Proof. unfold seg. rewrite map_length. apply rangeN_length. Qed.
Lemma gseg_length {A} (f : N -> A) j k : length (gseg f j k) = N.to_nat (k - j).
Proof. unfold gseg. rewrite map_length. apply rangeN_length. Qed.

Lemma rev_eq_l {A} (l l' : list A) : rev l = l' -> l = rev l'.
Proof. intros <-. symmetry. apply rev_involutive. Qed.

(* all unset positions with their ranks, from rank r on (a specification: the list is never built) *)
Definition vs_zeros_all (P : list N) (n r : N) : list (N * N) := vs_zeros_from P n r (N.to_nat (n - lenN P - r)).

Lemma vs_zeros_all_some P n r z : r < n - lenN P -> vs_select_zero P n r = Some z ->
  vs_zeros_all P n r = (r, z) :: vs_zeros_all P n (r + 1).
Proof.
  intros Hr Hz. unfold vs_zeros_all.
  replace (N.to_nat (n - lenN P - r)) with (S (N.to_nat (n - lenN P - (r + 1)))) by lia.
  cbn [vs_zeros_from]. rewrite Hz. reflexivity.
Qed.
Lemma vs_zeros_all_none P n r : n - lenN P <= r -> vs_zeros_all P n r = [].
Proof. intros Hr. unfold vs_zeros_all. replace (N.to_nat (n - lenN P - r)) with 0%nat by lia. reflexivity. Qed.

(* ================================================================ 3. the three iterators over a well-formed vector *)

Section Sp.
Variables (sp : selpath) (md : mode) (sv : sparse) (n w : N) (Vs : list N) (H : list bool).
Hypothesis Hok : sv_ok sp md sv n w Vs H.

Local Notation m := (lenN Vs).
Local Notation V := (nthd Vs).

Let Hsorted : sorted_le Vs. Proof. apply Hok. Qed.

(* ---- OneIter: the (index, value) pairs with indices in [j, k) ---- *)

Definition oi_rep (it : sv_iter) (l : list (N * N)) : Prop :=
  exists j k, it_repr w Vs H it j k /\ j <= k /\ l = seg Vs j k.

Lemma oi_front it l : oi_rep it l -> exists it', it_next_f md sv it = Ok (it', hd_error l) /\ oi_rep it' (tl l).
Proof.
  intros (j & k & Hit & Hjk & ->). destruct (N.lt_ge_cases j k) as [Hlt|Hge].
  - destruct (q_it_next sp md sv n w Vs H Hok it j k Hit Hlt) as (it' & E & Hit'). exists it'.
    rewrite (seg_cons Vs j k Hlt). cbn [hd_error tl]. split; [exact E|]. exists (j + 1), k. split; [exact Hit'|]. split; [lia|reflexivity].
  - rewrite (q_it_next_none sp md sv n w Vs H Hok it j k Hit Hge). exists it.
    rewrite (seg_nil Vs j k Hge). cbn [hd_error tl]. split; [reflexivity|]. exists j, k. split; [exact Hit|].
    split; [exact Hjk|]. symmetry. apply seg_nil. exact Hge.
Qed.

Lemma oi_back it l : oi_rep it (rev l) -> exists it', it_next_back md sv it = Ok (it', hd_error l) /\ oi_rep it' (rev (tl l)).
Proof.
  intros (j & k & Hit & Hjk & Hl). apply rev_eq_l in Hl. subst l. destruct (N.lt_ge_cases j k) as [Hlt|Hge].
  - destruct (q_it_back sp md sv n w Vs H Hok it j k Hit Hlt) as (it' & E & Hit'). exists it'.
    rewrite (seg_snoc Vs j k Hlt), rev_app_distr. cbn [rev app hd_error tl]. split; [exact E|].
    exists j, (k - 1). split; [exact Hit'|]. split; [lia|]. apply rev_involutive.
  - rewrite (q_it_back_none sp md sv n w Vs H Hok it j k Hit Hge). exists it.
    rewrite (seg_nil Vs j k Hge). cbn [rev hd_error tl]. split; [reflexivity|]. exists j, k. split; [exact Hit|].
    split; [exact Hjk|]. symmetry. apply seg_nil. exact Hge.
Qed.

Lemma oi_len_ok it l : oi_rep it l -> it_len md it = Ok (lenA l).
Proof.
  intros (j & k & (Hn1 & Hl1 & _) & Hjk & ->). unfold it_len. rewrite Hn1, Hl1, usub_ok by exact Hjk.
  unfold lenA. rewrite seg_length. f_equal. lia.
Qed.

Lemma oi_fuel_ok it l : oi_rep it l -> (length l < sp_fuel (snd (it_limit it)) (snd (it_next it)))%nat.
Proof. intros (j & k & (Hn1 & Hl1 & _) & Hjk & ->). rewrite Hn1, Hl1, seg_length. unfold sp_fuel. lia. Qed.

Lemma sp_oi_step_de it c :
  sp_oi_step md sv it c =
  de_step (it_next_f md sv) (it_next_back md sv) (it_len md) (fun it => sp_fuel (snd (it_limit it)) (snd (it_next it))) it c.
Proof. destruct c; reflexivity. Qed.

Theorem sp_oi_refines : step_refines_rel (sp_oi_step md sv) oi_rep (fun _ => True).
Proof.
  intros it l c Hr Hc. rewrite sp_oi_step_de.
  exact (de_step_refines _ _ _ _ oi_rep oi_front oi_len_ok oi_fuel_ok oi_back it l c Hr Hc).
Qed.

(* every finite interleaving of next / next_back / nth / nth_back / len *)
Theorem sp_oi_run cs it l : oi_rep it l ->
  exists it', it_run (sp_oi_step md sv) it cs = Ok (it', snd (dq_run l cs)) /\ oi_rep it' (fst (dq_run l cs)).
Proof.
  intros Hr. apply (lifting_rel (sp_oi_step md sv) oi_rep (fun _ => True) sp_oi_refines cs it l Hr).
  apply Forall_forall. intros; exact I.
Qed.

(* the entry points *)
Lemma oi_rep_at it j : it_repr w Vs H it j m -> j <= m -> oi_rep it (skipN (vs_ranked Vs) j).
Proof. intros Hit Hj. exists j, m. split; [exact Hit|]. split; [exact Hj|]. apply skipN_ranked_seg. Qed.

Theorem sp_oi_entries e l : ones_ref (vs_ranked Vs) e = Some l ->
  match sp_oi_entry sp md sv e with
  | Some start => exists it, start = Ok it /\ oi_rep it l
  | None => True
  end.
Proof.
  intros Hl. destruct e; cbn [ones_ref] in Hl; try discriminate; injection Hl as <-; cbn [sp_oi_entry].
  - exists (sv_one_iter sv). split; [reflexivity|]. rewrite <- (skipN_0 (vs_ranked Vs)).
    apply oi_rep_at; [exact (q_one_iter sp md sv n w Vs H Hok)|lia].
  - destruct (q_select_iter sp md sv n w Vs H Hok r) as (it & E & Hit). exists it. split; [exact E|].
    destruct (N.le_gt_cases r m) as [Hr|Hr].
    + replace (N.min r m) with r in Hit by lia. apply oi_rep_at; assumption.
    + replace (N.min r m) with m in Hit by lia. exists m, m. split; [exact Hit|]. split; [lia|].
      rewrite skipN_ranked_seg, !seg_nil by lia. reflexivity.
  - destruct (q_predecessor_ok sp md sv n w Vs H Hok v) as (it & E & Hit). exists it. split; [exact E|].
    fold (vs_pred Vs v). rewrite (vs_pred_eq Vs v Hsorted). unfold pred_index in Hit. cbn zeta in Hit.
    pose proof (vs_rank_le_len Vs (v + 1)) as Hle.
    destruct (N.eqb_spec (vs_rank Vs (v + 1)) 0) as [Hz|Hz].
    + exists m, m. split; [exact Hit|]. split; [lia|]. rewrite seg_nil by lia. reflexivity.
    + apply oi_rep_at; [exact Hit|lia].
  - destruct (q_successor_ok sp md sv n w Vs H Hok v) as (it & E & Hit). exists it. split; [exact E|].
    fold (vs_succ Vs v). rewrite (vs_succ_eq Vs v Hsorted). apply oi_rep_at; [exact Hit|apply vs_rank_le_len].
Qed.

(* ---- Iter: the membership bits of the positions in [a, b) ---- *)

Definition bi_rep (s : sbit_iter) (l : list bool) : Prop :=
  exists a b j k, sbi_inv n w Vs H s a b j k /\ a <= b /\ l = gseg (vs_get Vs) a b.

Lemma bi_front s l : bi_rep s l -> exists s', sbi_next_f md sv s = Ok (s', hd_error l) /\ bi_rep s' (tl l).
Proof.
  intros (a & b & j & k & Hinv & Hab & ->). destruct (N.lt_ge_cases a b) as [Hlt|Hge].
  - destruct (sbi_next_ok sp md sv n w Vs H Hok s a b j k Hinv Hlt) as (s' & j' & E & Hinv'). exists s'.
    rewrite (gseg_cons _ a b Hlt). cbn [hd_error tl]. split; [exact E|]. exists (a + 1), b, j', k.
    split; [exact Hinv'|]. split; [lia|reflexivity].
  - rewrite (sbi_next_none sp md sv n w Vs H Hok s a b j k Hinv Hge). exists s.
    rewrite (gseg_nil _ a b Hge). cbn [hd_error tl]. split; [reflexivity|]. exists a, b, j, k. split; [exact Hinv|].
    split; [exact Hab|]. symmetry. apply gseg_nil. exact Hge.
Qed.

Lemma bi_back s l : bi_rep s (rev l) -> exists s', sbi_next_back md sv s = Ok (s', hd_error l) /\ bi_rep s' (rev (tl l)).
Proof.
  intros (a & b & j & k & Hinv & Hab & Hl). apply rev_eq_l in Hl. subst l. destruct (N.lt_ge_cases a b) as [Hlt|Hge].
  - destruct (sbi_back_ok sp md sv n w Vs H Hok s a b j k Hinv Hlt) as (s' & k' & E & Hinv'). exists s'.
    rewrite (gseg_snoc _ a b Hlt), rev_app_distr. cbn [rev app hd_error tl]. split; [exact E|].
    exists a, (b - 1), j, k'. split; [exact Hinv'|]. split; [lia|]. apply rev_involutive.
  - rewrite (sbi_back_none sp md sv n w Vs H Hok s a b j k Hinv Hge). exists s.
    rewrite (gseg_nil _ a b Hge). cbn [rev hd_error tl]. split; [reflexivity|]. exists a, b, j, k. split; [exact Hinv|].
    split; [exact Hab|]. symmetry. apply gseg_nil. exact Hge.
Qed.

Lemma bi_len_ok s l : bi_rep s l -> sbi_len md s = Ok (lenA l).
Proof.
  intros (a & b & j & k & (Ha & Hb & _) & Hab & ->). unfold sbi_len. rewrite Ha, Hb, usub_ok by exact Hab.
  unfold lenA. rewrite gseg_length. f_equal. lia.
Qed.

Lemma bi_fuel_ok s l : bi_rep s l -> (length l < sp_fuel (sbi_limit s) (sbi_next s))%nat.
Proof. intros (a & b & j & k & (Ha & Hb & _) & Hab & ->). rewrite Ha, Hb, gseg_length. unfold sp_fuel. lia. Qed.

Lemma sp_bi_step_de s c :
  sp_bi_step md sv s c =
  de_step (sbi_next_f md sv) (sbi_next_back md sv) (sbi_len md) (fun s => sp_fuel (sbi_limit s) (sbi_next s)) s c.
Proof. destruct c; reflexivity. Qed.

Theorem sp_bi_refines : step_refines_rel (sp_bi_step md sv) bi_rep (fun _ => True).
Proof.
  intros s l c Hr Hc. rewrite sp_bi_step_de.
  exact (de_step_refines _ _ _ _ bi_rep bi_front bi_len_ok bi_fuel_ok bi_back s l c Hr Hc).
Qed.

Theorem sp_bi_run cs s l : bi_rep s l ->
  exists s', it_run (sp_bi_step md sv) s cs = Ok (s', snd (dq_run l cs)) /\ bi_rep s' (fst (dq_run l cs)).
Proof.
  intros Hr. apply (lifting_rel (sp_bi_step md sv) bi_rep (fun _ => True) sp_bi_refines cs s l Hr).
  apply Forall_forall. intros; exact I.
Qed.

Theorem sp_bi_entry : exists s, sv_iter_new md sv = Ok s /\ bi_rep s (vs_bits Vs n).
Proof.
  destruct (sbi_new_ok sp md sv n w Vs H Hok) as (s & j & k & E & Hinv). exists s. split; [exact E|].
  exists 0, n, j, k. split; [exact Hinv|]. split; [lia|apply vs_bits_gseg].
Qed.

(* ---- ZeroIter (sets): the unset positions with their ranks, from rank r on ---- *)

Hypothesis Hstrict : sorted_lt Vs.

Lemma select_zero_some r : r < n - m -> exists z, vs_select_zero Vs n r = Some z.
Proof.
  intros Hr. destruct (q_select_zero_ok sp md sv n w Vs H Hok Hstrict r) as [_ Hs].
  destruct (Hs Hr) as (z & _ & Hzn & Hg & Hrk). exists z. unfold vs_select_zero.
  apply (vs_select_zero_from_some Vs 0 n r z Hstrict); try assumption; try lia; try (intros; lia).
Qed.

Lemma vs_zeros_all_len : forall (d : nat) r, N.of_nat d = n - m - r -> lenA (vs_zeros_all Vs n r) = n - m - r.
Proof.
  induction d as [|d IH]; intros r Hd.
  - rewrite vs_zeros_all_none by lia. unfold lenA. cbn [length]. lia.
  - destruct (select_zero_some r ltac:(lia)) as (z & Hz). rewrite (vs_zeros_all_some Vs n r z ltac:(lia) Hz).
    rewrite lenA_cons, (IH (r + 1)) by lia. lia.
Qed.
Lemma vs_zeros_all_lenA r : lenA (vs_zeros_all Vs n r) = n - m - r.
Proof. apply (vs_zeros_all_len (N.to_nat (n - m - r))). lia. Qed.

Definition zi_rep (z : zero_iter) (l : list (N * N)) : Prop :=
  (exists r z0 j, zi_inv n w Vs H z r z0 j /\ r <= n - m /\ l = vs_zeros_all Vs n r) \/
  (z = zi_empty sv /\ l = []).

Lemma zi_front z l : zi_rep z l -> exists z', zi_next_f md sv z = Ok (z', hd_error l) /\ zi_rep z' (tl l).
Proof.
  intros [(r & z0 & j & Hinv & Hr & ->)|(-> & ->)].
  - destruct (N.lt_ge_cases r (n - m)) as [Hlt|Hge].
    + destruct (zi_next_ok sp md sv n w Vs H Hok Hstrict z r z0 j Hinv Hlt) as (z' & p & j' & E & (Hpn & Hg & Hrk) & Hinv').
      exists z'. assert (Hz : vs_select_zero Vs n r = Some p).
      { unfold vs_select_zero. apply (vs_select_zero_from_some Vs 0 n r p Hstrict); try assumption; try lia; try (intros; lia). }
      rewrite (vs_zeros_all_some Vs n r p Hlt Hz). cbn [hd_error tl]. split; [exact E|]. left.
      exists (r + 1), (p + 1), j'. split; [exact Hinv'|]. split; [lia|reflexivity].
    + rewrite (zi_next_none sp md sv n w Vs H Hok z r z0 j Hinv Hge). exists z.
      rewrite vs_zeros_all_none by exact Hge. cbn [hd_error tl]. split; [reflexivity|]. left.
      exists r, z0, j. split; [exact Hinv|]. split; [exact Hr|]. symmetry. apply vs_zeros_all_none. exact Hge.
  - exists (zi_empty sv). split; [reflexivity|]. right. split; reflexivity.
Qed.

Lemma zi_len_ok z l : zi_rep z l -> zi_len md z = Ok (lenA l).
Proof.
  intros [(r & z0 & j & (Hnx & Hlim & _) & Hr & ->)|(-> & ->)]; unfold zi_len.
  - rewrite Hnx, Hlim. cbn [fst]. rewrite usub_ok by exact Hr. rewrite vs_zeros_all_lenA. reflexivity.
  - cbn [zi_empty zi_limit zi_next fst]. rewrite usub_ok by lia. reflexivity.
Qed.

Lemma zi_fuel_ok z l : zi_rep z l -> (length l < sp_fuel (fst (zi_limit z)) (fst (zi_next z)))%nat.
Proof.
  intros [(r & z0 & j & (Hnx & Hlim & _) & Hr & ->)|(-> & ->)]; unfold sp_fuel.
  - rewrite Hnx, Hlim. cbn [fst]. pose proof (vs_zeros_all_lenA r) as Hl. unfold lenA in Hl. lia.
  - cbn [length]. lia.
Qed.

Lemma sp_zi_step_fw z c :
  sp_zi_step md sv z c =
  fw_step (zi_next_f md sv) (zi_len md) (fun z => sp_fuel (fst (zi_limit z)) (fst (zi_next z))) z c.
Proof. destruct c; reflexivity. Qed.

Theorem sp_zi_refines : step_refines_rel (sp_zi_step md sv) zi_rep call_fwd.
Proof.
  intros z l c Hr Hc. rewrite sp_zi_step_fw.
  exact (fw_step_refines _ _ _ zi_rep zi_front zi_len_ok zi_fuel_ok z l c Hr Hc).
Qed.

Theorem sp_zi_run cs z l : zi_rep z l -> Forall call_fwd cs ->
  exists z', it_run (sp_zi_step md sv) z cs = Ok (z', snd (dq_run l cs)) /\ zi_rep z' (fst (dq_run l cs)).
Proof. intros Hr Hcs. exact (lifting_rel (sp_zi_step md sv) zi_rep call_fwd sp_zi_refines cs z l Hr Hcs). Qed.

(* zero_iter() and select_zero_iter(r), every r *)
Theorem sp_zi_entries r :
  (exists z, sv_zero_iter md sv = Ok z /\ zi_rep z (vs_zeros_all Vs n 0)) /\
  (exists z, sv_select_zero_iter sp md sv r = Ok z /\ zi_rep z (vs_zeros_all Vs n r)).
Proof.
  split.
  - destruct (zi_zero_iter_ok sp md sv n w Vs H Hok Hstrict) as (z & E & Hinv). exists z. split; [exact E|]. left.
    exists 0, 0, 0. split; [exact Hinv|]. split; [lia|reflexivity].
  - destruct (N.lt_ge_cases r (n - m)) as [Hlt|Hge].
    + destruct (zi_select_zero_iter_ok sp md sv n w Vs H Hok Hstrict r Hlt) as (z & z0 & j & E & Hinv).
      exists z. split; [exact E|]. left. exists r, z0, j. split; [exact Hinv|]. split; [lia|reflexivity].
    + exists (zi_empty sv). split.
      * unfold sv_select_zero_iter. rewrite (q_count_zeros sp md sv n w Vs H Hok Hstrict).
        replace (n - m <=? r) with true by lia. reflexivity.
      * right. split; [reflexivity|]. apply vs_zeros_all_none. exact Hge.
Qed.

End Sp.
