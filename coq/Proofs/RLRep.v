(* The abstract structure behind a run-length vector: the maximal runs grouped into blocks; the code units of a
   block; the layout of the blocks in [data] (64 units per block, zero padded except the last); the sample
   (ones, bits) in front of each block. Definitions and list lemmas shared by the builder proof and the
   iterator / query proofs. *)
From Coq Require Import NArith List Lia ZArith Bool.
Require Import SDS.Model.Mach SDS.Model.Bits SDS.Model.Raw SDS.Model.IntVec SDS.Model.RL SDS.gen.Consts SDS.gen.Funs.
Require Import SDS.Spec.Runs.
Require Import SDS.Proofs.BitsProof SDS.Proofs.RLIntVec SDS.Proofs.RLVarint SDS.Proofs.RLIndex.
Import ListNotations.
Open Scope N_scope.
Require Import ZifyBool ZifyN ZifyNat.
Ltac Zify.zify_post_hook ::= Z.div_mod_to_equations.
Arguments N.add : simpl never. Arguments N.sub : simpl never. Arguments N.mul : simpl never.
Arguments N.eqb : simpl never. Arguments N.ltb : simpl never. Arguments N.leb : simpl never.
Arguments N.pow : simpl never. Arguments N.shiftl : simpl never. Arguments N.shiftr : simpl never.
Arguments N.land : simpl never. Arguments N.lor : simpl never. Arguments N.div : simpl never.
Arguments N.modulo : simpl never. Arguments N.ones : simpl never. Arguments N.testbit : simpl never.

Notation block := (list run) (only parsing).

(* ---- runs ---- *)

(* maximal runs after position [from]; the very first run of a vector may start at [from] itself *)
Fixpoint runs_ok (first : bool) (from : N) (R : list run) : Prop :=
  match R with
  | [] => True
  | r :: t => (if first then from <= fst r else from < fst r) /\ 1 <= snd r /\ runs_ok false (fst r + snd r) t
  end.

Lemma runs_ok_maximal first from R : runs_ok first from R <-> runs_maximal first from R.
Proof.
  revert first from. induction R as [|[s l] t IH]; intros first from; cbn [runs_ok runs_maximal fst snd]; [tauto|].
  rewrite IH. tauto.
Qed.

Fixpoint runs_end_from (tail : N) (rs : list run) : N :=
  match rs with [] => tail | r :: t => runs_end_from (fst r + snd r) t end.

Fixpoint rones (rs : list run) : N := match rs with [] => 0 | r :: t => snd r + rones t end.
Lemma rones_spec rs : rones rs = runs_ones rs.
Proof. induction rs as [|r t IH]; [reflexivity|]. cbn [rones runs_ones]. rewrite IH. reflexivity. Qed.

Lemma runs_end_from_app t a b : runs_end_from t (a ++ b) = runs_end_from (runs_end_from t a) b.
Proof. revert t. induction a as [|r a IH]; intros t; [reflexivity|]. cbn [app runs_end_from]. apply IH. Qed.
Lemma rones_app a b : rones (a ++ b) = rones a + rones b.
Proof. induction a as [|r a IH]; cbn [app rones]; [lia|]. rewrite IH. lia. Qed.

Lemma runs_ok_weaken from R : runs_ok false from R -> runs_ok true from R.
Proof. destruct R as [|r t]; [trivial|]. cbn [runs_ok]. intros (H & H1 & H2). repeat split; try assumption; lia. Qed.

Lemma runs_ok_end first from R : runs_ok first from R -> from <= runs_end_from from R.
Proof.
  revert first from. induction R as [|r t IH]; intros first from H; cbn [runs_end_from]; [lia|].
  cbn [runs_ok] in H. destruct H as (H0 & H1 & H2). apply IH in H2. destruct first; lia.
Qed.
Lemma runs_ok_end_strict first from R : R <> [] -> runs_ok first from R -> from < runs_end_from from R.
Proof.
  intros Hne H. destruct R as [|r t]; [congruence|]. cbn [runs_ok runs_end_from] in *.
  destruct H as (H0 & H1 & H2). apply runs_ok_end in H2. destruct first; lia.
Qed.

Lemma runs_ok_app first from a b :
  runs_ok first from (a ++ b) <->
  runs_ok first from a /\ runs_ok (match a with [] => first | _ => false end) (runs_end_from from a) b.
Proof.
  revert first from. induction a as [|r a IH]; intros first from; cbn [app runs_ok runs_end_from]; [tauto|].
  rewrite IH. destruct a; tauto.
Qed.

(* rank ones <= positions covered *)
Lemma rones_le_end first from R : runs_ok first from R -> from + rones R <= runs_end_from from R.
Proof.
  revert first from. induction R as [|r t IH]; intros first from H; cbn [rones runs_end_from]; [lia|].
  cbn [runs_ok] in H. destruct H as (H0 & H1 & H2). apply IH in H2. destruct first; lia.
Qed.

(* ---- code units of the runs of a block ---- *)

Fixpoint enc_runs (tail : N) (rs : list run) : list N :=
  match rs with
  | [] => []
  | r :: t => enc (fst r - tail) ++ enc (snd r - 1) ++ enc_runs (fst r + snd r) t
  end.

Lemma enc_runs_app t a b : enc_runs t (a ++ b) = enc_runs t a ++ enc_runs (runs_end_from t a) b.
Proof.
  revert t. induction a as [|r a IH]; intros t; [reflexivity|].
  cbn [app enc_runs runs_end_from]. rewrite IH, <- !app_assoc. reflexivity.
Qed.

Lemma enc_runs_len_lower t rs : 2 * lenN rs <= lenN (enc_runs t rs).
Proof.
  revert t. induction rs as [|r rs IH]; intros t; cbn [enc_runs]; [unfold lenN; cbn [length]; lia|].
  rewrite lenN_cons, !lenN_app. pose proof (enc_len (fst r - t)). pose proof (enc_len (snd r - 1)).
  specialize (IH (fst r + snd r)). lia.
Qed.

(* ---- blocks with their samples ---- *)

(* ones before the block, bits before the block, its runs *)
Notation ann := (N * N * list run)%type (only parsing).
Definition ab_ones (x : ann) : N := fst (fst x).
Definition ab_tail (x : ann) : N := snd (fst x).
Definition ab_runs (x : ann) : block := snd x.
Definition ab_units (x : ann) : list N := enc_runs (ab_tail x) (ab_runs x).

Fixpoint annot (ones tail : N) (BS : list block) : list ann :=
  match BS with
  | [] => []
  | b :: t => (ones, tail, b) :: annot (ones + rones b) (runs_end_from tail b) t
  end.

Lemma annot_app o t A B :
  annot o t (A ++ B) = annot o t A ++ annot (o + rones (concat A)) (runs_end_from t (concat A)) B.
Proof.
  revert o t. induction A as [|a A IH]; intros o t; cbn [app annot concat].
  - cbn [rones runs_end_from]. rewrite N.add_0_r. reflexivity.
  - rewrite IH. rewrite rones_app, runs_end_from_app. f_equal. f_equal. f_equal. lia.
Qed.
Lemma annot_length o t BS : length (annot o t BS) = length BS.
Proof. revert o t. induction BS as [|b BS IH]; intros o t; cbn [annot length]; [reflexivity|]. rewrite IH. reflexivity. Qed.
Lemma annot_lenN o t BS : lenN (annot o t BS) = lenN BS.
Proof. unfold lenN. rewrite annot_length. reflexivity. Qed.
Lemma map_ab_runs_annot o t BS : map ab_runs (annot o t BS) = BS.
Proof. revert o t. induction BS as [|b BS IH]; intros o t; cbn [annot map]; [reflexivity|]. rewrite IH. reflexivity. Qed.

(* the flat sample list stored in the IntVector *)
Definition flat_samples (AB : list ann) : list N := flat_map (fun x => [ab_ones x; ab_tail x]) AB.
Definition pair_samples (AB : list ann) : list (N * N) := map (fun x => (ab_ones x, ab_tail x)) AB.

(* ---- layout of the blocks in data ---- *)

Definition pad64 (u : list N) : list N := u ++ repeatN 0 (N.to_nat (64 - lenN u)).

Fixpoint layout (us : list (list N)) : list N :=
  match us with
  | [] => []
  | u :: rest => match rest with [] => u | _ => pad64 u ++ layout rest end
  end.

Lemma lenN_pad64 u : lenN u <= 64 -> lenN (pad64 u) = 64.
Proof. intros H. unfold pad64. rewrite lenN_app, lenN_repeatN. lia. Qed.

Lemma layout_cons2 u v rest : layout (u :: v :: rest) = pad64 u ++ layout (v :: rest).
Proof. reflexivity. Qed.

Lemma layout_snoc_len us u :
  Forall (fun x => lenN x <= 64) us -> lenN (layout (us ++ [u])) = 64 * lenN us + lenN u.
Proof.
  induction us as [|x us IH]; intros Hall.
  - cbn [app layout]. unfold lenN. cbn [length]. lia.
  - inversion Hall as [|? ? Hx Hus]; subst. cbn [app]. destruct us as [|y us'].
    + cbn [app]. rewrite layout_cons2. cbn [layout]. rewrite lenN_app, lenN_pad64 by assumption.
      rewrite lenN_cons, lenN_nil. lia.
    + cbn [app] in *. rewrite layout_cons2, lenN_app, lenN_pad64 by assumption.
      rewrite IH by assumption. rewrite !lenN_cons. lia.
Qed.

(* appending a block after at least one block: pad what is there to the block boundary *)
Lemma layout_snoc_new us u :
  us <> [] -> Forall (fun x => lenN x <= 64) us ->
  layout (us ++ [u]) = layout us ++ repeatN 0 (N.to_nat (64 * lenN us - lenN (layout us))) ++ u.
Proof.
  induction us as [|x us IH]; intros Hne Hall; [congruence|].
  inversion Hall as [|? ? Hx Hus]; subst. destruct us as [|y us'].
  - cbn [app]. rewrite layout_cons2. cbn [layout]. unfold pad64. rewrite <- app_assoc.
    change (lenN [x]) with 1. replace (64 * 1 - lenN x) with (64 - lenN x) by lia. reflexivity.
  - cbn [app] in *. rewrite !layout_cons2. rewrite IH by (congruence || assumption).
    rewrite <- !app_assoc. f_equal. f_equal. f_equal. f_equal.
    rewrite lenN_app, lenN_pad64 by assumption. rewrite (lenN_cons x). lia.
Qed.

(* extending the last block *)
Lemma layout_snoc_ext us u u' : layout (us ++ [u ++ u']) = layout (us ++ [u]) ++ u'.
Proof.
  induction us as [|x us IH]; [reflexivity|].
  destruct us as [|y us'].
  - cbn [app]. rewrite !layout_cons2. cbn [layout]. rewrite <- app_assoc. reflexivity.
  - cbn [app] in *. rewrite !layout_cons2. rewrite IH. rewrite <- app_assoc. reflexivity.
Qed.

(* block i starts at unit 64 * i *)
Lemma layout_block us : forall i u,
  Forall (fun x => lenN x <= 64) us -> nthN us i = Some u ->
  exists pre post, layout us = pre ++ u ++ post /\ lenN pre = 64 * i.
Proof.
  induction us as [|x us IH]; intros i u Hall Hn; [discriminate|].
  inversion Hall as [|? ? Hx Hus]; subst. cbn [nthN] in Hn.
  destruct (N.eqb_spec i 0) as [->|Hi].
  - injection Hn as ->. exists []. destruct us as [|y us'].
    + exists []. cbn [layout app]. rewrite app_nil_r. split; [reflexivity|unfold lenN; cbn [length]; lia].
    + rewrite layout_cons2. unfold pad64. exists (repeatN 0 (N.to_nat (64 - lenN u)) ++ layout (y :: us')).
      cbn [app]. rewrite <- app_assoc. split; [reflexivity|unfold lenN; cbn [length]; lia].
  - destruct us as [|y us']; [destruct (i - 1 =? 0); discriminate|].
    destruct (IH (i - 1) u Hus Hn) as (pre & post & E & Hl).
    exists (pad64 x ++ pre), post. rewrite layout_cons2, E, <- app_assoc. split; [reflexivity|].
    rewrite lenN_app, lenN_pad64 by assumption. lia.
Qed.

Lemma removelast_snoc {A} (l : list A) x : removelast (l ++ [x]) = l.
Proof. apply removelast_last. Qed.

(* ---- nthN helpers ---- *)

Lemma nthN_map {A B} (f : A -> B) l i : nthN (map f l) i = option_map f (nthN l i).
Proof.
  revert i. induction l as [|x t IH]; intros i; [reflexivity|]. cbn [map nthN].
  destruct (i =? 0); [reflexivity|apply IH].
Qed.

Lemma nthN_flat_samples AB i x :
  nthN AB i = Some x ->
  nthN (flat_samples AB) (2 * i) = Some (ab_ones x) /\ nthN (flat_samples AB) (2 * i + 1) = Some (ab_tail x).
Proof.
  revert i. induction AB as [|a AB IH]; intros i Hn; [discriminate|].
  cbn [nthN] in Hn. unfold flat_samples in *. cbn [flat_map app].
  destruct (N.eqb_spec i 0) as [Hi0|Hi].
  - subst i. injection Hn as Hn. subst x. split; reflexivity.
  - destruct (IH (i - 1) Hn) as [H1 H2]. split.
    + cbn [nthN]. replace (2 * i =? 0) with false by lia. replace (2 * i - 1 =? 0) with false by lia.
      replace (2 * i - 1 - 1) with (2 * (i - 1)) by lia. exact H1.
    + cbn [nthN]. replace (2 * i + 1 =? 0) with false by lia. replace (2 * i + 1 - 1 =? 0) with false by lia.
      replace (2 * i + 1 - 1 - 1) with (2 * (i - 1) + 1) by lia. exact H2.
Qed.

Lemma lenN_flat_samples AB : lenN (flat_samples AB) = 2 * lenN AB.
Proof.
  induction AB as [|a AB IH]; [reflexivity|]. unfold flat_samples in *. cbn [flat_map app].
  rewrite !lenN_cons, IH. lia.
Qed.

Lemma nthN_split {A} (l : list A) i x : nthN l i = Some x ->
  exists l1 l2, l = l1 ++ x :: l2 /\ lenN l1 = i.
Proof.
  revert i. induction l as [|a l IH]; intros i Hn; [discriminate|]. cbn [nthN] in Hn.
  destruct (N.eqb_spec i 0) as [Hi0|Hi].
  - subst i. injection Hn as Hn. subst x. exists [], l. split; reflexivity.
  - destruct (IH (i - 1) Hn) as (l1 & l2 & -> & Hl). exists (a :: l1), l2. split; [reflexivity|].
    rewrite lenN_cons. lia.
Qed.
Lemma nthN_middle {A} (l1 l2 : list A) x : nthN (l1 ++ x :: l2) (lenN l1) = Some x.
Proof. rewrite nthN_app_r by lia. replace (lenN l1 - lenN l1) with 0 by lia. reflexivity. Qed.

(* ---- the built vector ---- *)

Definition AB_of (BS : list block) : list ann := annot 0 0 BS.
Definition data_of (BS : list block) : list N := layout (map ab_units (annot 0 0 BS)).

Lemma lenN_map {A B} (f : A -> B) l : lenN (map f l) = lenN l.
Proof. unfold lenN. rewrite map_length. reflexivity. Qed.
Lemma lenN_pair_samples AB : lenN (pair_samples AB) = lenN AB.
Proof. apply lenN_map. Qed.

(* v is the vector with the maximal runs [concat BS], grouped into the blocks BS, and length L *)
Record rl_ok (v : rlvec) (BS : list block) (L : N) : Prop := mk_rl_ok {
  ok_nonempty : Forall (fun bl : block => bl <> []) BS;
  ok_units : Forall (fun x => lenN (ab_units x) <= 64) (annot 0 0 BS);
  ok_runs : runs_ok true 0 (concat BS);
  ok_end : runs_end_from 0 (concat BS) <= L;
  ok_L : L < 2 ^ 64;
  ok_len : rl_len v = L;
  ok_ones : rl_ones v = rones (concat BS);
  ok_data : iv_rep (rl_data v) 4 (data_of BS);
  ok_datalen : lenN (data_of BS) + 64 < 2 ^ 64;
  ok_nblocks : lenN BS <= 2 ^ 63;
  ok_samples : exists w, iv_rep (rl_samples v) w (flat_samples (annot 0 0 BS));
  ok_rank_index :
    match BS with
    | [] => si_is_empty (rl_rank_index v)
    | _ => si_ok (rl_rank_index v) (map ab_tail (annot 0 0 BS)) L
    end;
  ok_select_index :
    match BS with
    | [] => si_is_empty (rl_select_index v)
    | _ => si_ok (rl_select_index v) (map ab_ones (annot 0 0 BS)) (rones (concat BS))
    end;
  ok_select_zero_index :
    (BS = [] -> si_is_empty (rl_select_zero_index v)) /\
    (BS <> [] -> L - rones (concat BS) <> 0 ->
     si_ok (rl_select_zero_index v) (map (fun x => ab_tail x - ab_ones x) (annot 0 0 BS)) (L - rones (concat BS)))
}.
