(* Proofs for C19: the support structures of a plain bitvector are functions of its bits alone, each enable_*
   writes only its own field, so supports are optional (any subset round-trips), rebuildable (completing any
   subset in any order gives the fully enabled vector), idempotent, commuting, and answer-neutral. *)
From Coq Require Import NArith List Lia ZArith Bool.
Require Import SDS.Model.Mach SDS.Model.Bits SDS.Model.Raw SDS.Model.IntVec SDS.Model.BitVec SDS.Model.Ser.
Require Import SDS.gen.Consts SDS.Spec.Stream SDS.Proofs.BitsProof SDS.Proofs.SerProof SDS.Proofs.SerTypes.
Import ListNotations.
Open Scope list_scope.
Open Scope N_scope.
Require Import ZifyBool ZifyN ZifyNat.
Ltac Zify.zify_post_hook ::= Z.div_mod_to_equations.
Arguments N.add : simpl never. Arguments N.sub : simpl never. Arguments N.mul : simpl never.
Arguments N.div : simpl never. Arguments N.modulo : simpl never. Arguments N.pow : simpl never.
Arguments N.leb : simpl never. Arguments N.ltb : simpl never. Arguments N.eqb : simpl never.
Arguments N.land : simpl never. Arguments N.lor : simpl never. Arguments N.shiftl : simpl never.
Arguments N.shiftr : simpl never. Arguments N.testbit : simpl never.

(* the bits and their count: everything the builders and the queries read besides the supports *)
Definition same_core (b b' : bitvec) : Prop := bv_ones b = bv_ones b' /\ bv_data b = bv_data b'.

Lemma same_core_refl b : same_core b b. Proof. split; reflexivity. Qed.
Lemma same_core_sym b b' : same_core b b' -> same_core b' b. Proof. intros [A B]. split; congruence. Qed.
Lemma same_core_trans a b c : same_core a b -> same_core b c -> same_core a c.
Proof. intros [A B] [C D]. split; congruence. Qed.

Section Core.
Variables b b' : bitvec.
Hypothesis H : same_core b b'.

Lemma core_len : bv_len b = bv_len b'.
Proof. destruct H as [_ Hd]. unfold bv_len. now rewrite Hd. Qed.
Lemma core_count t : t_count_ones t b = t_count_ones t b'.
Proof. destruct H as [Ho Hd]. destruct t; unfold t_count_ones, bv_count_ones, bv_count_zeros, bv_len; now rewrite ?Ho, ?Hd. Qed.
Lemma core_fuel : scan_fuel b = scan_fuel b'.
Proof. destruct H as [_ Hd]. unfold scan_fuel. now rewrite Hd. Qed.
Lemma core_word t i : t_word_unchecked t b i = t_word_unchecked t b' i.
Proof. destruct H as [_ Hd]. unfold t_word_unchecked, bv_len. now rewrite Hd. Qed.

Lemma core_rank_new : rank_new b = rank_new b'.
Proof. destruct H as [_ Hd]. unfold rank_new, bv_len. now rewrite Hd. Qed.

Lemma core_scan_fwd t fuel i w : scan_fwd t b fuel i w = scan_fwd t b' fuel i w.
Proof.
  revert i w. induction fuel as [|k IH]; intros i w; cbn [scan_fwd]; [reflexivity|].
  destruct (w =? 0); [|reflexivity]. rewrite core_word.
  destruct (t_word_unchecked t b' (i + 1)); cbn [bind]; auto.
Qed.

Lemma core_scan_rank t fuel i w rr : scan_rank t b fuel i w rr = scan_rank t b' fuel i w rr.
Proof.
  revert i w rr. induction fuel as [|k IH]; intros i w rr; cbn [scan_rank]; [reflexivity|].
  destruct (popcount w <=? rr); [|reflexivity]. rewrite core_word.
  destruct (t_word_unchecked t b' (i + 1)); cbn [bind]; auto.
Qed.

Lemma core_select_scan sp m t fuel wd v rr : select_scan sp m t b fuel wd v rr = select_scan sp m t b' fuel wd v rr.
Proof.
  revert wd v rr. induction fuel as [|k IH]; intros wd v rr; cbn [select_scan]; [reflexivity|].
  destruct (rr <? popcount v); [reflexivity|]. rewrite core_word.
  destruct (t_word_unchecked t b' (wd + 1)); cbn [bind]; auto.
Qed.

Lemma core_oi_next t it : oi_next_f t b it = oi_next_f t b' it.
Proof.
  unfold oi_next_f. destruct (fst (oi_limit it) <=? fst (oi_next it)); [reflexivity|].
  destruct (split_offset (snd (oi_next it))) as [index offset].
  rewrite core_word, core_fuel.
  destruct (t_word_unchecked t b' index); cbn [bind]; [|reflexivity|reflexivity].
  destruct (low_set_unchecked offset); cbn [bind]; [|reflexivity|reflexivity].
  now rewrite core_scan_fwd.
Qed.

Lemma core_oi_nth sp m t it n : oi_nth sp m t b it n = oi_nth sp m t b' it n.
Proof.
  unfold oi_nth. destruct (usub m (fst (oi_limit it)) (fst (oi_next it))); cbn [bind]; [|reflexivity|reflexivity].
  destruct (a <=? n); [reflexivity|].
  destruct (split_offset (snd (oi_next it))) as [index offset].
  rewrite core_word, core_fuel.
  destruct (t_word_unchecked t b' index); cbn [bind]; [|reflexivity|reflexivity].
  destruct (low_set_unchecked offset); cbn [bind]; [|reflexivity|reflexivity].
  now rewrite core_scan_rank.
Qed.

Lemma core_oi_start t : oi_start t b = oi_start t b'.
Proof. unfold oi_start. now rewrite core_count, core_len. Qed.

Lemma core_fill_long t n s1 long it v : fill_long t b n s1 long it v = fill_long t b' n s1 long it v.
Proof.
  revert long it v. induction n as [|k IH]; intros long it v; cbn [fill_long]; [reflexivity|].
  destruct (opt_unwrap v); cbn [bind]; [|reflexivity|reflexivity].
  destruct (iv_push long (snd a - s1)); cbn [bind]; [|reflexivity|reflexivity].
  rewrite core_oi_next. destruct (oi_next_f t b' it) as [[it' v']| |]; cbn [bind]; auto.
Qed.

Lemma core_fill_short sp m t n s1 short it v : fill_short sp m t b n s1 short it v = fill_short sp m t b' n s1 short it v.
Proof.
  revert short it v. induction n as [|k IH]; intros short it v; cbn [fill_short]; [reflexivity|].
  destruct (opt_unwrap v); cbn [bind]; [|reflexivity|reflexivity].
  destruct (iv_push short (snd a - s1)); cbn [bind]; [|reflexivity|reflexivity].
  rewrite core_oi_nth. destruct (oi_nth sp m t b' it (select_BLOCK_SIZE - 1)) as [[it' v']| |]; cbn [bind]; auto.
Qed.

Lemma core_ss_loop sp m t fuel log4 st : ss_loop sp m t b fuel log4 st = ss_loop sp m t b' fuel log4 st.
Proof.
  revert st. induction fuel as [|k IH]; intros st; cbn [ss_loop]; [reflexivity|].
  destruct (sb_sample st) as [start|]; [|reflexivity].
  rewrite core_oi_nth.
  destruct (oi_nth sp m t b' (sb_sample_iter st) (select_SUPERBLOCK_SIZE - 1)) as [[sit' ns]| |]; cbn [bind];
    [|reflexivity|reflexivity].
  rewrite core_count, core_len.
  destruct (iv_push (sb_samples st) (snd start)); cbn [bind]; [|reflexivity|reflexivity].
  match goal with |- (if ?c then _ else _) = _ => destruct c end.
  - match goal with |- bind ?e _ = _ => destruct e end; cbn [bind]; [|reflexivity|reflexivity].
    rewrite core_fill_long.
    match goal with |- bind ?e _ = _ => destruct e as [[[l' i'] v']| |] end; cbn [bind]; auto.
  - match goal with |- bind ?e _ = _ => destruct e end; cbn [bind]; [|reflexivity|reflexivity].
    rewrite core_fill_short.
    match goal with |- bind ?e _ = _ => destruct e as [[[l' i'] v']| |] end; cbn [bind]; auto.
Qed.

Lemma core_select_new sp m t : select_new sp m t b = select_new sp m t b'.
Proof.
  unfold select_new. rewrite core_len, core_oi_start, core_oi_next, core_count.
  destruct (oi_next_f t b' (oi_start t b')) as [[sit sample]| |]; cbn [bind]; [|reflexivity|reflexivity].
  now rewrite core_ss_loop.
Qed.

(* the queries read the core and their own support only *)
Lemma core_get i : bv_get b i = bv_get b' i.
Proof. destruct H as [_ Hd]. unfold bv_get. now rewrite Hd. Qed.

Lemma core_rank_q i : bv_rank b = bv_rank b' -> bv_rank_q b i = bv_rank_q b' i.
Proof.
  intros Hr. destruct H as [Ho Hd]. unfold bv_rank_q, bv_len, bv_count_ones, rank_unchecked. now rewrite Hr, Ho, Hd.
Qed.

Lemma core_select_unchecked sp m t s r : select_unchecked sp m t s b r = select_unchecked sp m t s b' r.
Proof.
  unfold select_unchecked.
  destruct (iv_get (ss_samples s) (2 * (r / select_SUPERBLOCK_SIZE))); cbn [bind]; [|reflexivity|reflexivity].
  destruct (N.land r select_SUPERBLOCK_MASK =? 0); [reflexivity|].
  match goal with |- bind ?e _ = _ => destruct e end; cbn [bind]; [|reflexivity|reflexivity].
  match goal with |- (if ?c then _ else _) = _ => destruct c end; [reflexivity|].
  match goal with |- bind ?e _ = _ => destruct e end; cbn [bind]; [|reflexivity|reflexivity].
  match goal with |- (if ?c then _ else _) = _ => destruct c end; [|reflexivity].
  match goal with |- (let '(_, _) := ?p in _) = _ => destruct p as [wd wo] end.
  rewrite core_word, core_fuel.
  destruct (t_word_unchecked t b' wd); cbn [bind]; [|reflexivity|reflexivity].
  destruct (low_set_unchecked wo); cbn [bind]; [|reflexivity|reflexivity].
  apply core_select_scan.
Qed.

Lemma core_select_q sp m t r : t_support t b = t_support t b' -> bv_select_t sp m t b r = bv_select_t sp m t b' r.
Proof.
  intros Hs. unfold bv_select_t. rewrite core_count, Hs.
  destruct (t_count_ones t b' <=? r); [reflexivity|].
  destruct (opt_unwrap (t_support t b')); cbn [bind]; [|reflexivity|reflexivity].
  now rewrite core_select_unchecked.
Qed.

End Core.

(* ------------------------------------------------------------------ fully enabled vectors and their restrictions *)

Definition no_supports (b : bitvec) : Prop := bv_rank b = None /\ bv_select b = None /\ bv_select_zero b = None.

(* bf carries all three supports, each the one its builder produces from the bits *)
Definition full_of (sp : selpath) (m : mode) (bf : bitvec) : Prop :=
  exists rs s1 s0,
    bv_rank bf = Some rs /\ bv_select bf = Some s1 /\ bv_select_zero bf = Some s0 /\
    rank_new bf = Ok rs /\ select_new sp m Identity bf = Ok s1 /\ select_new sp m Complement bf = Ok s0.

(* b has the bits of bf and some of its supports *)
Definition sub_of (b bf : bitvec) : Prop :=
  same_core b bf /\
  (bv_rank b = None \/ bv_rank b = bv_rank bf) /\
  (bv_select b = None \/ bv_select b = bv_select bf) /\
  (bv_select_zero b = None \/ bv_select_zero b = bv_select_zero bf).

Lemma enable_all_full sp m b0 bf :
  no_supports b0 -> bv_enable_all sp m b0 = Ok bf -> full_of sp m bf /\ same_core b0 bf.
Proof.
  intros [Hr [Hs Hz]] E. unfold bv_enable_all, bv_enable_rank in E. rewrite Hr in E.
  destruct (rank_new b0) as [rs| |] eqn:Er; cbn [bind] in E; try discriminate.
  rewrite Hs, Hz in E.
  unfold bv_enable_select_t at 1 in E. cbn [t_support bv_select] in E.
  rewrite (core_select_new (mkbv (bv_ones b0) (bv_data b0) (Some rs) None None) b0) in E by (split; reflexivity).
  destruct (select_new sp m Identity b0) as [s1| |] eqn:E1; cbn [bind] in E; try discriminate.
  cbn [bv_ones bv_data bv_rank bv_select_zero] in E.
  unfold bv_enable_select_t in E. cbn [t_support bv_select_zero] in E.
  rewrite (core_select_new (mkbv (bv_ones b0) (bv_data b0) (Some rs) (Some s1) None) b0) in E by (split; reflexivity).
  destruct (select_new sp m Complement b0) as [s0| |] eqn:E0; cbn [bind] in E; try discriminate.
  cbn [bv_ones bv_data bv_rank bv_select] in E. injection E as <-.
  set (bf := mkbv (bv_ones b0) (bv_data b0) (Some rs) (Some s1) (Some s0)).
  assert (C : same_core bf b0) by (split; reflexivity).
  split; [|apply same_core_sym; exact C].
  exists rs, s1, s0. cbn [bv_rank bv_select bv_select_zero bf].
  rewrite (core_rank_new bf b0 C), !(core_select_new bf b0 C). repeat split; assumption.
Qed.

Lemma sub_of_eq b1 b2 bf : sub_of b1 bf -> sub_of b2 bf -> bv_supports b1 = bv_supports b2 -> b1 = b2.
Proof.
  intros [[O1 D1] [R1 [S1 Z1]]] [[O2 D2] [R2 [S2 Z2]]] F.
  destruct b1 as [o1 d1 r1 s1 z1], b2 as [o2 d2 r2 s2 z2]. cbn [bv_ones bv_data bv_rank bv_select bv_select_zero] in *.
  unfold bv_supports in F. cbn [bv_rank bv_select bv_select_zero] in F.
  assert (o1 = o2) by congruence. assert (d1 = d2) by congruence. subst o2 d2.
  assert (r1 = r2).
  { destruct R1 as [->| ->], R2 as [->| ->]; try reflexivity;
      destruct (bv_rank bf); try reflexivity; destruct s1, s2, z1, z2; cbn in F; lia. }
  assert (s1 = s2).
  { destruct S1 as [->| ->], S2 as [->| ->]; try reflexivity;
      destruct (bv_select bf); try reflexivity; destruct r1, r2, z1, z2; cbn in F; lia. }
  assert (z1 = z2).
  { destruct Z1 as [->| ->], Z2 as [->| ->]; try reflexivity;
      destruct (bv_select_zero bf); try reflexivity; destruct r1, r2, s1, s2; cbn in F; lia. }
  congruence.
Qed.

Lemma sub_of_self sp m bf : full_of sp m bf -> sub_of bf bf /\ bv_supports bf = 7.
Proof.
  intros [rs [s1 [s0 [Hr [Hs [Hz _]]]]]]. split.
  - split; [apply same_core_refl|]. auto.
  - unfold bv_supports. now rewrite Hr, Hs, Hz.
Qed.

Lemma sub_of_full sp m b bf : full_of sp m bf -> sub_of b bf -> bv_supports b = 7 -> b = bf.
Proof.
  intros Hf Hs F. destruct (sub_of_self sp m bf Hf) as [Hs' F']. apply (sub_of_eq b bf bf); congruence.
Qed.

Lemma restrict_sub sp m s bf : full_of sp m bf -> s < 8 ->
  sub_of (bv_restrict s bf) bf /\ bv_supports (bv_restrict s bf) = s.
Proof.
  intros [rs [s1 [s0 [Hr [Hs [Hz _]]]]]] Hlt. split.
  - split; [split; reflexivity|]. unfold bv_restrict. cbn [bv_rank bv_select bv_select_zero].
    repeat split; match goal with |- context [N.testbit s ?k] => destruct (N.testbit s k) end; auto.
  - unfold bv_supports, bv_restrict. cbn [bv_rank bv_select bv_select_zero]. rewrite Hr, Hs, Hz.
    assert (C : s = 0 \/ s = 1 \/ s = 2 \/ s = 3 \/ s = 4 \/ s = 5 \/ s = 6 \/ s = 7) by lia.
    destruct C as [->|[->|[->|[->|[->|[->|[->| ->]]]]]]]; reflexivity.
Qed.

(* one enable_* call on a vector that has some of bf's supports: it gains exactly that support, bf's one *)
Lemma enable_op_sub sp m op b bf :
  full_of sp m bf -> sub_of b bf -> op < 3 ->
  exists b', bv_enable_op sp m op b = Ok b' /\ sub_of b' bf /\ bv_supports b' = N.lor (bv_supports b) (2 ^ op).
Proof.
  intros [rs [s1 [s0 [Hr [Hs [Hz [Er [E1 E0]]]]]]]] [C [R [S Z]]] Hop.
  assert (Cs : op = 0 \/ op = 1 \/ op = 2) by lia.
  unfold bv_enable_op.
  destruct Cs as [->|[->| ->]]; cbn [N.eqb Pos.eqb].
  - (* rank *)
    change (0 =? 0) with true. cbv iota. unfold bv_enable_rank.
    destruct (bv_rank b) as [v|] eqn:Eb.
    + exists b. split; [reflexivity|]. split; [split; auto; rewrite Eb; auto|].
      unfold bv_supports. rewrite Eb. destruct (bv_select b), (bv_select_zero b); reflexivity.
    + rewrite (core_rank_new b bf C), Er. cbn [bind]. eexists. split; [reflexivity|]. split.
      * split; [exact C|]. cbn [bv_rank bv_select bv_select_zero]. rewrite Hr. auto.
      * unfold bv_supports. cbn [bv_rank bv_select bv_select_zero]. rewrite Eb.
        destruct (bv_select b), (bv_select_zero b); reflexivity.
  - (* select *)
    change (1 =? 0) with false. change (1 =? 1) with true. cbv iota. unfold bv_enable_select_t. cbn [t_support].
    destruct (bv_select b) as [v|] eqn:Eb.
    + exists b. split; [reflexivity|]. split; [split; auto; rewrite Eb; auto|].
      unfold bv_supports. rewrite Eb. destruct (bv_rank b), (bv_select_zero b); reflexivity.
    + rewrite (core_select_new b bf C), E1. cbn [bind]. eexists. split; [reflexivity|]. split.
      * split; [exact C|]. cbn [bv_rank bv_select bv_select_zero]. rewrite Hs. auto.
      * unfold bv_supports. cbn [bv_rank bv_select bv_select_zero]. rewrite Eb.
        destruct (bv_rank b), (bv_select_zero b); reflexivity.
  - (* select_zero *)
    change (2 =? 0) with false. change (2 =? 1) with false. cbv iota. unfold bv_enable_select_t. cbn [t_support].
    destruct (bv_select_zero b) as [v|] eqn:Eb.
    + exists b. split; [reflexivity|]. split; [split; auto; rewrite Eb; auto|].
      unfold bv_supports. rewrite Eb. destruct (bv_rank b), (bv_select b); reflexivity.
    + rewrite (core_select_new b bf C), E0. cbn [bind]. eexists. split; [reflexivity|]. split.
      * split; [exact C|]. cbn [bv_rank bv_select bv_select_zero]. rewrite Hz. auto.
      * unfold bv_supports. cbn [bv_rank bv_select bv_select_zero]. rewrite Eb.
        destruct (bv_rank b), (bv_select b); reflexivity.
Qed.

Definition ops_flags (ops : list N) (s : N) : N := fold_left (fun s op => N.lor s (2 ^ op)) ops s.

Lemma enable_ops_sub sp m ops b bf :
  full_of sp m bf -> sub_of b bf -> Forall (fun op => op < 3) ops ->
  exists b', bv_enable_ops sp m ops b = Ok b' /\ sub_of b' bf /\ bv_supports b' = ops_flags ops (bv_supports b).
Proof.
  intros Hf Hs Hops. revert b Hs. induction Hops as [|op t Hop Ht IH]; intros b Hs; cbn [bv_enable_ops ops_flags fold_left].
  - exists b. auto.
  - destruct (enable_op_sub sp m op b bf Hf Hs Hop) as [b1 [E1 [S1 F1]]]. rewrite E1. cbn [bind].
    destruct (IH b1 S1) as [b' [E' [S' F']]]. exists b'. rewrite <- F1. auto.
Qed.

(* idempotence: enabling a support that is present changes nothing *)
Lemma enable_op_idem sp m op b : op < 3 -> N.testbit (bv_supports b) op = true -> bv_enable_op sp m op b = Ok b.
Proof.
  intros Hop T. assert (Cs : op = 0 \/ op = 1 \/ op = 2) by lia.
  unfold bv_enable_op, bv_enable_rank, bv_enable_select_t, bv_supports in *.
  destruct Cs as [->|[->| ->]]; cbn [t_support];
    destruct (bv_rank b), (bv_select b), (bv_select_zero b); try reflexivity; discriminate T.
Qed.

(* the loader's view: a restriction of a vector that passes the loader's checks passes them too *)
Lemma restrict_ok s b : bv_ok b -> bv_ok (bv_restrict s b).
Proof.
  intros [Ho [Hl [Hr [R [S Z]]]]]. unfold bv_ok, bv_restrict. cbn [bv_ones bv_data bv_rank bv_select bv_select_zero].
  split; [exact Ho|]. split; [exact Hl|]. split; [exact Hr|]. split; [|split].
  - destruct (N.testbit s 0); [exact R|exact I].
  - destruct (N.testbit s 1); [exact S|exact I].
  - destruct (N.testbit s 2); [exact Z|exact I].
Qed.

(* a vector that has some of bf's supports passes the loader's checks when bf does *)
Lemma sub_ok b bf : bv_ok bf -> sub_of b bf -> bv_ok b.
Proof.
  intros [Ho [Hl [Hr [R [S Z]]]]] [[Co Cd] [Sr [Ss Sz]]]. unfold bv_ok. rewrite Co, Cd.
  split; [exact Ho|]. split; [exact Hl|]. split; [exact Hr|]. split; [|split].
  - destruct Sr as [->| ->]; [exact I|exact R].
  - destruct Ss as [->| ->]; [exact I|exact S].
  - destruct Sz as [->| ->]; [exact I|exact Z].
Qed.
