(* Every state reachable through the safe IntVector API satisfies the IntVector invariant - a width in 1..64,
   bit length = items * width, and the representation invariant of the underlying RawVector - for ARBITRARY
   arguments: each call either returns such a vector or panics (and the caller keeps the old vector).  So
   BitVector::from(RawVector::from(v)) of any reachable v satisfies [bv_repr], the hypothesis of C08_no_oob.
   In particular pop() (RawVector::pop_int) leaves no set bit behind the new length: the state after it is inside
   [raw_inv]. *)
From Coq Require Import NArith List Lia ZArith Bool.
Require Import SDS.Model.Mach SDS.Model.Bits SDS.Model.Raw SDS.Model.IntVec SDS.Model.BitVec SDS.Model.Hist
               SDS.Model.RawSafe SDS.Model.IntSafe SDS.gen.Consts.
Require Import SDS.Spec.BitSeq SDS.Spec.SeqSpec SDS.Proofs.BitsProof SDS.Proofs.RawProof SDS.Proofs.IntVecProof
               SDS.Proofs.BVCommon SDS.Proofs.RankProof SDS.Proofs.SelectProof SDS.Proofs.NoOobProof SDS.Proofs.BVFull
               SDS.Proofs.RawReach.
Import ListNotations.
Open Scope N_scope.
Require Import ZifyBool ZifyN ZifyNat.
Ltac Zify.zify_post_hook ::= Z.div_mod_to_equations.
Arguments N.add : simpl never. Arguments N.sub : simpl never. Arguments N.mul : simpl never.
Arguments N.eqb : simpl never. Arguments N.ltb : simpl never. Arguments N.leb : simpl never.
Arguments N.pow : simpl never. Arguments N.div : simpl never. Arguments N.modulo : simpl never.

Lemma width_ok_spec w : width_ok w = true <-> 1 <= w <= 64.
Proof. unfold width_ok. change bits_WORD_BITS with 64. lia. Qed.

Lemma iv_with_len_rejects len w value : ~ (1 <= w <= 64) -> iv_with_len len w value = None.
Proof.
  intros H. unfold iv_with_len. destruct (width_ok w) eqn:E; [|reflexivity].
  apply width_ok_spec in E. contradiction.
Qed.

(* IntVector::new(w): Some exactly for the widths 1..64, and the empty vector is inside the invariant *)
Lemma iv_new_inv w v0 : iv_new w = Some v0 -> iv_inv v0 /\ iwidth v0 = w /\ ilen v0 = 0.
Proof.
  unfold iv_new. destruct (width_ok w) eqn:E; [|discriminate]. intros H. inversion H; subst v0.
  apply width_ok_spec in E. destruct (iv_empty_ok w E) as [Hi _]. auto.
Qed.

(* one safe call, any argument: a new vector inside the invariant, or a panic of the stated kind *)
Theorem istep_inv v o : iv_inv v -> iop_safe o ->
  (exists v' x, istep v o = Ok (v', x) /\ iv_inv v') \/
  (istep v o = Panic PAssert /\ exists i, ilen v <= i /\ (o = IGet i \/ exists x, o = ISet i x)) \/
  (istep v o = Panic PUnwrap /\ exists len w value, o = IWithLen len w value /\ ~ (1 <= w <= 64)).
Proof.
  intros Hinv Hs.
  destruct o as [len w value|w xs|i|i x|x| |n x| |a| |ys| ]; cbn [istep iop_safe] in *.
  - destruct (N.le_gt_cases 1 w) as [H1|H1]; [destruct (N.le_gt_cases w 64) as [H2|H2]|].
    + left. destruct (iv_with_len_ok len w value (conj H1 H2)) as (v' & E & Hi & _). rewrite E. cbn [bind]. eauto.
    + right. right. rewrite iv_with_len_rejects by lia. split; [reflexivity|]. exists len, w, value. split; [reflexivity|lia].
    + right. right. rewrite iv_with_len_rejects by lia. split; [reflexivity|]. exists len, w, value. split; [reflexivity|lia].
  - left. destruct (iv_from_ok w xs Hs) as (v' & E & Hi & _). rewrite E. cbn [bind]. eauto.
  - destruct (N.lt_ge_cases i (ilen v)) as [Hi|Hi].
    + left. rewrite iv_get_ok by assumption. cbn [bind]. eauto.
    + right. left. rewrite iv_get_rejects by assumption. cbn [bind]. split; [reflexivity|]. exists i. auto.
  - destruct (N.lt_ge_cases i (ilen v)) as [Hi|Hi].
    + left. destruct (iv_set_ok v i x Hinv Hi) as (v' & E & Hi' & _). rewrite E. cbn [bind]. eauto.
    + right. left. rewrite iv_set_rejects by assumption. cbn [bind]. split; [reflexivity|]. exists i. split; [exact Hi|]. right. eauto.
  - left. destruct (iv_push_ok v x Hinv) as (v' & E & Hi & _). rewrite E. cbn [bind]. eauto.
  - left. destruct (iv_pop_ok v Hinv) as (v' & E & Hi & _). rewrite E. cbn [bind]. eauto.
  - left. destruct (iv_resize_ok v n x Hinv) as (v' & E & Hi & _). rewrite E. cbn [bind]. eauto.
  - left. destruct (iv_clear_ok v Hinv) as [Hi _]. eauto.
  - left. unfold iv_reserve. eauto.
  - left. destruct (iv_pack_ok v Hinv) as (v' & E & Hi & _). rewrite E. cbn [bind]. eauto.
  - left. destruct (iv_extend_ok v ys Hinv) as (v' & E & Hi & _). rewrite E. cbn [bind]. eauto.
  - left. eauto.
Qed.

(* every history of safe calls, from any vector inside the invariant *)
Theorem isrun_inv ops : forall v, iv_inv v -> Forall iop_safe ops -> iv_inv (isrun v ops).
Proof.
  induction ops as [|o t IH]; intros v H Hs; [exact H|]. cbn [isrun].
  inversion Hs as [|o' t' Ho Ht]; subst.
  destruct (istep_inv v o H Ho) as [(v' & x & E & H')|[(E & _)|(E & _)]]; rewrite E; apply IH; assumption.
Qed.

Corollary intvec_reachable_inv w v0 ops :
  iv_new w = Some v0 -> Forall iop_safe ops -> iv_inv (isrun v0 ops).
Proof. intros H Hs. apply isrun_inv; [apply (iv_new_inv w v0 H)|exact Hs]. Qed.

(* a history in which every call returned ([irun] = Ok) is the history with the refused calls dropped *)
Lemma irun_isrun ops : forall v v' xs, irun v ops = Ok (v', xs) -> isrun v ops = v'.
Proof.
  induction ops as [|o t IH]; intros v v' xs H; cbn [irun isrun] in *.
  - inversion H. reflexivity.
  - destruct (istep v o) as [[v1 x]|k|s]; cbn [bind] in H; try discriminate.
    destruct (irun v1 t) as [[v2 ys]|k|s] eqn:E; cbn [bind] in H; try discriminate.
    inversion H; subst. apply (IH v1 v' ys E).
Qed.

Corollary irun_inv w v0 ops v' xs :
  iv_new w = Some v0 -> Forall iop_safe ops -> irun v0 ops = Ok (v', xs) -> iv_inv v'.
Proof. intros H Hs E. rewrite <- (irun_isrun ops v0 v' xs E). apply (intvec_reachable_inv w v0 ops H Hs). Qed.

(* the invariant, written out *)
Lemma intvec_reachable_inv_full w v0 ops :
  iv_new w = Some v0 -> Forall iop_safe ops ->
  let v := isrun v0 ops in
  1 <= iwidth v <= 64 /\ rlen (idata v) = ilen v * iwidth v /\ raw_inv (raw_of_iv v).
Proof. intros H Hs. exact (intvec_reachable_inv w v0 ops H Hs). Qed.

Lemma irun_inv_full w v0 ops v' xs :
  iv_new w = Some v0 -> Forall iop_safe ops -> irun v0 ops = Ok (v', xs) ->
  1 <= iwidth v' <= 64 /\ rlen (idata v') = ilen v' * iwidth v' /\ raw_inv (raw_of_iv v').
Proof. intros H Hs E. exact (irun_inv w v0 ops v' xs H Hs E). Qed.

(* BitVector::from(RawVector::from(v)) of a reachable v meets the hypotheses of the no-out-of-bounds theorem *)
Theorem intvec_reachable_bitvector sp m w v0 ops :
  iv_new w = Some v0 -> Forall iop_safe ops ->
  let r := raw_of_iv (isrun v0 ops) in rlen r < 2 ^ 64 ->
  bv_repr (bv_from_raw r) (abs_raw r) /\ NoOobProof.supports_ok sp m (bv_from_raw r) (abs_raw r).
Proof.
  intros H Hs r Hl. destruct (intvec_reachable_inv w v0 ops H Hs) as (_ & _ & Hr).
  split; [apply bv_from_raw_inv_repr; [exact Hr|exact Hl]|].
  apply NoOobProof.supports_ok_none; reflexivity.
Qed.

Theorem intvec_no_oob_reachable sp m w v0 ops :
  iv_new w = Some v0 -> Forall iop_safe ops ->
  let r := raw_of_iv (isrun v0 ops) in rlen r < 2 ^ 64 ->
  bv_repr (bv_from_raw r) (abs_raw r) /\
  zero_iter_w m (bv_from_raw r) = Ok (oi_start Complement (bv_from_raw r)) /\
  forall calls : list bv_call, forallb (fun c => negb (bv_call_oob sp m (bv_from_raw r) c)) calls = true.
Proof.
  intros H Hs r Hl. destruct (intvec_reachable_bitvector sp m w v0 ops H Hs Hl) as (H1 & H2).
  split; [exact H1|]. split; [apply (zero_iter_w_ok m _ _ H1)|].
  intros calls. apply forallb_forall. intros c _.
  rewrite (bv_call_no_oob sp m sp m (bv_from_raw r) (abs_raw r) c H1 H2). reflexivity.
Qed.

(* after pop() the bits of the popped item are gone from the last word: for every position at or beyond the new
   length the backing words read 0 (this is the part of the invariant the set / unset-bit scans rely on) *)
Theorem iv_pop_clears v v' x :
  iv_inv v -> iv_pop v = Ok (v', x) ->
  rlen (idata v') = ilen v' * iwidth v' /\
  lenN (rdata (idata v')) = bits_to_words (rlen (idata v')) /\
  forall p, rlen (idata v') <= p -> bit (rdata (idata v')) p = false.
Proof.
  intros Hinv E. destruct (iv_pop_ok v Hinv) as (v1 & E1 & (Hw & Hl & (Hn & _ & Hz)) & _).
  rewrite E in E1. inversion E1; subst v1. auto.
Qed.

(* why the invariant matters: the words a five-item all-ones 13-bit vector would keep if pop() dropped the length
   without clearing the popped item's bits *)
Theorem stale_bits_reach_oob :
  let r := mkraw 52 [2 ^ 64 - 1] in
  let b := bv_from_raw r in
  ~ raw_inv r /\ bv_ones b = 64 /\ bv_len b = 52 /\
  (exists it, zero_iter_w Release b = Ok it /\ oi_next_f Complement b it = OOB SITE_RAW_WORD) /\
  zero_iter_w Debug b = Panic POverflow /\
  (exists v, iv_with_len 5 13 (2 ^ 64 - 1) = Some (Ok v) /\
             rmap (fun p => idata (fst p)) (iv_pop v) = Ok (mkraw 52 [2 ^ 52 - 1])).
Proof.
  cbv zeta. split.
  { intros (_ & _ & Hz). assert (E : bit [2 ^ 64 - 1] 52 = false) by (apply (Hz 52); vm_compute; discriminate).
    vm_compute in E. discriminate E. }
  split; [vm_compute; reflexivity|]. split; [vm_compute; reflexivity|].
  split; [eexists; split; vm_compute; reflexivity|].
  split; [vm_compute; reflexivity|].
  eexists. split; vm_compute; reflexivity.
Qed.
