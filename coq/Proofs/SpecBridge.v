(* The three naive specifications say the same thing. A bit sequence B (Spec/BitSeq.v) is also described
     - by the increasing list of its set positions ones B in the universe |B|   (Spec/ValSeq.v, the sparse vector),
     - by the list of its maximal runs runs_of_bits B and the length |B|        (Spec/Runs.v, the run-length vector),
   and every query of the value-list and of the run-list specification on these descriptions equals the query of
   the bit-list specification on B: rank, select, select_zero, predecessor, successor, membership.
   Conversely the membership bits of an increasing position list P in [0, n) have exactly the set positions P.
   Pure specification-level lemmas: nothing here mentions a model. *)
From Coq Require Import NArith List Lia ZArith Bool.
Require Import SDS.Model.Mach SDS.Model.Convert.
Require Import SDS.Spec.BitSeq SDS.Spec.ValSeq SDS.Spec.BuilderSpec.
Require SDS.Spec.Runs.
Require Import SDS.Proofs.BVCommon SDS.Proofs.SparseSeq SDS.Proofs.ConvertProof.
Require SDS.Proofs.ConvertSparse SDS.Proofs.ConvertSource.
Import ListNotations.
Open Scope N_scope.
Require Import ZifyBool ZifyN ZifyNat.
Ltac Zify.zify_post_hook ::= Z.div_mod_to_equations.
Arguments N.add : simpl never. Arguments N.sub : simpl never. Arguments N.mul : simpl never.
Arguments N.eqb : simpl never. Arguments N.ltb : simpl never. Arguments N.leb : simpl never.
Arguments N.pow : simpl never. Arguments N.min : simpl never.

(* ================================================================ 1. the position list ones B *)

Lemma ones_from_ge B : forall pos p, In p (ones_from B pos) -> pos <= p.
Proof.
  induction B as [|b t IH]; intros pos p Hin; cbn [ones_from] in Hin; [contradiction|].
  destruct b; [destruct Hin as [<-|Hin]; [lia|]|]; specialize (IH _ _ Hin); lia.
Qed.

Lemma vs_rank_below l i : (forall p, In p l -> i <= p) -> vs_rank l i = 0.
Proof.
  induction l as [|v t IH]; intros Hl; [reflexivity|]. cbn [vs_rank].
  pose proof (Hl v (or_introl eq_refl)). replace (v <? i) with false by lia.
  rewrite IH by (intros p Hp; apply Hl; right; exact Hp). reflexivity.
Qed.

Lemma rank1_0 B : rank1 B 0 = 0.
Proof. destruct B; reflexivity. Qed.

Lemma vs_rank_ones_from B : forall pos i, vs_rank (ones_from B pos) i = rank1 B (i - pos).
Proof.
  induction B as [|b t IH]; intros pos i; [reflexivity|].
  destruct (N.le_gt_cases i pos) as [Hle|Hgt].
  - replace (i - pos) with 0 by lia. rewrite rank1_0. apply vs_rank_below.
    intros p Hp. apply ones_from_ge in Hp. lia.
  - cbn [ones_from rank1]. replace (i - pos =? 0) with false by lia.
    replace (i - pos - 1) with (i - (pos + 1)) by lia. destruct b; cbn [b2n].
    + cbn [vs_rank]. rewrite IH. replace (pos <? i) with true by lia. reflexivity.
    + rewrite IH. lia.
Qed.

(* rank *)
Theorem vs_rank_ones B i : vs_rank (ones B) i = rank1 B i.
Proof. unfold ones. rewrite vs_rank_ones_from. f_equal. lia. Qed.

(* select, predecessor, successor: the two specifications are the same expressions *)
Theorem vs_select_ones B r : vs_select (ones B) r = select1 B r.
Proof. reflexivity. Qed.
Theorem vs_pred_ones B v : hd_error (vs_pred (ones B) v) = pred1 B v.
Proof. reflexivity. Qed.
Theorem vs_succ_ones B v : hd_error (vs_succ (ones B) v) = succ1 B v.
Proof. reflexivity. Qed.
Theorem vs_ranked_ones B : vs_ranked (ones B) = ranked_ones B.
Proof. reflexivity. Qed.

(* membership *)
Theorem vs_get_ones B i : vs_get (ones B) i = bitB B i.
Proof. exact (existsb_ones B i). Qed.

(* select_zero *)
Lemma vsz_skip l pos n r : pos < n -> (forall p, In p l -> pos + 1 <= p) ->
  vs_select_zero_from l pos n r = if r =? 0 then Some pos else vs_select_zero_from l (pos + 1) n (r - 1).
Proof.
  intros Hn Hl. destruct l as [|v t]; cbn [vs_select_zero_from].
  - destruct (N.eqb_spec r 0) as [->|Hr].
    + replace (pos + 0 <? n) with true by lia. f_equal. lia.
    + replace (pos + 1 + (r - 1)) with (pos + r) by lia. reflexivity.
  - pose proof (Hl v (or_introl eq_refl)) as Hv. destruct (N.eqb_spec r 0) as [->|Hr].
    + replace (0 <? v - pos) with true by lia. f_equal. lia.
    + destruct (N.ltb_spec r (v - pos)).
      * replace (r - 1 <? v - (pos + 1)) with true by lia. f_equal. lia.
      * replace (r - 1 <? v - (pos + 1)) with false by lia. f_equal. lia.
Qed.

Lemma vsz_ones_from B : forall pos r,
  vs_select_zero_from (ones_from B pos) pos (pos + lenB B) r = nth_opt (ones_from (map negb B) pos) r.
Proof.
  induction B as [|b t IH]; intros pos r.
  - cbn [ones_from map vs_select_zero_from nth_opt]. unfold lenB. cbn [length].
    replace (pos + r <? pos + N.of_nat 0) with false by lia. reflexivity.
  - rewrite lenB_cons. replace (pos + (lenB t + 1)) with (pos + 1 + lenB t) by lia. destruct b; cbn [ones_from map negb].
    + cbn [vs_select_zero_from]. replace (r <? pos - pos) with false by lia.
      replace (r - (pos - pos)) with r by lia. apply IH.
    + rewrite vsz_skip by (try lia; intros p Hp; apply ones_from_ge in Hp; exact Hp).
      cbn [nth_opt]. destruct (r =? 0); [reflexivity|]. apply IH.
Qed.

Theorem vs_select_zero_ones B r : vs_select_zero (ones B) (lenB B) r = select0 B r.
Proof. unfold vs_select_zero, ones, select0, zeros. rewrite <- (vsz_ones_from B 0 r). f_equal. Qed.

(* the admissibility of ones B as input of the set builder, and its sortedness *)
Lemma incr_below_increasing ps : forall cur hi,
  ConvertSparse.incr_below cur hi ps -> increasing ps = true /\ all_below hi ps = true.
Proof.
  induction ps as [|p t IH]; intros cur hi Hi; [split; reflexivity|].
  cbn [ConvertSparse.incr_below] in Hi. destruct Hi as [H1 H2]. destruct (IH _ _ H2) as [I1 I2].
  pose proof (ConvertSparse.incr_below_count _ _ _ H2) as Hc. split.
  - destruct t as [|q t']; [reflexivity|]. cbn [ConvertSparse.incr_below] in H2. destruct H2 as [H3 _].
    change (increasing (p :: q :: t')) with ((p <? q) && increasing (q :: t')). rewrite I1.
    replace (p <? q) with true by lia. reflexivity.
  - unfold all_below in *. cbn [forallb]. rewrite I2. replace (p <? hi) with true by lia. reflexivity.
Qed.

Lemma ones_admissible B : increasing (ones B) = true /\ all_below (lenB B) (ones B) = true.
Proof.
  pose proof (ConvertSparse.ones_from_incr B 0) as Hi. rewrite N.add_0_l in Hi. exact (incr_below_increasing _ _ _ Hi).
Qed.

Lemma ones_sorted_lt B : sorted_lt (ones B).
Proof. apply increasing_sorted, ones_admissible. Qed.

Lemma ones_lenN B : lenN (ones B) = count B.
Proof. exact (ones_from_len B 0). Qed.

(* ================================================================ 2. the membership bits of a position list *)

Lemma incr_below_ge l : forall cur hi q, ConvertSparse.incr_below cur hi l -> In q l -> cur <= q.
Proof.
  induction l as [|p t IH]; intros cur hi q Hi Hin; [contradiction|]. cbn [ConvertSparse.incr_below] in Hi.
  destruct Hi as [H1 H2]. destruct Hin as [<-|Hin]; [exact H1|]. specialize (IH _ _ _ H2 Hin). lia.
Qed.

Lemma vs_get_not_in l i : (forall p, In p l -> i <> p) -> vs_get l i = false.
Proof.
  induction l as [|v t IH]; intros Hl; [reflexivity|]. unfold vs_get in *. cbn [existsb].
  pose proof (Hl v (or_introl eq_refl)). replace (i =? v) with false by lia.
  apply IH. intros p Hp. apply Hl. right. exact Hp.
Qed.

Lemma ones_from_range : forall (d : nat) j P, ConvertSparse.incr_below j (j + N.of_nat d) P ->
  ones_from (map (vs_get P) (rangeN j d)) j = P.
Proof.
  induction d as [|d IH]; intros j P Hi.
  - pose proof (ConvertSparse.incr_below_count _ _ _ Hi) as Hc. destruct P as [|p t]; [reflexivity|].
    unfold lenN in Hc. cbn [length] in Hc. lia.
  - cbn [rangeN map ones_from]. destruct P as [|p t].
    + cbn [vs_get existsb]. apply (IH (j + 1) []). cbn [ConvertSparse.incr_below]. lia.
    + cbn [ConvertSparse.incr_below] in Hi. destruct Hi as [H1 H2]. destruct (N.eq_dec p j) as [->|Hne].
      * replace (vs_get (j :: t) j) with true by (unfold vs_get; cbn [existsb]; rewrite N.eqb_refl; reflexivity).
        f_equal. rewrite <- (IH (j + 1) t) at 2 by (replace (j + 1 + N.of_nat d) with (j + N.of_nat (S d)) by lia; exact H2).
        f_equal. apply map_ext_in. intros i Hin. apply rangeN_ge in Hin. unfold vs_get. cbn [existsb].
        replace (i =? j) with false by lia. reflexivity.
      * replace (vs_get (p :: t) j) with false.
        2:{ symmetry. apply vs_get_not_in. intros q [<-|Hq]; [lia|]. pose proof (incr_below_ge _ _ _ _ H2 Hq). lia. }
        apply (IH (j + 1) (p :: t)). cbn [ConvertSparse.incr_below]. split; [lia|].
        replace (j + 1 + N.of_nat d) with (j + N.of_nat (S d)) by lia. exact H2.
Qed.

Lemma increasing_incr_below P : forall cur hi, increasing P = true -> all_below hi P = true ->
  match P with [] => cur <= hi | p :: _ => cur <= p end -> ConvertSparse.incr_below cur hi P.
Proof.
  induction P as [|p t IH]; intros cur hi Hi Hb Hc; [exact Hc|].
  cbn [ConvertSparse.incr_below]. split; [exact Hc|]. unfold all_below in Hb. cbn [forallb] in Hb.
  apply andb_prop in Hb. destruct Hb as [Hp Ht]. apply IH.
  - destruct t as [|q t']; [reflexivity|]. change (increasing (p :: q :: t')) with ((p <? q) && increasing (q :: t')) in Hi.
    apply andb_prop in Hi. apply Hi.
  - exact Ht.
  - destruct t as [|q t']; [lia|]. change (increasing (p :: q :: t')) with ((p <? q) && increasing (q :: t')) in Hi.
    apply andb_prop in Hi. destruct Hi as [Hpq _]. lia.
Qed.

Theorem ones_vs_bits P n : increasing P = true -> all_below n P = true -> ones (vs_bits P n) = P.
Proof.
  intros Hi Hb. unfold ones, vs_bits, N_range. rewrite <- (rangeN_seq 0). change (N.of_nat 0) with 0.
  apply ones_from_range. replace (0 + N.of_nat (N.to_nat n)) with n by lia.
  apply increasing_incr_below; [exact Hi|exact Hb|]. destruct P; lia.
Qed.

Lemma lenB_vs_bits P n : lenB (vs_bits P n) = n.
Proof. unfold lenB, vs_bits, N_range. rewrite !map_length, seq_length. lia. Qed.

(* the unset positions of the membership bits, ranked: the reference of ZeroIter in Spec/IterRefs.v *)
Lemma nth_opt_index_from {A} (l : list A) : forall i0 r,
  nth_opt (index_from l i0) r = match nth_opt l r with Some x => Some (i0 + r, x) | None => None end.
Proof.
  induction l as [|x t IH]; intros i0 r; [reflexivity|]. cbn [index_from nth_opt].
  destruct (N.eqb_spec r 0) as [->|Hr]; [do 2 f_equal; lia|]. rewrite IH.
  destruct (nth_opt t (r - 1)); [do 2 f_equal; lia|reflexivity].
Qed.

(* ================================================================ 3. the maximal runs runs_of_bits B *)

Lemma head_ge B pos : match runs_of_bits_from B pos with [] => True | r :: _ => pos <= fst r end.
Proof. destruct (runs_of_bits_from_ok B pos) as (_ & _ & _ & H). exact H. Qed.

Lemma runs_rank_from B : forall pos i, Runs.runs_rank (runs_of_bits_from B pos) i = rank1 B (i - pos).
Proof.
  induction B as [|b t IH]; intros pos i; [reflexivity|].
  cbn [runs_of_bits_from rank1]. pose proof (IH (pos + 1) i) as IH1. pose proof (head_ge t (pos + 1)) as Hh.
  destruct b; cbn [b2n].
  - destruct (runs_of_bits_from t (pos + 1)) as [|[s l] rest].
    + cbn [Runs.runs_rank] in *. unfold Runs.overlap. cbn [fst snd].
      destruct (N.eqb_spec (i - pos) 0) as [Hz|Hz]; [lia|].
      replace (i - pos - 1) with (i - (pos + 1)) by lia. rewrite <- IH1. lia.
    + cbn [fst] in Hh. cbn [Runs.runs_rank] in IH1. unfold Runs.overlap in IH1. cbn [fst snd] in IH1.
      destruct (N.eqb_spec s (pos + 1)) as [->|Hs]; cbn [Runs.runs_rank]; unfold Runs.overlap; cbn [fst snd].
      * destruct (N.eqb_spec (i - pos) 0) as [Hz|Hz].
        -- replace (i - (pos + 1)) with 0 in IH1 by lia. rewrite rank1_0 in IH1. lia.
        -- replace (i - pos - 1) with (i - (pos + 1)) by lia. rewrite <- IH1. lia.
      * destruct (N.eqb_spec (i - pos) 0) as [Hz|Hz].
        -- replace (i - (pos + 1)) with 0 in IH1 by lia. rewrite rank1_0 in IH1. lia.
        -- replace (i - pos - 1) with (i - (pos + 1)) by lia. rewrite <- IH1. lia.
  - rewrite IH1. destruct (N.eqb_spec (i - pos) 0) as [Hz|Hz].
    + replace (i - (pos + 1)) with 0 by lia. apply rank1_0.
    + replace (i - pos - 1) with (i - (pos + 1)) by lia. lia.
Qed.

Theorem runs_rank_bits B i : Runs.runs_rank (runs_of_bits B) i = rank1 B i.
Proof. unfold runs_of_bits. rewrite runs_rank_from. f_equal. lia. Qed.

Theorem runs_select_bits B r : Runs.runs_select (runs_of_bits B) r = select1 B r.
Proof. exact (ConvertSource.runs_select_bits B 0 r). Qed.

Lemma rsz_skip R pos L r : pos < L -> match R with [] => True | q :: _ => pos + 1 <= fst q end ->
  Runs.runs_select_zero_from pos R L r =
  if r =? 0 then Some pos else Runs.runs_select_zero_from (pos + 1) R L (r - 1).
Proof.
  intros HL Hh. destruct R as [|[s l] t]; cbn [Runs.runs_select_zero_from].
  - destruct (N.eqb_spec r 0) as [->|Hr].
    + replace (0 <? L - pos) with true by lia. f_equal. lia.
    + destruct (N.ltb_spec r (L - pos)).
      * replace (r - 1 <? L - (pos + 1)) with true by lia. f_equal. lia.
      * replace (r - 1 <? L - (pos + 1)) with false by lia. reflexivity.
  - cbn [fst] in Hh. destruct (N.eqb_spec r 0) as [->|Hr].
    + replace (0 <? s - pos) with true by lia. f_equal. lia.
    + destruct (N.ltb_spec r (s - pos)).
      * replace (r - 1 <? s - (pos + 1)) with true by lia. f_equal. lia.
      * replace (r - 1 <? s - (pos + 1)) with false by lia. f_equal. lia.
Qed.

Lemma rsz_from B : forall pos r,
  Runs.runs_select_zero_from pos (runs_of_bits_from B pos) (pos + lenB B) r = nth_opt (ones_from (map negb B) pos) r.
Proof.
  induction B as [|b t IH]; intros pos r.
  - cbn [runs_of_bits_from Runs.runs_select_zero_from map ones_from nth_opt]. unfold lenB. cbn [length].
    replace (r <? pos + N.of_nat 0 - pos) with false by lia. reflexivity.
  - rewrite lenB_cons. replace (pos + (lenB t + 1)) with (pos + 1 + lenB t) by lia.
    pose proof (IH (pos + 1) r) as IH1. pose proof (head_ge t (pos + 1)) as Hh.
    cbn [runs_of_bits_from map negb ones_from]. destruct b; cbn [negb].
    + rewrite <- IH1. destruct (runs_of_bits_from t (pos + 1)) as [|[s l] rest].
      * cbn [Runs.runs_select_zero_from]. replace (r <? pos - pos) with false by lia.
        replace (r - (pos - pos)) with r by lia. reflexivity.
      * cbn [fst] in Hh. destruct (N.eqb_spec s (pos + 1)) as [->|Hs]; cbn [Runs.runs_select_zero_from].
        -- replace (r <? pos - pos) with false by lia. replace (r <? pos + 1 - (pos + 1)) with false by lia.
           replace (pos + (l + 1)) with (pos + 1 + l) by lia. f_equal. lia.
        -- replace (r <? pos - pos) with false by lia. replace (r - (pos - pos)) with r by lia. reflexivity.
    + assert (Hh' : match runs_of_bits_from t (pos + 1) with [] => True | q :: _ => pos + 1 <= fst q end).
      { destruct (runs_of_bits_from t (pos + 1)); [exact I|exact Hh]. }
      rewrite (rsz_skip _ pos (pos + 1 + lenB t) r ltac:(lia) Hh').
      cbn [nth_opt]. destruct (r =? 0); [reflexivity|]. apply IH.
Qed.

Theorem runs_select_zero_bits B r : Runs.runs_select_zero (runs_of_bits B) (lenB B) r = select0 B r.
Proof. unfold Runs.runs_select_zero, runs_of_bits, select0, zeros. rewrite <- (rsz_from B 0 r). f_equal. Qed.

Lemma nth_opt_nthd l : forall k, nth_opt l k = if k <? lenN l then Some (nthd l k) else None.
Proof.
  induction l as [|x t IH]; intros k; [change (lenN (@nil N)) with 0; replace (k <? 0) with false by lia; reflexivity|].
  cbn [nth_opt]. rewrite lenN_cons, nthd_cons.
  destruct (N.eqb_spec k 0) as [->|Hk]; [replace (0 <? lenN t + 1) with true by lia; reflexivity|].
  rewrite IH. destruct (N.ltb_spec (k - 1) (lenN t)); [replace (k <? lenN t + 1) with true by lia|replace (k <? lenN t + 1) with false by lia]; reflexivity.
Qed.

Theorem runs_succ_bits B v : Runs.runs_succ (runs_of_bits B) v = succ1 B v.
Proof.
  unfold Runs.runs_succ. rewrite runs_rank_bits, runs_select_bits. unfold select1.
  rewrite <- vs_succ_ones, (vs_succ_eq _ v (sorted_lt_le _ (ones_sorted_lt B))), hd_skipN_ranked, vs_rank_ones.
  rewrite nth_opt_nthd. destruct (rank1 B v <? lenN (ones B)); reflexivity.
Qed.

Theorem runs_pred_bits B v : Runs.runs_pred (runs_of_bits B) v = pred1 B v.
Proof.
  unfold Runs.runs_pred. rewrite runs_rank_bits, runs_select_bits. unfold select1.
  rewrite <- vs_pred_ones, (vs_pred_eq _ v (sorted_lt_le _ (ones_sorted_lt B))), vs_rank_ones.
  destruct (rank1 B (v + 1) =? 0); [reflexivity|].
  rewrite hd_skipN_ranked, nth_opt_nthd. destruct (rank1 B (v + 1) - 1 <? lenN (ones B)); reflexivity.
Qed.

Theorem runs_get_bits B i : Runs.runs_get (runs_of_bits B) i = bitB B i.
Proof. destruct (runs_of_bits_ok B) as (_ & _ & H). exact (H i). Qed.

Lemma run_sum_rank R : forall from L, Runs.runs_sorted from R -> Forall (fun r => fst r + snd r <= L) R ->
  run_sum R = Runs.runs_rank R L.
Proof.
  induction R as [|[s l] t IH]; intros from L Hs Hw; [reflexivity|].
  cbn [Runs.runs_sorted] in Hs. destruct Hs as (H1 & H2 & H3). inversion Hw as [|? ? Hw1 Hw2]; subst. cbn [fst snd] in Hw1.
  cbn [run_sum Runs.runs_rank snd]. unfold Runs.overlap. cbn [fst snd]. rewrite <- (IH _ _ H3 Hw2). lia.
Qed.

Theorem runs_ones_bits B : Runs.runs_ones (runs_of_bits B) = count B.
Proof.
  rewrite ConvertSource.runs_ones_sum. destruct (runs_of_bits_ok B) as (R1 & R2 & R3).
  pose proof (runs_rank_bits B (lenB B)) as Hr. rewrite rank1_all in Hr by lia. rewrite <- Hr.
  apply (run_sum_rank _ 0); [|apply runs_within].
  apply ConvertSource.sorted_of_separated; [exact R1|exact R2|]. destruct (runs_of_bits B); [exact I|lia].
Qed.

(* the run list of B is a valid input of the RL builder and is already maximal *)
Theorem runs_of_bits_valid B :
  Runs.runs_sorted 0 (runs_of_bits B) /\ Runs.runs_end (runs_of_bits B) <= lenB B /\
  Runs.maximal (runs_of_bits B) = runs_of_bits B.
Proof.
  destruct (runs_of_bits_ok B) as (R1 & R2 & R3). split; [|split].
  - apply ConvertSource.sorted_of_separated; [exact R1|exact R2|]. destruct (runs_of_bits B); [exact I|lia].
  - apply ConvertSource.runs_end_within, runs_within.
  - apply ConvertSource.maximal_separated. exact R1.
Qed.
