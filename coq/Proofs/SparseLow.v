(* The low part of the sparse vector: IntVector::with_len(len, w, 0), set and get behave as a sequence of
   w-bit values. This discharges [low_contract] of Proofs/SparseBuild.v from the bit-level theorems about
   write_int / read_int (Proofs/BitsProof.v). *)
From Coq Require Import NArith List Lia ZArith Bool.
Require Import SDS.Model.Mach SDS.Model.Bits SDS.Model.Raw SDS.Model.IntVec SDS.Model.BitVec SDS.Model.Sparse.
Require Import SDS.Spec.BitSeq SDS.Spec.ValSeq SDS.Proofs.BitsProof SDS.Proofs.BVCommon SDS.Proofs.SparseSeq.
Require Import SDS.Proofs.SparseProof SDS.Proofs.SparseBuild SDS.gen.Consts.
Import ListNotations.
Open Scope N_scope.
Require Import ZifyBool ZifyN ZifyNat.
Ltac Zify.zify_post_hook ::= Z.div_mod_to_equations.
Arguments N.add : simpl never. Arguments N.sub : simpl never. Arguments N.mul : simpl never.
Arguments N.eqb : simpl never. Arguments N.ltb : simpl never. Arguments N.leb : simpl never.
Arguments N.pow : simpl never. Arguments N.shiftl : simpl never. Arguments N.shiftr : simpl never.
Arguments N.land : simpl never. Arguments N.lor : simpl never. Arguments N.div : simpl never.
Arguments N.modulo : simpl never. Arguments N.ones : simpl never. Arguments N.testbit : simpl never.

(* the representation invariant: enough 64-bit words, and the i-th field reads L[i] *)
Definition iv_seq (v : intvec) (w : N) (L : list N) : Prop :=
  ilen v = lenN L /\ iwidth v = w /\ 1 <= w <= 64 /\
  wf (rdata (idata v)) /\ lenN L * w <= 64 * lenN (rdata (idata v)) /\
  forall i, i < lenN L -> read_int (rdata (idata v)) (i * w) w = Ok (nthd L i).

Lemma field_in_range i len w words : 1 <= w -> i < len -> len * w <= 64 * words -> (i * w + w - 1) / 64 < words.
Proof. intros Hw Hi Hl. assert ((i + 1) * w <= len * w) by nia. assert (i * w + w - 1 < 64 * words) by nia. lia. Qed.

Lemma iv_seq_low_ok v w L : iv_seq v w L -> low_ok v w L.
Proof.
  intros [Hl [Hw [Hwr [Hwf [Hroom Hrd]]]]]. unfold low_ok. split; [exact Hl|]. split; [exact Hw|].
  intros i Hi. unfold iv_get. rewrite Hl. replace (i <? lenN L) with true by lia.
  unfold raw_int. rewrite Hw. replace (w =? 0) with false by lia. apply Hrd. exact Hi.
Qed.

(* two reads of the same field agree when the bits of the field agree *)
Lemma read_int_ext a b off w :
  wf a -> wf b -> 1 <= w <= 64 -> (off + w - 1) / 64 < lenN a -> lenN b = lenN a ->
  (forall k, k < w -> bit b (off + k) = bit a (off + k)) ->
  read_int b off w = read_int a off w.
Proof.
  intros Ha Hb Hw Hr Hlen Hbits.
  destruct (read_int_bits a off w 0 Ha Hw Hr) as [va [Hva _]].
  destruct (read_int_bits b off w 0 Hb Hw ltac:(rewrite Hlen; exact Hr)) as [vb [Hvb _]].
  rewrite Hva, Hvb. f_equal. apply N.bits_inj. intros k.
  destruct (read_int_bits a off w k Ha Hw Hr) as [va' [Hva' [_ Hka]]].
  destruct (read_int_bits b off w k Hb Hw ltac:(rewrite Hlen; exact Hr)) as [vb' [Hvb' [_ Hkb]]].
  assert (va' = va) by congruence. assert (vb' = vb) by congruence. subst va' vb'.
  rewrite Hka, Hkb. destruct (N.ltb_spec k w) as [Hk|Hk]; [|reflexivity]. cbn [andb]. apply Hbits. exact Hk.
Qed.

Lemma iv_seq_set v w L i x : iv_seq v w L -> i < lenN L -> x < 2 ^ w ->
  exists v', iv_set v i x = Ok v' /\ iv_seq v' w (setN L i x).
Proof.
  intros [Hl [Hw [Hwr [Hwf [Hroom Hrd]]]]] Hi Hx.
  unfold iv_set. rewrite Hl. replace (i <? lenN L) with true by lia.
  unfold raw_set_int. rewrite Hw. replace (w =? 0) with false by lia.
  pose proof (field_in_range i (lenN L) w _ ltac:(lia) Hi Hroom) as Hr.
  destruct (write_read (rdata (idata v)) (i * w) x w Hwf Hwr Hr) as [a' [Hwi [Hwf' [Hlen' [Hread Hout]]]]].
  rewrite Hwi. cbn [bind]. eexists. split; [reflexivity|].
  assert (HlenN : lenN a' = lenN (rdata (idata v))) by (unfold lenN; rewrite Hlen'; reflexivity).
  unfold iv_seq. cbn [ilen iwidth idata rdata]. rewrite lenN_setN.
  split; [first [exact Hl|reflexivity]|]. split; [first [exact Hw|reflexivity]|]. split; [exact Hwr|]. split; [exact Hwf'|].
  split; [rewrite HlenN; exact Hroom|].
  intros j Hj. destruct (N.eq_dec j i) as [->|Hne].
  - rewrite nthd_setN_eq by exact Hi. rewrite Hread. rewrite N.mod_small by exact Hx. reflexivity.
  - rewrite nthd_setN_neq by lia. rewrite <- (Hrd j Hj).
    pose proof (field_in_range j (lenN L) w _ ltac:(lia) Hj Hroom) as Hrj.
    apply read_int_ext; try assumption.
    intros k Hk. apply Hout. destruct (N.lt_ge_cases j i) as [Hlt|Hge].
    + assert ((j + 1) * w <= i * w) by nia. lia.
    + assert ((i + 1) * w <= j * w) by nia. lia.
Qed.

(* ---- with_len: pushing zeros *)

Definition zero_bits (a : list N) : Prop := forall p, bit a p = false.

Lemma getw_app_zero a i : getw (a ++ [0]) i = getw a i.
Proof.
  unfold getw. revert i. induction a as [|x t IH]; intros i.
  - cbn [app nthN]. destruct (i =? 0); reflexivity.
  - cbn [app nthN]. destruct (i =? 0); [reflexivity|apply IH].
Qed.
Lemma zero_bits_app a : zero_bits a -> zero_bits (a ++ [0]).
Proof. intros Hz p. unfold bit. rewrite getw_app_zero. apply Hz. Qed.
Lemma wf_app_zero a : wf a -> wf (a ++ [0]).
Proof. unfold wf. intros H. apply Forall_app. split; [exact H|constructor; [lia|constructor]]. Qed.
Lemma lenN_app1 {A} (a : list A) x : lenN (a ++ [x]) = lenN a + 1.
Proof. unfold lenN. rewrite app_length. cbn [length]. lia. Qed.

Definition zraw (r : raw) : Prop :=
  wf (rdata r) /\ zero_bits (rdata r) /\ lenN (rdata r) = (rlen r + 63) / 64.

Lemma zraw_push r w : zraw r -> 1 <= w <= 64 ->
  exists r', raw_push_int r 0 w = Ok r' /\ zraw r' /\ rlen r' = rlen r + w.
Proof.
  intros [Hwf [Hz Hl]] Hw. unfold raw_push_int. replace (w =? 0) with false by lia.
  unfold words_to_bits. change bits_WORD_BITS with 64.
  set (d0 := if lenN (rdata r) * 64 <? rlen r + w then rdata r ++ [0] else rdata r).
  assert (Hd0 : wf d0 /\ zero_bits d0 /\ lenN d0 = (rlen r + w + 63) / 64).
  { unfold d0. destruct (N.ltb_spec (lenN (rdata r) * 64) (rlen r + w)) as [Hlt|Hge].
    - split; [apply wf_app_zero; exact Hwf|]. split; [apply zero_bits_app; exact Hz|]. rewrite lenN_app1. lia.
    - split; [exact Hwf|]. split; [exact Hz|]. lia. }
  destruct Hd0 as [Hwf0 [Hz0 Hl0]].
  destruct (write_read d0 (rlen r) 0 w Hwf0 Hw ltac:(lia)) as [a' [Hwi [Hwf' [Hlen' [Hread Hout]]]]].
  rewrite Hwi. cbn [bind]. eexists. split; [reflexivity|]. cbn [rlen rdata].
  assert (HlenN : lenN a' = lenN d0) by (unfold lenN; rewrite Hlen'; reflexivity).
  split; [|reflexivity]. unfold zraw. cbn [rlen rdata]. split; [exact Hwf'|]. split; [|rewrite HlenN; exact Hl0].
  intros p. destruct (N.lt_ge_cases p (rlen r)) as [Hlo|Hhi]; [rewrite Hout by lia; apply Hz0|].
  destruct (N.lt_ge_cases p (rlen r + w)) as [Hin|Hout']; [|rewrite Hout by lia; apply Hz0].
  (* inside the written field: the value read back is 0 *)
  destruct (read_int_bits a' (rlen r) w (p - rlen r) Hwf' Hw ltac:(rewrite HlenN; lia)) as [v [Hv [_ Hb]]].
  rewrite Hread in Hv. rewrite N.mod_0_l in Hv by (apply N.pow_nonzero; lia). injection Hv as <-.
  rewrite N.bits_0 in Hb. replace (p - rlen r <? w) with true in Hb by lia. cbn [andb] in Hb.
  replace (rlen r + (p - rlen r)) with p in Hb by lia. symmetry. exact Hb.
Qed.

Lemma zraw_push_n k : forall r w, zraw r -> 1 <= w <= 64 ->
  exists r', push_n r k 0 w = Ok r' /\ zraw r' /\ rlen r' = rlen r + N.of_nat k * w.
Proof.
  induction k as [|k IH]; intros r w Hz Hw.
  - exists r. split; [reflexivity|]. split; [exact Hz|]. lia.
  - cbn [push_n]. destruct (zraw_push r w Hz Hw) as [r1 [Hp [Hz1 Hl1]]]. rewrite Hp. cbn [bind].
    destruct (IH r1 w Hz1 Hw) as [r' [Hp' [Hz' Hl']]]. exists r'. split; [exact Hp'|]. split; [exact Hz'|]. lia.
Qed.

Lemma nthd_repeatN k i : nthd (repeatN 0 k) i = 0.
Proof.
  unfold nthd. destruct (N.lt_ge_cases i (N.of_nat k)) as [H|H].
  - rewrite nthN_repeatN by exact H. reflexivity.
  - replace (nthN (repeatN 0 k) i) with (@None N); [reflexivity|]. symmetry. apply nthN_None_ge. rewrite lenN_repeatN. exact H.
Qed.

Lemma iv_seq_with_len len w : 1 <= w <= 64 ->
  exists v, iv_with_len len w 0 = Some (Ok v) /\ iv_seq v w (repeatN 0 (N.to_nat len)).
Proof.
  intros Hw. unfold iv_with_len, width_ok. change bits_WORD_BITS with 64.
  replace (w =? 0) with false by lia. replace (64 <? w) with false by lia. cbn [orb negb].
  assert (Hz0 : zraw raw_new).
  { unfold zraw, raw_new. cbn [rdata rlen]. split; [constructor|]. split; [|reflexivity].
    intros p. unfold bit, getw. cbn [nthN]. apply N.bits_0. }
  destruct (zraw_push_n (N.to_nat len) raw_new w Hz0 Hw) as [r [Hp [[Hwf [Hz Hl]] Hrl]]].
  rewrite Hp. cbn [bind]. eexists. split; [reflexivity|].
  cbn [rlen raw_new] in Hrl. rewrite N2Nat.id in Hrl.
  unfold iv_seq. cbn [ilen iwidth idata]. rewrite lenN_repeatN, N2Nat.id.
  split; [reflexivity|]. split; [reflexivity|]. split; [exact Hw|]. split; [exact Hwf|].
  split; [rewrite Hl, Hrl; lia|].
  intros i Hi. rewrite nthd_repeatN.
  pose proof (field_in_range i len w (lenN (rdata r)) ltac:(lia) Hi ltac:(rewrite Hl, Hrl; lia)) as Hr.
  destruct (read_int_bits (rdata r) (i * w) w 0 Hwf Hw Hr) as [v [Hv _]]. rewrite Hv. f_equal.
  apply N.bits_inj_0. intros k.
  destruct (read_int_bits (rdata r) (i * w) w k Hwf Hw Hr) as [v' [Hv' [_ Hb]]].
  assert (v' = v) by congruence. subst v'. rewrite Hb, Hz. apply andb_false_r.
Qed.

Theorem low_contract_holds : low_contract.
Proof.
  exists iv_seq. split; [exact iv_seq_with_len|]. split; [exact iv_seq_set|exact iv_seq_low_ok].
Qed.
