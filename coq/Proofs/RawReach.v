(* Every state reachable through the safe RawVector API satisfies the representation invariant the C08 theorems
   assume, for ARBITRARY arguments: each safe call either returns a vector satisfying [raw_inv] or panics (and the
   caller keeps the old vector).  So From<RawVector> of any reachable vector satisfies [bv_repr], the hypothesis of
   C08_no_oob.  With set_bit as it was before the repair 7337be0 this is false (finding F13): a bit set in the unused
   part of the last word makes count_ones exceed the length, count_zeros wraps in release builds, and the iterator
   over unset bits walks off the word array. *)
From Coq Require Import NArith List Lia ZArith Bool.
Require Import SDS.Model.Mach SDS.Model.Bits SDS.Model.Raw SDS.Model.BitVec SDS.Model.RawSafe.
Require Import SDS.Spec.BitSeq SDS.Proofs.BitsProof SDS.Proofs.RawProof SDS.Proofs.BVCommon SDS.Proofs.RankProof
               SDS.Proofs.SelectProof SDS.Proofs.NoOobProof SDS.Proofs.BVFull.
Import ListNotations.
Open Scope N_scope.
Require Import ZifyBool ZifyN ZifyNat.
Ltac Zify.zify_post_hook ::= Z.div_mod_to_equations.
Arguments N.add : simpl never. Arguments N.sub : simpl never. Arguments N.mul : simpl never.
Arguments N.eqb : simpl never. Arguments N.ltb : simpl never. Arguments N.leb : simpl never.
Arguments N.pow : simpl never. Arguments N.div : simpl never. Arguments N.modulo : simpl never.

(* one safe call, any argument: a new vector inside the invariant, or a panic of the stated kind *)
Theorem sstep_inv r o : raw_inv r ->
  (exists r', sstep r o = Ok r' /\ raw_inv r') \/
  (sstep r o = Panic PAssert /\ exists i b, o = SSetBit i b /\ rlen r <= i) \/
  (sstep r o = Panic PIndex /\
   ((exists i, o = SBit i /\ rlen r <= i) \/ (exists i, o = SWord i /\ bits_to_words (rlen r) <= i))).
Proof.
  intros Hinv. destruct o as [len value|n value| |a| |b| |i b|i|i|]; cbn [sstep].
  - left. destruct (raw_with_len_ok len value) as (r' & E & H & _). eauto.
  - left. destruct (raw_resize_ok r n value Hinv) as (r' & E & H & _). eauto.
  - left. eexists. split; [reflexivity|apply raw_clear_ok].
  - left. eexists. split; [reflexivity|exact Hinv].
  - left. destruct (raw_complement_ok r Hinv) as (r' & E & H & _). eauto.
  - left. destruct (raw_push_bit_ok r b Hinv) as (r' & E & H & _). eauto.
  - left. destruct (raw_pop_bit_ok r Hinv) as (r' & E & H & _). rewrite E. cbn [bind]. eauto.
  - destruct (N.lt_ge_cases i (rlen r)) as [Hi|Hi].
    + left. destruct (raw_set_bit_ok r i b Hinv Hi) as (r' & E & H & _). eauto.
    + right. left. split; [apply raw_set_bit_beyond; exact Hi|eauto].
  - destruct (N.lt_ge_cases i (rlen r)) as [Hi|Hi].
    + left. rewrite (raw_bit_ok r i Hinv Hi). cbn [bind]. eauto.
    + destruct (ok_or_raw_bit r i) as [[x E]|E]; rewrite E; cbn [bind]; [left; eauto|].
      right. right. split; [reflexivity|]. left. eauto.
  - pose proof Hinv as (Hl & _ & _). unfold raw_word.
    destruct (N.lt_ge_cases i (lenN (rdata r))) as [Hi|Hi].
    + rewrite idx_getw by exact Hi. cbn [bind]. left. eexists. split; [reflexivity|exact Hinv].
    + rewrite idx_panics by exact Hi. cbn [bind]. right. right. split; [reflexivity|]. right. exists i.
      split; [reflexivity|]. rewrite <- Hl. exact Hi.
  - left. eauto.
Qed.

(* every history of safe calls, from any vector inside the invariant *)
Theorem srun_inv ops : forall r, raw_inv r -> raw_inv (srun r ops).
Proof.
  induction ops as [|o t IH]; intros r H; [exact H|]. cbn [srun].
  destruct (sstep_inv r o H) as [(r' & E & H')|[(E & _)|(E & _)]]; rewrite E; apply IH; assumption.
Qed.

Corollary reachable_inv ops : raw_inv (srun raw_new ops).
Proof. apply srun_inv, raw_new_ok. Qed.

(* From<RawVector> of a reachable vector meets the hypotheses of the no-out-of-bounds theorem *)
Theorem reachable_bitvector sp m ops :
  let r := srun raw_new ops in rlen r < 2 ^ 64 ->
  bv_repr (bv_from_raw r) (abs_raw r) /\ NoOobProof.supports_ok sp m (bv_from_raw r) (abs_raw r).
Proof.
  intros r Hl. split; [apply bv_from_raw_inv_repr; [apply reachable_inv|exact Hl]|].
  apply NoOobProof.supports_ok_none; reflexivity.
Qed.

(* inside the invariant the compiled count_zeros is the exact one *)
Lemma zero_iter_w_ok m b B : bv_repr b B -> zero_iter_w m b = Ok (oi_start Complement b).
Proof.
  intros H. destruct (bv_counts_correct b B H) as (Hl & Hc & _). unfold zero_iter_w.
  assert (bv_ones b <= bv_len b).
  { unfold bv_count_ones in Hc. rewrite Hc, Hl. apply count_le_length. }
  unfold usub. replace (bv_ones b <=? bv_len b) with true by lia. reflexivity.
Qed.

(* finding F13: RawVector::with_len(1, false); set_bit(0, true); set_bit(1, true) *)
Definition f13_ops : list sop := [SWithLen 1 false; SSetBit 0 true; SSetBit 1 true].

Theorem set_bit_old_refuted :
  let r := srun_old raw_new f13_ops in
  let b := bv_from_raw r in
  r = mkraw 1 [3] /\ ~ raw_inv r /\ bv_ones b = 2 /\ bv_len b = 1 /\
  (exists it, zero_iter_w Release b = Ok it /\ oi_next_f Complement b it = OOB SITE_RAW_WORD) /\
  zero_iter_w Debug b = Panic POverflow /\
  (* the repaired set_bit refuses the second call; the state stays inside the invariant *)
  sstep (mkraw 1 [1]) (SSetBit 1 true) = Panic PAssert /\
  srun raw_new f13_ops = mkraw 1 [1].
Proof.
  cbv zeta. split; [vm_compute; reflexivity|]. split.
  { intros (_ & _ & Hz). assert (E : bit [3] 1 = false) by (apply (Hz 1); vm_compute; discriminate).
    vm_compute in E. discriminate E. }
  split; [vm_compute; reflexivity|]. split; [vm_compute; reflexivity|].
  split; [eexists; split; vm_compute; reflexivity|].
  split; vm_compute; [reflexivity|]. split; reflexivity.
Qed.
