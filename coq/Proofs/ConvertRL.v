(* C11, concrete RLVector (Model/RL.v): the block encoding written by the builder is a function of the list of
   flushed runs only. The concrete builder state after any history of calls is the abstract state of
   Model/Builders.v (len, ones, tail, active run) together with [enc_runs] of the abstract run list, or the
   failure of [enc_runs]; hence two histories that present the same bit set and length build the same RLVector
   (same samples, same code units, same indexes), or fail in the same way. *)
From Coq Require Import NArith List Lia ZArith Bool.
Require Import SDS.Model.Mach SDS.Model.Bits SDS.Model.Raw SDS.Model.IntVec SDS.Model.RL.
Require Import SDS.Model.Builders SDS.Model.Convert SDS.gen.Consts SDS.gen.Funs.
Require Import SDS.Spec.BitSeq SDS.Spec.BuilderSpec.
Require Import SDS.Proofs.BVCommon SDS.Proofs.BuildersProof SDS.Proofs.ConvertProof.
Import ListNotations.
Open Scope N_scope.
Require Import ZifyBool ZifyN ZifyNat.
Ltac Zify.zify_post_hook ::= Z.div_mod_to_equations.
Arguments N.add : simpl never. Arguments N.sub : simpl never. Arguments N.mul : simpl never.
Arguments N.eqb : simpl never. Arguments N.ltb : simpl never. Arguments N.leb : simpl never.
Arguments N.pow : simpl never.

(* ---- the encoder: what flush writes for one run ---- *)

(* samples and code units *)
Definition enc : Type := (list (N * N) * intvec)%type.

(* the body of RLBuilder::flush for a non-empty active run: new tail, samples, data
   (a copy of the body of Model/RL.v rlb_flush; [rlb_flush_eq] below proves it is the same computation) *)
Definition flush_core (m : mode) (ones tail : N) (run : N * N) (samples : list (N * N)) (data : intvec)
  : res (N * enc) :=
  let* gap := usub m (fst run) tail in
  let* len1 := usub m (snd run) 1 in
  let* c1 := rl_code_len m gap in
  let* c2 := rl_code_len m len1 in
  let units_needed := c1 + c2 in
  let have := ilen data + units_needed in
  let room := lenN samples * rl_BLOCK_SIZE in
  let* (samples', data') :=
    if room <? have then
      let* d := iv_resize data room 0 in
      let* o := usub m ones (snd run) in
      Ok (samples ++ [(o, tail)], d)
    else Ok (samples, data) in
  let* d1 := rl_encode data' gap in
  let* d2 := rl_encode d1 len1 in
  let* tail' := uadd m (fst run) (snd run) in
  Ok (tail', (samples', d2)).

Ltac step_bind :=
  match goal with
  | |- context [bind ?x _] =>
    destruct x as [?v| |]; cbn [bind]; try reflexivity;
    try match goal with p : (_ * _)%type |- _ => destruct p end
  end.

Lemma rlb_flush_eq m b :
  rlb_flush m b =
  if snd (b_run b) <=? 0 then Ok b
  else let* x := flush_core m (b_ones b) (b_tail b) (b_run b) (b_samples b) (b_data b) in
       Ok (mkrlb (b_len b) (b_ones b) (fst x) (b_len b, 0) (fst (snd x)) (snd (snd x))).
Proof.
  unfold rlb_flush, flush_core, rlb_blocks. destruct (snd (b_run b) <=? 0); [reflexivity|].
  do 4 step_bind. cbv zeta.
  match goal with |- context [if ?c then _ else _] => destruct c end.
  - do 5 step_bind.
  - cbn [bind]. do 3 step_bind.
Qed.

(* the new tail is the end of the run *)
Lemma flush_core_tail m ones tail run samples data x :
  flush_core m ones tail run samples data = Ok x -> fst run + snd run <= MAXW -> fst x = fst run + snd run.
Proof.
  unfold flush_core. intros E Hb.
  rewrite (uadd_ok m _ _ Hb) in E.
  repeat match type of E with
  | bind ?y _ = _ => destruct y as [?v| |]; cbn [bind] in E; try discriminate;
                     try match goal with p : (_ * _)%type |- _ => destruct p end
  end.
  injection E as <-. reflexivity.
Qed.

(* the encoding of a list of runs flushed one after the other; [done] = the runs flushed before *)
Fixpoint enc_runs (m : mode) (done : list (N * N)) (E : enc) (rs : list (N * N)) : res enc :=
  match rs with
  | [] => Ok E
  | r :: t =>
    let* x := flush_core m (run_sum done + snd r) (last_end done) r (fst E) (snd E) in
    enc_runs m (done ++ [r]) (snd x) t
  end.

Lemma enc_runs_app m rs1 : forall done E rs2,
  enc_runs m done E (rs1 ++ rs2) = let* E' := enc_runs m done E rs1 in enc_runs m (done ++ rs1) E' rs2.
Proof.
  induction rs1 as [|r t IH]; intros done E rs2.
  - cbn [app enc_runs bind]. rewrite app_nil_r. reflexivity.
  - cbn [app enc_runs]. destruct (flush_core m _ _ r (fst E) (snd E)) as [x| |]; cbn [bind]; [|reflexivity|reflexivity].
    rewrite IH, <- app_assoc. reflexivity.
Qed.

(* ---- the concrete builder as a function of the abstract one ---- *)

Definition mkc (ab : rlb) (E : enc) : rlbuilder :=
  mkrlb (blen ab) (bones ab) (btail ab) (brun ab) (fst E) (snd E).

(* E0: the empty encoding RLBuilder::new() starts from *)
Definition conc (m : mode) (E0 : enc) (ab : rlb) : res rlbuilder :=
  let* E := enc_runs m [] E0 (bruns ab) in Ok (mkc ab E).

Definition flushed (ab : rlb) : rlb :=
  mkRL (blen ab) (bones ab) (ftail ab) (blen ab, 0) (bruns ab ++ pending ab).

Lemma bind_assoc {A B C} (r : res A) (f : A -> res B) (g : B -> res C) :
  (let* y := (let* x := r in f x) in g y) = (let* x := r in let* y := f x in g y).
Proof. destruct r; reflexivity. Qed.
Lemma bind_ret {A} (r : res A) : (let* x := r in Ok x) = r.
Proof. destruct r; reflexivity. Qed.

(* flush on the concrete state = the concrete state of the flushed abstract state *)
Lemma flush_sim m E0 ab : RLInv ab ->
  (let* cb := conc m E0 ab in rlb_flush m cb) = conc m E0 (flushed ab).
Proof.
  intros H. pose proof (i_run ab H) as H1. pose proof (i_tail_end ab H) as H3. pose proof (i_ones ab H) as H5.
  pose proof (rl_inv_bounds ab H) as (_ & Hb2 & _).
  unfold conc. cbn [flushed bruns]. rewrite enc_runs_app.
  destruct (enc_runs m [] E0 (bruns ab)) as [E| |]; cbn [bind]; [|reflexivity|reflexivity].
  rewrite rlb_flush_eq. unfold mkc. cbn [b_run b_ones b_tail b_samples b_data b_len app].
  unfold rl_abs, pending in H5. cbn [fst] in H5. unfold pending, ftail.
  destruct (N.eqb_spec (snd (brun ab)) 0) as [E0'|E0'].
  - replace (snd (brun ab) <=? 0) with true by lia. cbn [enc_runs bind]. unfold mkc, flushed, ftail.
    cbn [blen bones btail brun]. replace (snd (brun ab) =? 0) with true by lia.
    destruct (brun ab) as [r0 r1]. cbn [fst snd] in *. subst r1. replace r0 with (blen ab) by lia. reflexivity.
  - replace (snd (brun ab) <=? 0) with false by lia. cbn [enc_runs].
    rewrite run_sum_app in H5. cbn [run_sum] in H5.
    replace (run_sum (bruns ab) + snd (brun ab)) with (bones ab) by lia. rewrite <- H3.
    destruct (flush_core m (bones ab) (btail ab) (brun ab) (fst E) (snd E)) as [x| |] eqn:Ex; cbn [bind]; [|reflexivity|reflexivity].
    rewrite (flush_core_tail _ _ _ _ _ _ _ Ex) by lia. unfold mkc, flushed, ftail. cbn [blen bones btail brun].
    replace (snd (brun ab) =? 0) with false by lia. rewrite H1. reflexivity.
Qed.

(* one call of the concrete builder *)
Definition cop (o : rlop) : bop := match o with TrySet s l => BTrySet s l | SetLen n => BSetLen n end.
Definition cstep (m : mode) (cb : rlbuilder) (o : rlop) : res rlbuilder :=
  match o with
  | TrySet s l => rmap fst (rlb_try_set m cb s l)
  | SetLen n => rlb_set_len m cb n
  end.

Lemma bruns_next ab o : exists extra, bruns (rl_next ab o) = bruns ab ++ extra.
Proof.
  destruct o as [s l|k]; cbn [rl_next].
  - destruct (rl_spec_accepts (rl_abs ab) (TrySet s l) && negb (l =? 0)); [|exists []; rewrite app_nil_r; reflexivity].
    destruct (s =? blen ab); cbn [bruns]; [exists []; rewrite app_nil_r; reflexivity|eexists; reflexivity].
  - destruct (blen ab <? k); cbn [bruns]; [eexists; reflexivity|exists []; rewrite app_nil_r; reflexivity].
Qed.

Lemma step_sim m E0 ab o : RLInv ab -> rlop_wf o ->
  (let* cb := conc m E0 ab in cstep m cb o) = conc m E0 (rl_next ab o).
Proof.
  intros H Hw. pose proof (flush_sim m E0 ab H) as Hfl.
  pose proof (rl_inv_bounds ab H) as (Hb1 & Hb2 & Hb3).
  unfold conc in *. destruct (enc_runs m [] E0 (bruns ab)) as [E| |] eqn:EE; cbn [bind] in *.
  2:{ destruct (bruns_next ab o) as [extra ->]. rewrite enc_runs_app, EE. reflexivity. }
  2:{ destruct (bruns_next ab o) as [extra ->]. rewrite enc_runs_app, EE. reflexivity. }
  destruct o as [s l|k]; cbn [rlop_wf] in Hw; cbn [cstep rl_next].
  - destruct Hw as [Hws Hwl]. unfold rlb_try_set, rl_spec_accepts, rl_abs. cbn [snd]. unfold mkc at 1. cbn [b_len].
    destruct (N.ltb_spec s (blen ab)) as [Hs|Hs].
    { replace (blen ab <=? s) with false by lia. cbn [andb rmap bind fst]. rewrite EE. reflexivity. }
    replace (blen ab <=? s) with true by lia. cbn [andb].
    rewrite MAXU_val, (usub_ok m MAXW l) by lia. cbn [bind].
    destruct (N.ltb_spec (MAXW - l) s) as [Hm|Hm].
    { replace (s + l <=? MAXW) with false by lia. cbn [andb rmap bind fst]. rewrite EE. reflexivity. }
    replace (s + l <=? MAXW) with true by lia. cbn [andb].
    unfold rlb_set_run_unchecked. destruct (N.eqb_spec l 0) as [El|El].
    { subst l. replace (0 <=? 0) with true by lia. cbn [negb rmap bind fst]. rewrite EE. reflexivity. }
    replace (l <=? 0) with false by lia. cbn [negb]. unfold mkc at 1. cbn [b_len].
    destruct (N.eqb_spec s (blen ab)) as [E2|E2].
    + unfold mkc. cbn [b_len b_ones b_run b_tail b_samples b_data snd fst].
      rewrite (uadd_ok m (blen ab) l), (uadd_ok m (bones ab) l), (uadd_ok m (snd (brun ab)) l) by lia.
      cbn [bind rmap fst bruns]. rewrite EE. reflexivity.
    + rewrite Hfl. cbn [flushed bruns]. destruct (enc_runs m [] E0 (bruns ab ++ pending ab)) as [E'| |]; cbn [bind rmap]; [|reflexivity|reflexivity].
      unfold mkc, flushed. cbn [b_len b_ones b_run b_tail b_samples b_data blen bones btail brun].
      rewrite (uadd_ok m s l), (uadd_ok m (bones ab) l) by lia. reflexivity.
  - unfold rlb_set_len. unfold mkc at 1. cbn [b_len]. destruct (blen ab <? k).
    + rewrite Hfl. cbn [flushed bruns]. destruct (enc_runs m [] E0 (bruns ab ++ pending ab)) as [E'| |]; cbn [bind]; reflexivity.
    + rewrite EE. reflexivity.
Qed.

(* ---- histories ---- *)

Lemma rlb_run_cons_fst m cb o t :
  rmap fst (rlb_run m cb (cop o :: t)) = let* cb' := cstep m cb o in rmap fst (rlb_run m cb' t).
Proof.
  destruct o as [s l|k]; cbn [cop rlb_run cstep].
  - destruct (rlb_try_set m cb s l) as [[b' ok]| |]; cbn [bind rmap fst]; [|reflexivity|reflexivity].
    destruct (rlb_run m b' t) as [[b'' oks]| |]; reflexivity.
  - destruct (rlb_set_len m cb k) as [b'| |]; cbn [bind rmap]; [|reflexivity|reflexivity].
    destruct (rlb_run m b' t) as [[b'' oks]| |]; reflexivity.
Qed.

Lemma run_sim m E0 ops : forall ab, RLInv ab -> Forall rlop_wf ops ->
  (let* cb := conc m E0 ab in rmap fst (rlb_run m cb (map cop ops))) = conc m E0 (fold_left rl_next ops ab).
Proof.
  induction ops as [|o t IH]; intros ab H Hw.
  - cbn [map rlb_run fold_left rmap bind fst]. apply bind_ret.
  - apply Forall_tail in Hw. destruct Hw as [Hw Hw'].
    cbn [map fold_left]. rewrite <- (IH (rl_next ab o) (rl_next_inv ab o H Hw) Hw'), <- (step_sim m E0 ab o H Hw).
    rewrite bind_assoc. destruct (conc m E0 ab) as [cb| |]; cbn [bind]; [|reflexivity|reflexivity].
    apply rlb_run_cons_fst.
Qed.

Lemma rl_run_next m ops : forall b, RLInv b -> Forall rlop_wf ops ->
  rl_run m b ops = Ok (fold_left rl_next ops b) /\ RLInv (fold_left rl_next ops b).
Proof.
  induction ops as [|o t IH]; intros b H Hw; [split; [reflexivity|exact H]|].
  apply Forall_tail in Hw. destruct Hw as [Hw Hw']. cbn [fold_left]. rewrite rl_run_cons, (rl_step_eq m b o H Hw).
  cbn [bind]. exact (IH _ (rl_next_inv b o H Hw) Hw').
Qed.

(* RLVector::from after the flush *)
Definition rl_from_flushed (m : mode) (b : rlbuilder) : res rlvec :=
  let* rank_index := si_new m (map snd (b_samples b)) (b_len b) in
  let* select_index := si_new m (map fst (b_samples b)) (b_ones b) in
  let* select_zero_index := si_new m (map (fun s => snd s - fst s) (b_samples b)) (rlb_count_zeros b) in
  let max_value := snd (last (b_samples b) (0, 0)) in
  let* s0 := unwrap_opt (iv_with_capacity (2 * rlb_blocks b) (bit_len max_value)) in
  let* samples := push_samples s0 (b_samples b) in
  Ok (mkrl (b_len b) (b_ones b) rank_index select_index select_zero_index samples (b_data b)).

Lemma rl_from_eq m b : rl_from m b = let* b' := rlb_flush m b in rl_from_flushed m b'.
Proof. reflexivity. Qed.

(* the vector built by a history, as a function of the final abstract state *)
Definition build_of (m : mode) (ab : rlb) : res rlvec :=
  let* d := unwrap_opt (iv_new rl_CODE_SIZE) in
  let* b' := conc m ([], d) (flushed ab) in
  rl_from_flushed m b'.

Lemma rl_build_sim m ops : Forall rlop_wf ops ->
  rmap fst (rl_build m (map cop ops)) = build_of m (fold_left rl_next ops rl_init).
Proof.
  intros Hw. unfold rl_build, build_of, rlb_new.
  destruct (unwrap_opt (iv_new rl_CODE_SIZE)) as [d| |]; cbn [bind rmap]; [|reflexivity|reflexivity].
  destruct (rl_run_next m ops rl_init rl_inv_init Hw) as [_ Hinv].
  rewrite <- (flush_sim m ([], d) _ Hinv), <- (run_sim m ([], d) ops rl_init rl_inv_init Hw).
  change (conc m ([], d) rl_init) with (Ok (mkrlb 0 0 0 (0, 0) [] d)). cbn [bind].
  destruct (rlb_run m (mkrlb 0 0 0 (0, 0) [] d) (map cop ops)) as [[b oks]| |]; cbn [bind rmap fst]; [|reflexivity|reflexivity].
  rewrite rl_from_eq. destruct (rlb_flush m b) as [b'| |]; cbn [bind]; [|reflexivity|reflexivity].
  destruct (rl_from_flushed m b') as [v| |]; reflexivity.
Qed.

(* C11, concrete run-length vector: two histories that present the same bit set and end at the same length
   build the same RLVector (samples, code units, indexes), or fail in the same way *)
Theorem rl_encoding_canonical : forall (m : mode) (ops1 ops2 : list rlop),
  Forall rlop_wf ops1 -> Forall rlop_wf ops2 ->
  (forall p, in_runs (rl_accepted rl_spec_init ops1) p = in_runs (rl_accepted rl_spec_init ops2) p) ->
  snd (fold_left rl_spec_step ops1 rl_spec_init) = snd (fold_left rl_spec_step ops2 rl_spec_init) ->
  rmap fst (rl_build m (map cop ops1)) = rmap fst (rl_build m (map cop ops2)).
Proof.
  intros m ops1 ops2 Hw1 Hw2 Hbits Hlen.
  rewrite (rl_build_sim m ops1 Hw1), (rl_build_sim m ops2 Hw2).
  destruct (rl_builder_decomposition m ops1 ops2 Hw1 Hw2 Hbits Hlen) as (b1 & b2 & r & R1 & R2 & F1 & F2 & N1 & N2).
  destruct (rl_run_next m ops1 rl_init rl_inv_init Hw1) as [R1' I1].
  destruct (rl_run_next m ops2 rl_init rl_inv_init Hw2) as [R2' I2].
  assert (b1 = fold_left rl_next ops1 rl_init) by congruence.
  assert (b2 = fold_left rl_next ops2 rl_init) by congruence. subst b1 b2.
  set (a1 := fold_left rl_next ops1 rl_init) in *. set (a2 := fold_left rl_next ops2 rl_init) in *.
  rewrite (rl_finish_ok m a1 I1) in F1. rewrite (rl_finish_ok m a2 I2) in F2.
  assert (Eabs : bruns a1 ++ pending a1 = bruns a2 ++ pending a2).
  { unfold rl_spec_final, rl_abs in F1, F2. cbn [fst snd] in F1, F2. congruence. }
  assert (Ef : flushed a1 = flushed a2).
  { unfold flushed. unfold ftail. rewrite (last_end_flushed a1 I1), (last_end_flushed a2 I2), Eabs, N1, N2. reflexivity. }
  unfold build_of. rewrite Ef. reflexivity.
Qed.

(* ---- RLVector::copy_bit_vec: set_bit_unchecked on increasing positions is the accepted try_set(p, 1) ---- *)

Lemma set_run_len m cb p cb' :
  rlb_set_run_unchecked m cb p 1 = Ok cb' -> b_len cb <= p -> p + 1 <= MAXW -> b_len cb' = p + 1.
Proof.
  unfold rlb_set_run_unchecked. replace (1 <=? 0) with false by lia. intros E Hp Hm.
  destruct (N.eqb_spec p (b_len cb)) as [Ep|Ep].
  - rewrite (uadd_ok m (b_len cb) 1) in E by lia. cbn [bind] in E.
    destruct (uadd m (b_ones cb) 1); cbn [bind] in E; try discriminate.
    destruct (uadd m (snd (b_run cb)) 1); cbn [bind] in E; try discriminate.
    injection E as <-. cbn [b_len]. lia.
  - destruct (rlb_flush m cb) as [b1| |]; cbn [bind] in E; try discriminate.
    rewrite (uadd_ok m p 1) in E by lia. cbn [bind] in E.
    destruct (uadd m (b_ones b1) 1); cbn [bind] in E; try discriminate.
    injection E as <-. reflexivity.
Qed.

Lemma rmap_fst_cons {A B} (R : res (A * list B)) (ok : B) :
  rmap fst (let* (b'', oks) := R in Ok (b'', ok :: oks)) = rmap fst R.
Proof. destruct R as [[b'' oks]| |]; reflexivity. Qed.

Lemma bits_as_try_set m ps : forall cb rest, incr_below (b_len cb) MAXW ps ->
  rmap fst (rlb_run m cb (map BSetBit ps ++ rest)) =
  rmap fst (rlb_run m cb (map (fun p => BTrySet p 1) ps ++ rest)).
Proof.
  induction ps as [|p t IH]; intros cb rest Hi; [reflexivity|].
  cbn [incr_below] in Hi. destruct Hi as [Hp Hi]. pose proof (incr_below_le _ _ _ Hi) as Hm.
  cbn [map app rlb_run]. unfold rlb_try_set, rlb_set_bit_unchecked.
  replace (p <? b_len cb) with false by lia. rewrite MAXU_val, (usub_ok m MAXW 1) by (unfold MAXW; lia). cbn [bind].
  replace (MAXW - 1 <? p) with false by lia.
  destruct (rlb_set_run_unchecked m cb p 1) as [cb'| |] eqn:E; cbn [bind]; [|reflexivity|reflexivity].
  rewrite !rmap_fst_cons. apply IH. rewrite (set_run_len m cb p cb' E Hp Hm). exact Hi.
Qed.

Lemma rl_build_fst m ops :
  rmap fst (rl_build m ops) = let* b0 := rlb_new in let* b := rmap fst (rlb_run m b0 ops) in rl_from m b.
Proof.
  unfold rl_build. destruct rlb_new as [b0| |]; cbn [bind rmap]; [|reflexivity|reflexivity].
  destruct (rlb_run m b0 ops) as [[b oks]| |]; cbn [bind rmap fst]; [|reflexivity|reflexivity].
  destruct (rl_from m b); reflexivity.
Qed.

Lemma rl_copy_bit_vec_bits m B : lenB B <= MAXW ->
  rl_copy_bit_vec m (ones B) (lenB B) = rmap fst (rl_build m (map cop (ops_bits B))).
Proof.
  intros Hlen. unfold rl_copy_bit_vec.
  assert (E : forall r : res (rlvec * list bool), (let* (v, _) := r in Ok v) = rmap fst r).
  { intros r. destruct r as [[v o]| |]; reflexivity. }
  rewrite E, !rl_build_fst. unfold rlb_new.
  destruct (unwrap_opt (iv_new rl_CODE_SIZE)) as [d| |]; cbn [bind]; [|reflexivity|reflexivity].
  unfold ops_bits. rewrite map_app, map_map. cbn [map cop].
  rewrite bits_as_try_set; [reflexivity|]. cbn [b_len].
  pose proof (ones_from_incr B 0) as Hi. rewrite N.add_0_l in Hi. apply (incr_below_hi _ (lenB B)); assumption.
Qed.

(* C11, concrete run-length vector: every history that presents B (accepted runs = the set bits of B, final
   length |B|) builds exactly the vector that copy_bit_vec builds from (|B|, ones B), or fails in the same way *)
Theorem rl_copy_bit_vec_canonical : forall (m : mode) (B : list bool) (ops : list rlop),
  Forall rlop_wf ops ->
  (forall p, in_runs (rl_accepted rl_spec_init ops) p = bitB B p) ->
  snd (fold_left rl_spec_step ops rl_spec_init) = lenB B ->
  rmap fst (rl_build m (map cop ops)) = rl_copy_bit_vec m (ones B) (lenB B).
Proof.
  intros m B ops Hw Hbits Hlen.
  assert (HB : lenB B <= MAXW).
  { destruct (rl_builder_history_full m ops Hw) as (b & _ & _ & _ & _ & _ & _ & _ & _ & _ & _ & Hm & _). lia. }
  destruct (spec_ops_bits B HB) as (_ & _ & S3 & S4).
  rewrite (rl_copy_bit_vec_bits m B HB). apply rl_encoding_canonical; [exact Hw|exact (ops_bits_wf B HB)| |].
  - intros p. rewrite Hbits, S4. reflexivity.
  - rewrite Hlen, S3. reflexivity.
Qed.
