(* C08 for memory-mapped views: every accessor of a view that `new` returned stays inside the mapped file.
   Derived from Proofs/MappedProof.v ([any_file_no_panic]: on ANY file `new` is refused or returns a view whose
   borrowed element range lies inside the file, [ms_inside_backed] / [mb_inside_backed]: such a range reads back in
   full).  Reading through a view is [mem_read], which is [OOB SITE_MAP_WORD] when the range is not backed by the
   file; [safe r] (Proofs/NoOobProof.v) says a result is not an OOB value.
   Also here: the machine-level `get` of the integer-vector view ([im_get_w], Model/MappedGet.v) agrees with C13's
   [im_get] for every width <= 64; since the repair ed19660 `new` accepts no other width, so `get` is covered for
   every accepted view.  `new` as it was before ([im_new_nowidth]) is refuted: it did not look at the width
   element, and with a width >= 2^64 - 63 the wrapped `offset + width` selects the branch that indexes the 65-entry
   mask table with the width itself (finding F14). *)
From Coq Require Import NArith List Lia ZArith Bool.
Require Import SDS.Model.Mach SDS.Model.Bits SDS.Model.Raw SDS.Model.IntVec SDS.Model.Mapped SDS.Model.MappedGet.
Require Import SDS.gen.Consts.
Require Import SDS.Proofs.BitsProof SDS.Proofs.MappedProof SDS.Proofs.NoOobProof.
Import ListNotations.
Open Scope N_scope.
Require Import ZifyBool ZifyN ZifyNat.
Ltac Zify.zify_post_hook ::= Z.div_mod_to_equations.
Arguments N.add : simpl never. Arguments N.sub : simpl never. Arguments N.mul : simpl never.
Arguments N.eqb : simpl never. Arguments N.ltb : simpl never. Arguments N.leb : simpl never.
Arguments N.pow : simpl never. Arguments N.shiftl : simpl never. Arguments N.shiftr : simpl never.
Arguments N.land : simpl never. Arguments N.lor : simpl never. Arguments N.div : simpl never.
Arguments N.modulo : simpl never. Arguments N.ones : simpl never. Arguments N.testbit : simpl never.

(* ================================================================ what "no accessor leaves the file" means *)

Definition slice1_safe (s : mslice) : Prop := safe (ms_items1 s) /\ forall i, safe (ms_get1 s i).
Definition slice2_safe (s : mslice) : Prop := safe (ms_items2 s) /\ forall i, safe (ms_get2 s i).
Definition bytes_safe (b : mbytes) : Prop := safe (mb_bytes b) /\ forall i, safe (mb_get b i).
(* `int` is an unsafe fn with the documented precondition width <= 64 *)
Definition raw_safe (m : mode) (r : rmapper) : Prop :=
  (forall bo, safe (rm_bit r bo)) /\ (forall i, safe (rm_word r i)) /\
  (forall bo w, w <= 64 -> safe (rm_int_w m r bo w) /\ rm_int_w m r bo w = rm_int r bo w) /\
  safe (rm_count_ones r).
(* the words are reachable through AsRef<RawVectorMapper>; `get` for the widths the library writes *)
Definition int_safe (m : mode) (i : imapper) : Prop :=
  raw_safe m (im_data i) /\
  (im_width i <= 64 -> forall j, safe (im_get_w m i j) /\ im_get_w m i j = im_get m i j).

Fixpoint view_safe (m : mode) (v : view) : Prop :=
  match v with
  | VwVec s => slice1_safe s
  | VwPairs s => slice2_safe s
  | VwBytes b | VwStr b => bytes_safe b
  | VwRaw r => raw_safe m r
  | VwInt i => int_safe m i
  | VwOpt o => match mo_data o with Some v' => view_safe m v' | None => True end
  end.

(* ================================================================ slices and bytes *)

Lemma list_ind2 {A} (P : list A -> Prop) :
  P [] -> (forall a, P [a]) -> (forall a b t, P t -> P (a :: b :: t)) -> forall l, P l.
Proof. intros H0 H1 H2. fix IH 1. intros [|a [|b t]]; [exact H0|apply H1|apply H2, IH]. Qed.

Lemma lenN_pair_up l : lenN (pair_up l) = lenN l / 2.
Proof.
  induction l as [|a|a b t IH] using list_ind2; [reflexivity|reflexivity|].
  cbn [pair_up]. rewrite !lenN_cons, IH. lia.
Qed.

Lemma get_in_items {A} (d : list A) i : i < lenN d -> safe (idx_unchecked SITE_MAP_WORD d i).
Proof. intros H. rewrite idx_unchecked_idx by exact H. apply safe_idx. Qed.

Lemma slice1_inside_safe file s : ms_inside 1 file s -> slice1_safe s.
Proof.
  intros H. destruct (ms_inside_backed 1 file s H) as (l & E & Hl). unfold slice1_safe, ms_get1, ms_items1.
  rewrite E. split; [reflexivity|]. intros i. destruct (N.ltb_spec i (ms_len s)) as [Hi|Hi]; [|reflexivity].
  cbn [bind]. apply get_in_items. lia.
Qed.

Lemma slice2_inside_safe file s : ms_inside 2 file s -> slice2_safe s.
Proof.
  intros H. destruct (ms_inside_backed 2 file s H) as (l & E & Hl). unfold slice2_safe, ms_get2, ms_items2, rmap.
  rewrite E. cbn [bind]. split; [reflexivity|]. intros i.
  destruct (N.ltb_spec i (ms_len s)) as [Hi|Hi]; [|reflexivity].
  apply get_in_items. rewrite lenN_pair_up, Hl. lia.
Qed.

Lemma bytes_inside_safe file b : mb_inside file b -> bytes_safe b.
Proof.
  intros H. destruct (mb_inside_backed file b H) as (l & E & Hl). unfold bytes_safe, mb_get.
  rewrite E. split; [reflexivity|]. intros i. destruct (N.ltb_spec i (mb_len b)) as [Hi|Hi]; [|reflexivity].
  cbn [bind]. apply get_in_items. lia.
Qed.

(* ================================================================ read_int as compiled *)

(* inside the precondition of the unsafe fn nothing wraps: the machine-level function is Model/Bits.v's *)
Lemma read_int_w_eq m a bo w : w <= 64 -> read_int_w m a bo w = read_int a bo w.
Proof.
  intros Hw. unfold read_int_w, read_int. rewrite split_offset_spec. cbv iota beta.
  destruct (idx a (bo / 64)) as [w0|k|s]; cbn [bind]; try reflexivity.
  change bits_WORD_BITS with 64. change bits_OFFSET_MASK with 63.
  assert (Ho : bo mod 64 < 64) by (apply N.mod_lt; lia).
  rewrite uadd_ok by lia. cbn [bind].
  destruct (N.leb_spec (bo mod 64 + w) 64) as [E|E]; [reflexivity|].
  destruct (idx a (bo / 64 + 1)) as [w1|k|s]; cbn [bind]; try reflexivity.
  destruct (low_set_unchecked (N.land (bo mod 64 + w) 63)) as [ls|k|s]; cbn [bind]; try reflexivity.
  unfold ushl. replace (64 - bo mod 64 <? 64) with true by lia. reflexivity.
Qed.

Lemma safe_read_int_w m a bo w : w <= 64 -> safe (read_int_w m a bo w).
Proof. intros Hw. rewrite read_int_w_eq by exact Hw. exact (ok_or_safe _ _ (ok_or_read_int a bo w Hw)). Qed.

Lemma safe_umul m a b : safe (umul m a b).
Proof. unfold umul. destruct (_ <? _); [reflexivity|destruct m; reflexivity]. Qed.

(* ================================================================ the mappers *)

Lemma raw_inside_safe m file r : ms_inside 1 file (rm_data r) -> raw_safe m r.
Proof.
  intros H. destruct (slice1_inside_safe file _ H) as (Hi & Hg).
  destruct (ms_inside_backed 1 file _ H) as (d & E & _). change (ms_words 1 (rm_data r)) with (ms_items1 (rm_data r)) in E.
  unfold raw_safe. split; [|split; [|split]].
  - intros bo. unfold rm_bit. destruct (split_offset bo) as [index offset].
    apply safe_bind; [apply Hg|]. intros; reflexivity.
  - intros i. apply Hg.
  - intros bo w Hw. unfold rm_int_w, rm_int. destruct (w =? 0); [split; reflexivity|]. rewrite E.
    split; [apply safe_read_int_w, Hw|apply read_int_w_eq, Hw].
  - unfold rm_count_ones. rewrite E. reflexivity.
Qed.

Lemma int_inside_safe m file i : ms_inside 1 file (rm_data (im_data i)) -> int_safe m i.
Proof.
  intros H. pose proof (raw_inside_safe m file (im_data i) H) as Hr. split; [exact Hr|].
  intros Hw j. destruct Hr as (_ & _ & Hint & _). unfold im_get_w, im_get.
  destruct (j <? im_len i); [|split; reflexivity].
  destruct (umul m j (im_width i)) as [bo|k|s] eqn:E; cbn [bind].
  - apply Hint, Hw.
  - split; reflexivity.
  - pose proof (safe_umul m j (im_width i)) as Hs. rewrite E in Hs. discriminate Hs.
Qed.

Lemma view_inside_safe m file v : view_inside file v -> view_safe m v.
Proof.
  revert v. fix IH 1. intros [s|s|b|b|r|i|[[v'|] o d]]; cbn [view_inside view_safe mo_data].
  - apply slice1_inside_safe.
  - apply slice2_inside_safe.
  - apply bytes_inside_safe.
  - apply bytes_inside_safe.
  - apply raw_inside_safe.
  - apply int_inside_safe.
  - intros (_ & H). apply IH. exact H.
  - intros _. exact I.
Qed.

(* ANY file, ANY offset, every view type, both modes: refused, or a view inside the file all of whose accessors
   stay inside the file *)
Theorem no_oob_mapped : forall m t file offset,
  lenN file < 2 ^ 61 -> offset < 2 ^ 64 ->
  new_safe (view_new m t file offset) (fun v => view_inside file v /\ view_backed v /\ view_safe m v).
Proof.
  intros m t file offset Hf Ho. pose proof (any_file_no_panic m t file offset Hf Ho) as H.
  destruct (view_new m t file offset) as [v| | |]; cbn [new_safe] in *; try exact H.
  destruct H as (Hi & Hb & _). split; [exact Hi|]. split; [exact Hb|]. exact (view_inside_safe m file v Hi).
Qed.

(* ================================================================ `get` of every accepted integer-vector view *)

(* `get(j)` of the integer-vector view (directly or through options), EVERY j: not an OOB value, and it is C13's *)
Fixpoint view_get_safe (m : mode) (v : view) : Prop :=
  match v with
  | VwInt i => forall j, safe (im_get_w m i j) /\ im_get_w m i j = im_get m i j
  | VwOpt o => match mo_data o with Some v' => view_get_safe m v' | None => True end
  | _ => True
  end.

Lemma view_get_safe_of m v : view_safe m v -> view_int_widths v -> view_get_safe m v.
Proof.
  revert v. fix IH 1. intros [s|s|b|b|r|i|[[v'|] o d]]; cbn [view_safe view_int_widths view_get_safe mo_data];
    try (intros _ _; exact I).
  - intros (_ & Hg) Hw. apply Hg. lia.
  - apply IH.
Qed.

(* since the repair ed19660 `new` refuses a width element of 0 or above 64, so on ANY file `get` of an accepted
   view is covered for every index *)
Theorem no_oob_mapped_get : forall m t file offset,
  lenN file < 2 ^ 61 -> offset < 2 ^ 64 ->
  new_safe (view_new m t file offset) (fun v => view_int_widths v /\ view_get_safe m v).
Proof.
  intros m t file offset Hf Ho. pose proof (no_oob_mapped m t file offset Hf Ho) as H.
  pose proof (any_file_int_width m t file offset) as Hw.
  destruct (view_new m t file offset) as [v| | |]; cbn [new_safe] in *; try exact H.
  destruct H as (_ & _ & Hs). split; [exact Hw|exact (view_get_safe_of m v Hs Hw)].
Qed.

(* ================================================================ `new` before the repair ed19660 (finding F14) *)

(* the serialized Vec<u64> [2^64-1, 2^64-1, 0, 1, 5]: viewed as an integer vector at element 1 it has
   len = width = 2^64 - 1, an empty bit length, and one data word *)
Definition f14_file : list N := [5; 2 ^ 64 - 1; 2 ^ 64 - 1; 0; 1; 5].
Definition f14_view : imapper := mkim (2 ^ 64 - 1) (2 ^ 64 - 1) (mkrm 0 (mkms f14_file 4 1)).

Theorem int_get_wide_old_refuted :
  (forall m, im_new_nowidth m f14_file 1 = VOk f14_view) /\
  view_inside f14_file (VwInt f14_view) /\
  im_get_w Release f14_view (2 ^ 64 - 2) = OOB SITE_LOW_SET /\
  im_get_w Debug f14_view (2 ^ 64 - 2) = Panic POverflow /\
  (forall m, view_new m TyInt f14_file 1 = VErr InvalidData).
Proof.
  split; [intros []; reflexivity|]. split; [split; [reflexivity|vm_compute; discriminate]|].
  split; [vm_compute; reflexivity|]. split; [vm_compute; reflexivity|]. intros []; reflexivity.
Qed.
