(* C07, write direction for the core types: what the MODEL of the crate's serializers writes (Model/Ser.v,
   Model/SerBV.v: element vectors, RawVector, IntVector, BitVector with any subset of its support structures)
   is accepted by the reader written from SERIALIZATION.md (Spec/Format.v) and decodes to the content of the
   value. The byte-level encoders are tied to the element lists by the *_enc_elems lemmas of Proofs/SerTypes.v;
   [elems_of_le64] is the document's first sentence (8-byte little-endian elements) for those bytes. *)
From Coq Require Import NArith List Lia ZArith Bool.
Require Import SDS.Model.Mach SDS.Model.Bits SDS.Model.Raw SDS.Model.IntVec SDS.Model.BitVec SDS.Model.Ser SDS.Model.SerBV.
Require Import SDS.gen.Consts.
Require Import SDS.Spec.BitSeq SDS.Spec.SeqSpec SDS.Spec.Stream.
Require Import SDS.Proofs.BitsProof SDS.Proofs.RawProof SDS.Proofs.IntVecProof SDS.Proofs.SerProof SDS.Proofs.SerTypes.
Require SDS.Spec.Format SDS.Proofs.FormatProof.
Import ListNotations.
Open Scope N_scope.
Require Import ZifyBool ZifyN ZifyNat.
Ltac Zify.zify_post_hook ::= Z.div_mod_to_equations.
Arguments N.add : simpl never. Arguments N.sub : simpl never. Arguments N.mul : simpl never.
Arguments N.eqb : simpl never. Arguments N.ltb : simpl never. Arguments N.leb : simpl never.
Arguments N.pow : simpl never. Arguments N.shiftl : simpl never. Arguments N.shiftr : simpl never.
Arguments N.land : simpl never. Arguments N.lor : simpl never. Arguments N.div : simpl never.
Arguments N.modulo : simpl never. Arguments N.ones : simpl never. Arguments N.testbit : simpl never.

Module F := SDS.Spec.Format.
Module FP := SDS.Proofs.FormatProof.

(* ------------------------------------------------------------------ bytes -> elements *)

Lemma le_value_le_bytes k x : F.le_value (le_bytes k x) = x mod 256 ^ N.of_nat k.
Proof.
  revert x. induction k as [|k IH]; intros x.
  - cbn [le_bytes F.le_value]. change (256 ^ N.of_nat 0) with 1. rewrite N.mod_1_r. reflexivity.
  - cbn [le_bytes F.le_value]. rewrite IH, Nat2N.inj_succ, N.pow_succ_r'.
    rewrite N.mod_mul_r by (try apply N.pow_nonzero; lia). reflexivity.
Qed.

Lemma elems_of_le64 l : Forall (fun x => x < 2 ^ 64) l -> F.elems_of_bytes (flat_map le64 l) = Some l.
Proof.
  induction 1 as [|x t Hx Ht IH]; [reflexivity|].
  cbn [flat_map]. unfold le64 at 1. cbn [le_bytes app F.elems_of_bytes]. rewrite IH.
  change (F.le_value [x mod 256; x / 256 mod 256; x / 256 / 256 mod 256; x / 256 / 256 / 256 mod 256;
                      x / 256 / 256 / 256 / 256 mod 256; x / 256 / 256 / 256 / 256 / 256 mod 256;
                      x / 256 / 256 / 256 / 256 / 256 / 256 mod 256; x / 256 / 256 / 256 / 256 / 256 / 256 / 256 mod 256])
    with (F.le_value (le_bytes 8 x)).
  rewrite le_value_le_bytes. change (256 ^ N.of_nat 8) with (2 ^ 64). rewrite N.mod_small by exact Hx. reflexivity.
Qed.

Lemma bytes_ok_le64 l : F.bytes_ok (flat_map le64 l) = true.
Proof.
  induction l as [|x t IH]; [reflexivity|]. change (flat_map le64 (x :: t)) with (le64 x ++ flat_map le64 t).
  unfold F.bytes_ok in *. rewrite forallb_app. apply andb_true_intro. split; [|exact IH].
  unfold le64. cbn [le_bytes forallb]. repeat (apply andb_true_intro; split); try reflexivity; lia.
Qed.

Lemma file_ok_of_Forall l : Forall (fun x => x < 2 ^ 64) l -> F.file_ok l = true.
Proof. apply FP.file_ok_Forall. Qed.

Lemma Forall_of_file_ok l : F.file_ok l = true -> Forall (fun x => x < 2 ^ 64) l.
Proof.
  unfold F.file_ok. intros H. apply Forall_forall. intros x Hx. rewrite forallb_forall in H. specialize (H x Hx).
  unfold F.elem_ok in H. lia.
Qed.

(* ------------------------------------------------------------------ Vec<u64>, Vec<(u64,u64)> *)

Lemma conform_vec l : c_wf vec_u64_codec l ->
  F.elems_of_bytes (c_enc vec_u64_codec l) = Some (lenN l :: l) /\
  F.doc_valid_vec (lenN l :: l) = true /\ F.doc_content_vec (lenN l :: l) = Some l.
Proof.
  intros [Hf Hl]. cbn [vec_u64_codec vec_codec c_wf u64_codec] in Hf, Hl. unfold ISIZE_MAX in Hl.
  assert (Hlen : lenN l < 2 ^ 64) by (change bits_WORD_BYTES with 8 in Hl; lia).
  split.
  - rewrite vec_u64_enc_elems. apply elems_of_le64. constructor; assumption.
  - apply (FP.roundtrip_vec l); assumption.
Qed.

(* ------------------------------------------------------------------ RawVector *)

Lemma forallb_negb_nth l : (forall j, nth j l false = false) -> forallb negb l = true.
Proof.
  induction l as [|b t IH]; intros H; [reflexivity|]. cbn [forallb].
  pose proof (H 0%nat) as H0. cbn [nth] in H0. rewrite H0. cbn [negb andb]. apply IH. intros j. apply (H (S j)).
Qed.

Lemma nth_skipn_add {A} k (l : list A) j d : nth j (skipn k l) d = nth (k + j) l d.
Proof.
  revert l. induction k as [|k IH]; intros l; [reflexivity|].
  destruct l as [|x t]; [destruct j; reflexivity|]. cbn [skipn Nat.add nth]. apply IH.
Qed.

Lemma reads_raw_model r : raw_inv r -> FP.reads F.p_raw (raw_serialize r) (abs_raw r).
Proof.
  intros (Hl & Hwf & Hz). unfold raw_serialize, F.p_raw.
  change (rlen r :: lenN (rdata r) :: rdata r) with ([rlen r] ++ F.doc_encode_vec (rdata r)).
  eapply FP.reads_bind; [apply FP.reads_elem|].
  rewrite <- (app_nil_r (F.doc_encode_vec _)). eapply FP.reads_bind; [apply FP.reads_vec|].
  apply FP.reads_must.
  { change (F.lenN (rdata r)) with (lenN (rdata r)). rewrite Hl, bits_to_words_eq. lia. }
  cbv zeta. apply FP.reads_must.
  { apply forallb_negb_nth. intros j. rewrite nth_skipn_add.
    pose proof (nthb_bits_of_words (rdata r) (N.of_nat (N.to_nat (rlen r) + j))) as E. unfold nthb in E.
    rewrite Nat2N.id in E. rewrite E. apply Hz. lia. }
  apply FP.reads_ret.
Qed.

Lemma file_ok_raw_model r : raw_ok r -> F.file_ok (raw_serialize r) = true.
Proof.
  intros (H1 & H2 & H3). unfold raw_serialize. rewrite !FP.file_ok_cons, !FP.elem_ok_lt, file_ok_of_Forall; try assumption; try reflexivity.
  - rewrite H2, bits_to_words_eq. lia.
  - lia.
Qed.

Lemma conform_raw m r : raw_ok r -> raw_inv r ->
  F.elems_of_bytes (c_enc (raw_codec m) r) = Some (raw_serialize r) /\
  F.doc_valid_raw (raw_serialize r) = true /\ F.doc_content_raw (raw_serialize r) = Some (abs_raw r).
Proof.
  intros Hok Hinv. pose proof (file_ok_raw_model r Hok) as Hf. split.
  - rewrite raw_enc_elems. apply elems_of_le64. apply Forall_of_file_ok. exact Hf.
  - apply FP.roundtrip_of; [apply reads_raw_model; exact Hinv|exact Hf].
Qed.

(* ------------------------------------------------------------------ IntVector *)

Lemma bits_val_same l : F.bits_val l = bits_val l.
Proof. induction l as [|b t IH]; [reflexivity|]. cbn [F.bits_val]. rewrite IH. reflexivity. Qed.

Lemma chunk_vals_items_of w n : forall l, F.chunk_vals n (N.to_nat w) l = items_of w n l.
Proof.
  induction n as [|n IH]; intros l; [reflexivity|]. cbn [F.chunk_vals items_of]. rewrite bits_val_same, IH. reflexivity.
Qed.

Lemma reads_int_model v : iv_inv v -> FP.reads F.p_int (iv_serialize v) (abs_is v).
Proof.
  intros (Hw & Hl & Hinv). unfold iv_serialize, F.p_int.
  change (ilen v :: iwidth v :: ?b) with ([ilen v] ++ [iwidth v] ++ b).
  eapply FP.reads_bind; [apply FP.reads_elem|]. eapply FP.reads_bind; [apply FP.reads_elem|].
  apply FP.reads_must; [lia|].
  rewrite <- (app_nil_r (raw_serialize _)). eapply FP.reads_bind; [apply reads_raw_model; exact Hinv|].
  apply FP.reads_must.
  { change (F.lenN (abs_raw (idata v))) with (lenL (abs_raw (idata v))). rewrite abs_len by exact Hinv. lia. }
  rewrite chunk_vals_items_of. apply FP.reads_ret.
Qed.

Lemma file_ok_iv_model v : iv_ok v -> F.file_ok (iv_serialize v) = true.
Proof.
  intros (H1 & H2 & H3 & H4). unfold iv_serialize. rewrite !FP.file_ok_cons, !FP.elem_ok_lt, file_ok_raw_model by assumption. reflexivity.
Qed.

Lemma conform_int m v : iv_ok v -> iv_inv v ->
  F.elems_of_bytes (c_enc (iv_codec m) v) = Some (iv_serialize v) /\
  F.doc_valid_int (iv_serialize v) = true /\ F.doc_content_int (iv_serialize v) = Some (iwidth v, abs_iv v).
Proof.
  intros Hok Hinv. pose proof (file_ok_iv_model v Hok) as Hf. split.
  - rewrite iv_enc_elems. apply elems_of_le64. apply Forall_of_file_ok. exact Hf.
  - apply FP.roundtrip_of; [apply reads_int_model; exact Hinv|exact Hf].
Qed.

(* ------------------------------------------------------------------ BitVector *)

(* an optional support structure is, for the document's reader, a vector of elements *)
Lemma opt_serialize_vec {A} (f : A -> list N) (o : option A) :
  opt_serialize f o = F.doc_encode_vec (match o with None => [] | Some x => f x end).
Proof. destruct o; reflexivity. Qed.

Lemma reads_bv_model b : raw_inv (bv_data b) -> bv_ones b = count (abs_raw (bv_data b)) ->
  FP.reads F.p_bv (bv_serialize b) (abs_raw (bv_data b)).
Proof.
  intros Hinv Hones. unfold bv_serialize, F.p_bv. rewrite !opt_serialize_vec.
  change (bv_ones b :: ?x) with ([bv_ones b] ++ x).
  eapply FP.reads_bind; [apply FP.reads_elem|].
  eapply FP.reads_bind; [apply reads_raw_model; exact Hinv|]. unfold F.p_opt_opaque.
  eapply FP.reads_bind; [apply FP.reads_vec|]. eapply FP.reads_bind; [apply FP.reads_vec|].
  rewrite <- (app_nil_r (F.doc_encode_vec _)). eapply FP.reads_bind; [apply FP.reads_vec|].
  apply FP.reads_must; [lia|]. apply FP.reads_ret.
Qed.

Lemma raw_words_bound r : raw_ok r -> lenN (rdata r) < 2 ^ 58.
Proof. intros (H1 & H2 & _). rewrite H2, bits_to_words_eq. lia. Qed.

Lemma file_ok_rs_model v : rs_ok v -> F.file_ok (F.doc_encode_vec (rs_serialize v)) = true.
Proof.
  intros [Hf Hl]. cbn [vec_pair_codec vec_codec c_wf pair_codec] in Hf, Hl. unfold ISIZE_MAX in Hl. change bits_WORD_BYTES with 8 in Hl.
  unfold rs_serialize. apply FP.file_ok_vec.
  - change (F.lenN (?x :: ?y)) with (lenN (x :: y)). rewrite lenN_cons.
    change (lenN (flat_map ?g ?l)) with (F.lenN (flat_map g l)). rewrite FP.len_flat_pairs. change (F.lenN (rs_samples v)) with (lenN (rs_samples v)). lia.
  - rewrite FP.file_ok_cons, FP.elem_ok_lt by lia. cbn [andb]. apply FP.file_ok_flat_pairs. exact Hf.
Qed.

Lemma iv_serialize_len v : lenN (iv_serialize v) = 4 + lenN (rdata (idata v)).
Proof. unfold iv_serialize, raw_serialize. rewrite !lenN_cons. lia. Qed.

Lemma file_ok_ss_model v : ss_ok v -> F.file_ok (F.doc_encode_vec (ss_serialize v)) = true.
Proof.
  intros (H1 & H2 & H3 & _). unfold ss_serialize. apply FP.file_ok_vec.
  - change (F.lenN ?x) with (lenN x). rewrite !lenN_app, !iv_serialize_len.
    pose proof (raw_words_bound _ (proj2 (proj2 (proj2 H1)))). pose proof (raw_words_bound _ (proj2 (proj2 (proj2 H2)))).
    pose proof (raw_words_bound _ (proj2 (proj2 (proj2 H3)))). lia.
  - rewrite !FP.file_ok_app, !file_ok_iv_model by assumption. reflexivity.
Qed.

Lemma file_ok_bv_model b : bv_ok b -> F.file_ok (bv_serialize b) = true.
Proof.
  intros (H1 & H2 & H3 & H4 & H5 & H6). unfold bv_serialize. rewrite !opt_serialize_vec.
  rewrite FP.file_ok_cons, !FP.file_ok_app, file_ok_raw_model by exact H3.
  rewrite FP.elem_ok_lt by lia. cbn [andb].
  assert (E1 : F.file_ok (F.doc_encode_vec match bv_rank b with None => [] | Some x => rs_serialize x end) = true).
  { destruct (bv_rank b); [apply file_ok_rs_model; apply H4|reflexivity]. }
  assert (E2 : F.file_ok (F.doc_encode_vec match bv_select b with None => [] | Some x => ss_serialize x end) = true).
  { destruct (bv_select b); [apply file_ok_ss_model; apply H5|reflexivity]. }
  assert (E3 : F.file_ok (F.doc_encode_vec match bv_select_zero b with None => [] | Some x => ss_serialize x end) = true).
  { destruct (bv_select_zero b); [apply file_ok_ss_model; apply H6|reflexivity]. }
  rewrite E1, E2, E3. reflexivity.
Qed.

Lemma conform_bv m b : bv_ok b -> raw_inv (bv_data b) -> bv_ones b = count (abs_raw (bv_data b)) ->
  F.elems_of_bytes (c_enc (bv_codec m) b) = Some (bv_serialize b) /\
  F.doc_valid_bv (bv_serialize b) = true /\ F.doc_content_bv (bv_serialize b) = Some (abs_raw (bv_data b)).
Proof.
  intros Hok Hinv Hones. pose proof (file_ok_bv_model b Hok) as Hf. split.
  - rewrite bv_enc_elems by exact Hok. apply elems_of_le64. apply Forall_of_file_ok. exact Hf.
  - apply FP.roundtrip_of; [apply reads_bv_model; assumption|exact Hf].
Qed.

(* ------------------------------------------------------------------ Vec<(u64,u64)> *)

Lemma conform_pairs l : c_wf vec_pair_codec l ->
  F.elems_of_bytes (c_enc vec_pair_codec l) = Some (F.doc_encode_pairs l) /\
  F.doc_valid_pairs (F.doc_encode_pairs l) = true /\ F.doc_content_pairs (F.doc_encode_pairs l) = Some l.
Proof.
  intros Hwf. pose proof Hwf as [Hf Hl]. cbn [vec_pair_codec vec_codec c_wf pair_codec] in Hf, Hl.
  unfold ISIZE_MAX in Hl. change bits_WORD_BYTES with 8 in Hl.
  assert (Hlen : F.lenN l < 2 ^ 64) by (change (F.lenN l) with (lenN l); lia).
  destruct (FP.roundtrip_pairs l Hlen Hf) as [Hv Hc]. split; [|split; assumption].
  change (c_enc vec_pair_codec l) with (c_enc rs_codec (mkrs l)). rewrite rs_enc_elems.
  apply elems_of_le64. apply Forall_of_file_ok. unfold F.doc_valid_pairs, F.valid_with in Hv.
  apply andb_prop in Hv. apply Hv.
Qed.

(* ------------------------------------------------------------------ Vec<u8> *)

Lemma elems_of_bytes_8 a r : length a = 8%nat ->
  F.elems_of_bytes (a ++ r) = match F.elems_of_bytes r with Some es => Some (F.le_value a :: es) | None => None end.
Proof.
  intros H. destruct a as [|b0 [|b1 [|b2 [|b3 [|b4 [|b5 [|b6 [|b7 [|b8 a]]]]]]]]]; try discriminate H. reflexivity.
Qed.

Lemma le_value_zeros k : F.le_value (repeat 0 k) = 0.
Proof. induction k as [|k IH]; [reflexivity|]. cbn [repeat F.le_value]. rewrite IH. lia. Qed.
Lemma le_value_app_zeros l k : F.le_value (l ++ repeat 0 k) = F.le_value l.
Proof. induction l as [|b t IH]; [apply le_value_zeros|]. cbn [app F.le_value]. rewrite IH. reflexivity. Qed.

Lemma elems_pack fuel : forall bs pad, (length bs <= fuel)%nat -> ((length bs + pad) mod 8 = 0)%nat -> (pad < 8)%nat ->
  F.elems_of_bytes (bs ++ repeat 0 pad) = Some (F.pack_bytes fuel bs).
Proof.
  induction fuel as [|k IH]; intros bs pad Hf Hm Hp.
  - destruct bs; [|cbn [length] in Hf; lia]. cbn [length] in Hm. replace pad with 0%nat by lia. reflexivity.
  - destruct bs as [|b0 t] eqn:E.
    + cbn [length] in Hm. replace pad with 0%nat by lia. reflexivity.
    + rewrite <- E in *. assert (Hne : (0 < length bs)%nat) by (subst bs; cbn [length]; lia).
      assert (Hpk : F.pack_bytes (S k) bs = F.le_value (firstn 8 bs) :: F.pack_bytes k (skipn 8 bs)) by (subst bs; reflexivity).
      rewrite Hpk. clear Hpk E.
      destruct (Nat.le_gt_cases 8 (length bs)) as [Hge|Hlt].
      * rewrite <- (firstn_skipn 8 bs) at 1. rewrite <- app_assoc.
        rewrite elems_of_bytes_8 by (rewrite firstn_length; lia).
        rewrite (IH (skipn 8 bs) pad); [reflexivity|rewrite skipn_length; lia| |exact Hp].
        rewrite skipn_length. replace (length bs - 8 + pad)%nat with (length bs + pad - 8)%nat by lia.
        rewrite <- (Nat.mod_add _ 1 8) by lia. replace (length bs + pad - 8 + 1 * 8)%nat with (length bs + pad)%nat by lia. exact Hm.
      * assert (Hpad : pad = (8 - length bs)%nat) by lia.
        rewrite <- (app_nil_r (bs ++ repeat 0 pad)). rewrite elems_of_bytes_8 by (rewrite app_length, repeat_length; lia).
        cbn [F.elems_of_bytes]. rewrite le_value_app_zeros, firstn_all2, skipn_all2 by lia.
        destruct k; reflexivity.
Qed.

Lemma repeatN_repeat {A} (x : A) n : repeatN x n = repeat x n.
Proof. induction n as [|n IH]; [reflexivity|]. cbn [repeatN repeat]. rewrite IH. reflexivity. Qed.

Lemma conform_bytes m l : c_wf (bytes_codec m) l ->
  F.elems_of_bytes (c_enc (bytes_codec m) l) = Some (F.doc_encode_bytes l) /\
  F.doc_valid_bytes (F.doc_encode_bytes l) = true /\ F.doc_content_bytes (F.doc_encode_bytes l) = Some l.
Proof.
  intros [Hb Hl]. unfold ISIZE_MAX in Hl. unfold bytes_ok in Hb. unfold byte in *.
  assert (Hlen : F.lenN l < 2 ^ 64) by (change (F.lenN l) with (lenN l); lia).
  split; [|apply FP.roundtrip_bytes; assumption].
  cbn [bytes_codec c_enc]. rewrite repeatN_repeat. unfold F.doc_encode_bytes.
  destruct (pad_len_spec (lenN l)) as (_ & P2 & P3).
  rewrite elems_of_bytes_8 by reflexivity.
  rewrite (elems_pack (length l) l (N.to_nat (pad_len (lenN l)))); [|lia| |lia].
  - unfold le64. rewrite le_value_le_bytes. change (256 ^ N.of_nat 8) with (2 ^ 64). rewrite N.mod_small by lia. reflexivity.
  - unfold lenN in *. lia.
Qed.

(* ------------------------------------------------------------------ Option<V> around any element-level serializer *)

Lemma conform_opt {A B} (c : codec A) (ser : A -> list N) (p : F.parser B) (content : A -> B) (o : option A) :
  (forall x, c_enc c x = flat_map le64 (ser x)) ->
  (forall x, c_wf c x -> lenN (ser x) = c_size c x /\ F.file_ok (ser x) = true /\ FP.reads p (ser x) (content x)) ->
  c_wf (option_codec c) o ->
  let f := F.doc_encode_opt (option_map ser o) in
  F.elems_of_bytes (c_enc (option_codec c) o) = Some f /\
  F.doc_valid_opt p f = true /\ F.doc_content_opt p f = Some (option_map content o).
Proof.
  intros Henc Hser Hwf. destruct o as [x|]; cbn [option_map].
  - cbn [option_codec c_wf] in Hwf. destruct Hwf as [Hx Hs]. destruct (Hser x Hx) as (Hl & Hf & Hr).
    assert (Hne : ser x <> []) by (intros E; rewrite E in Hl; change (lenN (@nil N)) with 0 in Hl; lia).
    split.
    + cbn [option_codec c_enc]. rewrite Henc, <- Hl. change (le64 (lenN (ser x)) ++ flat_map le64 (ser x)) with (flat_map le64 (lenN (ser x) :: ser x)).
      apply elems_of_le64. constructor; [assert (2 ^ 61 < 2 ^ 64) by (apply N.pow_lt_mono_r; lia); unfold F.lenN, lenN in *; lia|apply Forall_of_file_ok; exact Hf].
    + apply FP.roundtrip_opt_some; try assumption. change (F.lenN (ser x)) with (lenN (ser x)).
      assert (2 ^ 61 < 2 ^ 64) by (apply N.pow_lt_mono_r; lia). lia.
  - split; [reflexivity|apply FP.roundtrip_opt_none].
Qed.

(* instance: Option<IntVector> *)
Lemma conform_opt_int m (o : option intvec) :
  c_wf (option_codec (iv_codec m)) o -> (forall v, o = Some v -> iv_inv v) ->
  let f := F.doc_encode_opt (option_map iv_serialize o) in
  F.elems_of_bytes (c_enc (option_codec (iv_codec m)) o) = Some f /\
  F.doc_valid_opt F.p_int f = true /\ F.doc_content_opt F.p_int f = Some (option_map abs_is o).
Proof.
  intros Hwf Hinv. destruct o as [v|].
  - specialize (Hinv v eq_refl). cbn [option_codec c_wf] in Hwf. destruct Hwf as [Hx Hs].
    assert (Hl : lenN (iv_serialize v) = c_size (iv_codec m) v) by (rewrite iv_serialize_len, iv_size; reflexivity).
    pose proof (file_ok_iv_model v Hx) as Hf. pose proof (reads_int_model v Hinv) as Hr.
    assert (Hne : iv_serialize v <> []) by discriminate.
    cbn [option_map]. split.
    + cbn [option_codec c_enc]. rewrite iv_enc_elems, <- Hl.
      change (le64 (lenN (iv_serialize v)) ++ flat_map le64 (iv_serialize v)) with (flat_map le64 (lenN (iv_serialize v) :: iv_serialize v)).
      apply elems_of_le64. constructor; [assert (2 ^ 61 < 2 ^ 64) by (apply N.pow_lt_mono_r; lia); unfold F.lenN, lenN in *; lia|apply Forall_of_file_ok; exact Hf].
    + apply FP.roundtrip_opt_some; try assumption. change (F.lenN (iv_serialize v)) with (lenN (iv_serialize v)).
      assert (2 ^ 61 < 2 ^ 64) by (apply N.pow_lt_mono_r; lia). lia.
  - split; [reflexivity|apply FP.roundtrip_opt_none].
Qed.
