(* C10 for the sparse vector in the vocabulary of Spec/IterRefs.v: the reference sequence [ref_of (SSparse n Vs) e]
   (the one the specification side of the correspondence check computes) is the list the iterators of a well-formed
   vector refine (Proofs/SparseDeque.v), for every entry point. The only non-trivial bridge is ZeroIter: the ranked
   unset positions of the membership bits are the unset positions the value-list specification selects. *)
From Coq Require Import NArith List Lia ZArith Bool.
Require Import SDS.Model.Mach SDS.Model.Bits SDS.Model.Raw SDS.Model.IntVec SDS.Model.BitVec SDS.Model.Iters.
Require Import SDS.Spec.BitSeq SDS.Spec.ValSeq SDS.Spec.Deque SDS.Spec.IterRefs.
Require Import SDS.Model.Sparse SDS.Model.SparseIters.
Require Import SDS.Proofs.BitsProof SDS.Proofs.BVCommon SDS.Proofs.OneIterProof.
Require Import SDS.Proofs.SparseSeq SDS.Proofs.SparseProof SDS.Proofs.SparseBuild SDS.Proofs.SparseHigh.
Require Import SDS.Proofs.SparseDeque SDS.Proofs.SpecBridge.
Import ListNotations.
Open Scope N_scope.
Require Import ZifyBool ZifyN ZifyNat.
Ltac Zify.zify_post_hook ::= Z.div_mod_to_equations.
Arguments N.add : simpl never. Arguments N.sub : simpl never. Arguments N.mul : simpl never.
Arguments N.eqb : simpl never. Arguments N.ltb : simpl never. Arguments N.leb : simpl never.
Arguments N.pow : simpl never. Arguments N.min : simpl never.

(* ---- lists ---- *)

Lemma skipN_step {A} (l : list A) : forall r,
  skipN l r = match nth_opt l r with Some x => x :: skipN l (r + 1) | None => [] end.
Proof.
  induction l as [|a t IH]; intros r; [reflexivity|]. cbn [skipN nth_opt].
  destruct (N.eqb_spec r 0) as [->|Hr].
  - replace (0 + 1 =? 0) with false by lia. replace (0 + 1 - 1) with 0 by lia. rewrite skipN_0. reflexivity.
  - replace (r + 1 =? 0) with false by lia. replace (r + 1 - 1) with (r - 1 + 1) by lia. apply IH.
Qed.

Lemma skipN_length {A} (l : list A) : forall r, length (skipN l r) = (length l - N.to_nat r)%nat.
Proof.
  induction l as [|a t IH]; intros r; [reflexivity|]. cbn [skipN]. destruct (N.eqb_spec r 0) as [->|Hr]; [reflexivity|].
  rewrite IH. cbn [length]. lia.
Qed.

Lemma index_from_length {A} (l : list A) : forall i, length (index_from l i) = length l.
Proof. induction l as [|a t IH]; intros i; [reflexivity|]. cbn [index_from length]. rewrite IH. reflexivity. Qed.

(* ---- the reference of ZeroIter ---- *)

Lemma vs_zeros_from_list P n (Z : list N) : (forall r, nth_opt Z r = vs_select_zero P n r) ->
  forall (k : nat) r, vs_zeros_from P n r k = firstn k (skipN (index_from Z 0) r).
Proof.
  intros HZ. induction k as [|k IH]; intros r; [reflexivity|].
  cbn [vs_zeros_from]. rewrite (skipN_step (index_from Z 0) r), nth_opt_index_from, <- HZ.
  destruct (nth_opt Z r) as [z|]; [|reflexivity]. cbn [firstn]. rewrite IH. replace (0 + r) with r by lia. reflexivity.
Qed.

Theorem vs_zeros_all_ref P n r : increasing P = true -> all_below n P = true ->
  vs_zeros_all P n r = skipN (ranked_zeros (vs_bits P n)) r.
Proof.
  intros Hi Hb. set (B := vs_bits P n).
  assert (Ho : ones B = P) by (apply ones_vs_bits; assumption).
  assert (Hl : lenB B = n) by apply lenB_vs_bits.
  assert (HZ : forall r', nth_opt (zeros B) r' = vs_select_zero P n r').
  { intros r'. rewrite <- Ho, <- Hl. symmetry. apply vs_select_zero_ones. }
  unfold vs_zeros_all, ranked_zeros. rewrite (vs_zeros_from_list P n (zeros B) HZ).
  apply firstn_all2. rewrite skipN_length, index_from_length.
  assert (Hlen : N.of_nat (length (zeros B)) = n - lenN P).
  { pose proof (ConvertProof.ones_from_len (map negb B) 0) as Hc. unfold BuilderSpec.lenL in Hc. unfold zeros. rewrite Hc.
    rewrite count_map_negb, Hl, <- (ones_lenN B), Ho. reflexivity. }
  lia.
Qed.

(* ---- the three iterators over a well-formed vector, against ref_of ---- *)

Section Refs.
Variables (sp : selpath) (md : mode) (sv : sparse) (n w : N) (Vs : list N) (H : list bool).
Hypothesis Hok : sv_ok sp md sv n w Vs H.

(* OneIter from one_iter / select_iter r / predecessor x / successor x, every r and x *)
Theorem sparse_one_iter_deque e l cs : ref_of (SSparse n Vs) e = Some l ->
  match sp_oi_entry sp md sv e with
  | Some start => exists s s', start = Ok s /\ it_run (sp_oi_step md sv) s cs = Ok (s', snd (dq_run l cs))
  | None => True
  end.
Proof.
  intros Hl. destruct (sp_oi_entry sp md sv e) as [start|] eqn:Ee; [|exact I].
  assert (Hr : ones_ref (vs_ranked Vs) e = Some l) by (destruct e; cbn [sp_oi_entry] in Ee; try discriminate; exact Hl).
  pose proof (sp_oi_entries sp md sv n w Vs H Hok e l Hr) as Hen. rewrite Ee in Hen.
  destruct Hen as (it & Es & Hrep). destruct (sp_oi_run sp md sv n w Vs H Hok cs it l Hrep) as (s' & E & _). eauto.
Qed.

(* Iter from iter() *)
Theorem sparse_iter_deque cs :
  ref_of (SSparse n Vs) EIter = Some (map enc_bool (mem_bits n Vs)) /\
  exists s s', sv_iter_new md sv = Ok s /\ it_run (sp_bi_step md sv) s cs = Ok (s', snd (dq_run (mem_bits n Vs) cs)).
Proof.
  split; [reflexivity|]. destruct (sp_bi_entry sp md sv n w Vs H Hok) as (s & Es & Hrep).
  destruct (sp_bi_run sp md sv n w Vs H Hok cs s _ Hrep) as (s' & E & _). exists s, s'. split; [exact Es|exact E].
Qed.

(* ZeroIter from zero_iter / select_zero_iter r (sets), the forward calls *)
Theorem sparse_zero_iter_deque e l cs : increasing Vs = true -> all_below n Vs = true ->
  ref_of (SSparse n Vs) e = Some l -> Forall call_fwd cs ->
  match sp_zi_entry sp md sv e with
  | Some start => exists s s', start = Ok s /\ it_run (sp_zi_step md sv) s cs = Ok (s', snd (dq_run l cs))
  | None => True
  end.
Proof.
  intros Hi Hb Hl Hcs. pose proof (increasing_sorted _ Hi) as Hs.
  destruct e; cbn [sp_zi_entry]; try exact I; cbn in Hl; injection Hl as <-.
  - destruct (sp_zi_entries sp md sv n w Vs H Hok Hs 0) as [(z & E & Hrep) _].
    rewrite (vs_zeros_all_ref Vs n 0 Hi Hb), skipN_0 in Hrep.
    destruct (sp_zi_run sp md sv n w Vs H Hok Hs cs z _ Hrep Hcs) as (z' & E' & _). eauto.
  - destruct (sp_zi_entries sp md sv n w Vs H Hok Hs r) as [_ (z & E & Hrep)].
    rewrite (vs_zeros_all_ref Vs n r Hi Hb) in Hrep.
    destruct (sp_zi_run sp md sv n w Vs H Hok Hs cs z _ Hrep Hcs) as (z' & E' & _). eauto.
Qed.
End Refs.

(* the builders produce such vectors (Proofs/SparseHigh.v), restated with one existential *)
Theorem sparse_built_ok sp md w' n Vs : n < 2 ^ 64 -> 1 <= w' <= 63 -> all_below n Vs = true ->
  lenN Vs + buckets_of n (eff_width w' n (lenN Vs)) < 2 ^ 64 ->
  (increasing Vs = true ->
     exists sv H, sv_build_set sp md w' n Vs = Ok (inl sv) /\ sv_ok sp md sv n (eff_width w' n (lenN Vs)) Vs H) /\
  (nondecreasing Vs = true ->
     exists sv H, sv_build_multiset sp md w' n Vs = Ok (inl sv) /\ sv_ok sp md sv n (eff_width w' n (lenN Vs)) Vs H).
Proof.
  intros Hn Hw Hb Hfit. split; intros Hi.
  - exact (build_set_ok_closed sp md w' n Vs Hn Hw Hi Hb Hfit).
  - exact (build_multiset_ok_closed sp md w' n Vs Hn Hw Hi Hb Hfit).
Qed.
