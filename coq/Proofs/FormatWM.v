(* The document codec round-trips on wavelet matrices (Spec/Format.v, S: Wavelet matrices): the writer's stable
   partition by bit, level by level, is inverted by the reader's level mapping (rank_zero / count_zeros + rank). *)
From Coq Require Import NArith List Lia ZArith Bool.
Require Import SDS.Spec.BitSeq SDS.Spec.Format SDS.Proofs.FormatProof SDS.Proofs.FormatRL.
Import ListNotations.
Open Scope N_scope.
Require Import ZifyBool ZifyN ZifyNat.
Ltac Zify.zify_post_hook ::= Z.div_mod_to_equations.
Arguments N.add : simpl never. Arguments N.sub : simpl never. Arguments N.mul : simpl never.
Arguments N.eqb : simpl never. Arguments N.ltb : simpl never. Arguments N.leb : simpl never.
Arguments N.pow : simpl never. Arguments N.shiftl : simpl never. Arguments N.shiftr : simpl never.
Arguments N.land : simpl never. Arguments N.lor : simpl never. Arguments N.div : simpl never.
Arguments N.modulo : simpl never. Arguments N.ones : simpl never. Arguments N.testbit : simpl never.
Arguments N.min : simpl never. Arguments N.max : simpl never. Arguments N.log2 : simpl never.
Arguments Nat.sub : simpl never.

Definition nthd (l : list N) (i : N) : N := nth (N.to_nat i) l 0.

Lemma nthd_cons x t i : nthd (x :: t) i = if i =? 0 then x else nthd t (i - 1).
Proof.
  unfold nthd. destruct (N.eqb_spec i 0) as [->|H]; [reflexivity|].
  replace (N.to_nat i) with (S (N.to_nat (i - 1))) by lia. reflexivity.
Qed.

Lemma nthd_app_l a b i : i < lenN a -> nthd (a ++ b) i = nthd a i.
Proof. intros H. unfold nthd. apply app_nth1. unfold lenN in H. lia. Qed.
Lemma nthd_app_r a b i : nthd (a ++ b) (lenN a + i) = nthd b i.
Proof. unfold nthd. rewrite app_nth2 by (unfold lenN; lia). f_equal. unfold lenN. lia. Qed.

(* ------------------------------------------------------------------ one level: stable partition vs rank *)

Lemma getbit_map (f : N -> bool) items : forall i, i < lenN items -> getbit (map f items) i = f (nthd items i).
Proof.
  unfold getbit. induction items as [|x t IH]; intros i Hi; [rewrite lenN_nil in Hi; lia|].
  cbn [map getb]. rewrite nthd_cons. destruct (N.eqb_spec i 0); [reflexivity|]. apply IH. rewrite lenN_cons in Hi. lia.
Qed.

Lemma count_map_filter (g : N -> bool) items : count (map g items) = lenN (filter g items).
Proof.
  induction items as [|x t IH]; [reflexivity|]. cbn [map count filter]. rewrite IH.
  destruct (g x); cbn [b2n]; [rewrite lenN_cons|]; lia.
Qed.

Lemma rank_filter (g : N -> bool) items : forall i, i < lenN items -> g (nthd items i) = true ->
  rank1 (map g items) i < lenN (filter g items) /\ nthd (filter g items) (rank1 (map g items) i) = nthd items i.
Proof.
  induction items as [|x t IH]; intros i Hi Hg; [rewrite lenN_nil in Hi; lia|].
  rewrite lenN_cons in Hi. rewrite nthd_cons in Hg |- *. cbn [map rank1 filter].
  destruct (N.eqb_spec i 0) as [->|Hn].
  - rewrite Hg. rewrite lenN_cons, nthd_cons. split; [lia|reflexivity].
  - destruct (IH (i - 1) ltac:(lia) Hg) as [I1 I2]. destruct (g x); cbn [b2n].
    + rewrite lenN_cons, nthd_cons. replace (1 + rank1 (map g t) (i - 1) =? 0) with false by lia.
      replace (1 + rank1 (map g t) (i - 1) - 1) with (rank1 (map g t) (i - 1)) by lia. split; [lia|exact I2].
    + replace (0 + rank1 (map g t) (i - 1)) with (rank1 (map g t) (i - 1)) by lia. split; assumption.
Qed.

Definition part (f : N -> bool) (items : list N) : list N :=
  filter (fun x => negb (f x)) items ++ filter f items.

Lemma part_length f items : lenN (part f items) = lenN items.
Proof.
  unfold part. rewrite lenN_app. induction items as [|x t IH]; [reflexivity|]. cbn [filter].
  destruct (f x); cbn [negb]; rewrite !lenN_cons; lia.
Qed.

Lemma wm_map_part f items i : i < lenN items ->
  wm_map (map f items) i < lenN items /\ nthd (part f items) (wm_map (map f items) i) = nthd items i.
Proof.
  intros Hi. unfold wm_map, rank0. rewrite getbit_map by exact Hi. rewrite !map_map.
  rewrite (count_map_filter (fun x => negb (f x))).
  pose proof (part_length f items) as Hl. unfold part in *. rewrite lenN_app in Hl.
  destruct (f (nthd items i)) eqn:Ef.
  - destruct (rank_filter f items i Hi Ef) as [R1 R2]. rewrite nthd_app_r. split; [lia|exact R2].
  - destruct (rank_filter (fun x => negb (f x)) items i Hi) as [R1 R2]; [rewrite Ef; reflexivity|].
    rewrite nthd_app_l by exact R1. split; [lia|exact R2].
Qed.

(* ------------------------------------------------------------------ all levels *)

Lemma wm_levels_S k items :
  wm_levels (S k) items =
  (map (fun x => N.testbit x (N.of_nat k)) items :: fst (wm_levels k (part (fun x => N.testbit x (N.of_nat k)) items)),
   snd (wm_levels k (part (fun x => N.testbit x (N.of_nat k)) items))).
Proof. cbn [wm_levels]. unfold part. destruct (wm_levels k _). reflexivity. Qed.

Lemma mod_pow2_succ x k : x mod 2 ^ N.of_nat (S k) = (if N.testbit x (N.of_nat k) then 2 ^ N.of_nat k else 0) + x mod 2 ^ N.of_nat k.
Proof.
  rewrite Nat2N.inj_succ, N.pow_succ_r', N.mul_comm.
  rewrite N.mod_mul_r by (try apply N.pow_nonzero; lia).
  rewrite <- N.testbit_spec' . destruct (N.testbit x (N.of_nat k)); cbn [N.b2n]; lia.
Qed.

Lemma wm_walk_levels k : forall items i, i < lenN items ->
  let ls := fst (wm_levels k items) in
  let final := snd (wm_levels k items) in
  fst (wm_walk ls (N.of_nat k) i) = nthd items i mod 2 ^ N.of_nat k /\
  snd (wm_walk ls (N.of_nat k) i) < lenN items /\
  nthd final (snd (wm_walk ls (N.of_nat k) i)) = nthd items i.
Proof.
  induction k as [|k IH]; intros items i Hi.
  - cbn [wm_levels fst snd wm_walk]. change (2 ^ N.of_nat 0) with 1. rewrite N.mod_1_r. repeat split; [exact Hi].
  - rewrite wm_levels_S. cbn [fst snd]. set (f := fun x => N.testbit x (N.of_nat k)).
    destruct (wm_map_part f items i Hi) as [M1 M2]. rewrite <- (part_length f items) in M1.
    destruct (IH (part f items) (wm_map (map f items) i) M1) as (I1 & I2 & I3).
    cbn [wm_walk]. replace (N.of_nat (S k) - 1) with (N.of_nat k) by lia.
    destruct (wm_walk (fst (wm_levels k (part f items))) (N.of_nat k) (wm_map (map f items) i)) as [v p] eqn:Ew.
    cbn [fst snd] in *. rewrite getbit_map by exact Hi. rewrite part_length in I2. rewrite M2 in I1, I3.
    split; [|split; assumption]. rewrite mod_pow2_succ, I1, N.shiftl_1_l. reflexivity.
Qed.

Lemma wm_levels_shape k : forall items,
  length (fst (wm_levels k items)) = k /\ Forall (fun B => lenN B = lenN items) (fst (wm_levels k items)) /\
  lenN (snd (wm_levels k items)) = lenN items.
Proof.
  induction k as [|k IH]; intros items; [cbn; repeat split; constructor|].
  rewrite wm_levels_S. cbn [fst snd length]. destruct (IH (part (fun x => N.testbit x (N.of_nat k)) items)) as (I1 & I2 & I3).
  rewrite part_length in *. repeat split; [lia| |exact I3]. constructor; [unfold lenN; rewrite map_length; reflexivity|exact I2].
Qed.

(* ------------------------------------------------------------------ wavelet matrix core *)

Lemma reads_repeat {A} (p : parser A) (enc : A -> list N) (l : list A) :
  (forall a, In a l -> reads p (enc a) a) -> reads (p_repeat (length l) p) (flat_map enc l) l.
Proof.
  induction l as [|a t IH]; intros H; [apply reads_ret|].
  cbn [length p_repeat flat_map]. eapply reads_bind; [apply H; left; reflexivity|].
  rewrite <- (app_nil_r (flat_map enc t)). eapply reads_bind; [apply IH; intros b Hb; apply H; right; exact Hb|].
  apply reads_ret.
Qed.

Lemma nrange_map_nthd (f : N -> N) items : (forall i, i < lenN items -> f i = nthd items i) ->
  map f (nrange (length items) 0) = items.
Proof.
  intros H. assert (G : forall (l : list N) (from : N), (forall i, i < lenN l -> f (from + i) = nthd l i) -> map f (nrange (length l) from) = l).
  { induction l as [|x t IH]; intros from Hf; [reflexivity|]. cbn [length nrange map]. f_equal.
    - specialize (Hf 0). rewrite nthd_cons in Hf. replace (from + 0) with from in Hf by lia. apply Hf. rewrite lenN_cons. lia.
    - apply IH. intros i Hi. specialize (Hf (i + 1)). rewrite nthd_cons, lenN_cons in Hf.
      replace (i + 1 =? 0) with false in Hf by lia. replace (i + 1 - 1) with i in Hf by lia.
      replace (from + 1 + i) with (from + (i + 1)) by lia. apply Hf. lia. }
  apply G. intros i Hi. replace (0 + i) with i by lia. apply H. exact Hi.
Qed.

Lemma Forall_same_len (ls : list (list bool)) n : Forall (fun B => lenN B = n) ls ->
  match ls with [] => true | B0 :: t => forallb (fun B => lenN B =? lenN B0) t end = true.
Proof.
  intros H. destruct ls as [|B0 t]; [reflexivity|]. inversion H as [|? ? H0 Ht]; subst.
  apply (Forall_forallb _ (fun B => lenN B = lenN B0)); [intros x Hx; lia|]. eapply Forall_impl; [|exact Ht]. cbv beta. intros B HB. lia.
Qed.

Lemma reads_wmcore_raw width items : 1 <= width <= 64 ->
  reads p_wmcore_raw (doc_encode_wmcore (width, items)) (width, fst (wm_levels (N.to_nat width) items)).
Proof.
  intros Hw. unfold p_wmcore_raw, doc_encode_wmcore.
  change (width :: ?b) with ([width] ++ b). eapply reads_bind; [apply reads_elem|].
  apply reads_must; [lia|].
  destruct (wm_levels_shape (N.to_nat width) items) as (S1 & S2 & S3).
  rewrite <- (app_nil_r (flat_map _ _)). eapply reads_bind.
  { rewrite <- S1 at 1. apply reads_repeat. intros B _. apply reads_bv. }
  apply reads_must; [apply (Forall_same_len _ _ S2)|]. apply reads_ret.
Qed.

Lemma core_items_levels width items : 1 <= width <= 64 -> Forall (fun v => v < 2 ^ width) items ->
  core_items width (fst (wm_levels (N.to_nat width) items)) = items.
Proof.
  intros Hw Hf. unfold core_items.
  destruct (wm_levels_shape (N.to_nat width) items) as (S1 & S2 & S3).
  assert (Hhd : length (hd [] (fst (wm_levels (N.to_nat width) items))) = length items).
  { destruct (fst (wm_levels (N.to_nat width) items)) as [|B0 t]; [cbn [length] in S1; lia|].
    inversion S2; subst. cbn [hd]. unfold lenN in *. lia. }
  rewrite Hhd. apply nrange_map_nthd. intros i Hi.
  destruct (wm_walk_levels (N.to_nat width) items i Hi) as (W1 & _ & _). rewrite N2Nat.id in W1. rewrite W1.
  apply N.mod_small. rewrite Forall_forall in Hf. apply Hf. unfold nthd. apply nth_In. unfold lenN in Hi. lia.
Qed.

Lemma file_ok_flat_levels (ls : list (list bool)) : Forall (fun B => lenN B < 2 ^ 64) ls ->
  file_ok (flat_map (doc_encode_bv no_sup) ls) = true.
Proof.
  induction 1 as [|B t HB Ht IH]; [reflexivity|]. cbn [flat_map]. rewrite file_ok_app, IH, andb_true_r.
  unfold no_sup. apply file_ok_bv; [exact HB|reflexivity|reflexivity|reflexivity].
Qed.

Lemma file_ok_wmcore width items : 1 <= width <= 64 -> lenN items < 2 ^ 64 ->
  file_ok (doc_encode_wmcore (width, items)) = true.
Proof.
  intros Hw Hl. unfold doc_encode_wmcore. rewrite file_ok_cons, elem_ok_lt by lia. cbn [andb].
  apply file_ok_flat_levels. destruct (wm_levels_shape (N.to_nat width) items) as (_ & S2 & _).
  eapply Forall_impl; [|exact S2]. cbv beta. intros B HB. lia.
Qed.

Theorem roundtrip_wmcore width items :
  1 <= width <= 64 -> lenN items < 2 ^ 64 -> Forall (fun v => v < 2 ^ width) items ->
  doc_valid_wmcore (doc_encode_wmcore (width, items)) = true /\
  doc_content_wmcore (doc_encode_wmcore (width, items)) = Some (width, items).
Proof.
  intros Hw Hl Hf. apply roundtrip_of; [|apply file_ok_wmcore; assumption].
  unfold p_wmcore. rewrite <- (app_nil_r (doc_encode_wmcore _)).
  eapply reads_bind; [apply reads_wmcore_raw; exact Hw|]. cbn [fst snd].
  rewrite core_items_levels by assumption. apply reads_ret.
Qed.

(* ------------------------------------------------------------------ the level mapping is a bijection *)

Lemma in_nrange n : forall from x, In x (nrange n from) <-> from <= x < from + N.of_nat n.
Proof.
  induction n as [|n IH]; intros from x; cbn [nrange In]; [lia|]. rewrite IH. lia.
Qed.

Lemma nrange_length n from : length (nrange n from) = n.
Proof. revert from. induction n as [|n IH]; intros from; [reflexivity|]. cbn [nrange length]. rewrite IH. reflexivity. Qed.

Lemma NoDup_nrange n : forall from, NoDup (nrange n from).
Proof.
  induction n as [|n IH]; intros from; cbn [nrange]; constructor; [|apply IH]. rewrite in_nrange. lia.
Qed.

Lemma NoDup_map_inj {A B} (g : A -> B) (l : list A) :
  (forall a b, In a l -> In b l -> g a = g b -> a = b) -> NoDup l -> NoDup (map g l).
Proof.
  intros Hinj Hnd. induction Hnd as [|x t Hx Ht IH]; [constructor|]. cbn [map]. constructor.
  - intros Hin. apply in_map_iff in Hin. destruct Hin as (y & Hy & Hyin).
    assert (y = x) by (apply Hinj; [right; exact Hyin|left; reflexivity|exact Hy]). subst y. contradiction.
  - apply IH. intros a b Ha Hb. apply Hinj; right; assumption.
Qed.

Lemma nthd_nrange n i : i < N.of_nat n -> nthd (nrange n 0) i = i.
Proof.
  assert (G : forall n from i, i < N.of_nat n -> nthd (nrange n from) i = from + i).
  { clear. induction n as [|n IH]; intros from i Hi; [lia|]. cbn [nrange]. rewrite nthd_cons.
    destruct (N.eqb_spec i 0) as [->|Hn]; [lia|]. rewrite IH by lia. lia. }
  intros Hi. rewrite G by exact Hi. lia.
Qed.

Lemma map_nrange_ext (f g : N -> bool) n : forall from, (forall i, from <= i < from + N.of_nat n -> f i = g i) ->
  map f (nrange n from) = map g (nrange n from).
Proof.
  induction n as [|n IH]; intros from H; [reflexivity|]. cbn [nrange map]. f_equal; [apply H; lia|apply IH; intros i Hi; apply H; lia].
Qed.

Lemma map_nthd_nrange (f : N -> bool) items : map (fun j => f (nthd items j)) (nrange (length items) 0) = map f items.
Proof.
  assert (G : forall (l : list N) from (h : N -> bool), (forall i, i < lenN l -> h (from + i) = f (nthd l i)) -> map h (nrange (length l) from) = map f l).
  { induction l as [|x t IH]; intros from h Hh; [reflexivity|]. cbn [length nrange map]. f_equal.
    - specialize (Hh 0). rewrite nthd_cons, lenN_cons in Hh. replace (from + 0) with from in Hh by lia. apply Hh. lia.
    - apply IH. intros i Hi. specialize (Hh (i + 1)). rewrite nthd_cons, lenN_cons in Hh.
      replace (i + 1 =? 0) with false in Hh by lia. replace (i + 1 - 1) with i in Hh by lia.
      replace (from + 1 + i) with (from + (i + 1)) by lia. apply Hh. lia. }
  apply G. intros i Hi. replace (0 + i) with i by lia. reflexivity.
Qed.

(* the list of source positions, partitioned like the items, inverts the level mapping from the left *)
Lemma wm_map_left_inverse (f : N -> bool) items : exists sigma, forall i, i < lenN items ->
  nthd sigma (wm_map (map f items) i) = i.
Proof.
  set (idx := nrange (length items) 0). set (f' := fun j => f (nthd items j)).
  exists (part f' idx). intros i Hi.
  assert (Hl : lenN idx = lenN items) by (unfold idx, lenN; rewrite nrange_length; reflexivity).
  destruct (wm_map_part f' idx i ltac:(lia)) as [_ H].
  unfold f' in H at 2. unfold idx in H at 2. rewrite map_nthd_nrange in H. rewrite H.
  unfold idx. apply nthd_nrange. unfold lenN in Hi. exact Hi.
Qed.

Lemma wm_map_surj (f : N -> bool) items q : q < lenN items ->
  exists i, i < lenN items /\ wm_map (map f items) i = q.
Proof.
  intros Hq. set (idx := nrange (length items) 0). set (L := map (wm_map (map f items)) idx).
  destruct (wm_map_left_inverse f items) as (sigma & Hs).
  assert (Hin : forall x, In x idx <-> x < lenN items) by (intros x; unfold idx; rewrite in_nrange; unfold lenN; lia).
  assert (Hnd : NoDup L).
  { apply NoDup_map_inj; [|apply NoDup_nrange]. intros a b Ha Hb E. apply Hin in Ha. apply Hin in Hb.
    rewrite <- (Hs a Ha), <- (Hs b Hb), E. reflexivity. }
  assert (Hincl : incl L idx).
  { intros y Hy. apply in_map_iff in Hy. destruct Hy as (x & <- & Hx). apply Hin. apply wm_map_part. apply Hin. exact Hx. }
  assert (Hrev : incl idx L).
  { apply NoDup_length_incl; [exact Hnd| |exact Hincl]. unfold L. rewrite map_length. lia. }
  specialize (Hrev q ltac:(apply Hin; exact Hq)). apply in_map_iff in Hrev. destruct Hrev as (i & Ei & Hi).
  exists i. split; [apply Hin; exact Hi|exact Ei].
Qed.

Lemma wm_pos_surj k : forall items q, q < lenN items ->
  exists i, i < lenN items /\ snd (wm_walk (fst (wm_levels k items)) (N.of_nat k) i) = q.
Proof.
  induction k as [|k IH]; intros items q Hq.
  - exists q. split; [exact Hq|reflexivity].
  - rewrite wm_levels_S. cbn [fst]. set (f := fun x => N.testbit x (N.of_nat k)).
    destruct (IH (part f items) q ltac:(rewrite part_length; exact Hq)) as (j & Hj & Ej). rewrite part_length in Hj.
    destruct (wm_map_surj f items j Hj) as (i & Hi & Ei). exists i. split; [exact Hi|].
    cbn [wm_walk]. replace (N.of_nat (S k) - 1) with (N.of_nat k) by lia. rewrite Ei.
    destruct (wm_walk (fst (wm_levels k (part f items))) (N.of_nat k) j) as [v p]. cbn [snd] in *. exact Ej.
Qed.

(* ------------------------------------------------------------------ first occurrences *)

Lemma first_pos_le vp len v : first_pos vp len v <= len.
Proof. unfold first_pos. induction vp as [|x t IH]; cbn [fold_right]; [lia|]. destruct (fst x =? v); lia. Qed.

Lemma first_pos_lower vp len v x : In x vp -> fst x = v -> first_pos vp len v <= snd x.
Proof.
  unfold first_pos. induction vp as [|y t IH]; intros Hin Hv; [destruct Hin|]. cbn [fold_right].
  destruct Hin as [->|Hin].
  - replace (fst x =? v) with true by lia. lia.
  - specialize (IH Hin Hv). destruct (fst y =? v); lia.
Qed.

Lemma first_pos_witness vp len v : first_pos vp len v = len \/ exists x, In x vp /\ fst x = v /\ snd x = first_pos vp len v.
Proof.
  unfold first_pos. induction vp as [|y t IH]; [left; reflexivity|]. cbn [fold_right].
  destruct (N.eqb_spec (fst y) v) as [Ey|Ey].
  - destruct (N.le_gt_cases (snd y) (fold_right (fun x best => if fst x =? v then N.min (snd x) best else best) len t)) as [Hle|Hgt].
    + right. exists y. split; [left; reflexivity|]. split; [exact Ey|lia].
    + destruct IH as [IH|(x & Hx & Hv & Hs)]; [lia|]. right. exists x. split; [right; exact Hx|]. split; [exact Hv|lia].
  - destruct IH as [IH|(x & Hx & Hv & Hs)]; [left; exact IH|]. right. exists x. split; [right; exact Hx|]. split; assumption.
Qed.

Lemma index_of_upper v l : forall pos d j, j < lenN l -> nthd l j = v -> index_of v l pos d <= pos + j.
Proof.
  induction l as [|x t IH]; intros pos d j Hj Hv; [rewrite lenN_nil in Hj; lia|]. cbn [index_of].
  rewrite nthd_cons in Hv. rewrite lenN_cons in Hj. destruct (N.eqb_spec x v) as [Ex|Ex]; [lia|].
  destruct (N.eqb_spec j 0) as [->|Hn]; [congruence|]. specialize (IH (pos + 1) d (j - 1) ltac:(lia) Hv). lia.
Qed.

Lemma index_of_witness v l : forall pos d, index_of v l pos d = d \/
  exists j, j < lenN l /\ nthd l j = v /\ index_of v l pos d = pos + j.
Proof.
  induction l as [|x t IH]; intros pos d; [left; reflexivity|]. cbn [index_of].
  destruct (N.eqb_spec x v) as [Ex|Ex].
  - right. exists 0. rewrite lenN_cons, nthd_cons. repeat split; [lia|exact Ex|lia].
  - destruct (IH (pos + 1) d) as [E|(j & Hj & Hv & E)]; [left; exact E|]. right. exists (j + 1).
    rewrite lenN_cons, nthd_cons. replace (j + 1 =? 0) with false by lia. replace (j + 1 - 1) with j by lia.
    repeat split; [lia|exact Hv|lia].
Qed.

(* vp: (value, final position) of every item; final: the reordered vector *)
Lemma first_pos_index_of (items final : list N) (pos : N -> N) vp v :
  lenN final = lenN items ->
  vp = map (fun i => (nthd items i, pos i)) (nrange (length items) 0) ->
  (forall i, i < lenN items -> pos i < lenN items /\ nthd final (pos i) = nthd items i) ->
  (forall q, q < lenN items -> exists i, i < lenN items /\ pos i = q) ->
  first_pos vp (lenN items) v = index_of v final 0 (lenN items).
Proof.
  intros Hlen Evp Hpos Hsurj.
  assert (Hin : forall x, In x vp <-> exists i, i < lenN items /\ x = (nthd items i, pos i)).
  { intros x. rewrite Evp, in_map_iff. split.
    - intros (i & <- & Hi). apply in_nrange in Hi. exists i. split; [unfold lenN; lia|reflexivity].
    - intros (i & Hi & ->). exists i. split; [reflexivity|]. apply in_nrange. unfold lenN in Hi. lia. }
  apply N.le_antisymm.
  - destruct (index_of_witness v final 0 (lenN items)) as [E|(j & Hj & Hv & E)]; [rewrite E; apply first_pos_le|].
    rewrite E. rewrite Hlen in Hj. destruct (Hsurj j Hj) as (i & Hi & Ei).
    destruct (Hpos i Hi) as [_ Hf]. rewrite Ei in Hf.
    pose proof (first_pos_lower vp (lenN items) v (nthd items i, pos i)) as Hl. cbn [fst snd] in Hl.
    rewrite Ei in Hl. replace (0 + j) with j by lia. apply Hl; [apply Hin; exists i; rewrite Ei; split; [exact Hi|reflexivity]|congruence].
  - destruct (first_pos_witness vp (lenN items) v) as [E|(x & Hx & Hv & Hs)].
    + rewrite E. destruct (index_of_witness v final 0 (lenN items)) as [E'|(j & Hj & _ & E')]; rewrite E'; lia.
    + apply Hin in Hx. destruct Hx as (i & Hi & ->). cbn [fst snd] in *. destruct (Hpos i Hi) as [Hp Hf].
      rewrite <- Hs. pose proof (index_of_upper v final 0 (lenN items) (pos i) ltac:(lia) ltac:(congruence)). lia.
Qed.

(* ------------------------------------------------------------------ plain wavelet matrix *)

Lemma index_of_le v l d : lenN l <= d -> index_of v l 0 d <= d.
Proof. intros H. destruct (index_of_witness v l 0 d) as [E|(j & Hj & _ & E)]; rewrite E; lia. Qed.

Lemma map_nrange_ext_N (f g : N -> N) n : forall from, (forall i, from <= i < from + N.of_nat n -> f i = g i) ->
  map f (nrange n from) = map g (nrange n from).
Proof.
  induction n as [|n IH]; intros from H; [reflexivity|]. cbn [nrange map]. f_equal; [apply H; lia|apply IH; intros i Hi; apply H; lia].
Qed.

Theorem roundtrip_wm width items :
  1 <= width <= 64 -> lenN items < 2 ^ 64 -> Forall (fun v => v < 2 ^ width) items -> alphabet_size items * 64 < 2 ^ 64 ->
  doc_valid_wm (doc_encode_wm (width, items)) = true /\
  doc_content_wm (doc_encode_wm (width, items)) = Some (width, items).
Proof.
  intros Hw Hl Hf Ha.
  set (W := N.to_nat width). set (len := lenN items).
  destruct (wm_levels_shape W items) as (S1 & S2 & S3). fold len in S2, S3.
  set (ls := fst (wm_levels W items)) in *. set (final := snd (wm_levels W items)) in *.
  set (first := map (fun v => index_of v final 0 len) (nrange (N.to_nat (alphabet_size items)) 0)).
  assert (Hfirst_le : Forall (fun x => x <= len) first).
  { apply Forall_forall. intros x Hx. unfold first in Hx. apply in_map_iff in Hx. destruct Hx as (v & <- & _).
    apply index_of_le. lia. }
  assert (Hmw : 1 <= min_width first <= 64).
  { unfold min_width. apply bitlen_range. pose proof (list_max_bound first len Hfirst_le). lia. }
  assert (Hflen : lenN first = alphabet_size items).
  { unfold first, lenN. rewrite map_length, nrange_length. lia. }
  assert (Hwalk : forall i, i < len ->
            wm_walk ls width i = (nthd items i, snd (wm_walk ls width i)) /\
            snd (wm_walk ls width i) < len /\ nthd final (snd (wm_walk ls width i)) = nthd items i).
  { intros i Hi. destruct (wm_walk_levels W items i Hi) as (W1 & W2 & W3). unfold W in W1, W2, W3. rewrite N2Nat.id in W1, W2, W3.
    fold W ls final in W1, W2, W3. split; [|split; assumption].
    rewrite N.mod_small in W1 by (rewrite Forall_forall in Hf; apply Hf; unfold nthd; apply nth_In; unfold len, lenN in Hi; lia).
    destruct (wm_walk ls width i) as [v p]. cbn [fst snd] in *. rewrite W1. reflexivity. }
  assert (Hitems : map fst (map (wm_walk ls width) (nrange (N.to_nat len) 0)) = items).
  { rewrite map_map. unfold len. rewrite to_nat_lenN. apply nrange_map_nthd. intros i Hi.
    destruct (Hwalk i Hi) as [E _]. rewrite E. reflexivity. }
  assert (Hcl : core_len ls = len).
  { unfold core_len. destruct ls as [|B0 t] eqn:E; [cbn [length] in S1; unfold W in S1; lia|]. apply (Forall_inv S2). }
  assert (Hreads : reads p_wm (doc_encode_wm (width, items)) (width, items)).
  { unfold p_wm, doc_encode_wm. fold len W final first.
    change (len :: ?b) with ([len] ++ b). eapply reads_bind; [apply reads_elem|].
    eapply reads_bind; [apply reads_wmcore_raw; exact Hw|]. fold W ls.
    rewrite <- (app_nil_r (doc_encode_int _ _)). eapply reads_bind; [apply reads_int; [exact Hmw|apply fits_min_width]|].
    cbv beta iota zeta. apply reads_must; [lia|]. rewrite Hitems.
    apply reads_must.
    { destruct (N.eqb_spec len 0) as [H0|Hn0].
      - apply (Forall_forallb _ (fun x => x <= len)); [intros x Hx; lia|exact Hfirst_le].
      - replace (doc_first (map (wm_walk ls width) (nrange (N.to_nat len) 0)) len (alphabet_size items)) with first; [apply nlist_eq_refl|].
        unfold first, doc_first. apply map_nrange_ext_N. intros v _. symmetry.
        apply (first_pos_index_of items final (fun i => snd (wm_walk ls width i))).
        + exact S3.
        + unfold len. rewrite to_nat_lenN. apply map_ext_in. intros i Hi. apply in_nrange in Hi.
          apply Hwalk. unfold len, lenN. lia.
        + intros i Hi. destruct (Hwalk i Hi) as (_ & H2 & H3). split; assumption.
        + intros q Hq. destruct (wm_pos_surj W items q Hq) as (i & Hi & Ei). exists i. split; [exact Hi|].
          unfold W in Ei. rewrite N2Nat.id in Ei. exact Ei. }
    apply reads_must; [lia|]. apply reads_ret. }
  apply roundtrip_of; [exact Hreads|].
  unfold doc_encode_wm. fold len W final first. rewrite file_ok_cons, file_ok_app, elem_ok_lt by (unfold len; lia). cbn [andb].
  rewrite file_ok_wmcore by assumption. cbn [andb]. apply file_ok_int; [lia| |]; rewrite Hflen; nia.
Qed.
