(* Correctness of the portable (SWAR) in-word select of src/bits.rs, modelled by [select_portable]
   in Model/Bits.v. A 64-bit word is read as its 8 bytes ([fb], least significant first); every
   whole-word step of the algorithm is shown to act byte by byte, for byte lists of ANY length
   (the masks are generalised to [fb (repeat m k)]; the literals of the source are the k = 8
   instances, checked by computation). Finite sweeps range over single bytes only. *)
From Coq Require Import NArith List Lia ZArith Bool.
Require Import SDS.Model.Mach SDS.Model.Bits SDS.gen.Tables SDS.gen.Consts SDS.Spec.BitSeq.
Require Import SDS.Proofs.BitsProof.
Import ListNotations.
Open Scope N_scope.
Require Import ZifyBool ZifyN ZifyNat.
Ltac Zify.zify_post_hook ::= Z.div_mod_to_equations.
Arguments N.add : simpl never. Arguments N.sub : simpl never. Arguments N.mul : simpl never.
Arguments N.eqb : simpl never. Arguments N.ltb : simpl never. Arguments N.leb : simpl never.
Arguments N.pow : simpl never. Arguments N.shiftl : simpl never. Arguments N.shiftr : simpl never.
Arguments N.land : simpl never. Arguments N.lor : simpl never. Arguments N.div : simpl never.
Arguments N.modulo : simpl never. Arguments N.ones : simpl never. Arguments N.testbit : simpl never.

(* ---- words as byte lists ---- *)

Fixpoint fb (bs : list N) : N :=
  match bs with [] => 0 | b :: t => b + 256 * fb t end.

Definition bytes (bs : list N) : Prop := Forall (fun b => b < 256) bs.

Fixpoint bytes_of (k : nat) (n : N) : list N :=
  match k with O => [] | S k' => n mod 256 :: bytes_of k' (n / 256) end.

Lemma bytes_of_length k n : length (bytes_of k n) = k.
Proof. revert n. induction k as [|k IH]; intros n; cbn [bytes_of length]; [reflexivity|rewrite IH; reflexivity]. Qed.

Lemma bytes_of_bytes k n : bytes (bytes_of k n).
Proof.
  revert n. induction k as [|k IH]; intros n; cbn [bytes_of]; [constructor|].
  constructor; [lia|apply IH].
Qed.

Lemma fb_bytes_of k n : n < 256 ^ N.of_nat k -> fb (bytes_of k n) = n.
Proof.
  revert n. induction k as [|k IH]; intros n Hn; cbn [bytes_of fb].
  - change (256 ^ N.of_nat 0) with 1 in Hn. lia.
  - rewrite IH; [lia|]. rewrite Nat2N.inj_succ, N.pow_succ_r' in Hn. lia.
Qed.

Lemma fb_lt bs : bytes bs -> fb bs < 256 ^ N.of_nat (length bs).
Proof.
  induction 1 as [|b t Hb Ht IH]; cbn [fb length]; [reflexivity|].
  rewrite Nat2N.inj_succ, N.pow_succ_r'. lia.
Qed.

Lemma bytes_inv b t : bytes (b :: t) -> b < 256 /\ bytes t.
Proof. intros H. inversion H; subst. split; assumption. Qed.

(* ---- bits of a byte-structured number ---- *)

Lemma testbit_cons b t k :
  b < 256 -> N.testbit (b + 256 * t) k = if k <? 8 then N.testbit b k else N.testbit t (k - 8).
Proof.
  intros Hb. destruct (N.ltb_spec k 8) as [Hk|Hk].
  - rewrite <- (N.mod_pow2_bits_low (b + 256 * t) 8 k) by lia.
    change (2 ^ 8) with 256. f_equal. lia.
  - replace k with (k - 8 + 8) at 1 by lia. rewrite <- N.shiftr_spec'.
    rewrite N.shiftr_div_pow2. change (2 ^ 8) with 256. f_equal. lia.
Qed.

Lemma byte_bits_high b k : b < 256 -> 8 <= k -> N.testbit b k = false.
Proof.
  intros Hb Hk. destruct (N.eq_dec b 0) as [->|Hz]; [apply N.bits_0|].
  apply N.bits_above_log2. assert (N.log2 b < 8) by (apply N.log2_lt_pow2; [lia|exact Hb]). lia.
Qed.

Lemma land_lt_256 a mb : mb < 256 -> N.land a mb < 256.
Proof.
  intros H. change 256 with (2 ^ 8). apply lt_pow2_of_bits. intros k Hk.
  rewrite N.land_spec, (byte_bits_high mb k) by assumption. apply andb_false_r.
Qed.

(* (x >> s) & mask acts on each byte separately as long as the byte mask ignores the s bits
   that the shift brings in from the next byte *)
Lemma land_shr_cons s b t mb mt :
  b < 256 -> mb < 2 ^ (8 - s) -> s <= 8 ->
  N.land (N.shiftr (b + 256 * t) s) (mb + 256 * mt) =
  N.land (N.shiftr b s) mb + 256 * N.land (N.shiftr t s) mt.
Proof.
  intros Hb Hmb Hs.
  assert (Hmb8 : mb < 256).
  { eapply N.lt_le_trans; [exact Hmb|]. change 256 with (2 ^ 8). apply N.pow_le_mono_r; lia. }
  apply N.bits_inj. intros k.
  rewrite (testbit_cons (N.land (N.shiftr b s) mb)) by (apply land_lt_256; assumption).
  rewrite !N.land_spec, !N.shiftr_spec', (testbit_cons b t) by assumption.
  rewrite (testbit_cons mb mt) by assumption.
  destruct (N.ltb_spec k 8) as [Hk|Hk].
  - destruct (N.ltb_spec (k + s) 8) as [Hks|Hks]; [reflexivity|].
    assert (Hz : N.testbit mb k = false).
    { destruct (N.eq_dec mb 0) as [->|Hz]; [apply N.bits_0|].
      apply N.bits_above_log2. assert (N.log2 mb < 8 - s) by (apply N.log2_lt_pow2; [lia|exact Hmb]). lia. }
    rewrite Hz, !andb_false_r. reflexivity.
  - replace (k + s <? 8) with false by lia. f_equal. f_equal. lia.
Qed.

Lemma land_cons b t mb mt :
  b < 256 -> mb < 256 ->
  N.land (b + 256 * t) (mb + 256 * mt) = N.land b mb + 256 * N.land t mt.
Proof.
  intros Hb Hmb. pose proof (land_shr_cons 0 b t mb mt Hb) as H.
  rewrite !N.shiftr_0_r in H. apply H; [exact Hmb|lia].
Qed.

Lemma land_le a b : N.land a b <= a.
Proof.
  assert (E : a = N.ldiff a b + N.land a b).
  { rewrite N.add_nocarry_lxor.
    - rewrite N.lxor_lor; [symmetry; apply N.lor_ldiff_and|].
      apply N.bits_inj. intros k. rewrite !N.land_spec, N.ldiff_spec, N.bits_0.
      destruct (N.testbit a k), (N.testbit b k); reflexivity.
    - apply N.bits_inj. intros k. rewrite !N.land_spec, N.ldiff_spec, N.bits_0.
      destruct (N.testbit a k), (N.testbit b k); reflexivity. }
  lia.
Qed.

Lemma shiftr_le a s : N.shiftr a s <= a.
Proof.
  rewrite N.shiftr_div_pow2. apply N.div_le_upper_bound.
  - apply N.pow_nonzero. lia.
  - assert (2 ^ s <> 0) by (apply N.pow_nonzero; lia). nia.
Qed.

(* ---- the three SWAR popcount steps, byte by byte ---- *)

Definition s1 (b : N) : N := b - N.land (N.shiftr b 1) 85.
Definition s2 (c : N) : N := N.land c 51 + N.land (N.shiftr c 2) 51.
Definition s3 (d : N) : N := N.land (d + N.shiftr d 4) 15.

Lemma land_le_r a b : N.land a b <= b.
Proof. rewrite N.land_comm. apply land_le. Qed.

Lemma s1_le b : s1 b <= b. Proof. unfold s1. lia. Qed.
Lemma s2_lt c : s2 c < 256.
Proof. unfold s2. pose proof (land_le_r c 51). pose proof (land_le_r (N.shiftr c 2) 51). lia. Qed.

Lemma step1 bs : bytes bs ->
  fb bs - N.land (N.shiftr (fb bs) 1) (fb (repeat 85 (length bs))) = fb (map s1 bs).
Proof.
  induction 1 as [|b t Hb Ht IH]; cbn [fb length repeat map]; [reflexivity|].
  rewrite land_shr_cons by (try assumption; try reflexivity; lia).
  rewrite <- IH. unfold s1.
  pose proof (land_le (N.shiftr b 1) 85). pose proof (shiftr_le b 1).
  pose proof (land_le (N.shiftr (fb t) 1) (fb (repeat 85 (length t)))). pose proof (shiftr_le (fb t) 1).
  lia.
Qed.

Lemma step2 cs : bytes cs ->
  N.land (fb cs) (fb (repeat 51 (length cs))) + N.land (N.shiftr (fb cs) 2) (fb (repeat 51 (length cs)))
  = fb (map s2 cs).
Proof.
  induction 1 as [|c t Hc Ht IH]; cbn [fb length repeat map]; [reflexivity|].
  rewrite land_shr_cons by (try assumption; try reflexivity; lia).
  rewrite land_cons by (try assumption; lia).
  rewrite <- IH. unfold s2. lia.
Qed.

(* the third step adds before masking: no carry between bytes because every nibble is small *)
Definition nib_ok (d : N) : Prop := d < 128 /\ d mod 16 < 8.

Lemma fb_mod16 ds : Forall nib_ok ds -> fb ds mod 16 < 8.
Proof.
  intros H. destruct H as [|d t [Hd1 Hd2] Ht]; cbn [fb]; [reflexivity|]. lia.
Qed.

Lemma land_15 y : N.land y 15 = y mod 16.
Proof. change 15 with (N.ones 4). rewrite N.land_ones. reflexivity. Qed.

Lemma step3 ds : Forall nib_ok ds ->
  N.land (fb ds + N.shiftr (fb ds) 4) (fb (repeat 15 (length ds))) = fb (map s3 ds).
Proof.
  induction 1 as [|d t Hd Ht IH]; cbn [fb length repeat map]; [reflexivity|].
  pose proof (fb_mod16 t Ht) as Hm. destruct Hd as [Hd1 Hd2].
  rewrite <- IH. unfold s3. rewrite !N.shiftr_div_pow2. change (2 ^ 4) with 16.
  set (T := fb t) in *.
  replace (d + 256 * T + (d + 256 * T) / 16)
    with ((d + d / 16 + 16 * (T mod 16)) + 256 * (T + T / 16)) by lia.
  rewrite land_cons by lia. rewrite !land_15. f_equal. lia.
Qed.

Definition p8 (b : N) : N := s3 (s2 (s1 b)).

Lemma byte_sweep :
  forallb (fun b => (p8 b =? popcount b) && (s2 (s1 b) <? 128) && (s2 (s1 b) mod 16 <? 8)) (range_n 256) = true.
Proof. vm_compute. reflexivity. Qed.

Lemma byte_facts b : b < 256 -> p8 b = popcount b /\ nib_ok (s2 (s1 b)).
Proof.
  intros Hb. pose proof byte_sweep as S. rewrite forallb_forall in S.
  specialize (S b (in_range_n 256 b ltac:(lia))).
  apply andb_prop in S. destruct S as [S S3]. apply andb_prop in S. destruct S as [S1 S2].
  unfold nib_ok. lia.
Qed.

Lemma swar_popcount bs : bytes bs ->
  let k := length bs in
  let c := fb bs - N.land (N.shiftr (fb bs) 1) (fb (repeat 85 k)) in
  let c := N.land c (fb (repeat 51 k)) + N.land (N.shiftr c 2) (fb (repeat 51 k)) in
  N.land (c + N.shiftr c 4) (fb (repeat 15 k)) = fb (map popcount bs).
Proof.
  intros Hbs. cbv zeta. rewrite step1 by assumption.
  assert (H1 : bytes (map s1 bs)).
  { unfold bytes in *. rewrite Forall_forall in *. intros x Hx. apply in_map_iff in Hx.
    destruct Hx as (b & <- & Hb). pose proof (s1_le b). specialize (Hbs b Hb). cbv beta in Hbs. lia. }
  pose proof (step2 (map s1 bs) H1) as E2. rewrite map_length in E2. rewrite E2.
  assert (H2 : Forall nib_ok (map s2 (map s1 bs))).
  { unfold bytes in *. rewrite Forall_forall in *. intros x Hx. rewrite map_map in Hx. apply in_map_iff in Hx.
    destruct Hx as (b & <- & Hb). apply byte_facts. apply (Hbs b Hb). }
  pose proof (step3 _ H2) as E3. rewrite !map_length in E3. rewrite E3.
  rewrite !map_map. f_equal. apply map_ext_in. intros b Hb.
  unfold bytes in Hbs. rewrite Forall_forall in Hbs. apply (byte_facts b (Hbs b Hb)).
Qed.

(* ---- multiplication by 0x0101..01 turns byte counts into prefix sums ---- *)

Fixpoint sumN (cs : list N) : N := match cs with [] => 0 | c :: t => c + sumN t end.

(* inclusive prefix sums, starting from acc *)
Fixpoint psum (acc : N) (cs : list N) : list N :=
  match cs with [] => [] | c :: t => (acc + c) :: psum (acc + c) t end.

Definition L (k : nat) : N := fb (repeat 1 k).

Lemma L_S k : L (S k) = 1 + 256 * L k. Proof. reflexivity. Qed.

Lemma L_top k : L (S k) = L k + 256 ^ N.of_nat k.
Proof.
  induction k as [|k IH]; [reflexivity|].
  rewrite (L_S (S k)). rewrite IH at 1. rewrite (L_S k), Nat2N.inj_succ, N.pow_succ_r'. lia.
Qed.

Lemma fb_repeat a k : fb (repeat a k) = a * L k.
Proof.
  induction k as [|k IH]; cbn [repeat fb]; [unfold L; cbn [repeat fb]; lia|].
  rewrite IH, L_S. lia.
Qed.

Lemma mod_cons a X P : a < 256 -> P <> 0 -> (a + 256 * X) mod (256 * P) = a + 256 * (X mod P).
Proof.
  intros Ha HP. rewrite N.mod_mul_r by lia.
  replace ((a + 256 * X) mod 256) with a by lia.
  replace ((a + 256 * X) / 256) with X by lia. reflexivity.
Qed.

Lemma psum_length acc cs : length (psum acc cs) = length cs.
Proof. revert acc. induction cs as [|c t IH]; intros acc; cbn [psum length]; [reflexivity|rewrite IH; reflexivity]. Qed.

Lemma psum_range acc cs : Forall (fun p => acc <= p <= acc + sumN cs) (psum acc cs).
Proof.
  revert acc. induction cs as [|c t IH]; intros acc; cbn [psum sumN]; constructor; [lia|].
  eapply Forall_impl; [|apply (IH (acc + c))]. cbv beta. intros p Hp. lia.
Qed.

Lemma mul_prefix cs acc : acc + sumN cs < 256 ->
  (fb cs * L (length cs) + acc * L (length cs)) mod 256 ^ N.of_nat (length cs) = fb (psum acc cs).
Proof.
  revert acc. induction cs as [|c t IH]; intros acc Hs; cbn [fb length psum sumN] in *.
  - change (256 ^ N.of_nat 0) with 1. apply N.mod_1_r.
  - rewrite <- (IH (acc + c)) by lia.
    set (k := length t). set (T := fb t).
    rewrite Nat2N.inj_succ, N.pow_succ_r'.
    assert (HP : 256 ^ N.of_nat k <> 0) by (apply N.pow_nonzero; lia).
    replace ((c + 256 * T) * L (S k) + acc * L (S k))
      with ((acc + c) + 256 * (T * L (S k) + (acc + c) * L k)) by (rewrite L_S; lia).
    rewrite mod_cons by lia. f_equal. f_equal.
    rewrite L_top.
    replace (T * (L k + 256 ^ N.of_nat k) + (acc + c) * L k)
      with (T * L k + (acc + c) * L k + T * 256 ^ N.of_nat k) by lia.
    apply N.mod_add. exact HP.
Qed.

(* fb is linear *)
Lemma fb_map_add a xs : fb (map (fun p => p + a) xs) = fb xs + a * L (length xs).
Proof.
  induction xs as [|x t IH]; cbn [map fb length]; [unfold L; cbn [repeat fb]; lia|].
  rewrite IH, L_S. lia.
Qed.

(* ---- the overflow mask and its trailing zeros ---- *)

Lemma land_128_sweep :
  forallb (fun x => N.land x 128 =? (if x <? 128 then 0 else 128)) (range_n 256) = true.
Proof. vm_compute. reflexivity. Qed.

Lemma land_128 x : x < 256 -> N.land x 128 = if x <? 128 then 0 else 128.
Proof.
  intros Hx. pose proof land_128_sweep as S. rewrite forallb_forall in S.
  specialize (S x (in_range_n 256 x ltac:(lia))). apply N.eqb_eq in S. exact S.
Qed.

Lemma mask_bytes xs : bytes xs ->
  N.land (fb xs) (fb (repeat 128 (length xs))) = fb (map (fun x => N.land x 128) xs).
Proof.
  induction 1 as [|x t Hx Ht IH]; cbn [fb length repeat map]; [reflexivity|].
  rewrite land_cons by (try assumption; lia). rewrite IH. reflexivity.
Qed.

Lemma tz_double x : x <> 0 -> trailing_zeros (2 * x) = 1 + trailing_zeros x.
Proof. intros H. destruct x as [|p]; [lia|]. reflexivity. Qed.

Lemma tz_odd x : trailing_zeros (1 + 2 * x) = 0.
Proof. destruct x as [|p]; reflexivity. Qed.

Lemma tz_256 X : X <> 0 -> trailing_zeros (256 * X) = 8 + trailing_zeros X.
Proof.
  intros H. replace (256 * X) with (2 * (2 * (2 * (2 * (2 * (2 * (2 * (2 * X)))))))) by lia.
  rewrite !tz_double by lia. lia.
Qed.

Lemma tz_128 T : trailing_zeros (128 + 256 * T) = 7.
Proof.
  replace (128 + 256 * T) with (2 * (2 * (2 * (2 * (2 * (2 * (2 * (1 + 2 * T)))))))) by lia.
  rewrite !tz_double by lia. rewrite tz_odd. reflexivity.
Qed.

(* index of the first byte whose inclusive prefix count exceeds r *)
Fixpoint locj (cs : list N) (acc r : N) : nat :=
  match cs with
  | [] => O
  | c :: t => if r <? acc + c then O else S (locj t (acc + c) r)
  end.

Lemma tz_locate cs acc r :
  acc <= r < acc + sumN cs -> acc + sumN cs <= 128 + r -> r <= 127 ->
  trailing_zeros (fb (map (fun p => N.land (p + (127 - r)) 128) (psum acc cs)))
  = 8 * N.of_nat (locj cs acc r) + 7.
Proof.
  revert acc. induction cs as [|c t IH]; intros acc Hr Hs Hr7; cbn [sumN psum map fb locj] in *; [lia|].
  rewrite land_128 by lia.
  destruct (N.ltb_spec r (acc + c)) as [Hlt|Hge].
  - replace (acc + c + (127 - r) <? 128) with false by lia. rewrite tz_128. reflexivity.
  - replace (acc + c + (127 - r) <? 128) with true by lia.
    specialize (IH (acc + c) ltac:(lia) ltac:(lia) Hr7).
    rewrite N.add_0_l, tz_256.
    + rewrite IH. lia.
    + intros E. rewrite E in IH. change (trailing_zeros 0) with 64 in IH. lia.
Qed.

Lemma locj_props cs acc r :
  acc <= r < acc + sumN cs ->
  (locj cs acc r < length cs)%nat /\
  nth (locj cs acc r) (acc :: psum acc cs) 0 <= r
    < nth (locj cs acc r) (acc :: psum acc cs) 0 + nth (locj cs acc r) cs 0.
Proof.
  revert acc. induction cs as [|c t IH]; intros acc Hr; cbn [sumN psum locj length] in *; [lia|].
  destruct (N.ltb_spec r (acc + c)) as [Hlt|Hge].
  - cbn [nth]. split; [lia|lia].
  - specialize (IH (acc + c) ltac:(lia)). destruct IH as [IH1 IH2].
    split; [lia|]. cbn [nth] in *. exact IH2.
Qed.

(* ---- extracting a byte ---- *)

Lemma byte_at xs j : bytes xs -> N.land (N.shiftr (fb xs) (8 * N.of_nat j)) 255 = nth j xs 0.
Proof.
  intros H. revert j. induction H as [|b t Hb Ht IH]; intros j; cbn [fb].
  - rewrite N.shiftr_0_l, N.land_0_l. destruct j; reflexivity.
  - destruct j as [|j]; cbn [nth].
    + change (8 * N.of_nat 0) with 0. rewrite N.shiftr_0_r. change 255 with (N.ones 8).
      rewrite N.land_ones. change (2 ^ 8) with 256. lia.
    + rewrite <- IH. f_equal.
      replace (8 * N.of_nat (S j)) with (8 + 8 * N.of_nat j) by lia.
      rewrite <- N.shiftr_shiftr. f_equal. rewrite N.shiftr_div_pow2. change (2 ^ 8) with 256. lia.
Qed.

Lemma shl8_byte c j : (j <= 7)%nat ->
  N.land (N.shiftr (wrap (N.shiftl c 8)) (8 * N.of_nat j)) 255 =
  match j with O => 0 | S j' => N.land (N.shiftr c (8 * N.of_nat j')) 255 end.
Proof.
  intros Hj. apply N.bits_inj. intros k. change 255 with (N.ones 8).
  rewrite N.land_spec, testbit_ones, N.shiftr_spec', testbit_wrap, testbit_shiftl.
  destruct j as [|j'].
  - rewrite N.bits_0. destruct (N.ltb_spec k 8); [|apply andb_false_r].
    replace (8 <=? k + 8 * N.of_nat 0) with false by lia. rewrite andb_false_r. reflexivity.
  - rewrite N.land_spec, testbit_ones, N.shiftr_spec'.
    destruct (N.ltb_spec k 8); [|rewrite !andb_false_r; reflexivity].
    replace (k + 8 * N.of_nat (S j') <? 64) with true by lia.
    replace (8 <=? k + 8 * N.of_nat (S j')) with true by lia. cbn [andb]. f_equal. f_equal. lia.
Qed.

(* ---- the specification splits by byte ---- *)

Lemma bits_n_length n w : length (bits_n n w) = n.
Proof. unfold bits_n. rewrite map_length, seq_length. reflexivity. Qed.

Lemma bits_n_app n m w : bits_n (n + m) w = bits_n n w ++ bits_n m (N.shiftr w (N.of_nat n)).
Proof.
  revert w. induction n as [|n IH]; intros w.
  - cbn [plus]. change (N.of_nat 0) with 0. rewrite N.shiftr_0_r. reflexivity.
  - cbn [plus]. rewrite !bits_n_S, IH. cbn [app]. f_equal. f_equal. f_equal.
    rewrite N.div2_spec, N.shiftr_shiftr. f_equal. lia.
Qed.

Lemma bits_n_low b t : b < 256 -> bits_n 8 (b + 256 * t) = bits_n 8 b.
Proof.
  intros Hb. unfold bits_n. apply map_ext_in. intros j Hj. apply in_seq in Hj.
  rewrite testbit_cons by assumption. replace (N.of_nat j <? 8) with true by lia. reflexivity.
Qed.

Lemma bits_n_cons m b t : b < 256 -> bits_n (8 + m) (b + 256 * t) = bits_n 8 b ++ bits_n m t.
Proof.
  intros Hb. rewrite bits_n_app, bits_n_low by assumption. f_equal. f_equal.
  change (N.of_nat 8) with 8. rewrite N.shiftr_div_pow2. change (2 ^ 8) with 256. lia.
Qed.

Lemma ones_from_app B1 B2 pos :
  ones_from (B1 ++ B2) pos = ones_from B1 pos ++ ones_from B2 (pos + N.of_nat (length B1)).
Proof.
  revert pos. induction B1 as [|b t IH]; intros pos; cbn [app ones_from length].
  - f_equal. lia.
  - rewrite IH. replace (pos + 1 + N.of_nat (length t)) with (pos + N.of_nat (S (length t))) by lia.
    destruct b; reflexivity.
Qed.

Lemma ones_from_length B pos : N.of_nat (length (ones_from B pos)) = count B.
Proof.
  revert pos. induction B as [|b t IH]; intros pos; cbn [ones_from count]; [reflexivity|].
  destruct b; cbn [length b2n]; rewrite <- (IH (pos + 1)); lia.
Qed.

Lemma nth_opt_app {A} (l1 l2 : list A) r :
  nth_opt (l1 ++ l2) r =
  if r <? N.of_nat (length l1) then nth_opt l1 r else nth_opt l2 (r - N.of_nat (length l1)).
Proof.
  revert r. induction l1 as [|x t IH]; intros r; cbn [app nth_opt length].
  - change (N.of_nat 0) with 0. replace (r <? 0) with false by lia. f_equal. lia.
  - destruct (N.eqb_spec r 0) as [->|Hr].
    + replace (0 <? N.of_nat (S (length t))) with true by lia. reflexivity.
    + rewrite IH. replace (r - 1 <? N.of_nat (length t)) with (r <? N.of_nat (S (length t))) by lia.
      replace (r - 1 - N.of_nat (length t)) with (r - N.of_nat (S (length t))) by lia. reflexivity.
Qed.

Lemma nth_opt_ones_range B pos r p :
  nth_opt (ones_from B pos) r = Some p -> pos <= p < pos + N.of_nat (length B).
Proof.
  revert pos r. induction B as [|b t IH]; intros pos r H; cbn [ones_from length] in *; [discriminate|].
  destruct b.
  - cbn [nth_opt] in H. destruct (N.eqb_spec r 0).
    + inversion H; subst. lia.
    + apply IH in H. lia.
  - apply IH in H. lia.
Qed.

Lemma count_bytes bs : bytes bs ->
  count (bits_n (8 * length bs) (fb bs)) = sumN (map popcount bs).
Proof.
  induction 1 as [|b t Hb Ht IH]; cbn [fb length map sumN]; [reflexivity|].
  replace (8 * S (length t))%nat with (8 + 8 * length t)%nat by lia.
  rewrite bits_n_cons by assumption. rewrite count_app, IH.
  rewrite (popcount_bits_n 8 b) by (change (2 ^ N.of_nat 8) with 256; assumption). reflexivity.
Qed.

Lemma sel_bytes bs : bytes bs -> forall acc r pos,
  acc <= r < acc + sumN (map popcount bs) ->
  nth_opt (ones_from (bits_n (8 * length bs) (fb bs)) pos) (r - acc) =
  option_map (N.add (pos + 8 * N.of_nat (locj (map popcount bs) acc r)))
    (select1 (bbits (nth (locj (map popcount bs) acc r) bs 0))
       (r - nth (locj (map popcount bs) acc r) (acc :: psum acc (map popcount bs)) 0)).
Proof.
  induction 1 as [|b t Hb Ht IH]; intros acc r pos Hr; cbn [fb length map sumN locj psum] in *; [lia|].
  replace (8 * S (length t))%nat with (8 + 8 * length t)%nat by lia.
  rewrite bits_n_cons by assumption.
  rewrite ones_from_app, nth_opt_app, ones_from_length, bits_n_length.
  rewrite <- (popcount_bits_n 8 b) by (change (2 ^ N.of_nat 8) with 256; assumption).
  destruct (N.ltb_spec r (acc + popcount b)) as [Hlt|Hge].
  - replace (r - acc <? popcount b) with true by lia. cbn [nth].
    rewrite nth_opt_ones_from_shift. unfold select1, ones. change (bbits b) with (bits_n 8 b).
    replace (pos + 8 * N.of_nat 0) with pos by lia. reflexivity.
  - replace (r - acc <? popcount b) with false by lia. cbn [nth].
    replace (r - acc - popcount b) with (r - (acc + popcount b)) by lia.
    rewrite (IH (acc + popcount b) r (pos + N.of_nat 8)) by lia.
    f_equal. f_equal. lia.
Qed.

(* ---- the literals of the source are the 8-byte instances of the generalised masks ---- *)

Lemma lits_ok :
  lit 0 = fb (repeat 85 8) /\ lit 1 = fb (repeat 51 8) /\ lit 2 = fb (repeat 51 8) /\
  lit 3 = fb (repeat 15 8) /\ lit 4 = L 8 /\ lit 5 = fb (repeat 128 8) /\ lit 6 = 255 /\ lit 7 = 255.
Proof. repeat split; reflexivity. Qed.

Lemma ps_unit : 72340172838076673 = L 8. Proof. reflexivity. Qed.

Lemma bytes_nth bs j : bytes bs -> nth j bs 0 < 256.
Proof.
  intros H. revert j. induction H as [|b t Hb Ht IH]; intros j; destruct j; cbn [nth]; try lia; auto.
Qed.

(* ---- the algorithm on a word given by its 8 bytes ---- *)

Lemma select_portable_bytes m bs r :
  bytes bs -> length bs = 8%nat -> r < sumN (map popcount bs) -> sumN (map popcount bs) <= 64 ->
  exists p, select_portable m (fb bs) r = Ok p /\
            nth_opt (ones_from (bits_n 64 (fb bs)) 0) r = Some p /\ p < 64.
Proof.
  intros Hbs Hlen Hr Hs64.
  destruct lits_ok as (E0 & E1 & E2 & E3 & E4 & E5 & E6 & E7).
  unfold select_portable. rewrite E0, E1, E2, E3, E4, E5, E6, E7.
  pose proof (swar_popcount bs Hbs) as Hsw. cbv zeta in Hsw. rewrite Hlen in Hsw. rewrite Hsw. clear Hsw.
  set (cs := map popcount bs) in *.
  assert (Hlc : length cs = 8%nat) by (subst cs; rewrite map_length; exact Hlen).
  (* prefix sums *)
  assert (Hmul : wrap (fb cs * L 8) = fb (psum 0 cs)).
  { rewrite <- (mul_prefix cs 0) by lia. rewrite Hlc. unfold wrap.
    change (256 ^ N.of_nat 8) with (2 ^ 64). f_equal. lia. }
  rewrite Hmul. set (ps := psum 0 cs).
  assert (Hlp : length ps = 8%nat) by (subst ps; rewrite psum_length; exact Hlc).
  assert (Hps : Forall (fun p => p <= 64) ps).
  { eapply Forall_impl; [|apply (psum_range 0 cs)]. cbv beta. intros p Hp. lia. }
  assert (Hpsb : bytes ps).
  { eapply Forall_impl; [|exact Hps]. cbv beta. intros p Hp. lia. }
  (* rank + 1 and the table *)
  unfold uadd at 1. replace (r + 1 <? 2 ^ 64) with true by lia. cbn [bind].
  unfold idx_unchecked at 1. rewrite nthN_PS_OVERFLOW by lia. cbn [bind].
  assert (Hsum : fb ps + (128 - (r + 1)) * 72340172838076673 = fb (map (fun p => p + (127 - r)) ps)).
  { rewrite fb_map_add, Hlp, ps_unit. f_equal. f_equal. lia. }
  assert (Hsb : bytes (map (fun p => p + (127 - r)) ps)).
  { unfold bytes. rewrite Forall_forall in *. intros x Hx. apply in_map_iff in Hx.
    destruct Hx as (p & <- & Hp). specialize (Hps p Hp). cbv beta in Hps. lia. }
  pose proof (fb_lt _ Hsb) as Hslt. rewrite map_length, Hlp in Hslt.
  change (256 ^ N.of_nat 8) with (2 ^ 64) in Hslt.
  unfold uadd at 1. rewrite Hsum.
  replace (fb (map (fun p => p + (127 - r)) ps) <? 2 ^ 64) with true by lia. cbn [bind].
  (* the mask and the byte offset *)
  pose proof (mask_bytes _ Hsb) as Hmask. rewrite map_length, Hlp, map_map in Hmask. rewrite Hmask. clear Hmask.
  subst ps. rewrite (tz_locate cs 0 r) by lia.
  destruct (locj_props cs 0 r ltac:(lia)) as (Hj & Hpre1 & Hpre2).
  set (j := locj cs 0 r) in *. rewrite Hlc in Hj.
  set (pre := nth j (0 :: psum 0 cs) 0) in *.
  replace (N.shiftl (N.shiftr (8 * N.of_nat j + 7) 3) 3) with (8 * N.of_nat j)
    by (rewrite N.shiftl_mul_pow2, N.shiftr_div_pow2; change (2 ^ 3) with 8; lia).
  unfold ushr at 1. replace (8 * N.of_nat j <? 64) with true by lia. cbn [bind].
  assert (Hb : N.land (N.shiftr (wrap (N.shiftl (fb (psum 0 cs)) 8)) (8 * N.of_nat j)) 255 = pre).
  { rewrite shl8_byte by lia. subst pre. destruct j as [|j']; cbn [nth]; [reflexivity|].
    apply byte_at. exact Hpsb. }
  rewrite Hb.
  unfold usub at 1. replace (pre <=? r) with true by lia. cbn [bind].
  unfold ushr at 1. replace (8 * N.of_nat j <? 64) with true by lia. cbn [bind].
  rewrite (byte_at bs j Hbs).
  set (bj := nth j bs 0) in *.
  assert (Hbj : bj < 256) by (apply bytes_nth; exact Hbs).
  assert (Hcj : nth j cs 0 = popcount bj).
  { subst cs bj. change 0 with (popcount 0) at 1. apply map_nth. }
  rewrite Hcj in Hpre2.
  assert (Hpc8 : popcount bj <= 8).
  { rewrite (popcount_bits_n 8 bj) by (change (2 ^ N.of_nat 8) with 256; exact Hbj).
    pose proof (count_le_length (bits_n 8 bj)) as Hc. rewrite bits_n_length in Hc. lia. }
  unfold ushl at 1. change (8 <? 64) with true. cbv iota. cbn [bind].
  replace (N.shiftl (r - pre) 8 mod 2 ^ 64) with (256 * (r - pre))
    by (rewrite N.shiftl_mul_pow2; change (2 ^ 8) with 256; lia).
  unfold uadd at 1. replace (256 * (r - pre) + bj <? 2 ^ 64) with true by lia. cbn [bind].
  destruct (select_in_byte_ok (r - pre) bj Hbj ltac:(lia)) as (p & Htab & Hsel).
  unfold idx_unchecked at 1. rewrite Htab. cbn [bind].
  assert (Hp8 : p < 8).
  { unfold select1, ones in Hsel. apply nth_opt_ones_range in Hsel.
    change (bbits bj) with (bits_n 8 bj) in Hsel. rewrite bits_n_length in Hsel. lia. }
  unfold uadd. replace (8 * N.of_nat j + p <? 2 ^ 64) with true by lia.
  exists (8 * N.of_nat j + p). split; [reflexivity|]. split; [|lia].
  pose proof (sel_bytes bs Hbs 0 r 0 ltac:(fold cs; lia)) as Hspec.
  rewrite Hlen in Hspec. change (8 * 8)%nat with 64%nat in Hspec.
  rewrite N.sub_0_r in Hspec. rewrite Hspec. fold cs. fold j. fold bj. fold pre.
  rewrite Hsel. cbn [option_map]. apply f_equal. lia.
Qed.

Theorem select_portable_correct : forall m n r,
  n < 2 ^ 64 -> r < popcount n ->
  exists p, select_portable m n r = Ok p /\ select_in_word n r = Some p /\ p < 64.
Proof.
  intros m n r Hn Hr.
  pose proof (fb_bytes_of 8 n Hn) as Hfb.
  pose proof (bytes_of_bytes 8 n) as Hbs. pose proof (bytes_of_length 8 n) as Hlen.
  set (bs := bytes_of 8 n) in *.
  assert (Hsum : sumN (map popcount bs) = popcount n).
  { rewrite <- (count_bytes bs Hbs), Hlen, Hfb. change (8 * 8)%nat with 64%nat.
    rewrite popcount_wbits by exact Hn. reflexivity. }
  pose proof (popcount_le_64 n Hn) as H64.
  destruct (select_portable_bytes m bs r Hbs Hlen ltac:(lia) ltac:(lia)) as (p & H1 & H2 & H3).
  rewrite Hfb in H1, H2. exists p. split; [exact H1|]. split; [exact H2|exact H3].
Qed.
