(* C06 / C14 / C19 for WMCore and WaveletMatrix: the codecs of Model/SerWM.v (the faithful loaders of
   Model/SerComposite.v) are correct in the sense of codec_ok - round trip with exact consumption, exact size,
   every strict prefix an error -, their bytes are the little-endian image of the element lists wc_serialize /
   wm_serialize of Model/WM.v (what C04's correspondence compares), and every core / matrix built by the model's
   From<Vec<T>> is well-formed for them, for every loading select path and mode. *)
From Coq Require Import String NArith List Lia ZArith Bool.
Require Import SDS.Model.Mach SDS.Model.Bits SDS.Model.Raw SDS.Model.IntVec SDS.Model.BitVec SDS.Model.Ser SDS.Model.SerBV.
Require Import SDS.Model.WM SDS.Model.SerComposite SDS.Model.SerWM.
Require Import SDS.gen.Consts SDS.gen.Layout SDS.Spec.Stream SDS.Spec.BitSeq SDS.Spec.Seq.
Require Import SDS.Proofs.BitsProof SDS.Proofs.BVCommon SDS.Proofs.OneIterProof SDS.Proofs.BVFull SDS.Proofs.IntVecProof.
Require Import SDS.Proofs.SerProof SDS.Proofs.SerTypes SDS.Proofs.SerSupports SDS.Proofs.SerMain SDS.Proofs.SerSelect.
Require SDS.Proofs.SerComposite.
Require Import SDS.Proofs.WMProof SDS.Proofs.WMClosed.
Import ListNotations.
Open Scope list_scope.
Open Scope N_scope.
Require Import ZifyBool ZifyN ZifyNat.
Ltac Zify.zify_post_hook ::= Z.div_mod_to_equations.
Arguments N.add : simpl never. Arguments N.sub : simpl never. Arguments N.mul : simpl never.
Arguments N.div : simpl never. Arguments N.modulo : simpl never. Arguments N.pow : simpl never.
Arguments N.leb : simpl never. Arguments N.ltb : simpl never. Arguments N.eqb : simpl never.

(* ------------------------------------------------------------------ layouts *)

Lemma layout_WMCore_ok :
  mklayout layout_WMCore_serialize_header layout_WMCore_serialize_body layout_WMCore_load
           layout_WMCore_load_checks layout_WMCore_size_in_elements = expected_WMCore.
Proof. reflexivity. Qed.
Lemma layout_WaveletMatrix_ok :
  mklayout layout_WaveletMatrix_serialize_header layout_WaveletMatrix_serialize_body layout_WaveletMatrix_load
           layout_WaveletMatrix_load_checks layout_WaveletMatrix_size_in_elements = expected_WaveletMatrix.
Proof. reflexivity. Qed.
Lemma fields_WaveletMatrix : fields_consistent expected_WaveletMatrix ["len"; "data"; "first"]%string.
Proof. repeat split. Qed.
(* WMCore has no `width` field (it is levels.len()): serialize and load still visit [width; bv] in that order *)
Lemma fields_WMCore :
  flatten (l_header expected_WMCore) (l_body expected_WMCore) = ["width"; "bv"]%string /\
  map field_of_load (l_load expected_WMCore) = ["width"; "bv"]%string.
Proof. repeat split. Qed.

(* ------------------------------------------------------------------ the level loop on truncated input *)

Lemma levels_prefix {B} m l (ws : list bitvec) : Forall bv_ok ws -> Forall (fun w => bv_len w = l) ws ->
  forall (tail : list byte) (K : list bitvec -> list byte -> io B) len0, len0 = None \/ len0 = Some l ->
  prefix_safe (K ws) tail ->
  prefix_safe (fun s => let+ (ls, r) := wm_levels_dec m (length ws) len0 s in K ls r)
              (flat_map (c_enc (bv_codec m)) ws ++ tail).
Proof.
  intros Hok. induction Hok as [|w t Hw Ht IH]; intros Hlen tail K len0 Hl0 HK; cbn [length flat_map wm_levels_dec].
  - cbn [app]. eapply prefix_safe_ext; [|exact HK]. intros s. reflexivity.
  - inversion Hlen as [|? ? L1 L2]; subst. rewrite <- app_assoc.
    eapply prefix_safe_ext;
      [|apply (prefix_bind (bv_codec m) w (flat_map (c_enc (bv_codec m)) t ++ tail)
          (fun a r => let+ (ls, r') :=
                        match len0 with
                        | Some l0 => if negb (bv_len a =? l0) then IoErr InvalidData
                                     else let+ (t', r'') := wm_levels_dec m (length t) len0 r in IoOk (a :: t', r'')
                        | None => let+ (t', r'') := wm_levels_dec m (length t) (Some (bv_len a)) r in IoOk (a :: t', r'')
                        end in K ls r') (bv_codec_ok m) Hw)].
    + intros s. cbv beta. destruct (c_dec (bv_codec m) s) as [[a r]|e|p]; cbn [iobind]; reflexivity.
    + cbv beta. destruct Hl0 as [->| ->].
      * eapply prefix_safe_ext; [|apply (IH L2 tail (fun t' r => K (w :: t') r) (Some (bv_len w)) (or_intror eq_refl) HK)].
        intros s. cbv beta. destruct (wm_levels_dec m (length t) (Some (bv_len w)) s) as [[t' r'']|e|p]; reflexivity.
      * rewrite N.eqb_refl. cbn [negb].
        eapply prefix_safe_ext; [|apply (IH L2 tail (fun t' r => K (w :: t') r) (Some (bv_len w)) (or_intror eq_refl) HK)].
        intros s. cbv beta. destruct (wm_levels_dec m (length t) (Some (bv_len w)) s) as [[t' r'']|e|p]; reflexivity.
Qed.

(* ------------------------------------------------------------------ WMCore *)

Lemma width_nat c : N.to_nat (wc_width c) = length (wc_levels c).
Proof. unfold wc_width, lenN. apply Nat2N.id. Qed.

Lemma levels_enc_size m ls : Forall bv_ok ls -> lenN (flat_map (c_enc (bv_codec m)) ls) = 8 * levels_size m ls.
Proof. intros H. exact (items_size (bv_codec m) ls (bv_codec_ok m) H). Qed.

Lemma wmcore_codec_ok sp m : codec_ok (wmcore_codec sp m).
Proof.
  constructor.
  - intros c rest (Hw & Hok & (len & Hlen) & Hinit). cbn [c_enc c_dec wmcore_codec]. unfold wmcore_enc, wmcore_dec.
    change bits_WORD_BITS with 64 in *.
    rewrite <- app_assoc, dec_elem_app by lia. cbn [iobind].
    replace ((wc_width c =? 0) || (64 <? wc_width c)) with false by lia.
    rewrite width_nat, (SerComposite.wm_levels_dec_app m len (wc_levels c) rest Hok Hlen None (or_introl eq_refl)).
    cbn [iobind]. rewrite Hinit. cbn [io_of_res iobind]. destruct c. reflexivity.
  - intros c (Hw & Hok & _ & _). cbn [c_enc c_size wmcore_codec]. unfold wmcore_enc, wmcore_size.
    rewrite lenN_app, le64_lenN, levels_enc_size by exact Hok. lia.
  - intros c (Hw & Hok & (len & Hlen) & Hinit). cbn [c_enc c_dec wmcore_codec]. unfold wmcore_enc.
    change bits_WORD_BITS with 64 in *.
    apply (prefix_bind u64_codec (wc_width c) (flat_map (c_enc (bv_codec m)) (wc_levels c))
             (fun width r =>
                if (width =? 0) || (bits_WORD_BITS <? width) then IoErr InvalidData
                else let+ (ls, r') := wm_levels_dec m (N.to_nat width) None r in
                     let+ ls' := io_of_res (init_support sp m ls) in IoOk (mkcore ls', r')) u64_codec_ok).
    + cbn [c_wf u64_codec]. lia.
    + cbv beta. change bits_WORD_BITS with 64.
      replace ((wc_width c =? 0) || (64 <? wc_width c)) with false by lia. rewrite width_nat.
      rewrite <- (app_nil_r (flat_map (c_enc (bv_codec m)) (wc_levels c))).
      apply (levels_prefix m len (wc_levels c) Hok Hlen [] _ None (or_introl eq_refl)). apply prefix_safe_nil.
Qed.

(* ------------------------------------------------------------------ WaveletMatrix *)

Lemma wm_codec_ok sp m : codec_ok (wm_codec sp m).
Proof.
  pose proof (wmcore_codec_ok sp m) as HC.
  constructor.
  - intros w rest (Hn & Hcore & Hlen & Hfirst). cbn [c_enc c_dec wm_codec]. unfold wm_enc, wm_dec.
    rewrite <- !app_assoc, dec_elem_app by exact Hn. cbn [iobind].
    pose proof (fun r => ok_rt _ HC (wm_data w) r Hcore) as Ert. cbn [c_enc c_dec wmcore_codec] in Ert.
    rewrite Ert. cbn [iobind]. rewrite Hlen. cbn [io_of_res iobind].
    rewrite N.eqb_refl. cbn [negb]. rewrite (ok_rt _ (iv_codec_ok m) (wm_first w) _ Hfirst). cbn [iobind].
    destruct w. reflexivity.
  - intros w (Hn & Hcore & Hlen & Hfirst). cbn [c_enc c_size wm_codec]. unfold wm_enc, wm_size.
    pose proof (ok_size _ HC (wm_data w) Hcore) as Es. cbn [c_enc c_size wmcore_codec] in Es.
    rewrite !lenN_app, le64_lenN, Es, (ok_size _ (iv_codec_ok m) (wm_first w) Hfirst). lia.
  - intros w (Hn & Hcore & Hlen & Hfirst). cbn [c_enc c_dec wm_codec]. unfold wm_enc.
    apply (prefix_bind u64_codec (wm_len w) _
             (fun len r1 =>
                let+ (data, r2) := wmcore_dec sp m r1 in
                let+ dl := io_of_res (wc_len data) in
                if negb (dl =? len) then IoErr InvalidData
                else let+ (first, r3) := c_dec (iv_codec m) r2 in IoOk (mkwm len data first, r3)) u64_codec_ok Hn).
    cbv beta.
    apply (prefix_bind (wmcore_codec sp m) (wm_data w) (c_enc (iv_codec m) (wm_first w))
             (fun data r2 =>
                let+ dl := io_of_res (wc_len data) in
                if negb (dl =? wm_len w) then IoErr InvalidData
                else let+ (first, r3) := c_dec (iv_codec m) r2 in IoOk (mkwm (wm_len w) data first, r3)) HC Hcore).
    cbv beta. rewrite Hlen. cbn [io_of_res iobind]. rewrite N.eqb_refl. cbn [negb].
    apply (prefix_bind_last (iv_codec m) (wm_first w) (fun first r3 => IoOk (mkwm (wm_len w) (wm_data w) first, r3))
             (iv_codec_ok m) Hfirst).
Qed.

(* ------------------------------------------------------------------ sizes and element lists *)

Lemma wmcore_size_eq m c : c_size (wmcore_codec Pdep m) c = 1 + levels_size m (wc_levels c).
Proof. reflexivity. Qed.

Lemma levels_enc_elems m ls : Forall bv_ok ls ->
  flat_map (c_enc (bv_codec m)) ls = flat_map le64 (flat_map bv_serialize ls).
Proof.
  intros H. induction H as [|b t Hb Ht IH]; cbn [flat_map]; [reflexivity|].
  rewrite flat_le64_app, <- IH, <- (bv_enc_elems m b Hb). reflexivity.
Qed.

Lemma wmcore_enc_elems m c : Forall bv_ok (wc_levels c) -> wmcore_enc m c = flat_map le64 (wc_serialize c).
Proof. intros H. unfold wmcore_enc, wc_serialize. cbn [flat_map]. rewrite levels_enc_elems by exact H. reflexivity. Qed.

Lemma wm_enc_elems m w : Forall bv_ok (wc_levels (wm_data w)) -> wm_enc m w = flat_map le64 (wm_serialize w).
Proof.
  intros H. unfold wm_enc, wm_serialize. cbn [flat_map]. rewrite flat_le64_app, <- (wmcore_enc_elems m) by exact H.
  rewrite (iv_enc_elems m). reflexivity.
Qed.

(* ------------------------------------------------------------------ what From<Vec<T>> builds is well-formed *)

Lemma sub_of_refl b : sub_of b b.
Proof. split; [apply same_core_refl|]. auto. Qed.

Lemma Forall2_sub_refl ls : Forall2 sub_of ls ls.
Proof. induction ls; constructor; [apply sub_of_refl|assumption]. Qed.

(* one level: built from its column, it is well-formed, fully supported for every path / mode, of the column's length *)
Lemma built_level sp m col r b : lenB col + 4096 < 2 ^ 64 ->
  bv_from_bits col = Ok r -> bv_enable_all sp m r = Ok b ->
  bv_ok b /\ (forall sp' m', full_of sp' m' b) /\ bv_len b = lenB col /\ bv_repr b col.
Proof.
  intros HL Er Eb. destruct (bv_from_bits_ok col ltac:(lia)) as (r' & Er' & Hrep & N1 & N2 & N3).
  assert (r' = r) by congruence. subst r'.
  destruct (SerComposite.level_built sp m col r Hrep (conj N1 (conj N2 N3)) HL) as (bf & E & R & W & _ & F & _).
  assert (bf = b) by congruence. subst bf.
  split; [exact W|]. split; [exact F|]. split; [|exact R]. destruct (repr_facts b col R) as (H & _). symmetry. exact H.
Qed.

Lemma built_levels sp m len (levels : list bitvec) (cols : list (list bool)) :
  Forall (fun col => lenB col = len) cols -> len + 4096 < 2 ^ 64 ->
  Forall2 (fun b col => exists r, bv_from_bits col = Ok r /\ bv_enable_all sp m r = Ok b) levels cols ->
  Forall bv_ok levels /\ Forall (fun b => forall sp' m', full_of sp' m' b) levels /\
  Forall (fun b => bv_len b = len) levels /\ Forall2 bv_repr levels cols.
Proof.
  intros Hlen HL H. induction H as [|b col levels cols (r & Er & Eb) Ht IH].
  - repeat split; constructor.
  - inversion Hlen as [|? ? L1 L2]; subst. destruct (IH L2) as (A1 & A2 & A3 & A4).
    destruct (built_level sp m col r b ltac:(lia) Er Eb) as (B1 & B2 & B3 & B4).
    repeat split; constructor; assumption.
Qed.

Section Built.
Variables (sp : selpath) (m : mode) (V : list N).
Hypothesis HV : Forall (fun x => x < 2 ^ 64) V.
Hypothesis Hn : lenN V + 4096 < 2 ^ 64.

Let Hn' : lenN V < 2 ^ 64. Proof. lia. Qed.

(* WMCore::from(V): well-formed for the codec of every loading path / mode; any record list with the bits of
   its levels and any subset of their supports (in particular none) loads as the core itself *)
Theorem wmcore_built :
  exists levels, wm_core_from sp m V = Ok (mkcore levels) /\
    Forall bv_ok levels /\ Forall2 bv_repr levels (wm_columns V) /\
    wc_len (mkcore levels) = Ok (lenN V) /\ wc_width (mkcore levels) = width_v V /\
    (forall sp' m', wmcore_ok sp' m' (mkcore levels)) /\
    (forall sp' m' ws rest, Forall2 sub_of ws levels ->
       init_support sp' m' ws = Ok levels /\
       wmcore_dec sp' m' (wmcore_enc m' (mkcore ws) ++ rest) = IoOk (mkcore levels, rest)).
Proof.
  destruct (wm_core_from_closed sp m V HV Hn') as (levels & Hc & Hshape & Hq). exists levels.
  destruct (built_levels sp m (lenN V) levels (wm_columns V) (wm_columns_lens V HV) Hn Hshape) as (Hok & Hfull & Hlen & Hrep).
  pose proof (core_mapping sp m V levels HV Hn' (Hq sp m)) as (Hcl & Hcw & _).
  assert (Hw : 1 <= wc_width (mkcore levels) <= 64).
  { rewrite Hcw, (width_v_bit_len V HV). assert (Hm : list_max V < 2 ^ 64) by (apply list_max_lt; [lia|exact HV]).
    pose proof (bit_len_range _ Hm). lia. }
  assert (Hsub : forall sp' m' ws, Forall2 sub_of ws levels -> init_support sp' m' ws = Ok levels).
  { intros sp' m' ws Hs. apply SerComposite.init_support_sub; [|exact Hs].
    eapply Forall_impl; [|exact Hfull]. cbv beta. intros b Hb. apply Hb. }
  assert (Hwf : forall sp' m', wmcore_ok sp' m' (mkcore levels)).
  { intros sp' m'. unfold wmcore_ok. change bits_WORD_BITS with 64. cbn [wc_levels].
    split; [exact Hw|]. split; [exact Hok|]. split; [exists (lenN V); exact Hlen|].
    apply Hsub. apply Forall2_sub_refl. }
  split; [exact Hc|]. split; [exact Hok|]. split; [exact Hrep|]. split; [exact Hcl|]. split; [exact Hcw|].
  split; [exact Hwf|]. intros sp' m' ws rest Hs. split; [apply Hsub; exact Hs|].
  (* the stripped / partially supported file: the level loop returns ws, init_support turns it into levels *)
  assert (Hwok : Forall bv_ok ws).
  { clear - Hs Hok. induction Hs as [|w bf ws lsf Hw' Ht IH]; [constructor|].
    inversion Hok as [|? ? W1 W2]; subst. constructor; [exact (sub_ok w bf W1 Hw')|exact (IH W2)]. }
  assert (Hwlen : Forall (fun w => bv_len w = lenN V) ws).
  { clear - Hs Hlen. induction Hs as [|w bf ws lsf Hw' Ht IH]; [constructor|].
    inversion Hlen as [|? ? L1 L2]; subst. constructor; [|exact (IH L2)].
    destruct Hw' as [[_ Hd] _]. unfold bv_len in *. rewrite Hd. exact L1. }
  assert (Hwidth : wc_width (mkcore ws) = wc_width (mkcore levels)).
  { unfold wc_width, lenN. cbn [wc_levels]. rewrite (SerComposite.Forall2_length_eq _ _ _ Hs). reflexivity. }
  unfold wmcore_enc, wmcore_dec. rewrite Hwidth. cbn [wc_levels].
  rewrite <- app_assoc, dec_elem_app by lia. cbn [iobind]. change bits_WORD_BITS with 64.
  replace ((wc_width (mkcore levels) =? 0) || (64 <? wc_width (mkcore levels))) with false by lia.
  rewrite <- Hwidth, width_nat. cbn [wc_levels].
  rewrite (SerComposite.wm_levels_dec_app m' (lenN V) ws rest Hwok Hwlen None (or_introl eq_refl)). cbn [iobind].
  rewrite (Hsub sp' m' ws Hs). reflexivity.
Qed.

(* (max + 1) offsets of at most 64 bits each: the bit count of `first` (+ 63 for the word rounding) fits in usize *)
Hypothesis Hmax : list_max V + 1 < 2 ^ 58.

Let Hmax' : list_max V + 1 < 2 ^ 64. Proof. lia. Qed.

Theorem wm_built :
  exists levels first,
    wm_from sp m V = Ok (mkwm (lenN V) (mkcore levels) first) /\
    wm_core_from sp m V = Ok (mkcore levels) /\ Forall bv_ok levels /\ iv_ok first /\
    (forall sp' m', wm_ok sp' m' (mkwm (lenN V) (mkcore levels) first)) /\
    (forall sp' m' ws rest, Forall2 sub_of ws levels ->
       wm_dec sp' m' (wm_enc m' (mkwm (lenN V) (mkcore ws) first) ++ rest) =
       IoOk (mkwm (lenN V) (mkcore levels) first, rest)).
Proof.
  destruct wmcore_built as (levels & Hc & Hok & Hrep & Hcl & Hcw & Hwf & Hsub).
  destruct (wm_from_closed sp m V HV Hn' Hmax') as (levels' & first & F & Hw & Hc' & _ & _ & Hfok & Hinv & Habs & HFl & _).
  assert (levels' = levels) by congruence. subst levels'. exists levels, first.
  assert (Hfirst : iv_ok first).
  { destruct Hfok as [Hil _]. pose proof Hinv as (Hwd & Hl & Hlen & Hwfr & _). unfold iv_ok, raw_ok.
    assert (ilen first = list_max V + 1) by lia.
    split; [lia|]. split; [lia|]. split; [lia|]. split; [nia|]. split; [exact Hlen|exact Hwfr]. }
  assert (Hwm : forall sp' m', wm_ok sp' m' (mkwm (lenN V) (mkcore levels) first)).
  { intros sp' m'. unfold wm_ok. cbn [wm_len wm_data wm_first]. split; [exact Hn'|]. split; [apply Hwf|]. split; [exact Hcl|exact Hfirst]. }
  split; [exact Hw|]. split; [exact Hc|]. split; [exact Hok|]. split; [exact Hfirst|]. split; [exact Hwm|].
  intros sp' m' ws rest Hs. unfold wm_enc, wm_dec. cbn [wm_len wm_data wm_first].
  rewrite <- !app_assoc, dec_elem_app by exact Hn'. cbn [iobind].
  rewrite (proj2 (Hsub sp' m' ws _ Hs)). cbn [iobind]. rewrite Hcl. cbn [io_of_res iobind]. rewrite N.eqb_refl. cbn [negb].
  rewrite (ok_rt _ (iv_codec_ok m') first _ Hfirst). reflexivity.
Qed.

End Built.
