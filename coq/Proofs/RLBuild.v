(* The RLBuilder and `From<RLBuilder> for RLVector`: every valid history of try_set calls followed by set_len
   is accepted, never panics, and produces a vector that satisfies [rl_ok] for a grouping of the MAXIMAL runs
   of the input into blocks (block partition: whole runs per block, at most 64 code units, zero padding,
   sample = (ones, bits) before the block). *)
From Coq Require Import NArith List Lia ZArith Bool.
Require Import SDS.Model.Mach SDS.Model.Bits SDS.Model.Raw SDS.Model.IntVec SDS.Model.RL SDS.gen.Consts SDS.gen.Funs.
Require Import SDS.Spec.Runs.
Require Import SDS.Proofs.BitsProof SDS.Proofs.RLIntVec SDS.Proofs.RLVarint SDS.Proofs.RLIndex SDS.Proofs.RLRep SDS.Proofs.RunsLemmas.
Import ListNotations.
Open Scope N_scope.
Require Import ZifyBool ZifyN ZifyNat.
Ltac Zify.zify_post_hook ::= Z.div_mod_to_equations.
Arguments N.add : simpl never. Arguments N.sub : simpl never. Arguments N.mul : simpl never.
Arguments N.eqb : simpl never. Arguments N.ltb : simpl never. Arguments N.leb : simpl never.
Arguments N.pow : simpl never. Arguments N.shiftl : simpl never. Arguments N.shiftr : simpl never.
Arguments N.land : simpl never. Arguments N.lor : simpl never. Arguments N.div : simpl never.
Arguments N.modulo : simpl never. Arguments N.ones : simpl never. Arguments N.testbit : simpl never.

(* ---- invariants ---- *)

(* the flushed runs, grouped into blocks, are what samples and data hold *)
Definition SInv (b : rlbuilder) (BS : list block) : Prop :=
  Forall (fun bl : block => bl <> []) BS /\
  Forall (fun x => lenN (ab_units x) <= 64) (annot 0 0 BS) /\
  runs_ok true 0 (concat BS) /\
  b_tail b = runs_end_from 0 (concat BS) /\
  b_samples b = pair_samples (annot 0 0 BS) /\
  iv_rep (b_data b) 4 (data_of BS).

(* the pending run *)
Definition PInv (b : rlbuilder) (BS : list block) : Prop :=
  b_ones b = rones (concat BS) + snd (b_run b) /\
  fst (b_run b) + snd (b_run b) = b_len b /\
  b_len b < 2 ^ 64 /\
  b_tail b <= fst (b_run b) /\
  (concat BS <> [] -> b_tail b < fst (b_run b)).

Lemma list_snoc_case {A} (l : list A) : l = [] \/ exists l' a, l = l' ++ [a].
Proof.
  destruct l as [|x t]; [left; reflexivity|right].
  destruct (@exists_last A (x :: t)) as (l' & a & E); [discriminate|]. eauto.
Qed.

Lemma iv_resize_same v w l n : iv_rep v w l -> n = lenN l -> iv_resize v n 0 = Ok v.
Proof.
  intros Hr ->. unfold iv_resize. rewrite (iv_rep_ilen _ _ _ Hr).
  replace (lenN l <? lenN l) with false by lia. reflexivity.
Qed.

Lemma enc_two_len a c : 2 <= lenN (enc a) + lenN (enc c) <= 44.
Proof. pose proof (enc_len a). pose proof (enc_len c). lia. Qed.

Lemma concat_snoc {A} (l : list (list A)) x : concat (l ++ [x]) = concat l ++ x.
Proof. rewrite concat_app. cbn [concat]. rewrite app_nil_r. reflexivity. Qed.

Lemma concat_nonempty_blocks (BS : list block) :
  Forall (fun bl : block => bl <> []) BS -> concat BS = [] -> BS = [].
Proof.
  intros Hall Hc. destruct BS as [|bl t]; [reflexivity|]. inversion Hall; subst.
  cbn [concat] in Hc. destruct bl; [congruence|discriminate].
Qed.

(* annot of blocks ++ one more block *)
Lemma annot_snoc BS bl :
  annot 0 0 (BS ++ [bl]) = annot 0 0 BS ++ [(rones (concat BS), runs_end_from 0 (concat BS), bl)].
Proof. rewrite annot_app. cbn [annot]. rewrite N.add_0_l. reflexivity. Qed.

Lemma pair_samples_app A B : pair_samples (A ++ B) = pair_samples A ++ pair_samples B.
Proof. apply map_app. Qed.

(* ---- flush ---- *)

Lemma flush_noop m b : snd (b_run b) = 0 -> rlb_flush m b = Ok b.
Proof. intros H. unfold rlb_flush. rewrite H. reflexivity. Qed.

Lemma flush_spec m b BS :
  SInv b BS -> PInv b BS -> snd (b_run b) <> 0 ->
  exists b' BS', rlb_flush m b = Ok b' /\ SInv b' BS' /\ concat BS' = concat BS ++ [b_run b] /\
    b_len b' = b_len b /\ b_ones b' = b_ones b /\ b_run b' = (b_len b, 0).
Proof.
  intros (Hne & Hu & Hok & Htail & Hsam & Hdata) (Hones & Hrun & Hlen & Htr & Hgap) Hr1.
  remember (rlb_flush m b) as E eqn:HE. unfold rlb_flush in HE.
  set (s := fst (b_run b)) in *. set (l := snd (b_run b)) in *.
  replace (l <=? 0) with false in HE by lia.
  rewrite usub_ok in HE by lia. cbn [bind] in HE. rewrite usub_ok in HE by lia. cbn [bind] in HE.
  rewrite !rl_code_len_spec in HE by lia. cbn [bind] in HE.
  set (u1 := enc (s - b_tail b)) in *. set (u2 := enc (l - 1)) in *.
  pose proof (enc_two_len (s - b_tail b) (l - 1)) as Hneed. fold u1 u2 in Hneed.
  change rl_BLOCK_SIZE with 64 in HE. unfold rlb_blocks in HE. rewrite Hsam, lenN_pair_samples, annot_lenN in HE.
  rewrite (iv_rep_ilen _ _ _ Hdata) in HE.
  assert (Hr_eq : b_run b = (s, l)) by (subst s l; destruct (b_run b); reflexivity).
  assert (Hrl : rones (concat BS) <= b_ones b /\ b_ones b - l = rones (concat BS)) by lia.
  assert (Hokr : runs_ok true 0 (concat BS ++ [(s, l)])).
  { apply runs_ok_app. split; [assumption|]. cbn [runs_ok fst snd]. rewrite <- Htail.
    destruct (concat BS) as [|r0 F0] eqn:EF.
    - repeat split; lia.
    - assert (b_tail b < s) by (apply Hgap; discriminate). repeat split; lia. }
  assert (Hend : s + l = runs_end_from 0 (concat BS ++ [(s, l)])).
  { rewrite runs_end_from_app. reflexivity. }
  destruct (list_snoc_case BS) as [->|(BS0 & bl & ->)].
  - (* no block yet *)
    unfold data_of in *. cbn [annot map layout concat rones runs_end_from] in *.
    match type of HE with context [?a <? ?c] => destruct (N.ltb_spec a c) as [Hnew|Hfit] end;
      [|exfalso; unfold lenN in *; cbn [length] in *; lia].
    rewrite (iv_resize_same _ _ _ _ Hdata) in HE by (unfold lenN; cbn [length]; lia). cbn [bind] in HE.
    rewrite usub_ok in HE by lia. cbn [bind] in HE.
    destruct (rl_encode_spec (b_data b) [] (s - b_tail b) Hdata) as (d1 & He1 & Hd1); [lia|].
    rewrite He1 in HE. cbn [bind] in HE.
    destruct (rl_encode_spec d1 _ (l - 1) Hd1) as (d2 & He2 & Hd2); [lia|].
    rewrite He2 in HE. cbn [bind] in HE. rewrite uadd_ok in HE by lia. cbn [bind] in HE.
    rewrite HE. eexists. exists [[(s, l)]]. split; [reflexivity|].
    split; [|cbn [concat app b_len b_ones b_run]; rewrite Hr_eq; repeat split; reflexivity].
    unfold SInv. cbn [b_len b_ones b_tail b_run b_samples b_data concat app annot].
    split; [constructor; [discriminate|constructor]|].
    split.
    { constructor; [|constructor]. unfold ab_units, ab_tail, ab_runs. cbn [fst snd enc_runs].
      rewrite app_nil_r, lenN_app. pose proof (enc_two_len (s - 0) (l - 1)). lia. }
    split; [exact Hokr|]. split; [exact Hend|].
    split.
    { unfold pair_samples. cbn [map app]. unfold ab_ones, ab_tail. cbn [fst snd].
      rewrite Htail. f_equal. f_equal. lia. }
    unfold data_of. cbn [annot map layout]. unfold ab_units, ab_tail, ab_runs. cbn [fst snd enc_runs].
    rewrite app_nil_r. cbn [app] in Hd2. rewrite Htail in Hd2. exact Hd2.
  - (* at least one block: the last one is bl *)
    rewrite (concat_snoc BS0 bl) in Hok, Htail, Hones, Hgap, Hokr, Hend, Hrl.
    rewrite (annot_snoc BS0 bl) in Hu, Hsam, HE.
    set (o0 := rones (concat BS0)) in *. set (t0 := runs_end_from 0 (concat BS0)) in *.
    apply Forall_app in Hu. destruct Hu as [Hu0 Hul]. pose proof (Forall_inv Hul) as Hulen.
    unfold ab_units, ab_tail, ab_runs in Hulen. cbn [fst snd] in Hulen.
    assert (Hus0 : Forall (fun x => lenN x <= 64) (map ab_units (annot 0 0 BS0))).
    { apply Forall_forall. intros x Hx. apply in_map_iff in Hx. destruct Hx as (y & <- & Hy).
      rewrite Forall_forall in Hu0. apply Hu0. assumption. }
    assert (Htl : b_tail b = runs_end_from t0 bl) by (rewrite Htail, runs_end_from_app; reflexivity).
    assert (HD : data_of (BS0 ++ [bl]) = layout (map ab_units (annot 0 0 BS0) ++ [enc_runs t0 bl])).
    { unfold data_of. rewrite annot_snoc, map_app. reflexivity. }
    rewrite HD in Hdata, HE.
    set (ul := enc_runs t0 bl) in *.
    rewrite layout_snoc_len in HE by assumption. rewrite lenN_map, annot_lenN in HE.
    rewrite lenN_app in HE. change (lenN [bl]) with 1 in HE.
    apply Forall_app in Hne. destruct Hne as [Hne0 Hnel].
    destruct (N.ltb_spec ((lenN BS0 + 1) * 64) (64 * lenN BS0 + lenN ul + (lenN u1 + lenN u2))) as [Hnew|Hfit].
    + (* new block *)
      destruct (iv_resize_grow _ _ _ ((lenN BS0 + 1) * 64) Hdata) as (dp & Hrs & Hdp).
      { rewrite layout_snoc_len by assumption. rewrite lenN_map, annot_lenN. lia. }
      rewrite Hrs in HE. cbn [bind] in HE. rewrite usub_ok in HE by lia. cbn [bind] in HE.
      destruct (rl_encode_spec dp _ (s - b_tail b) Hdp) as (d1 & He1 & Hd1); [lia|].
      rewrite He1 in HE. cbn [bind] in HE.
      destruct (rl_encode_spec d1 _ (l - 1) Hd1) as (d2 & He2 & Hd2); [lia|].
      rewrite He2 in HE. cbn [bind] in HE. rewrite uadd_ok in HE by lia. cbn [bind] in HE.
      rewrite HE. eexists. exists ((BS0 ++ [bl]) ++ [[(s, l)]]). split; [reflexivity|].
      split; [|rewrite !concat_snoc; cbn [b_len b_ones b_run]; rewrite Hr_eq; repeat split; reflexivity].
      unfold SInv. cbn [b_len b_ones b_tail b_run b_samples b_data].
      rewrite (concat_snoc (BS0 ++ [bl])), (concat_snoc BS0 bl).
      rewrite (annot_snoc (BS0 ++ [bl])), (concat_snoc BS0 bl), (annot_snoc BS0 bl).
      fold o0 t0. rewrite rones_app, runs_end_from_app. fold t0. rewrite <- Htl.
      split.
      { apply Forall_app. split; [apply Forall_app; split; assumption|]. constructor; [discriminate|constructor]. }
      split.
      { apply Forall_app. split; [apply Forall_app; split; assumption|]. constructor; [|constructor].
        unfold ab_units, ab_tail, ab_runs. cbn [fst snd enc_runs]. rewrite app_nil_r, lenN_app.
        pose proof (enc_two_len (s - b_tail b) (l - 1)). lia. }
      split; [exact Hokr|]. split; [rewrite <- Hend; reflexivity|].
      split.
      { rewrite !pair_samples_app. f_equal. unfold pair_samples. cbn [map].
        unfold ab_ones, ab_tail. cbn [fst snd]. f_equal. f_equal. rewrite rones_app in Hrl. lia. }
      unfold data_of. rewrite (annot_snoc (BS0 ++ [bl])), (concat_snoc BS0 bl), (annot_snoc BS0 bl). fold o0 t0.
      rewrite (map_app ab_units (annot 0 0 BS0 ++ [(o0, t0, bl)])). cbn [map].
      rewrite layout_snoc_new.
      * rewrite map_app. cbn [map]. change (ab_units (o0, t0, bl)) with ul.
        rewrite runs_end_from_app. fold t0. rewrite <- Htl.
        change (ab_units (rones (concat BS0 ++ bl), b_tail b, [(s, l)])) with (enc (s - b_tail b) ++ enc (l - 1) ++ []).
        rewrite lenN_app, lenN_map, annot_lenN. change (lenN [ul]) with 1. rewrite app_nil_r.
        replace (64 * (lenN BS0 + 1)) with ((lenN BS0 + 1) * 64) by lia.
        rewrite <- ?app_assoc in Hd2. rewrite <- ?app_assoc. exact Hd2.
      * destruct (annot 0 0 BS0); discriminate.
      * rewrite map_app. apply Forall_app. split; [assumption|]. constructor; [|constructor].
        unfold ab_units, ab_tail, ab_runs. cbn [fst snd]. assumption.
    + (* the run fits into the last block *)
      replace ((lenN BS0 + 1) * 64 <? 64 * lenN BS0 + lenN ul + (lenN u1 + lenN u2)) with false in HE by lia.
      cbn [bind] in HE.
      destruct (rl_encode_spec (b_data b) _ (s - b_tail b) Hdata) as (d1 & He1 & Hd1); [lia|].
      rewrite He1 in HE. cbn [bind] in HE.
      destruct (rl_encode_spec d1 _ (l - 1) Hd1) as (d2 & He2 & Hd2); [lia|].
      rewrite He2 in HE. cbn [bind] in HE. rewrite uadd_ok in HE by lia. cbn [bind] in HE.
      rewrite HE. eexists. exists (BS0 ++ [bl ++ [(s, l)]]). split; [reflexivity|].
      split; [|rewrite !concat_snoc, <- app_assoc; cbn [b_len b_ones b_run]; rewrite Hr_eq; repeat split; reflexivity].
      unfold SInv. cbn [b_len b_ones b_tail b_run b_samples b_data].
      rewrite (concat_snoc BS0), (annot_snoc BS0). fold o0 t0. rewrite app_assoc.
      assert (Hul' : enc_runs t0 (bl ++ [(s, l)]) = ul ++ u1 ++ u2).
      { rewrite enc_runs_app. cbn [enc_runs fst snd]. rewrite <- Htl. rewrite app_nil_r. reflexivity. }
      split.
      { apply Forall_app. split; [assumption|]. constructor; [|constructor]. destruct bl; discriminate. }
      split.
      { apply Forall_app. split; [assumption|]. constructor; [|constructor].
        unfold ab_units, ab_tail, ab_runs. cbn [fst snd]. rewrite Hul', !lenN_app. lia. }
      split; [exact Hokr|]. split; [rewrite <- Hend; reflexivity|].
      split.
      { rewrite !pair_samples_app. reflexivity. }
      unfold data_of. rewrite (annot_snoc BS0). fold o0 t0. rewrite map_app. cbn [map].
      unfold ab_units at 2. unfold ab_tail, ab_runs. cbn [fst snd]. rewrite Hul'.
      rewrite layout_snoc_ext. rewrite <- app_assoc in Hd2. exact Hd2.
Qed.

(* ---- try_set ---- *)

Lemma ones_le_len b BS : SInv b BS -> PInv b BS -> b_ones b <= b_len b.
Proof.
  intros (_ & _ & Hok & Htail & _) (Hones & Hrun & _ & Htr & _).
  pose proof (rones_le_end _ _ _ Hok). lia.
Qed.

Lemma try_set_spec m b BS s l :
  SInv b BS -> PInv b BS -> b_len b <= s -> 1 <= l -> s + l < 2 ^ 64 ->
  exists b' BS', rlb_try_set m b s l = Ok (b', true) /\ SInv b' BS' /\ PInv b' BS' /\
    snd (b_run b') <> 0 /\ b_len b' = s + l /\
    (if snd (b_run b) =? 0 then BS' = BS /\ b_run b' = (s, l)
     else if s =? b_len b then BS' = BS /\ b_run b' = (fst (b_run b), snd (b_run b) + l)
     else concat BS' = concat BS ++ [b_run b] /\ b_run b' = (s, l)).
Proof.
  intros HS HP Hs Hl Hfit. pose proof (ones_le_len b BS HS HP) as Hol.
  destruct HP as (Hones & Hrun & Hlen & Htr & Hgap).
  unfold rlb_try_set. replace (s <? b_len b) with false by lia.
  rewrite usub_ok by (unfold MAXU; lia). cbn [bind].
  replace (MAXU - l <? s) with false by (unfold MAXU; lia).
  unfold rlb_set_run_unchecked. replace (l <=? 0) with false by lia.
  destruct (N.eqb_spec s (b_len b)) as [Heq|Hneq].
  - (* extend the pending run *)
    rewrite !uadd_ok by lia. cbn [bind].
    eexists. exists BS. split; [reflexivity|].
    split; [exact HS|]. destruct HS as (_ & _ & _ & Htail & _).
    split; [unfold PInv; cbn [b_len b_ones b_tail b_run fst snd]; repeat split; try lia; assumption|].
    cbn [b_len b_run fst snd]. split; [lia|]. split; [lia|].
    destruct (N.eqb_spec (snd (b_run b)) 0) as [Hz|Hnz].
    + split; [reflexivity|]. f_equal; lia.
    + split; reflexivity.
  - (* flush, then a new pending run *)
    destruct (N.eqb_spec (snd (b_run b)) 0) as [Hz|Hnz].
    + rewrite flush_noop by assumption. cbn [bind]. rewrite !uadd_ok by lia. cbn [bind].
      eexists. exists BS. split; [reflexivity|].
      destruct HS as (H1 & H2 & H3 & Htail & H5 & H6).
      split; [unfold SInv; cbn [b_tail b_samples b_data]; exact (conj H1 (conj H2 (conj H3 (conj Htail (conj H5 H6)))))|].
      split.
      { unfold PInv. cbn [b_len b_ones b_tail b_run fst snd]. repeat split; lia. }
      cbn [b_len b_run fst snd]. split; [lia|]. split; [reflexivity|]. split; reflexivity.
    + destruct (flush_spec m b BS HS (conj Hones (conj Hrun (conj Hlen (conj Htr Hgap)))) Hnz)
        as (b1 & BS1 & Hf & HS1 & Hc & Hl1 & Ho1 & Hr1).
      rewrite Hf. cbn [bind]. rewrite Ho1. rewrite !uadd_ok by lia. cbn [bind].
      eexists. exists BS1. split; [reflexivity|].
      destruct HS1 as (H1 & H2 & H3 & Htail1 & H5 & H6).
      split; [unfold SInv; cbn [b_tail b_samples b_data]; exact (conj H1 (conj H2 (conj H3 (conj Htail1 (conj H5 H6)))))|].
      assert (Ht1 : b_tail b1 = b_len b).
      { rewrite Htail1, Hc, runs_end_from_app. cbn [runs_end_from]. exact Hrun. }
      split.
      { unfold PInv. cbn [b_len b_ones b_tail b_run fst snd]. rewrite Hc, rones_app. cbn [rones].
        repeat split; lia. }
      cbn [b_len b_run fst snd]. split; [lia|]. split; [reflexivity|]. split; [exact Hc|reflexivity].
Qed.

(* ---- a sorted list of runs through try_set ---- *)

Definition try_ops (R : list run) : list bop := map (fun r => BTrySet (fst r) (snd r)) R.
Definition all_true {A} (l : list A) : list bool := map (fun _ => true) l.

Lemma build_runs m : forall rest b BS,
  SInv b BS -> PInv b BS -> snd (b_run b) <> 0 ->
  runs_srt (b_len b) rest -> runs_end_from (b_len b) rest < 2 ^ 64 ->
  exists b' BS', rlb_run m b (try_ops rest) = Ok (b', all_true rest) /\ SInv b' BS' /\ PInv b' BS' /\
    snd (b_run b') <> 0 /\
    concat BS' ++ [b_run b'] = concat BS ++ maximal_from (b_run b) rest /\
    b_len b' = runs_end_from (b_len b) rest.
Proof.
  induction rest as [|[s l] rest IH]; intros b BS HS HP Hp Hsrt Hend.
  - cbn [try_ops map rlb_run all_true maximal_from runs_end_from]. exists b, BS.
    split; [reflexivity|]. split; [assumption|]. split; [assumption|]. split; [assumption|]. split; reflexivity.
  - cbn [runs_srt fst snd] in Hsrt. destruct Hsrt as (Hs & Hl & Hsrt). cbn [runs_end_from fst snd] in Hend.
    pose proof (runs_srt_end _ _ Hsrt) as Hge.
    destruct (try_set_spec m b BS s l HS HP Hs Hl ltac:(lia)) as (b1 & BS1 & Ht & HS1 & HP1 & Hp1 & Hl1 & Hcase).
    replace (snd (b_run b) =? 0) with false in Hcase by lia.
    cbn [try_ops map rlb_run fst snd]. rewrite Ht. cbn [bind].
    rewrite <- Hl1 in Hsrt, Hend.
    destruct (IH b1 BS1 HS1 HP1 Hp1 Hsrt Hend) as (b2 & BS2 & Hr & HS2 & HP2 & Hp2 & Hc2 & Hl2).
    fold (try_ops rest). rewrite Hr. cbn [bind].
    exists b2, BS2. split; [reflexivity|]. split; [assumption|]. split; [assumption|]. split; [assumption|].
    split; [|rewrite Hl2, Hl1; reflexivity].
    rewrite Hc2. cbn [maximal_from].
    destruct HP as (_ & Hrun & _).
    destruct (N.eqb_spec s (b_len b)) as [Heq|Hneq].
    + destruct Hcase as [-> ->]. replace (fst (b_run b) + snd (b_run b) =? s) with true by lia. reflexivity.
    + destruct Hcase as [Hc ->]. replace (fst (b_run b) + snd (b_run b) =? s) with false by lia.
      rewrite Hc, <- app_assoc. reflexivity.
Qed.

(* ---- facts about the samples ---- *)

Lemma nondec_cons x l : (forall y, hd_error l = Some y -> x <= y) -> nondec l -> nondec (x :: l).
Proof. intros H1 H2. cbn [nondec]. split; [|exact H2]. destruct l as [|y t]; [trivial|]. apply H1. reflexivity. Qed.

Lemma nondec_le_last l : forall d x, nondec l -> In x l -> x <= last l d.
Proof.
  induction l as [|a t IH]; intros d x Hnd Hin; [destruct Hin|].
  rewrite last_cons_default. destruct Hnd as [Hh Ht]. destruct Hin as [->|Hin].
  - destruct t as [|y t']; [cbn [last]; lia|].
    assert (y <= last (y :: t') x) by (apply IH; [assumption|left; reflexivity]). lia.
  - apply IH; assumption.
Qed.

Lemma last_map {A B} (f : A -> B) l d : last (map f l) (f d) = f (last l d).
Proof.
  revert d. induction l as [|a t IH]; intros d; [reflexivity|].
  cbn [map]. rewrite !last_cons_default. apply IH.
Qed.

Section Chain.
  Variable g : N -> N -> N.
  Hypothesis g_mono : forall o t b first, o <= t -> runs_ok first t b ->
    g o t <= g (o + rones b) (runs_end_from t b).

  Lemma annot_nondec : forall BS first o t,
    o <= t -> runs_ok first t (concat BS) ->
    nondec (map (fun x => g (ab_ones x) (ab_tail x)) (annot o t BS)).
  Proof.
    induction BS as [|b BS IH]; intros first o t Hot Hok; [exact I|].
    cbn [annot map concat] in *. apply runs_ok_app in Hok. destruct Hok as [Hb Hrest].
    unfold ab_ones at 1, ab_tail at 1. cbn [fst snd].
    pose proof (rones_le_end _ _ _ Hb) as Hle.
    apply nondec_cons.
    - intros y Hy. destruct BS as [|b' BS']; [discriminate|]. cbn [annot map hd_error] in Hy.
      injection Hy as <-. unfold ab_ones, ab_tail. cbn [fst snd]. eapply g_mono; eauto.
    - eapply IH; [|exact Hrest]. lia.
  Qed.
End Chain.

Lemma annot_ones_le_tail : forall BS first o t,
  o <= t -> runs_ok first t (concat BS) -> Forall (fun x => ab_ones x <= ab_tail x) (annot o t BS).
Proof.
  induction BS as [|b BS IH]; intros first o t Hot Hok; [constructor|].
  cbn [annot concat] in *. apply runs_ok_app in Hok. destruct Hok as [Hb Hrest].
  pose proof (rones_le_end _ _ _ Hb) as Hle.
  constructor; [exact Hot|]. eapply IH; [|exact Hrest]. lia.
Qed.

Lemma lenN_blocks_le (BS : list (list run)) :
  Forall (fun bl : list run => bl <> []) BS -> lenN BS <= lenN (concat BS).
Proof.
  induction BS as [|b BS IH]; intros Hall; [unfold lenN; cbn [length concat]; lia|].
  inversion Hall as [|? ? Hb Hr]; subst. cbn [concat]. rewrite lenN_cons, lenN_app.
  specialize (IH Hr). destruct b as [|r b']; [congruence|]. rewrite lenN_cons. lia.
Qed.

Lemma layout_len_le us : Forall (fun x => lenN x <= 64) us -> lenN (layout us) <= 64 * lenN us.
Proof.
  induction us as [|u us IH]; intros Hall; [unfold lenN; cbn [length layout]; lia|].
  inversion Hall as [|? ? Hu Hr]; subst. rewrite lenN_cons. destruct us as [|v us'].
  - cbn [layout]. unfold lenN at 2. cbn [length]. lia.
  - rewrite layout_cons2, lenN_app, lenN_pad64 by assumption. specialize (IH Hr). lia.
Qed.

Lemma push_samples_spec : forall ps v w l,
  iv_rep v w l -> Forall (fun p => fst p < 2 ^ w /\ snd p < 2 ^ w) ps ->
  exists v', push_samples v ps = Ok v' /\ iv_rep v' w (l ++ flat_map (fun p => [fst p; snd p]) ps).
Proof.
  induction ps as [|[o t] ps IH]; intros v w l Hr Hall.
  - exists v. cbn [push_samples flat_map]. rewrite app_nil_r. auto.
  - inversion Hall as [|? ? [Ho Ht] Hrest]; subst. cbn [fst snd] in *. cbn [push_samples].
    destruct (iv_push_rep_small v w l o Hr Ho) as (v1 & Hp1 & Hr1). rewrite Hp1. cbn [bind].
    destruct (iv_push_rep_small v1 w _ t Hr1 Ht) as (v2 & Hp2 & Hr2). rewrite Hp2. cbn [bind].
    destruct (IH v2 w _ Hr2 Hrest) as (v' & Hp & Hr'). exists v'. split; [assumption|].
    cbn [flat_map fst snd]. rewrite <- !app_assoc in Hr'. exact Hr'.
Qed.

Lemma flat_pair_samples AB : flat_map (fun p => [fst p; snd p]) (pair_samples AB) = flat_samples AB.
Proof.
  unfold pair_samples, flat_samples. induction AB as [|a AB IH]; [reflexivity|].
  cbn [map flat_map fst snd]. rewrite IH. reflexivity.
Qed.

Lemma lt_pow2_bit_len x y : x <= y -> y < 2 ^ 64 -> x < 2 ^ bit_len y.
Proof.
  intros Hxy Hy. destruct (N.eq_dec y 0) as [->|Hy0].
  - change (2 ^ bit_len 0) with 2. lia.
  - pose proof (bit_len_bounds y). lia.
Qed.

Lemma last_pair_samples AB : forall d : N * N * list run,
  snd (last (pair_samples AB) (ab_ones d, ab_tail d)) = last (map ab_tail AB) (ab_tail d).
Proof.
  induction AB as [|a AB IH]; intros d; [reflexivity|].
  unfold pair_samples in *. cbn [map]. rewrite !last_cons_default. apply IH.
Qed.

(* ---- From<RLBuilder> on a flushed builder ---- *)

Lemma rl_from_flushed m b BS L :
  SInv b BS -> snd (b_run b) = 0 -> b_ones b = rones (concat BS) -> b_len b = L ->
  b_tail b <= L -> L < 2 ^ 64 -> lenN (concat BS) < 2 ^ 56 ->
  exists v, rl_from m b = Ok v /\ rl_ok v BS L.
Proof.
  intros HS Hr0 Hones HlenL HtL HL Hcnt.
  pose proof HS as (Hne & Hu & Hok & Htail & Hsam & Hdata).
  unfold rl_from. rewrite flush_noop by assumption. cbn [bind].
  pose proof (lenN_blocks_le BS Hne) as Hnb.
  set (AB := annot 0 0 BS) in *.
  assert (Htails : map snd (b_samples b) = map ab_tail AB).
  { rewrite Hsam. unfold pair_samples. rewrite map_map. reflexivity. }
  assert (Hones' : map fst (b_samples b) = map ab_ones AB).
  { rewrite Hsam. unfold pair_samples. rewrite map_map. reflexivity. }
  assert (Hzeros : map (fun s => snd s - fst s) (b_samples b) = map (fun x => ab_tail x - ab_ones x) AB).
  { rewrite Hsam. unfold pair_samples. rewrite map_map. reflexivity. }
  rewrite Htails, Hones', Hzeros. unfold rlb_count_zeros, rlb_blocks. rewrite HlenL, Hones.
  pose proof (rones_le_end _ _ _ Hok) as Hro. rewrite <- Htail in Hro.
  assert (Hnd_t : nondec (map ab_tail AB)).
  { apply (annot_nondec (fun o t => t)) with (first := true); [|lia|assumption].
    intros o t bl first _ Hb. eapply runs_ok_end; eauto. }
  assert (Hnd_o : nondec (map ab_ones AB)).
  { apply (annot_nondec (fun o t => o)) with (first := true); [|lia|assumption]. intros; lia. }
  assert (Hnd_z : nondec (map (fun x => ab_tail x - ab_ones x) AB)).
  { apply (annot_nondec (fun o t => t - o)) with (first := true); [|lia|assumption].
    intros o t bl first Hot Hb. pose proof (rones_le_end _ _ _ Hb). lia. }
  assert (Hot : Forall (fun x => ab_ones x <= ab_tail x) AB).
  { apply annot_ones_le_tail with (first := true); [lia|assumption]. }
  (* the three indexes *)
  assert (Hidx : exists ri si zi,
     si_new m (map ab_tail AB) L = Ok ri /\ si_new m (map ab_ones AB) (rones (concat BS)) = Ok si /\
     si_new m (map (fun x => ab_tail x - ab_ones x) AB) (L - rones (concat BS)) = Ok zi /\
     match BS with [] => si_is_empty ri | _ => si_ok ri (map ab_tail AB) L end /\
     match BS with [] => si_is_empty si | _ => si_ok si (map ab_ones AB) (rones (concat BS)) end /\
     (BS = [] -> si_is_empty zi) /\
     (BS <> [] -> L - rones (concat BS) <> 0 ->
      si_ok zi (map (fun x => ab_tail x - ab_ones x) AB) (L - rones (concat BS)))).
  { assert (Hcases : BS = [] \/ BS <> []) by (destruct BS; [left; reflexivity|right; discriminate]).
    destruct Hcases as [HBS|HBSne].
    - subst BS. subst AB. cbn [annot map].
      destruct (si_new_empty m [] L (or_introl eq_refl)) as (ri & -> & Hri).
      destruct (si_new_empty m [] (rones (concat [])) (or_introl eq_refl)) as (si & -> & Hsi).
      destruct (si_new_empty m [] (L - rones (concat [])) (or_introl eq_refl)) as (zi & -> & Hzi).
      exists ri, si, zi. split; [reflexivity|]. split; [reflexivity|]. split; [reflexivity|].
      split; [assumption|]. split; [assumption|]. split; [intros _; assumption|intros H; congruence].
    - assert (HF : concat BS <> []) by (intros Hc; apply HBSne; apply concat_nonempty_blocks; assumption).
      assert (HAB : exists r AB', AB = (0, 0, r) :: AB') by (subst AB; destruct BS; [congruence|cbn [annot]; eauto]).
      destruct HAB as (r0 & AB' & HAB).
      pose proof (runs_ok_end_strict _ _ _ HF Hok) as Hend1.
      assert (Hones1 : 1 <= rones (concat BS)).
      { destruct (concat BS) as [|rr ?]; [congruence|]. cbn [rones runs_ok] in *. lia. }
      assert (HlV : forall f : N * N * list run -> N, lenN (map f AB) + 8 < 2 ^ 64).
      { intros f. rewrite lenN_map. subst AB. rewrite annot_lenN.
        assert (2 ^ 56 + 8 < 2 ^ 64) by reflexivity. lia. }
      destruct (si_new_spec m (map ab_tail AB) L) as (ri & Hri & Hriok); try assumption; try lia.
      { rewrite HAB. discriminate. } { rewrite HAB. reflexivity. } { apply HlV. }
      destruct (si_new_spec m (map ab_ones AB) (rones (concat BS))) as (si & Hsi & Hsiok); try assumption; try lia.
      { rewrite HAB. discriminate. } { rewrite HAB. reflexivity. } { apply HlV. }
      rewrite Hri, Hsi.
      destruct (N.eq_dec (L - rones (concat BS)) 0) as [Hz|Hz].
      + destruct (si_new_empty m (map (fun x => ab_tail x - ab_ones x) AB) (L - rones (concat BS)) (or_intror Hz))
          as (zi & -> & Hzi).
        exists ri, si, zi.
        split; [reflexivity|]. split; [reflexivity|]. split; [reflexivity|].
        split; [destruct BS; [congruence|assumption]|]. split; [destruct BS; [congruence|assumption]|].
        split; [intros; congruence|intros; congruence].
      + destruct (si_new_spec m (map (fun x => ab_tail x - ab_ones x) AB) (L - rones (concat BS)))
          as (zi & Hzi & Hziok); try assumption; try lia.
        { rewrite HAB. discriminate. } { rewrite HAB. reflexivity. } { apply HlV. }
        rewrite Hzi. exists ri, si, zi.
        split; [reflexivity|]. split; [reflexivity|]. split; [reflexivity|].
        split; [destruct BS; [congruence|assumption]|]. split; [destruct BS; [congruence|assumption]|].
        split; [intros; congruence|intros; assumption]. }
  destruct Hidx as (ri & si & zi & -> & -> & -> & Hri & Hsi & Hzi0 & Hzi). cbn [bind].
  (* the compressed samples *)
  set (T := last (map ab_tail AB) 0).
  assert (HT : snd (last (b_samples b) (0, 0)) = T).
  { rewrite Hsam. exact (last_pair_samples AB (0, 0, [])). }
  rewrite HT.
  assert (HTL : T <= L).
  { subst T.
    assert (G : forall BS0 first o t, runs_ok first t (concat BS0) ->
                Forall (fun y => y <= runs_end_from t (concat BS0)) (map ab_tail (annot o t BS0))).
    { induction BS0 as [|b0 BS0 IH]; intros first o t Hk; [constructor|].
      cbn [annot map concat] in *. apply runs_ok_app in Hk. destruct Hk as [Hb0 Hrest0].
      rewrite runs_end_from_app. constructor.
      - unfold ab_tail. cbn [fst snd]. pose proof (runs_ok_end _ _ _ Hb0). pose proof (runs_ok_end _ _ _ Hrest0). lia.
      - eapply IH. exact Hrest0. }
    specialize (G BS true 0 0 Hok). fold AB in G. rewrite <- Htail in G.
    apply last_Forall; [|lia]. eapply Forall_impl; [|exact G]. cbn beta. intros; lia. }
  assert (Hw : 1 <= bit_len T <= 64) by (apply bit_len_le_64; lia).
  destruct (iv_with_capacity_rep (2 * lenN (b_samples b)) (bit_len T) Hw) as (Hcap & Hrep0).
  rewrite Hcap. cbn [unwrap_opt bind].
  destruct (push_samples_spec (b_samples b) _ (bit_len T) [] Hrep0) as (sv & Hps & Hsv).
  { rewrite Hsam. unfold pair_samples. apply Forall_forall. intros p Hp. apply in_map_iff in Hp.
    destruct Hp as (x & <- & Hx). cbn [fst snd].
    assert (Hxt : ab_tail x <= T).
    { subst T. apply nondec_le_last; [assumption|]. apply in_map. assumption. }
    rewrite Forall_forall in Hot. specialize (Hot x Hx).
    split; apply lt_pow2_bit_len; lia. }
  rewrite Hps. cbn [bind]. eexists. split; [reflexivity|].
  cbn [app] in Hsv. rewrite Hsam, flat_pair_samples in Hsv.
  pose proof (layout_len_le (map ab_units AB)) as Hdl. rewrite lenN_map in Hdl. subst AB. rewrite annot_lenN in Hdl.
  assert (Hus : Forall (fun x => lenN x <= 64) (map ab_units (annot 0 0 BS))).
  { apply Forall_forall. intros x Hx. apply in_map_iff in Hx. destruct Hx as (y & <- & Hy).
    rewrite Forall_forall in Hu. apply Hu. assumption. }
  specialize (Hdl Hus).
  assert (H56 : 64 * 2 ^ 56 + 64 < 2 ^ 64) by reflexivity.
  assert (H63 : 2 ^ 56 <= 2 ^ 63) by (apply N.pow_le_mono_r; lia).
  constructor; cbn [rl_len rl_ones rl_rank_index rl_select_index rl_select_zero_index rl_samples rl_data];
    try assumption; try lia.
  - unfold data_of. lia.
  - exists (bit_len T). exact Hsv.
  - split; assumption.
Qed.

(* ---- the whole construction ---- *)

Definition build_ops (R : list run) (L : N) : list bop := try_ops R ++ [BSetLen L].

Lemma rlb_run_app m : forall o1 o2 b,
  rlb_run m b (o1 ++ o2) =
  (let* (b1, k1) := rlb_run m b o1 in let* (b2, k2) := rlb_run m b1 o2 in Ok (b2, k1 ++ k2)).
Proof.
  induction o1 as [|o o1 IH]; intros o2 b.
  - cbn [app rlb_run bind]. destruct (rlb_run m b o2) as [[b2 k2]| |]; reflexivity.
  - cbn [app rlb_run].
    destruct (match o with
              | BTrySet s l => rlb_try_set m b s l
              | BSetLen l => let* b' := rlb_set_len m b l in Ok (b', true)
              | BSetBit i => let* b' := rlb_set_bit_unchecked m b i in Ok (b', true)
              end) as [[b' ok]| |]; cbn [bind]; try reflexivity.
    rewrite IH. destruct (rlb_run m b' o1) as [[b1 k1]| |]; cbn [bind]; try reflexivity.
    destruct (rlb_run m b1 o2) as [[b2 k2]| |]; reflexivity.
Qed.

Lemma rl_from_after_flush m b b1 :
  rlb_flush m b = Ok b1 -> snd (b_run b1) = 0 -> rl_from m b = rl_from m b1.
Proof. intros Hf H0. unfold rl_from. rewrite Hf, (flush_noop m b1 H0). reflexivity. Qed.

Lemma maximal_from_len : forall rest cur, lenN (maximal_from cur rest) <= 1 + lenN rest.
Proof.
  induction rest as [|[s l] rest IH]; intros cur; cbn [maximal_from].
  - unfold lenN. cbn [length]. lia.
  - rewrite (lenN_cons (s, l)). destruct (fst cur + snd cur =? s).
    + specialize (IH (fst cur, snd cur + l)). lia.
    + rewrite lenN_cons. specialize (IH (s, l)). lia.
Qed.

Lemma SInv_init : SInv (mkrlb 0 0 0 (0, 0) [] (mkiv 0 4 raw_new)) [].
Proof.
  unfold SInv. cbn [b_tail b_samples b_data concat annot].
  split; [constructor|]. split; [constructor|]. split; [exact I|]. split; [reflexivity|]. split; [reflexivity|].
  apply iv_rep_new. lia.
Qed.
Lemma PInv_init : PInv (mkrlb 0 0 0 (0, 0) [] (mkiv 0 4 raw_new)) [].
Proof.
  unfold PInv. cbn [b_len b_ones b_tail b_run concat fst snd rones].
  split; [reflexivity|]. split; [reflexivity|]. split; [reflexivity|]. split; [lia|]. intros H; congruence.
Qed.

(* a builder whose pending run is (if any) flushed by From *)
Lemma rl_from_spec m b BS L :
  SInv b BS -> PInv b BS -> b_len b = L ->
  lenN (concat BS ++ (if snd (b_run b) =? 0 then [] else [b_run b])) < 2 ^ 56 ->
  exists v BS', rl_from m b = Ok v /\ rl_ok v BS' L /\
    concat BS' = concat BS ++ (if snd (b_run b) =? 0 then [] else [b_run b]).
Proof.
  intros HS HP HL Hcnt. pose proof HP as (Hones & Hrun & Hlen & Htr & Hgap).
  destruct (N.eqb_spec (snd (b_run b)) 0) as [Hz|Hnz].
  - rewrite app_nil_r in Hcnt. destruct (rl_from_flushed m b BS L HS Hz) as (v & Hv & Hok); try lia.
    exists v, BS. rewrite app_nil_r. auto.
  - destruct (flush_spec m b BS HS HP Hnz) as (b1 & BS1 & Hf & HS1 & Hc & Hl1 & Ho1 & Hr1).
    rewrite (rl_from_after_flush m b b1 Hf) by (rewrite Hr1; reflexivity).
    pose proof HS1 as (_ & _ & _ & Htail1 & _).
    destruct (rl_from_flushed m b1 BS1 L HS1) as (v & Hv & Hok); try lia.
    + rewrite Hr1. reflexivity.
    + rewrite Ho1, Hones, Hc, rones_app. cbn [rones]. lia.
    + rewrite Htail1, Hc, runs_end_from_app. cbn [runs_end_from]. lia.
    + rewrite Hc. exact Hcnt.
    + exists v, BS1. auto.
Qed.

Lemma set_len_spec m b BS L :
  SInv b BS -> PInv b BS -> b_len b <= L -> L < 2 ^ 64 ->
  exists b' BS', rlb_set_len m b L = Ok b' /\ SInv b' BS' /\ PInv b' BS' /\ b_len b' = L /\
    concat BS' ++ (if snd (b_run b') =? 0 then [] else [b_run b']) =
    concat BS ++ (if snd (b_run b) =? 0 then [] else [b_run b]).
Proof.
  intros HS HP HL HL64. pose proof HP as (Hones & Hrun & Hlen & Htr & Hgap).
  unfold rlb_set_len. destruct (N.ltb_spec (b_len b) L) as [Hlt|Hge].
  - destruct (N.eqb_spec (snd (b_run b)) 0) as [Hz|Hnz].
    + rewrite flush_noop by assumption. cbn [bind]. eexists. exists BS. split; [reflexivity|].
      destruct HS as (H1 & H2 & H3 & Htail & H5 & H6).
      split; [unfold SInv; cbn [b_tail b_samples b_data]; exact (conj H1 (conj H2 (conj H3 (conj Htail (conj H5 H6)))))|].
      split; [unfold PInv; cbn [b_len b_ones b_tail b_run fst snd]; repeat split; lia|].
      cbn [b_len b_run snd]. split; [reflexivity|]. reflexivity.
    + destruct (flush_spec m b BS HS HP Hnz) as (b1 & BS1 & Hf & HS1 & Hc & Hl1 & Ho1 & Hr1).
      rewrite Hf. cbn [bind]. eexists. exists BS1. split; [reflexivity|].
      destruct HS1 as (H1 & H2 & H3 & Htail1 & H5 & H6).
      split; [unfold SInv; cbn [b_tail b_samples b_data]; exact (conj H1 (conj H2 (conj H3 (conj Htail1 (conj H5 H6)))))|].
      assert (Ht1 : b_tail b1 = b_len b).
      { rewrite Htail1, Hc, runs_end_from_app. cbn [runs_end_from]. exact Hrun. }
      split.
      { unfold PInv. cbn [b_len b_ones b_tail b_run fst snd]. rewrite Ho1, Hones, Hc, rones_app. cbn [rones].
        repeat split; lia. }
      cbn [b_len b_run snd]. split; [reflexivity|]. change (0 =? 0) with true. cbn iota.
      rewrite app_nil_r. exact Hc.
  - exists b, BS. split; [reflexivity|]. split; [assumption|]. split; [assumption|]. split; [lia|reflexivity].
Qed.

Theorem rl_build_ok m R L :
  runs_srt 0 R -> runs_end_from 0 R <= L -> L < 2 ^ 64 -> lenN R < 2 ^ 56 ->
  exists v BS, rl_build m (build_ops R L) = Ok (v, all_true R ++ [true]) /\ rl_ok v BS L /\ concat BS = maximal R.
Proof.
  intros Hsrt Hend HL Hcnt. unfold rl_build, rlb_new, build_ops.
  destruct (iv_rep_new 4 ltac:(lia)) as (Hnew & _). change rl_CODE_SIZE with 4. rewrite Hnew.
  cbn [unwrap_opt bind]. rewrite rlb_run_app.
  set (b0 := mkrlb 0 0 0 (0, 0) [] (mkiv 0 4 raw_new)).
  assert (Hmid : exists b1 BS1, rlb_run m b0 (try_ops R) = Ok (b1, all_true R) /\ SInv b1 BS1 /\ PInv b1 BS1 /\
            b_len b1 = runs_end_from 0 R /\
            concat BS1 ++ (if snd (b_run b1) =? 0 then [] else [b_run b1]) = maximal R).
  { destruct R as [|[s l] rest].
    - exists b0, []. cbn [try_ops map rlb_run all_true]. split; [reflexivity|].
      split; [apply SInv_init|]. split; [apply PInv_init|]. split; reflexivity.
    - cbn [runs_srt fst snd] in Hsrt. destruct Hsrt as (Hs & Hl & Hsrt). cbn [runs_end_from fst snd] in Hend.
      pose proof (runs_srt_end _ _ Hsrt) as Hge.
      destruct (try_set_spec m b0 [] s l SInv_init PInv_init) as (b1 & BS1 & Ht & HS1 & HP1 & Hp1 & Hl1 & Hcase);
        [cbn [b_len b0]; lia|lia|lia|].
      cbn [b_run b0 snd] in Hcase. change (0 =? 0) with true in Hcase. cbn iota in Hcase.
      destruct Hcase as [-> Hr1].
      rewrite <- Hl1 in Hsrt.
      destruct (build_runs m rest b1 [] HS1 HP1 Hp1 Hsrt) as (b2 & BS2 & Hr & HS2 & HP2 & Hp2 & Hc2 & Hl2); [rewrite Hl1; lia|].
      exists b2, BS2. cbn [try_ops map rlb_run fst snd]. rewrite Ht. cbn [bind].
      fold (try_ops rest). rewrite Hr. cbn [bind].
      split; [reflexivity|]. split; [assumption|]. split; [assumption|].
      split; [rewrite Hl2, Hl1; reflexivity|].
      replace (snd (b_run b2) =? 0) with false by lia. rewrite Hc2, Hr1. reflexivity. }
  destruct Hmid as (b1 & BS1 & Hrun1 & HS1 & HP1 & Hl1 & Hc1). rewrite Hrun1. cbn [bind].
  destruct (set_len_spec m b1 BS1 L HS1 HP1 ltac:(lia) HL) as (b2 & BS2 & Hsl & HS2 & HP2 & Hl2 & Hc2).
  cbn [rlb_run]. rewrite Hsl. cbn [bind].
  assert (Hmax : lenN (maximal R) <= lenN R).
  { destruct R as [|r rest]; [cbn [maximal]; lia|]. cbn [maximal]. rewrite lenN_cons. apply maximal_from_len. }
  destruct (rl_from_spec m b2 BS2 L HS2 HP2 Hl2) as (v & BS3 & Hv & Hok & Hc3).
  { rewrite Hc2, Hc1. lia. }
  rewrite Hv. cbn [bind]. exists v, BS3. split; [reflexivity|]. split; [assumption|].
  rewrite Hc3, Hc2, Hc1. reflexivity.
Qed.
