(* The RLBuilder and `From<RLBuilder> for RLVector`: every valid history of try_set calls followed by set_len
   is accepted, never panics, and produces a vector that satisfies [rl_ok] for a grouping of the MAXIMAL runs
   of the input into blocks (block partition: whole runs per block, at most 64 code units, zero padding,
   sample = (ones, bits) before the block). *)
From Coq Require Import NArith List Lia ZArith Bool.
Require Import SDS.Model.Mach SDS.Model.Bits SDS.Model.Raw SDS.Model.IntVec SDS.Model.RL SDS.gen.Consts SDS.gen.Funs.
Require Import SDS.Spec.Runs.
Require Import SDS.Proofs.BitsProof SDS.Proofs.RLIntVec SDS.Proofs.RLVarint SDS.Proofs.RLIndex SDS.Proofs.RLRep.
Import ListNotations.
Open Scope N_scope.
Require Import ZifyBool ZifyN ZifyNat.
Ltac Zify.zify_post_hook ::= Z.div_mod_to_equations.
Arguments N.add : simpl never. Arguments N.sub : simpl never. Arguments N.mul : simpl never.
Arguments N.eqb : simpl never. Arguments N.ltb : simpl never. Arguments N.leb : simpl never.
Arguments N.pow : simpl never. Arguments N.shiftl : simpl never. Arguments N.shiftr : simpl never.
Arguments N.land : simpl never. Arguments N.lor : simpl never. Arguments N.div : simpl never.
Arguments N.modulo : simpl never. Arguments N.ones : simpl never. Arguments N.testbit : simpl never.

(* ---- invariants ---- *)

(* the flushed runs, grouped into blocks, are what samples and data hold *)
Definition SInv (b : rlbuilder) (BS : list block) : Prop :=
  Forall (fun bl : block => bl <> []) BS /\
  Forall (fun x => lenN (ab_units x) <= 64) (annot 0 0 BS) /\
  runs_ok true 0 (concat BS) /\
  b_tail b = runs_end_from 0 (concat BS) /\
  b_samples b = pair_samples (annot 0 0 BS) /\
  iv_rep (b_data b) 4 (data_of BS).

(* the pending run *)
Definition PInv (b : rlbuilder) (BS : list block) : Prop :=
  b_ones b = rones (concat BS) + snd (b_run b) /\
  fst (b_run b) + snd (b_run b) = b_len b /\
  b_len b < 2 ^ 64 /\
  b_tail b <= fst (b_run b) /\
  (concat BS <> [] -> b_tail b < fst (b_run b)).

Lemma list_snoc_case {A} (l : list A) : l = [] \/ exists l' a, l = l' ++ [a].
Proof.
  destruct l as [|x t]; [left; reflexivity|right].
  destruct (@exists_last A (x :: t)) as (l' & a & E); [discriminate|]. eauto.
Qed.

Lemma iv_resize_same v w l n : iv_rep v w l -> n = lenN l -> iv_resize v n 0 = Ok v.
Proof.
  intros Hr ->. unfold iv_resize. rewrite (iv_rep_ilen _ _ _ Hr).
  replace (lenN l <? lenN l) with false by lia. reflexivity.
Qed.

Lemma enc_two_len a c : 2 <= lenN (enc a) + lenN (enc c) <= 44.
Proof. pose proof (enc_len a). pose proof (enc_len c). lia. Qed.

Lemma concat_snoc {A} (l : list (list A)) x : concat (l ++ [x]) = concat l ++ x.
Proof. rewrite concat_app. cbn [concat]. rewrite app_nil_r. reflexivity. Qed.

Lemma concat_nonempty_blocks (BS : list block) :
  Forall (fun bl : block => bl <> []) BS -> concat BS = [] -> BS = [].
Proof.
  intros Hall Hc. destruct BS as [|bl t]; [reflexivity|]. inversion Hall; subst.
  cbn [concat] in Hc. destruct bl; [congruence|discriminate].
Qed.

(* annot of blocks ++ one more block *)
Lemma annot_snoc BS bl :
  annot 0 0 (BS ++ [bl]) = annot 0 0 BS ++ [(rones (concat BS), runs_end_from 0 (concat BS), bl)].
Proof. rewrite annot_app. cbn [annot]. rewrite N.add_0_l. reflexivity. Qed.

Lemma pair_samples_app A B : pair_samples (A ++ B) = pair_samples A ++ pair_samples B.
Proof. apply map_app. Qed.

(* ---- flush ---- *)

Lemma flush_noop m b : snd (b_run b) = 0 -> rlb_flush m b = Ok b.
Proof. intros H. unfold rlb_flush. rewrite H. reflexivity. Qed.

Lemma flush_spec m b BS :
  SInv b BS -> PInv b BS -> snd (b_run b) <> 0 ->
  exists b' BS', rlb_flush m b = Ok b' /\ SInv b' BS' /\ concat BS' = concat BS ++ [b_run b] /\
    b_len b' = b_len b /\ b_ones b' = b_ones b /\ b_run b' = (b_len b, 0).
Proof.
  intros (Hne & Hu & Hok & Htail & Hsam & Hdata) (Hones & Hrun & Hlen & Htr & Hgap) Hr1.
  remember (rlb_flush m b) as E eqn:HE. unfold rlb_flush in HE.
  set (s := fst (b_run b)) in *. set (l := snd (b_run b)) in *.
  replace (l <=? 0) with false in HE by lia.
  rewrite usub_ok in HE by lia. cbn [bind] in HE. rewrite usub_ok in HE by lia. cbn [bind] in HE.
  rewrite !rl_code_len_spec in HE by lia. cbn [bind] in HE.
  set (u1 := enc (s - b_tail b)) in *. set (u2 := enc (l - 1)) in *.
  pose proof (enc_two_len (s - b_tail b) (l - 1)) as Hneed. fold u1 u2 in Hneed.
  change rl_BLOCK_SIZE with 64 in HE. unfold rlb_blocks in HE. rewrite Hsam, lenN_pair_samples, annot_lenN in HE.
  rewrite (iv_rep_ilen _ _ _ Hdata) in HE.
  assert (Hr_eq : b_run b = (s, l)) by (subst s l; destruct (b_run b); reflexivity).
  assert (Hrl : rones (concat BS) <= b_ones b /\ b_ones b - l = rones (concat BS)) by lia.
  assert (Hokr : runs_ok true 0 (concat BS ++ [(s, l)])).
  { apply runs_ok_app. split; [assumption|]. cbn [runs_ok fst snd]. rewrite <- Htail.
    destruct (concat BS) as [|r0 F0] eqn:EF.
    - repeat split; lia.
    - assert (b_tail b < s) by (apply Hgap; discriminate). repeat split; lia. }
  assert (Hend : s + l = runs_end_from 0 (concat BS ++ [(s, l)])).
  { rewrite runs_end_from_app. reflexivity. }
  destruct (list_snoc_case BS) as [->|(BS0 & bl & ->)].
  - (* no block yet *)
    unfold data_of in *. cbn [annot map layout concat rones runs_end_from] in *.
    match type of HE with context [?a <? ?c] => destruct (N.ltb_spec a c) as [Hnew|Hfit] end;
      [|exfalso; unfold lenN in *; cbn [length] in *; lia].
    rewrite (iv_resize_same _ _ _ _ Hdata) in HE by (unfold lenN; cbn [length]; lia). cbn [bind] in HE.
    rewrite usub_ok in HE by lia. cbn [bind] in HE.
    destruct (rl_encode_spec (b_data b) [] (s - b_tail b) Hdata) as (d1 & He1 & Hd1); [lia|].
    rewrite He1 in HE. cbn [bind] in HE.
    destruct (rl_encode_spec d1 _ (l - 1) Hd1) as (d2 & He2 & Hd2); [lia|].
    rewrite He2 in HE. cbn [bind] in HE. rewrite uadd_ok in HE by lia. cbn [bind] in HE.
    rewrite HE. eexists. exists [[(s, l)]]. split; [reflexivity|].
    split; [|cbn [concat app b_len b_ones b_run]; rewrite Hr_eq; repeat split; reflexivity].
    unfold SInv. cbn [b_len b_ones b_tail b_run b_samples b_data concat app annot].
    split; [constructor; [discriminate|constructor]|].
    split.
    { constructor; [|constructor]. unfold ab_units, ab_tail, ab_runs. cbn [fst snd enc_runs].
      rewrite app_nil_r, lenN_app. pose proof (enc_two_len (s - 0) (l - 1)). lia. }
    split; [exact Hokr|]. split; [exact Hend|].
    split.
    { unfold pair_samples. cbn [map app]. unfold ab_ones, ab_tail. cbn [fst snd].
      rewrite Htail. f_equal. f_equal. lia. }
    unfold data_of. cbn [annot map layout]. unfold ab_units, ab_tail, ab_runs. cbn [fst snd enc_runs].
    rewrite app_nil_r. cbn [app] in Hd2. rewrite Htail in Hd2. exact Hd2.
  - (* at least one block: the last one is bl *)
    rewrite (concat_snoc BS0 bl) in Hok, Htail, Hones, Hgap, Hokr, Hend, Hrl.
    rewrite (annot_snoc BS0 bl) in Hu, Hsam, HE.
    set (o0 := rones (concat BS0)) in *. set (t0 := runs_end_from 0 (concat BS0)) in *.
    apply Forall_app in Hu. destruct Hu as [Hu0 Hul]. pose proof (Forall_inv Hul) as Hulen.
    unfold ab_units, ab_tail, ab_runs in Hulen. cbn [fst snd] in Hulen.
    assert (Hus0 : Forall (fun x => lenN x <= 64) (map ab_units (annot 0 0 BS0))).
    { apply Forall_forall. intros x Hx. apply in_map_iff in Hx. destruct Hx as (y & <- & Hy).
      rewrite Forall_forall in Hu0. apply Hu0. assumption. }
    assert (Htl : b_tail b = runs_end_from t0 bl) by (rewrite Htail, runs_end_from_app; reflexivity).
    assert (HD : data_of (BS0 ++ [bl]) = layout (map ab_units (annot 0 0 BS0) ++ [enc_runs t0 bl])).
    { unfold data_of. rewrite annot_snoc, map_app. reflexivity. }
    rewrite HD in Hdata, HE.
    set (ul := enc_runs t0 bl) in *.
    rewrite layout_snoc_len in HE by assumption. rewrite lenN_map, annot_lenN in HE.
    rewrite lenN_app in HE. change (lenN [bl]) with 1 in HE.
    apply Forall_app in Hne. destruct Hne as [Hne0 Hnel].
    destruct (N.ltb_spec ((lenN BS0 + 1) * 64) (64 * lenN BS0 + lenN ul + (lenN u1 + lenN u2))) as [Hnew|Hfit].
    + (* new block *)
      destruct (iv_resize_grow _ _ _ ((lenN BS0 + 1) * 64) Hdata) as (dp & Hrs & Hdp).
      { rewrite layout_snoc_len by assumption. rewrite lenN_map, annot_lenN. lia. }
      rewrite Hrs in HE. cbn [bind] in HE. rewrite usub_ok in HE by lia. cbn [bind] in HE.
      destruct (rl_encode_spec dp _ (s - b_tail b) Hdp) as (d1 & He1 & Hd1); [lia|].
      rewrite He1 in HE. cbn [bind] in HE.
      destruct (rl_encode_spec d1 _ (l - 1) Hd1) as (d2 & He2 & Hd2); [lia|].
      rewrite He2 in HE. cbn [bind] in HE. rewrite uadd_ok in HE by lia. cbn [bind] in HE.
      rewrite HE. eexists. exists ((BS0 ++ [bl]) ++ [[(s, l)]]). split; [reflexivity|].
      split; [|rewrite !concat_snoc; cbn [b_len b_ones b_run]; rewrite Hr_eq; repeat split; reflexivity].
      unfold SInv. cbn [b_len b_ones b_tail b_run b_samples b_data].
      rewrite (concat_snoc (BS0 ++ [bl])), (concat_snoc BS0 bl).
      rewrite (annot_snoc (BS0 ++ [bl])), (concat_snoc BS0 bl), (annot_snoc BS0 bl).
      fold o0 t0. rewrite rones_app, runs_end_from_app. fold t0. rewrite <- Htl.
      split.
      { apply Forall_app. split; [apply Forall_app; split; assumption|]. constructor; [discriminate|constructor]. }
      split.
      { apply Forall_app. split; [apply Forall_app; split; assumption|]. constructor; [|constructor].
        unfold ab_units, ab_tail, ab_runs. cbn [fst snd enc_runs]. rewrite app_nil_r, lenN_app.
        pose proof (enc_two_len (s - b_tail b) (l - 1)). lia. }
      split; [exact Hokr|]. split; [rewrite <- Hend; reflexivity|].
      split.
      { rewrite !pair_samples_app. f_equal. unfold pair_samples. cbn [map].
        unfold ab_ones, ab_tail. cbn [fst snd]. f_equal. f_equal. rewrite rones_app in Hrl. lia. }
      unfold data_of. rewrite (annot_snoc (BS0 ++ [bl])), (concat_snoc BS0 bl), (annot_snoc BS0 bl). fold o0 t0.
      rewrite (map_app ab_units (annot 0 0 BS0 ++ [(o0, t0, bl)])). cbn [map].
      rewrite layout_snoc_new.
      * rewrite map_app. cbn [map]. change (ab_units (o0, t0, bl)) with ul.
        rewrite runs_end_from_app. fold t0. rewrite <- Htl.
        change (ab_units (rones (concat BS0 ++ bl), b_tail b, [(s, l)])) with (enc (s - b_tail b) ++ enc (l - 1) ++ []).
        rewrite lenN_app, lenN_map, annot_lenN. change (lenN [ul]) with 1. rewrite app_nil_r.
        replace (64 * (lenN BS0 + 1)) with ((lenN BS0 + 1) * 64) by lia.
        rewrite <- ?app_assoc in Hd2. rewrite <- ?app_assoc. exact Hd2.
      * destruct (annot 0 0 BS0); discriminate.
      * rewrite map_app. apply Forall_app. split; [assumption|]. constructor; [|constructor].
        unfold ab_units, ab_tail, ab_runs. cbn [fst snd]. assumption.
    + (* the run fits into the last block *)
      replace ((lenN BS0 + 1) * 64 <? 64 * lenN BS0 + lenN ul + (lenN u1 + lenN u2)) with false in HE by lia.
      cbn [bind] in HE.
      destruct (rl_encode_spec (b_data b) _ (s - b_tail b) Hdata) as (d1 & He1 & Hd1); [lia|].
      rewrite He1 in HE. cbn [bind] in HE.
      destruct (rl_encode_spec d1 _ (l - 1) Hd1) as (d2 & He2 & Hd2); [lia|].
      rewrite He2 in HE. cbn [bind] in HE. rewrite uadd_ok in HE by lia. cbn [bind] in HE.
      rewrite HE. eexists. exists (BS0 ++ [bl ++ [(s, l)]]). split; [reflexivity|].
      split; [|rewrite !concat_snoc, <- app_assoc; cbn [b_len b_ones b_run]; rewrite Hr_eq; repeat split; reflexivity].
      unfold SInv. cbn [b_len b_ones b_tail b_run b_samples b_data].
      rewrite (concat_snoc BS0), (annot_snoc BS0). fold o0 t0. rewrite app_assoc.
      assert (Hul' : enc_runs t0 (bl ++ [(s, l)]) = ul ++ u1 ++ u2).
      { rewrite enc_runs_app. cbn [enc_runs fst snd]. rewrite <- Htl. rewrite app_nil_r. reflexivity. }
      split.
      { apply Forall_app. split; [assumption|]. constructor; [|constructor]. destruct bl; discriminate. }
      split.
      { apply Forall_app. split; [assumption|]. constructor; [|constructor].
        unfold ab_units, ab_tail, ab_runs. cbn [fst snd]. rewrite Hul', !lenN_app. lia. }
      split; [exact Hokr|]. split; [rewrite <- Hend; reflexivity|].
      split.
      { rewrite !pair_samples_app. reflexivity. }
      unfold data_of. rewrite (annot_snoc BS0). fold o0 t0. rewrite map_app. cbn [map].
      unfold ab_units at 2. unfold ab_tail, ab_runs. cbn [fst snd]. rewrite Hul'.
      rewrite layout_snoc_ext. rewrite <- app_assoc in Hd2. exact Hd2.
Qed.
