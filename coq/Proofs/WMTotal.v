(* C09 for the wavelet matrix and its core: every query of Model/WM.v is total on a built matrix. Any
   (index, rank, value) below 2^64, in both overflow-check modes and both select paths, gets the documented
   answer and never a panic:
     rank(i >= len, v) = number of occurrences of v;  select(r >= occurrences, v) = None and select_iter is empty
     (and stays empty);  inverse_select(i >= len) = None;  successor(i >= len, v) is empty;
     predecessor(i >= len - 1, v) starts at the last occurrence (so predecessor(usize::MAX, v) =
     predecessor(len - 1, v));  values that do not occur - inside the alphabet, above the maximum, or with bits
     above the width - have no occurrences;  the core maps look only at the low `width` bits of the value,
     map_down(i >= len) = None, map_down_with clamps the index, map_up_with(j >= len) = None and
     map_up_with(j, v) = None unless the reordered item j is v.
   Corollaries of the theorems of Proofs/WMProof.v (C04) through Proofs/WMClosed.v, and of facts about the list
   specification Spec/Seq.v. *)
From Coq Require Import NArith List Lia ZArith Bool Permutation Sorted.
Require Import SDS.Model.Mach SDS.Model.Bits SDS.Model.Raw SDS.Model.IntVec SDS.Model.BitVec SDS.Model.WM.
Require Import SDS.Spec.BitSeq SDS.Spec.Seq.
Require Import SDS.Proofs.BitsProof SDS.Proofs.BVCommon SDS.Proofs.WMSeq SDS.Proofs.WMSpec SDS.Proofs.WMLevels
               SDS.Proofs.WMOffsets SDS.Proofs.WMProof SDS.Proofs.WMClosed.
Import ListNotations.
Open Scope N_scope.
Require Import ZifyBool ZifyN ZifyNat.
Ltac Zify.zify_post_hook ::= Z.div_mod_to_equations.
Arguments N.add : simpl never. Arguments N.sub : simpl never. Arguments N.mul : simpl never.
Arguments N.eqb : simpl never. Arguments N.ltb : simpl never. Arguments N.leb : simpl never.
Arguments N.pow : simpl never. Arguments N.min : simpl never. Arguments N.max : simpl never.
Arguments N.modulo : simpl never.

(* the first item of a ValueIter: select_iter(..).next(), predecessor(..).next(), successor(..).next() *)
Definition vi_first (sp : selpath) (m : mode) (w : wmatrix) (r : res viter) : res (option (N * N)) :=
  let* it := r in let* (_, x) := vi_next sp m w it in Ok x.

(* number of occurrences of v *)
Definition count_v (V : list N) (v : N) : N := lenN (occ V v).

(* ---------------------------------------------------------------- the specification beyond the end *)

Lemma occ_in_lt V v p : In p (occ V v) -> p < lenS V.
Proof.
  intros H. apply in_nth_opt in H. destruct H as [r Hr]. change (select_v V r v = Some p) in Hr.
  apply select_v_sound in Hr. destruct Hr as [Hp _]. apply nth_opt_Some_lt in Hp. exact Hp.
Qed.

Lemma spec_rank_beyond V i v : lenS V <= i -> rank_v V i v = count_v V v.
Proof.
  intros Hi. rewrite <- occ_cnt. unfold count_v, lenN. rewrite <- (cnt_true (occ V v)). apply cnt_ext_in.
  intros p Hp. apply occ_in_lt in Hp. lia.
Qed.

Lemma count_v_le V v : count_v V v <= lenS V.
Proof. rewrite <- (spec_rank_beyond V (lenS V) v) by lia. apply rank_v_le. Qed.

Lemma rank_v_le_count V i v : rank_v V i v <= count_v V v.
Proof. rewrite <- occ_cnt. unfold count_v, lenN. apply cnt_le. Qed.

Lemma spec_select_beyond V r v : count_v V v <= r -> select_v V r v = None.
Proof. intros H. unfold select_v. apply nth_opt_None. exact H. Qed.

Lemma spec_select_within V r v : r < count_v V v -> exists p, select_v V r v = Some p.
Proof. intros H. unfold select_v. apply nth_opt_lt_Some. exact H. Qed.

Lemma select_iter_v_unfold V r v :
  select_iter_v V r v = match select_v V r v with Some p => (r, p) :: select_iter_v V (r + 1) v | None => [] end.
Proof.
  unfold select_iter_v, value_iter_v. rewrite skipN_index_from, nth_opt_occ.
  destruct (select_v V r v); [f_equal; f_equal; lia|reflexivity].
Qed.

Lemma select_iter_v_hd V r v :
  hd_error (select_iter_v V r v) = match select_v V r v with Some p => Some (r, p) | None => None end.
Proof. rewrite select_iter_v_unfold. destruct (select_v V r v); reflexivity. Qed.

Lemma spec_select_iter_beyond V r v : count_v V v <= r -> select_iter_v V r v = [].
Proof. intros H. rewrite select_iter_v_unfold, spec_select_beyond by exact H. reflexivity. Qed.

Lemma spec_inverse_select_beyond V i : lenS V <= i -> inverse_select_v V i = None.
Proof. intros H. unfold inverse_select_v. replace (nth_opt V i) with (@None N); [reflexivity|]. symmetry. apply nth_opt_None. exact H. Qed.

Lemma succ_v_select V i v : succ_v V i v = select_iter_v V (rank_v V i v) v.
Proof. unfold succ_v, select_iter_v, value_iter_v. rewrite (drop_below_sorted _ 0 i (occ_sorted V v)), occ_cnt. reflexivity. Qed.

Lemma spec_succ_beyond V i v : lenS V <= i -> succ_v V i v = [].
Proof. intros H. rewrite succ_v_select, spec_rank_beyond by exact H. apply spec_select_iter_beyond. lia. Qed.

Lemma pred_v_select V i v :
  pred_v V i v = if rank_v V (i + 1) v =? 0 then [] else select_iter_v V (rank_v V (i + 1) v - 1) v.
Proof.
  unfold pred_v, value_iter_v. rewrite (pred_suffix_sorted _ 0 i [] (occ_sorted V v)).
  rewrite (cnt_ext (fun p => p <=? i) (fun p => p <? i + 1)) by (intros p; lia). rewrite occ_cnt. reflexivity.
Qed.

(* from len - 1 on, predecessor starts at the last occurrence *)
Lemma spec_pred_beyond V i v : lenS V <= i + 1 ->
  pred_v V i v = if count_v V v =? 0 then [] else select_iter_v V (count_v V v - 1) v.
Proof. intros H. rewrite pred_v_select, spec_rank_beyond by exact H. reflexivity. Qed.

Lemma spec_pred_clamp V i v : lenS V <= i -> 0 < lenS V -> pred_v V i v = pred_v V (lenS V - 1) v.
Proof. intros H1 H2. rewrite !spec_pred_beyond by lia. reflexivity. Qed.

Lemma spec_map_down_beyond V i : lenS V <= i -> map_down_v V i = None.
Proof. intros H. unfold map_down_v. replace (nth_opt V i) with (@None N); [reflexivity|]. symmetry. apply nth_opt_None. exact H. Qed.

Lemma spec_map_down_with_clamp V i v : lenS V <= i -> map_down_with_v V i v = map_down_with_v V (lenS V) v.
Proof.
  intros H. unfold map_down_with_v. f_equal. rewrite <- (rank_v_min V i v). f_equal. lia.
Qed.

(* map_up answers Some p only when the reordered item j is v; then V[p] = v *)
Lemma spec_map_up_sound V j v p : map_up_v V j v = Some p -> j < lenS V /\ nth_opt V p = Some v.
Proof.
  unfold map_up_v. destruct (nth_opt (reordered V) j) as [[q x]|] eqn:E; [|discriminate].
  destruct (N.eqb_spec x v) as [->|]; [|discriminate]. intros H. injection H as ->.
  pose proof (reordered_perm V) as HP. split.
  - apply nth_opt_Some_lt in E. rewrite (Permutation_length HP), index_from_length in E. exact E.
  - apply nth_opt_in in E. apply (Permutation_in _ HP) in E. apply index_from_in in E. destruct E as [_ E].
    replace (p - 0) with p in E by lia. exact E.
Qed.

Lemma spec_map_up_beyond V j v : lenS V <= j -> map_up_v V j v = None.
Proof. intros H. destruct (map_up_v V j v) as [p|] eqn:E; [|reflexivity]. apply spec_map_up_sound in E. lia. Qed.

Lemma spec_map_up_absent V j v : ~ In v V -> map_up_v V j v = None.
Proof.
  intros H. destruct (map_up_v V j v) as [p|] eqn:E; [|reflexivity]. apply spec_map_up_sound in E.
  destruct E as [_ E]. apply nth_opt_in in E. contradiction.
Qed.

(* items are below 2^width *)
Lemma in_lt_width V v : Forall (fun x => x < 2 ^ 64) V -> In v V -> v < 2 ^ width_v V.
Proof.
  intros HV Hin. rewrite (width_v_bit_len V HV). pose proof (list_max_ge V v Hin) as Hle.
  assert (Hm : list_max V < 2 ^ 64) by (apply list_max_lt; [lia|exact HV]).
  pose proof (bit_len_range _ Hm) as [_ H]. lia.
Qed.

Lemma wide_absent V v : Forall (fun x => x < 2 ^ 64) V -> 2 ^ width_v V <= v -> ~ In v V.
Proof. intros HV Hv Hin. apply (in_lt_width V v HV) in Hin. lia. Qed.

(* ---------------------------------------------------------------- the model on a matrix meeting the interfaces *)

Section Total.
Variables (sp : selpath) (m : mode) (V : list N) (levels : list bitvec) (first : intvec) (F : list N).
Hypothesis HV : Forall (fun x => x < 2 ^ 64) V.
Hypothesis Hn : lenN V < 2 ^ 64.
Hypothesis Hmax : list_max V + 1 < 2 ^ 64.
Hypothesis Hlv : Forall2 (bv_queries_ok sp m) levels (wm_columns V).
Hypothesis HF : first_offsets m V (lenN V) (list_max V) = Ok F.
Hypothesis Hfirst : first_ok first F.

Let wm := mkwm (lenN V) (mkcore levels) first.

Lemma vi_next_ok r v : r < 2 ^ 64 ->
  vi_next sp m wm (mkvi v r) =
  Ok (match select_v V r v with
      | Some p => (mkvi v (r + 1), Some (r, p))
      | None => (mkvi v (if lenN V <=? r then r else lenN V), None)
      end).
Proof.
  intros Hr. unfold vi_next. cbn [vi_rank vi_value]. change (wm_len wm) with (lenN V).
  destruct (N.leb_spec (lenN V) r) as [Hge|Hlt].
  - rewrite (spec_select_beyond V r v) by (pose proof (count_v_le V v); unfold lenS, lenN in *; lia). reflexivity.
  - unfold wm. rewrite (wm_select_ok sp m V levels first F HV Hn Hmax Hlv HF Hfirst r v Hr). cbn [bind].
    destruct (select_v V r v); reflexivity.
Qed.

Lemma vi_first_ok r v : r < 2 ^ 64 ->
  vi_first sp m wm (Ok (mkvi v r)) = Ok (hd_error (select_iter_v V r v)).
Proof.
  intros Hr. unfold vi_first. cbn [bind]. rewrite vi_next_ok by exact Hr. rewrite select_iter_v_hd.
  destruct (select_v V r v); reflexivity.
Qed.

(* an iterator that returned None keeps returning None (FusedIterator) *)
Lemma vi_next_fused r v : r < 2 ^ 64 -> select_v V r v = None ->
  exists it', vi_next sp m wm (mkvi v r) = Ok (it', None) /\ vi_next sp m wm it' = Ok (it', None).
Proof.
  intros Hr Hs. rewrite vi_next_ok by exact Hr. rewrite Hs. eexists. split; [reflexivity|].
  unfold vi_next. cbn [vi_rank vi_value]. change (wm_len wm) with (lenN V).
  destruct (N.leb_spec (lenN V) r) as [Hge|Hlt].
  - replace (lenN V <=? r) with true by lia. reflexivity.
  - replace (lenN V <=? lenN V) with true by lia. reflexivity.
Qed.

Lemma rank_v_lt64 i v : rank_v V i v < 2 ^ 64.
Proof. pose proof (rank_v_le_count V i v). pose proof (count_v_le V v). unfold lenS, lenN in *. lia. Qed.

Lemma pred_first_ok i v : i < 2 ^ 64 ->
  vi_first sp m wm (wm_predecessor m wm i v) = Ok (hd_error (pred_v V i v)).
Proof.
  intros Hi. unfold wm_predecessor, wm.
  rewrite (wm_rank_ok sp m V levels first F HV Hn Hmax Hlv HF Hfirst) by (unfold sat_add1; destruct (i + 1 <? 2 ^ 64) eqn:E; lia).
  cbn [bind]. rewrite (rank_v_sat V Hn Hmax) by exact Hi. fold wm. change (wm_len wm) with (lenN V). unfold wm_select_iter.
  rewrite pred_v_select. pose proof (rank_v_lt64 (i + 1) v) as Hlt.
  destruct (N.ltb_spec 0 (rank_v V (i + 1) v)) as [Hpos|Hz].
  - replace (rank_v V (i + 1) v =? 0) with false by lia. apply vi_first_ok. lia.
  - replace (rank_v V (i + 1) v =? 0) with true by lia. rewrite vi_first_ok by exact Hn.
    rewrite spec_select_iter_beyond; [reflexivity|]. pose proof (count_v_le V v). unfold lenS, lenN in *. lia.
Qed.

Lemma succ_first_ok i v : i < 2 ^ 64 ->
  vi_first sp m wm (wm_successor m wm i v) = Ok (hd_error (succ_v V i v)).
Proof.
  intros Hi. unfold wm_successor, wm. rewrite (wm_rank_ok sp m V levels first F HV Hn Hmax Hlv HF Hfirst) by exact Hi.
  cbn [bind]. fold wm. unfold wm_select_iter. rewrite succ_v_select. apply vi_first_ok. apply rank_v_lt64.
Qed.

End Total.

(* ---------------------------------------------------------------- assembled over From<Vec<T>> *)

Theorem wm_total sp m V :
  Forall (fun x => x < 2 ^ 64) V -> lenN V < 2 ^ 64 -> list_max V + 1 < 2 ^ 64 ->
  exists wm, wm_from sp m V = Ok wm /\ wm_core_from sp m V = Ok (wm_data wm) /\
    wm_len wm = lenS V /\ wm_width wm = width_v V /\ wc_len (wm_data wm) = Ok (lenS V) /\
  forall sp' m',
    (* every argument gets the specified answer: no panic, no exhausted fuel *)
    (forall i v, i < 2 ^ 64 -> v < 2 ^ 64 ->
       wm_rank m' wm i v = Ok (rank_v V i v) /\
       wm_contains wm v = Ok (contains_v V v) /\
       vi_first sp' m' wm (wm_predecessor m' wm i v) = Ok (hd_error (pred_v V i v)) /\
       vi_first sp' m' wm (wm_successor m' wm i v) = Ok (hd_error (succ_v V i v))) /\
    (forall r v, r < 2 ^ 64 -> v < 2 ^ 64 ->
       wm_select sp' m' wm r v = Ok (select_v V r v) /\
       vi_first sp' m' wm (Ok (wm_select_iter r v)) = Ok (hd_error (select_iter_v V r v)) /\
       vi_first sp' m' wm (Ok (wm_value_iter v)) = Ok (hd_error (value_iter_v V v))) /\
    (forall i, i < 2 ^ 64 ->
       wm_inverse_select m' wm i = Ok (inverse_select_v V i) /\ wc_map_down m' (wm_data wm) i = Ok (map_down_v V i)) /\
    (forall i j v, i < 2 ^ 64 -> j < 2 ^ 64 -> v < 2 ^ 64 ->
       wc_map_down_with m' (wm_data wm) i v = Ok (map_down_with_v V i (v mod 2 ^ width_v V)) /\
       wc_map_down_with_two m' (wm_data wm) i j v =
         Ok (map_down_with_v V i (v mod 2 ^ width_v V), map_down_with_v V j (v mod 2 ^ width_v V)) /\
       wc_map_up_with sp' m' (wm_data wm) j v = Ok (map_up_v V j (v mod 2 ^ width_v V))) /\
    (* beyond the end / the number of occurrences *)
    (forall i v, i < 2 ^ 64 -> lenS V <= i ->
       wm_rank m' wm i v = Ok (count_v V v) /\ rank_v V i v = count_v V v /\
       wm_inverse_select m' wm i = Ok None /\ wc_map_down m' (wm_data wm) i = Ok None /\
       vi_first sp' m' wm (wm_successor m' wm i v) = Ok None /\ succ_v V i v = [] /\
       wc_map_down_with m' (wm_data wm) i v = wc_map_down_with m' (wm_data wm) (lenS V) v /\
       wc_map_up_with sp' m' (wm_data wm) i v = Ok None) /\
    (forall i v, i < 2 ^ 64 -> lenS V <= i + 1 ->
       pred_v V i v = (if count_v V v =? 0 then [] else select_iter_v V (count_v V v - 1) v) /\
       (0 < lenS V -> wm_predecessor m' wm i v = wm_predecessor m' wm (lenS V - 1) v)) /\
    (forall r v, r < 2 ^ 64 -> count_v V v <= r ->
       wm_select sp' m' wm r v = Ok None /\ select_v V r v = None /\ select_iter_v V r v = [] /\
       exists it', vi_next sp' m' wm (wm_select_iter r v) = Ok (it', None) /\ vi_next sp' m' wm it' = Ok (it', None)) /\
    (forall v, count_v V v <= 2 ^ 64 - 1 /\ wm_select sp' m' wm (2 ^ 64 - 1) v = Ok None) /\
    (* values that do not occur: absent inside the alphabet, above the maximum, or wider than the matrix *)
    (forall i v, i < 2 ^ 64 -> ~ In v V ->
       wm_contains wm v = Ok false /\ wm_rank m' wm i v = Ok 0 /\ wm_select sp' m' wm i v = Ok None /\
       vi_first sp' m' wm (Ok (wm_value_iter v)) = Ok None /\ vi_first sp' m' wm (Ok (wm_select_iter i v)) = Ok None /\
       vi_first sp' m' wm (wm_predecessor m' wm i v) = Ok None /\ vi_first sp' m' wm (wm_successor m' wm i v) = Ok None) /\
    (forall v, 2 ^ width_v V <= v -> ~ In v V) /\
    (* the core maps up only to an occurrence of the (masked) value *)
    (forall j v p, j < 2 ^ 64 -> wc_map_up_with sp' m' (wm_data wm) j v = Ok (Some p) ->
       j < lenS V /\ nth_opt V p = Some (v mod 2 ^ width_v V)) /\
    (forall j v, j < 2 ^ 64 -> ~ In (v mod 2 ^ width_v V) V -> wc_map_up_with sp' m' (wm_data wm) j v = Ok None).
Proof.
  intros HV Hn Hmax. destruct (wm_from_closed sp m V HV Hn Hmax) as (levels & first & F & Hw & Hc & Hq & HF & Hok & _).
  set (wm := mkwm (lenN V) (mkcore levels) first).
  exists wm. split; [exact Hw|]. split; [exact Hc|].
  pose proof (core_mapping sp m V levels HV Hn (Hq sp m)) as (Hcl & Hcw & _).
  split; [reflexivity|]. split; [exact Hcw|]. split; [exact Hcl|]. intros sp' m'.
  pose proof (wm_exact sp' m' V levels first F HV Hn Hmax (Hq sp' m') (HF m') Hok)
    as (_ & _ & _ & _ & Hrank & Hsel & Hinv & Hcont & _).
  pose proof (core_mapping sp' m' V levels HV Hn (Hq sp' m')) as (_ & _ & Hdown & Hdw & Hd2 & Hup & _).
  fold wm in Hrank, Hsel, Hinv, Hcont. change (mkcore levels) with (wm_data wm) in Hdown, Hdw, Hd2, Hup.
  assert (Hpred : forall i v, i < 2 ^ 64 -> vi_first sp' m' wm (wm_predecessor m' wm i v) = Ok (hd_error (pred_v V i v))).
  { intros i v Hi. exact (pred_first_ok sp' m' V levels first F HV Hn Hmax (Hq sp' m') (HF m') Hok i v Hi). }
  assert (Hsucc : forall i v, i < 2 ^ 64 -> vi_first sp' m' wm (wm_successor m' wm i v) = Ok (hd_error (succ_v V i v))).
  { intros i v Hi. exact (succ_first_ok sp' m' V levels first F HV Hn Hmax (Hq sp' m') (HF m') Hok i v Hi). }
  assert (Hfst : forall r v, r < 2 ^ 64 -> vi_first sp' m' wm (Ok (wm_select_iter r v)) = Ok (hd_error (select_iter_v V r v))).
  { intros r v Hr. exact (vi_first_ok sp' m' V levels first F HV Hn Hmax (Hq sp' m') (HF m') Hok r v Hr). }
  assert (Hval : forall v, vi_first sp' m' wm (Ok (wm_value_iter v)) = Ok (hd_error (value_iter_v V v))).
  { intros v. change (wm_value_iter v) with (wm_select_iter 0 v). rewrite Hfst by lia. unfold select_iter_v. rewrite skipN_0. reflexivity. }
  assert (Hcnt64 : forall v, count_v V v <= 2 ^ 64 - 1).
  { intros v. pose proof (count_v_le V v). unfold lenS, lenN in *. lia. }
  split. { intros i v Hi _. split; [apply Hrank; exact Hi|]. split; [apply Hcont|]. split; [apply Hpred; exact Hi|apply Hsucc; exact Hi]. }
  split. { intros r v Hr _. split; [apply Hsel; exact Hr|]. split; [apply Hfst; exact Hr|apply Hval]. }
  split. { intros i Hi. split; [apply Hinv; exact Hi|apply Hdown; exact Hi]. }
  split. { intros i j v Hi Hj _. split; [apply Hdw; exact Hi|]. split; [apply Hd2; assumption|apply Hup; exact Hj]. }
  split.
  { intros i v Hi Hge. rewrite Hrank, Hinv, Hdown, Hsucc, Hup by exact Hi. rewrite !Hdw by (unfold lenS, lenN in *; lia).
    rewrite (spec_rank_beyond V i v Hge), (spec_inverse_select_beyond V i Hge), (spec_map_down_beyond V i Hge),
            (spec_succ_beyond V i v Hge), (spec_map_up_beyond V i _ Hge), (spec_map_down_with_clamp V i _ Hge).
    repeat split; reflexivity. }
  split.
  { intros i v Hi Hge. split; [apply spec_pred_beyond; exact Hge|]. intros Hpos.
    unfold wm_predecessor. rewrite !Hrank.
    - cbn [bind]. rewrite (rank_v_sat V Hn Hmax) by exact Hi. rewrite (rank_v_sat V Hn Hmax) by (unfold lenS, lenN in *; lia).
      rewrite !spec_rank_beyond by lia. reflexivity.
    - unfold sat_add1. destruct (lenS V - 1 + 1 <? 2 ^ 64) eqn:E; unfold lenS, lenN in *; lia.
    - unfold sat_add1. destruct (i + 1 <? 2 ^ 64) eqn:E; lia. }
  split.
  { intros r v Hr Hge. pose proof (spec_select_beyond V r v Hge) as Hs.
    split; [rewrite Hsel by exact Hr; rewrite Hs; reflexivity|]. split; [exact Hs|].
    split; [apply spec_select_iter_beyond; exact Hge|].
    exact (vi_next_fused sp' m' V levels first F HV Hn Hmax (Hq sp' m') (HF m') Hok r v Hr Hs). }
  split.
  { intros v. split; [apply Hcnt64|]. rewrite Hsel by lia. rewrite spec_select_beyond; [reflexivity|apply Hcnt64]. }
  split.
  { intros i v Hi Hab. destruct (absent_values V v Hab) as (A1 & A2 & A3 & A4 & A5 & A6 & A7).
    rewrite Hcont, Hrank, Hsel, Hval, Hfst, Hpred, Hsucc by exact Hi.
    rewrite A1, A2, A3, A4, A5, A6, A7. repeat split; reflexivity. }
  split. { intros v Hv. apply wide_absent; assumption. }
  split.
  { intros j v p Hj E. rewrite Hup in E by exact Hj. injection E as E. apply spec_map_up_sound in E. exact E. }
  intros j v Hj Hab. rewrite Hup by exact Hj. rewrite spec_map_up_absent by exact Hab. reflexivity.
Qed.
