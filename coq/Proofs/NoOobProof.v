(* C08: the unchecked accesses of the models never miss their buffers.
   In the models every unchecked access ([idx_unchecked site ..]) yields [OOB site] when it misses; [safe r] says
   that a result is not such a value.  The lemmas below walk through every entry point of Model/Bits.v, Raw.v,
   IntVec.v and BitVec.v and show, for EVERY argument value and both build modes, that the result is [Ok _] or
   [Panic _].  Where the entry point is guarded (clamp / assert / bounds-checked index) the guard is shown to fire
   BEFORE any unchecked access; where the access is reached, the index is shown to lie inside the table / word
   array / sample array from the representation invariant. *)
From Coq Require Import NArith List Lia ZArith Bool.
Require Import SDS.Model.Mach SDS.Model.Bits SDS.Model.Raw SDS.Model.IntVec SDS.Model.BitVec.
Require Import SDS.gen.Consts SDS.gen.Tables.
Require Import SDS.Spec.BitSeq SDS.Proofs.BitsProof SDS.Proofs.SelectPortable SDS.Proofs.RawProof
               SDS.Proofs.IntVecProof SDS.Proofs.BVCommon SDS.Proofs.RankProof
               SDS.Proofs.OneIterProof SDS.Proofs.SelectProof.
Import ListNotations.
Open Scope N_scope.
Require Import ZifyBool ZifyN ZifyNat.
Ltac Zify.zify_post_hook ::= Z.div_mod_to_equations.
Arguments N.add : simpl never. Arguments N.sub : simpl never. Arguments N.mul : simpl never.
Arguments N.eqb : simpl never. Arguments N.ltb : simpl never. Arguments N.leb : simpl never.
Arguments N.pow : simpl never. Arguments N.shiftl : simpl never. Arguments N.shiftr : simpl never.
Arguments N.land : simpl never. Arguments N.lor : simpl never. Arguments N.div : simpl never.
Arguments N.modulo : simpl never. Arguments N.ones : simpl never. Arguments N.testbit : simpl never.
Arguments N.lxor : simpl never. Arguments N.min : simpl never. Arguments N.max : simpl never.

(* ================================================================ 1. the notion and its algebra *)

Definition safe {A} (r : res A) : Prop := is_oob r = false.

Lemma safe_ok {A} (a : A) : safe (Ok a). Proof. reflexivity. Qed.
Lemma safe_panic {A} k : safe (@Panic A k). Proof. reflexivity. Qed.
Lemma safe_bind {A B} (r : res A) (f : A -> res B) :
  safe r -> (forall a, r = Ok a -> safe (f a)) -> safe (bind r f).
Proof. destruct r as [a|k|s]; cbn [bind]; intros H1 H2; [apply H2; reflexivity|reflexivity|exact H1]. Qed.
Lemma safe_cases {A} (r : res A) : safe r <-> (exists a, r = Ok a) \/ (exists k, r = Panic k).
Proof.
  destruct r as [a|k|s]; unfold safe; cbn [is_oob]; split; intros H; try reflexivity; eauto.
  - discriminate.
  - destruct H as [[a E]|[k E]]; discriminate.
Qed.

Lemma safe_idx {A} (l : list A) i : safe (idx l i).
Proof. unfold idx. destruct (nthN l i); reflexivity. Qed.
Lemma safe_upd {A} (l : list A) i v : safe (upd l i v).
Proof. unfold upd. destruct (i <? lenN l); reflexivity. Qed.
Lemma safe_uadd m a b : safe (uadd m a b).
Proof. unfold uadd. destruct (_ <? _); [reflexivity|destruct m; reflexivity]. Qed.
Lemma safe_usub m a b : safe (usub m a b).
Proof. unfold usub. destruct (_ <=? _); [reflexivity|destruct m; reflexivity]. Qed.
Lemma safe_ushl m a b : safe (ushl m a b).
Proof. unfold ushl. destruct (_ <? _); [reflexivity|destruct m; reflexivity]. Qed.
Lemma safe_ushr m a b : safe (ushr m a b).
Proof. unfold ushr. destruct (_ <? _); [reflexivity|destruct m; reflexivity]. Qed.

(* a bounds-checked access is Ok or the index panic, nothing else *)
Definition ok_or {A} (k : pkind) (r : res A) : Prop := (exists a, r = Ok a) \/ r = Panic k.
Lemma ok_or_safe {A} k (r : res A) : ok_or k r -> safe r.
Proof. intros [[a ->]| ->]; reflexivity. Qed.
Lemma ok_or_idx {A} (l : list A) i : ok_or PIndex (idx l i).
Proof. unfold idx. destruct (nthN l i); [left; eauto|right; reflexivity]. Qed.
Lemma ok_or_upd {A} (l : list A) i v : ok_or PIndex (upd l i v).
Proof. unfold upd. destruct (i <? lenN l); [left; eauto|right; reflexivity]. Qed.
Lemma ok_or_bind {A B} k (r : res A) (f : A -> res B) :
  ok_or k r -> (forall a, r = Ok a -> ok_or k (f a)) -> ok_or k (bind r f).
Proof. intros [[a ->]| ->] H; cbn [bind]; [apply H; reflexivity|right; reflexivity]. Qed.
Lemma ok_or_ok {A} k (a : A) : ok_or k (Ok a). Proof. left; eauto. Qed.

(* ================================================================ 2. bits.rs *)

(* the checked mask functions: a miss is the index panic *)
Lemma safe_low_set n : safe (low_set n). Proof. apply safe_idx. Qed.
Lemma safe_high_set n : safe (high_set n). Proof. apply safe_idx. Qed.
(* the unchecked ones: inside the table iff n <= 64 *)
Lemma safe_low_set_unchecked n : n <= 64 -> safe (low_set_unchecked n).
Proof. intros H. rewrite low_set_unchecked_ok by exact H. reflexivity. Qed.
Lemma safe_high_set_unchecked n : n <= 64 -> safe (high_set_unchecked n).
Proof. intros H. rewrite high_set_unchecked_ok by exact H. reflexivity. Qed.

Lemma low_set_ok_inv n v : low_set n = Ok v -> n <= 64.
Proof.
  intros H. destruct (N.le_gt_cases n 64) as [Hle|Hgt]; [exact Hle|].
  rewrite low_set_panics in H by exact Hgt. discriminate.
Qed.

Lemma land_63 x : N.land x 63 = x mod 64.
Proof. change 63 with (N.ones 6). rewrite N.land_ones. reflexivity. Qed.

(* read_int: the two accesses to the array are bounds-checked; the mask index is the width (<= 64 by the
   documented precondition of the unsafe fn, and implied by the branch condition) or a value masked to 0..63 *)
Lemma ok_or_read_int a bo w : w <= 64 -> ok_or PIndex (read_int a bo w).
Proof.
  intros Hw. unfold read_int. rewrite split_offset_spec. cbv iota beta.
  apply ok_or_bind; [apply ok_or_idx|]. intros w0 _.
  change bits_WORD_BITS with 64. change bits_OFFSET_MASK with 63.
  destruct (bo mod 64 + w <=? 64) eqn:E.
  - rewrite low_set_unchecked_ok by exact Hw. cbn [bind]. apply ok_or_ok.
  - apply ok_or_bind; [apply ok_or_idx|]. intros w1 _.
    rewrite low_set_unchecked_ok by (rewrite land_63; lia). cbn [bind]. apply ok_or_ok.
Qed.

(* write_int: the width is checked by the bounds-checked [low_set] FIRST (width > 64: index panic before anything
   is touched); then offset < 64 and WORD_BITS - width - offset <= 64 index the tables *)
Lemma ok_or_write_int a bo v w : ok_or PIndex (write_int a bo v w).
Proof.
  unfold write_int. apply ok_or_bind; [apply ok_or_idx|]. intros ls Hls.
  pose proof (low_set_ok_inv _ _ Hls) as Hw.
  rewrite split_offset_spec. cbv iota beta. change bits_WORD_BITS with 64.
  destruct (bo mod 64 + w <=? 64) eqn:E.
  - rewrite high_set_unchecked_ok by lia. cbn [bind].
    rewrite low_set_unchecked_ok by lia. cbn [bind].
    apply ok_or_bind; [apply ok_or_idx|]. intros w0 _. apply ok_or_upd.
  - rewrite low_set_unchecked_ok by lia. cbn [bind].
    apply ok_or_bind; [apply ok_or_idx|]. intros w0 _.
    apply ok_or_bind; [apply ok_or_upd|]. intros a1 _.
    apply ok_or_bind; [apply ok_or_idx|]. intros hs _.
    apply ok_or_bind; [apply ok_or_idx|]. intros w1 _. apply ok_or_upd.
Qed.

Lemma write_int_wide a bo v w : 64 < w -> write_int a bo v w = Panic PIndex.
Proof. apply write_int_width_panics. Qed.

(* select inside a word: the PDEP path has no table; the portable path indexes two tables and stays inside them
   whenever the rank is below the number of ones (SelectPortable.v) *)
Lemma safe_select_pdep m n r : safe (select_pdep m n r).
Proof. unfold select_pdep. apply safe_bind; [apply safe_ushl|]. intros; reflexivity. Qed.

Lemma word_select_ok sp m n r : n < 2 ^ 64 -> r < popcount n -> exists p, word_select sp m n r = Ok p /\ p < 64.
Proof.
  intros Hn Hr. destruct sp; cbn [word_select].
  - destruct (select_pdep_correct m n r Hn Hr) as (p & E & _ & Hp). eauto.
  - destruct (select_portable_correct m n r Hn Hr) as (p & E & _ & Hp). eauto.
Qed.

(* ================================================================ 3. raw_vector.rs *)

Lemma ok_or_set_unused_bits r value : ok_or PIndex (set_unused_bits r value).
Proof.
  unfold set_unused_bits. rewrite split_offset_spec. cbv iota beta.
  destruct (0 <? rlen r mod 64); [|apply ok_or_ok].
  apply ok_or_bind; [apply ok_or_idx|]. intros ls _.
  apply ok_or_bind; [apply ok_or_idx|]. intros w _.
  apply ok_or_bind; [apply ok_or_upd|]. intros d _. apply ok_or_ok.
Qed.

Lemma ok_or_raw_bit r i : ok_or PIndex (raw_bit r i).
Proof.
  unfold raw_bit. rewrite split_offset_spec. cbv iota beta.
  apply ok_or_bind; [apply ok_or_idx|]. intros w _. apply ok_or_ok.
Qed.
Lemma ok_or_raw_word r i : ok_or PIndex (raw_word r i).
Proof. apply ok_or_idx. Qed.
(* set_bit: the assertion on the bit offset comes first (repair 7337be0); behind it the word index is
   bounds-checked *)
Lemma ok_or_raw_set_bit_body r i v : ok_or PIndex (raw_set_bit_body r i v).
Proof.
  unfold raw_set_bit_body. rewrite split_offset_spec. cbv iota beta.
  apply ok_or_bind; [apply ok_or_idx|]. intros w _.
  apply ok_or_bind; [apply ok_or_upd|]. intros d _. apply ok_or_ok.
Qed.
Lemma raw_set_bit_beyond r i v : rlen r <= i -> raw_set_bit r i v = Panic PAssert.
Proof. intros H. unfold raw_set_bit. replace (i <? rlen r) with false by lia. reflexivity. Qed.
Lemma raw_set_bit_class r i v :
  (rlen r <= i -> raw_set_bit r i v = Panic PAssert) /\
  (i < rlen r -> ok_or PIndex (raw_set_bit r i v)).
Proof.
  split; [apply raw_set_bit_beyond|]. intros H. unfold raw_set_bit. replace (i <? rlen r) with true by lia.
  apply ok_or_raw_set_bit_body.
Qed.
Lemma safe_raw_set_bit r i v : safe (raw_set_bit r i v).
Proof.
  unfold raw_set_bit. destruct (i <? rlen r); [exact (ok_or_safe _ _ (ok_or_raw_set_bit_body r i v))|reflexivity].
Qed.
Lemma ok_or_raw_int r bo w : w <= 64 -> ok_or PIndex (raw_int r bo w).
Proof. intros H. unfold raw_int. destruct (w =? 0); [apply ok_or_ok|apply ok_or_read_int, H]. Qed.
Lemma ok_or_raw_set_int r bo v w : ok_or PIndex (raw_set_int r bo v w).
Proof.
  unfold raw_set_int. destruct (w =? 0); [apply ok_or_ok|].
  apply ok_or_bind; [apply ok_or_write_int|]. intros d _. apply ok_or_ok.
Qed.
Lemma raw_set_int_wide r bo v w : 64 < w -> raw_set_int r bo v w = Panic PIndex.
Proof.
  intros H. unfold raw_set_int. replace (w =? 0) with false by lia. rewrite write_int_wide by exact H. reflexivity.
Qed.
Lemma ok_or_raw_push_bit r v : ok_or PIndex (raw_push_bit r v).
Proof.
  unfold raw_push_bit. rewrite split_offset_spec. cbv iota beta.
  apply ok_or_bind; [apply ok_or_idx|]. intros w _.
  apply ok_or_bind; [apply ok_or_upd|]. intros d _. apply ok_or_ok.
Qed.
Lemma ok_or_raw_push_int r v w : ok_or PIndex (raw_push_int r v w).
Proof.
  unfold raw_push_int. destruct (w =? 0); [apply ok_or_ok|].
  apply ok_or_bind; [apply ok_or_write_int|]. intros d _. apply ok_or_ok.
Qed.
Lemma raw_push_int_wide r v w : 64 < w -> raw_push_int r v w = Panic PIndex.
Proof.
  intros H. unfold raw_push_int. replace (w =? 0) with false by lia. rewrite write_int_wide by exact H. reflexivity.
Qed.
Lemma ok_or_raw_pop_bit r : ok_or PIndex (raw_pop_bit r).
Proof.
  unfold raw_pop_bit. destruct (rlen r =? 0); [apply ok_or_ok|].
  apply ok_or_bind; [apply ok_or_raw_bit|]. intros b _.
  apply ok_or_bind; [apply ok_or_set_unused_bits|]. intros r' _. apply ok_or_ok.
Qed.
Lemma ok_or_raw_pop_int r w : w <= 64 -> ok_or PIndex (raw_pop_int r w).
Proof.
  intros H. unfold raw_pop_int. destruct (w <=? rlen r); [|apply ok_or_ok].
  destruct (w =? 0); [apply ok_or_ok|].
  apply ok_or_bind; [apply ok_or_raw_int, H|]. intros v _.
  apply ok_or_bind; [apply ok_or_set_unused_bits|]. intros r' _. apply ok_or_ok.
Qed.
Lemma ok_or_raw_resize r n value : ok_or PIndex (raw_resize r n value).
Proof.
  unfold raw_resize. apply ok_or_bind.
  - destruct (rlen r <? n); [apply ok_or_set_unused_bits|apply ok_or_ok].
  - intros r1 _. apply ok_or_set_unused_bits.
Qed.
Lemma ok_or_raw_with_len len value : ok_or PIndex (raw_with_len len value).
Proof. apply ok_or_set_unused_bits. Qed.
Lemma ok_or_raw_complement r : ok_or PIndex (raw_complement r).
Proof. apply ok_or_set_unused_bits. Qed.

(* ================================================================ 4. int_vector.rs *)

Lemma iv_get_class v i : iwidth v <= 64 ->
  (i < ilen v -> ok_or PIndex (iv_get v i)) /\ (ilen v <= i -> iv_get v i = Panic PAssert).
Proof.
  intros Hw. split; intros Hi; [|apply iv_get_rejects, Hi].
  unfold iv_get. replace (i <? ilen v) with true by lia. apply ok_or_raw_int, Hw.
Qed.
Lemma safe_iv_get v i : iwidth v <= 64 -> safe (iv_get v i).
Proof.
  intros Hw. destruct (iv_get_class v i Hw) as [H1 H2].
  destruct (N.lt_ge_cases i (ilen v)) as [Hi|Hi]; [apply (ok_or_safe PIndex), H1, Hi|rewrite H2 by exact Hi; reflexivity].
Qed.
Lemma iv_set_class v i x :
  (i < ilen v -> ok_or PIndex (iv_set v i x)) /\ (ilen v <= i -> iv_set v i x = Panic PAssert).
Proof.
  split; intros Hi; [|apply iv_set_rejects, Hi].
  unfold iv_set. replace (i <? ilen v) with true by lia.
  apply ok_or_bind; [apply ok_or_raw_set_int|]. intros d _. apply ok_or_ok.
Qed.
Lemma safe_iv_set v i x : safe (iv_set v i x).
Proof.
  destruct (iv_set_class v i x) as [H1 H2].
  destruct (N.lt_ge_cases i (ilen v)) as [Hi|Hi]; [apply (ok_or_safe PIndex), H1, Hi|rewrite H2 by exact Hi; reflexivity].
Qed.
Lemma safe_iv_get_or v i x : iwidth v <= 64 -> safe (iv_get_or v i x).
Proof. intros H. unfold iv_get_or. destruct (_ <=? _); [reflexivity|apply safe_iv_get, H]. Qed.
Lemma ok_or_iv_push v x : ok_or PIndex (iv_push v x).
Proof. unfold iv_push. apply ok_or_bind; [apply ok_or_raw_push_int|]. intros d _. apply ok_or_ok. Qed.
Lemma ok_or_iv_pop v : iwidth v <= 64 -> ok_or PIndex (iv_pop v).
Proof.
  intros H. unfold iv_pop. apply ok_or_bind; [apply ok_or_raw_pop_int, H|]. intros [d r] _. apply ok_or_ok.
Qed.
Lemma ok_or_iv_push_all xs : forall v, ok_or PIndex (iv_push_all v xs).
Proof.
  induction xs as [|x t IH]; intros v; cbn [iv_push_all]; [apply ok_or_ok|].
  apply ok_or_bind; [apply ok_or_iv_push|]. intros v' _. apply IH.
Qed.
Lemma ok_or_iv_resize v n x : ok_or PIndex (iv_resize v n x).
Proof.
  unfold iv_resize. destruct (ilen v <? n); [apply ok_or_iv_push_all|].
  destruct (n <? ilen v); [|apply ok_or_ok].
  apply ok_or_bind; [apply ok_or_raw_resize|]. intros d _. apply ok_or_ok.
Qed.
Lemma safe_iv_items_aux v n : iwidth v <= 64 -> forall i, safe (iv_items_aux v i n).
Proof.
  intros Hw. induction n as [|k IH]; intros i; cbn [iv_items_aux]; [reflexivity|].
  apply safe_bind; [apply safe_iv_get, Hw|]. intros x _.
  apply safe_bind; [apply IH|]. intros t _. reflexivity.
Qed.
Lemma safe_iv_pack v : iwidth v <= 64 -> safe (iv_pack v).
Proof.
  intros Hw. unfold iv_pack. destruct (ilen v =? 0); [reflexivity|].
  apply safe_bind; [apply safe_iv_items_aux, Hw|]. intros items _.
  destruct (_ =? _); [reflexivity|].
  apply safe_bind; [apply (ok_or_safe PIndex), ok_or_iv_push_all|]. intros v' _. reflexivity.
Qed.

(* ================================================================ 5. bit_vector.rs: wrappers and guards *)

Lemma safe_bv_get b i : safe (bv_get b i).
Proof. apply (ok_or_safe PIndex), ok_or_raw_bit. Qed.

(* rank: i >= len is answered before the unchecked code; i < len stays inside samples, words and mask table;
   without rank support the unwrap panics *)
Theorem bv_rank_q_total b B i :
  bv_repr b B -> (bv_rank b <> None -> rank_ok b B) ->
  (exists v, bv_rank_q b i = Ok v) \/ (bv_rank b = None /\ i < bv_len b /\ bv_rank_q b i = Panic PUnwrap).
Proof.
  intros Hrepr Hsup. unfold bv_rank_q.
  destruct (N.leb_spec (bv_len b) i) as [Hge|Hlt]; [left; eauto|].
  destruct (bv_rank b) as [rs|] eqn:E.
  - left. destruct (Hsup ltac:(discriminate)) as (rs' & Hrs & Hnew). rewrite E in Hrs. inversion Hrs; subst rs'.
    apply (rank_unchecked_no_oob b B rs i Hrepr Hnew Hlt).
  - right. auto.
Qed.
Lemma safe_bv_rank_q b B i : bv_repr b B -> (bv_rank b <> None -> rank_ok b B) -> safe (bv_rank_q b i).
Proof.
  intros H1 H2. destruct (bv_rank_q_total b B i H1 H2) as [[v ->]|(_ & _ & ->)]; reflexivity.
Qed.
Lemma safe_bv_rank_zero m b B i : bv_repr b B -> (bv_rank b <> None -> rank_ok b B) -> safe (bv_rank_zero m b i).
Proof.
  intros H1 H2. unfold bv_rank_zero. apply safe_bind; [apply (safe_bv_rank_q b B); assumption|].
  intros r _. apply safe_usub.
Qed.

(* select / select_iter with a rank at or beyond the count return before the unsafe code *)
Lemma bv_select_t_beyond sp m t b r : t_count_ones t b <= r -> bv_select_t sp m t b r = Ok None.
Proof. intros H. unfold bv_select_t. replace (t_count_ones t b <=? r) with true by lia. reflexivity. Qed.
Lemma bv_select_iter_t_beyond sp m t b r : t_count_ones t b <= r -> bv_select_iter_t sp m t b r = Ok (oi_empty t b).
Proof. intros H. unfold bv_select_iter_t. replace (t_count_ones t b <=? r) with true by lia. reflexivity. Qed.
(* without the support the unwrap panics before the unsafe code *)
Lemma bv_select_t_nosupport sp m t b r : t_support t b = None -> t_count_ones t b > r ->
  bv_select_t sp m t b r = Panic PUnwrap.
Proof. intros Hs H. unfold bv_select_t. replace (t_count_ones t b <=? r) with false by lia. rewrite Hs. reflexivity. Qed.

(* successor(v) with v >= len and predecessor on a vector without ones end in the empty iterator *)
Lemma bv_successor_beyond sp m b B v :
  bv_repr b B -> rank_ok b B -> bv_len b <= v -> bv_successor sp m b v = Ok (oi_empty Identity b).
Proof.
  intros Hrepr Hok Hv. unfold bv_successor, bv_rank_q. replace (bv_len b <=? v) with true by lia.
  cbn [bind]. replace (bv_count_ones b <=? bv_count_ones b) with true by lia. reflexivity.
Qed.

(* the bit iterator only uses the bounds-checked get *)
Lemma safe_bi_next b it : safe (bi_next_f b it).
Proof.
  unfold bi_next_f. destruct (_ <=? _); [reflexivity|]. apply safe_bind; [apply safe_bv_get|]. intros; reflexivity.
Qed.
Lemma safe_bi_next_back b it : safe (bi_next_back b it).
Proof.
  unfold bi_next_back. destruct (_ <=? _); [reflexivity|]. apply safe_bind; [apply safe_bv_get|]. intros; reflexivity.
Qed.
Lemma safe_bi_nth b it n : safe (bi_nth b it n). Proof. apply safe_bi_next. Qed.
Lemma safe_bi_nth_back b it n : safe (bi_nth_back b it n). Proof. apply safe_bi_next_back. Qed.

(* inside the iterator's own range the bit iterator returns a value: next < limit <= len *)
Lemma bi_next_ok b B it : bv_repr b B -> bi_next it < bi_limit it -> bi_limit it <= bv_len b ->
  exists v, bi_next_f b it = Ok (mkbi (bi_next it + 1) (bi_limit it), Some v).
Proof.
  intros Hrepr Hlt Hle. unfold bi_next_f. replace (bi_limit it <=? bi_next it) with false by lia.
  destruct (bv_get_correct b B (bi_next it) Hrepr ltac:(lia)) as (x & E & _). rewrite E. cbn [bind]. eauto.
Qed.

(* ================================================================ 6. OneIter: the guards *)

(* word_unchecked of a transformation stays inside the word array for every index below the word count
   (Complement additionally indexes the mask table with len mod 64) *)
Lemma t_word_unchecked_ok t b i : i < lenN (rdata (bv_data b)) -> exists w, t_word_unchecked t b i = Ok w.
Proof.
  intros Hi. destruct (nthN_lt_Some (rdata (bv_data b)) i Hi) as (w & Hw).
  destruct t; cbn [t_word_unchecked]; unfold raw_word_unchecked, idx_unchecked.
  - rewrite Hw. eauto.
  - rewrite split_offset_spec. cbv iota beta. rewrite Hw. cbn [bind].
    destruct (_ <=? _); [|eauto].
    rewrite low_set_unchecked_ok by lia. cbn [bind]. eauto.
Qed.
Lemma t_word_unchecked_oob t b i : lenN (rdata (bv_data b)) <= i -> t_word_unchecked t b i = OOB SITE_RAW_WORD.
Proof.
  intros Hi. apply nthN_None_ge in Hi.
  destruct t; cbn [t_word_unchecked]; unfold raw_word_unchecked, idx_unchecked.
  - rewrite Hi. reflexivity.
  - rewrite split_offset_spec. cbv iota beta. rewrite Hi. reflexivity.
Qed.

(* the exhausted iterator: next/next_back return None without touching memory (the statement holds for EVERY
   bitvector value, also one with an empty word array, so no access can have happened) *)
Lemma oi_next_exhausted t b it : fst (oi_limit it) <= fst (oi_next it) -> oi_next_f t b it = Ok (it, None).
Proof. intros H. unfold oi_next_f. replace (fst (oi_limit it) <=? fst (oi_next it)) with true by lia. reflexivity. Qed.
Lemma oi_next_back_exhausted m t b it : fst (oi_limit it) <= fst (oi_next it) -> oi_next_back m t b it = Ok (it, None).
Proof. intros H. unfold oi_next_back. replace (fst (oi_limit it) <=? fst (oi_next it)) with true by lia. reflexivity. Qed.

(* the guard of nth as it is in the source now: n >= limit.0 - next.0 returns None and exhausts the iterator, for
   every n (no addition with n is performed, so nothing can wrap), in both modes and on both select paths, for
   every bitvector value: no memory is touched *)
Theorem oi_nth_guard sp m t b it n :
  fst (oi_next it) <= fst (oi_limit it) -> fst (oi_limit it) - fst (oi_next it) <= n ->
  oi_nth sp m t b it n = Ok (mkoi (oi_limit it) (oi_limit it), None).
Proof.
  intros Hinv Hn. unfold oi_nth, usub. replace (fst (oi_next it) <=? fst (oi_limit it)) with true by lia.
  cbn [bind]. replace (fst (oi_limit it) - fst (oi_next it) <=? n) with true by lia. reflexivity.
Qed.

(* ---- the guard as it was before the fix (F1): next.0 + n >= limit.0, the addition in the build's mode ---- *)
Definition oi_nth_old (sp : selpath) (m : mode) (t : transf) (b : bitvec) (it : one_iter) (n : N)
  : res (one_iter * option (N * N)) :=
  let* s := uadd m (fst (oi_next it)) n in
  if fst (oi_limit it) <=? s then Ok (mkoi (oi_limit it) (oi_limit it), None)
  else
    let '(index, offset) := split_offset (snd (oi_next it)) in
    let* w0 := t_word_unchecked t b index in
    let* ls := low_set_unchecked offset in
    let* (index', word, rr) := scan_rank t b (scan_fuel b) index (N.land w0 (wnot ls)) n in
    let* off := word_select sp m word rr in
    let result := (fst (oi_next it) + n, bit_offset index' off) in
    Ok (mkoi (fst result + 1, snd result + 1) (oi_limit it), Some result).

(* witness: the two-bit vector 11, after one next(): next = (1,1), limit = (2,2); n = 2^64 - 1 *)
Definition f1_bv : bitvec := bv_from_raw (mkraw 2 [3]).
Definition f1_it : one_iter :=
  match oi_next_f Identity f1_bv (oi_start Identity f1_bv) with Ok (it, _) => it | _ => oi_start Identity f1_bv end.

Lemma f1_bv_repr : bv_repr f1_bv [true; true].
Proof.
  assert (H : bv_repr f1_bv (bits_of 2 [3])).
  { apply (bv_from_raw_repr (mkraw 2 [3])), raw_wfb_ok. vm_compute. reflexivity. }
  exact H.
Qed.

Theorem oi_nth_old_refuted :
  exists b B it n, bv_repr b B /\ n < 2 ^ 64 /\
    oi_next_f Identity b (oi_start Identity b) = Ok (it, Some (0, 0)) /\
    (forall sp, oi_nth_old sp Release Identity b it n = OOB SITE_RAW_WORD) /\
    (forall sp, oi_nth_old sp Debug Identity b it n = Panic POverflow) /\
    (forall sp m, oi_nth sp m Identity b it n = Ok (mkoi (oi_limit it) (oi_limit it), None)).
Proof.
  exists f1_bv, [true; true], f1_it, (2 ^ 64 - 1).
  split; [exact f1_bv_repr|]. split; [reflexivity|]. split; [vm_compute; reflexivity|].
  split; [intros []; vm_compute; reflexivity|]. split; [intros []; vm_compute; reflexivity|].
  intros [] []; vm_compute; reflexivity.
Qed.

(* ================================================================ 7. OneIter: every call sequence *)

(* [oi_inv t B it] (Proofs/OneIterProof.v): next.0 <= limit.0 <= count, limit.1 <= len, and while items remain
   rank(next.1) = next.0 and rank(limit.1) = limit.0.  It holds for one_iter()/zero_iter(), for the empty
   iterator, for select_iter(r), predecessor(v), successor(v), and every step keeps it. *)

Inductive oi_op := ONext | ONextBack | ONth (n : N).

Definition oi_step (sp : selpath) (m : mode) (t : transf) (b : bitvec) (it : one_iter) (o : oi_op)
  : res (one_iter * option (N * N)) :=
  match o with
  | ONext => oi_next_f t b it
  | ONextBack => oi_next_back m t b it
  | ONth n => oi_nth sp m t b it n
  end.

(* run a call sequence, collecting what each call returned *)
Fixpoint oi_run (sp : selpath) (m : mode) (t : transf) (b : bitvec) (it : one_iter) (ops : list oi_op)
  : res (one_iter * list (option (N * N))) :=
  match ops with
  | [] => Ok (it, [])
  | o :: rest =>
      let* (it', r) := oi_step sp m t b it o in
      let* (it'', rs) := oi_run sp m t b it' rest in
      Ok (it'', r :: rs)
  end.

(* one step returns and keeps the invariant: for every n, both modes, both select paths *)
Theorem oi_step_ok sp m t b B it o : bv_repr b B -> oi_inv t B it ->
  exists it' r, oi_step sp m t b it o = Ok (it', r) /\ oi_inv t B it'.
Proof.
  intros Hrepr Hinv. destruct o as [| |n]; cbn [oi_step].
  - destruct (oi_next_spec t b B it Hrepr Hinv) as (it' & E & Hinv' & _). eauto.
  - destruct (oi_next_back_spec m t b B it Hrepr Hinv) as [(_ & E)|(it' & x & E & Hinv' & _)]; eauto.
  - destruct (oi_nth_spec sp m t b B it n Hrepr Hinv) as (it' & E & Hinv' & _). eauto.
Qed.

(* ... hence every call sequence returns: no out-of-bounds access, no panic, no exhausted fuel *)
Theorem oi_run_ok sp m t b B : bv_repr b B -> forall ops it, oi_inv t B it ->
  exists it' rs, oi_run sp m t b it ops = Ok (it', rs) /\ oi_inv t B it' /\ length rs = length ops.
Proof.
  intros Hrepr ops. induction ops as [|o rest IH]; intros it Hinv.
  - exists it, []. cbn [oi_run length]. auto.
  - destruct (oi_step_ok sp m t b B it o Hrepr Hinv) as (it1 & r & E1 & Hinv1).
    destruct (IH it1 Hinv1) as (it2 & rs & E2 & Hinv2 & Hlen).
    exists it2, (r :: rs). cbn [oi_run]. rewrite E1. cbn [bind]. rewrite E2. cbn [bind length].
    split; [reflexivity|]. split; [exact Hinv2|]. rewrite Hlen. reflexivity.
Qed.

(* ================================================================ 8. select and the iterator sources *)

(* whichever supports are present are the ones the builders produce (possibly built on another select path or
   in another mode than the one the query runs in) *)
Definition supports_ok (sp0 : selpath) (m0 : mode) (b : bitvec) (B : list bool) : Prop :=
  (bv_rank b <> None -> rank_ok b B) /\
  (forall t, t_support t b <> None -> select_ok sp0 m0 t b B).

Theorem bv_select_t_class sp0 m0 sp m t b B r :
  bv_repr b B -> (t_support t b <> None -> select_ok sp0 m0 t b B) ->
  (exists v, bv_select_t sp m t b r = Ok v) \/
  (t_support t b = None /\ r < t_count_ones t b /\ bv_select_t sp m t b r = Panic PUnwrap).
Proof.
  intros Hrepr Hsup. pose proof (t_count_ones_spec t b B Hrepr) as Hc.
  destruct (t_support t b) as [s|] eqn:Es.
  - left. eexists. apply (bv_select_t_spec sp0 m0 sp m t b B r Hrepr). intros _. apply Hsup. discriminate.
  - destruct (N.lt_ge_cases r (t_count_ones t b)) as [Hlt|Hge].
    + right. split; [reflexivity|]. split; [exact Hlt|]. apply bv_select_t_nosupport; [exact Es|lia].
    + left. rewrite bv_select_t_beyond by exact Hge. eauto.
Qed.

Theorem bv_select_iter_t_class sp0 m0 sp m t b B r :
  bv_repr b B -> (t_support t b <> None -> select_ok sp0 m0 t b B) ->
  (exists it, bv_select_iter_t sp m t b r = Ok it /\ oi_inv t B it) \/
  (t_support t b = None /\ r < t_count_ones t b /\ bv_select_iter_t sp m t b r = Panic PUnwrap).
Proof.
  intros Hrepr Hsup. pose proof (t_count_ones_spec t b B Hrepr) as Hc.
  destruct (t_support t b) as [s|] eqn:Es.
  - left. destruct (bv_select_iter_t_spec sp0 m0 sp m t b B r Hrepr) as (it & E & Hinv & _).
    + intros _. apply Hsup. discriminate.
    + eauto.
  - destruct (N.lt_ge_cases r (t_count_ones t b)) as [Hlt|Hge].
    + right. split; [reflexivity|]. split; [exact Hlt|].
      unfold bv_select_iter_t. replace (t_count_ones t b <=? r) with false by lia. rewrite Es. reflexivity.
    + left. rewrite bv_select_iter_t_beyond by exact Hge. exists (oi_empty t b). split; [reflexivity|].
      apply (oi_empty_inv t b B Hrepr).
Qed.

(* where an iterator over the set (unset) bits can come from *)
Inductive iter_src :=
| SAll (t : transf)                (* one_iter() / zero_iter() *)
| SSelect (t : transf) (r : N)     (* select_iter(r) / select_zero_iter(r) *)
| SPred (v : N)                    (* predecessor(v) *)
| SSucc (v : N).                   (* successor(v) *)

Definition src_transf (s : iter_src) : transf :=
  match s with SAll t => t | SSelect t _ => t | _ => Identity end.

Definition iter_open (sp : selpath) (m : mode) (b : bitvec) (s : iter_src) : res one_iter :=
  match s with
  | SAll t => Ok (oi_start t b)
  | SSelect t r => bv_select_iter_t sp m t b r
  | SPred v => bv_predecessor sp m b v
  | SSucc v => bv_successor sp m b v
  end.

(* opening an iterator returns one that satisfies the invariant, or panics on a missing support (unwrap) *)
Theorem iter_open_class sp0 m0 sp m b B s :
  bv_repr b B -> supports_ok sp0 m0 b B ->
  (exists it, iter_open sp m b s = Ok it /\ oi_inv (src_transf s) B it) \/
  iter_open sp m b s = Panic PUnwrap.
Proof.
  intros Hrepr (Hrank & Hsel). destruct s as [t|t r|v|v]; cbn [iter_open src_transf].
  - left. exists (oi_start t b). split; [reflexivity|]. apply (oi_start_inv t b B Hrepr).
  - destruct (bv_select_iter_t_class sp0 m0 sp m t b B r Hrepr (Hsel t)) as [H|(_ & _ & H)]; [left; exact H|right; exact H].
  - unfold bv_predecessor.
    destruct (bv_rank_q_total b B (sat_add1 v) Hrepr Hrank) as [[rk ->]|(_ & _ & ->)]; [|right; reflexivity].
    cbn [bind]. destruct (rk =? 0).
    + left. exists (oi_empty Identity b). split; [reflexivity|]. apply (oi_empty_inv Identity b B Hrepr).
    + destruct (bv_select_iter_t_class sp0 m0 sp m Identity b B (rk - 1) Hrepr (Hsel Identity)) as [H|(_ & _ & H)];
        [left; exact H|right; exact H].
  - unfold bv_successor.
    destruct (bv_rank_q_total b B v Hrepr Hrank) as [[rk ->]|(_ & _ & ->)]; [|right; reflexivity].
    cbn [bind]. destruct (bv_count_ones b <=? rk).
    + left. exists (oi_empty Identity b). split; [reflexivity|]. apply (oi_empty_inv Identity b B Hrepr).
    + destruct (bv_select_iter_t_class sp0 m0 sp m Identity b B rk Hrepr (Hsel Identity)) as [H|(_ & _ & H)];
        [left; exact H|right; exact H].
Qed.

(* ================================================================ 9. the bit iterator: every call sequence *)

Inductive bi_op := BNext | BNextBack | BNth (n : N) | BNthBack (n : N).

Definition bi_step (b : bitvec) (it : bit_iter) (o : bi_op) : res (bit_iter * option bool) :=
  match o with
  | BNext => bi_next_f b it
  | BNextBack => bi_next_back b it
  | BNth n => bi_nth b it n
  | BNthBack n => bi_nth_back b it n
  end.

Fixpoint bi_run (b : bitvec) (it : bit_iter) (ops : list bi_op) : res (bit_iter * list (option bool)) :=
  match ops with
  | [] => Ok (it, [])
  | o :: rest =>
      let* (it', r) := bi_step b it o in
      let* (it'', rs) := bi_run b it' rest in
      Ok (it'', r :: rs)
  end.

Lemma safe_bi_step b it o : safe (bi_step b it o).
Proof.
  destruct o; cbn [bi_step]; [apply safe_bi_next|apply safe_bi_next_back|apply safe_bi_nth|apply safe_bi_nth_back].
Qed.
Lemma safe_bi_run b ops : forall it, safe (bi_run b it ops).
Proof.
  induction ops as [|o rest IH]; intros it; cbn [bi_run]; [reflexivity|].
  apply safe_bind; [apply safe_bi_step|]. intros [it' r] _.
  apply safe_bind; [apply IH|]. intros [it'' rs] _. reflexivity.
Qed.

(* with the iterator inside the vector (next <= limit <= len, which bi_start establishes and every step keeps)
   every step returns *)
Definition bi_inv (b : bitvec) (it : bit_iter) : Prop := bi_next it <= bi_limit it /\ bi_limit it <= bv_len b.

Lemma bi_step_ok b B it o : bv_repr b B -> bi_inv b it ->
  exists it' r, bi_step b it o = Ok (it', r) /\ bi_inv b it'.
Proof.
  intros Hrepr (H1 & H2).
  assert (Hnext : forall it0, bi_inv b it0 -> exists it' r, bi_next_f b it0 = Ok (it', r) /\ bi_inv b it').
  { intros it0 (G1 & G2). unfold bi_next_f. destruct (N.leb_spec (bi_limit it0) (bi_next it0)) as [Hge|Hlt].
    - exists it0, None. split; [reflexivity|split; assumption].
    - destruct (bv_get_correct b B (bi_next it0) Hrepr ltac:(lia)) as (x & E & _). rewrite E. cbn [bind].
      eexists _, _. split; [reflexivity|]. unfold bi_inv. cbn [bi_next bi_limit]. lia. }
  assert (Hback : forall it0, bi_inv b it0 -> exists it' r, bi_next_back b it0 = Ok (it', r) /\ bi_inv b it').
  { intros it0 (G1 & G2). unfold bi_next_back. destruct (N.leb_spec (bi_limit it0) (bi_next it0)) as [Hge|Hlt].
    - exists it0, None. split; [reflexivity|split; assumption].
    - destruct (bv_get_correct b B (bi_limit it0 - 1) Hrepr ltac:(lia)) as (x & E & _). rewrite E. cbn [bind].
      eexists _, _. split; [reflexivity|]. unfold bi_inv. cbn [bi_next bi_limit]. lia. }
  destruct o as [| |n|n]; cbn [bi_step].
  - apply Hnext. split; assumption.
  - apply Hback. split; assumption.
  - unfold bi_nth. apply Hnext. unfold bi_inv. cbn [bi_next bi_limit]. lia.
  - unfold bi_nth_back. apply Hback. unfold bi_inv. cbn [bi_next bi_limit]. lia.
Qed.

Theorem bi_run_ok b B : bv_repr b B -> forall ops it, bi_inv b it ->
  exists it' rs, bi_run b it ops = Ok (it', rs) /\ length rs = length ops.
Proof.
  intros Hrepr ops. induction ops as [|o rest IH]; intros it Hinv.
  - exists it, []. auto.
  - destruct (bi_step_ok b B it o Hrepr Hinv) as (it1 & r & E1 & Hinv1).
    destruct (IH it1 Hinv1) as (it2 & rs & E2 & Hlen).
    exists it2, (r :: rs). cbn [bi_run]. rewrite E1. cbn [bind]. rewrite E2. cbn [bind length]. auto.
Qed.

(* ================================================================ 10. the whole safe query API of BitVector *)

(* BitVector's queries take &self, so a call sequence is a sequence of independent calls, except that iterators
   carry their own state: a "call" is therefore a query or an iterator together with a whole sequence of steps *)
Inductive bv_call :=
| KGet (i : N)
| KRank (i : N)
| KRankZero (i : N)
| KSelect (t : transf) (r : N)
| KOneIter (s : iter_src) (ops : list oi_op)
| KBitIter (ops : list bi_op).

(* did the call run into an unchecked access outside its buffer? *)
Definition bv_call_oob (sp : selpath) (m : mode) (b : bitvec) (c : bv_call) : bool :=
  match c with
  | KGet i => is_oob (bv_get b i)
  | KRank i => is_oob (bv_rank_q b i)
  | KRankZero i => is_oob (bv_rank_zero m b i)
  | KSelect t r => is_oob (bv_select_t sp m t b r)
  | KOneIter s ops => is_oob (let* it := iter_open sp m b s in oi_run sp m (src_transf s) b it ops)
  | KBitIter ops => is_oob (bi_run b (bi_start b) ops)
  end.

Theorem bv_call_no_oob sp0 m0 sp m b B c :
  bv_repr b B -> supports_ok sp0 m0 b B -> bv_call_oob sp m b c = false.
Proof.
  intros Hrepr Hsup. pose proof Hsup as (Hrank & Hsel). destruct c as [i|i|i|t r|s ops|ops]; cbn [bv_call_oob].
  - apply safe_bv_get.
  - apply (safe_bv_rank_q b B i Hrepr Hrank).
  - apply (safe_bv_rank_zero m b B i Hrepr Hrank).
  - destruct (bv_select_t_class sp0 m0 sp m t b B r Hrepr (Hsel t)) as [[v ->]|(_ & _ & ->)]; reflexivity.
  - destruct (iter_open_class sp0 m0 sp m b B s Hrepr Hsup) as [(it & -> & Hinv)| ->]; [|reflexivity].
    cbn [bind]. destruct (oi_run_ok sp m (src_transf s) b B Hrepr ops it Hinv) as (it' & rs & -> & _). reflexivity.
  - apply safe_bi_run.
Qed.

(* the vectors the model's builders produce satisfy [supports_ok] (any subset of the three supports) *)
Lemma supports_ok_none sp0 m0 b B : bv_rank b = None -> bv_select b = None -> bv_select_zero b = None ->
  supports_ok sp0 m0 b B.
Proof.
  intros H1 H2 H3. split; [intros H; contradiction|]. intros [] H; cbn [t_support] in H; contradiction.
Qed.

Theorem bv_enable_all_supports sp m b B :
  bv_repr b B -> bv_rank b = None -> bv_select b = None -> bv_select_zero b = None ->
  exists b', bv_enable_all sp m b = Ok b' /\ bv_repr b' B /\ supports_ok sp m b' B /\
             bv_rank b' <> None /\ bv_select b' <> None /\ bv_select_zero b' <> None.
Proof.
  intros Hrepr Hr Hs Hz. unfold bv_enable_all.
  destruct (bv_enable_rank_ok b B Hrepr) as (b1 & E1 & Hrepr1 & Hok1 & _ & _ & Hs1 & Hz1).
  { intros H. contradiction. }
  rewrite E1. cbn [bind].
  destruct (bv_enable_both_select sp m b1 B Hrepr1 ltac:(congruence) ltac:(congruence))
    as (b2 & b3 & E2 & E3 & Hrepr3 & Hsame & Hrk & Hsel1 & Hsel0).
  rewrite E2. cbn [bind]. exists b3. split; [exact E3|]. split; [exact Hrepr3|].
  destruct Hok1 as (rs & Hrs & Hnew).
  assert (Hok3 : rank_ok b3 B).
  { exists rs. split; [congruence|]. rewrite <- Hnew. apply rank_new_same_data. destruct Hsame as [Hd _]. congruence. }
  split; [|split; [|split]].
  - split; [intros _; exact Hok3|]. intros [] _; assumption.
  - destruct Hok3 as (rs3 & H3 & _). congruence.
  - destruct Hsel1 as (s & H & _). cbn [t_support] in H. congruence.
  - destruct Hsel0 as (s & H & _). cbn [t_support] in H. congruence.
Qed.
