(* C03 assembled: construction through the builder + every query against the run-list specification. *)
From Coq Require Import NArith List Lia ZArith Bool.
Require Import SDS.Model.Mach SDS.Model.Bits SDS.Model.Raw SDS.Model.IntVec SDS.Model.RL SDS.gen.Consts SDS.gen.Funs.
Require Import SDS.Spec.Runs.
Require Import SDS.Proofs.BitsProof SDS.Proofs.RLIntVec SDS.Proofs.RLVarint SDS.Proofs.RLIndex SDS.Proofs.RLRep
               SDS.Proofs.RunsLemmas SDS.Proofs.RLBuild SDS.Proofs.RLIter SDS.Proofs.RLQuery SDS.Proofs.RLQuery2
               SDS.Proofs.RLQuery3 SDS.Proofs.RLQuery4.
Import ListNotations.
Open Scope N_scope.
Require Import ZifyBool ZifyN ZifyNat.
Ltac Zify.zify_post_hook ::= Z.div_mod_to_equations.
Arguments N.add : simpl never. Arguments N.sub : simpl never. Arguments N.mul : simpl never.
Arguments N.eqb : simpl never. Arguments N.ltb : simpl never. Arguments N.leb : simpl never.
Arguments N.pow : simpl never. Arguments N.min : simpl never.

(* the calls that build the vector: one try_set per run, then set_len *)
Definition rl_ops (R : list run) (L : N) : list bop :=
  map (fun r => BTrySet (fst r) (snd r)) R ++ [BSetLen L].

Lemma rl_ops_build R L : rl_ops R L = build_ops R L.
Proof. reflexivity. Qed.

(* the maximal runs are maximal, and describe the same bits *)
Lemma in_run_merge i s0 l0 l :
  in_run i (s0, l0 + l) = in_run i (s0, l0) || in_run i (s0 + l0, l).
Proof.
  unfold in_run. cbn [fst snd].
  destruct (N.leb_spec s0 i), (N.ltb_spec i (s0 + (l0 + l))), (N.ltb_spec i (s0 + l0)),
           (N.leb_spec (s0 + l0) i), (N.ltb_spec i (s0 + l0 + l)); cbn [andb orb]; try reflexivity; lia.
Qed.

Lemma maximal_from_get i : forall rest cur,
  runs_get (maximal_from cur rest) i = in_run i cur || runs_get rest i.
Proof.
  induction rest as [|[s l] rest IH]; intros cur; cbn [maximal_from].
  - unfold runs_get. cbn [existsb]. reflexivity.
  - destruct (N.eqb_spec (fst cur + snd cur) s) as [E|NE].
    + rewrite IH. unfold runs_get at 2. cbn [existsb]. fold (runs_get rest i).
      destruct cur as [s0 l0]. cbn [fst snd] in *. subst s. rewrite in_run_merge, orb_assoc. reflexivity.
    + unfold runs_get at 1. cbn [existsb]. fold (runs_get (maximal_from (s, l) rest) i). rewrite IH. reflexivity.
Qed.

Theorem maximal_spec R :
  runs_sorted 0 R ->
  runs_maximal true 0 (maximal R) /\ runs_end (maximal R) = runs_end R /\
  forall i, runs_get (maximal R) i = runs_get R i.
Proof.
  intros Hs. apply runs_srt_sorted in Hs. destruct R as [|r rest].
  - cbn [maximal]. repeat split.
  - cbn [runs_srt] in Hs. destruct Hs as (H0 & H1 & H2). cbn [maximal].
    destruct (maximal_from_ok rest r true 0) as [G1 G2]; try assumption.
    split; [apply runs_ok_maximal; exact G1|]. split.
    + rewrite !runs_end_spec. rewrite G2. reflexivity.
    + intros i. rewrite maximal_from_get. reflexivity.
Qed.

Theorem rl_exact m R L :
  runs_sorted 0 R -> runs_end R <= L -> L <= 2 ^ 64 - 1 -> lenN R < 2 ^ 56 ->
  exists v,
    rl_build m (rl_ops R L) = Ok (v, map (fun _ => true) R ++ [true]) /\
    rl_len v = L /\ rl_ones v = runs_ones (maximal R) /\ rl_count_zeros v = L - runs_ones (maximal R) /\
    rl_runs m v = Ok (runs_with_pos 0 (maximal R)) /\
    (forall i, i < L -> rl_get m v i = Ok (runs_get (maximal R) i)) /\
    (forall i, i < 2 ^ 64 -> rl_rank m v i = Ok (runs_rank (maximal R) i)) /\
    (forall i, i < 2 ^ 64 -> rl_rank_zero m v i = Ok (i - runs_rank (maximal R) i)) /\
    (forall r, r < 2 ^ 64 -> rl_select m v r = Ok (runs_select (maximal R) r)) /\
    (forall r, r < 2 ^ 64 -> rl_select_zero m v r = Ok (runs_select_zero (maximal R) L r)) /\
    (forall x, x < 2 ^ 64 -> oi_first m v (rl_predecessor m v x) = Ok (runs_pred (maximal R) x)) /\
    (forall x, x < 2 ^ 64 -> oi_first m v (rl_successor m v x) = Ok (runs_succ (maximal R) x)).
Proof.
  intros Hs He HL Hn. apply runs_srt_sorted in Hs. rewrite runs_end_spec in He.
  destruct (rl_build_ok m R L Hs He ltac:(lia) Hn) as (v & BS & Hb & Hok & HF).
  exists v. split; [exact Hb|].
  split; [exact (len_L v BS L Hok)|].
  split; [rewrite (ones_F v BS L Hok), HF; apply rones_spec|].
  split; [unfold rl_count_zeros; rewrite (ones_F v BS L Hok), (len_L v BS L Hok), HF, rones_spec; reflexivity|].
  split; [rewrite <- HF; exact (runs_spec m v BS L Hok)|].
  split; [intros i Hi; rewrite <- HF; exact (get_spec m v BS L Hok i Hi)|].
  split; [intros i _; rewrite <- HF; exact (rank_spec m v BS L Hok i)|].
  split; [intros i _; rewrite <- HF; exact (rank_zero_spec m v BS L Hok i)|].
  split; [intros r _; rewrite <- HF; exact (select_spec m v BS L Hok r)|].
  split; [intros r _; rewrite <- HF; exact (select_zero_spec m v BS L Hok r)|].
  split; [intros x _; rewrite <- HF; exact (predecessor_spec m v BS L Hok x)|].
  intros x _; rewrite <- HF; exact (successor_spec m v BS L Hok x).
Qed.

(* the block partition of the built vector, as one statement *)
Theorem rl_block_partition m R L :
  runs_sorted 0 R -> runs_end R <= L -> L <= 2 ^ 64 - 1 -> lenN R < 2 ^ 56 ->
  exists v BS, rl_build m (rl_ops R L) = Ok (v, map (fun _ => true) R ++ [true]) /\
    concat BS = maximal R /\ rl_ok v BS L.
Proof.
  intros Hs He HL Hn. apply runs_srt_sorted in Hs. rewrite runs_end_spec in He.
  destruct (rl_build_ok m R L Hs He ltac:(lia) Hn) as (v & BS & Hb & Hok & HF).
  exists v, BS. auto.
Qed.

(* the derived iterators: every prefix of their output *)
Theorem rl_iterators m R L n :
  runs_sorted 0 R -> runs_end R <= L -> L <= 2 ^ 64 - 1 -> lenN R < 2 ^ 56 ->
  exists v,
    rl_build m (rl_ops R L) = Ok (v, map (fun _ => true) R ++ [true]) /\
    (forall r, r < 2 ^ 64 ->
       (let* s := rl_select_iter m v r in oi_take n m v s) = Ok (ones_from_rank n (maximal R) r)) /\
    (forall r, r < 2 ^ 64 ->
       (let* s := rl_select_zero_iter m v r in zi_take n m v s) = Ok (zeros_from_rank n (maximal R) L r)) /\
    (let* s := rl_one_iter v in oi_take n m v s) = Ok (ones_from_rank n (maximal R) 0) /\
    (let* s := rl_zero_iter m v in zi_take n m v s) = Ok (zeros_from_rank n (maximal R) L 0) /\
    (let* s := rl_iter v in bi_take n m v s) = Ok (bits_from n (maximal R) L 0).
Proof.
  intros Hs He HL Hn. apply runs_srt_sorted in Hs. rewrite runs_end_spec in He.
  destruct (rl_build_ok m R L Hs He ltac:(lia) Hn) as (v & BS & Hb & Hok & HF).
  exists v. split; [exact Hb|].
  split; [intros r _; rewrite <- HF; exact (select_iter_spec m v BS L Hok r n)|].
  split; [intros r _; rewrite <- HF; exact (select_zero_iter_spec m v BS L Hok r n)|].
  split; [rewrite <- HF; exact (one_iter_spec m v BS L Hok n)|].
  split; [rewrite <- HF; exact (zero_iter_spec m v BS L Hok n)|].
  rewrite <- HF; exact (iter_spec m v BS L Hok n).
Qed.
