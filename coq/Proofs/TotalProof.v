(* C09: the public wrappers of the plain bitvector are total. Every out-of-range or extreme argument (any N,
   in particular len, len+1, 2^63, 2^64-1) gets the documented answer in BOTH build modes, and the wrapper
   returns before it touches a support structure or the data. Also the iterators' nth / nth_back for every n,
   the OLD guard of OneIter::nth (finding F1) refuted, and the constructors' width validation. *)
From Coq Require Import NArith List Lia ZArith Bool.
Require Import SDS.Model.Mach SDS.Model.Bits SDS.Model.Raw SDS.Model.IntVec SDS.Model.BitVec SDS.Model.Builders SDS.gen.Consts.
Require Import SDS.Spec.BitSeq SDS.Spec.BuilderSpec SDS.Proofs.BitsProof SDS.Proofs.BVCommon SDS.Proofs.RankProof.
Import ListNotations.
Open Scope N_scope.
Require Import ZifyBool ZifyN ZifyNat.
Ltac Zify.zify_post_hook ::= Z.div_mod_to_equations.
Arguments N.add : simpl never. Arguments N.sub : simpl never. Arguments N.mul : simpl never.
Arguments N.eqb : simpl never. Arguments N.ltb : simpl never. Arguments N.leb : simpl never.
Arguments N.pow : simpl never. Arguments N.shiftl : simpl never. Arguments N.shiftr : simpl never.
Arguments N.land : simpl never. Arguments N.lor : simpl never. Arguments N.div : simpl never.
Arguments N.modulo : simpl never. Arguments N.ones : simpl never. Arguments N.testbit : simpl never.
Arguments N.min : simpl never.

(* ================================================================ 1. rank / rank_zero *)

(* beyond the end the wrapper answers count_ones without looking at the support (which may be absent) *)
Lemma rank_beyond b B i : bv_repr b B -> bv_len b <= i -> bv_rank_q b i = Ok (count B).
Proof.
  intros (_ & _ & Hones) Hi. unfold bv_rank_q. replace (bv_len b <=? i) with true by lia.
  unfold bv_count_ones. rewrite Hones. reflexivity.
Qed.

Theorem rank_total : forall b B, bv_repr b B -> rank_ok b B ->
  forall i, bv_rank_q b i = Ok (rank1 B i) /\ (bv_len b <= i -> rank1 B i = count B).
Proof.
  intros b B Hr Hok i. split; [apply bv_rank_q_correct; assumption|].
  intros Hi. apply rank1_all. rewrite <- (bv_len_lenB b B Hr). exact Hi.
Qed.

Theorem rank_zero_total : forall m b B, bv_repr b B -> rank_ok b B ->
  forall i, bv_rank_zero m b i = Ok (i - rank1 B i) /\ (bv_len b <= i -> bv_rank_zero m b i = Ok (i - count B)).
Proof.
  intros m b B Hr Hok i. split; [apply bv_rank_zero_value; assumption|].
  intros Hi. rewrite (bv_rank_zero_value m b B Hr Hok). do 2 f_equal.
  apply rank1_all. rewrite <- (bv_len_lenB b B Hr). exact Hi.
Qed.

(* ================================================================ 2. select beyond the count *)

Lemma count_negb B : count (map negb B) = lenB B - count B.
Proof.
  unfold lenB. induction B as [|x t IH]; [reflexivity|].
  cbn [map count length]. rewrite IH. pose proof (count_le_length t). destruct x; cbn [negb b2n]; lia.
Qed.

Lemma t_count_ones_spec t b B : bv_repr b B -> t_count_ones t b = count (t_bits t B).
Proof.
  intros Hr. destruct (bv_counts_correct b B Hr) as (Hl & Ho & Hz).
  destruct t; cbn [t_count_ones t_bits]; [exact Ho|]. rewrite Hz, count_negb. reflexivity.
Qed.

Lemma nth_opt_beyond {A} (l : list A) : forall r, lenN l <= r -> nth_opt l r = None.
Proof.
  unfold lenN. induction l as [|x t IH]; intros r Hr; [reflexivity|].
  cbn [nth_opt length] in *. destruct (N.eqb_spec r 0) as [->|Hn]; [lia|]. apply IH. lia.
Qed.

Lemma ones_from_len B : forall pos, N.of_nat (length (ones_from B pos)) = count B.
Proof.
  induction B as [|x t IH]; intros pos; [reflexivity|].
  cbn [ones_from count]. destruct x; cbn [length b2n]; rewrite ?Nat2N.inj_succ, IH; lia.
Qed.

Lemma select1_beyond B r : count B <= r -> select1 B r = None.
Proof.
  intros Hr. unfold select1. apply nth_opt_beyond. unfold ones, lenN.
  rewrite ones_from_len. exact Hr.
Qed.

(* the empty iterator yields nothing and has length 0 *)
Lemma oi_empty_exhausted t b :
  oi_next_f t b (oi_empty t b) = Ok (oi_empty t b, None) /\ oi_len (oi_empty t b) = 0.
Proof.
  unfold oi_next_f, oi_empty, oi_len. cbn [oi_next oi_limit fst snd].
  rewrite N.leb_refl. split; [reflexivity|lia].
Qed.

Theorem select_beyond : forall sp m t b B r, bv_repr b B -> count (t_bits t B) <= r ->
  bv_select_t sp m t b r = Ok None /\ select1 (t_bits t B) r = None /\
  bv_select_iter_t sp m t b r = Ok (oi_empty t b) /\
  oi_next_f t b (oi_empty t b) = Ok (oi_empty t b, None) /\ oi_len (oi_empty t b) = 0.
Proof.
  intros sp m t b B r Hr Hge. rewrite <- (t_count_ones_spec t b B Hr) in Hge.
  unfold bv_select_t, bv_select_iter_t. replace (t_count_ones t b <=? r) with true by lia.
  split; [reflexivity|]. split; [apply select1_beyond; rewrite <- (t_count_ones_spec t b B Hr); exact Hge|].
  split; [reflexivity|]. apply oi_empty_exhausted.
Qed.

(* ================================================================ 3. predecessor / successor *)

Lemma sat_add1_bound v : sat_add1 v < 2 ^ 64 /\ (v < 2 ^ 64 -> v <= sat_add1 v) /\ (v + 1 < 2 ^ 64 -> sat_add1 v = v + 1).
Proof. unfold sat_add1. destruct (N.ltb_spec (v + 1) (2 ^ 64)); lia. Qed.

Theorem successor_beyond : forall sp m b B v, bv_repr b B -> bv_len b <= v ->
  bv_successor sp m b v = Ok (oi_empty Identity b).
Proof.
  intros sp m b B v Hr Hv. unfold bv_successor. rewrite (rank_beyond b B v Hr Hv). cbn [bind].
  destruct Hr as (_ & _ & Hones). unfold bv_count_ones. rewrite Hones, N.leb_refl. reflexivity.
Qed.

(* what predecessor does with ANY argument below 2^64: the rank of the clamped v + 1, never a panic of its own *)
Theorem predecessor_shape : forall sp m b B v, bv_repr b B -> rank_ok b B ->
  bv_predecessor sp m b v =
    (if rank1 B (sat_add1 v) =? 0 then Ok (oi_empty Identity b)
     else bv_select_iter_t sp m Identity b (rank1 B (sat_add1 v) - 1)).
Proof.
  intros sp m b B v Hr Hok. unfold bv_predecessor. rewrite (bv_rank_q_correct b B Hr Hok). reflexivity.
Qed.

Theorem predecessor_beyond : forall sp m b B v, bv_repr b B -> rank_ok b B -> v < 2 ^ 64 -> bv_len b <= v ->
  bv_predecessor sp m b v =
    (if count B =? 0 then Ok (oi_empty Identity b) else bv_select_iter_t sp m Identity b (count B - 1)) /\
  (0 < bv_len b -> bv_predecessor sp m b v = bv_predecessor sp m b (bv_len b - 1)).
Proof.
  intros sp m b B v Hr Hok Hv Hge.
  assert (Hall : forall u, u < 2 ^ 64 -> bv_len b <= sat_add1 u ->
                 bv_predecessor sp m b u =
                 (if count B =? 0 then Ok (oi_empty Identity b) else bv_select_iter_t sp m Identity b (count B - 1))).
  { intros u Hu Hs. rewrite (predecessor_shape sp m b B u Hr Hok).
    rewrite (rank1_all B (sat_add1 u)); [reflexivity|]. rewrite <- (bv_len_lenB b B Hr). exact Hs. }
  split.
  - apply Hall; [exact Hv|]. pose proof (sat_add1_bound v). lia.
  - intros Hpos. assert (Hlen : bv_len b < 2 ^ 64) by (destruct Hr as ((_ & _ & _ & Hlt) & _); exact Hlt).
    rewrite Hall; [|exact Hv|pose proof (sat_add1_bound v); lia].
    rewrite Hall; [reflexivity|lia|]. pose proof (sat_add1_bound (bv_len b - 1)). lia.
Qed.

(* ================================================================ 4. OneIter::nth / the bit iterator *)

(* the iterator invariant on the rank components *)
Definition oi_inv (it : one_iter) : Prop := fst (oi_next it) <= fst (oi_limit it).

Lemma oi_inv_start t b B : bv_repr b B -> oi_inv (oi_start t b) /\ oi_inv (oi_empty t b).
Proof. intros _. unfold oi_inv, oi_start, oi_empty. cbn [oi_next oi_limit fst]. lia. Qed.

Theorem nth_beyond : forall sp m t b it n, oi_inv it -> fst (oi_limit it) - fst (oi_next it) <= n ->
  oi_nth sp m t b it n = Ok (mkoi (oi_limit it) (oi_limit it), None) /\
  oi_next_f t b (mkoi (oi_limit it) (oi_limit it)) = Ok (mkoi (oi_limit it) (oi_limit it), None) /\
  oi_len (mkoi (oi_limit it) (oi_limit it)) = 0.
Proof.
  intros sp m t b it n Hinv Hn. unfold oi_inv in Hinv. split; [|split].
  - unfold oi_nth, usub. replace (fst (oi_next it) <=? fst (oi_limit it)) with true by lia. cbn [bind].
    replace (fst (oi_limit it) - fst (oi_next it) <=? n) with true by lia. reflexivity.
  - unfold oi_next_f. cbn [oi_next oi_limit]. rewrite N.leb_refl. reflexivity.
  - unfold oi_len. cbn [oi_next oi_limit]. lia.
Qed.

(* a successful step keeps the invariant (so it holds along every history that starts at one_iter / select_iter) *)
Lemma oi_next_f_inv t b it it' x : oi_inv it -> oi_next_f t b it = Ok (it', x) -> oi_inv it'.
Proof.
  unfold oi_inv, oi_next_f. intros Hinv H.
  destruct (N.leb_spec (fst (oi_limit it)) (fst (oi_next it))) as [Hle|Hlt].
  - injection H as <- _. exact Hinv.
  - destruct (split_offset (snd (oi_next it))) as (index, offset).
    destruct (t_word_unchecked t b index) as [w0| |]; cbn [bind] in H; try discriminate.
    destruct (low_set_unchecked offset) as [ls| |]; cbn [bind] in H; try discriminate.
    destruct (scan_fwd t b (scan_fuel b) index (N.land w0 (wnot ls))) as [(index', word)| |]; cbn [bind] in H; try discriminate.
    injection H as <- _. cbn [oi_next oi_limit fst]. lia.
Qed.

Lemma oi_nth_inv sp m t b it n it' x : oi_inv it -> oi_nth sp m t b it n = Ok (it', x) -> oi_inv it'.
Proof.
  unfold oi_inv, oi_nth, usub. intros Hinv H.
  replace (fst (oi_next it) <=? fst (oi_limit it)) with true in H by lia. cbn [bind] in H.
  destruct (N.leb_spec (fst (oi_limit it) - fst (oi_next it)) n) as [Hle|Hlt].
  - injection H as <- _. cbn [oi_next oi_limit]. lia.
  - destruct (split_offset (snd (oi_next it))) as (index, offset).
    destruct (t_word_unchecked t b index) as [w0| |]; cbn [bind] in H; try discriminate.
    destruct (low_set_unchecked offset) as [ls| |]; cbn [bind] in H; try discriminate.
    destruct (scan_rank t b (scan_fuel b) index (N.land w0 (wnot ls)) n) as [((index', word), rr)| |]; cbn [bind] in H; try discriminate.
    destruct (word_select sp m word rr) as [off| |]; cbn [bind] in H; try discriminate.
    injection H as <- _. cbn [oi_next oi_limit fst]. lia.
Qed.

(* ---- the guard as it was before the repair of finding F1: `if self.next.0 + n >= self.limit.0` ---- *)
Definition oi_nth_old (sp : selpath) (m : mode) (t : transf) (b : bitvec) (it : one_iter) (n : N)
  : res (one_iter * option (N * N)) :=
  let* reach := uadd m (fst (oi_next it)) n in
  if fst (oi_limit it) <=? reach then Ok (mkoi (oi_limit it) (oi_limit it), None)
  else
    let '(index, offset) := split_offset (snd (oi_next it)) in
    let* w0 := t_word_unchecked t b index in
    let* ls := low_set_unchecked offset in
    let* (index', word, rr) := scan_rank t b (scan_fuel b) index (N.land w0 (wnot ls)) n in
    let* off := word_select sp m word rr in
    let result := (fst (oi_next it) + n, bit_offset index' off) in
    Ok (mkoi (fst result + 1, snd result + 1) (oi_limit it), Some result).

(* 200 bits with ones at 3, 70, 71, 150, 199 (the vector of the F1 demonstration) *)
Definition f1_raw : raw := mkraw 200 [8; 192; 4194304; 128].
Definition f1_bv : bitvec := bv_from_raw f1_raw.
(* one_iter() after one next() *)
Definition f1_it : one_iter := mkoi (1, 4) (5, 200).

Lemma f1_it_is_after_next : oi_next_f Identity f1_bv (oi_start Identity f1_bv) = Ok (f1_it, Some (0, 3)).
Proof. vm_compute. reflexivity. Qed.

Theorem nth_old_refuted :
  oi_nth_old Pdep Debug Identity f1_bv f1_it (2 ^ 64 - 1) = Panic POverflow /\
  oi_nth_old Portable Debug Identity f1_bv f1_it (2 ^ 64 - 1) = Panic POverflow /\
  oi_nth_old Pdep Release Identity f1_bv f1_it (2 ^ 64 - 1) = OOB SITE_RAW_WORD /\
  oi_nth_old Portable Release Identity f1_bv f1_it (2 ^ 64 - 1) = OOB SITE_RAW_WORD /\
  (forall sp m, oi_nth sp m Identity f1_bv f1_it (2 ^ 64 - 1) = Ok (mkoi (5, 200) (5, 200), None)).
Proof.
  split; [vm_compute; reflexivity|]. split; [vm_compute; reflexivity|].
  split; [vm_compute; reflexivity|]. split; [vm_compute; reflexivity|].
  intros sp m. destruct sp, m; vm_compute; reflexivity.
Qed.

(* ---- bit_vector::Iter ---- *)

Definition bi_inv (it : bit_iter) : Prop := bi_next it <= bi_limit it.

Theorem bi_nth_total : forall b it n, bi_inv it ->
  bi_nth b it n =
    (if bi_limit it - bi_next it <=? n then Ok (mkbi (bi_limit it) (bi_limit it), None)
     else bi_next_f b (mkbi (bi_next it + n) (bi_limit it))) /\
  bi_nth_back b it n =
    (if bi_limit it - bi_next it <=? n then Ok (mkbi (bi_next it) (bi_next it), None)
     else bi_next_back b (mkbi (bi_next it) (bi_limit it - n))).
Proof.
  intros b it n Hinv. unfold bi_inv in Hinv. unfold bi_nth, bi_nth_back. split.
  - destruct (N.leb_spec (bi_limit it - bi_next it) n) as [Hle|Hlt].
    + replace (N.min n (bi_limit it - bi_next it)) with (bi_limit it - bi_next it) by lia.
      replace (bi_next it + (bi_limit it - bi_next it)) with (bi_limit it) by lia.
      unfold bi_next_f. cbn [bi_next bi_limit]. rewrite N.leb_refl. reflexivity.
    + replace (N.min n (bi_limit it - bi_next it)) with n by lia. reflexivity.
  - destruct (N.leb_spec (bi_limit it - bi_next it) n) as [Hle|Hlt].
    + replace (N.min n (bi_limit it - bi_next it)) with (bi_limit it - bi_next it) by lia.
      replace (bi_limit it - (bi_limit it - bi_next it)) with (bi_next it) by lia.
      unfold bi_next_back. cbn [bi_next bi_limit]. rewrite N.leb_refl. reflexivity.
    + replace (N.min n (bi_limit it - bi_next it)) with n by lia. reflexivity.
Qed.

(* after an exhausting nth / nth_back both ends report None and the length is 0 *)
Lemma bi_exhausted b p :
  bi_next_f b (mkbi p p) = Ok (mkbi p p, None) /\ bi_next_back b (mkbi p p) = Ok (mkbi p p, None) /\ bi_len (mkbi p p) = 0.
Proof.
  unfold bi_next_f, bi_next_back, bi_len. cbn [bi_next bi_limit]. rewrite N.leb_refl.
  split; [reflexivity|]. split; [reflexivity|lia].
Qed.

(* ================================================================ 5. constructors *)

Lemma width_ok_spec w : width_ok w = negb ((w =? 0) || (64 <? w)).
Proof. unfold width_ok. destruct consts_bits_ok as (-> & _). reflexivity. Qed.

Theorem constructors_reject : forall w,
  (iv_new w = None <-> (w = 0 \/ 64 < w)) /\
  (forall len value, iv_with_len len w value = None <-> (w = 0 \/ 64 < w)) /\
  (forall capacity, iv_with_capacity capacity w = None <-> (w = 0 \/ 64 < w)).
Proof.
  intros w. unfold iv_new, iv_with_len, iv_with_capacity. rewrite width_ok_spec.
  destruct (N.eqb_spec w 0) as [->|Hn]; cbn [orb negb].
  - repeat split; intros; auto.
  - destruct (N.ltb_spec 64 w) as [Hgt|Hle]; cbn [negb].
    + repeat split; intros; auto.
    + repeat split; intros H; try discriminate; lia.
Qed.

(* SparseBuilder::new: Err exactly for ones > universe; RLBuilder::try_set on a fresh builder: never a panic, in
   either mode, and Err exactly when start + len exceeds usize::MAX *)
Theorem builders_reject :
  (forall universe ones, sb_make (NewS universe ones) = None <-> universe < ones) /\
  (forall m start len, start < 2 ^ 64 -> len < 2 ^ 64 ->
     exists b', rl_try_set m rl_init start len =
                Ok (b', if 2 ^ 64 - 1 <? start + len then Rejected else Accepted)).
Proof.
  split.
  - intros u o. cbn [sb_make]. destruct (N.ltb_spec u o); split; intros H0; try discriminate; try lia; reflexivity.
  - intros m start len Hs Hl. unfold rl_try_set, rl_init. cbn [blen].
    replace (start <? 0) with false by lia.
    unfold usub, MAXU. replace (len <=? 2 ^ 64 - 1) with true by lia. cbn [bind].
    destruct (N.ltb_spec (2 ^ 64 - 1 - len) start) as [Hrej|Hacc].
    + replace (2 ^ 64 - 1 <? start + len) with true by lia. eexists. reflexivity.
    + replace (2 ^ 64 - 1 <? start + len) with false by lia.
      unfold rl_set_run. cbn [blen bones brun btail bruns fst snd].
      destruct (N.leb_spec len 0) as [Hz|Hpos]; [eexists; reflexivity|].
      destruct (N.eqb_spec start 0) as [->|Hne].
      * unfold uadd. replace (0 + len <? 2 ^ 64) with true by lia. cbn [bind]. eexists. reflexivity.
      * unfold rl_flush. cbn [brun snd]. replace (0 <=? 0) with true by lia. cbn [bind blen bones btail bruns].
        unfold uadd. replace (start + len <? 2 ^ 64) with true by lia. cbn [bind].
        replace (0 + len <? 2 ^ 64) with true by lia. cbn [bind]. eexists. reflexivity.
Qed.
