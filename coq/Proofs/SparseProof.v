(* Proofs about Model/Sparse.v (Elias-Fano sparse vector). *)
From Coq Require Import NArith List Lia ZArith Bool.
Require Import SDS.Model.Mach SDS.Model.Bits SDS.Model.Raw SDS.Model.IntVec SDS.Model.BitVec SDS.Model.Sparse.
Require Import SDS.Spec.BitSeq SDS.Spec.ValSeq SDS.Proofs.BitsProof SDS.Proofs.BVCommon SDS.Proofs.SparseSeq SDS.gen.Consts.
Import ListNotations.
Open Scope N_scope.
Require Import ZifyBool ZifyN ZifyNat.
Ltac Zify.zify_post_hook ::= Z.div_mod_to_equations.
Arguments N.add : simpl never. Arguments N.sub : simpl never. Arguments N.mul : simpl never.
Arguments N.eqb : simpl never. Arguments N.ltb : simpl never. Arguments N.leb : simpl never.
Arguments N.pow : simpl never. Arguments N.shiftl : simpl never. Arguments N.shiftr : simpl never.
Arguments N.land : simpl never. Arguments N.lor : simpl never. Arguments N.div : simpl never.
Arguments N.modulo : simpl never. Arguments N.ones : simpl never. Arguments N.testbit : simpl never.

(* ---------------------------------------------------------------- get_buckets *)

Lemma land_ones_mod a w : N.land a (N.ones w) = a mod 2 ^ w.
Proof. apply N.land_ones. Qed.

(* number of buckets = ceil(universe / 2^w), for every admissible width *)
Lemma get_buckets_spec universe w :
  1 <= w <= 63 -> get_buckets universe w = Ok ((universe + 2 ^ w - 1) / 2 ^ w).
Proof.
  intros Hw. unfold get_buckets.
  replace (w <? bits_WORD_BITS) with true by (unfold bits_WORD_BITS; lia).
  rewrite low_set_ok by lia. cbn [bind].
  rewrite land_ones_mod, N.shiftr_div_pow2.
  assert (Hp : 0 < 2 ^ w) by (apply N.neq_0_lt_0, N.pow_nonzero; lia).
  set (p := 2 ^ w) in *.
  pose proof (N.div_mod universe p ltac:(lia)) as Hdm.
  pose proof (N.mod_lt universe p ltac:(lia)) as Hlt.
  set (q := universe / p) in *. set (r := universe mod p) in *.
  f_equal. destruct (N.eqb_spec r 0) as [Hr|Hr].
  - apply N.div_unique with (r := p - 1); [lia|]. rewrite Hdm at 1. lia.
  - apply N.div_unique with (r := r - 1); [lia|]. rewrite Hdm at 1. lia.
Qed.

(* width 64 (never chosen by the rule): one bucket for a non-empty universe *)
Lemma get_buckets_64 universe :
  universe < 2 ^ 64 -> get_buckets universe 64 = Ok (if universe =? 0 then 0 else 1).
Proof.
  intros Hu. unfold get_buckets.
  replace (64 <? bits_WORD_BITS) with false by (unfold bits_WORD_BITS; lia).
  rewrite low_set_ok by lia. cbn [bind].
  rewrite land_ones_mod, N.mod_small by lia. reflexivity.
Qed.

Lemma get_buckets_too_wide universe w : 64 < w -> get_buckets universe w = Panic PIndex.
Proof. intros Hw. unfold get_buckets. rewrite low_set_panics by lia. reflexivity. Qed.

(* ---------------------------------------------------------------- machine arithmetic that does not overflow *)

Lemma uadd_ok md a b : a + b < 2 ^ 64 -> uadd md a b = Ok (a + b).
Proof. intros H. unfold uadd. replace (a + b <? 2 ^ 64) with true by lia. reflexivity. Qed.
Lemma usub_ok md a b : b <= a -> usub md a b = Ok (a - b).
Proof. intros H. unfold usub. replace (b <=? a) with true by lia. reflexivity. Qed.
Lemma ushr_ok md a k : k < 64 -> ushr md a k = Ok (a / 2 ^ k).
Proof. intros H. unfold ushr. replace (k <? 64) with true by lia. rewrite N.shiftr_div_pow2. reflexivity. Qed.
Lemma ushl_ok md a k : k < 64 -> a * 2 ^ k < 2 ^ 64 -> ushl md a k = Ok (a * 2 ^ k).
Proof.
  intros Hk H. unfold ushl. replace (k <? 64) with true by lia.
  rewrite N.shiftl_mul_pow2, N.mod_small by exact H. reflexivity.
Qed.

Lemma split_w_ok md w i : w <= 63 -> split_w md w i = Ok (i / 2 ^ w, i mod 2 ^ w).
Proof.
  intros Hw. unfold split_w. rewrite ushr_ok by lia. cbn [bind].
  rewrite low_set_unchecked_ok by lia. cbn [bind]. rewrite land_ones_mod. reflexivity.
Qed.

(* division by a positive (variable) divisor *)
Lemma div_lt_iff a b P : 0 < P -> (a / P < b <-> a < b * P).
Proof.
  intros HP. pose proof (N.div_mod a P ltac:(lia)) as Hdm. pose proof (N.mod_lt a P ltac:(lia)) as Hm.
  split; intros H; nia.
Qed.
Lemma div_le_iff a b P : 0 < P -> (a / P <= b <-> a < (b + 1) * P).
Proof. intros HP. rewrite <- div_lt_iff by exact HP. lia. Qed.
Lemma div_mod_eq a P : 0 < P -> a = a / P * P + a mod P.
Proof. intros HP. pose proof (N.div_mod a P ltac:(lia)). lia. Qed.
Lemma div_mono a b P : 0 < P -> a <= b -> a / P <= b / P.
Proof. intros HP Hab. apply N.div_le_mono; lia. Qed.

(* ---------------------------------------------------------------- the Elias-Fano code, abstractly *)

(* position in the high part of the one that belongs to the i-th value *)
Definition one_pos (Vs : list N) (w i : N) : N := nthd Vs i / 2 ^ w + i.

(* H is the unary bucket code of Vs with nb buckets: |Vs| + nb bits, set exactly at the one positions *)
Definition ef_high_ok (H : list bool) (Vs : list N) (w nb : N) : Prop :=
  lenB H = lenN Vs + nb /\
  (forall i, i < lenN Vs -> getb H (one_pos Vs w i) = Some true) /\
  (forall p, p < lenB H -> (forall i, i < lenN Vs -> p <> one_pos Vs w i) -> getb H p = Some false).

(* the low IntVector stores L *)
Definition low_ok (v : intvec) (w : N) (L : list N) : Prop :=
  ilen v = lenN L /\ iwidth v = w /\ forall i, i < lenN L -> iv_get v i = Ok (nthd L i).

(* number of buckets *)
Definition buckets_of (n w : N) : N := (n + 2 ^ w - 1) / 2 ^ w.
(* number of values whose high part is <= b *)
Definition cnt_le (Vs : list N) (w b : N) : N := vs_rank Vs ((b + 1) * 2 ^ w).

Section Code.
Variables (n w : N) (Vs : list N) (H : list bool).
Hypothesis Hw : 1 <= w <= 63.
Hypothesis Hsorted : sorted_le Vs.
Hypothesis Hbound : bounded n Vs.
Hypothesis HH : ef_high_ok H Vs w (buckets_of n w).

Local Notation m := (lenN Vs).
Local Notation nb := (buckets_of n w).
Local Notation V := (nthd Vs).
Local Notation op := (one_pos Vs w).
Local Notation c := (cnt_le Vs w).

Lemma P_pos : 0 < 2 ^ w.
Proof. apply N.neq_0_lt_0, N.pow_nonzero. lia. Qed.

Lemma nb_spec : n <= nb * 2 ^ w /\ (nb = 0 \/ (nb - 1) * 2 ^ w < n).
Proof.
  unfold nb, buckets_of. pose proof P_pos as HP. set (P := 2 ^ w) in *.
  pose proof (N.div_mod (n + P - 1) P ltac:(lia)) as Hdm. pose proof (N.mod_lt (n + P - 1) P ltac:(lia)) as Hm.
  set (q := (n + P - 1) / P) in *. split; [nia|]. destruct (N.eq_dec q 0); [left; lia|right; nia].
Qed.

Lemma hi_lt_nb_val v : v < n -> v / 2 ^ w < nb.
Proof. intros Hv. apply div_lt_iff; [apply P_pos|]. pose proof nb_spec. lia. Qed.

Lemma hi_lt_nb i : i < m -> V i / 2 ^ w < nb.
Proof.
  intros Hi. apply div_lt_iff; [apply P_pos|]. pose proof (Hbound i Hi). pose proof nb_spec. lia.
Qed.

Lemma H_len : lenB H = m + nb.
Proof. apply HH. Qed.

Lemma op_lt_len i : i < m -> op i < lenB H.
Proof. intros Hi. rewrite H_len. pose proof (hi_lt_nb i Hi). unfold one_pos in *. lia. Qed.

Lemma hi_mono i j : i <= j -> j < m -> V i / 2 ^ w <= V j / 2 ^ w.
Proof. intros Hij Hj. apply div_mono; [apply P_pos|]. apply Hsorted; assumption. Qed.

Lemma op_mono i j : i < j -> j < m -> op i < op j.
Proof. intros Hij Hj. pose proof (hi_mono i j ltac:(lia) Hj). unfold one_pos in *. lia. Qed.

Lemma H_one i : i < m -> getb H (op i) = Some true.
Proof. apply HH. Qed.

(* the gap before the j-th one (j = m: the tail): every bit there is unset *)
Lemma H_gap j p : j <= m -> (j = 0 \/ op (j - 1) < p) -> (j < m -> p < op j) -> p < lenB H ->
  getb H p = Some false.
Proof.
  intros Hj Hlo Hhi Hp. apply HH; [exact Hp|]. intros i Hi Heq.
  destruct (N.lt_ge_cases i j) as [Hij|Hij].
  - destruct Hlo as [->|Hlo]; [lia|].
    destruct (N.eq_dec i (j - 1)) as [->|Hne]; [lia|].
    pose proof (op_mono i (j - 1) ltac:(lia) ltac:(lia)). lia.
  - destruct (N.eq_dec i j) as [->|Hne]; [specialize (Hhi Hi); lia|].
    pose proof (op_mono j i ltac:(lia) Hi). specialize (Hhi ltac:(lia)). lia.
Qed.

(* the number of ones before any position of the j-th gap, including its closing one position, is j *)
Lemma H_rank_gap j : forall p, N.of_nat j <= m ->
  (j = 0%nat \/ op (N.of_nat j - 1) < p) -> (N.of_nat j < m -> p <= op (N.of_nat j)) -> p <= lenB H ->
  rank1 H p = N.of_nat j.
Proof.
  induction j as [|j IH]; intros p Hj Hlo Hhi Hp.
  - rewrite (sq_rank1_gap H 0 p); [apply sq_rank1_0|lia|].
    intros q Hq. apply (H_gap 0 q); [lia|left; reflexivity| |lia]. intros H0. specialize (Hhi H0). cbn in *. lia.
  - destruct Hlo as [Hlo|Hlo]; [discriminate|].
    replace (N.of_nat (S j) - 1) with (N.of_nat j) in Hlo by lia.
    (* ones before op j: j; the bit at op j; then a gap up to p *)
    assert (Hjm : N.of_nat j < m) by lia.
    assert (Hr : rank1 H (op (N.of_nat j)) = N.of_nat j).
    { apply IH; [lia| |lia|pose proof (op_lt_len _ Hjm); lia].
      destruct j as [|j']; [left; reflexivity|right].
      apply op_mono; lia. }
    rewrite (sq_rank1_gap H (op (N.of_nat j) + 1) p); [|lia|].
    + rewrite (sq_rank1_succ H _ true) by (apply H_one; exact Hjm). rewrite Hr. cbn [b2n]. lia.
    + intros q Hq. apply (H_gap (N.of_nat (S j)) q); [lia| | |lia].
      * right. replace (N.of_nat (S j) - 1) with (N.of_nat j) by lia. lia.
      * intros Hlt. specialize (Hhi Hlt). lia.
Qed.

Lemma H_rank_op i : i < m -> rank1 H (op i) = i.
Proof.
  intros Hi. rewrite <- (N2Nat.id i) at 2. apply H_rank_gap; rewrite ?N2Nat.id; [lia| |lia|pose proof (op_lt_len i Hi); lia].
  destruct (N.eq_dec i 0) as [->|Hne]; [left; reflexivity|right]. apply op_mono; lia.
Qed.

Lemma H_select1 i : i < m -> select1 H i = Some (op i).
Proof. intros Hi. rewrite <- (H_rank_op i Hi) at 1. apply sq_select1_rank, H_one, Hi. Qed.

(* counting by high part *)
Lemma c_le_m b : c b <= m.
Proof. apply vs_rank_le_len. Qed.
Lemma c_lt i b : i < c b -> V i / 2 ^ w <= b.
Proof. intros Hi. apply div_le_iff; [apply P_pos|]. apply (vs_rank_lt Vs _ i Hsorted Hi). Qed.
Lemma c_ge i b : c b <= i -> i < m -> b < V i / 2 ^ w.
Proof.
  intros Hi Him. pose proof (vs_rank_ge Vs _ i Hsorted Hi Him) as Hge.
  destruct (N.lt_ge_cases b (V i / 2 ^ w)) as [|Hc]; [assumption|].
  apply div_le_iff in Hc; [lia|apply P_pos].
Qed.
Lemma c_mono b b' : b <= b' -> c b <= c b'.
Proof.
  intros Hb. destruct (N.le_gt_cases (c b) (c b')) as [|Hgt]; [assumption|exfalso].
  assert (Hi : c b' < m) by (pose proof (c_le_m b); lia).
  pose proof (c_lt (c b') b Hgt). pose proof (c_ge (c b') b' ltac:(lia) Hi). lia.
Qed.

(* the unset bit that closes bucket b sits at b + c b, in the gap before the one of value c b *)
Lemma H_zero_gap b : b < nb ->
  (c b = 0 \/ op (c b - 1) < b + c b) /\ (c b < m -> b + c b < op (c b)) /\ b + c b < lenB H.
Proof.
  intros Hb. pose proof (c_le_m b) as Hcm. split; [|split].
  - destruct (N.eq_dec (c b) 0) as [->|Hne]; [left; reflexivity|right].
    pose proof (c_lt (c b - 1) b ltac:(lia)). unfold one_pos. lia.
  - intros Hlt. pose proof (c_ge (c b) b ltac:(lia) Hlt). unfold one_pos. lia.
  - rewrite H_len. lia.
Qed.

Lemma H_zero b : b < nb -> getb H (b + c b) = Some false.
Proof.
  intros Hb. destruct (H_zero_gap b Hb) as [Hlo [Hhi Hlen]].
  apply (H_gap (c b)); [apply c_le_m|exact Hlo|exact Hhi|exact Hlen].
Qed.

Lemma H_rank_zero b : b < nb -> rank1 H (b + c b) = c b.
Proof.
  intros Hb. destruct (H_zero_gap b Hb) as [Hlo [Hhi Hlen]]. pose proof (c_le_m b) as Hcm.
  rewrite <- (N2Nat.id (c b)) at 2. apply H_rank_gap; rewrite ?N2Nat.id; [exact Hcm| | |lia].
  - destruct Hlo as [Hz|Hlo]; [left; lia|right; exact Hlo].
  - intros Hlt. specialize (Hhi Hlt). lia.
Qed.

Lemma H_select0 b : b < nb -> select0 H b = Some (b + c b).
Proof.
  intros Hb. pose proof (sq_select0_rank H (b + c b) (H_zero b Hb)) as Hs.
  rewrite (H_rank_zero b Hb) in Hs. replace (b + c b - c b) with b in Hs by lia. exact Hs.
Qed.

End Code.

(* ---------------------------------------------------------------- small facts about the embedded structures *)

Lemma bits_of_words_length ws : length (bits_of_words ws) = (64 * length ws)%nat.
Proof.
  unfold bits_of_words. induction ws as [|x t IH]; cbn [flat_map length]; [reflexivity|].
  rewrite app_length, wbits_length, IH. lia.
Qed.

Lemma bits_of_lenB len ws : len <= 64 * lenN ws -> lenB (bits_of len ws) = len.
Proof.
  intros Hl. unfold lenB, bits_of, lenN in *. rewrite firstn_length, bits_of_words_length. lia.
Qed.

Lemma raw_wf_room r : raw_wf r -> rlen r <= 64 * lenN (rdata r) /\ 64 * lenN (rdata r) < rlen r + 64.
Proof. intros [Hl _]. rewrite Hl. lia. Qed.

Lemma bv_repr_len b B : bv_repr b B -> lenB B = bv_len b /\ bv_len b < 2 ^ 64.
Proof.
  intros [Hwf [HB _]]. split.
  - rewrite HB. apply bits_of_lenB. apply raw_wf_room, Hwf.
  - apply Hwf.
Qed.

Lemma nthd_map f l i : i < lenN l -> nthd (map f l) i = f (nthd l i).
Proof.
  revert i. induction l as [|a t IH]; intros i Hi; [unfold lenN in Hi; cbn in Hi; lia|].
  rewrite lenN_cons in Hi. cbn [map]. rewrite !nthd_cons. destruct (N.eqb_spec i 0); [reflexivity|]. apply IH. lia.
Qed.
Lemma lenN_map {A B} (f : A -> B) l : lenN (map f l) = lenN l.
Proof. unfold lenN. rewrite map_length. reflexivity. Qed.

(* ---------------------------------------------------------------- queries over an abstract well-formed vector *)

(* sv represents the (multi)set Vs in the universe [0, n) with low width w, through the bit sequence H *)
Definition sv_ok (sp : selpath) (md : mode) (sv : sparse) (n w : N) (Vs : list N) (H : list bool) : Prop :=
  n < 2 ^ 64 /\ 1 <= w <= 63 /\ sorted_le Vs /\ bounded n Vs /\
  sv_len sv = n /\
  ef_high_ok H Vs w (buckets_of n w) /\
  bv_select_ok sp md (sv_high sv) H /\
  low_ok (sv_low sv) w (map (fun v => v mod 2 ^ w) Vs).

Section Queries.
Variables (sp : selpath) (md : mode) (sv : sparse) (n w : N) (Vs : list N) (H : list bool).
Hypothesis Hok : sv_ok sp md sv n w Vs H.

Local Notation m := (lenN Vs).
Local Notation nb := (buckets_of n w).
Local Notation V := (nthd Vs).
Local Notation op := (one_pos Vs w).
Local Notation c := (cnt_le Vs w).
Local Notation hb := (sv_high sv).

Let Hn : n < 2 ^ 64. Proof. apply Hok. Qed.
Let Hw : 1 <= w <= 63. Proof. apply Hok. Qed.
Let Hsorted : sorted_le Vs. Proof. apply Hok. Qed.
Let Hbound : bounded n Vs. Proof. apply Hok. Qed.
Let Hlen : sv_len sv = n. Proof. apply Hok. Qed.
Let HH : ef_high_ok H Vs w nb. Proof. apply Hok. Qed.
Let Hhigh : bv_select_ok sp md hb H. Proof. apply Hok. Qed.
Let Hlow : low_ok (sv_low sv) w (map (fun v => v mod 2 ^ w) Vs). Proof. apply Hok. Qed.

Lemma q_P_pos : 0 < 2 ^ w. Proof. exact (P_pos w Hw). Qed.

Lemma q_hb_len : bv_len hb = m + nb /\ m + nb < 2 ^ 64.
Proof.
  destruct Hhigh as [Hr _]. destruct (bv_repr_len _ _ Hr) as [Hl Hlt].
  rewrite <- Hl, (H_len n w Vs H HH). split; [reflexivity|]. rewrite <- Hl in Hlt.
  rewrite (H_len n w Vs H HH) in Hlt. exact Hlt.
Qed.

Lemma q_lenB : lenB H = m + nb. Proof. exact (H_len n w Vs H HH). Qed.

Lemma q_get p x : getb H p = Some x -> bv_get hb p = Ok x.
Proof.
  intros Hg. destruct Hhigh as [_ [Hget _]]. pose proof (sq_getb_lt _ _ _ Hg) as Hlt.
  destruct (Hget p) as [y [Hy1 Hy2]]; [rewrite (proj1 q_hb_len), <- q_lenB; exact Hlt|].
  rewrite Hy1. congruence.
Qed.

Lemma q_sel1 i : i < m -> bv_select_t sp md Identity hb i = Ok (Some (op i)).
Proof.
  intros Hi. destruct Hhigh as [_ [_ [Hs _]]]. rewrite Hs by (pose proof q_hb_len; lia).
  rewrite (H_select1 n w Vs H Hw Hsorted Hbound HH i Hi). reflexivity.
Qed.

Lemma q_sel0 b : b < nb -> bv_select_t sp md Complement hb b = Ok (Some (b + c b)).
Proof.
  intros Hb. destruct Hhigh as [_ [_ [_ Hs]]]. rewrite Hs by (pose proof q_hb_len; lia).
  rewrite (H_select0 n w Vs H Hw Hsorted Hbound HH b Hb). reflexivity.
Qed.

Lemma q_ones : sv_count_ones sv = m.
Proof. unfold sv_count_ones. destruct Hlow as [Hl _]. rewrite Hl, lenN_map. reflexivity. Qed.
Lemma q_width : sv_width sv = w.
Proof. unfold sv_width. apply Hlow. Qed.
Lemma q_low j : j < m -> iv_get (sv_low sv) j = Ok (V j mod 2 ^ w).
Proof.
  intros Hj. destruct Hlow as [_ [_ Hg]]. rewrite Hg by (rewrite lenN_map; exact Hj).
  rewrite nthd_map by exact Hj. reflexivity.
Qed.

Lemma q_fuel : m + nb + 63 < 64 * N.of_nat (sv_fuel sv).
Proof.
  unfold sv_fuel. destruct Hhigh as [[Hwf _] _]. destruct (raw_wf_room _ Hwf) as [Hr _].
  pose proof (proj1 q_hb_len) as Hl. unfold bv_len in Hl. unfold lenN in Hr. lia.
Qed.

Lemma q_V_lt j : j < m -> V j < n. Proof. apply Hbound. Qed.

(* split of an index *)
Lemma q_split i : sv_split md sv i = Ok (i / 2 ^ w, i mod 2 ^ w).
Proof. unfold sv_split. rewrite q_width. apply split_w_ok. lia. Qed.

Lemma q_hp_lt i : i < n -> i / 2 ^ w < nb.
Proof.
  intros Hi. apply div_lt_iff; [apply q_P_pos|]. pose proof (nb_spec n w Hw). lia.
Qed.

(* combine at the position of the j-th value *)
Lemma q_combine j : j < m -> sv_combine md sv (op j, j) = Ok (j, V j).
Proof.
  intros Hj. unfold sv_combine. cbn [fst snd]. unfold one_pos.
  pose proof q_P_pos as HP. pose proof (q_V_lt j Hj) as HV. pose proof (div_mod_eq (V j) (2 ^ w) HP) as Hdm.
  rewrite q_width, (q_low j Hj).
  set (q := V j / 2 ^ w) in *. set (r := V j mod 2 ^ w) in *.
  rewrite usub_ok by lia. cbn [bind]. replace (q + j - j) with q by lia.
  rewrite ushl_ok by lia. cbn [bind].
  rewrite uadd_ok by lia. cbn [bind]. do 2 f_equal. lia.
Qed.

Lemma q_pos j : j < m -> sv_pos sp md sv j = Ok (op j, j).
Proof. intros Hj. unfold sv_pos. rewrite (q_sel1 j Hj). reflexivity. Qed.

(* ---- select *)
Lemma q_select r : sv_select sp md sv r = Ok (vs_select Vs r).
Proof.
  unfold sv_select, vs_select. rewrite q_ones, nthN_nth_opt.
  destruct (N.leb_spec m r) as [Hr|Hr].
  - replace (nthN Vs r) with (@None N); [reflexivity|]. symmetry. apply nthN_None_ge. exact Hr.
  - rewrite (q_pos r Hr). cbn [bind]. rewrite (q_combine r Hr). cbn [bind snd].
    rewrite (nthd_some Vs r Hr). reflexivity.
Qed.

(* lower_bound / upper_bound of a high part below the number of buckets *)
Definition c_prev (b : N) : N := if b =? 0 then 0 else c (b - 1).

Lemma q_lower_bound b : b < nb -> sv_lower_bound sp md sv b = Ok (b + c_prev b, c_prev b).
Proof.
  intros Hb. unfold sv_lower_bound, c_prev. destruct (N.eqb_spec b 0) as [->|Hb0]; [reflexivity|].
  rewrite (q_sel0 (b - 1)) by lia. cbn [bind opt_unwrap].
  pose proof (c_le_m w Vs (b - 1)) as Hc. pose proof q_hb_len.
  rewrite uadd_ok by lia. cbn [bind]. rewrite usub_ok by lia. cbn [bind]. do 2 f_equal; lia.
Qed.

Lemma q_upper_bound b : b < nb -> sv_upper_bound sp md sv b = Ok (b + c b, c b).
Proof.
  intros Hb. unfold sv_upper_bound. rewrite (q_sel0 b Hb). cbn [bind opt_unwrap].
  rewrite usub_ok by lia. cbn [bind]. do 2 f_equal. lia.
Qed.

(* shorthand instances of the code lemmas *)
Lemma q_op_mono i j : i < j -> j < m -> op i < op j.
Proof. apply (op_mono w Vs Hw Hsorted). Qed.
Lemma q_op_lt_len i : i < m -> op i < lenB H.
Proof. apply (op_lt_len n w Vs H Hw Hbound HH). Qed.
Lemma q_one i : i < m -> bv_get hb (op i) = Ok true.
Proof. intros Hi. apply q_get. apply (H_one n w Vs H HH i Hi). Qed.
Lemma q_gap j p : j <= m -> (j = 0 \/ op (j - 1) < p) -> (j < m -> p < op j) -> p < lenB H -> bv_get hb p = Ok false.
Proof. intros. apply q_get. apply (H_gap n w Vs H Hw Hsorted HH j p); assumption. Qed.
Lemma q_len_lt : lenB H < 2 ^ 64.
Proof. rewrite q_lenB. apply q_hb_len. Qed.

(* ---- the scans to the next / previous set bit of high *)

Lemma q_fwd_step j h : j < m -> (j = 0 \/ op (j - 1) < h) -> h <= op j ->
  fwd_step md sv h = Ok (if h =? op j then Done h else Continue (h + 1)).
Proof.
  intros Hj Hlo Hhi. unfold fwd_step. pose proof (q_op_lt_len j Hj) as Hl. pose proof q_len_lt as Hl2.
  destruct (N.eqb_spec h (op j)) as [->|Hne].
  - rewrite (q_one j Hj). reflexivity.
  - rewrite (q_gap j h) by (try assumption; lia). cbn [bind]. rewrite uadd_ok by lia. reflexivity.
Qed.

Lemma q_fwd_loop j p : j < m -> (j = 0 \/ op (j - 1) < p) -> p <= op j ->
  run_loop (sv_fuel sv) (fwd_step md sv) p = Ok (op j).
Proof.
  intros Hj Hlo Hhi.
  destruct (run_loop_inv (fwd_step md sv)
              (fun h k => (j = 0 \/ op (j - 1) < h) /\ h <= op j /\ k = op j - h)
              (fun r => r = op j)) with (blocks := sv_fuel sv) (s := p) (k := op j - p) as [r [Hr Hp]].
  - intros h k [Hlo' [Hhi' Hk]]. rewrite (q_fwd_step j h Hj Hlo' Hhi').
    destruct (N.eqb_spec h (op j)) as [Heq|Hne].
    + left. exists h. split; [reflexivity|exact Heq].
    + right. exists (h + 1), (op j - (h + 1)). split; [reflexivity|]. split; [|lia].
      split; [destruct Hlo'; [left; assumption|right; lia]|split; [lia|reflexivity]].
  - split; [exact Hlo|split; [exact Hhi|reflexivity]].
  - pose proof (q_op_lt_len j Hj). pose proof q_fuel. pose proof q_lenB. lia.
  - rewrite Hr, Hp. reflexivity.
Qed.

Lemma q_bwd_step k h : 1 <= k -> k <= m -> op (k - 1) <= h -> (k < m -> h < op k) -> h < lenB H ->
  bwd_step md sv h = Ok (if h =? op (k - 1) then Done h else Continue (h - 1)).
Proof.
  intros Hk1 Hkm Hlo Hhi Hl. unfold bwd_step.
  destruct (N.eqb_spec h (op (k - 1))) as [->|Hne].
  - rewrite (q_one (k - 1)) by lia. reflexivity.
  - rewrite (q_gap k h) by (try assumption; right; lia). cbn [bind]. rewrite usub_ok by lia. reflexivity.
Qed.

Lemma q_bwd_loop k q : 1 <= k -> k <= m -> op (k - 1) <= q -> (k < m -> q < op k) -> q < lenB H ->
  run_loop (sv_fuel sv) (bwd_step md sv) q = Ok (op (k - 1)).
Proof.
  intros Hk1 Hkm Hlo Hhi Hl.
  destruct (run_loop_inv (bwd_step md sv)
              (fun h d => op (k - 1) <= h /\ h <= q /\ d = h)
              (fun r => r = op (k - 1))) with (blocks := sv_fuel sv) (s := q) (k := q) as [r [Hr Hp]].
  - intros h d [Hlo' [Hhi' Hd]]. rewrite (q_bwd_step k h Hk1 Hkm Hlo') by (try lia; intros Hlt; specialize (Hhi Hlt); lia).
    destruct (N.eqb_spec h (op (k - 1))) as [Heq|Hne].
    + left. exists h. split; [reflexivity|exact Heq].
    + right. exists (h - 1), (h - 1). split; [reflexivity|]. split; [|lia]. split; [lia|split; [lia|reflexivity]].
  - split; [exact Hlo|split; [lia|reflexivity]].
  - pose proof q_fuel. pose proof q_lenB. lia.
  - rewrite Hr, Hp. reflexivity.
Qed.

(* ---- the set-bit iterator as an index range [j, k) of the values *)

Definition it_repr (it : sv_iter) (j k : N) : Prop :=
  snd (it_next it) = j /\ snd (it_limit it) = k /\ k <= m /\
  (j < k -> (j = 0 \/ op (j - 1) < fst (it_next it)) /\ fst (it_next it) <= op j) /\
  (j < k -> op (k - 1) < fst (it_limit it) /\ (k < m -> fst (it_limit it) <= op k) /\ fst (it_limit it) <= lenB H).

Lemma q_it_next it j k : it_repr it j k -> j < k ->
  exists it', it_next_f md sv it = Ok (it', Some (j, V j)) /\ it_repr it' (j + 1) k.
Proof.
  intros [Hn1 [Hl1 [Hkm [Hnx Hlm]]]] Hjk. destruct (Hnx Hjk) as [Hlo Hhi]. destruct (Hlm Hjk) as [Hq1 [Hq2 Hq3]].
  unfold it_next_f. rewrite Hn1, Hl1. replace (k <=? j) with false by lia.
  rewrite (q_fwd_loop j _ ltac:(lia) Hlo Hhi). cbn [bind].
  rewrite (q_combine j) by lia. cbn [bind].
  pose proof (q_op_lt_len j ltac:(lia)). pose proof q_len_lt. pose proof q_hb_len.
  rewrite uadd_ok by lia. cbn [bind]. rewrite uadd_ok by lia. cbn [bind].
  eexists. split; [reflexivity|]. unfold it_repr. cbn [it_next it_limit fst snd].
  split; [reflexivity|]. split; [exact Hl1|]. split; [exact Hkm|]. split.
  - intros Hlt. split; [right; replace (j + 1 - 1) with j by lia; lia|].
    pose proof (q_op_mono j (j + 1) ltac:(lia) ltac:(lia)). lia.
  - intros _. auto.
Qed.

Lemma q_it_next_none it j k : it_repr it j k -> k <= j -> it_next_f md sv it = Ok (it, None).
Proof.
  intros [Hn1 [Hl1 _]] Hkj. unfold it_next_f. rewrite Hn1, Hl1. replace (k <=? j) with true by lia. reflexivity.
Qed.

Lemma q_it_back it j k : it_repr it j k -> j < k ->
  exists it', it_next_back md sv it = Ok (it', Some (k - 1, V (k - 1))) /\ it_repr it' j (k - 1).
Proof.
  intros [Hn1 [Hl1 [Hkm [Hnx Hlm]]]] Hjk. destruct (Hnx Hjk) as [Hlo Hhi]. destruct (Hlm Hjk) as [Hq1 [Hq2 Hq3]].
  unfold it_next_back. rewrite Hn1, Hl1. replace (k <=? j) with false by lia.
  rewrite usub_ok by lia. cbn [bind]. rewrite usub_ok by lia. cbn [bind].
  rewrite (q_bwd_loop k) by (try lia; intros Hlt; specialize (Hq2 Hlt); lia). cbn [bind].
  rewrite (q_combine (k - 1)) by lia. cbn [bind].
  eexists. split; [reflexivity|]. unfold it_repr. cbn [it_next it_limit fst snd].
  split; [exact Hn1|]. split; [reflexivity|]. split; [lia|]. split.
  - intros Hlt. apply Hnx. lia.
  - intros Hlt. split; [apply q_op_mono; lia|]. split; [intros _; replace (k - 1 - 1 + 1) with (k - 1) by lia; lia|].
    pose proof (q_op_lt_len (k - 1) ltac:(lia)). lia.
Qed.

Lemma q_it_back_none it j k : it_repr it j k -> k <= j -> it_next_back md sv it = Ok (it, None).
Proof.
  intros [Hn1 [Hl1 _]] Hkj. unfold it_next_back. rewrite Hn1, Hl1. replace (k <=? j) with true by lia. reflexivity.
Qed.

(* constructors of iterators *)
Lemma q_full_limit : it_full_limit sv = (lenB H, m).
Proof. unfold it_full_limit. rewrite (proj1 q_hb_len), q_lenB. f_equal. apply q_ones. Qed.

Lemma q_it_at j p : j <= m -> (j < m -> (j = 0 \/ op (j - 1) < p) /\ p <= op j) ->
  it_repr (mkit (p, j) (it_full_limit sv)) j m.
Proof.
  intros Hj Hp. rewrite q_full_limit. unfold it_repr. cbn [it_next it_limit fst snd].
  split; [reflexivity|]. split; [reflexivity|]. split; [lia|]. split; [exact Hp|].
  intros Hlt. split; [apply q_op_lt_len; lia|]. split; [lia|lia].
Qed.

Lemma q_it_empty : it_repr (it_empty sv) m m.
Proof. unfold it_empty. rewrite q_full_limit. unfold it_repr. cbn [it_next it_limit fst snd]. repeat split; lia. Qed.

Lemma q_one_iter : it_repr (sv_one_iter sv) 0 m.
Proof. unfold sv_one_iter. apply q_it_at; [lia|]. intros _. split; [left; reflexivity|lia]. Qed.

Lemma q_select_iter r : exists it, sv_select_iter sp md sv r = Ok it /\ it_repr it (N.min r m) m.
Proof.
  unfold sv_select_iter. rewrite q_ones. destruct (N.leb_spec m r) as [Hr|Hr].
  - exists (it_empty sv). split; [reflexivity|]. replace (N.min r m) with m by lia. apply q_it_empty.
  - rewrite (q_pos r Hr). cbn [bind]. eexists. split; [reflexivity|]. replace (N.min r m) with r by lia.
    apply q_it_at; [lia|]. intros _. split; [|lia].
    destruct (N.eq_dec r 0) as [->|Hne]; [left; reflexivity|right]. apply q_op_mono; lia.
Qed.

(* ---- structure of a bucket *)

Lemma q_c_le_m b : c b <= m. Proof. apply c_le_m. Qed.
Lemma q_c_lt i b : i < c b -> V i / 2 ^ w <= b. Proof. apply (c_lt w Vs Hw Hsorted). Qed.
Lemma q_c_ge i b : c b <= i -> i < m -> b < V i / 2 ^ w. Proof. apply (c_ge w Vs Hw Hsorted). Qed.
Lemma q_c_mono b b' : b <= b' -> c b <= c b'. Proof. apply (c_mono w Vs Hw Hsorted). Qed.

Lemma q_cprev_le b : c_prev b <= c b.
Proof. unfold c_prev. destruct (N.eqb_spec b 0); [lia|apply q_c_mono; lia]. Qed.
Lemma q_cprev_lt i b : i < c_prev b -> V i / 2 ^ w < b.
Proof. unfold c_prev. destruct (N.eqb_spec b 0); [lia|]. intros Hi. pose proof (q_c_lt i (b - 1) Hi). lia. Qed.
Lemma q_cprev_ge i b : c_prev b <= i -> i < m -> b <= V i / 2 ^ w.
Proof. unfold c_prev. destruct (N.eqb_spec b 0) as [E|E]; [intros; subst b; apply N.le_0_l|]. intros Hi Him. pose proof (q_c_ge i (b - 1) Hi Him). lia. Qed.

Lemma q_bucket_hi b j : c_prev b <= j -> j < c b -> V j / 2 ^ w = b.
Proof.
  intros Hlo Hhi. pose proof (q_c_le_m b). pose proof (q_c_lt j b Hhi). pose proof (q_cprev_ge j b Hlo ltac:(lia)). lia.
Qed.
Lemma q_bucket_op b j : c_prev b <= j -> j < c b -> op j = b + j.
Proof. intros Hlo Hhi. unfold one_pos. rewrite (q_bucket_hi b j Hlo Hhi). reflexivity. Qed.

(* the bit that follows the values of bucket b *)
Lemma q_zero b : b < nb -> bv_get hb (b + c b) = Ok false.
Proof. intros Hb. apply q_get. apply (H_zero n w Vs H Hw Hsorted HH b Hb). Qed.
(* the bit before the values of bucket b, when b has predecessors *)
Lemma q_zero_prev b : b < nb -> 1 <= c_prev b -> bv_get hb (b + (c_prev b - 1)) = Ok false.
Proof.
  intros Hb Hc. unfold c_prev in *. destruct (N.eqb_spec b 0) as [|Hb0]; [lia|].
  replace (b + (c (b - 1) - 1)) with (b - 1 + c (b - 1)) by lia. apply q_zero. lia.
Qed.

(* the rank of x lies inside (or at the end of) the bucket of x *)
Lemma q_rank_in_bucket x : x / 2 ^ w < nb ->
  c_prev (x / 2 ^ w) <= vs_rank Vs x /\ vs_rank Vs x <= c (x / 2 ^ w).
Proof.
  intros Hb. set (b := x / 2 ^ w) in *. pose proof q_P_pos as HP. pose proof (q_c_le_m b) as Hcm.
  pose proof (vs_rank_le_len Vs x) as Hrm. split.
  - destruct (N.le_gt_cases (c_prev b) (vs_rank Vs x)) as [|Hlt]; [assumption|exfalso].
    pose proof (q_cprev_le b).
    pose proof (vs_rank_ge Vs x (vs_rank Vs x) Hsorted ltac:(lia) ltac:(lia)) as Hge.
    pose proof (q_cprev_lt _ b Hlt) as Hhi.
    apply div_lt_iff in Hhi; [|exact HP]. pose proof (div_mod_eq x (2 ^ w) HP). fold b in H0. nia.
  - destruct (N.le_gt_cases (vs_rank Vs x) (c b)) as [|Hlt]; [assumption|exfalso].
    pose proof (vs_rank_lt Vs x (c b) Hsorted Hlt) as Hl.
    pose proof (q_c_ge (c b) b ltac:(lia) ltac:(lia)) as Hhi.
    assert (Hx : x < (b + 1) * 2 ^ w) by (apply div_le_iff; [exact HP|fold b; lia]).
    assert (Hv : (b + 1) * 2 ^ w <= V (c b)).
    { destruct (N.le_gt_cases ((b + 1) * 2 ^ w) (V (c b))) as [|Hc]; [assumption|].
      apply div_le_iff in Hc; [lia|exact HP]. }
    lia.
Qed.

(* ---- get *)

Lemma q_get_step i j : i < n -> c_prev (i / 2 ^ w) <= j -> j <= vs_rank Vs i ->
  get_step md sv (i mod 2 ^ w) (i / 2 ^ w + j, j) =
  Ok (if j <? vs_rank Vs i then Continue (i / 2 ^ w + (j + 1), j + 1) else Done (vs_get Vs i)).
Proof.
  intros Hi Hlo Hhi. pose proof (q_hp_lt i Hi) as Hb. pose proof q_P_pos as HP.
  destruct (q_rank_in_bucket i Hb) as [Hr1 Hr2]. set (b := i / 2 ^ w) in *. set (R := vs_rank Vs i) in *.
  pose proof (q_c_le_m b) as Hcm. pose proof q_hb_len as [Hl Hl2].
  unfold get_step. cbn [fst snd]. rewrite Hl. replace (b + j <? m + nb) with true by lia.
  rewrite (vs_get_sorted Vs i Hsorted). fold R.
  destruct (N.ltb_spec j R) as [HjR|HjR].
  - (* a value of the bucket below i *)
    rewrite <- (q_bucket_op b j) by lia. rewrite (q_one j) by lia. cbn [bind].
    rewrite (q_low j) by lia. cbn [bind].
    pose proof (vs_rank_lt Vs i j Hsorted HjR) as Hlt.
    destruct (mod_cmp i (V j) (2 ^ w) HP) as [Hc _]; [rewrite (q_bucket_hi b j) by lia; reflexivity|].
    rewrite Hc. replace (i <=? V j) with false by lia.
    rewrite (q_bucket_op b j) by lia. rewrite uadd_ok by lia. cbn [bind]. rewrite uadd_ok by lia. cbn [bind].
    do 3 f_equal. lia.
  - assert (j = R) by lia. subst j.
    destruct (N.ltb_spec R (c b)) as [HRc|HRc].
    + (* the first value >= i is in the bucket *)
      rewrite <- (q_bucket_op b R) by lia. rewrite (q_one R) by lia. cbn [bind].
      rewrite (q_low R) by lia. cbn [bind].
      pose proof (vs_rank_ge Vs i R Hsorted ltac:(lia) ltac:(lia)) as Hge.
      destruct (mod_cmp i (V R) (2 ^ w) HP) as [Hc [_ He]]; [rewrite (q_bucket_hi b R) by lia; reflexivity|].
      rewrite Hc. replace (i <=? V R) with true by lia. replace (R <? m) with true by lia.
      do 2 f_equal. destruct (mod_cmp (V R) i (2 ^ w) HP) as [_ [_ He']]; [rewrite (q_bucket_hi b R) by lia; reflexivity|].
      exact He'.
    + (* the bucket is exhausted *)
      replace R with (c b) by lia. rewrite (q_zero b Hb). cbn [bind].
      destruct (N.ltb_spec (c b) m) as [Hcm'|Hcm']; [|reflexivity].
      pose proof (q_c_ge (c b) b ltac:(lia) Hcm') as Hhi'.
      do 2 f_equal. symmetry. apply N.eqb_neq. intros Heq. rewrite Heq in Hhi'. fold b in Hhi'. lia.
Qed.

Lemma q_get_ok i : i < n -> sv_get sp md sv i = Ok (vs_get Vs i).
Proof.
  intros Hi. pose proof (q_hp_lt i Hi) as Hb. destruct (q_rank_in_bucket i Hb) as [Hr1 Hr2].
  unfold sv_get. rewrite q_split. cbn [bind]. rewrite (q_lower_bound _ Hb). cbn [bind].
  set (b := i / 2 ^ w) in *.
  destruct (run_loop_inv (get_step md sv (i mod 2 ^ w))
              (fun s k => exists j, s = (b + j, j) /\ c_prev b <= j /\ j <= vs_rank Vs i /\ k = vs_rank Vs i - j)
              (fun r => r = vs_get Vs i)) with (blocks := sv_fuel sv) (s := (b + c_prev b, c_prev b))
              (k := vs_rank Vs i - c_prev b) as [r [Hr Hp]].
  - intros s k [j [-> [Hlo [Hhi Hk]]]]. unfold b. rewrite (q_get_step i j Hi Hlo Hhi). fold b.
    destruct (N.ltb_spec j (vs_rank Vs i)) as [Hlt|Hge].
    + right. exists (b + (j + 1), j + 1), (vs_rank Vs i - (j + 1)). split; [reflexivity|]. split; [|lia].
      exists (j + 1). split; [reflexivity|]. split; [lia|]. split; [lia|reflexivity].
    + left. eexists. split; reflexivity.
  - exists (c_prev b). split; [reflexivity|]. split; [lia|]. split; [exact Hr1|reflexivity].
  - pose proof (vs_rank_le_len Vs i). pose proof q_fuel. lia.
  - rewrite Hr, Hp. reflexivity.
Qed.

(* ---- rank *)

Lemma q_rank_beyond x : n <= x -> vs_rank Vs x = m.
Proof. intros Hx. apply vs_rank_all; [exact Hsorted|]. intros i Hi. pose proof (q_V_lt i Hi). lia. Qed.

Lemma q_rank_step i j : i < n -> vs_rank Vs i <= j + 1 -> j < c (i / 2 ^ w) ->
  rank_step md sv (i mod 2 ^ w) (i / 2 ^ w + j, j) =
  Ok (if vs_rank Vs i <=? j then (if j =? 0 then Done 0 else Continue (i / 2 ^ w + (j - 1), j - 1))
      else Done (vs_rank Vs i)).
Proof.
  intros Hi Hlo Hhi. pose proof (q_hp_lt i Hi) as Hb. pose proof q_P_pos as HP.
  destruct (q_rank_in_bucket i Hb) as [Hr1 Hr2]. set (b := i / 2 ^ w) in *. set (R := vs_rank Vs i) in *.
  pose proof (q_c_le_m b) as Hcm. pose proof q_hb_len as [Hl Hl2].
  unfold rank_step. cbn [fst snd].
  destruct (N.leb_spec R j) as [HRj|HRj].
  - rewrite <- (q_bucket_op b j) by lia. rewrite (q_one j) by lia. cbn [bind].
    rewrite (q_low j) by lia. cbn [bind].
    pose proof (vs_rank_ge Vs i j Hsorted HRj ltac:(lia)) as Hge.
    destruct (mod_cmp i (V j) (2 ^ w) HP) as [Hc _]; [rewrite (q_bucket_hi b j) by lia; reflexivity|].
    rewrite Hc. replace (i <=? V j) with true by lia.
    destruct (N.eqb_spec j 0) as [Hj0|Hj0]; [reflexivity|].
    rewrite (q_bucket_op b j) by lia. rewrite usub_ok by lia. cbn [bind]. do 3 f_equal. lia.
  - assert (Hj : j + 1 = R) by lia.
    destruct (N.le_gt_cases (c_prev b) j) as [Hin|Hout].
    + rewrite <- (q_bucket_op b j) by lia. rewrite (q_one j) by lia. cbn [bind].
      rewrite (q_low j) by lia. cbn [bind].
      pose proof (vs_rank_lt Vs i j Hsorted ltac:(lia)) as Hlt.
      destruct (mod_cmp i (V j) (2 ^ w) HP) as [Hc _]; [rewrite (q_bucket_hi b j) by lia; reflexivity|].
      rewrite Hc. replace (i <=? V j) with false by lia. rewrite uadd_ok by lia. cbn [bind]. rewrite Hj. reflexivity.
    + replace j with (c_prev b - 1) by lia. rewrite (q_zero_prev b Hb) by lia. cbn [bind].
      rewrite uadd_ok by lia. cbn [bind]. do 2 f_equal. lia.
Qed.

Lemma q_rank_ok i : sv_rank sp md sv i = Ok (vs_rank Vs i).
Proof.
  unfold sv_rank. rewrite Hlen, q_ones. destruct (N.leb_spec n i) as [Hi|Hi].
  - rewrite (q_rank_beyond i Hi). reflexivity.
  - pose proof (q_hp_lt i Hi) as Hb. destruct (q_rank_in_bucket i Hb) as [Hr1 Hr2].
    rewrite q_split. cbn [bind]. rewrite (q_upper_bound _ Hb). cbn [bind snd fst].
    set (b := i / 2 ^ w) in *. pose proof (q_c_le_m b) as Hcm.
    destruct (N.eqb_spec (c b) 0) as [Hc0|Hc0]; [f_equal; lia|].
    rewrite usub_ok by lia. cbn [bind]. replace (b + c b - 1) with (b + (c b - 1)) by lia.
    destruct (run_loop_inv (rank_step md sv (i mod 2 ^ w))
                (fun s k => exists j, s = (b + j, j) /\ vs_rank Vs i <= j + 1 /\ j < c b /\ k = j)
                (fun r => r = vs_rank Vs i)) with (blocks := sv_fuel sv) (s := (b + (c b - 1), c b - 1))
                (k := c b - 1) as [r [Hr Hp]].
    + intros s k [j [-> [Hlo [Hhi Hk]]]]. unfold b. rewrite (q_rank_step i j Hi Hlo Hhi). fold b.
      destruct (N.leb_spec (vs_rank Vs i) j) as [Hle|Hgt].
      * destruct (N.eqb_spec j 0) as [Hj0|Hj0].
        -- left. exists 0. split; [reflexivity|lia].
        -- right. exists (b + (j - 1), j - 1), (j - 1). split; [reflexivity|]. split; [|lia].
           exists (j - 1). split; [reflexivity|]. split; [lia|]. split; [lia|reflexivity].
      * left. eexists. split; reflexivity.
    + exists (c b - 1). split; [reflexivity|]. split; [lia|]. split; [lia|reflexivity].
    + pose proof q_fuel. lia.
    + rewrite Hr, Hp. reflexivity.
Qed.

Lemma q_rank_zero_ok i : sorted_lt Vs -> sv_rank_zero sp md sv i = Ok (i - vs_rank Vs i).
Proof.
  intros Hs. unfold sv_rank_zero. rewrite q_rank_ok. cbn [bind]. apply usub_ok. apply vs_rank_le_arg. exact Hs.
Qed.

(* ---- successor *)

Lemma q_succ_step1 i j : i < n -> c_prev (i / 2 ^ w) <= j -> j <= vs_rank Vs i ->
  succ_step1 md sv (i mod 2 ^ w) (i / 2 ^ w + j, j) =
  Ok (if j <? vs_rank Vs i then Continue (i / 2 ^ w + (j + 1), j + 1)
      else if j <? c (i / 2 ^ w) then Done (inl (i / 2 ^ w + j, j)) else Done (inr (i / 2 ^ w + j, j))).
Proof.
  intros Hi Hlo Hhi. pose proof (q_hp_lt i Hi) as Hb. pose proof q_P_pos as HP.
  destruct (q_rank_in_bucket i Hb) as [Hr1 Hr2]. set (b := i / 2 ^ w) in *. set (R := vs_rank Vs i) in *.
  pose proof (q_c_le_m b) as Hcm. pose proof q_hb_len as [Hl Hl2].
  unfold succ_step1. cbn [fst snd]. rewrite Hl. replace (b + j <? m + nb) with true by lia.
  destruct (N.ltb_spec j R) as [HjR|HjR].
  - rewrite <- (q_bucket_op b j) by lia. rewrite (q_one j) by lia. cbn [bind].
    rewrite (q_low j) by lia. cbn [bind].
    pose proof (vs_rank_lt Vs i j Hsorted HjR) as Hlt.
    destruct (mod_cmp i (V j) (2 ^ w) HP) as [Hc _]; [rewrite (q_bucket_hi b j) by lia; reflexivity|].
    rewrite Hc. replace (i <=? V j) with false by lia.
    rewrite (q_bucket_op b j) by lia. rewrite uadd_ok by lia. cbn [bind]. rewrite uadd_ok by lia. cbn [bind].
    do 3 f_equal. lia.
  - assert (j = R) by lia. subst j.
    destruct (N.ltb_spec R (c b)) as [HRc|HRc].
    + rewrite <- (q_bucket_op b R) by lia. rewrite (q_one R) by lia. cbn [bind].
      rewrite (q_low R) by lia. cbn [bind].
      pose proof (vs_rank_ge Vs i R Hsorted ltac:(lia) ltac:(lia)) as Hge.
      destruct (mod_cmp i (V R) (2 ^ w) HP) as [Hc _]; [rewrite (q_bucket_hi b R) by lia; reflexivity|].
      rewrite Hc. replace (i <=? V R) with true by lia. rewrite (q_bucket_op b R) by lia. reflexivity.
    + replace R with (c b) by lia. rewrite (q_zero b Hb). reflexivity.
Qed.

Lemma q_succ_step2 j h : j <= m -> (j = 0 \/ op (j - 1) < h) -> (j < m -> h <= op j) -> h <= lenB H ->
  succ_step2 md sv h =
  Ok (if j <? m then (if h =? op j then Done (Some h) else Continue (h + 1))
      else (if h =? lenB H then Done None else Continue (h + 1))).
Proof.
  intros Hj Hlo Hhi Hl. unfold succ_step2. pose proof q_hb_len as [Hbl Hbl2]. pose proof q_lenB as HlB.
  rewrite Hbl, <- HlB.
  destruct (N.ltb_spec j m) as [Hjm|Hjm].
  - specialize (Hhi Hjm). pose proof (q_op_lt_len j Hjm). replace (h <? lenB H) with true by lia.
    destruct (N.eqb_spec h (op j)) as [->|Hne].
    + rewrite (q_one j Hjm). reflexivity.
    + rewrite (q_gap j h) by (try assumption; lia). cbn [bind]. rewrite uadd_ok by lia. reflexivity.
  - destruct (N.eqb_spec h (lenB H)) as [->|Hne].
    + replace (lenB H <? lenB H) with false by lia. reflexivity.
    + replace (h <? lenB H) with true by lia.
      rewrite (q_gap j h) by (try assumption; lia). cbn [bind]. rewrite uadd_ok by lia. reflexivity.
Qed.

Lemma q_succ_loop2 j p : j <= m -> (j = 0 \/ op (j - 1) < p) -> (j < m -> p <= op j) -> p <= lenB H ->
  run_loop (sv_fuel sv) (succ_step2 md sv) p = Ok (if j <? m then Some (op j) else None).
Proof.
  intros Hj Hlo Hhi Hl. set (target := if j <? m then op j else lenB H).
  assert (Ht : p <= target /\ target <= lenB H).
  { unfold target. destruct (N.ltb_spec j m) as [Hjm|Hjm]; [pose proof (q_op_lt_len j Hjm); specialize (Hhi Hjm); lia|lia]. }
  destruct (run_loop_inv (succ_step2 md sv)
              (fun h k => (j = 0 \/ op (j - 1) < h) /\ h <= target /\ k = target - h)
              (fun r => r = if j <? m then Some (op j) else None)) with (blocks := sv_fuel sv) (s := p) (k := target - p) as [r [Hr Hp]].
  - intros h k [Hlo' [Hhi' Hk]]. unfold target in Hhi', Hk.
    rewrite (q_succ_step2 j h Hj Hlo') by (destruct (N.ltb_spec j m); lia).
    destruct (N.ltb_spec j m) as [Hjm|Hjm].
    + destruct (N.eqb_spec h (op j)) as [Heq|Hne].
      * left. eexists. split; [reflexivity|]. rewrite Heq. reflexivity.
      * right. exists (h + 1), (target - (h + 1)). split; [reflexivity|]. unfold target. replace (j <? m) with true by lia.
        split; [|lia]. split; [destruct Hlo'; [left; assumption|right; lia]|split; [lia|reflexivity]].
    + destruct (N.eqb_spec h (lenB H)) as [Heq|Hne].
      * left. eexists. split; reflexivity.
      * right. exists (h + 1), (target - (h + 1)). split; [reflexivity|]. unfold target. replace (j <? m) with false by lia.
        split; [|lia]. split; [destruct Hlo'; [left; assumption|right; lia]|split; [lia|reflexivity]].
  - split; [exact Hlo|split; [lia|reflexivity]].
  - pose proof q_fuel. pose proof q_lenB. lia.
  - rewrite Hr, Hp. reflexivity.
Qed.

Lemma q_successor_ok v : exists it, sv_successor sp md sv v = Ok it /\ it_repr it (vs_rank Vs v) m.
Proof.
  unfold sv_successor. rewrite Hlen. destruct (N.leb_spec n v) as [Hv|Hv].
  - exists (it_empty sv). split; [reflexivity|]. rewrite (q_rank_beyond v Hv). apply q_it_empty.
  - pose proof (q_hp_lt v Hv) as Hb. destruct (q_rank_in_bucket v Hb) as [Hr1 Hr2].
    rewrite q_split. cbn [bind]. rewrite (q_lower_bound _ Hb). cbn [bind].
    set (b := v / 2 ^ w) in *. set (R := vs_rank Vs v) in *. pose proof (q_c_le_m b) as Hcm.
    destruct (run_loop_inv (succ_step1 md sv (v mod 2 ^ w))
                (fun s k => exists j, s = (b + j, j) /\ c_prev b <= j /\ j <= R /\ k = R - j)
                (fun r => r = if R <? c b then inl (b + R, R) else inr (b + R, R)))
             with (blocks := sv_fuel sv) (s := (b + c_prev b, c_prev b)) (k := R - c_prev b) as [r [Hr Hp]].
    + intros s k [j [-> [Hlo [Hhi Hk]]]]. unfold b. rewrite (q_succ_step1 v j Hv Hlo Hhi). fold b R.
      destruct (N.ltb_spec j R) as [Hlt|Hge].
      * right. exists (b + (j + 1), j + 1), (R - (j + 1)). split; [reflexivity|]. split; [|lia].
        exists (j + 1). split; [reflexivity|]. split; [lia|]. split; [lia|reflexivity].
      * left. assert (j = R) by lia. subst j. destruct (R <? c b); eexists; split; reflexivity.
    + exists (c_prev b). split; [reflexivity|]. split; [lia|]. split; [exact Hr1|reflexivity].
    + pose proof q_fuel. lia.
    + rewrite Hr, Hp. cbn [bind]. destruct (N.ltb_spec R (c b)) as [HRc|HRc].
      * eexists. split; [reflexivity|]. apply q_it_at; [lia|]. intros _.
        rewrite <- (q_bucket_op b R) by lia. split; [|lia].
        destruct (N.eq_dec R 0) as [->|Hne]; [left; reflexivity|right]. apply q_op_mono; lia.
      * assert (HR : R = c b) by lia. cbn [fst snd].
        destruct (H_zero_gap n w Vs H Hw Hsorted HH b Hb) as [Hg1 [Hg2 Hg3]].
        rewrite (q_succ_loop2 R (b + R)) by (rewrite ?HR; try lia; try assumption; intros Hlt; specialize (Hg2 Hlt); lia).
        cbn [bind]. destruct (N.ltb_spec R m) as [HRm|HRm].
        -- eexists. split; [reflexivity|]. apply q_it_at; [lia|]. intros _. split; [|lia].
           destruct (N.eq_dec R 0) as [->|Hne]; [left; reflexivity|right]. apply q_op_mono; lia.
        -- exists (it_empty sv). split; [reflexivity|]. replace R with m by (pose proof (vs_rank_le_len Vs v); lia).
           apply q_it_empty.
Qed.

(* ---- predecessor *)

(* the number of values <= x lies inside (or at the end of) the bucket of x *)
Lemma q_rank_succ_in_bucket x : x / 2 ^ w < nb ->
  c_prev (x / 2 ^ w) <= vs_rank Vs (x + 1) /\ vs_rank Vs (x + 1) <= c (x / 2 ^ w).
Proof.
  intros Hb. set (b := x / 2 ^ w) in *. pose proof q_P_pos as HP. pose proof (q_c_le_m b) as Hcm.
  pose proof (vs_rank_le_len Vs (x + 1)) as Hrm. pose proof (div_mod_eq x (2 ^ w) HP) as Hx. fold b in Hx.
  pose proof (N.mod_lt x (2 ^ w) ltac:(lia)) as Hxm. split.
  - destruct (N.le_gt_cases (c_prev b) (vs_rank Vs (x + 1))) as [|Hlt]; [assumption|exfalso].
    pose proof (q_cprev_le b).
    pose proof (vs_rank_ge Vs (x + 1) (vs_rank Vs (x + 1)) Hsorted ltac:(lia) ltac:(lia)) as Hge.
    pose proof (q_cprev_lt _ b Hlt) as Hhi.
    apply div_lt_iff in Hhi; [|exact HP]. nia.
  - destruct (N.le_gt_cases (vs_rank Vs (x + 1)) (c b)) as [|Hlt]; [assumption|exfalso].
    pose proof (vs_rank_lt Vs (x + 1) (c b) Hsorted Hlt) as Hl.
    pose proof (q_c_ge (c b) b ltac:(lia) ltac:(lia)) as Hhi.
    assert (Hv : (b + 1) * 2 ^ w <= V (c b)).
    { destruct (N.le_gt_cases ((b + 1) * 2 ^ w) (V (c b))) as [|Hc]; [assumption|].
      apply div_le_iff in Hc; [lia|exact HP]. }
    nia.
Qed.

Lemma q_pred_step x j : x < n -> vs_rank Vs (x + 1) <= j + 1 -> j < c (x / 2 ^ w) ->
  pred_step md sv (x mod 2 ^ w) (x / 2 ^ w + j, j) =
  Ok (if vs_rank Vs (x + 1) <=? j then (if j =? 0 then Done None else Continue (x / 2 ^ w + (j - 1), j - 1))
      else Done (Some (x / 2 ^ w + j, j))).
Proof.
  intros Hx Hlo Hhi. pose proof (q_hp_lt x Hx) as Hb. pose proof q_P_pos as HP.
  destruct (q_rank_succ_in_bucket x Hb) as [Hr1 Hr2]. set (b := x / 2 ^ w) in *. set (R := vs_rank Vs (x + 1)) in *.
  pose proof (q_c_le_m b) as Hcm. pose proof q_hb_len as [Hl Hl2].
  unfold pred_step. cbn [fst snd].
  destruct (N.leb_spec R j) as [HRj|HRj].
  - rewrite <- (q_bucket_op b j) by lia. rewrite (q_one j) by lia. cbn [bind].
    rewrite (q_low j) by lia. cbn [bind].
    pose proof (vs_rank_ge Vs (x + 1) j Hsorted HRj ltac:(lia)) as Hge.
    destruct (mod_cmp x (V j) (2 ^ w) HP) as [_ [Hc _]]; [rewrite (q_bucket_hi b j) by lia; reflexivity|].
    rewrite Hc. replace (x <? V j) with true by lia.
    destruct (N.eqb_spec j 0) as [Hj0|Hj0]; [reflexivity|].
    rewrite (q_bucket_op b j) by lia. rewrite usub_ok by lia. cbn [bind]. do 3 f_equal. lia.
  - assert (Hj : j + 1 = R) by lia.
    destruct (N.le_gt_cases (c_prev b) j) as [Hin|Hout].
    + rewrite <- (q_bucket_op b j) by lia. rewrite (q_one j) by lia. cbn [bind].
      rewrite (q_low j) by lia. cbn [bind].
      pose proof (vs_rank_lt Vs (x + 1) j Hsorted ltac:(lia)) as Hlt.
      destruct (mod_cmp x (V j) (2 ^ w) HP) as [_ [Hc _]]; [rewrite (q_bucket_hi b j) by lia; reflexivity|].
      rewrite Hc. replace (x <? V j) with false by lia. rewrite (q_bucket_op b j) by lia. reflexivity.
    + replace j with (c_prev b - 1) by lia. rewrite (q_zero_prev b Hb) by lia. reflexivity.
Qed.

Definition pred_index (v : N) : N := let r := vs_rank Vs (v + 1) in if r =? 0 then m else r - 1.

Lemma q_predecessor_ok v : exists it, sv_predecessor sp md sv v = Ok it /\ it_repr it (pred_index v) m.
Proof.
  unfold sv_predecessor, sv_is_empty, pred_index. rewrite Hlen. destruct (N.eqb_spec n 0) as [Hn0|Hn0].
  - exists (it_empty sv). split; [reflexivity|].
    assert (Hm0 : m = 0). { destruct (N.eq_dec m 0) as [|Hne]; [assumption|]. pose proof (q_V_lt 0 ltac:(lia)). lia. }
    pose proof (vs_rank_le_len Vs (v + 1)). replace (vs_rank Vs (v + 1) =? 0) with true by lia. apply q_it_empty.
  - set (x := N.min v (n - 1)).
    assert (Hx : x < n) by (unfold x; lia).
    assert (HRx : vs_rank Vs (v + 1) = vs_rank Vs (x + 1)).
    { unfold x. destruct (N.le_gt_cases v (n - 1)) as [Hle|Hgt]; [replace (N.min v (n - 1)) with v by lia; reflexivity|].
      replace (N.min v (n - 1)) with (n - 1) by lia. rewrite !q_rank_beyond by lia. reflexivity. }
    rewrite HRx. pose proof (q_hp_lt x Hx) as Hb. destruct (q_rank_succ_in_bucket x Hb) as [Hr1 Hr2].
    rewrite q_split. cbn [bind]. rewrite (q_upper_bound _ Hb). cbn [bind snd fst].
    set (b := x / 2 ^ w) in *. set (R := vs_rank Vs (x + 1)) in *. pose proof (q_c_le_m b) as Hcm.
    destruct (N.eqb_spec (c b) 0) as [Hc0|Hc0].
    { exists (it_empty sv). split; [reflexivity|]. replace (R =? 0) with true by lia. apply q_it_empty. }
    rewrite usub_ok by lia. cbn [bind]. replace (b + c b - 1) with (b + (c b - 1)) by lia.
    destruct (run_loop_inv (pred_step md sv (x mod 2 ^ w))
                (fun s k => exists j, s = (b + j, j) /\ R <= j + 1 /\ j < c b /\ k = j)
                (fun r => r = if R =? 0 then None else Some (b + (R - 1), R - 1)))
             with (blocks := sv_fuel sv) (s := (b + (c b - 1), c b - 1)) (k := c b - 1) as [r [Hr Hp]].
    + intros s k [j [-> [Hlo [Hhi Hk]]]]. unfold b. rewrite (q_pred_step x j Hx Hlo Hhi). fold b R.
      destruct (N.leb_spec R j) as [Hle|Hgt].
      * destruct (N.eqb_spec j 0) as [Hj0|Hj0].
        -- left. exists None. split; [reflexivity|]. replace (R =? 0) with true by lia. reflexivity.
        -- right. exists (b + (j - 1), j - 1), (j - 1). split; [reflexivity|]. split; [|lia].
           exists (j - 1). split; [reflexivity|]. split; [lia|]. split; [lia|reflexivity].
      * left. eexists. split; [reflexivity|]. replace (R =? 0) with false by lia. replace (R - 1) with j by lia. reflexivity.
    + exists (c b - 1). split; [reflexivity|]. split; [lia|]. split; [lia|reflexivity].
    + pose proof q_fuel. lia.
    + rewrite Hr, Hp. cbn [bind]. destruct (N.eqb_spec R 0) as [HR0|HR0].
      * exists (it_empty sv). split; [reflexivity|apply q_it_empty].
      * cbn [fst snd].
        assert (Hop : op (R - 1) <= b + (R - 1)).
        { unfold one_pos. pose proof (q_c_lt (R - 1) b ltac:(lia)). lia. }
        assert (Hnx : R < m -> b + (R - 1) < op R).
        { intros HRm. unfold one_pos. pose proof (q_cprev_ge R b Hr1 HRm). lia. }
        pose proof q_lenB as HlB.
        rewrite (q_bwd_loop R (b + (R - 1))) by (try assumption; lia). cbn [bind].
        eexists. split; [reflexivity|]. apply q_it_at; [lia|]. intros _. split; [|lia].
        destruct (N.eq_dec (R - 1) 0) as [->|Hne]; [left; reflexivity|right]. apply q_op_mono; lia.
Qed.

(* ---- select_zero (sets only: the values are strictly increasing) *)

Lemma threshold_ok : 2 <= sparse_BINARY_SEARCH_THRESHOLD.
Proof. unfold sparse_BINARY_SEARCH_THRESHOLD. lia. Qed.

Section Zero.
Hypothesis Hstrict : sorted_lt Vs.
Variable rank : N.

(* all values before index j are followed by at most [rank] unset positions *)
Definition run_prefix (j : N) : Prop := forall j', j' < j -> V j' <= rank + j'.

Lemma q_run_prefix_ext j : j < m -> V j <= rank + j -> run_prefix (j + 1).
Proof.
  intros Hj Hv j' Hj'. pose proof (sorted_lt_gap Vs j' j Hstrict ltac:(lia) Hj). lia.
Qed.

Lemma q_index_le_V j : j < m -> j <= V j.
Proof. apply sorted_lt_ge_index. exact Hstrict. Qed.

Lemma q_fzr_search f : forall low high it,
  low <= high -> high <= m -> high - low <= sparse_BINARY_SEARCH_THRESHOLD * 2 ^ N.of_nat f ->
  it_repr it low m -> run_prefix low ->
  exists low' it', fzr_search sp md sv (S f) rank low high (low, it) = Ok (low', it') /\
    low' <= m /\ it_repr it' low' m /\ run_prefix low'.
Proof.
  pose proof threshold_ok as HT.
  induction f as [|f IH]; intros low high it Hlh Hhm Hd Hit Hpre.
  - cbn [fzr_search]. rewrite usub_ok by lia. cbn [bind].
    replace (sparse_BINARY_SEARCH_THRESHOLD <? high - low) with false by (cbn in Hd; lia).
    exists low, it. split; [reflexivity|]. split; [lia|split; [exact Hit|exact Hpre]].
  - cbn [fzr_search]. rewrite usub_ok by lia. cbn [bind].
    destruct (N.ltb_spec sparse_BINARY_SEARCH_THRESHOLD (high - low)) as [Hgt|Hle].
    + set (d := high - low) in *. set (mid := low + d / 2).
      assert (Hmid : low <= mid /\ mid < high) by (unfold mid; lia).
      destruct (q_select_iter mid) as [itm [Hsel Hitm]]. rewrite Hsel. cbn [bind].
      replace (N.min mid m) with mid in Hitm by lia.
      destruct (q_it_next itm mid m Hitm ltac:(lia)) as [it' [Hnx Hit']]. rewrite Hnx. cbn [bind opt_unwrap].
      pose proof (q_index_le_V mid ltac:(lia)) as Hge. pose proof q_hb_len as [_ Hl2].
      rewrite usub_ok by exact Hge. cbn [bind].
      assert (Hpow : 2 ^ N.of_nat (S f) = 2 * 2 ^ N.of_nat f) by (rewrite Nat2N.inj_succ, N.pow_succ_r'; reflexivity).
      destruct (N.leb_spec (V mid - mid) rank) as [Hgo|Hgo].
      * rewrite uadd_ok by lia. cbn [bind].
        apply IH; [lia|lia| |exact Hit'|apply q_run_prefix_ext; lia].
        rewrite Hpow in Hd. unfold mid. fold d. nia.
      * apply IH; [lia|lia| |exact Hit|exact Hpre].
        rewrite Hpow in Hd. unfold mid. replace (low + d / 2 - low) with (d / 2) by lia. nia.
    + exists low, it. split; [reflexivity|]. split; [lia|split; [exact Hit|exact Hpre]].
Qed.

Lemma q_fzr_scan low it : low <= m -> it_repr it low m -> run_prefix low ->
  exists K itK, run_loop (sv_fuel sv) (fzr_scan_step md sv rank) (it, (low, it)) = Ok (K, itK) /\
    K <= m /\ it_repr itK K m /\ run_prefix K /\ (K < m -> rank + K < V K).
Proof.
  intros Hlowm Hit Hpre.
  destruct (run_loop_inv (fzr_scan_step md sv rank)
              (fun s k => exists j itj, s = (itj, (j, itj)) /\ j <= m /\ it_repr itj j m /\ run_prefix j /\ k = m - j)
              (fun r => exists K itK, r = (K, itK) /\ K <= m /\ it_repr itK K m /\ run_prefix K /\ (K < m -> rank + K < V K)))
           with (blocks := sv_fuel sv) (s := (it, (low, it))) (k := m - low) as [r [Hr Hp]].
  - intros s k [j [itj [-> [Hjm [Hitj [Hprej Hk]]]]]]. unfold fzr_scan_step. cbn [fst snd].
    destruct (N.ltb_spec j m) as [Hlt|Hge].
    + destruct (q_it_next itj j m Hitj Hlt) as [it' [Hnx Hit']]. rewrite Hnx. cbn [bind].
      pose proof (q_index_le_V j Hlt) as Hge. rewrite usub_ok by exact Hge. cbn [bind].
      pose proof q_hb_len as [_ Hl2].
      destruct (N.leb_spec (V j - j) rank) as [Hgo|Hgo].
      * rewrite uadd_ok by lia. cbn [bind]. right. eexists. exists (m - (j + 1)). split; [reflexivity|]. split; [|lia].
        exists (j + 1), it'. split; [reflexivity|]. split; [lia|]. split; [exact Hit'|]. split; [apply q_run_prefix_ext; lia|reflexivity].
      * left. eexists. split; [reflexivity|]. exists j, itj. split; [reflexivity|]. split; [exact Hjm|]. split; [exact Hitj|]. split; [exact Hprej|]. intros _. lia.
    + rewrite (q_it_next_none itj j m Hitj Hge). cbn [bind]. left. eexists. split; [reflexivity|].
      exists j, itj. split; [reflexivity|]. split; [exact Hjm|]. split; [exact Hitj|]. split; [exact Hprej|]. intros Hc. lia.
  - exists low, it. split; [reflexivity|]. split; [exact Hlowm|]. split; [exact Hit|]. split; [exact Hpre|reflexivity].
  - pose proof q_fuel. lia.
  - destruct Hp as [K [itK [-> Hrest]]]. exists K, itK. split; [exact Hr|exact Hrest].
Qed.

Lemma q_find_zero_run : exists K itK, sv_find_zero_run sp md sv rank = Ok (K, itK) /\
    K <= m /\ it_repr itK K m /\ run_prefix K /\ (K < m -> rank + K < V K).
Proof.
  unfold sv_find_zero_run. rewrite q_ones. pose proof q_hb_len as [_ Hl2]. pose proof threshold_ok as HT.
  destruct (q_fzr_search 63 0 m (sv_one_iter sv)) as [low [it [Hs [Hlm [Hit Hpre]]]]];
    [lia|lia| |apply q_one_iter|intros j' Hj'; lia|].
  { replace (m - 0) with m by lia. assert (2 ^ 64 <= sparse_BINARY_SEARCH_THRESHOLD * 2 ^ N.of_nat 63) by (change (N.of_nat 63) with 63; lia). lia. }
  change (S 63) with 64%nat in Hs. rewrite Hs. cbn [bind snd].
  apply q_fzr_scan; assumption.
Qed.

Lemma q_m_le_n : m <= n.
Proof. apply sorted_lt_len_le; assumption. Qed.

Lemma q_count_zeros : sv_count_zeros sv = n - m.
Proof. unfold sv_count_zeros. rewrite Hlen, q_ones. pose proof q_m_le_n. destruct (N.leb_spec n m); lia. Qed.

Lemma q_select_zero_ok :
  (n - m <= rank -> sv_select_zero sp md sv rank = Ok None) /\
  (rank < n - m -> exists z, sv_select_zero sp md sv rank = Ok (Some z) /\
     z < n /\ vs_get Vs z = false /\ vs_rank Vs z + rank = z).
Proof.
  unfold sv_select_zero. rewrite q_count_zeros. split; intros Hr.
  - replace (n - m <=? rank) with true by lia. reflexivity.
  - replace (n - m <=? rank) with false by lia.
    destruct q_find_zero_run as [K [itK [Hf [HKm [_ [Hpre Hnext]]]]]]. rewrite Hf. cbn [bind].
    pose proof q_m_le_n as Hmn. rewrite uadd_ok by lia. cbn [bind]. exists (K + rank). split; [reflexivity|].
    assert (HR : vs_rank Vs (K + rank) = K).
    { apply vs_rank_char; [exact Hsorted|exact HKm| |].
      - intros i Hi. pose proof (Hpre i Hi). lia.
      - intros i Hi1 Hi2. specialize (Hnext ltac:(lia)).
        pose proof (sorted_lt_gap Vs K i Hstrict Hi1 Hi2). lia. }
    split; [lia|]. split; [|lia].
    rewrite (vs_get_sorted Vs _ Hsorted), HR. destruct (N.ltb_spec K m) as [HKlt|]; [|reflexivity].
    specialize (Hnext HKlt). apply N.eqb_neq. lia.
Qed.

End Zero.

(* ---- first item of the iterators returned by successor / predecessor / select_iter *)

Lemma q_it_first it j : it_repr it j m ->
  it_first md sv (Ok it) = Ok (hd_error (skipN (vs_ranked Vs) j)).
Proof.
  intros Hit. unfold it_first. cbn [bind]. rewrite hd_skipN_ranked.
  destruct (N.ltb_spec j m) as [Hj|Hj].
  - destruct (q_it_next it j m Hit Hj) as [it' [Hnx _]]. rewrite Hnx. reflexivity.
  - rewrite (q_it_next_none it j m Hit Hj). reflexivity.
Qed.

Lemma q_successor_first v : it_first md sv (sv_successor sp md sv v) = Ok (hd_error (vs_succ Vs v)).
Proof.
  destruct (q_successor_ok v) as [it [Hs Hit]]. rewrite Hs, (vs_succ_eq Vs v Hsorted). apply q_it_first. exact Hit.
Qed.

Lemma q_predecessor_first v : it_first md sv (sv_predecessor sp md sv v) = Ok (hd_error (vs_pred Vs v)).
Proof.
  destruct (q_predecessor_ok v) as [it [Hs Hit]]. rewrite Hs, (vs_pred_eq Vs v Hsorted).
  rewrite (q_it_first it _ Hit). unfold pred_index. cbn zeta.
  destruct (N.eqb_spec (vs_rank Vs (v + 1)) 0) as [Hz|Hz]; [|reflexivity].
  rewrite hd_skipN_ranked. replace (m <? m) with false by lia. reflexivity.
Qed.

(* ---- the set-bit iterator under any sequence of next / next_back calls *)

Lemma q_it_drive pat : forall it j k, it_repr it j k ->
  it_drive md sv pat it = Ok (deque_run (seg Vs j k) pat).
Proof.
  induction pat as [|b t IH]; intros it j k Hit; [reflexivity|].
  cbn [it_drive]. destruct b.
  - (* next_back *)
    destruct (N.lt_ge_cases j k) as [Hjk|Hjk].
    + destruct (q_it_back it j k Hit Hjk) as [it' [Hb Hit']]. rewrite Hb. cbn [bind].
      rewrite (IH it' j (k - 1) Hit'). cbn [bind]. rewrite (seg_snoc Vs j k Hjk), deque_back_snoc. reflexivity.
    + rewrite (q_it_back_none it j k Hit Hjk). cbn [bind]. rewrite (IH it j k Hit). cbn [bind].
      rewrite (seg_nil Vs j k Hjk). reflexivity.
  - (* next *)
    destruct (N.lt_ge_cases j k) as [Hjk|Hjk].
    + destruct (q_it_next it j k Hit Hjk) as [it' [Hb Hit']]. rewrite Hb. cbn [bind].
      rewrite (IH it' (j + 1) k Hit'). cbn [bind]. rewrite (seg_cons Vs j k Hjk). reflexivity.
    + rewrite (q_it_next_none it j k Hit Hjk). cbn [bind]. rewrite (IH it j k Hit). cbn [bind].
      rewrite (seg_nil Vs j k Hjk). reflexivity.
Qed.

Lemma q_one_iter_drive pat : it_drive md sv pat (sv_one_iter sv) = Ok (deque_run (vs_ranked Vs) pat).
Proof. rewrite (q_it_drive pat _ 0 m q_one_iter), vs_ranked_seg. reflexivity. Qed.

Lemma q_successor_drive v pat :
  (let* it := sv_successor sp md sv v in it_drive md sv pat it) = Ok (deque_run (vs_succ Vs v) pat).
Proof.
  destruct (q_successor_ok v) as [it [Hs Hit]]. rewrite Hs. cbn [bind].
  rewrite (q_it_drive pat _ _ _ Hit), (vs_succ_eq Vs v Hsorted), skipN_ranked_seg. reflexivity.
Qed.

Lemma q_predecessor_drive v pat :
  (let* it := sv_predecessor sp md sv v in it_drive md sv pat it) = Ok (deque_run (vs_pred Vs v) pat).
Proof.
  destruct (q_predecessor_ok v) as [it [Hs Hit]]. rewrite Hs. cbn [bind].
  rewrite (q_it_drive pat _ _ _ Hit), (vs_pred_eq Vs v Hsorted). unfold pred_index. cbn zeta.
  destruct (N.eqb_spec (vs_rank Vs (v + 1)) 0) as [Hz|Hz]; [rewrite seg_nil by lia; reflexivity|].
  rewrite skipN_ranked_seg. reflexivity.
Qed.

Lemma q_select_iter_drive r pat :
  (let* it := sv_select_iter sp md sv r in it_drive md sv pat it) = Ok (deque_run (skipN (vs_ranked Vs) r) pat).
Proof.
  destruct (q_select_iter r) as [it [Hs Hit]]. rewrite Hs. cbn [bind].
  rewrite (q_it_drive pat _ _ _ Hit), skipN_ranked_seg.
  destruct (N.le_gt_cases r m) as [Hr|Hr]; [replace (N.min r m) with r by lia; reflexivity|].
  replace (N.min r m) with m by lia. rewrite !seg_nil by lia. reflexivity.
Qed.

(* ---- the bit iterator: the duplicate-skipping scans of its parent *)

Lemma q_skip_fwd a it j k : it_repr it j k ->
  exists it' j' found, run_loop (sv_fuel sv) (skip_fwd_step md sv a) it = Ok (it', found) /\ it_repr it' j' k /\
    ((exists i, found = Some (V i) /\ j <= i /\ i < k /\ a < V i /\ (forall i', j <= i' -> i' < i -> V i' <= a) /\ j' = i + 1) \/
     (found = None /\ (forall i', j <= i' -> i' < k -> V i' <= a) /\ k <= j')).
Proof.
  intros Hit. assert (Hkm : k <= m) by apply Hit.
  destruct (run_loop_inv (skip_fwd_step md sv a)
              (fun itc d => exists c, it_repr itc c k /\ j <= c /\ (forall i', j <= i' -> i' < c -> V i' <= a) /\ d = k - c)
              (fun r => exists j', it_repr (fst r) j' k /\
                 ((exists i, snd r = Some (V i) /\ j <= i /\ i < k /\ a < V i /\ (forall i', j <= i' -> i' < i -> V i' <= a) /\ j' = i + 1) \/
                  (snd r = None /\ (forall i', j <= i' -> i' < k -> V i' <= a) /\ k <= j'))))
           with (blocks := sv_fuel sv) (s := it) (k := k - j) as [r [Hr Hp]].
  - intros itc d [c [Hc [Hjc [Hsk Hd]]]]. unfold skip_fwd_step.
    destruct (N.lt_ge_cases c k) as [Hck|Hck].
    + destruct (q_it_next itc c k Hc Hck) as [it' [Hnx Hit']]. rewrite Hnx. cbn [bind].
      destruct (N.ltb_spec a (V c)) as [Hgt|Hle].
      * left. eexists. split; [reflexivity|]. cbn [fst snd]. exists (c + 1). split; [exact Hit'|].
        left. exists c. repeat split; try assumption; lia.
      * right. exists it', (k - (c + 1)). split; [reflexivity|]. split; [|lia].
        exists (c + 1). split; [exact Hit'|]. split; [lia|]. split; [|reflexivity].
        intros i' Hi1 Hi2. destruct (N.eq_dec i' c) as [->|]; [exact Hle|apply Hsk; lia].
    + rewrite (q_it_next_none itc c k Hc Hck). cbn [bind]. left. eexists. split; [reflexivity|]. cbn [fst snd].
      exists c. split; [exact Hc|]. right. split; [reflexivity|]. split; [intros i' Hi1 Hi2; apply Hsk; lia|exact Hck].
  - exists j. split; [exact Hit|]. split; [lia|]. split; [intros; lia|reflexivity].
  - pose proof q_fuel. lia.
  - destruct r as [it' found]. cbn [fst snd] in Hp. destruct Hp as [j' [Hit' Hcases]].
    exists it', j', found. split; [exact Hr|]. split; [exact Hit'|exact Hcases].
Qed.

Lemma q_skip_bwd lim it j k : it_repr it j k ->
  exists it' k' found, run_loop (sv_fuel sv) (skip_bwd_step md sv lim) it = Ok (it', found) /\ it_repr it' j k' /\
    ((exists i, found = Some (V i) /\ j <= i /\ i < k /\ V i < lim /\ (forall i', i < i' -> i' < k -> lim <= V i') /\ k' = i) \/
     (found = None /\ (forall i', j <= i' -> i' < k -> lim <= V i') /\ k' <= j)).
Proof.
  intros Hit.
  destruct (run_loop_inv (skip_bwd_step md sv lim)
              (fun itc d => exists c, it_repr itc j c /\ c <= k /\ (forall i', c <= i' -> i' < k -> lim <= V i') /\ d = c)
              (fun r => exists k', it_repr (fst r) j k' /\
                 ((exists i, snd r = Some (V i) /\ j <= i /\ i < k /\ V i < lim /\ (forall i', i < i' -> i' < k -> lim <= V i') /\ k' = i) \/
                  (snd r = None /\ (forall i', j <= i' -> i' < k -> lim <= V i') /\ k' <= j))))
           with (blocks := sv_fuel sv) (s := it) (k := k) as [r [Hr Hp]].
  - intros itc d [c [Hc [Hck [Hsk Hd]]]]. unfold skip_bwd_step.
    destruct (N.lt_ge_cases j c) as [Hjc|Hjc].
    + destruct (q_it_back itc j c Hc Hjc) as [it' [Hnx Hit']]. rewrite Hnx. cbn [bind].
      destruct (N.ltb_spec (V (c - 1)) lim) as [Hlt|Hge].
      * left. eexists. split; [reflexivity|]. cbn [fst snd]. exists (c - 1). split; [exact Hit'|].
        left. exists (c - 1). split; [reflexivity|]. split; [lia|]. split; [lia|]. split; [exact Hlt|]. split; [|reflexivity].
        intros i' Hi1 Hi2. apply Hsk; lia.
      * right. exists it', (c - 1). split; [reflexivity|]. split; [|lia].
        exists (c - 1). split; [exact Hit'|]. split; [lia|]. split; [|reflexivity].
        intros i' Hi1 Hi2. destruct (N.eq_dec i' (c - 1)) as [->|]; [exact Hge|apply Hsk; lia].
    + rewrite (q_it_back_none itc j c Hc Hjc). cbn [bind]. left. eexists. split; [reflexivity|]. cbn [fst snd].
      exists c. split; [exact Hc|]. right. split; [reflexivity|]. split; [intros i' Hi1 Hi2; apply Hsk; lia|exact Hjc].
  - exists k. split; [exact Hit|]. split; [lia|]. split; [intros; lia|reflexivity].
  - assert (k <= m) by apply Hit. pose proof q_fuel. lia.
  - destruct r as [it' found]. cbn [fst snd] in Hp. destruct Hp as [k' [Hit' Hcases]].
    exists it', k', found. split; [exact Hr|]. split; [exact Hit'|exact Hcases].
Qed.

End Queries.

(* width 64 is never produced by the rule; if it were, every split of an index would fail the shift check of a
   debug build (and shift by 0 in a release build) *)
Lemma split_w_64_debug i : split_w Debug 64 i = Panic POverflow.
Proof. reflexivity. Qed.
