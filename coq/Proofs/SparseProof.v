(* Proofs about Model/Sparse.v (Elias-Fano sparse vector). *)
From Coq Require Import NArith List Lia ZArith Bool.
Require Import SDS.Model.Mach SDS.Model.Bits SDS.Model.Raw SDS.Model.IntVec SDS.Model.BitVec SDS.Model.Sparse.
Require Import SDS.Spec.BitSeq SDS.Spec.ValSeq SDS.Proofs.BitsProof SDS.Proofs.BVCommon SDS.gen.Consts.
Import ListNotations.
Open Scope N_scope.
Require Import ZifyBool ZifyN ZifyNat.
Ltac Zify.zify_post_hook ::= Z.div_mod_to_equations.
Arguments N.add : simpl never. Arguments N.sub : simpl never. Arguments N.mul : simpl never.
Arguments N.eqb : simpl never. Arguments N.ltb : simpl never. Arguments N.leb : simpl never.
Arguments N.pow : simpl never. Arguments N.shiftl : simpl never. Arguments N.shiftr : simpl never.
Arguments N.land : simpl never. Arguments N.lor : simpl never. Arguments N.div : simpl never.
Arguments N.modulo : simpl never. Arguments N.ones : simpl never. Arguments N.testbit : simpl never.

(* ---------------------------------------------------------------- get_buckets *)

Lemma land_ones_mod a w : N.land a (N.ones w) = a mod 2 ^ w.
Proof. apply N.land_ones. Qed.

(* number of buckets = ceil(universe / 2^w), for every admissible width *)
Lemma get_buckets_spec universe w :
  1 <= w <= 63 -> get_buckets universe w = Ok ((universe + 2 ^ w - 1) / 2 ^ w).
Proof.
  intros Hw. unfold get_buckets.
  replace (w <? bits_WORD_BITS) with true by (unfold bits_WORD_BITS; lia).
  rewrite low_set_ok by lia. cbn [bind].
  rewrite land_ones_mod, N.shiftr_div_pow2.
  assert (Hp : 0 < 2 ^ w) by (apply N.neq_0_lt_0, N.pow_nonzero; lia).
  set (p := 2 ^ w) in *.
  pose proof (N.div_mod universe p ltac:(lia)) as Hdm.
  pose proof (N.mod_lt universe p ltac:(lia)) as Hlt.
  set (q := universe / p) in *. set (r := universe mod p) in *.
  f_equal. destruct (N.eqb_spec r 0) as [Hr|Hr].
  - apply N.div_unique with (r := p - 1); [lia|]. rewrite Hdm at 1. lia.
  - apply N.div_unique with (r := r - 1); [lia|]. rewrite Hdm at 1. lia.
Qed.

(* width 64 (never chosen by the rule): one bucket for a non-empty universe *)
Lemma get_buckets_64 universe :
  universe < 2 ^ 64 -> get_buckets universe 64 = Ok (if universe =? 0 then 0 else 1).
Proof.
  intros Hu. unfold get_buckets.
  replace (64 <? bits_WORD_BITS) with false by (unfold bits_WORD_BITS; lia).
  rewrite low_set_ok by lia. cbn [bind].
  rewrite land_ones_mod, N.mod_small by lia. reflexivity.
Qed.

Lemma get_buckets_too_wide universe w : 64 < w -> get_buckets universe w = Panic PIndex.
Proof. intros Hw. unfold get_buckets. rewrite low_set_panics by lia. reflexivity. Qed.
