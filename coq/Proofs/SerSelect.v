(* The select supports built by SelectSupport::new pass the loader's checks (the select half of what C19 needs;
   the rank half is SerRank.v). From the builder's invariant of SelectProof.v ([select_new_counts]: three integer
   vectors with exactly the words their bits need, two samples per superblock, long superblocks + short
   superblocks = superblocks in the rounded-up arithmetic of long_superblocks() / short_superblocks(), and the
   size bounds) follow [ss_ok] - the well-formedness of [ss_codec], i.e. every check of SelectSupport::load and
   of the three IntVector::load / RawVector::load inside it - and the superblock count BitVector::load insists on.
   Hence [bv_ok] of every fully enabled vector and the unconditional form of C19. *)
From Coq Require Import NArith List Lia ZArith Bool.
Require Import SDS.Model.Mach SDS.Model.Bits SDS.Model.Raw SDS.Model.IntVec SDS.Model.BitVec SDS.Model.Ser.
Require Import SDS.gen.Consts SDS.Spec.Stream SDS.Spec.BitSeq.
Require Import SDS.Proofs.BitsProof SDS.Proofs.BVCommon SDS.Proofs.OneIterProof SDS.Proofs.SelectProof SDS.Proofs.BVFull.
Require Import SDS.Proofs.SerProof SDS.Proofs.SerTypes SDS.Proofs.SerSupports SDS.Proofs.SerRank SDS.Proofs.SerMain.
Import ListNotations.
Open Scope list_scope.
Open Scope N_scope.
Require Import ZifyBool ZifyN ZifyNat.
Ltac Zify.zify_post_hook ::= Z.div_mod_to_equations.
Arguments N.add : simpl never. Arguments N.sub : simpl never. Arguments N.mul : simpl never.
Arguments N.div : simpl never. Arguments N.modulo : simpl never. Arguments N.pow : simpl never.
Arguments N.leb : simpl never. Arguments N.ltb : simpl never. Arguments N.eqb : simpl never.
Arguments N.land : simpl never. Arguments N.lor : simpl never. Arguments N.shiftl : simpl never.
Arguments N.shiftr : simpl never. Arguments N.testbit : simpl never.

(* an integer vector that stores a list, has exactly the words it needs and fewer than 2^64 bits at width 64,
   passes IntVector::load and RawVector::load *)
Lemma sel_iv_ok v xs : sel_iv v xs -> iv_exact v -> ilen v * 64 + 63 < 2 ^ 64 -> iv_ok v.
Proof.
  intros (Hw & Hlen & Hrl & Hwf & _ & _) Hx Hb. unfold iv_exact in Hx.
  assert (Hm : ilen v * iwidth v <= ilen v * 64) by (apply N.mul_le_mono_l; lia).
  unfold iv_ok, raw_ok. rewrite Hrl, <- Hlen.
  split; [lia|]. split; [lia|]. split; [reflexivity|]. split; [lia|]. split; [|exact Hwf].
  rewrite Hx, Hrl, <- Hlen. unfold bits_to_words. change bits_WORD_BITS with 64. change (64 - 1) with 63. reflexivity.
Qed.

(* the long array stays far below 2^58 entries: long superblocks are at least log4(len) positions apart *)
Lemma long_len_bound L n l4 :
  L < 2 ^ 64 -> n <= L -> n * l4 <= 4096 * L ->
  l4 = (bit_len L * bit_len L) * (bit_len L * bit_len L) -> n * 64 + 63 < 2 ^ 64.
Proof.
  intros HL Hn Hmul Hl4.
  destruct (N.lt_ge_cases L (2 ^ 57)) as [Hsmall|Hbig]; [lia|].
  pose proof (bit_len_bounds L ltac:(lia)) as [_ Hub].
  assert (Hbl : 58 <= bit_len L).
  { destruct (N.le_gt_cases 58 (bit_len L)) as [G|G]; [exact G|].
    assert (2 ^ bit_len L <= 2 ^ 57) by (apply N.pow_le_mono_r; lia). lia. }
  assert (H2 : 58 * 58 <= bit_len L * bit_len L) by (apply N.mul_le_mono; exact Hbl).
  assert (H4 : (58 * 58) * (58 * 58) <= l4) by (rewrite Hl4; apply N.mul_le_mono; exact H2).
  assert (H5 : n * ((58 * 58) * (58 * 58)) <= n * l4) by (apply N.mul_le_mono_l; exact H4).
  lia.
Qed.

(* every check of SelectSupport::load *)
Lemma counts_ss_ok t b B s :
  bv_repr b B -> lenB B + 4096 < 2 ^ 64 -> ss_valid t B s ->
  ss_counts t b B (ss_samples s) (ss_long s) (ss_short s) ->
  ss_ok s /\ ss_superblocks s = ceil_div (t_count_ones t b) select_SUPERBLOCK_SIZE.
Proof.
  intros Hrep HL (sv & lv & shv & H1 & H2 & H3 & _ & _) (X1 & X2 & X3 & N1 & N2 & N3 & N4 & N5).
  destruct (repr_facts b B Hrep) as (Hlen & _).
  rewrite (t_count_ones_spec t b B Hrep).
  set (c := count (t_bits t B)) in *.
  assert (HcL : c <= lenB B) by (unfold c; rewrite <- (t_bits_len t B); apply count_le_length).
  unfold nsb_of in N1, N2. fold c in N1, N2.
  assert (Hlong : ilen (ss_long s) * 64 + 63 < 2 ^ 64).
  { apply (long_len_bound (lenB B) _ (log4_of b)); try lia. unfold log4_of. rewrite Hlen. reflexivity. }
  unfold ss_ok, ss_superblocks, ss_long_superblocks, ss_short_superblocks, ceil_div.
  change select_SUPERBLOCK_SIZE with 4096. change select_BLOCKS_IN_SUPERBLOCK with 64.
  split; [|rewrite N1; lia].
  split; [apply (sel_iv_ok _ sv H1 X1); lia|].
  split; [apply (sel_iv_ok _ lv H2 X2); exact Hlong|].
  split; [apply (sel_iv_ok _ shv H3 X3); lia|].
  split; [lia|]. split; [lia|]. rewrite N1. lia.
Qed.

(* SelectSupport::new on a representation: what it returns loads *)
Theorem select_new_loadable sp m t b B s :
  bv_repr b B -> lenB B + 4096 < 2 ^ 64 -> select_new sp m t b = Ok s ->
  ss_ok s /\ ss_superblocks s = ceil_div (t_count_ones t b) select_SUPERBLOCK_SIZE.
Proof.
  intros Hrep HL E. destruct (select_new_counts sp m t b B Hrep) as (s' & E' & V & _ & C).
  assert (s' = s) by congruence. subst s'. exact (counts_ss_ok t b B s Hrep HL V C).
Qed.

(* a representation satisfies what the loader checks of the bits and their count *)
Lemma repr_raw_ok b B : bv_repr b B -> lenB B + 4096 < 2 ^ 64 ->
  rlen (bv_data b) = lenB B /\ raw_ok (bv_data b) /\ bv_ones b <= rlen (bv_data b).
Proof.
  intros Hrep HL. pose proof Hrep as ((Hl & Hw & _ & _) & _ & _).
  destruct (repr_facts b B Hrep) as (Hlen & _ & _ & _ & _ & Ho). unfold bv_len in Hlen.
  split; [symmetry; exact Hlen|]. split.
  - unfold raw_ok. split; [lia|]. split; [|exact Hw].
    rewrite Hl. unfold bits_to_words. change bits_WORD_BITS with 64. change (64 - 1) with 63. reflexivity.
  - rewrite Ho, <- Hlen. apply count_le_length.
Qed.

(* the former hypothesis of C19: both select supports of a fully enabled representation load *)
Theorem built_select_supports_ok sp m b0 bf B :
  bv_repr b0 B -> lenB B + 4096 < 2 ^ 64 -> no_supports b0 -> bv_enable_all sp m b0 = Ok bf ->
  bv_repr bf B /\ select_supports_ok bf.
Proof.
  intros Hrep HL H0 E.
  destruct (enable_all_full sp m b0 bf H0 E) as [(rs & s1 & s0 & Er & Es & Ez & _ & B1 & B0) _].
  destruct (bv_enable_all_frame sp m b0 bf E) as (Hsame & _).
  pose proof (bv_repr_same b0 bf B Hsame Hrep) as Hrepf.
  split; [exact Hrepf|].
  unfold select_supports_ok. rewrite Es, Ez. split.
  - exact (select_new_loadable sp m Identity bf B s1 Hrepf HL B1).
  - exact (select_new_loadable sp m Complement bf B s0 Hrepf HL B0).
Qed.

Theorem built_repr_bv_ok sp m b0 bf B :
  bv_repr b0 B -> lenB B + 4096 < 2 ^ 64 -> no_supports b0 -> bv_enable_all sp m b0 = Ok bf -> bv_ok bf.
Proof.
  intros Hrep HL H0 E.
  destruct (repr_raw_ok b0 B Hrep HL) as (Hl & Hraw & Ho).
  apply (built_bv_ok sp m b0 bf H0 Hraw Ho); [change select_SUPERBLOCK_SIZE with 4096; lia|exact E|].
  exact (proj2 (built_select_supports_ok sp m b0 bf B Hrep HL H0 E)).
Qed.

(* C19, unconditional: every bit sequence B (shorter than 2^64 - 4096 bits), every record b0 that represents it
   without supports (any construction route: BVFull.build_route_irrelevant), every select path and mode *)
Theorem supports_full sp m (B : list bool) b0 :
  lenB B + select_SUPERBLOCK_SIZE < 2 ^ 64 -> bv_repr b0 B -> no_supports b0 ->
  exists bf, bv_enable_all sp m b0 = Ok bf /\ bv_repr bf B /\
  forall s, s < 8 ->
  (forall rest, c_dec (bv_codec m) (c_enc (bv_codec m) (bv_restrict s bf) ++ rest) = IoOk (bv_restrict s bf, rest)) /\
  bv_supports (bv_restrict s bf) = s /\
  (forall ops, Forall (fun op => op < 3) ops ->
     exists b', bv_enable_ops sp m ops (bv_restrict s bf) = Ok b' /\
                bv_supports b' = ops_flags ops s /\ same_core b' bf /\
                (ops_flags ops s = 7 -> b' = bf)).
Proof.
  change select_SUPERBLOCK_SIZE with 4096. intros HL Hrep H0.
  exists (bv_full sp m b0). pose proof (bv_enable_all_closed sp m b0 B Hrep) as E.
  split; [exact E|].
  split; [exact (proj1 (built_select_supports_ok sp m b0 _ B Hrep HL H0 E))|].
  pose proof (built_repr_bv_ok sp m b0 _ B Hrep HL H0 E) as W.
  intros s Hs. split; [|split].
  - intros rest. exact (proj1 (supports_roundtrip sp m b0 _ s rest H0 E W Hs)).
  - exact (proj2 (supports_roundtrip sp m b0 _ s [] H0 E W Hs)).
  - intros ops Hops. exact (supports_rebuild sp m b0 _ s ops H0 E Hs Hops).
Qed.
