(* The set-bit iterator OneIter<T> of src/bit_vector.rs (Model/BitVec.v: oi_next_f, oi_nth, oi_next_back)
   refines a double-ended queue over the ranked positions of the set bits of the transformed vector.
   Contents: (0) facts about the list specification (rank/select characterisation of [ones]);
   (A) the word-level view of [t_word_unchecked]; (B) the iterator invariant, the abstraction function
   [oi_mid] and the one-step lemmas for next / next_back / nth / len; the scan loops never exhaust
   their fuel and never leave the word array. *)
From Coq Require Import NArith List Lia ZArith Bool.
Require Import SDS.Model.Mach SDS.Model.Bits SDS.Model.Raw SDS.Model.IntVec SDS.Model.BitVec SDS.gen.Consts.
Require Import SDS.Spec.BitSeq SDS.Proofs.BitsProof SDS.Proofs.SelectPortable SDS.Proofs.BVCommon.
Import ListNotations.
Open Scope N_scope.
Require Import ZifyBool ZifyN ZifyNat.
Ltac Zify.zify_post_hook ::= Z.div_mod_to_equations.
Arguments N.add : simpl never. Arguments N.sub : simpl never. Arguments N.mul : simpl never.
Arguments N.eqb : simpl never. Arguments N.ltb : simpl never. Arguments N.leb : simpl never.
Arguments N.pow : simpl never. Arguments N.shiftl : simpl never. Arguments N.shiftr : simpl never.
Arguments N.land : simpl never. Arguments N.lor : simpl never. Arguments N.div : simpl never.
Arguments N.modulo : simpl never. Arguments N.ones : simpl never. Arguments N.testbit : simpl never.

(* ================================================================ (0) the list specification *)

(* ---- getb / bitB ---- *)

Lemma getb_app B1 B2 i :
  getb (B1 ++ B2) i = if i <? lenB B1 then getb B1 i else getb B2 (i - lenB B1).
Proof.
  unfold lenB. revert i. induction B1 as [|b t IH]; intros i; cbn [app getb length].
  - change (N.of_nat 0) with 0. replace (i <? 0) with false by lia. f_equal. lia.
  - destruct (N.eqb_spec i 0) as [->|Hi].
    + replace (0 <? N.of_nat (S (length t))) with true by lia. reflexivity.
    + rewrite IH. replace (i - 1 <? N.of_nat (length t)) with (i <? N.of_nat (S (length t))) by lia.
      replace (i - 1 - N.of_nat (length t)) with (i - N.of_nat (S (length t))) by lia. reflexivity.
Qed.

Lemma getb_firstn n B i : getb (firstn n B) i = if i <? N.of_nat n then getb B i else None.
Proof.
  revert B i. induction n as [|n IH]; intros B i; cbn [firstn].
  - cbn [getb]. change (N.of_nat 0) with 0. replace (i <? 0) with false by lia. reflexivity.
  - destruct B as [|b t]; cbn [getb]; [destruct (i <? N.of_nat (S n)); reflexivity|].
    destruct (N.eqb_spec i 0) as [->|Hi].
    + replace (0 <? N.of_nat (S n)) with true by lia. reflexivity.
    + rewrite IH. replace (i - 1 <? N.of_nat n) with (i <? N.of_nat (S n)) by lia. reflexivity.
Qed.

Lemma getb_map f B i : getb (map f B) i = option_map f (getb B i).
Proof.
  revert i. induction B as [|b t IH]; intros i; cbn [map getb]; [reflexivity|].
  destruct (i =? 0); [reflexivity|apply IH].
Qed.

Lemma getb_None B i : lenB B <= i -> getb B i = None.
Proof.
  unfold lenB. revert i. induction B as [|b t IH]; intros i H; cbn [getb length] in *; [reflexivity|].
  destruct (N.eqb_spec i 0) as [->|Hi]; [lia|]. apply IH. lia.
Qed.

Lemma getb_Some_lt B i x : getb B i = Some x -> i < lenB B.
Proof.
  intros H. destruct (N.lt_ge_cases i (lenB B)) as [Hl|Hl]; [exact Hl|].
  rewrite getb_None in H by exact Hl. discriminate.
Qed.

Lemma getb_lt_Some B i : i < lenB B -> exists x, getb B i = Some x.
Proof.
  unfold lenB. revert i. induction B as [|b t IH]; intros i H; cbn [getb length] in *; [lia|].
  destruct (N.eqb_spec i 0) as [->|Hi]; [eexists; reflexivity|]. apply IH. lia.
Qed.

Lemma getb_bits_n n w j : getb (bits_n n w) j = if j <? N.of_nat n then Some (N.testbit w j) else None.
Proof.
  revert j. induction n as [|n IH]; intros j.
  - cbn [bits_n seq map getb]. change (N.of_nat 0) with 0. replace (j <? 0) with false by lia. reflexivity.
  - unfold bits_n. rewrite seq_S, map_app. fold (bits_n n w). rewrite getb_app. unfold lenB.
    rewrite bits_n_length. rewrite IH. cbn [map getb]. change (N.of_nat (0 + n)) with (N.of_nat n).
    destruct (N.ltb_spec j (N.of_nat n)) as [H|H].
    + replace (j <? N.of_nat (S n)) with true by lia. reflexivity.
    + destruct (N.eqb_spec (j - N.of_nat n) 0) as [E|E].
      * replace (j <? N.of_nat (S n)) with true by lia. f_equal. f_equal. lia.
      * replace (j <? N.of_nat (S n)) with false by lia. reflexivity.
Qed.

Lemma getb_wbits w j : getb (wbits w) j = if j <? 64 then Some (N.testbit w j) else None.
Proof. rewrite wbits_bits_n. apply getb_bits_n. Qed.

Lemma getb_bits_of_words ws p :
  getb (bits_of_words ws) p = option_map (fun w => N.testbit w (p mod 64)) (nthN ws (p / 64)).
Proof.
  unfold bits_of_words. revert p. induction ws as [|w t IH]; intros p; cbn [flat_map nthN]; [reflexivity|].
  rewrite getb_app. unfold lenB. rewrite wbits_length. change (N.of_nat 64) with 64.
  destruct (N.ltb_spec p 64) as [H|H].
  - rewrite getb_wbits. replace (p <? 64) with true by lia.
    replace (p / 64 =? 0) with true by lia. cbn [option_map]. f_equal. f_equal. lia.
  - replace (p / 64 =? 0) with false by lia. rewrite IH.
    replace ((p - 64) / 64) with (p / 64 - 1) by lia. replace ((p - 64) mod 64) with (p mod 64) by lia.
    reflexivity.
Qed.

Lemma bitB_lt B p : bitB B p = true -> p < lenB B.
Proof. unfold bitB. destruct (getb B p) eqn:E; [intros _; eapply getb_Some_lt; eauto|discriminate]. Qed.

Lemma bitB_ge B p : lenB B <= p -> bitB B p = false.
Proof. intros H. unfold bitB. rewrite getb_None by exact H. reflexivity. Qed.

Lemma bitB_bits_of len ws p : bitB (bits_of len ws) p = (p <? len) && bit ws p.
Proof.
  unfold bitB, bits_of. rewrite getb_firstn, N2Nat.id.
  destruct (N.ltb_spec p len) as [H|H]; [|reflexivity]. cbn [andb].
  rewrite getb_bits_of_words. unfold bit, getw.
  destruct (nthN ws (p / 64)); cbn [option_map]; [reflexivity|]. symmetry. apply N.bits_0.
Qed.

Lemma bitB_map_negb B p : bitB (map negb B) p = (p <? lenB B) && negb (bitB B p).
Proof.
  unfold bitB. rewrite getb_map.
  destruct (N.ltb_spec p (lenB B)) as [H|H].
  - destruct (getb_lt_Some B p H) as [x ->]. reflexivity.
  - rewrite getb_None by exact H. reflexivity.
Qed.

Lemma lenB_map f B : lenB (map f B) = lenB B.
Proof. unfold lenB. rewrite map_length. reflexivity. Qed.

Lemma count_map_negb B : count (map negb B) = lenB B - count B.
Proof.
  unfold lenB. induction B as [|b t IH]; cbn [map count length]; [reflexivity|].
  pose proof (count_le_length t). rewrite IH. destruct b; cbn [negb b2n]; lia.
Qed.

(* ---- rank1 ---- *)

Lemma rank1_0 B : rank1 B 0 = 0.
Proof. destruct B; reflexivity. Qed.

Lemma rank1_succ B i : rank1 B (i + 1) = rank1 B i + b2n (bitB B i).
Proof.
  unfold bitB. revert i. induction B as [|b t IH]; intros i; cbn [rank1 getb]; [reflexivity|].
  replace (i + 1 =? 0) with false by lia.
  destruct (N.eqb_spec i 0) as [->|Hi].
  - replace (0 + 1 - 1) with 0 by lia. rewrite rank1_0. lia.
  - replace (i + 1 - 1) with (i - 1 + 1) by lia. rewrite IH. lia.
Qed.

Lemma rank1_mono B i j : i <= j -> rank1 B i <= rank1 B j.
Proof.
  intros H. replace j with (i + (j - i)) by lia. generalize (j - i) as d. clear H j.
  intros d. induction d as [|d IH] using N.peano_ind; [rewrite N.add_0_r; lia|].
  replace (i + N.succ d) with (i + d + 1) by lia. rewrite rank1_succ. lia.
Qed.

Lemma rank1_no_ones B a b :
  a <= b -> (forall p, a <= p < b -> bitB B p = false) -> rank1 B b = rank1 B a.
Proof.
  intros H. replace b with (a + (b - a)) by lia. generalize (b - a) as d. clear H b.
  intros d. induction d as [|d IH] using N.peano_ind; intros Hz; [rewrite N.add_0_r; reflexivity|].
  replace (a + N.succ d) with (a + d + 1) by lia. rewrite rank1_succ, IH.
  - rewrite Hz by lia. cbn [b2n]. lia.
  - intros p Hp. apply Hz. lia.
Qed.

Lemma rank1_set_lt B p : bitB B p = true -> rank1 B p < count B.
Proof.
  intros H. pose proof (rank1_succ B p) as E. rewrite H in E. cbn [b2n] in E.
  pose proof (rank1_le B (p + 1)). lia.
Qed.

Lemma rank1_lt_count_lt B i : rank1 B i < count B -> i < lenB B.
Proof.
  intros H. destruct (N.lt_ge_cases i (lenB B)) as [Hl|Hl]; [exact Hl|].
  rewrite rank1_all in H by exact Hl. lia.
Qed.

(* ---- the rank/select characterisation of [ones] ---- *)

Lemma nth_opt_ones_from_char B pos r q :
  nth_opt (ones_from B pos) r = Some q <->
  exists p, q = pos + p /\ bitB B p = true /\ rank1 B p = r.
Proof.
  unfold bitB. revert pos r. induction B as [|b t IH]; intros pos r; cbn [ones_from].
  - cbn [nth_opt getb]. split; [discriminate|]. intros (p & _ & H & _). discriminate.
  - destruct b.
    + cbn [nth_opt]. destruct (N.eqb_spec r 0) as [->|Hr].
      * split.
        -- intros H. inversion H; subst. exists 0. cbn [getb rank1]. replace (0 =? 0) with true by lia.
           split; [lia|split; reflexivity].
        -- intros (p & -> & Hb & Hr). cbn [getb rank1] in *.
           destruct (N.eqb_spec p 0) as [->|Hp]; [f_equal; lia|]. cbn [b2n] in Hr. lia.
      * rewrite IH. split.
        -- intros (p & -> & Hb & Hrk). exists (p + 1). cbn [getb rank1].
           replace (p + 1 =? 0) with false by lia. replace (p + 1 - 1) with p by lia.
           split; [lia|]. split; [exact Hb|]. cbn [b2n]. lia.
        -- intros (p & -> & Hb & Hrk). cbn [getb rank1] in *.
           destruct (N.eqb_spec p 0) as [->|Hp]; [lia|]. exists (p - 1).
           split; [lia|]. split; [exact Hb|]. cbn [b2n] in Hrk. lia.
    + rewrite IH. split.
      * intros (p & -> & Hb & Hrk). exists (p + 1). cbn [getb rank1].
        replace (p + 1 =? 0) with false by lia. replace (p + 1 - 1) with p by lia.
        split; [lia|]. split; [exact Hb|]. cbn [b2n]. lia.
      * intros (p & -> & Hb & Hrk). cbn [getb rank1] in *.
        destruct (N.eqb_spec p 0) as [->|Hp]; [discriminate|]. exists (p - 1).
        split; [lia|]. split; [exact Hb|]. cbn [b2n] in Hrk. lia.
Qed.

(* position p holds the set bit of rank r  <->  bit p is set and r set bits precede it *)
Lemma nth_opt_ones_char B r p :
  nth_opt (ones B) r = Some p <-> bitB B p = true /\ rank1 B p = r.
Proof.
  unfold ones. rewrite nth_opt_ones_from_char. split.
  - intros (q & -> & H). rewrite N.add_0_l. exact H.
  - intros H. exists p. split; [lia|exact H].
Qed.

Lemma nth_opt_None {A} (l : list A) i : lenN l <= i -> nth_opt l i = None.
Proof.
  unfold lenN. revert i. induction l as [|x t IH]; intros i H; cbn [nth_opt length] in *; [reflexivity|].
  destruct (N.eqb_spec i 0) as [->|Hi]; [lia|]. apply IH. lia.
Qed.

Lemma nth_opt_lt_Some {A} (l : list A) i : i < lenN l -> exists x, nth_opt l i = Some x.
Proof.
  unfold lenN. revert i. induction l as [|x t IH]; intros i H; cbn [nth_opt length] in *; [lia|].
  destruct (N.eqb_spec i 0) as [->|Hi]; [eexists; reflexivity|]. apply IH. lia.
Qed.

Lemma nth_opt_Some_lt {A} (l : list A) i x : nth_opt l i = Some x -> i < lenN l.
Proof.
  intros H. destruct (N.lt_ge_cases i (lenN l)) as [Hl|Hl]; [exact Hl|].
  rewrite nth_opt_None in H by exact Hl. discriminate.
Qed.

Lemma lenN_ones B : lenN (ones B) = count B.
Proof. unfold lenN, ones. apply ones_from_length. Qed.

(* every rank below the number of ones is selected by exactly one position *)
Lemma select_exists B r : r < count B ->
  exists p, nth_opt (ones B) r = Some p /\ bitB B p = true /\ rank1 B p = r /\ p < lenB B.
Proof.
  intros H. destruct (nth_opt_lt_Some (ones B) r) as [p Hp]; [rewrite lenN_ones; exact H|].
  exists p. split; [exact Hp|]. apply nth_opt_ones_char in Hp. destruct Hp as [Hb Hr].
  split; [exact Hb|]. split; [exact Hr|]. apply bitB_lt. exact Hb.
Qed.

Lemma select_none B r : count B <= r -> nth_opt (ones B) r = None.
Proof. intros H. apply nth_opt_None. rewrite lenN_ones. exact H. Qed.

(* ---- list toolkit: nth_opt / skipN / index_from / firstn ---- *)

Lemma nth_opt_ext {A} (l1 l2 : list A) : (forall i, nth_opt l1 i = nth_opt l2 i) -> l1 = l2.
Proof.
  revert l2. induction l1 as [|x t IH]; intros l2 H.
  - destruct l2 as [|y u]; [reflexivity|]. specialize (H 0). discriminate.
  - destruct l2 as [|y u]; [specialize (H 0); discriminate|].
    pose proof (H 0) as H0. cbn [nth_opt] in H0. replace (0 =? 0) with true in H0 by lia.
    inversion H0; subst. f_equal. apply IH. intros i. specialize (H (i + 1)). cbn [nth_opt] in H.
    replace (i + 1 =? 0) with false in H by lia. replace (i + 1 - 1) with i in H by lia. exact H.
Qed.

Lemma nth_opt_cons {A} (x : A) t i : nth_opt (x :: t) (i + 1) = nth_opt t i.
Proof. cbn [nth_opt]. replace (i + 1 =? 0) with false by lia. f_equal. lia. Qed.

Lemma nth_opt_tl {A} (l : list A) i : nth_opt (tl l) i = nth_opt l (i + 1).
Proof. destruct l as [|x t]; [reflexivity|]. cbn [tl]. rewrite nth_opt_cons. reflexivity. Qed.

Lemma nth_opt_hd {A} (l : list A) : hd_error l = nth_opt l 0.
Proof. destruct l; reflexivity. Qed.

Lemma nth_opt_skipN {A} (l : list A) n i : nth_opt (skipN l n) i = nth_opt l (n + i).
Proof.
  revert n. induction l as [|x t IH]; intros n; cbn [skipN]; [reflexivity|].
  destruct (N.eqb_spec n 0) as [->|Hn]; [f_equal; lia|].
  rewrite IH. cbn [nth_opt]. replace (n + i =? 0) with false by lia. f_equal. lia.
Qed.

Lemma nth_opt_firstn {A} k (l : list A) i :
  nth_opt (firstn k l) i = if i <? N.of_nat k then nth_opt l i else None.
Proof.
  revert l i. induction k as [|k IH]; intros l i; cbn [firstn].
  - cbn [nth_opt]. change (N.of_nat 0) with 0. replace (i <? 0) with false by lia. reflexivity.
  - destruct l as [|x t]; cbn [nth_opt]; [destruct (i <? N.of_nat (S k)); reflexivity|].
    destruct (N.eqb_spec i 0) as [->|Hi].
    + replace (0 <? N.of_nat (S k)) with true by lia. reflexivity.
    + rewrite IH. replace (i - 1 <? N.of_nat k) with (i <? N.of_nat (S k)) by lia. reflexivity.
Qed.

Lemma nth_opt_index_from {A} (l : list A) s i :
  nth_opt (index_from l s) i = option_map (fun x => (s + i, x)) (nth_opt l i).
Proof.
  revert s i. induction l as [|x t IH]; intros s i; cbn [index_from nth_opt]; [reflexivity|].
  destruct (N.eqb_spec i 0) as [->|Hi]; [cbn [option_map]; do 2 f_equal; lia|].
  rewrite IH. destruct (nth_opt t (i - 1)); cbn [option_map]; [do 2 f_equal; lia|reflexivity].
Qed.

Lemma lenN_nth_opt {A} (l : list A) n : (forall i, nth_opt l i = None <-> n <= i) -> lenN l = n.
Proof.
  intros H. destruct (N.lt_trichotomy (lenN l) n) as [Hl|[Hl|Hl]]; [|exact Hl|].
  - pose proof (nth_opt_None l (lenN l) (N.le_refl _)) as E. apply H in E. lia.
  - destruct (nth_opt_lt_Some l n Hl) as [x Hx]. assert (E : nth_opt l n = None) by (apply H; lia).
    congruence.
Qed.

Lemma lenN_app {A} (l1 l2 : list A) : lenN (l1 ++ l2) = lenN l1 + lenN l2.
Proof. unfold lenN. rewrite app_length. lia. Qed.

Lemma lenN_index_from {A} (l : list A) s : lenN (index_from l s) = lenN l.
Proof. unfold lenN. revert s. induction l as [|x t IH]; intros s; cbn [index_from length]; [reflexivity|]. specialize (IH (s + 1)). lia. Qed.

Lemma lenN_skipN {A} (l : list A) n : lenN (skipN l n) = lenN l - n.
Proof.
  unfold lenN. revert n. induction l as [|x t IH]; intros n; cbn [skipN length]; [reflexivity|].
  destruct (N.eqb_spec n 0) as [->|Hn]; [cbn [length]; lia|]. rewrite IH. lia.
Qed.

Lemma lenN_firstn {A} k (l : list A) : lenN (firstn k l) = N.min (N.of_nat k) (lenN l).
Proof. unfold lenN. rewrite firstn_length. lia. Qed.

(* ================================================================ (A) the word-level view *)

Lemma bits_of_words_length ws : lenB (bits_of_words ws) = 64 * lenN ws.
Proof.
  unfold lenB, lenN, bits_of_words. induction ws as [|w t IH]; cbn [flat_map length]; [reflexivity|].
  rewrite app_length, wbits_length. lia.
Qed.

Lemma lenB_bits_of len ws : lenB (bits_of len ws) = N.min len (64 * lenN ws).
Proof.
  unfold bits_of. pose proof (bits_of_words_length ws) as H. unfold lenB in *. rewrite firstn_length. lia.
Qed.

(* number of 64-bit words of a sequence *)
Definition nwords (B : list bool) : N := (lenB B + 63) / 64.

Lemma repr_facts b B : bv_repr b B ->
  lenB B = bv_len b /\ bv_len b < 2 ^ 64 /\ lenN (rdata (bv_data b)) = nwords B /\
  wf (rdata (bv_data b)) /\ (forall p, bitB B p = bit (rdata (bv_data b)) p) /\ bv_ones b = count B.
Proof.
  intros (Hwf & HB & Hones). destruct Hwf as (Hlen & Hw & Hz & Hlt). unfold bv_len in *.
  assert (HL : lenB B = rlen (bv_data b)) by (rewrite HB, lenB_bits_of; lia).
  split; [exact HL|]. split; [exact Hlt|]. split; [unfold nwords; rewrite HL; exact Hlen|].
  split; [exact Hw|]. split; [|exact Hones].
  intros p. rewrite HB at 1. rewrite bitB_bits_of.
  destruct (N.ltb_spec p (rlen (bv_data b))) as [H|H]; [reflexivity|]. rewrite Hz by exact H. reflexivity.
Qed.

Lemma t_bits_len t B : lenB (t_bits t B) = lenB B.
Proof. destruct t; [reflexivity|apply lenB_map]. Qed.

Lemma t_count_ones_spec t b B : bv_repr b B -> t_count_ones t b = count (t_bits t B).
Proof.
  intros H. destruct (repr_facts b B H) as (HL & _ & _ & _ & _ & Ho).
  destruct t; cbn [t_count_ones t_bits]; unfold bv_count_ones, bv_count_zeros.
  - exact Ho.
  - rewrite count_map_negb, HL, Ho. reflexivity.
Qed.

Lemma testbit_wnot x j : N.testbit (wnot x) j = xorb (N.testbit x j) (j <? 64).
Proof. unfold wnot. rewrite N.lxor_spec, testbit_ones. reflexivity. Qed.

Lemma wnot_lt x : x < 2 ^ 64 -> wnot x < 2 ^ 64.
Proof.
  intros H. apply lt_pow2_of_bits. intros k Hk. rewrite testbit_wnot, (testbit_high x k H Hk).
  replace (k <? 64) with false by lia. reflexivity.
Qed.

(* w holds the bits lo..hi-1 of word k of B (false elsewhere) *)
Definition wseg (B : list bool) (k lo hi w : N) : Prop :=
  w < 2 ^ 64 /\ forall j, j < 64 -> N.testbit w j = (lo <=? j) && (j <? hi) && bitB B (64 * k + j).

Lemma bit_word ws k j : j < 64 -> bit ws (64 * k + j) = N.testbit (getw ws k) j.
Proof.
  intros H. unfold bit. replace ((64 * k + j) / 64) with k by lia.
  replace ((64 * k + j) mod 64) with j by lia. reflexivity.
Qed.

(* A: the word read by the iterator and by the select scan is word k of the transformed sequence,
   padded with false; beyond the last word the unchecked access leaves the buffer *)
Theorem t_word_view t b B k : bv_repr b B -> k < nwords B ->
  exists w, t_word_unchecked t b k = Ok w /\ wseg (t_bits t B) k 0 64 w.
Proof.
  intros Hrep Hk. destruct (repr_facts b B Hrep) as (HL & Hlt & Hnw & Hwf & Hbit & _).
  assert (Hkl : k < lenN (rdata (bv_data b))) by (rewrite Hnw; exact Hk).
  destruct (nthN_lt_Some _ _ Hkl) as [w0 Hw0].
  assert (Hw0lt : w0 < 2 ^ 64) by (eapply wf_nthN; eauto).
  assert (Hg : getw (rdata (bv_data b)) k = w0) by (unfold getw; rewrite Hw0; reflexivity).
  assert (Hraw : raw_word_unchecked (bv_data b) k = Ok w0).
  { unfold raw_word_unchecked, idx_unchecked. rewrite Hw0. reflexivity. }
  destruct t; cbn [t_word_unchecked t_bits].
  - exists w0. split; [exact Hraw|]. split; [exact Hw0lt|]. intros j Hj.
    rewrite Hbit, bit_word, Hg by exact Hj. replace (0 <=? j) with true by lia.
    replace (j <? 64) with true by lia. reflexivity.
  - rewrite split_offset_spec, Hraw. cbn [bind]. unfold nwords in Hk. rewrite HL in Hk.
    destruct (N.leb_spec (bv_len b / 64) k) as [Hlast|Hlast].
    + rewrite low_set_unchecked_ok by lia. cbn [bind]. eexists. split; [reflexivity|]. split.
      * apply lt_pow2_of_bits. intros j Hj. rewrite N.land_spec, testbit_ones.
        replace (j <? bv_len b mod 64) with false by lia. apply andb_false_r.
      * intros j Hj. rewrite N.land_spec, testbit_ones, testbit_wnot, bitB_map_negb, Hbit, bit_word, Hg, HL by exact Hj.
        replace (0 <=? j) with true by lia. replace (j <? 64) with true by lia. cbn [andb].
        destruct (N.ltb_spec j (bv_len b mod 64)).
        -- replace (64 * k + j <? bv_len b) with true by lia. rewrite andb_true_r. cbn [andb].
           destruct (N.testbit w0 j); reflexivity.
        -- replace (64 * k + j <? bv_len b) with false by lia. rewrite andb_false_r. reflexivity.
    + eexists. split; [reflexivity|]. split; [apply wnot_lt; exact Hw0lt|].
      intros j Hj. rewrite testbit_wnot, bitB_map_negb, Hbit, bit_word, Hg, HL by exact Hj.
      replace (0 <=? j) with true by lia. replace (j <? 64) with true by lia.
      replace (64 * k + j <? bv_len b) with true by lia. cbn [andb]. destruct (N.testbit w0 j); reflexivity.
Qed.

Theorem t_word_oob t b B k : bv_repr b B -> nwords B <= k -> t_word_unchecked t b k = OOB SITE_RAW_WORD.
Proof.
  intros Hrep Hk. destruct (repr_facts b B Hrep) as (_ & _ & Hnw & _).
  assert (Hraw : raw_word_unchecked (bv_data b) k = OOB SITE_RAW_WORD).
  { unfold raw_word_unchecked, idx_unchecked.
    assert (E : nthN (rdata (bv_data b)) k = None) by (apply nthN_None_ge; rewrite Hnw; exact Hk).
    rewrite E. reflexivity. }
  destruct t; cbn [t_word_unchecked]; [exact Hraw|].
  rewrite split_offset_spec, Hraw. reflexivity.
Qed.

(* the same fact in list form: the 64 bits of the word are bits 64k .. 64k+63 of the sequence *)
Lemma wseg_full_wbits B k w : wseg B k 0 64 w ->
  wbits w = map (fun j => bitB B (64 * k + N.of_nat j)) (seq 0 64).
Proof.
  intros [_ H]. unfold wbits. apply map_ext_in. intros j Hj. apply in_seq in Hj.
  rewrite H by lia. replace (0 <=? N.of_nat j) with true by lia.
  replace (N.of_nat j <? 64) with true by lia. reflexivity.
Qed.

Lemma wseg_mask_low B k lo hi w off : wseg B k lo hi w -> off <= 64 ->
  wseg B k (N.max lo off) hi (N.land w (wnot (N.ones off))).
Proof.
  intros [Hlt H] Hoff. split.
  - apply lt_pow2_of_bits. intros j Hj. rewrite N.land_spec, (testbit_high w j Hlt Hj). reflexivity.
  - intros j Hj. rewrite N.land_spec, testbit_wnot, testbit_ones, H by exact Hj.
    replace (j <? 64) with true by lia.
    destruct (N.ltb_spec j off); destruct (N.leb_spec lo j); destruct (N.leb_spec (N.max lo off) j);
      try lia; cbn [andb xorb]; rewrite ?andb_false_r, ?andb_true_r; reflexivity.
Qed.

Lemma wseg_mask_high B k lo hi w off : wseg B k lo hi w -> off <= 64 ->
  wseg B k lo (N.min hi off) (N.land w (N.ones off)).
Proof.
  intros [Hlt H] Hoff. split.
  - apply lt_pow2_of_bits. intros j Hj. rewrite N.land_spec, (testbit_high w j Hlt Hj). reflexivity.
  - intros j Hj. rewrite N.land_spec, testbit_ones, H by exact Hj.
    destruct (N.ltb_spec j off); destruct (N.ltb_spec j hi); destruct (N.ltb_spec j (N.min hi off));
      try lia; cbn [andb]; rewrite ?andb_false_r, ?andb_true_r; reflexivity.
Qed.

(* counting inside a word segment *)
Lemma bits_n_snoc n w : bits_n (S n) w = bits_n n w ++ [N.testbit w (N.of_nat n)].
Proof. unfold bits_n. rewrite seq_S, map_app. reflexivity. Qed.

Lemma wseg_rank B k lo hi w : wseg B k lo hi w -> lo <= hi <= 64 -> forall n, (n <= 64)%nat ->
  rank1 B (64 * k + N.max lo (N.min (N.of_nat n) hi)) = rank1 B (64 * k + lo) + count (bits_n n w).
Proof.
  intros [Hlt H] Hb n. induction n as [|n IH]; intros Hn.
  - change (N.of_nat 0) with 0. replace (N.max lo (N.min 0 hi)) with lo by lia.
    cbn [bits_n seq map count]. lia.
  - rewrite bits_n_snoc, count_app. cbn [count]. rewrite N.add_0_r, N.add_assoc, <- IH by lia.
    rewrite H by lia.
    destruct (N.leb_spec lo (N.of_nat n)) as [H1|H1]; destruct (N.ltb_spec (N.of_nat n) hi) as [H2|H2]; cbn [andb b2n].
    + replace (N.max lo (N.min (N.of_nat (S n)) hi)) with (N.of_nat n + 1) by lia.
      replace (N.max lo (N.min (N.of_nat n) hi)) with (N.of_nat n) by lia.
      rewrite N.add_assoc, rank1_succ. reflexivity.
    + replace (N.max lo (N.min (N.of_nat (S n)) hi)) with (N.max lo (N.min (N.of_nat n) hi)) by lia. lia.
    + replace (N.max lo (N.min (N.of_nat (S n)) hi)) with (N.max lo (N.min (N.of_nat n) hi)) by lia. lia.
    + replace (N.max lo (N.min (N.of_nat (S n)) hi)) with (N.max lo (N.min (N.of_nat n) hi)) by lia. lia.
Qed.

Lemma wseg_popcount B k lo hi w : wseg B k lo hi w -> lo <= hi <= 64 ->
  rank1 B (64 * k + hi) = rank1 B (64 * k + lo) + popcount w.
Proof.
  intros Hs Hb. pose proof (wseg_rank B k lo hi w Hs Hb 64%nat (le_n _)) as E.
  change (N.of_nat 64) with 64 in E. replace (N.max lo (N.min 64 hi)) with hi in E by lia.
  rewrite popcount_wbits by apply Hs. rewrite wbits_bits_n. exact E.
Qed.

(* rank of a position inside a plain word (used through select_in_word) *)
Lemma bitB_wbits w j : bitB (wbits w) j = (j <? 64) && N.testbit w j.
Proof. unfold bitB. rewrite getb_wbits. destruct (j <? 64); reflexivity. Qed.

Lemma rank1_wbits w p : w < 2 ^ 64 -> p <= 64 -> rank1 (wbits w) p = count (bits_n (N.to_nat p) w).
Proof.
  intros Hw Hp. assert (Hs : wseg (wbits w) 0 0 64 w).
  { split; [exact Hw|]. intros j Hj. rewrite bitB_wbits. replace (64 * 0 + j) with j by lia.
    replace (0 <=? j) with true by lia. replace (j <? 64) with true by lia. reflexivity. }
  assert (Hb : 0 <= 64 <= 64) by lia. assert (Hn : (N.to_nat p <= 64)%nat) by lia.
  pose proof (wseg_rank _ _ _ _ _ Hs Hb (N.to_nat p) Hn) as E.
  rewrite N2Nat.id, rank1_0 in E. replace (64 * 0 + N.max 0 (N.min p 64)) with p in E by lia. lia.
Qed.

Lemma select_in_word_unfold w r : select_in_word w r = nth_opt (ones (wbits w)) r.
Proof. reflexivity. Qed.

(* in-word select read against the sequence: the selected offset is a set bit of the segment and
   exactly r set bits of the segment precede it *)
Lemma wseg_select B k lo hi w r p : wseg B k lo hi w -> lo <= hi <= 64 ->
  select_in_word w r = Some p ->
  lo <= p < hi /\ bitB B (64 * k + p) = true /\ rank1 B (64 * k + p) = rank1 B (64 * k + lo) + r.
Proof.
  intros Hs Hb Hsel. pose proof Hs as [Hlt H]. rewrite select_in_word_unfold in Hsel.
  apply nth_opt_ones_char in Hsel. destruct Hsel as [Hbit Hrk]. rewrite bitB_wbits in Hbit.
  destruct (N.ltb_spec p 64) as [Hp|Hp]; [|discriminate]. cbn [andb] in Hbit.
  rewrite H in Hbit by exact Hp.
  destruct (N.leb_spec lo p) as [H1|H1]; [|discriminate].
  destruct (N.ltb_spec p hi) as [H2|H2]; [|discriminate]. cbn [andb] in Hbit.
  split; [lia|]. split; [exact Hbit|].
  rewrite rank1_wbits in Hrk by lia.
  assert (Hn : (N.to_nat p <= 64)%nat) by lia.
  pose proof (wseg_rank B k lo hi w Hs Hb (N.to_nat p) Hn) as E.
  rewrite N2Nat.id in E. replace (N.max lo (N.min p hi)) with p in E by lia. lia.
Qed.

Lemma word_select_correct sp m w r : w < 2 ^ 64 -> r < popcount w ->
  exists p, word_select sp m w r = Ok p /\ select_in_word w r = Some p /\ p < 64.
Proof. intros Hw Hr. destruct sp; [apply select_pdep_correct|apply select_portable_correct]; assumption. Qed.

(* ---- intrinsics on a nonzero word ---- *)

Lemma tz_spec w : w <> 0 ->
  N.testbit w (trailing_zeros w) = true /\ forall j, j < trailing_zeros w -> N.testbit w j = false.
Proof.
  destruct w as [|q]; [intros H; contradiction|]. intros _. cbn [trailing_zeros].
  induction q as [q IH|q IH|]; cbn [ctz_pos].
  - split; [reflexivity|]. intros j Hj. lia.
  - destruct IH as [IH1 IH2]. change (N.pos q~0) with (2 * N.pos q). split.
    + rewrite N.add_1_l, N.testbit_even_succ by lia. exact IH1.
    + intros j Hj. destruct (N.eq_dec j 0) as [->|Hn]; [apply N.testbit_even_0|].
      replace j with (N.succ (j - 1)) by lia. rewrite N.testbit_even_succ by lia. apply IH2. lia.
  - split; [reflexivity|]. intros j Hj. lia.
Qed.

Lemma lz_spec w : 0 < w < 2 ^ 64 -> bits_WORD_BITS - 1 - leading_zeros w = N.log2 w /\ N.log2 w < 64.
Proof.
  intros [H0 H1]. unfold leading_zeros. change bits_WORD_BITS with 64.
  rewrite N.size_log2 by lia. assert (N.log2 w < 64) by (apply N.log2_lt_pow2; lia). lia.
Qed.

Lemma bit_offset_spec i o : bit_offset i o = 64 * i + o.
Proof. unfold bit_offset. change bits_INDEX_SHIFT with 6. rewrite N.shiftl_mul_pow2. change (2 ^ 6) with 64. lia. Qed.

Lemma wseg_zero B k lo hi w : wseg B k lo hi w -> w = 0 -> hi <= 64 ->
  forall p, 64 * k + lo <= p < 64 * k + hi -> bitB B p = false.
Proof.
  intros [_ H] -> Hhi p Hp. specialize (H (p - 64 * k) ltac:(lia)). rewrite N.bits_0 in H.
  replace (64 * k + (p - 64 * k)) with p in H by lia.
  replace (lo <=? p - 64 * k) with true in H by lia. replace (p - 64 * k <? hi) with true in H by lia.
  cbn [andb] in H. congruence.
Qed.

Lemma nwords_lt B p : p < lenB B -> p / 64 < nwords B.
Proof. unfold nwords. lia. Qed.

Lemma scan_fuel_spec b B : bv_repr b B -> N.of_nat (scan_fuel b) = nwords B + 2.
Proof. intros H. destruct (repr_facts b B H) as (_ & _ & Hnw & _). unfold scan_fuel. unfold lenN in Hnw. lia. Qed.

(* ---- the three word scans: they stop inside the array, with fuel to spare ---- *)

Lemma scan_fwd_spec t b B : bv_repr b B -> forall fuel index lo w q,
  index < nwords B -> wseg (t_bits t B) index lo 64 w -> lo <= 64 ->
  bitB (t_bits t B) q = true -> 64 * index + lo <= q ->
  nwords B <= index + N.of_nat fuel ->
  exists index' w', scan_fwd t b fuel index w = Ok (index', w') /\
    bitB (t_bits t B) (bit_offset index' (trailing_zeros w')) = true /\
    rank1 (t_bits t B) (bit_offset index' (trailing_zeros w')) = rank1 (t_bits t B) (64 * index + lo).
Proof.
  intros Hrep. induction fuel as [|fuel IH]; intros index lo w q Hidx Hseg Hlo Hq Hle Hfuel; [lia|].
  cbn [scan_fwd]. destruct (N.eqb_spec w 0) as [Hw|Hw].
  - pose proof (wseg_zero _ _ _ _ _ Hseg Hw (N.le_refl _)) as Hz.
    assert (Hq' : 64 * (index + 1) <= q).
    { destruct (N.le_gt_cases (64 * (index + 1)) q) as [H|H]; [exact H|]. rewrite Hz in Hq by lia. discriminate. }
    assert (Hidx' : index + 1 < nwords B).
    { apply bitB_lt in Hq. rewrite t_bits_len in Hq. unfold nwords. lia. }
    destruct (t_word_view t b B (index + 1) Hrep Hidx') as (w1 & Hw1 & Hseg1).
    rewrite Hw1. cbn [bind].
    destruct (IH (index + 1) 0 w1 q Hidx' Hseg1 ltac:(lia) Hq ltac:(lia) ltac:(lia)) as (i' & w' & E & Hb & Hr).
    exists i', w'. split; [exact E|]. split; [exact Hb|]. rewrite Hr.
    apply rank1_no_ones; [lia|]. intros p Hp. apply Hz. lia.
  - exists index, w. split; [reflexivity|]. destruct (tz_spec w Hw) as [T1 T2].
    destruct Hseg as [Hlt Hbits].
    assert (Htz : trailing_zeros w < 64).
    { destruct (N.lt_ge_cases (trailing_zeros w) 64) as [H|H]; [exact H|].
      rewrite (testbit_high w _ Hlt H) in T1. discriminate. }
    rewrite bit_offset_spec. pose proof (Hbits _ Htz) as Hb. rewrite T1 in Hb.
    destruct (N.leb_spec lo (trailing_zeros w)) as [H1|H1]; [|discriminate].
    replace (trailing_zeros w <? 64) with true in Hb by lia. cbn [andb] in Hb.
    split; [congruence|]. apply rank1_no_ones; [lia|]. intros p Hp.
    specialize (Hbits (p - 64 * index) ltac:(lia)). rewrite T2 in Hbits by lia.
    replace (64 * index + (p - 64 * index)) with p in Hbits by lia.
    replace (lo <=? p - 64 * index) with true in Hbits by lia.
    replace (p - 64 * index <? 64) with true in Hbits by lia. cbn [andb] in Hbits. congruence.
Qed.

Lemma scan_bwd_spec m t b B : bv_repr b B -> forall fuel index hi w q,
  index < nwords B -> wseg (t_bits t B) index 0 hi w -> hi <= 64 ->
  bitB (t_bits t B) q = true -> q < 64 * index + hi ->
  index < N.of_nat fuel ->
  exists index' w', scan_bwd m t b fuel index w = Ok (index', w') /\
    let p := bit_offset index' (bits_WORD_BITS - 1 - leading_zeros w') in
    bitB (t_bits t B) p = true /\
    rank1 (t_bits t B) (p + 1) = rank1 (t_bits t B) (64 * index + hi).
Proof.
  intros Hrep. induction fuel as [|fuel IH]; intros index hi w q Hidx Hseg Hhi Hq Hlt Hfuel; [lia|].
  cbn [scan_bwd]. destruct (N.eqb_spec w 0) as [Hw|Hw].
  - pose proof (wseg_zero _ _ _ _ _ Hseg Hw Hhi) as Hz.
    assert (Hq' : q < 64 * index).
    { destruct (N.lt_ge_cases q (64 * index)) as [H|H]; [exact H|]. rewrite Hz in Hq by lia. discriminate. }
    assert (Hpos : 1 <= index) by lia.
    unfold usub. replace (1 <=? index) with true by lia. cbn [bind].
    assert (Hidx' : index - 1 < nwords B) by lia.
    destruct (t_word_view t b B (index - 1) Hrep Hidx') as (w1 & Hw1 & Hseg1).
    rewrite Hw1. cbn [bind].
    destruct (IH (index - 1) 64 w1 q Hidx' Hseg1 ltac:(lia) Hq ltac:(lia) ltac:(lia)) as (i' & w' & E & Hb & Hr).
    exists i', w'. split; [exact E|]. cbv zeta. split; [exact Hb|]. rewrite Hr.
    replace (64 * (index - 1) + 64) with (64 * index + 0) by lia.
    symmetry. apply rank1_no_ones; [lia|]. intros p Hp. apply Hz. lia.
  - exists index, w. split; [reflexivity|]. destruct Hseg as [Hwlt Hbits].
    destruct (lz_spec w ltac:(lia)) as [-> Hl]. cbv zeta. rewrite bit_offset_spec.
    pose proof (Hbits _ Hl) as Hb. rewrite N.bit_log2 in Hb by exact Hw.
    replace (0 <=? N.log2 w) with true in Hb by lia.
    destruct (N.ltb_spec (N.log2 w) hi) as [H1|H1]; [|discriminate]. cbn [andb] in Hb.
    split; [congruence|]. symmetry. apply rank1_no_ones; [lia|]. intros p Hp.
    specialize (Hbits (p - 64 * index) ltac:(lia)). rewrite N.bits_above_log2 in Hbits by lia.
    replace (64 * index + (p - 64 * index)) with p in Hbits by lia.
    replace (0 <=? p - 64 * index) with true in Hbits by lia.
    replace (p - 64 * index <? hi) with true in Hbits by lia. cbn [andb] in Hbits. congruence.
Qed.

Lemma scan_rank_spec t b B : bv_repr b B -> forall fuel index lo w rr,
  index < nwords B -> wseg (t_bits t B) index lo 64 w -> lo <= 64 ->
  rank1 (t_bits t B) (64 * index + lo) + rr < count (t_bits t B) ->
  nwords B <= index + N.of_nat fuel ->
  exists index' w' rr' lo', scan_rank t b fuel index w rr = Ok (index', w', rr') /\
    rr' < popcount w' /\ wseg (t_bits t B) index' lo' 64 w' /\ lo' <= 64 /\
    rank1 (t_bits t B) (64 * index' + lo') + rr' = rank1 (t_bits t B) (64 * index + lo) + rr.
Proof.
  intros Hrep. induction fuel as [|fuel IH]; intros index lo w rr Hidx Hseg Hlo Htgt Hfuel; [lia|].
  cbn [scan_rank]. pose proof (wseg_popcount _ _ _ _ _ Hseg ltac:(lia)) as Hpc.
  destruct (N.leb_spec (popcount w) rr) as [Hle|Hgt].
  - assert (Hidx' : index + 1 < nwords B).
    { assert (H : 64 * index + 64 < lenB (t_bits t B)) by (apply rank1_lt_count_lt; lia).
      rewrite t_bits_len in H. unfold nwords. lia. }
    destruct (t_word_view t b B (index + 1) Hrep Hidx') as (w1 & Hw1 & Hseg1).
    rewrite Hw1. cbn [bind].
    assert (E0 : 64 * (index + 1) + 0 = 64 * index + 64) by lia.
    destruct (IH (index + 1) 0 w1 (rr - popcount w) Hidx' Hseg1 ltac:(lia)) as (i' & w' & r' & lo' & E & H1 & H2 & H3 & H4);
      [rewrite E0; lia|lia|].
    exists i', w', r', lo'. split; [exact E|]. split; [exact H1|]. split; [exact H2|]. split; [exact H3|].
    rewrite H4, E0. lia.
  - exists index, w, rr, lo. split; [reflexivity|]. split; [exact Hgt|]. split; [exact Hseg|]. split; [exact Hlo|reflexivity].
Qed.

(* scan + in-word select: the position found is the set bit of the requested rank *)
Lemma scan_rank_select sp m t b B : bv_repr b B -> forall fuel index lo w rr,
  index < nwords B -> wseg (t_bits t B) index lo 64 w -> lo <= 64 ->
  rank1 (t_bits t B) (64 * index + lo) + rr < count (t_bits t B) ->
  nwords B <= index + N.of_nat fuel ->
  exists index' w' rr' off, scan_rank t b fuel index w rr = Ok (index', w', rr') /\
    word_select sp m w' rr' = Ok off /\
    bitB (t_bits t B) (bit_offset index' off) = true /\
    rank1 (t_bits t B) (bit_offset index' off) = rank1 (t_bits t B) (64 * index + lo) + rr.
Proof.
  intros Hrep fuel index lo w rr Hidx Hseg Hlo Htgt Hfuel.
  destruct (scan_rank_spec t b B Hrep fuel index lo w rr Hidx Hseg Hlo Htgt Hfuel)
    as (i' & w' & r' & lo' & E & H1 & H2 & H3 & H4).
  destruct (word_select_correct sp m w' r' (proj1 H2) H1) as (off & Hs & Hsw & Hoff).
  destruct (wseg_select _ _ _ _ _ _ _ H2 ltac:(lia) Hsw) as (_ & Hb & Hr).
  exists i', w', r', off. split; [exact E|]. split; [exact Hs|]. rewrite bit_offset_spec.
  split; [exact Hb|]. lia.
Qed.

(* ================================================================ (B) the iterator as a deque *)

(* items of ranks n0 .. l0-1 of a position list, with their ranks *)
Definition mid_of (P : list N) (n0 l0 : N) : list (N * N) :=
  firstn (N.to_nat (l0 - n0)) (skipN (index_from P 0) n0).

Lemma nth_opt_mid_of P n0 l0 i :
  nth_opt (mid_of P n0 l0) i =
  if i <? l0 - n0 then option_map (fun x => (n0 + i, x)) (nth_opt P (n0 + i)) else None.
Proof.
  unfold mid_of. rewrite nth_opt_firstn, N2Nat.id, nth_opt_skipN, nth_opt_index_from.
  destruct (i <? l0 - n0); [|reflexivity].
  destruct (nth_opt P (n0 + i)); cbn [option_map]; [do 2 f_equal; lia|reflexivity].
Qed.

Lemma mid_of_nil P n0 l0 : l0 <= n0 -> mid_of P n0 l0 = [].
Proof. intros H. unfold mid_of. replace (l0 - n0) with 0 by lia. reflexivity. Qed.

Lemma mid_of_tl P n0 l0 : tl (mid_of P n0 l0) = mid_of P (n0 + 1) l0.
Proof.
  apply nth_opt_ext. intros i. rewrite nth_opt_tl, !nth_opt_mid_of.
  replace (n0 + (i + 1)) with (n0 + 1 + i) by lia.
  destruct (N.ltb_spec (i + 1) (l0 - n0)); destruct (N.ltb_spec i (l0 - (n0 + 1))); try lia; reflexivity.
Qed.

Lemma mid_of_skip P n0 l0 k : skipN (mid_of P n0 l0) k = mid_of P (n0 + k) l0.
Proof.
  apply nth_opt_ext. intros i. rewrite nth_opt_skipN, !nth_opt_mid_of.
  replace (n0 + (k + i)) with (n0 + k + i) by lia.
  destruct (N.ltb_spec (k + i) (l0 - n0)); destruct (N.ltb_spec i (l0 - (n0 + k))); try lia; reflexivity.
Qed.

Lemma mid_of_len P n0 l0 : l0 <= lenN P -> lenN (mid_of P n0 l0) = l0 - n0.
Proof.
  intros H. unfold mid_of. rewrite lenN_firstn, N2Nat.id, lenN_skipN, lenN_index_from. lia.
Qed.

Lemma mid_of_all P n0 : mid_of P n0 (lenN P) = skipN (index_from P 0) n0.
Proof.
  unfold mid_of. apply firstn_all2.
  pose proof (lenN_skipN (index_from P 0) n0) as H. rewrite lenN_index_from in H. unfold lenN in *. lia.
Qed.

Lemma mid_of_last P n0 l0 x : n0 < l0 -> nth_opt P (l0 - 1) = Some x ->
  mid_of P n0 l0 = mid_of P n0 (l0 - 1) ++ [(l0 - 1, x)].
Proof.
  intros Hlt Hx. pose proof (nth_opt_Some_lt _ _ _ Hx) as Hlen.
  apply nth_opt_ext. intros i. rewrite nth_opt_app. fold (lenN (mid_of P n0 (l0 - 1))).
  rewrite mid_of_len by lia. rewrite !nth_opt_mid_of.
  destruct (N.ltb_spec i (l0 - 1 - n0)) as [H1|H1].
  - replace (i <? l0 - n0) with true by lia. reflexivity.
  - destruct (N.eq_dec i (l0 - 1 - n0)) as [->|Hne].
    + replace (l0 - 1 - n0 <? l0 - n0) with true by lia.
      replace (n0 + (l0 - 1 - n0)) with (l0 - 1) by lia. rewrite Hx.
      replace (l0 - 1 - n0 - (l0 - 1 - n0)) with 0 by lia. reflexivity.
    + replace (i <? l0 - n0) with false by lia. cbn [nth_opt].
      replace (i - (l0 - 1 - n0) =? 0) with false by lia. reflexivity.
Qed.

(* the ranked positions of the set bits of the transformed sequence *)
Definition oi_R (t : transf) (B : list bool) : list (N * N) := index_from (ones (t_bits t B)) 0.

(* abstraction function: the items the iterator has not visited, front to back *)
Definition oi_mid (t : transf) (B : list bool) (it : one_iter) : list (N * N) :=
  firstn (N.to_nat (fst (oi_limit it) - fst (oi_next it))) (skipN (oi_R t B) (fst (oi_next it))).

Lemma oi_mid_mid_of t B it :
  oi_mid t B it = mid_of (ones (t_bits t B)) (fst (oi_next it)) (fst (oi_limit it)).
Proof. reflexivity. Qed.

(* invariant: next.0 <= limit.0 <= number of ones, limit.1 <= len, and while items remain
   rank(next.1) = next.0 and rank(limit.1) = limit.0 *)
Definition oi_inv (t : transf) (B : list bool) (it : one_iter) : Prop :=
  fst (oi_next it) <= fst (oi_limit it) <= count (t_bits t B) /\
  snd (oi_limit it) <= lenB (t_bits t B) /\
  (fst (oi_next it) < fst (oi_limit it) ->
   rank1 (t_bits t B) (snd (oi_next it)) = fst (oi_next it) /\
   rank1 (t_bits t B) (snd (oi_limit it)) = fst (oi_limit it)).

(* the invariant in the words of the comments of the source: next.1 <= select(next.0) with no set bit
   in between; limit.1 > select(limit.0 - 1) with no set bit in between; limit.1 <= len *)
Lemma oi_inv_source_comments t B it : oi_inv t B it -> fst (oi_next it) < fst (oi_limit it) ->
  (exists p, nth_opt (ones (t_bits t B)) (fst (oi_next it)) = Some p /\ snd (oi_next it) <= p /\
             forall x, snd (oi_next it) <= x < p -> bitB (t_bits t B) x = false) /\
  (exists q, nth_opt (ones (t_bits t B)) (fst (oi_limit it) - 1) = Some q /\ q < snd (oi_limit it) /\
             forall x, q < x < snd (oi_limit it) -> bitB (t_bits t B) x = false) /\
  snd (oi_limit it) <= lenB (t_bits t B).
Proof.
  intros (Hb & Hl & Hg) Hne. destruct (Hg Hne) as [Hn1 Hl1]. set (B' := t_bits t B) in *.
  assert (Hmono : forall x y, rank1 B' x < rank1 B' y -> x < y).
  { intros x y H. destruct (N.lt_ge_cases x y) as [G|G]; [exact G|]. pose proof (rank1_mono B' y x G). lia. }
  split; [|split; [|exact Hl]].
  - destruct (select_exists B' (fst (oi_next it)) ltac:(lia)) as (p & Hp & Hbit & Hr & _).
    exists p. split; [exact Hp|].
    assert (Hle : snd (oi_next it) <= p).
    { destruct (N.le_gt_cases (snd (oi_next it)) p) as [G|G]; [exact G|].
      pose proof (rank1_mono B' (p + 1) (snd (oi_next it)) ltac:(lia)) as M.
      rewrite rank1_succ, Hbit in M. cbn [b2n] in M. lia. }
    split; [exact Hle|]. intros x Hx. destruct (bitB B' x) eqn:E; [|reflexivity].
    pose proof (rank1_mono B' (snd (oi_next it)) x ltac:(lia)) as M1.
    pose proof (rank1_mono B' (x + 1) p ltac:(lia)) as M2. rewrite rank1_succ, E in M2. cbn [b2n] in M2. lia.
  - destruct (select_exists B' (fst (oi_limit it) - 1) ltac:(lia)) as (q & Hq & Hbit & Hr & _).
    exists q. split; [exact Hq|].
    assert (Hlt : q < snd (oi_limit it)) by (apply Hmono; lia).
    split; [exact Hlt|]. intros x Hx. destruct (bitB B' x) eqn:E; [|reflexivity].
    pose proof (rank1_mono B' (q + 1) x ltac:(lia)) as M1. rewrite rank1_succ, Hbit in M1. cbn [b2n] in M1.
    pose proof (rank1_mono B' (x + 1) (snd (oi_limit it)) ltac:(lia)) as M2. rewrite rank1_succ, E in M2.
    cbn [b2n] in M2. lia.
Qed.

Lemma rank1_lt_pos B x y : rank1 B x < rank1 B y -> x < y.
Proof.
  intros H. destruct (N.lt_ge_cases x y) as [G|G]; [exact G|]. pose proof (rank1_mono B y x G). lia.
Qed.

Lemma rank1_full B : rank1 B (lenB B) = count B.
Proof. apply rank1_all. lia. Qed.

(* ---- starting points ---- *)

Lemma oi_start_inv t b B : bv_repr b B ->
  oi_inv t B (oi_start t b) /\ oi_mid t B (oi_start t b) = oi_R t B.
Proof.
  intros Hrep. pose proof (t_count_ones_spec t b B Hrep) as Hc.
  destruct (repr_facts b B Hrep) as (HL & _).
  unfold oi_start, oi_inv, oi_mid. cbn [oi_next oi_limit fst snd]. rewrite Hc, t_bits_len, HL.
  split.
  - split; [lia|]. split; [lia|]. intros _. split; [apply rank1_0|].
    rewrite <- HL, <- (t_bits_len t B). apply rank1_full.
  - rewrite N.sub_0_r. rewrite <- (lenN_ones (t_bits t B)). unfold oi_R.
    pose proof (mid_of_all (ones (t_bits t B)) 0) as E. unfold mid_of in E. rewrite N.sub_0_r in E.
    rewrite E. destruct (index_from (ones (t_bits t B)) 0); reflexivity.
Qed.

Lemma oi_empty_inv t b B : bv_repr b B ->
  oi_inv t B (oi_empty t b) /\ oi_mid t B (oi_empty t b) = [].
Proof.
  intros Hrep. pose proof (t_count_ones_spec t b B Hrep) as Hc.
  destruct (repr_facts b B Hrep) as (HL & _).
  unfold oi_empty, oi_inv, oi_mid. cbn [oi_next oi_limit fst snd]. rewrite Hc, t_bits_len, HL.
  split.
  - split; [lia|]. split; [lia|]. intros H. lia.
  - rewrite N.sub_diag. reflexivity.
Qed.

(* an iterator positioned by select_iter: next = (r, select r), limit = (count, len) *)
Lemma oi_at_inv t b B r p : bv_repr b B -> nth_opt (ones (t_bits t B)) r = Some p ->
  let it := mkoi (r, p) (t_count_ones t b, bv_len b) in
  oi_inv t B it /\ oi_mid t B it = skipN (oi_R t B) r.
Proof.
  intros Hrep Hp it. pose proof (t_count_ones_spec t b B Hrep) as Hc.
  destruct (repr_facts b B Hrep) as (HL & _).
  pose proof (nth_opt_Some_lt _ _ _ Hp) as Hr. rewrite lenN_ones in Hr.
  apply nth_opt_ones_char in Hp. destruct Hp as [Hbit Hrk].
  unfold it, oi_inv, oi_mid. cbn [oi_next oi_limit fst snd]. rewrite Hc, t_bits_len, HL. split.
  - split; [lia|]. split; [lia|]. intros _. split; [exact Hrk|].
    rewrite <- HL, <- (t_bits_len t B). apply rank1_full.
  - rewrite <- (lenN_ones (t_bits t B)). apply mid_of_all.
Qed.

(* ---- len ---- *)

Theorem oi_len_spec t B it : oi_inv t B it -> oi_len it = lenN (oi_mid t B it).
Proof.
  intros (Hb & _). rewrite oi_mid_mid_of, mid_of_len by (rewrite lenN_ones; lia). reflexivity.
Qed.

(* ---- next ---- *)

Theorem oi_next_spec t b B it : bv_repr b B -> oi_inv t B it ->
  exists it', oi_next_f t b it = Ok (it', hd_error (oi_mid t B it)) /\
              oi_inv t B it' /\ oi_mid t B it' = tl (oi_mid t B it).
Proof.
  intros Hrep Hinv. pose proof Hinv as (Hb & Hl & Hg). unfold oi_next_f.
  destruct it as [[n0 n1] [l0 l1]]. cbn [oi_next oi_limit fst snd] in *.
  rewrite !oi_mid_mid_of. cbn [oi_next oi_limit fst snd].
  destruct (N.leb_spec l0 n0) as [Hemp|Hne].
  - exists (mkoi (n0, n1) (l0, l1)). rewrite mid_of_nil by lia. split; [reflexivity|]. split; [exact Hinv|].
    rewrite oi_mid_mid_of. cbn [oi_next oi_limit fst snd]. rewrite mid_of_nil by lia. reflexivity.
  - destruct (Hg Hne) as [Hn1 Hl1]. set (B' := t_bits t B) in *.
    destruct (select_exists B' n0 ltac:(lia)) as (q & Hq & Hqbit & Hqr & Hqlen).
    assert (Hn1q : n1 <= q).
    { destruct (N.le_gt_cases n1 q) as [G|G]; [exact G|].
      pose proof (rank1_mono B' (q + 1) n1 ltac:(lia)) as M. rewrite rank1_succ, Hqbit in M. cbn [b2n] in M. lia. }
    rewrite split_offset_spec. unfold B' in Hqlen. rewrite t_bits_len in Hqlen.
    assert (Hidx : n1 / 64 < nwords B) by (apply nwords_lt; lia).
    destruct (t_word_view t b B _ Hrep Hidx) as (w0 & Hw0 & Hseg0). rewrite Hw0. cbn [bind].
    rewrite low_set_unchecked_ok by lia. cbn [bind].
    pose proof (wseg_mask_low _ _ _ _ _ (n1 mod 64) Hseg0 ltac:(lia)) as Hseg.
    replace (N.max 0 (n1 mod 64)) with (n1 mod 64) in Hseg by lia.
    destruct (scan_fwd_spec t b B Hrep (scan_fuel b) (n1 / 64) (n1 mod 64) _ q Hidx Hseg ltac:(lia) Hqbit ltac:(lia))
      as (i' & w' & E & Hpb & Hpr).
    { rewrite (scan_fuel_spec b B Hrep). lia. }
    rewrite E. cbn [bind fst snd].
    replace (64 * (n1 / 64) + n1 mod 64) with n1 in Hpr by lia. fold B' in Hpb, Hpr.
    set (p := bit_offset i' (trailing_zeros w')) in *.
    assert (Hp : nth_opt (ones B') n0 = Some p) by (apply nth_opt_ones_char; split; [exact Hpb|lia]).
    eexists. split; [|split].
    + f_equal. f_equal. rewrite nth_opt_hd, nth_opt_mid_of. replace (0 <? l0 - n0) with true by lia.
      rewrite N.add_0_r, Hp. reflexivity.
    + unfold oi_inv. cbn [oi_next oi_limit fst snd]. fold B'. split; [lia|]. split; [exact Hl|].
      intros _. split; [|exact Hl1]. rewrite rank1_succ, Hpb. cbn [b2n]. lia.
    + rewrite oi_mid_mid_of. cbn [oi_next oi_limit fst snd]. symmetry. apply mid_of_tl.
Qed.

(* the scan of next() never reports exhausted fuel, an overflow, or an access outside the words *)
Corollary oi_next_total t b B it : bv_repr b B -> oi_inv t B it -> is_ok (oi_next_f t b it) = true.
Proof. intros H1 H2. destruct (oi_next_spec t b B it H1 H2) as (it' & -> & _). reflexivity. Qed.

(* ---- nth ---- *)

Theorem oi_nth_spec sp m t b B it n : bv_repr b B -> oi_inv t B it ->
  exists it', oi_nth sp m t b it n = Ok (it', nth_opt (oi_mid t B it) n) /\
              oi_inv t B it' /\ oi_mid t B it' = skipN (oi_mid t B it) (n + 1).
Proof.
  intros Hrep Hinv. pose proof Hinv as (Hb & Hl & Hg). unfold oi_nth.
  destruct it as [[n0 n1] [l0 l1]]. cbn [oi_next oi_limit fst snd] in *.
  rewrite !oi_mid_mid_of. cbn [oi_next oi_limit fst snd].
  unfold usub. replace (n0 <=? l0) with true by lia. cbn [bind].
  rewrite mid_of_skip, nth_opt_mid_of.
  destruct (N.leb_spec (l0 - n0) n) as [Hemp|Hne].
  - replace (n <? l0 - n0) with false by lia.
    exists (mkoi (l0, l1) (l0, l1)). split; [reflexivity|]. split.
    + unfold oi_inv. cbn [oi_next oi_limit fst snd]. split; [lia|]. split; [exact Hl|]. intros H. lia.
    + rewrite oi_mid_mid_of. cbn [oi_next oi_limit fst snd]. rewrite !mid_of_nil by lia. reflexivity.
  - replace (n <? l0 - n0) with true by lia.
    destruct (Hg ltac:(lia)) as [Hn1 Hl1]. set (B' := t_bits t B) in *.
    assert (Hn1len : n1 < lenB B) by (rewrite <- (t_bits_len t B); apply rank1_lt_count_lt; fold B'; lia).
    rewrite split_offset_spec.
    assert (Hidx : n1 / 64 < nwords B) by (apply nwords_lt; lia).
    destruct (t_word_view t b B _ Hrep Hidx) as (w0 & Hw0 & Hseg0). rewrite Hw0. cbn [bind].
    rewrite low_set_unchecked_ok by lia. cbn [bind].
    pose proof (wseg_mask_low _ _ _ _ _ (n1 mod 64) Hseg0 ltac:(lia)) as Hseg.
    replace (N.max 0 (n1 mod 64)) with (n1 mod 64) in Hseg by lia.
    assert (En1 : 64 * (n1 / 64) + n1 mod 64 = n1) by lia.
    destruct (scan_rank_select sp m t b B Hrep (scan_fuel b) (n1 / 64) (n1 mod 64) _ n Hidx Hseg ltac:(lia))
      as (i' & w' & r' & off & E & Hsel & Hpb & Hpr).
    { rewrite En1. fold B'. lia. }
    { rewrite (scan_fuel_spec b B Hrep). lia. }
    rewrite E. cbn [bind]. rewrite Hsel. cbn [bind fst snd].
    rewrite En1 in Hpr. fold B' in Hpb, Hpr. set (p := bit_offset i' off) in *.
    assert (Hp : nth_opt (ones B') (n0 + n) = Some p) by (apply nth_opt_ones_char; split; [exact Hpb|lia]).
    eexists. split; [|split].
    + rewrite Hp. reflexivity.
    + unfold oi_inv. cbn [oi_next oi_limit fst snd]. fold B'. split; [lia|]. split; [exact Hl|].
      intros _. split; [|exact Hl1]. rewrite rank1_succ, Hpb. cbn [b2n]. lia.
    + rewrite oi_mid_mid_of. cbn [oi_next oi_limit fst snd]. f_equal. lia.
Qed.

Corollary oi_nth_exhausts sp m t b B it n : bv_repr b B -> oi_inv t B it -> lenN (oi_mid t B it) <= n ->
  exists it', oi_nth sp m t b it n = Ok (it', None) /\ oi_inv t B it' /\ oi_mid t B it' = [].
Proof.
  intros H1 H2 Hn. destruct (oi_nth_spec sp m t b B it n H1 H2) as (it' & E & Hi & Hm).
  exists it'. rewrite nth_opt_None in E by exact Hn. split; [exact E|]. split; [exact Hi|].
  rewrite Hm. apply nth_opt_ext. intros i. rewrite nth_opt_skipN. cbn [nth_opt]. apply nth_opt_None. lia.
Qed.

(* ---- next_back ---- *)

Theorem oi_next_back_spec m t b B it : bv_repr b B -> oi_inv t B it ->
  (oi_mid t B it = [] /\ oi_next_back m t b it = Ok (it, None)) \/
  (exists it' x, oi_next_back m t b it = Ok (it', Some x) /\ oi_inv t B it' /\
                 oi_mid t B it = oi_mid t B it' ++ [x]).
Proof.
  intros Hrep Hinv. pose proof Hinv as (Hb & Hl & Hg). unfold oi_next_back.
  destruct it as [[n0 n1] [l0 l1]]. cbn [oi_next oi_limit fst snd] in *.
  rewrite !oi_mid_mid_of. cbn [oi_next oi_limit fst snd].
  destruct (N.leb_spec l0 n0) as [Hemp|Hne].
  - left. split; [apply mid_of_nil; lia|reflexivity].
  - right. destruct (Hg Hne) as [Hn1 Hl1]. set (B' := t_bits t B) in *.
    destruct (select_exists B' (l0 - 1) ltac:(lia)) as (q & Hq & Hqbit & Hqr & Hqlen).
    assert (Hql : q < l1) by (apply (rank1_lt_pos B'); lia).
    unfold usub. replace (1 <=? l0) with true by lia. replace (1 <=? l1) with true by lia. cbn [bind].
    rewrite split_offset_spec.
    assert (Hl' : l1 <= lenB B) by (rewrite <- (t_bits_len t B); exact Hl).
    assert (Hidx : (l1 - 1) / 64 < nwords B) by (apply nwords_lt; lia).
    destruct (t_word_view t b B _ Hrep Hidx) as (w0 & Hw0 & Hseg0). rewrite Hw0. cbn [bind].
    rewrite low_set_unchecked_ok by lia. cbn [bind].
    pose proof (wseg_mask_high _ _ _ _ _ ((l1 - 1) mod 64 + 1) Hseg0 ltac:(lia)) as Hseg.
    replace (N.min 64 ((l1 - 1) mod 64 + 1)) with ((l1 - 1) mod 64 + 1) in Hseg by lia.
    destruct (scan_bwd_spec m t b B Hrep (scan_fuel b) ((l1 - 1) / 64) ((l1 - 1) mod 64 + 1) _ q Hidx Hseg
                ltac:(lia) Hqbit ltac:(lia)) as (i' & w' & E & Hpb & Hpr).
    { rewrite (scan_fuel_spec b B Hrep). lia. }
    rewrite E. cbn [bind]. cbv zeta in Hpb, Hpr.
    replace (64 * ((l1 - 1) / 64) + ((l1 - 1) mod 64 + 1)) with l1 in Hpr by lia. fold B' in Hpb, Hpr.
    set (p := bit_offset i' (bits_WORD_BITS - 1 - leading_zeros w')) in *.
    assert (Hprk : rank1 B' p = l0 - 1) by (rewrite rank1_succ, Hpb in Hpr; cbn [b2n] in Hpr; lia).
    assert (Hp : nth_opt (ones B') (l0 - 1) = Some p) by (apply nth_opt_ones_char; split; assumption).
    exists (mkoi (n0, n1) (l0 - 1, p)), (l0 - 1, p). split; [reflexivity|]. split.
    + unfold oi_inv. cbn [oi_next oi_limit fst snd]. fold B'. split; [lia|]. split.
      * apply bitB_lt in Hpb. lia.
      * intros _. split; [exact Hn1|exact Hprk].
    + rewrite oi_mid_mid_of. cbn [oi_next oi_limit fst snd]. apply mid_of_last; assumption.
Qed.

(* ---- collecting from the start yields exactly the ranked positions ---- *)

Lemma oi_collect_spec t b B : bv_repr b B -> forall fuel it, oi_inv t B it ->
  (length (oi_mid t B it) < fuel)%nat -> oi_collect t b fuel it = Ok (oi_mid t B it).
Proof.
  intros Hrep. induction fuel as [|fuel IH]; intros it Hinv Hf; [lia|].
  cbn [oi_collect]. destruct (oi_next_spec t b B it Hrep Hinv) as (it' & E & Hinv' & Hm).
  rewrite E. cbn [bind]. destruct (oi_mid t B it) as [|x rest] eqn:Em; cbn [hd_error]; [reflexivity|].
  cbn [tl] in Hm. rewrite IH; [rewrite Hm; reflexivity|exact Hinv'|rewrite Hm; cbn [length] in Hf; lia].
Qed.

Corollary oi_collect_all t b B fuel : bv_repr b B -> (length (oi_R t B) < fuel)%nat ->
  oi_collect t b fuel (oi_start t b) = Ok (oi_R t B).
Proof.
  intros Hrep Hf. destruct (oi_start_inv t b B Hrep) as [Hinv Hm].
  rewrite <- Hm. apply oi_collect_spec; [exact Hrep|exact Hinv|rewrite Hm; exact Hf].
Qed.
