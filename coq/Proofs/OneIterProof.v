(* The set-bit iterator OneIter<T> of src/bit_vector.rs (Model/BitVec.v: oi_next_f, oi_nth, oi_next_back)
   refines a double-ended queue over the ranked positions of the set bits of the transformed vector.
   Contents: (0) facts about the list specification (rank/select characterisation of [ones]);
   (A) the word-level view of [t_word_unchecked]; (B) the iterator invariant, the abstraction function
   [oi_mid] and the one-step lemmas for next / next_back / nth / len; the scan loops never exhaust
   their fuel and never leave the word array. *)
From Coq Require Import NArith List Lia ZArith Bool.
Require Import SDS.Model.Mach SDS.Model.Bits SDS.Model.Raw SDS.Model.IntVec SDS.Model.BitVec SDS.gen.Consts.
Require Import SDS.Spec.BitSeq SDS.Proofs.BitsProof SDS.Proofs.SelectPortable SDS.Proofs.BVCommon.
Import ListNotations.
Open Scope N_scope.
Require Import ZifyBool ZifyN ZifyNat.
Ltac Zify.zify_post_hook ::= Z.div_mod_to_equations.
Arguments N.add : simpl never. Arguments N.sub : simpl never. Arguments N.mul : simpl never.
Arguments N.eqb : simpl never. Arguments N.ltb : simpl never. Arguments N.leb : simpl never.
Arguments N.pow : simpl never. Arguments N.shiftl : simpl never. Arguments N.shiftr : simpl never.
Arguments N.land : simpl never. Arguments N.lor : simpl never. Arguments N.div : simpl never.
Arguments N.modulo : simpl never. Arguments N.ones : simpl never. Arguments N.testbit : simpl never.

(* ================================================================ (0) the list specification *)

(* ---- getb / bitB ---- *)

Lemma getb_app B1 B2 i :
  getb (B1 ++ B2) i = if i <? lenB B1 then getb B1 i else getb B2 (i - lenB B1).
Proof.
  unfold lenB. revert i. induction B1 as [|b t IH]; intros i; cbn [app getb length].
  - change (N.of_nat 0) with 0. replace (i <? 0) with false by lia. f_equal. lia.
  - destruct (N.eqb_spec i 0) as [->|Hi].
    + replace (0 <? N.of_nat (S (length t))) with true by lia. reflexivity.
    + rewrite IH. replace (i - 1 <? N.of_nat (length t)) with (i <? N.of_nat (S (length t))) by lia.
      replace (i - 1 - N.of_nat (length t)) with (i - N.of_nat (S (length t))) by lia. reflexivity.
Qed.

Lemma getb_firstn n B i : getb (firstn n B) i = if i <? N.of_nat n then getb B i else None.
Proof.
  revert B i. induction n as [|n IH]; intros B i; cbn [firstn].
  - cbn [getb]. change (N.of_nat 0) with 0. replace (i <? 0) with false by lia. reflexivity.
  - destruct B as [|b t]; cbn [getb]; [destruct (i <? N.of_nat (S n)); reflexivity|].
    destruct (N.eqb_spec i 0) as [->|Hi].
    + replace (0 <? N.of_nat (S n)) with true by lia. reflexivity.
    + rewrite IH. replace (i - 1 <? N.of_nat n) with (i <? N.of_nat (S n)) by lia. reflexivity.
Qed.

Lemma getb_map f B i : getb (map f B) i = option_map f (getb B i).
Proof.
  revert i. induction B as [|b t IH]; intros i; cbn [map getb]; [reflexivity|].
  destruct (i =? 0); [reflexivity|apply IH].
Qed.

Lemma getb_None B i : lenB B <= i -> getb B i = None.
Proof.
  unfold lenB. revert i. induction B as [|b t IH]; intros i H; cbn [getb length] in *; [reflexivity|].
  destruct (N.eqb_spec i 0) as [->|Hi]; [lia|]. apply IH. lia.
Qed.

Lemma getb_Some_lt B i x : getb B i = Some x -> i < lenB B.
Proof.
  intros H. destruct (N.lt_ge_cases i (lenB B)) as [Hl|Hl]; [exact Hl|].
  rewrite getb_None in H by exact Hl. discriminate.
Qed.

Lemma getb_lt_Some B i : i < lenB B -> exists x, getb B i = Some x.
Proof.
  unfold lenB. revert i. induction B as [|b t IH]; intros i H; cbn [getb length] in *; [lia|].
  destruct (N.eqb_spec i 0) as [->|Hi]; [eexists; reflexivity|]. apply IH. lia.
Qed.

Lemma getb_bits_n n w j : getb (bits_n n w) j = if j <? N.of_nat n then Some (N.testbit w j) else None.
Proof.
  revert j. induction n as [|n IH]; intros j.
  - cbn [bits_n seq map getb]. change (N.of_nat 0) with 0. replace (j <? 0) with false by lia. reflexivity.
  - unfold bits_n. rewrite seq_S, map_app. fold (bits_n n w). rewrite getb_app. unfold lenB.
    rewrite bits_n_length. rewrite IH. cbn [map getb]. change (N.of_nat (0 + n)) with (N.of_nat n).
    destruct (N.ltb_spec j (N.of_nat n)) as [H|H].
    + replace (j <? N.of_nat (S n)) with true by lia. reflexivity.
    + destruct (N.eqb_spec (j - N.of_nat n) 0) as [E|E].
      * replace (j <? N.of_nat (S n)) with true by lia. f_equal. f_equal. lia.
      * replace (j <? N.of_nat (S n)) with false by lia. reflexivity.
Qed.

Lemma getb_wbits w j : getb (wbits w) j = if j <? 64 then Some (N.testbit w j) else None.
Proof. rewrite wbits_bits_n. apply getb_bits_n. Qed.

Lemma getb_bits_of_words ws p :
  getb (bits_of_words ws) p = option_map (fun w => N.testbit w (p mod 64)) (nthN ws (p / 64)).
Proof.
  unfold bits_of_words. revert p. induction ws as [|w t IH]; intros p; cbn [flat_map nthN]; [reflexivity|].
  rewrite getb_app. unfold lenB. rewrite wbits_length. change (N.of_nat 64) with 64.
  destruct (N.ltb_spec p 64) as [H|H].
  - rewrite getb_wbits. replace (p <? 64) with true by lia.
    replace (p / 64 =? 0) with true by lia. cbn [option_map]. f_equal. f_equal. lia.
  - replace (p / 64 =? 0) with false by lia. rewrite IH.
    replace ((p - 64) / 64) with (p / 64 - 1) by lia. replace ((p - 64) mod 64) with (p mod 64) by lia.
    reflexivity.
Qed.

Lemma bitB_lt B p : bitB B p = true -> p < lenB B.
Proof. unfold bitB. destruct (getb B p) eqn:E; [intros _; eapply getb_Some_lt; eauto|discriminate]. Qed.

Lemma bitB_ge B p : lenB B <= p -> bitB B p = false.
Proof. intros H. unfold bitB. rewrite getb_None by exact H. reflexivity. Qed.

Lemma bitB_bits_of len ws p : bitB (bits_of len ws) p = (p <? len) && bit ws p.
Proof.
  unfold bitB, bits_of. rewrite getb_firstn, N2Nat.id.
  destruct (N.ltb_spec p len) as [H|H]; [|reflexivity]. cbn [andb].
  rewrite getb_bits_of_words. unfold bit, getw.
  destruct (nthN ws (p / 64)); cbn [option_map]; [reflexivity|]. symmetry. apply N.bits_0.
Qed.

Lemma bitB_map_negb B p : bitB (map negb B) p = (p <? lenB B) && negb (bitB B p).
Proof.
  unfold bitB. rewrite getb_map.
  destruct (N.ltb_spec p (lenB B)) as [H|H].
  - destruct (getb_lt_Some B p H) as [x ->]. reflexivity.
  - rewrite getb_None by exact H. reflexivity.
Qed.

Lemma lenB_map f B : lenB (map f B) = lenB B.
Proof. unfold lenB. rewrite map_length. reflexivity. Qed.

Lemma count_map_negb B : count (map negb B) = lenB B - count B.
Proof.
  unfold lenB. induction B as [|b t IH]; cbn [map count length]; [reflexivity|].
  pose proof (count_le_length t). rewrite IH. destruct b; cbn [negb b2n]; lia.
Qed.

(* ---- rank1 ---- *)

Lemma rank1_0 B : rank1 B 0 = 0.
Proof. destruct B; reflexivity. Qed.

Lemma rank1_succ B i : rank1 B (i + 1) = rank1 B i + b2n (bitB B i).
Proof.
  unfold bitB. revert i. induction B as [|b t IH]; intros i; cbn [rank1 getb]; [reflexivity|].
  replace (i + 1 =? 0) with false by lia.
  destruct (N.eqb_spec i 0) as [->|Hi].
  - replace (0 + 1 - 1) with 0 by lia. rewrite rank1_0. lia.
  - replace (i + 1 - 1) with (i - 1 + 1) by lia. rewrite IH. lia.
Qed.

Lemma rank1_mono B i j : i <= j -> rank1 B i <= rank1 B j.
Proof.
  intros H. replace j with (i + (j - i)) by lia. generalize (j - i) as d. clear H j.
  intros d. induction d as [|d IH] using N.peano_ind; [rewrite N.add_0_r; lia|].
  replace (i + N.succ d) with (i + d + 1) by lia. rewrite rank1_succ. lia.
Qed.

Lemma rank1_no_ones B a b :
  a <= b -> (forall p, a <= p < b -> bitB B p = false) -> rank1 B b = rank1 B a.
Proof.
  intros H. replace b with (a + (b - a)) by lia. generalize (b - a) as d. clear H b.
  intros d. induction d as [|d IH] using N.peano_ind; intros Hz; [rewrite N.add_0_r; reflexivity|].
  replace (a + N.succ d) with (a + d + 1) by lia. rewrite rank1_succ, IH.
  - rewrite Hz by lia. cbn [b2n]. lia.
  - intros p Hp. apply Hz. lia.
Qed.

Lemma rank1_set_lt B p : bitB B p = true -> rank1 B p < count B.
Proof.
  intros H. pose proof (rank1_succ B p) as E. rewrite H in E. cbn [b2n] in E.
  pose proof (rank1_le B (p + 1)). lia.
Qed.

Lemma rank1_lt_count_lt B i : rank1 B i < count B -> i < lenB B.
Proof.
  intros H. destruct (N.lt_ge_cases i (lenB B)) as [Hl|Hl]; [exact Hl|].
  rewrite rank1_all in H by exact Hl. lia.
Qed.

(* ---- the rank/select characterisation of [ones] ---- *)

Lemma nth_opt_ones_from_char B pos r q :
  nth_opt (ones_from B pos) r = Some q <->
  exists p, q = pos + p /\ bitB B p = true /\ rank1 B p = r.
Proof.
  unfold bitB. revert pos r. induction B as [|b t IH]; intros pos r; cbn [ones_from].
  - cbn [nth_opt getb]. split; [discriminate|]. intros (p & _ & H & _). discriminate.
  - destruct b.
    + cbn [nth_opt]. destruct (N.eqb_spec r 0) as [->|Hr].
      * split.
        -- intros H. inversion H; subst. exists 0. cbn [getb rank1]. replace (0 =? 0) with true by lia.
           split; [lia|split; reflexivity].
        -- intros (p & -> & Hb & Hr). cbn [getb rank1] in *.
           destruct (N.eqb_spec p 0) as [->|Hp]; [f_equal; lia|]. cbn [b2n] in Hr. lia.
      * rewrite IH. split.
        -- intros (p & -> & Hb & Hrk). exists (p + 1). cbn [getb rank1].
           replace (p + 1 =? 0) with false by lia. replace (p + 1 - 1) with p by lia.
           split; [lia|]. split; [exact Hb|]. cbn [b2n]. lia.
        -- intros (p & -> & Hb & Hrk). cbn [getb rank1] in *.
           destruct (N.eqb_spec p 0) as [->|Hp]; [lia|]. exists (p - 1).
           split; [lia|]. split; [exact Hb|]. cbn [b2n] in Hrk. lia.
    + rewrite IH. split.
      * intros (p & -> & Hb & Hrk). exists (p + 1). cbn [getb rank1].
        replace (p + 1 =? 0) with false by lia. replace (p + 1 - 1) with p by lia.
        split; [lia|]. split; [exact Hb|]. cbn [b2n]. lia.
      * intros (p & -> & Hb & Hrk). cbn [getb rank1] in *.
        destruct (N.eqb_spec p 0) as [->|Hp]; [discriminate|]. exists (p - 1).
        split; [lia|]. split; [exact Hb|]. cbn [b2n] in Hrk. lia.
Qed.

(* position p holds the set bit of rank r  <->  bit p is set and r set bits precede it *)
Lemma nth_opt_ones_char B r p :
  nth_opt (ones B) r = Some p <-> bitB B p = true /\ rank1 B p = r.
Proof.
  unfold ones. rewrite nth_opt_ones_from_char. split.
  - intros (q & -> & H). rewrite N.add_0_l. exact H.
  - intros H. exists p. split; [lia|exact H].
Qed.

Lemma nth_opt_None {A} (l : list A) i : lenN l <= i -> nth_opt l i = None.
Proof.
  unfold lenN. revert i. induction l as [|x t IH]; intros i H; cbn [nth_opt length] in *; [reflexivity|].
  destruct (N.eqb_spec i 0) as [->|Hi]; [lia|]. apply IH. lia.
Qed.

Lemma nth_opt_lt_Some {A} (l : list A) i : i < lenN l -> exists x, nth_opt l i = Some x.
Proof.
  unfold lenN. revert i. induction l as [|x t IH]; intros i H; cbn [nth_opt length] in *; [lia|].
  destruct (N.eqb_spec i 0) as [->|Hi]; [eexists; reflexivity|]. apply IH. lia.
Qed.

Lemma nth_opt_Some_lt {A} (l : list A) i x : nth_opt l i = Some x -> i < lenN l.
Proof.
  intros H. destruct (N.lt_ge_cases i (lenN l)) as [Hl|Hl]; [exact Hl|].
  rewrite nth_opt_None in H by exact Hl. discriminate.
Qed.

Lemma lenN_ones B : lenN (ones B) = count B.
Proof. unfold lenN, ones. apply ones_from_length. Qed.

(* every rank below the number of ones is selected by exactly one position *)
Lemma select_exists B r : r < count B ->
  exists p, nth_opt (ones B) r = Some p /\ bitB B p = true /\ rank1 B p = r /\ p < lenB B.
Proof.
  intros H. destruct (nth_opt_lt_Some (ones B) r) as [p Hp]; [rewrite lenN_ones; exact H|].
  exists p. split; [exact Hp|]. apply nth_opt_ones_char in Hp. destruct Hp as [Hb Hr].
  split; [exact Hb|]. split; [exact Hr|]. apply bitB_lt. exact Hb.
Qed.

Lemma select_none B r : count B <= r -> nth_opt (ones B) r = None.
Proof. intros H. apply nth_opt_None. rewrite lenN_ones. exact H. Qed.

(* ---- list toolkit: nth_opt / skipN / index_from / firstn ---- *)

Lemma nth_opt_ext {A} (l1 l2 : list A) : (forall i, nth_opt l1 i = nth_opt l2 i) -> l1 = l2.
Proof.
  revert l2. induction l1 as [|x t IH]; intros l2 H.
  - destruct l2 as [|y u]; [reflexivity|]. specialize (H 0). discriminate.
  - destruct l2 as [|y u]; [specialize (H 0); discriminate|].
    pose proof (H 0) as H0. cbn [nth_opt] in H0. replace (0 =? 0) with true in H0 by lia.
    inversion H0; subst. f_equal. apply IH. intros i. specialize (H (i + 1)). cbn [nth_opt] in H.
    replace (i + 1 =? 0) with false in H by lia. replace (i + 1 - 1) with i in H by lia. exact H.
Qed.

Lemma nth_opt_cons {A} (x : A) t i : nth_opt (x :: t) (i + 1) = nth_opt t i.
Proof. cbn [nth_opt]. replace (i + 1 =? 0) with false by lia. f_equal. lia. Qed.

Lemma nth_opt_tl {A} (l : list A) i : nth_opt (tl l) i = nth_opt l (i + 1).
Proof. destruct l as [|x t]; [reflexivity|]. cbn [tl]. rewrite nth_opt_cons. reflexivity. Qed.

Lemma nth_opt_hd {A} (l : list A) : hd_error l = nth_opt l 0.
Proof. destruct l; reflexivity. Qed.

Lemma nth_opt_skipN {A} (l : list A) n i : nth_opt (skipN l n) i = nth_opt l (n + i).
Proof.
  revert n. induction l as [|x t IH]; intros n; cbn [skipN]; [reflexivity|].
  destruct (N.eqb_spec n 0) as [->|Hn]; [f_equal; lia|].
  rewrite IH. cbn [nth_opt]. replace (n + i =? 0) with false by lia. f_equal. lia.
Qed.

Lemma nth_opt_firstn {A} k (l : list A) i :
  nth_opt (firstn k l) i = if i <? N.of_nat k then nth_opt l i else None.
Proof.
  revert l i. induction k as [|k IH]; intros l i; cbn [firstn].
  - cbn [nth_opt]. change (N.of_nat 0) with 0. replace (i <? 0) with false by lia. reflexivity.
  - destruct l as [|x t]; cbn [nth_opt]; [destruct (i <? N.of_nat (S k)); reflexivity|].
    destruct (N.eqb_spec i 0) as [->|Hi].
    + replace (0 <? N.of_nat (S k)) with true by lia. reflexivity.
    + rewrite IH. replace (i - 1 <? N.of_nat k) with (i <? N.of_nat (S k)) by lia. reflexivity.
Qed.

Lemma nth_opt_index_from {A} (l : list A) s i :
  nth_opt (index_from l s) i = option_map (fun x => (s + i, x)) (nth_opt l i).
Proof.
  revert s i. induction l as [|x t IH]; intros s i; cbn [index_from nth_opt]; [reflexivity|].
  destruct (N.eqb_spec i 0) as [->|Hi]; [cbn [option_map]; do 2 f_equal; lia|].
  rewrite IH. destruct (nth_opt t (i - 1)); cbn [option_map]; [do 2 f_equal; lia|reflexivity].
Qed.

Lemma lenN_nth_opt {A} (l : list A) n : (forall i, nth_opt l i = None <-> n <= i) -> lenN l = n.
Proof.
  intros H. destruct (N.lt_trichotomy (lenN l) n) as [Hl|[Hl|Hl]]; [|exact Hl|].
  - pose proof (nth_opt_None l (lenN l) (N.le_refl _)) as E. apply H in E. lia.
  - destruct (nth_opt_lt_Some l n Hl) as [x Hx]. assert (E : nth_opt l n = None) by (apply H; lia).
    congruence.
Qed.

Lemma lenN_app {A} (l1 l2 : list A) : lenN (l1 ++ l2) = lenN l1 + lenN l2.
Proof. unfold lenN. rewrite app_length. lia. Qed.

Lemma lenN_index_from {A} (l : list A) s : lenN (index_from l s) = lenN l.
Proof. unfold lenN. revert s. induction l as [|x t IH]; intros s; cbn [index_from length]; [reflexivity|]. specialize (IH (s + 1)). lia. Qed.

Lemma lenN_skipN {A} (l : list A) n : lenN (skipN l n) = lenN l - n.
Proof.
  unfold lenN. revert n. induction l as [|x t IH]; intros n; cbn [skipN length]; [reflexivity|].
  destruct (N.eqb_spec n 0) as [->|Hn]; [cbn [length]; lia|]. rewrite IH. lia.
Qed.

Lemma lenN_firstn {A} k (l : list A) : lenN (firstn k l) = N.min (N.of_nat k) (lenN l).
Proof. unfold lenN. rewrite firstn_length. lia. Qed.

(* ================================================================ (A) the word-level view *)

Lemma bits_of_words_length ws : lenB (bits_of_words ws) = 64 * lenN ws.
Proof.
  unfold lenB, lenN, bits_of_words. induction ws as [|w t IH]; cbn [flat_map length]; [reflexivity|].
  rewrite app_length, wbits_length. lia.
Qed.

Lemma lenB_bits_of len ws : lenB (bits_of len ws) = N.min len (64 * lenN ws).
Proof.
  unfold bits_of. pose proof (bits_of_words_length ws) as H. unfold lenB in *. rewrite firstn_length. lia.
Qed.

(* number of 64-bit words of a sequence *)
Definition nwords (B : list bool) : N := (lenB B + 63) / 64.

Lemma repr_facts b B : bv_repr b B ->
  lenB B = bv_len b /\ bv_len b < 2 ^ 64 /\ lenN (rdata (bv_data b)) = nwords B /\
  wf (rdata (bv_data b)) /\ (forall p, bitB B p = bit (rdata (bv_data b)) p) /\ bv_ones b = count B.
Proof.
  intros (Hwf & HB & Hones). destruct Hwf as (Hlen & Hw & Hz & Hlt). unfold bv_len in *.
  assert (HL : lenB B = rlen (bv_data b)) by (rewrite HB, lenB_bits_of; lia).
  split; [exact HL|]. split; [exact Hlt|]. split; [unfold nwords; rewrite HL; exact Hlen|].
  split; [exact Hw|]. split; [|exact Hones].
  intros p. rewrite HB at 1. rewrite bitB_bits_of.
  destruct (N.ltb_spec p (rlen (bv_data b))) as [H|H]; [reflexivity|]. rewrite Hz by exact H. reflexivity.
Qed.

Lemma t_bits_len t B : lenB (t_bits t B) = lenB B.
Proof. destruct t; [reflexivity|apply lenB_map]. Qed.

Lemma t_count_ones_spec t b B : bv_repr b B -> t_count_ones t b = count (t_bits t B).
Proof.
  intros H. destruct (repr_facts b B H) as (HL & _ & _ & _ & _ & Ho).
  destruct t; cbn [t_count_ones t_bits]; unfold bv_count_ones, bv_count_zeros.
  - exact Ho.
  - rewrite count_map_negb, HL, Ho. reflexivity.
Qed.

Lemma testbit_wnot x j : N.testbit (wnot x) j = xorb (N.testbit x j) (j <? 64).
Proof. unfold wnot. rewrite N.lxor_spec, testbit_ones. reflexivity. Qed.

Lemma wnot_lt x : x < 2 ^ 64 -> wnot x < 2 ^ 64.
Proof.
  intros H. apply lt_pow2_of_bits. intros k Hk. rewrite testbit_wnot, (testbit_high x k H Hk).
  replace (k <? 64) with false by lia. reflexivity.
Qed.

(* w holds the bits lo..hi-1 of word k of B (false elsewhere) *)
Definition wseg (B : list bool) (k lo hi w : N) : Prop :=
  w < 2 ^ 64 /\ forall j, j < 64 -> N.testbit w j = (lo <=? j) && (j <? hi) && bitB B (64 * k + j).

Lemma bit_word ws k j : j < 64 -> bit ws (64 * k + j) = N.testbit (getw ws k) j.
Proof.
  intros H. unfold bit. replace ((64 * k + j) / 64) with k by lia.
  replace ((64 * k + j) mod 64) with j by lia. reflexivity.
Qed.

(* A: the word read by the iterator and by the select scan is word k of the transformed sequence,
   padded with false; beyond the last word the unchecked access leaves the buffer *)
Theorem t_word_view t b B k : bv_repr b B -> k < nwords B ->
  exists w, t_word_unchecked t b k = Ok w /\ wseg (t_bits t B) k 0 64 w.
Proof.
  intros Hrep Hk. destruct (repr_facts b B Hrep) as (HL & Hlt & Hnw & Hwf & Hbit & _).
  assert (Hkl : k < lenN (rdata (bv_data b))) by (rewrite Hnw; exact Hk).
  destruct (nthN_lt_Some _ _ Hkl) as [w0 Hw0].
  assert (Hw0lt : w0 < 2 ^ 64) by (eapply wf_nthN; eauto).
  assert (Hg : getw (rdata (bv_data b)) k = w0) by (unfold getw; rewrite Hw0; reflexivity).
  assert (Hraw : raw_word_unchecked (bv_data b) k = Ok w0).
  { unfold raw_word_unchecked, idx_unchecked. rewrite Hw0. reflexivity. }
  destruct t; cbn [t_word_unchecked t_bits].
  - exists w0. split; [exact Hraw|]. split; [exact Hw0lt|]. intros j Hj.
    rewrite Hbit, bit_word, Hg by exact Hj. replace (0 <=? j) with true by lia.
    replace (j <? 64) with true by lia. reflexivity.
  - rewrite split_offset_spec, Hraw. cbn [bind]. unfold nwords in Hk. rewrite HL in Hk.
    destruct (N.leb_spec (bv_len b / 64) k) as [Hlast|Hlast].
    + rewrite low_set_unchecked_ok by lia. cbn [bind]. eexists. split; [reflexivity|]. split.
      * apply lt_pow2_of_bits. intros j Hj. rewrite N.land_spec, testbit_ones.
        replace (j <? bv_len b mod 64) with false by lia. apply andb_false_r.
      * intros j Hj. rewrite N.land_spec, testbit_ones, testbit_wnot, bitB_map_negb, Hbit, bit_word, Hg, HL by exact Hj.
        replace (0 <=? j) with true by lia. replace (j <? 64) with true by lia. cbn [andb].
        destruct (N.ltb_spec j (bv_len b mod 64)).
        -- replace (64 * k + j <? bv_len b) with true by lia. rewrite andb_true_r. cbn [andb].
           destruct (N.testbit w0 j); reflexivity.
        -- replace (64 * k + j <? bv_len b) with false by lia. rewrite andb_false_r. reflexivity.
    + eexists. split; [reflexivity|]. split; [apply wnot_lt; exact Hw0lt|].
      intros j Hj. rewrite testbit_wnot, bitB_map_negb, Hbit, bit_word, Hg, HL by exact Hj.
      replace (0 <=? j) with true by lia. replace (j <? 64) with true by lia.
      replace (64 * k + j <? bv_len b) with true by lia. cbn [andb]. destruct (N.testbit w0 j); reflexivity.
Qed.

Theorem t_word_oob t b B k : bv_repr b B -> nwords B <= k -> t_word_unchecked t b k = OOB SITE_RAW_WORD.
Proof.
  intros Hrep Hk. destruct (repr_facts b B Hrep) as (_ & _ & Hnw & _).
  assert (Hraw : raw_word_unchecked (bv_data b) k = OOB SITE_RAW_WORD).
  { unfold raw_word_unchecked, idx_unchecked.
    assert (E : nthN (rdata (bv_data b)) k = None) by (apply nthN_None_ge; rewrite Hnw; exact Hk).
    rewrite E. reflexivity. }
  destruct t; cbn [t_word_unchecked]; [exact Hraw|].
  rewrite split_offset_spec, Hraw. reflexivity.
Qed.

(* the same fact in list form: the 64 bits of the word are bits 64k .. 64k+63 of the sequence *)
Lemma wseg_full_wbits B k w : wseg B k 0 64 w ->
  wbits w = map (fun j => bitB B (64 * k + N.of_nat j)) (seq 0 64).
Proof.
  intros [_ H]. unfold wbits. apply map_ext_in. intros j Hj. apply in_seq in Hj.
  rewrite H by lia. replace (0 <=? N.of_nat j) with true by lia.
  replace (N.of_nat j <? 64) with true by lia. reflexivity.
Qed.

Lemma wseg_mask_low B k lo hi w off : wseg B k lo hi w -> off <= 64 ->
  wseg B k (N.max lo off) hi (N.land w (wnot (N.ones off))).
Proof.
  intros [Hlt H] Hoff. split.
  - apply lt_pow2_of_bits. intros j Hj. rewrite N.land_spec, (testbit_high w j Hlt Hj). reflexivity.
  - intros j Hj. rewrite N.land_spec, testbit_wnot, testbit_ones, H by exact Hj.
    replace (j <? 64) with true by lia.
    destruct (N.ltb_spec j off); destruct (N.leb_spec lo j); destruct (N.leb_spec (N.max lo off) j);
      try lia; cbn [andb xorb]; rewrite ?andb_false_r, ?andb_true_r; reflexivity.
Qed.

Lemma wseg_mask_high B k lo hi w off : wseg B k lo hi w -> off <= 64 ->
  wseg B k lo (N.min hi off) (N.land w (N.ones off)).
Proof.
  intros [Hlt H] Hoff. split.
  - apply lt_pow2_of_bits. intros j Hj. rewrite N.land_spec, (testbit_high w j Hlt Hj). reflexivity.
  - intros j Hj. rewrite N.land_spec, testbit_ones, H by exact Hj.
    destruct (N.ltb_spec j off); destruct (N.ltb_spec j hi); destruct (N.ltb_spec j (N.min hi off));
      try lia; cbn [andb]; rewrite ?andb_false_r, ?andb_true_r; reflexivity.
Qed.

(* counting inside a word segment *)
Lemma bits_n_snoc n w : bits_n (S n) w = bits_n n w ++ [N.testbit w (N.of_nat n)].
Proof. unfold bits_n. rewrite seq_S, map_app. reflexivity. Qed.

Lemma wseg_rank B k lo hi w : wseg B k lo hi w -> lo <= hi <= 64 -> forall n, (n <= 64)%nat ->
  rank1 B (64 * k + N.max lo (N.min (N.of_nat n) hi)) = rank1 B (64 * k + lo) + count (bits_n n w).
Proof.
  intros [Hlt H] Hb n. induction n as [|n IH]; intros Hn.
  - change (N.of_nat 0) with 0. replace (N.max lo (N.min 0 hi)) with lo by lia.
    cbn [bits_n seq map count]. lia.
  - rewrite bits_n_snoc, count_app. cbn [count]. rewrite N.add_0_r, N.add_assoc, <- IH by lia.
    rewrite H by lia.
    destruct (N.leb_spec lo (N.of_nat n)) as [H1|H1]; destruct (N.ltb_spec (N.of_nat n) hi) as [H2|H2]; cbn [andb b2n].
    + replace (N.max lo (N.min (N.of_nat (S n)) hi)) with (N.of_nat n + 1) by lia.
      replace (N.max lo (N.min (N.of_nat n) hi)) with (N.of_nat n) by lia.
      rewrite N.add_assoc, rank1_succ. reflexivity.
    + replace (N.max lo (N.min (N.of_nat (S n)) hi)) with (N.max lo (N.min (N.of_nat n) hi)) by lia. lia.
    + replace (N.max lo (N.min (N.of_nat (S n)) hi)) with (N.max lo (N.min (N.of_nat n) hi)) by lia. lia.
    + replace (N.max lo (N.min (N.of_nat (S n)) hi)) with (N.max lo (N.min (N.of_nat n) hi)) by lia. lia.
Qed.

Lemma wseg_popcount B k lo hi w : wseg B k lo hi w -> lo <= hi <= 64 ->
  rank1 B (64 * k + hi) = rank1 B (64 * k + lo) + popcount w.
Proof.
  intros Hs Hb. pose proof (wseg_rank B k lo hi w Hs Hb 64%nat (le_n _)) as E.
  change (N.of_nat 64) with 64 in E. replace (N.max lo (N.min 64 hi)) with hi in E by lia.
  rewrite popcount_wbits by apply Hs. rewrite wbits_bits_n. exact E.
Qed.

(* rank of a position inside a plain word (used through select_in_word) *)
Lemma bitB_wbits w j : bitB (wbits w) j = (j <? 64) && N.testbit w j.
Proof. unfold bitB. rewrite getb_wbits. destruct (j <? 64); reflexivity. Qed.

Lemma rank1_wbits w p : w < 2 ^ 64 -> p <= 64 -> rank1 (wbits w) p = count (bits_n (N.to_nat p) w).
Proof.
  intros Hw Hp. assert (Hs : wseg (wbits w) 0 0 64 w).
  { split; [exact Hw|]. intros j Hj. rewrite bitB_wbits. replace (64 * 0 + j) with j by lia.
    replace (0 <=? j) with true by lia. replace (j <? 64) with true by lia. reflexivity. }
  assert (Hb : 0 <= 64 <= 64) by lia. assert (Hn : (N.to_nat p <= 64)%nat) by lia.
  pose proof (wseg_rank _ _ _ _ _ Hs Hb (N.to_nat p) Hn) as E.
  rewrite N2Nat.id, rank1_0 in E. replace (64 * 0 + N.max 0 (N.min p 64)) with p in E by lia. lia.
Qed.

Lemma select_in_word_unfold w r : select_in_word w r = nth_opt (ones (wbits w)) r.
Proof. reflexivity. Qed.

(* in-word select read against the sequence: the selected offset is a set bit of the segment and
   exactly r set bits of the segment precede it *)
Lemma wseg_select B k lo hi w r p : wseg B k lo hi w -> lo <= hi <= 64 ->
  select_in_word w r = Some p ->
  lo <= p < hi /\ bitB B (64 * k + p) = true /\ rank1 B (64 * k + p) = rank1 B (64 * k + lo) + r.
Proof.
  intros Hs Hb Hsel. pose proof Hs as [Hlt H]. rewrite select_in_word_unfold in Hsel.
  apply nth_opt_ones_char in Hsel. destruct Hsel as [Hbit Hrk]. rewrite bitB_wbits in Hbit.
  destruct (N.ltb_spec p 64) as [Hp|Hp]; [|discriminate]. cbn [andb] in Hbit.
  rewrite H in Hbit by exact Hp.
  destruct (N.leb_spec lo p) as [H1|H1]; [|discriminate].
  destruct (N.ltb_spec p hi) as [H2|H2]; [|discriminate]. cbn [andb] in Hbit.
  split; [lia|]. split; [exact Hbit|].
  rewrite rank1_wbits in Hrk by lia.
  assert (Hn : (N.to_nat p <= 64)%nat) by lia.
  pose proof (wseg_rank B k lo hi w Hs Hb (N.to_nat p) Hn) as E.
  rewrite N2Nat.id in E. replace (N.max lo (N.min p hi)) with p in E by lia. lia.
Qed.

Lemma word_select_correct sp m w r : w < 2 ^ 64 -> r < popcount w ->
  exists p, word_select sp m w r = Ok p /\ select_in_word w r = Some p /\ p < 64.
Proof. intros Hw Hr. destruct sp; [apply select_pdep_correct|apply select_portable_correct]; assumption. Qed.
